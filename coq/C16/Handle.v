(* C16 — the user's side: `KademliaHandle` (src/protocol/libp2p/kademlia/handle.rs) in front of the composed
   model.  Definitions and their proofs.

   - `hquorum`: enum Quorum as the user can write it (N carries a NonZeroUsize: Quorum::N(0) does not exist);
   - `hcmd`: enum KademliaCommand; `hbody` + `tr`: the fifteen methods of the handle (nine `async`, six
     `try_*`); the handle draws the query id from the shared counter BEFORE it sends, sends into a bounded
     channel (the async methods wait for a slot: `h_park`; the try_ methods fail when the channel is full or
     closed; the async ones drop the error of a closed channel), and returns the id;
   - the loop takes the commands in order (`OTake`: one `select!` iteration of the command branch), draws
     the ids of provider refreshes from the same counter (`OFire`), and every command is one user event of
     the composed model (`h2u`): which engine start it performs is `start_name`, checked against the arms of
     `Kademlia::run` extracted from the source;
   - the tables of coq/gen/C16Tables.v (tools/gen_c16_tables.py, regenerated from the source on every check)
     are restated from the model's functions: `tables_in_sync`. *)
From Coq Require Import List NArith Bool String Lia.
From V.gen Require C16Tables.
From V.C14 Require Model.
From V.C16 Require Import Model Proofs Compose Comp HandleModel.
Import ListNotations.
Open Scope N_scope.

(* ---- ids are fresh: the assumption `ufresh` of the composed theorems is a theorem here ---- *)
Definition ids_of (l : list hcmd) : list N :=
  flat_map (fun c => match cmd_id c with Some q => [q] | None => [] end) l.
Definition pending_ids (h : hstate) : list N :=
  ids_of (h_chan h) ++ ids_of (match h_park h with Some c => [c] | None => [] end).

(* every id in flight or already used is below the counter, and no two are equal *)
Definition HInv (h : hstate) (seen : list N) : Prop :=
  NoDup (pending_ids h ++ seen) /\ forall q, In q (pending_ids h ++ seen) -> q < h_next h.

Lemma ids_of_app : forall a b, ids_of (a ++ b) = ids_of a ++ ids_of b.
Proof. intros. unfold ids_of. apply flat_map_app. Qed.

Import Permutation.

(* the ids in flight and used change by a permutation, plus at most the id just drawn *)
Lemma HInv_perm : forall h seen h' seen' extra,
  HInv h seen ->
  Permutation (pending_ids h' ++ seen') (extra ++ pending_ids h ++ seen) ->
  (extra = [] /\ h_next h <= h_next h') \/ (extra = [h_next h] /\ h_next h < h_next h') ->
  HInv h' seen'.
Proof.
  intros h seen h' seen' extra [Hn Hl] Hp He. split.
  - eapply Permutation_NoDup; [apply Permutation_sym; exact Hp |].
    destruct He as [[-> _] | [-> _]]; cbn [app]; [exact Hn |]. constructor; [| exact Hn].
    intro Hin. specialize (Hl _ Hin). lia.
  - intros x Hx. apply (Permutation_in _ Hp) in Hx.
    destruct He as [[-> Hle] | [-> Hlt]]; cbn [app] in Hx.
    + specialize (Hl x Hx). lia.
    + destruct Hx as [<- | Hx]; [exact Hlt | specialize (Hl x Hx); lia].
Qed.

Lemma ids_one : forall c, ids_of [c] = match cmd_id c with Some q => [q] | None => [] end.
Proof. intro c. unfold ids_of. cbn [flat_map]. apply app_nil_r. Qed.

Lemma hcall_inv : forall h tr b seen, HInv h seen -> HInv (fst (hcall h tr b)) seen.
Proof.
  intros h tr b seen HI. unfold hcall.
  set (q := h_next h). set (c := with_id b q).
  set (P := ids_of match h_park h with Some c => [c] | None => [] end).
  assert (Keep : forall cl, HInv (mkH (if draws b then q + 1 else q) (h_chan h) (h_cap h) cl (h_park h)) seen).
  { intro cl. apply (HInv_perm h seen _ seen [] HI); [apply Permutation_refl |].
    left. split; [reflexivity |]. cbn [h_next]. destruct (draws b); lia. }
  assert (Push : forall cl, HInv (mkH (if draws b then q + 1 else q) (h_chan h ++ [c]) (h_cap h) cl (h_park h)) seen).
  { intro cl. apply (HInv_perm h seen _ seen (if draws b then [q] else []) HI).
    - unfold pending_ids. cbn [h_chan h_park]. rewrite ids_of_app, ids_one. subst c. rewrite with_id_id.
      destruct (draws b); rewrite <- ?app_assoc; cbn [app]; rewrite ?app_nil_r; first [apply Permutation_refl | apply Permutation_sym, Permutation_middle].
    - cbn [h_next]. destruct (draws b); [right; split; [reflexivity | lia] | left; split; [reflexivity | lia]]. }
  assert (Park : h_park h = None -> HInv (mkH (if draws b then q + 1 else q) (h_chan h) (h_cap h) false (Some c)) seen).
  { intro Hp. apply (HInv_perm h seen _ seen (if draws b then [q] else []) HI).
    - unfold pending_ids. cbn [h_chan h_park]. rewrite Hp, ids_one. subst c. rewrite with_id_id.
      unfold ids_of at 3. cbn [flat_map]. rewrite app_nil_r.
      destruct (draws b); rewrite <- ?app_assoc; cbn [app]; rewrite ?app_nil_r; first [apply Permutation_refl | apply Permutation_sym, Permutation_middle].
    - cbn [h_next]. destruct (draws b); [right; split; [reflexivity | lia] | left; split; [reflexivity | lia]]. }
  destruct tr.
  - destruct (h_closed h || full h); cbn [fst]; [apply Keep | apply Push].
  - destruct (h_closed h); cbn [fst]; [apply Keep |].
    destruct (full h); cbn [fst]; [| apply Push].
    destruct (h_park h) eqn:Hp; [apply Keep | apply Park; reflexivity].
Qed.

(* taking a command moves its id from the channel to the used ones *)
Lemma hrecv_inv : forall h seen h1 c, hrecv h = (h1, Some c) -> HInv h seen ->
  HInv h1 (match cmd_id c with Some q => q :: seen | None => seen end).
Proof.
  intros h seen h1 c. unfold hrecv. destruct (h_chan h) as [| c0 t] eqn:Ec; [discriminate |].
  intros E HI. injection E as <- <-. apply (HInv_perm h seen _ _ [] HI).
  - unfold pending_ids. rewrite Ec. cbn [h_chan h_park app].
    assert (Ex : ids_of (c0 :: t) = match cmd_id c0 with Some q => [q] | None => [] end ++ ids_of t) by reflexivity.
    rewrite Ex. clear Ex.
    destruct (cmd_id c0); rewrite <- ?app_assoc; cbn [app]; [| apply Permutation_refl].
    rewrite !app_assoc. apply Permutation_sym, Permutation_middle.
  - left. split; [reflexivity |]. cbn [h_next]. lia.
Qed.

Lemma hwake_inv : forall h seen, HInv h seen -> HInv (fst (hwake h)) seen.
Proof.
  intros h seen HI. unfold hwake. destruct (h_park h) as [c |] eqn:Ep; [| exact HI].
  destruct (full h); [exact HI |]. cbn [fst]. apply (HInv_perm h seen _ seen [] HI).
  - unfold pending_ids. cbn [h_chan h_park app]. rewrite Ep, ids_of_app.
    unfold ids_of at 3. cbn [flat_map]. rewrite app_nil_r. apply Permutation_refl.
  - left. split; [reflexivity |]. cbn [h_next]. lia.
Qed.

Lemma hrecv_none : forall h, snd (hrecv h) = None -> fst (hrecv h) = h.
Proof. intros h. unfold hrecv. destruct (h_chan h); [reflexivity | discriminate]. Qed.

Lemma hrun_fresh : forall ops h seen, HInv h seen -> ufresh seen (snd (fst (hrun h ops))).
Proof.
  induction ops as [| o t IH]; intros h seen HI; [exact I |]. destruct o as [tr b | | | rk wait tg | u]; cbn [hrun].
  - pose proof (hcall_inv h tr b seen HI) as H1. destruct (hcall h tr b) as [h1 r]. cbn [fst] in H1.
    specialize (IH h1 seen H1). destruct (hrun h1 t) as [[h2 us] rs]. exact IH.
  - destruct (hrecv h) as [h1 c] eqn:Er. destruct c as [c |].
    + pose proof (hrecv_inv h seen h1 c Er HI) as H1.
      specialize (IH h1 _ H1). destruct (hrun h1 t) as [[h2 us] rs]. cbn [fst snd] in *.
      cbn [ufresh]. rewrite h2u_started. destruct (cmd_id c) as [q |]; [| exact IH].
      split; [| exact IH].
      (* q was in the channel: it is not among the used ids *)
      destruct H1 as [H1 _]. intro Hin. apply NoDup_remove_2 in H1. apply H1. apply in_or_app. right. exact Hin.
    + pose proof (hrecv_none h) as E. rewrite Er in E. cbn [fst snd] in E. rewrite E by reflexivity.
      specialize (IH h seen HI). destruct (hrun h t) as [[h2 us] rs]. exact IH.
  - apply IH. apply hwake_inv. exact HI.
  - set (h1 := mkH (h_next h + 1) (h_chan h) (h_cap h) (h_closed h) (h_park h)).
    assert (H1 : HInv h1 (h_next h :: seen)).
    { apply (HInv_perm h seen _ _ [h_next h] HI).
      - subst h1. unfold pending_ids. cbn [h_chan h_park app]. apply Permutation_sym, Permutation_middle.
      - right. split; [reflexivity |]. subst h1. cbn [h_next]. lia. }
    specialize (IH h1 _ H1). destruct (hrun h1 t) as [[h2 us] rs]. cbn [fst snd ufresh ustarted_by] in *.
    split; [| exact IH]. destruct HI as [_ Hl]. intro Hin.
    specialize (Hl _ (in_or_app _ _ _ (or_intror Hin))). lia.
  - specialize (IH h seen HI). destruct (hrun h t) as [[h2 us] rs]. cbn [fst snd] in *.
    unfold env_ok. destruct (ustarted_by u) eqn:Eu; cbn [app]; [exact IH |]. cbn [ufresh]. rewrite Eu. exact IH.
Qed.

(* the ids the handle and the refresh branch hand out are fresh, whatever the user and the loop do *)
Lemma handle_ids_fresh : forall cap ops, ufresh [] (snd (fst (hrun (h0 cap) ops))).
Proof.
  intros. apply hrun_fresh. split; [constructor | intros q []].
Qed.

(* ---- a failing try_* method starts nothing ---- *)
Lemma try_full_nothing : forall h b,
  h_closed h || full h = true ->
  snd (hcall h true b) = RErr /\
  h_chan (fst (hcall h true b)) = h_chan h /\ h_park (fst (hcall h true b)) = h_park h /\
  h_next (fst (hcall h true b)) = if draws b then h_next h + 1 else h_next h.
Proof. intros h b H. unfold hcall. rewrite H. repeat split. Qed.

Lemma try_ok_queued : forall h b,
  h_closed h || full h = false ->
  snd (hcall h true b) = ROk (if draws b then Some (h_next h) else None) /\
  h_chan (fst (hcall h true b)) = h_chan h ++ [with_id b (h_next h)].
Proof. intros h b H. unfold hcall. rewrite H. split; reflexivity. Qed.

(* the id a failed call burnt is never the id of an operation: not in the channel, not waiting, and the
   counter has passed it *)
Lemma burnt_id_unused : forall ops h b seen,
  HInv h seen -> draws b = true -> h_closed h || full h = true ->
  let q := h_next h in
  ustarted q (snd (fst (hrun (fst (hcall h true b)) ops))) = 0%nat.
Proof.
  intros ops h b seen HI Hd Hf q.
  set (h1 := fst (hcall h true b)).
  assert (H1 : HInv h1 (q :: seen)).
  { destruct (try_full_nothing h b Hf) as (_ & E1 & E2 & E3). rewrite Hd in E3. fold h1 in E1, E2, E3.
    apply (HInv_perm h seen _ _ [q] HI).
    - unfold pending_ids. rewrite E1, E2. cbn [app]. apply Permutation_sym, Permutation_middle.
    - right. split; [reflexivity |]. rewrite E3. lia. }
  pose proof (hrun_fresh ops h1 (q :: seen) H1) as F.
  assert (G : forall q0 us sn, ufresh sn us -> In q0 sn -> ustarted q0 us = 0%nat).
  { clear. intros q. induction us as [| u t IH]; intros seen F Hin; [reflexivity |]. cbn [ufresh] in F.
    unfold ustarted in *. cbn [filter]. destruct (ustarted_by u) as [q' |] eqn:Eu.
    - destruct F as [F1 F2]. cbn [opt_is]. destruct (N.eqb_spec q' q) as [-> | Hne]; [contradiction |].
      apply (IH (q' :: seen)); [exact F2 | right; exact Hin].
    - cbn [opt_is]. apply (IH seen); assumption. }
  apply (G q _ _ F). left. reflexivity.
Qed.

(* the ids of the operations the loop has started are all below the counter *)
Lemma hrun_ids_below : forall ops h seen, HInv h seen ->
  exists seen', HInv (fst (fst (hrun h ops))) seen' /\ (forall x, In x seen -> In x seen') /\
                forall q, ustarted q (snd (fst (hrun h ops))) <> 0%nat -> In q seen'.
Proof.
  induction ops as [| o t IH]; intros h seen HI.
  - exists seen. split; [exact HI |]. split; [auto |]. intros q H. exfalso. apply H. reflexivity.
  - destruct o as [tr b | | | rk wait tg | u]; cbn [hrun].
    + pose proof (hcall_inv h tr b seen HI) as H1. destruct (hcall h tr b) as [h1 r]. cbn [fst] in H1.
      destruct (IH h1 seen H1) as (s' & A & B & C). destruct (hrun h1 t) as [[h2 us] rs]. exists s'. auto.
    + destruct (hrecv h) as [h1 c] eqn:Er. destruct c as [c |].
      * pose proof (hrecv_inv h seen h1 c Er HI) as H1.
        destruct (IH h1 _ H1) as (s' & A & B & C). destruct (hrun h1 t) as [[h2 us] rs]. cbn [fst snd] in *.
        exists s'. split; [exact A |]. split.
        -- intros x Hx. apply B. destruct (cmd_id c); [right |]; exact Hx.
        -- intros q Hq. unfold ustarted in Hq. cbn [filter] in Hq. rewrite h2u_started in Hq.
           destruct (cmd_id c) as [q' |] eqn:Ec; cbn [opt_is] in Hq.
           ++ destruct (N.eqb_spec q' q) as [E | Hne]; [apply B; left; exact E | apply C; exact Hq].
           ++ apply C. exact Hq.
      * pose proof (hrecv_none h) as E. rewrite Er in E. cbn [fst snd] in E. rewrite E by reflexivity.
        destruct (IH h seen HI) as (s' & A & B & C). destruct (hrun h t) as [[h2 us] rs]. exists s'. auto.
    + apply IH. apply hwake_inv. exact HI.
    + set (h1 := mkH (h_next h + 1) (h_chan h) (h_cap h) (h_closed h) (h_park h)).
      assert (H1 : HInv h1 (h_next h :: seen)).
      { apply (HInv_perm h seen _ _ [h_next h] HI).
        - subst h1. unfold pending_ids. cbn [h_chan h_park app]. apply Permutation_sym, Permutation_middle.
        - right. split; [reflexivity |]. subst h1. cbn [h_next]. lia. }
      destruct (IH h1 _ H1) as (s' & A & B & C). destruct (hrun h1 t) as [[h2 us] rs]. cbn [fst snd] in *.
      exists s'. split; [exact A |]. split; [intros x Hx; apply B; right; exact Hx |].
      intros q Hq. unfold ustarted in Hq. cbn [filter ustarted_by opt_is] in Hq.
      destruct (N.eqb_spec (h_next h) q) as [E | Hne]; [apply B; left; exact E | apply C; exact Hq].
    + destruct (IH h seen HI) as (s' & A & B & C). destruct (hrun h t) as [[h2 us] rs]. cbn [fst snd] in *.
      exists s'. split; [exact A |]. split; [exact B |]. intros q Hq. apply C.
      unfold env_ok in Hq. destruct (ustarted_by u) eqn:Eu; cbn [app] in Hq; [exact Hq |].
      unfold ustarted in *. cbn [filter] in Hq. rewrite Eu in Hq. cbn [opt_is] in Hq. exact Hq.
Qed.

Lemma hrun_app : forall a b h,
  hrun h (a ++ b) =
  (let '(h1, us1, rs1) := hrun h a in let '(h2, us2, rs2) := hrun h1 b in (h2, us1 ++ us2, rs1 ++ rs2)).
Proof.
  induction a as [| o t IH]; intros b h.
  - cbn [app hrun]. destruct (hrun h b) as [[h2 us2] rs2]. reflexivity.
  - destruct o as [tr bd | | | rk wait tg | u]; cbn [app hrun].
    + destruct (hcall h tr bd) as [h1 r]. rewrite IH. destruct (hrun h1 t) as [[h2 us] rs].
      destruct (hrun h2 b) as [[h3 us3] rs3]. reflexivity.
    + destruct (hrecv h) as [h1 c]. rewrite IH. destruct (hrun h1 t) as [[h2 us] rs].
      destruct (hrun h2 b) as [[h3 us3] rs3]. destruct c; reflexivity.
    + apply IH.
    + rewrite IH. destruct (hrun _ t) as [[h2 us] rs]. destruct (hrun h2 b) as [[h3 us3] rs3]. reflexivity.
    + rewrite IH. destruct (hrun h t) as [[h2 us] rs]. destruct (hrun h2 b) as [[h3 us3] rs3].
      rewrite app_assoc. reflexivity.
Qed.

Lemma ustarted_app : forall q a b, ustarted q (a ++ b) = (ustarted q a + ustarted q b)%nat.
Proof. intros. unfold ustarted. rewrite filter_app, app_length. reflexivity. Qed.

(* A try_ method that finds the channel full (or closed) returns Err, leaves channel and waiting sender as
   they are — and the id it has drawn is the id of no operation, before or after: in every history
   ops0 ++ [the failing call] ++ ops1 the loop starts nothing under that id *)
Lemma failed_try_starts_nothing : forall cap ops0 b ops1,
  let h := fst (fst (hrun (h0 cap) ops0)) in
  h_closed h || full h = true -> draws b = true ->
  snd (hcall h true b) = RErr /\
  ustarted (h_next h) (snd (fst (hrun (h0 cap) (ops0 ++ OCall true b :: ops1)))) = 0%nat.
Proof.
  intros cap ops0 b ops1 h Hf Hd. split; [apply (try_full_nothing h b Hf) |].
  assert (H0 : HInv (h0 cap) []) by (split; [constructor | intros q []]).
  destruct (hrun_ids_below ops0 (h0 cap) [] H0) as (s' & A & _ & C). fold h in A.
  rewrite hrun_app. destruct (hrun (h0 cap) ops0) as [[h' us0] rs0] eqn:E0. cbn [fst snd] in *. subst h.
  cbn [hrun]. pose proof (burnt_id_unused ops1 h' b s' A Hd Hf) as Bn. cbn zeta in Bn.
  destruct (hcall h' true b) as [h1 r]. cbn [fst] in Bn. destruct (hrun h1 ops1) as [[h2 us1] rs1]. cbn [fst snd] in *.
  rewrite ustarted_app, Bn.
  destruct (ustarted (h_next h') us0) eqn:Eu; [reflexivity |]. exfalso.
  assert (Hin : In (h_next h') s') by (apply C; rewrite Eu; discriminate).
  destruct A as [_ Hl]. specialize (Hl _ (in_or_app _ _ _ (or_intror Hin))). lia.
Qed.

(* ---- FIFO: the loop takes the commands in the order they were accepted ---- *)
Lemma hrecv_fifo : forall h c t, h_chan h = c :: t ->
  snd (hrecv h) = Some c /\ h_chan (fst (hrecv h)) = t /\ h_park (fst (hrecv h)) = h_park h.
Proof. intros h c t E. unfold hrecv. rewrite E. repeat split. Qed.

(* an accepted command goes to the END of the channel: commands are taken in the order they were accepted *)
Lemma accepted_last : forall h tr b h' r,
  hcall h tr b = (h', r) -> h_chan h' = h_chan h \/ h_chan h' = h_chan h ++ [with_id b (h_next h)].
Proof.
  intros h tr b h' r. unfold hcall.
  destruct tr; [destruct (h_closed h || full h) | destruct (h_closed h); [| destruct (full h)]];
    intro E; injection E as <- _; cbn [h_chan]; auto.
Qed.

(* ---- which operation a command starts ---- *)
(* the QueryEngine::start_* call behind a command of Model.v *)
Definition start_name (e : ev) : list string :=
  match e with
  | ECmd _ CFindNode _ _ => ["start_find_node"]
  | ECmd _ (CPutRecord _) _ _ => ["start_put_record"]
  | ECmd _ (CStartProviding _) _ _ | ECmd _ (CRefresh _) _ _ => ["start_add_provider"]
  | ECmd _ (CGetRecord _ _) _ _ => ["start_get_record"]
  | ECmd _ (CGetProviders _) _ _ => ["start_get_providers"]
  | EPutToPeers _ _ _ => ["start_put_record_to_peers"]
  | _ => []
  end%string.

(* the row of the command branch of Kademlia::run for a command: engine call, store calls *)
Definition loop_row (name : string) : option (list string * list string) :=
  match find (fun r : string * list string * list string * list string => String.eqb (fst (fst (fst r))) name)
             C16Tables.loop_cmds with
  | Some r => Some (snd (fst (fst r)), snd (fst r))
  | None => None
  end.

Definition cmd_samples : list hcmd :=
  [HAddKnownPeer 0 true; HFindNode [] 0; HPutRecord 0 1 None [] HOne 0; HPutRecordToPeers 0 1 0 None HOne 0 [] true;
   HGetRecord 0 [] HAll 0; HGetProviders 0 [] 0; HStartProviding 0 [] (HN 2) 0; HStopProviding 0 [];
   HStoreRecord 0 1 0 None].

(* every command elaborates to the Model.v event whose engine start is the one the source arm calls
   (GetRecord with a local hit and Quorum::One is answered without a query: checked with Quorum::All) *)
Lemma command_starts_in_sync : forall wc w,
  Forall (fun c => option_map fst (loop_row (cmd_name c)) = Some (start_name (fst (fst (elab wc w (h2u c))))))
         cmd_samples.
Proof.
  intros wc w. repeat constructor; cbn [cmd_name h2u elab fst start_name]; reflexivity.
Qed.

(* ---- the events ---- *)
Definition out_event (o : out) : option string :=
  match o with
  | OFindNodeSuccess _ _ => Some "FindNodeSuccess" | OPutSuccess _ => Some "PutRecordSuccess"
  | OProvSuccess _ => Some "AddProviderSuccess" | OGetRecSuccess _ => Some "GetRecordSuccess"
  | OGetProvSuccess _ _ => Some "GetProvidersSuccess" | OFailed _ => Some "QueryFailed"
  | OPartial _ _ _ => Some "GetRecordPartialResult" | ORouting _ => Some "RoutingTableUpdate"
  | OIncomingRecord => Some "IncomingRecord" | OIncomingProvider => Some "IncomingProvider"
  | OTrack _ _ => None
  end%string.

Definition out_samples : list out :=
  [OFindNodeSuccess 0 []; ORouting []; OGetRecSuccess 0; OPartial 0 0 0; OGetProvSuccess 0 []; OPutSuccess 0;
   OProvSuccess 0; OFailed 0; OIncomingRecord; OIncomingProvider].

Definition has_field (f : string) (r : string * list string) : bool := existsb (String.eqb f) (snd r).

(* the event variants in source order, with: carries a query id, is terminal in the model *)
Definition tbl_events : list (string * bool * bool) :=
  map (fun o => (match out_event o with Some n => n | None => ""%string end,
                 match o with ORouting _ | OIncomingRecord | OIncomingProvider => false | _ => true end,
                 match term_of o with Some _ => true | None => false end)) out_samples.

(* terminal events carry a query id; the events without one are never terminal; the one event with a query
   id that is not terminal is GetRecordPartialResult *)
Lemma events_classified :
  map (fun r => (fst r, has_field "query_id" r)) C16Tables.events = map (fun x => (fst (fst x), snd (fst x))) tbl_events /\
  map (fun x => fst (fst x)) (filter (fun x => snd (fst x) && negb (snd x)) tbl_events) = ["GetRecordPartialResult"%string] /\
  map (fun x => fst (fst x)) (filter (fun x => negb (snd (fst x))) tbl_events) =
    ["RoutingTableUpdate"; "IncomingRecord"; "IncomingProvider"]%string /\
  forall x, In x tbl_events -> snd x = true -> snd (fst x) = true.
Proof.
  split; [vm_compute; reflexivity |]. split; [vm_compute; reflexivity |]. split; [vm_compute; reflexivity |].
  intros x Hx. vm_compute in Hx. repeat (destruct Hx as [<- | Hx]; [cbn; auto |]). destruct Hx.
Qed.

(* on_query_action: the terminal event of an action, as `on_action` (EngineRef.v) emits it *)
Definition tbl_action_events : list (string * list string) :=
  [("SendMessage", []); ("FindNodeQuerySucceeded", ["FindNodeSuccess"]); ("PutRecordToFoundNodes", []);
   ("PutRecordQuerySucceeded", ["PutRecordSuccess"]); ("AddProviderToFoundNodes", []);
   ("AddProviderQuerySucceeded", ["AddProviderSuccess"]); ("GetRecordQueryDone", ["GetRecordSuccess"]);
   ("GetProvidersQueryDone", ["GetProvidersSuccess"]); ("QueryFailed", ["QueryFailed"]);
   ("GetRecordPartialResult", ["GetRecordPartialResult"]); ("QuerySucceeded", [])]%string.

(* string constants for Properties.v (which does not import String) *)
Definition F_QUERY_ID : string := "query_id"%string.
Definition EV_PARTIAL : list string := ["GetRecordPartialResult"]%string.
Definition EV_NOID : list string := ["RoutingTableUpdate"; "IncomingRecord"; "IncomingProvider"]%string.
Definition GETRECORD_ROW : list (string * list string) :=
  [("GetRecord", ["GetRecordPartialResult"; "GetRecordSuccess"; "GetRecordPartialResult"])]%string.

(* ---- the tables, from the model's side ---- *)
Definition tbl_quorum : list (string * string) := [("All", ""); ("One", ""); ("N", "NonZeroUsize")]%string.

Definition tbl_commands : list string := map cmd_name cmd_samples.

(* (method, async, draws an id, send kind, command, return type) from (tr, body kind) *)
Definition body_samples : list hbody :=
  [BAddKnownPeer 0 true; BFindNode []; BPutRecord 0 1 None [] HOne; BPutRecordToPeers 0 1 0 None HOne [] true;
   BGetRecord 0 [] HOne; BGetProviders 0 []; BStartProviding 0 [] HOne; BStopProviding 0 []; BStoreRecord 0 1 0 None].
Definition base_name (k : nat) : string :=
  nth k ["add_known_peer"; "find_node"; "put_record"; "put_record_to_peers"; "get_record"; "get_providers";
         "start_providing"; "stop_providing"; "store_record"]%string ""%string.
(* source order of the async methods: get_providers comes after stop_providing *)
Definition async_order : list nat := [0; 1; 2; 3; 4; 6; 7; 5; 8]%nat.
Definition try_order : list nat := [0; 1; 2; 3; 4; 8]%nat.
Definition method_row (tr : bool) (k : nat) : string * bool * bool * string * string * string :=
  let b := nth k body_samples (BAddKnownPeer 0 true) in
  ((if tr then "try_" ++ base_name k else base_name k)%string, negb tr, draws b,
   (if tr then "try_send" else "send")%string, cmd_name (with_id b 0),
   (if tr then (if draws b then "Result<QueryId,()>" else "Result<(),()>")
    else (if draws b then "QueryId" else "()"))%string).
Definition tbl_methods := map (method_row false) async_order ++ map (method_row true) try_order.

(* the peers_to_succeed expression of PutToTargetPeersContext::new is `clamp` *)
Definition tbl_need : list (string * string) :=
  [("One", "1"); ("N", "cmp::min(n.get(),cmp::max(peers.len(),1))"); ("All", "cmp::max(peers.len(),1)")]%string.
Lemma clamp_is_need : forall h len,
  clamp (q_of h) len =
  match h with HOne => 1 | HN n => N.min (Npos n) (N.max len 1) | HAll => N.max len 1 end.
Proof. destruct h; reflexivity. Qed.

(* the executor branch and the service branch of the loop, as Model.v's `step` / `on_future` read them *)
Definition tbl_results : list (string * list string * list string) :=
  [("SendSuccess", ["register_send_success"], []);
   ("AssumeSendSuccess", ["register_send_success"], []);
   ("SendFailure", [], ["disconnect_peer"]);
   ("ReadSuccess", ["register_send_success"; "register_response_failure"], ["on_message_received"]);
   ("ReadFailure", [], ["disconnect_peer"])]%string.
Definition tbl_transports : list (string * list string) :=
  [("ConnectionEstablished", ["on_connection_established"]);
   ("ConnectionClosed", ["disconnect_peer"]);
   ("SubstreamOpened", ["on_inbound_substream"; "on_outbound_substream"]);
   ("SubstreamOpenFailure", ["on_substream_open_failure"]);
   ("DialFailure", ["on_dial_failure"])]%string.
(* the refresh branch: put_local_provider again, an id from the shared counter, start_add_provider *)
Definition tbl_refresh : list (list string) :=
  [["next_action"; "put_local_provider"]; ["next_query_id"]; ["start_add_provider"]]%string.
(* open_substream_or_dial: the three results of service.dial the code distinguishes = Model.dres
   (DOk, DAlready, DErr): every other ImmediateDialError takes the error arm *)
Definition dres_name (d : dres) : string :=
  match d with DOk => "Ok(())" | DAlready => "Err(ImmediateDialError::AlreadyConnected)" | DErr => "Err(error)" end%string.
Definition tbl_dial_arms : list string := map dres_name [DOk; DAlready; DErr].
(* the store calls of the command arms: what `kev_of` hands to C17's model of the loop *)
Definition tbl_cmd_store : list (string * list string) :=
  [("FindNode", []); ("PutRecord", ["put"]); ("PutRecordToPeers", ["put"]); ("StartProviding", ["put_local_provider"]);
   ("StopProviding", ["remove_local_provider"]); ("GetRecord", ["get"]); ("GetProviders", ["get_providers"]);
   ("AddKnownPeer", []); ("StoreRecord", ["put"])]%string.

Lemma tables_in_sync :
  C16Tables.quorum = tbl_quorum /\
  map fst C16Tables.commands = tbl_commands /\
  C16Tables.methods = tbl_methods /\
  map (fun r => (fst (fst r), snd (fst r))) C16Tables.actions = tbl_action_events /\
  C16Tables.need = tbl_need /\
  C16Tables.results = tbl_results /\
  C16Tables.transports = tbl_transports /\
  C16Tables.refresh = tbl_refresh /\
  C16Tables.dial_arms = tbl_dial_arms /\
  map (fun r : string * list string * list string * list string => (fst (fst (fst r)), snd (fst r))) C16Tables.loop_cmds = tbl_cmd_store /\
  (* only the GetRecord arm sends events itself: the local hit *)
  map (fun r : string * list string * list string * list string => (fst (fst (fst r)), snd r))
      (filter (fun r : string * list string * list string * list string => match snd r with [] => false | _ => true end)
              C16Tables.loop_cmds) =
    [("GetRecord", ["GetRecordPartialResult"; "GetRecordSuccess"; "GetRecordPartialResult"])]%string.
Proof. vm_compute. repeat split; reflexivity. Qed.
