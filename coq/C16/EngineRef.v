(* C16 — ONE engine model: the multi-query engine layer of Model.v (association list query id ->
   QLookup / QToPeers / QTrack, the eng_* calls, the engine half of `serve`) IS the QueryEngine model of
   C15 (V.C15.Engine: xeng, xstep over all eight QueryType variants and every entry point).

   The relation `erel` maps a C16 engine to a C15 engine entry by entry: same query ids in the same
   order, QLookup lk qr c ls ~ QL (qt_of lk) (quorum code of qr) c seeds events ls' (C15's entry also
   carries two ghost fields, the seeds and the recorded single-query events, which the engine never
   reads; ls and ls' agree except for the counter `pr`, which FindNodeContext::next_action recomputes
   before it reads it), QToPeers ~ QM, QTrack ~ QT.  Every engine operation the glue model performs is
   one `xstep` of C15 on the related engine, with the same action:

     start of a lookup / of put_record_to_peers / of the send-phase tracking  ~ XStart
     eng_resp_fail / eng_send_fail / eng_send_ok / eng_fail / eng_response    ~ XFail / XSendFail / XSendOk / XPeerFail / XResp
     peer_wanted (next_peer_action)                                           ~ XPeerAct
     the engine half of `serve` (`epoll`: next_action for the query the HashMap order picked)  ~ XNext now (q + 1)

   `serve_factor`: `serve` = `on_action` (the glue's on_query_action, which touches the engine only
   through start_track / eng_fail) applied to `epoll`.  `step_ereach` / `run_sim`: every event of the
   loop changes the engine only through these operations, hence every reachable C16 engine is related
   to a C15 engine reached by a history of C15 engine calls. *)
From Coq Require Import List NArith Bool Lia.
From V.C15 Require Model Engine.
From V.C16 Require Import Model Proofs Obl Bound.
Import ListNotations.
Open Scope N_scope.

Module L := V.C15.Model.
Module E := V.C15.Engine.

(* ---- the dictionary ---- *)
Definition qt_of (lk : lkind) : E.qtype :=
  match lk with
  | LFind => E.TFindNode | LPut => E.TPutRecord | LProv => E.TAddProvider
  | LRec => E.TGetRecord | LGetProv => E.TGetProviders
  end.
Definition tt_of (prov : bool) : E.qtype :=
  if prov then E.TAddProviderToFoundNodes else E.TPutRecordToFoundNodes.
Definition kind_of (lk : lkind) : L.kind :=
  match lk with LRec => L.KRecord | LGetProv => L.KProviders | _ => L.KFind end.

(* enum Quorum as C15's (tag, n): 0 All, 1 One, otherwise N(n) *)
Definition qtag_of (qr : quorum) : N := match qr with QAll => 0 | QOne => 1 | QN _ => 2 end.
Definition qn_of (qr : quorum) : N := match qr with QN n => n | _ => 0 end.
Definition qdec (qtag qn : N) : quorum := match qtag with 0 => QAll | 1 => QOne | _ => QN qn end.

Lemma qdec_enc : forall qr, qdec (qtag_of qr) (qn_of qr) = qr.
Proof. destruct qr; reflexivity. Qed.

Definition mk_of (m : msg) : E.mkind :=
  match m with
  | MFindNode _ => E.MKFindNode | MPutValue => E.MKPutValue | MGetRecord _ _ _ => E.MKGetRecord
  | MAddProvider _ => E.MKAddProvider | MGetProviders _ _ _ => E.MKGetProviders
  | MInvalid => E.MKAddProvider      (* never passed to register_response: on_message registers a failure *)
  end.
Definition reply_of_msg (m : msg) : L.reply :=
  match m with
  | MFindNode ps => L.mkReply ps None []
  | MGetRecord _ r ps => L.mkReply ps r []
  | MGetProviders _ pv ps => L.mkReply ps None pv
  | _ => L.mkReply [] None []
  end.

Definition dist_of (dists : list N) : N -> N := fun p => nth (N.to_nat p) dists (BIG + p).
Definition gc_of (g : gcfg) (dists : list N) : E.gcfg :=
  E.mkGc (g_k g) (g_alpha g) (g_tmo g) (g_local g) (dist_of dists).

(* ---- the relation ---- *)
Definition npr (s : L.state) : L.state := L.set_pr s 0.
Definition lsim (a b : L.state) : Prop := npr a = npr b.

Inductive qrel : qstate -> E.qstate -> Prop :=
| qrel_l : forall lk qr c ls seeds es ls',
    lsim ls ls' -> L.c_kind c = kind_of lk ->
    qrel (QLookup lk qr c ls) (E.QL (qt_of lk) (qtag_of qr) (qn_of qr) c seeds es ls')
| qrel_m : forall qr ps, qrel (QToPeers qr ps) (E.QM (qtag_of qr) (qn_of qr) ps)
| qrel_t : forall pv pd n need, qrel (QTrack pv pd n need) (E.QT (tt_of pv) pd n need).

Definition prel (a : N * qstate) (b : N * E.qstate) : Prop := fst a = fst b /\ qrel (snd a) (snd b).
Definition erel (e : list (N * qstate)) (xe : E.xeng) : Prop := Forall2 prel e xe.

Lemma erel_nil : erel [] [].
Proof. constructor. Qed.

(* ---- the containers are the same containers ---- *)
Lemma aget_cons : forall A q k (x : A) e, aget q ((k, x) :: e) = if k =? q then Some x else aget q e.
Proof. reflexivity. Qed.

Lemma erel_get : forall e xe q, erel e xe ->
  match aget q e, E.xget q xe with
  | Some x, Some y => qrel x y
  | None, None => True
  | _, _ => False
  end.
Proof.
  intros e xe q H. induction H as [| [k x] [k' y] e xe [Hk Hq] _ IH]; [exact I |].
  cbn [fst snd] in Hk, Hq. subst k'. rewrite aget_cons. cbn [E.xget]. destruct (k =? q); [exact Hq | exact IH].
Qed.

Lemma erel_del : forall e xe q, erel e xe -> erel (adel q e) (E.xdel q xe).
Proof.
  intros e xe q H. induction H as [| [k x] [k' y] e xe [Hk Hq] _ IH]; [constructor |].
  cbn [fst snd] in Hk, Hq. subst k'. unfold adel, E.xdel in *. cbn [filter fst].
  destruct (negb (k =? q)); [constructor; [split; [reflexivity | exact Hq] | exact IH] | exact IH].
Qed.

Lemma erel_set : forall e xe q x y, erel e xe -> qrel x y -> erel (aset q x e) (E.xset q y xe).
Proof.
  intros e xe q x y H Hq. unfold aset, E.xset. apply Forall2_app; [apply erel_del; exact H |].
  constructor; [split; [reflexivity | exact Hq] | constructor].
Qed.

Lemma erel_upd : forall e xe q f f', erel e xe ->
  (forall x y, qrel x y -> qrel (f x) (f' y)) ->
  erel (map (fun x : N * qstate => if fst x =? q then (fst x, f (snd x)) else x) e) (E.xupd q f' xe).
Proof.
  intros e xe q f f' H Hf. induction H as [| [k x] [k' y] e xe [Hk Hq] _ IH]; [constructor |].
  cbn [fst snd] in Hk, Hq. subst k'. unfold E.xupd in *. cbn [map fst snd].
  destruct (k =? q); (constructor; [split; [reflexivity | cbn [snd]; auto] | exact IH]).
Qed.

Lemma erel_setq : forall e xe q x y, erel e xe -> qrel x y ->
  erel (map (fun z : N * qstate => if fst z =? q then (q, x) else z) e) (E.xupd q (fun _ => y) xe).
Proof.
  intros e xe q x y H Hq. induction H as [| [k x0] [k' y0] e xe [Hk Hq0] _ IH]; [constructor |].
  cbn [fst snd] in Hk, Hq0. subst k'. unfold E.xupd in *. cbn [map fst snd].
  destruct (N.eqb_spec k q) as [-> | Hne];
    (constructor; [split; [reflexivity | cbn [snd]; assumption] | exact IH]).
Qed.

(* ---- the dead counter: a lookup state is read only up to `pr` ---- *)
Lemma lsim_refl : forall s, lsim s s.
Proof. reflexivity. Qed.

Lemma lsim_fields : forall a b, lsim a b ->
  L.cands a = L.cands b /\ L.pend a = L.pend b /\ L.queried a = L.queried b /\ L.resps a = L.resps b /\
  L.found a = L.found b /\ L.recq a = L.recq b /\ L.provs a = L.provs b /\ L.done a = L.done b.
Proof.
  intros [c1 p1 q1 r1 n1 f1 rq1 pv1 d1] [c2 p2 q2 r2 n2 f2 rq2 pv2 d2] H.
  unfold lsim, npr, L.set_pr in H. cbn in H. injection H as -> -> -> -> -> -> -> ->. repeat split.
Qed.

Lemma lsim_intro : forall a b,
  L.cands a = L.cands b -> L.pend a = L.pend b -> L.queried a = L.queried b -> L.resps a = L.resps b ->
  L.found a = L.found b -> L.recq a = L.recq b -> L.provs a = L.provs b -> L.done a = L.done b -> lsim a b.
Proof.
  intros [c1 p1 q1 r1 n1 f1 rq1 pv1 d1] [c2 p2 q2 r2 n2 f2 rq2 pv2 d2]. cbn.
  intros -> -> -> -> -> -> -> ->. reflexivity.
Qed.

Ltac lsim_split a b H :=
  destruct a as [c1 p1 q1 r1 n1 f1 rq1 pv1 d1]; destruct b as [c2 p2 q2 r2 n2 f2 rq2 pv2 d2];
  unfold lsim, npr, L.set_pr in H; cbn in H; injection H as -> -> -> -> -> -> -> ->.

Lemma on_failure_lsim : forall c a b p, lsim a b -> lsim (L.on_failure c a p) (L.on_failure c b p).
Proof.
  intros c a b p H. lsim_split a b H. unfold L.on_failure. cbn [L.done L.pend L.cands L.queried L.resps L.pr L.found L.recq L.provs].
  destruct d2; [reflexivity |]. destruct (L.pmem p p2); reflexivity.
Qed.

Lemma on_response_lsim : forall c a b p r, lsim a b -> lsim (L.on_response c a p r) (L.on_response c b p r).
Proof.
  intros c a b p r H. lsim_split a b H. unfold L.on_response. cbn [L.done L.pend L.cands L.queried L.resps L.pr L.found L.recq L.provs].
  destruct d2; [reflexivity |]. destruct (L.pmem p p2); [| reflexivity].
  destruct (L.c_kind c); [reflexivity | | reflexivity].
  destruct (L.r_rec r) as [[id [|]] |]; reflexivity.
Qed.

Lemma schedule_lsim : forall c a b now, lsim a b ->
  lsim (fst (L.schedule c a now)) (fst (L.schedule c b now)) /\
  snd (L.schedule c a now) = snd (L.schedule c b now).
Proof.
  intros c a b now H. lsim_split a b H. unfold L.schedule. cbn [L.done L.pend L.cands L.queried L.resps L.pr L.found L.recq L.provs].
  destruct c2 as [| [d p] t]; split; reflexivity.
Qed.

Lemma finish_lsim : forall a b x, lsim a b -> lsim (fst (L.finish a x)) (fst (L.finish b x)).
Proof. intros a b x H. lsim_split a b H. reflexivity. Qed.

Lemma next_action_lsim : forall c a b now, lsim a b ->
  lsim (fst (L.next_action c a now)) (fst (L.next_action c b now)) /\
  snd (L.next_action c a now) = snd (L.next_action c b now).
Proof.
  intros c a b now H. pose proof (lsim_fields a b H) as (F1 & F2 & F3 & F4 & F5 & F6 & F7 & F8).
  unfold L.next_action. rewrite F8. destruct (L.done b); [split; [exact H | reflexivity] |].
  destruct (L.c_kind c).
  - (* FindNodeContext: pr is recomputed first *)
    unfold L.next_find, L.is_done. rewrite F1, F2, F4.
    assert (S1 : L.set_pr a (L.count_fresh (L.c_timeout c) now (L.pend b)) =
                 L.set_pr b (L.count_fresh (L.c_timeout c) now (L.pend b))).
    { lsim_split a b H. reflexivity. }
    destruct (L.pend b) eqn:Ep; destruct (L.cands b) eqn:Ec;
      try (rewrite S1; split; reflexivity).
    destruct (L.resps b); cbn [fst snd]; (split; [apply finish_lsim; exact H | reflexivity]).
  - unfold L.next_record, L.is_done. rewrite F6, F1, F2, F5.
    destruct (L.recq b) as [| [p r] t].
    + destruct (L.pend b) eqn:Ep; destruct (L.cands b) eqn:Ec.
      * destruct (L.c_known c + L.found b =? 0); cbn [fst snd]; (split; [apply finish_lsim; exact H | reflexivity]).
      * destruct (L.c_needed c <=? L.c_known c + L.found b);
          [cbn [fst snd]; split; [apply finish_lsim; exact H | reflexivity] |].
        destruct (N.of_nat (length (@nil (N * N))) =? L.c_alpha c); [split; [exact H | reflexivity] |].
        apply schedule_lsim; exact H.
      * destruct (L.c_needed c <=? L.c_known c + L.found b);
          [cbn [fst snd]; split; [apply finish_lsim; exact H | reflexivity] |].
        destruct (N.of_nat (length (p :: l)) =? L.c_alpha c); [split; [exact H | reflexivity] |].
        apply schedule_lsim; exact H.
      * destruct (L.c_needed c <=? L.c_known c + L.found b);
          [cbn [fst snd]; split; [apply finish_lsim; exact H | reflexivity] |].
        destruct (N.of_nat (length (p :: l)) =? L.c_alpha c); [split; [exact H | reflexivity] |].
        apply schedule_lsim; exact H.
    + cbn [fst snd]. split; [| reflexivity]. lsim_split a b H. reflexivity.
  - unfold L.next_providers, L.is_done. rewrite F1, F2, F7.
    destruct (L.pend b) eqn:Ep; destruct (L.cands b) eqn:Ec;
      try (destruct (N.of_nat (length (L.pend b)) =? L.c_alpha c) eqn:Ea; rewrite ?Ep in *;
           [try rewrite Ea; split; [exact H | reflexivity] | try rewrite Ea; apply schedule_lsim; exact H]).
    destruct (L.c_kprov c ++ L.provs b); cbn [fst snd]; (split; [apply finish_lsim; exact H | reflexivity]).
Qed.

(* an engine poll that yields nothing leaves the lookup as it was, up to the dead counter *)
Lemma next_action_none : forall c s now,
  snd (L.next_action c s now) = L.ANone -> lsim s (fst (L.next_action c s now)).
Proof.
  intros c s now. unfold L.next_action. destruct (L.done s); [reflexivity |].
  destruct (L.c_kind c).
  - unfold L.next_find. destruct (L.is_done s).
    + destruct (L.resps s); discriminate.
    + set (s1 := L.set_pr s _). assert (S1 : lsim s s1) by (destruct s; reflexivity).
      destruct (L.pr s1 =? L.c_alpha c); [intros _; exact S1 |].
      assert (Sch : snd (L.schedule c s1 now) = L.ANone -> lsim s (fst (L.schedule c s1 now))).
      { unfold L.schedule. destruct (L.cands s1) as [| [d p] t]; [intros _; exact S1 | discriminate]. }
      destruct (N.of_nat (length (L.resps s1)) <? L.c_k c); [exact Sch |].
      destruct (L.cands s1) as [| [d p] t] eqn:Ec; [discriminate |].
      destruct (L.last_opt (L.resps s1)) as [[wd x] |]; [| discriminate].
      destruct (L.c_dist c p <? wd); [| discriminate]. unfold L.schedule. rewrite Ec. discriminate.
  - unfold L.next_record. destruct (L.recq s) as [| [p r] t]; [| discriminate].
    destruct (L.is_done s); [destruct (L.c_known c + L.found s =? 0); discriminate |].
    destruct (L.c_needed c <=? L.c_known c + L.found s); [discriminate |].
    destruct (N.of_nat (length (L.pend s)) =? L.c_alpha c); [reflexivity |].
    unfold L.schedule. destruct (L.cands s) as [| [d p] t]; [reflexivity | discriminate].
  - unfold L.next_providers. destruct (L.is_done s); [destruct (L.c_kprov c ++ L.provs s); discriminate |].
    destruct (N.of_nat (length (L.pend s)) =? L.c_alpha c); [reflexivity |].
    unfold L.schedule. destruct (L.cands s) as [| [d p] t]; [reflexivity | discriminate].
Qed.

Lemma lsim_trans : forall a b c, lsim a b -> lsim b c -> lsim a c.
Proof. unfold lsim. intros. congruence. Qed.
Lemma lsim_sym : forall a b, lsim a b -> lsim b a.
Proof. unfold lsim. intros. congruence. Qed.

(* only FIND_NODE-type lookups report a peer list *)
Lemma found_only_find : forall c s now l,
  snd (L.next_action c s now) = L.AFound l -> L.c_kind c = L.KFind.
Proof.
  intros c s now l. unfold L.next_action. destruct (L.done s); [discriminate |].
  destruct (L.c_kind c); [reflexivity | |].
  - unfold L.next_record. destruct (L.recq s) as [| [p r] t]; [| discriminate].
    destruct (L.is_done s); [destruct (L.c_known c + L.found s =? 0); discriminate |].
    destruct (L.c_needed c <=? L.c_known c + L.found s); [discriminate |].
    destruct (N.of_nat (length (L.pend s)) =? L.c_alpha c); [discriminate |].
    unfold L.schedule. destruct (L.cands s) as [| [d p] t]; discriminate.
  - unfold L.next_providers. destruct (L.is_done s); [destruct (L.c_kprov c ++ L.provs s); discriminate |].
    destruct (N.of_nat (length (L.pend s)) =? L.c_alpha c); [discriminate |].
    unfold L.schedule. destruct (L.cands s) as [| [d p] t]; discriminate.
Qed.

(* ---- the context calls: register_response_failure / send_failure / send_success / response ---- *)
Lemma q_resp_fail_rel : forall p x y, qrel x y -> qrel (q_resp_fail p x) (E.q_resp_fail p y).
Proof.
  intros p x y H. destruct H; cbn [q_resp_fail E.q_resp_fail]; constructor; try assumption.
  apply on_failure_lsim. assumption.
Qed.

Lemma q_send_fail_rel : forall p x y, qrel x y -> qrel (q_send_fail p x) (E.q_send_fail p y).
Proof. intros p x y H. destruct H; cbn [q_send_fail E.q_send_fail]; constructor; assumption. Qed.

Lemma q_send_ok_rel : forall p x y, qrel x y -> qrel (q_send_ok p x) (E.q_send_ok p y).
Proof.
  intros p x y H. destruct H; cbn [q_send_ok E.q_send_ok]; try (constructor; assumption).
  change (L.mem p pd) with (nmem p pd). destruct (nmem p pd); constructor.
Qed.

Lemma q_response_rel : forall p m x y, qrel x y ->
  match m with MAddProvider _ | MInvalid => False | _ => True end ->
  qrel (q_response p m x) (E.q_message p (mk_of m) (reply_of_msg m) y).
Proof.
  intros p m x y H Hm. destruct H as [lk qr c ls seeds es ls' Hs Hk | qr ps | pv pd n need].
  - unfold E.q_message. cbn [E.qtype_of q_response].
    destruct lk, m; try contradiction; cbn [qt_of mk_of E.accepts E.q_resp E.q_resp_fail reply_of_msg];
      constructor; try assumption; first [apply on_response_lsim | apply on_failure_lsim]; assumption.
  - unfold E.q_message. cbn [E.qtype_of q_response].
    destruct (E.accepts E.TPutRecordToPeers (mk_of m)); cbn [E.q_resp E.q_resp_fail]; constructor.
  - unfold E.q_message. cbn [E.qtype_of q_response].
    destruct (E.accepts (tt_of pv) (mk_of m)); cbn [E.q_resp E.q_resp_fail]; constructor.
Qed.

Section Calls.
Variable gc : E.gcfg.

Lemma eng_resp_fail_refines : forall s xe q p, erel (eng s) xe ->
  erel (eng (eng_resp_fail s q p)) (fst (E.xstep gc xe (E.XFail q p))).
Proof. intros. cbn [E.xstep fst]. apply erel_upd; [assumption | apply q_resp_fail_rel]. Qed.

Lemma eng_send_fail_refines : forall s xe q p, erel (eng s) xe ->
  erel (eng (eng_send_fail s q p)) (fst (E.xstep gc xe (E.XSendFail q p))).
Proof. intros. cbn [E.xstep fst]. apply erel_upd; [assumption | apply q_send_fail_rel]. Qed.

Lemma eng_send_ok_refines : forall s xe q p, erel (eng s) xe ->
  erel (eng (eng_send_ok s q p)) (fst (E.xstep gc xe (E.XSendOk q p))).
Proof. intros. cbn [E.xstep fst]. apply erel_upd; [assumption | apply q_send_ok_rel]. Qed.

(* register_peer_failure = register_send_failure, then register_response_failure *)
Lemma eng_fail_refines : forall s xe q p, erel (eng s) xe ->
  erel (eng (eng_fail s q p)) (fst (E.xstep gc xe (E.XPeerFail q p))).
Proof.
  intros s xe q p H. unfold eng_fail, eng_resp_fail, eng_send_fail, upd_q. cbn [E.xstep fst eng w_eng].
  rewrite map_map.
  replace (map _ (eng s)) with
    (map (fun x : N * qstate => if fst x =? q then (fst x, q_resp_fail p (q_send_fail p (snd x))) else x) (eng s)).
  - apply (erel_upd _ _ q (fun x => q_resp_fail p (q_send_fail p x)) (fun y => E.q_resp_fail p (E.q_send_fail p y))); [exact H |].
    intros x y Hq. apply q_resp_fail_rel, q_send_fail_rel. exact Hq.
  - apply map_ext. intros [k x]. cbn [fst snd]. destruct (k =? q) eqn:Ek; cbn [fst snd]; rewrite ?Ek; reflexivity.
Qed.

Lemma eng_response_refines : forall s xe q p m, erel (eng s) xe ->
  match m with MAddProvider _ | MInvalid => False | _ => True end ->
  erel (eng (eng_response s q p m)) (fst (E.xstep gc xe (E.XResp q p (mk_of m) (reply_of_msg m)))).
Proof.
  intros s xe q p m H Hm. cbn [E.xstep fst]. apply erel_upd; [assumption |].
  intros x y Hq. apply q_response_rel; assumption.
Qed.

(* next_peer_action: asked when the substream for a SendFindNode action opens *)
Lemma peer_wanted_refines : forall s xe q p, erel (eng s) xe -> lookups_live s ->
  peer_wanted s q p = match snd (E.xstep gc xe (E.XPeerAct q p)) with E.XNone => false | _ => true end.
Proof.
  intros s xe q p H Hl. cbn [E.xstep snd]. unfold peer_wanted.
  pose proof (erel_get _ _ q H) as G. specialize (Hl q).
  destruct (aget q (eng s)) as [x |]; destruct (E.xget q xe) as [y |]; try contradiction; [| reflexivity].
  destruct G as [lk qr c ls seeds es ls' Hs Hk | qr ps | pv pd n need]; [| reflexivity | reflexivity].
  destruct (Hl _ eq_refl) as [Hd _].
  pose proof (lsim_fields _ _ Hs) as (_ & F2 & _ & _ & _ & _ & _ & F8).
  assert (A : E.peer_action_asks (qt_of lk) = true) by (destruct lk; reflexivity).
  rewrite A. unfold L.peer_msg, L.effective. rewrite <- F8, <- F2, Hd. cbn [negb andb].
  destruct (L.pmem p (L.pend ls)); reflexivity.
Qed.
End Calls.

(* ---- the starts ---- *)
(* the engine call a user command makes: QueryType, quorum code, known_records, known providers *)
Definition xstart_of (c : cmd) : option (E.qtype * N * N * N * list (N * list N)) :=
  match c with
  | CFindNode => Some (E.TFindNode, 1, 0, 0, [])
  | CPutRecord qr => Some (E.TPutRecord, qtag_of qr, qn_of qr, 0, [])
  | CStartProviding qr | CRefresh qr => Some (E.TAddProvider, qtag_of qr, qn_of qr, 0, [])
  | CGetProviders kp => Some (E.TGetProviders, 1, 0, 0, kp)
  | CGetRecord qr local =>
      match qr, local with
      | QOne, true => None                      (* answered from the local store: no query *)
      | _, _ => Some (E.TGetRecord, qtag_of qr, qn_of qr, if local then 1 else 0, [])
      end
  end.

Lemma on_cmd_refines : forall g s xe q c dists seeds, erel (eng s) xe ->
  match xstart_of c with
  | Some (t, qtag, qn, known, kp) =>
      erel (eng (fst (on_cmd g s q c dists seeds)))
           (fst (E.xstep (gc_of g dists) xe (E.XStart q t qtag qn known seeds kp)))
  | None => eng (fst (on_cmd g s q c dists seeds)) = eng s
  end.
Proof.
  intros g s xe q c dists seeds H.
  assert (St : forall lk qr t known kp kd needed,
            qt_of lk = t -> kind_of lk = kd ->
            E.lookup_cfg (gc_of g dists) t (qtag_of qr) (qn_of qr) known kp = lcfg g kd needed (if known =? 0 then 0 else 1) kp dists ->
            erel (eng (start_lookup g s q lk qr (lcfg g kd needed (if known =? 0 then 0 else 1) kp dists) seeds))
                 (fst (E.xstep (gc_of g dists) xe (E.XStart q t (qtag_of qr) (qn_of qr) known seeds kp)))).
  { intros lk qr t known kp kd needed <- <- Hc. cbn [E.xstep fst]. unfold start_lookup. cbn [eng w_eng].
    apply erel_set; [exact H |]. unfold E.start_q.
    assert (Cx : match E.ctx_of (qt_of lk) with E.CMany | E.CTarget => False | _ => True end) by (destruct lk; exact I).
    destruct (E.ctx_of (qt_of lk)) eqn:Ex; try contradiction; rewrite Hc;
      (constructor; [apply lsim_refl | destruct lk; reflexivity]). }
  destruct c as [| qr | qr | qr local | kp | qr]; cbn [xstart_of].
  - apply (St LFind QOne E.TFindNode 0 [] L.KFind 0); reflexivity.
  - apply (St LPut qr E.TPutRecord 0 [] L.KFind 0); reflexivity.
  - apply (St LProv qr E.TAddProvider 0 [] L.KFind 0); reflexivity.
  - unfold on_cmd.
    destruct qr as [| n |]; destruct local; cbn [fst];
      first [reflexivity
            | apply (St LRec _ E.TGetRecord 1 [] L.KRecord); reflexivity
            | apply (St LRec _ E.TGetRecord 0 [] L.KRecord); reflexivity].
  - apply (St LGetProv QOne E.TGetProviders 0 kp L.KProviders 0); reflexivity.
  - apply (St LProv qr E.TAddProvider 0 [] L.KFind 0); reflexivity.
Qed.

(* put_record_to_peers: QueryEngine::start_put_record_to_peers *)
Lemma put_to_peers_refines : forall gc s xe q qr ps, erel (eng s) xe ->
  erel (aset q (QToPeers qr ps) (eng s))
       (fst (E.xstep gc xe (E.XStart q E.TPutRecordToPeers (qtag_of qr) (qn_of qr) 0 ps []))).
Proof. intros. cbn [E.xstep fst]. apply erel_set; [assumption | constructor]. Qed.

Lemma ndedup_dedup : forall l, ndedup l = E.dedup l.
Proof. induction l as [| h t IH]; [reflexivity |]. cbn. rewrite IH. reflexivity. Qed.

Lemma clamp_need : forall qr len, clamp qr len = E.need_track (qtag_of qr) (qn_of qr) len.
Proof. destruct qr; reflexivity. Qed.

(* start_put_record_to_found_nodes_requests_tracking / start_add_provider_to_found_nodes_requests_tracking *)
Lemma track_start_refines : forall gc e xe pv q l qr, erel e xe ->
  erel (aset q (QTrack pv (ndedup l) 0 (clamp qr (N.of_nat (length l)))) e)
       (fst (E.xstep gc xe (E.XStart q (tt_of pv) (qtag_of qr) (qn_of qr) 0 l []))).
Proof.
  intros. cbn [E.xstep fst]. apply erel_set; [assumption |]. unfold E.start_q.
  rewrite ndedup_dedup, clamp_need. destruct pv; constructor.
Qed.

(* ---- the engine half of `serve`: next_action for the query the HashMap order picked ---- *)
Definition epoll (now q : N) (e : list (N * qstate)) : list (N * qstate) * E.xaction :=
  match aget q e with
  | None => (e, E.XNone)
  | Some (QLookup lk qr c ls) =>
      let '(ls', a) := L.next_action c ls now in
      match a with
      | L.ANone => (e, E.XNone)
      | _ => (if L.is_terminal a then adel q e
              else map (fun y : N * qstate => if fst y =? q then (q, QLookup lk qr c ls') else y) e,
              E.lift_action q (qt_of lk) (qtag_of qr) (qn_of qr) a)
      end
  | Some (QToPeers qr ps) => (adel q e, E.XPutToFound q ps (qtag_of qr) (qn_of qr))
  | Some (QTrack pv pd n need) =>
      match pd with
      | [] => (adel q e, if need <=? n then (if pv then E.XAddProvOk q else E.XPutOk q) else E.XFailed q)
      | _ => (e, E.XNone)
      end
  end.

(* on_query_action: what the loop does with an action of the engine *)
Definition on_action (s : st) (a : E.xaction) : st * list out * bool :=
  match a with
  | E.XNone | E.XPeerMsg _ _ => (s, [], false)
  | E.XSend q p _ =>
      let '(s2, ok) := open_or_dial s p (mkAct AFind q) in (if ok then s2 else eng_fail s2 q p, [], true)
  | E.XPartial q p r => (s, [OPartial q p r], true)
  | E.XFailed q => (s, [OFailed q], true)
  | E.XFindNodeOk q l => (s, [OFindNodeSuccess q l], true)
  | E.XPutToFound q l qtag qn => (start_track s false q l (qdec qtag qn), [OTrack q l], true)
  | E.XAddProvToFound q l qtag qn => (start_track s true q l (qdec qtag qn), [OTrack q l], true)
  | E.XPutOk q => (s, [OPutSuccess q], true)
  | E.XAddProvOk q => (s, [OProvSuccess q], true)
  | E.XRecDone q => (s, [OGetRecSuccess q], true)
  | E.XProvDone q l => (s, [OGetProvSuccess q l], true)
  end.

Definition kinds_ok (e : list (N * qstate)) : Prop :=
  forall q lk qr c ls, aget q e = Some (QLookup lk qr c ls) -> L.c_kind c = kind_of lk.

Lemma erel_kinds : forall e xe, erel e xe -> kinds_ok e.
Proof.
  intros e xe H q lk qr c ls Hg. pose proof (erel_get _ _ q H) as G. rewrite Hg in G.
  destruct (E.xget q xe); [| contradiction]. inversion G. assumption.
Qed.

Lemma serve_factor : forall s q, kinds_ok (eng s) ->
  serve s q = on_action (w_eng s (fst (epoll (now s) q (eng s)))) (snd (epoll (now s) q (eng s))).
Proof.
  intros s q Hk. unfold serve, epoll. specialize (Hk q).
  assert (W : w_eng s (eng s) = s) by (destruct s; reflexivity).
  destruct (aget q (eng s)) as [[lk qr c ls | qr ps | pv pd n need] |] eqn:Eg.
  - specialize (Hk _ _ _ _ eq_refl).
    destruct (L.next_action c ls (now s)) as [ls' a] eqn:En.
    destruct a as [| p | | l | p r | | l]; cbn [L.is_terminal fst snd E.lift_action on_action].
    + rewrite W. reflexivity.
    + reflexivity.
    + reflexivity.
    + assert (Kf : L.c_kind c = L.KFind).
      { eapply found_only_find with (s := ls) (now := now s). rewrite En. reflexivity. }
      rewrite Hk in Kf. destruct lk; try discriminate Kf; cbn [qt_of on_action]; rewrite ?qdec_enc; reflexivity.
    + reflexivity.
    + reflexivity.
    + reflexivity.
  - cbn [fst snd on_action]. rewrite qdec_enc. reflexivity.
  - destruct pd; cbn [fst snd on_action].
    + destruct (need <=? n); [destruct pv |]; reflexivity.
    + rewrite W. reflexivity.
  - cbn [fst snd on_action]. rewrite W. reflexivity.
Qed.

Lemma succ_pred : forall q, q + 1 - 1 = q.
Proof. intros. lia. Qed.

Lemma erel_keys : forall e xe, erel e xe -> map fst e = map fst xe.
Proof. intros e xe H. induction H as [| a b e xe [Hk _] _ IH]; [reflexivity |]. cbn [map]. rewrite Hk, IH. reflexivity. Qed.

Lemma xupd_absent_rel : forall e xe q f, erel e xe -> ~ In q (map fst e) -> erel e (E.xupd q f xe).
Proof.
  intros e xe q f H. induction H as [| [k x] [k' y] e xe [Hk Hq] _ IH]; intro Hn; [constructor |].
  cbn [fst snd] in Hk, Hq. subst k'. unfold E.xupd in *. cbn [map fst snd] in *.
  destruct (N.eqb_spec k q) as [-> | Hne]; [exfalso; apply Hn; left; reflexivity |].
  constructor; [split; [reflexivity | exact Hq] | apply IH; intro; apply Hn; right; assumption].
Qed.

(* replacing the entry of q by a related one, when the C16 side keeps its entry *)
Lemma erel_keep : forall e xe q x y', erel e xe -> NoDup (map fst e) -> aget q e = Some x -> qrel x y' ->
  erel e (E.xupd q (fun _ => y') xe).
Proof.
  intros e xe q x y' H. induction H as [| [k x0] [k' y0] e xe [Hk Hq] Ht IH]; intros Hn Hg Hr; [discriminate |].
  cbn [fst snd] in Hk, Hq. subst k'. rewrite aget_cons in Hg. cbn [map fst] in Hn. inversion Hn as [| ? ? Hni Hn']; subst.
  unfold E.xupd in *. cbn [map fst snd].
  destruct (N.eqb_spec k q) as [-> | Hne].
  - injection Hg as ->. constructor; [split; [reflexivity | exact Hr] |].
    apply (xupd_absent_rel e xe q (fun _ => y') Ht Hni).
  - constructor; [split; [reflexivity | exact Hq] | apply IH; assumption].
Qed.

Lemma epoll_refines : forall gc e xe now q, erel e xe -> NoDup (map fst e) ->
  erel (fst (epoll now q e)) (fst (E.xstep gc xe (E.XNext now (q + 1)))) /\
  snd (epoll now q e) = snd (E.xstep gc xe (E.XNext now (q + 1))).
Proof.
  intros gc e xe now q H Hn. cbn [E.xstep].
  destruct (q + 1) eqn:Eq1; [lia |]. rewrite <- Eq1, succ_pred. clear Eq1 p.
  unfold epoll. pose proof (erel_get _ _ q H) as G.
  destruct (aget q e) as [x |] eqn:Eg; destruct (E.xget q xe) as [y |]; try contradiction;
    [| split; [exact H | reflexivity]].
  destruct G as [lk qr c ls seeds es ls' Hs Hk | qr ps | pv pd n need]; cbn [E.poll].
  - pose proof (next_action_lsim c ls ls' now Hs) as [N1 N2].
    pose proof (next_action_none c ls' now) as Nn.
    destruct (L.next_action c ls now) as [l1 a1]. destruct (L.next_action c ls' now) as [l2 a2].
    cbn [fst snd] in N1, N2, Nn. subst a2.
    destruct a1 as [| p | | l | p r | | l]; cbn [L.is_terminal fst snd E.lift_action].
    + split; [| reflexivity].
      eapply erel_keep; [exact H | exact Hn | exact Eg |]. constructor; [| exact Hk].
      eapply lsim_trans; [exact Hs | apply Nn; reflexivity].
    + split; [apply erel_setq; [exact H | constructor; assumption] | reflexivity].
    + split; [apply erel_del; exact H | reflexivity].
    + split; [apply erel_del; exact H | destruct lk; reflexivity].
    + split; [apply erel_setq; [exact H | constructor; assumption] | reflexivity].
    + split; [apply erel_del; exact H | reflexivity].
    + split; [apply erel_del; exact H | reflexivity].
  - split; [apply erel_del; exact H | reflexivity].
  - destruct pd.
    + split; [apply erel_del; exact H | destruct pv; reflexivity].
    + split; [| reflexivity]. eapply erel_keep; [exact H | exact Hn | exact Eg | constructor].
Qed.

(* ---- every reachable engine of the glue model is a reachable C15 engine ---- *)
(* C15's xrun fixes one distance function for the whole engine; here every start brings the distance
   ranks of its own target, so the C15 steps are run with the configuration of each call *)
Fixpoint xrunG (e : E.xeng) (h : list (E.gcfg * E.xevent)) : E.xeng :=
  match h with
  | [] => e
  | (gc, ev) :: t => xrunG (fst (E.xstep gc e ev)) t
  end.

Lemma xrunG_snoc : forall h e gc ev, xrunG e (h ++ [(gc, ev)]) = fst (E.xstep gc (xrunG e h) ev).
Proof. induction h as [| [g0 e0] t IH]; intros; cbn [xrunG app]; [reflexivity | apply IH]. Qed.

Definition Sim (e : list (N * qstate)) : Prop :=
  NoDup (map fst e) /\ exists h, erel e (xrunG [] h).

Lemma Sim_nil : Sim [].
Proof. split; [constructor | exists []; constructor]. Qed.

Lemma nodup_upd : forall (f : qstate -> qstate) q (e : list (N * qstate)),
  NoDup (map fst e) ->
  NoDup (map fst (map (fun x : N * qstate => if fst x =? q then (fst x, f (snd x)) else x) e)).
Proof.
  intros f q e H. rewrite map_map.
  replace (map _ e) with (map fst e); [exact H |].
  apply map_ext. intros [k x]. cbn [fst snd]. destruct (k =? q); reflexivity.
Qed.

Lemma nodup_setq : forall (x : qstate) q (e : list (N * qstate)),
  NoDup (map fst e) ->
  NoDup (map fst (map (fun z : N * qstate => if fst z =? q then (q, x) else z) e)).
Proof.
  intros x q e H. rewrite map_map.
  replace (map _ e) with (map fst e); [exact H |].
  apply map_ext. intros [k y]. cbn [fst snd]. destruct (N.eqb_spec k q) as [-> | Hne]; reflexivity.
Qed.

(* one C15 step that keeps the relation *)
Lemma Sim_step : forall e e', Sim e -> NoDup (map fst e') ->
  (forall xe, erel e xe -> exists gc ev, erel e' (fst (E.xstep gc xe ev))) -> Sim e'.
Proof.
  intros e e' [_ [h Hh]] Hn Hs. split; [exact Hn |].
  destruct (Hs _ Hh) as (gc & ev & Hr). exists (h ++ [(gc, ev)]). rewrite xrunG_snoc. exact Hr.
Qed.

Definition DUMMY : E.gcfg := E.mkGc 0 0 0 0 (fun p => p).

Lemma Sim_resp_fail : forall s q p, Sim (eng s) -> Sim (eng (eng_resp_fail s q p)).
Proof.
  intros s q p H. apply (Sim_step (eng s)); [exact H | apply nodup_upd; apply H |].
  intros xe Hr. exists DUMMY, (E.XFail q p). apply eng_resp_fail_refines. exact Hr.
Qed.
Lemma Sim_send_fail : forall s q p, Sim (eng s) -> Sim (eng (eng_send_fail s q p)).
Proof.
  intros s q p H. apply (Sim_step (eng s)); [exact H | apply nodup_upd; apply H |].
  intros xe Hr. exists DUMMY, (E.XSendFail q p). apply eng_send_fail_refines. exact Hr.
Qed.
Lemma Sim_send_ok : forall s q p, Sim (eng s) -> Sim (eng (eng_send_ok s q p)).
Proof.
  intros s q p H. apply (Sim_step (eng s)); [exact H | apply nodup_upd; apply H |].
  intros xe Hr. exists DUMMY, (E.XSendOk q p). apply eng_send_ok_refines. exact Hr.
Qed.
Lemma Sim_fail : forall s q p, Sim (eng s) -> Sim (eng (eng_fail s q p)).
Proof. intros. unfold eng_fail. apply Sim_resp_fail, Sim_send_fail. assumption. Qed.
Lemma Sim_response : forall s q p m, Sim (eng s) ->
  match m with MAddProvider _ | MInvalid => False | _ => True end -> Sim (eng (eng_response s q p m)).
Proof.
  intros s q p m H Hm. apply (Sim_step (eng s)); [exact H | apply nodup_upd; apply H |].
  intros xe Hr. exists DUMMY, (E.XResp q p (mk_of m) (reply_of_msg m)). apply eng_response_refines; assumption.
Qed.

Lemma Sim_eq : forall e e', e' = e -> Sim e -> Sim e'.
Proof. intros. subst. assumption. Qed.

Lemma Sim_fold : forall A (f : st -> A -> st),
  (forall acc x, Sim (eng acc) -> Sim (eng (f acc x))) ->
  forall l s, Sim (eng s) -> Sim (eng (fold_left f l s)).
Proof. intros A f Hf. induction l as [| x t IH]; intros s H; cbn [fold_left]; [exact H | apply IH, Hf, H]. Qed.

Lemma track_sub_eng : forall s p sid a, eng (track_sub s p sid a) = eng s.
Proof. reflexivity. Qed.

Lemma Sim_disconnect : forall s p qo, Sim (eng s) -> Sim (eng (disconnect_peer s p qo)).
Proof.
  intros s p qo H. unfold disconnect_peer.
  set (s1 := match qo with Some q => eng_fail s q p | None => s end).
  assert (H1 : Sim (eng s1)) by (subst s1; destruct qo; [apply Sim_fail |]; exact H).
  destruct (aget p (peers s1)); [| exact H1].
  apply Sim_fold; [| exact H1]. intros acc x Ha. destruct (opt_is qo (a_q (snd x))); [exact Ha | apply Sim_fail; exact Ha].
Qed.

Lemma Sim_established : forall s p, Sim (eng s) -> Sim (eng (on_connection_established s p)).
Proof.
  intros s p H. unfold on_connection_established.
  destruct (aget p (peers s)); [exact H |]. destruct (aget p (pdial s)); [| exact H].
  apply Sim_fold; [| exact H]. intros acc a Ha.
  pose proof (svc_open_eng acc p) as Eo. destruct (svc_open acc p) as [s2 [sid |]]; cbn [fst] in Eo.
  - rewrite track_sub_eng, Eo. exact Ha.
  - apply Sim_fail. rewrite Eo. exact Ha.
Qed.

Lemma Sim_dial_failure : forall s p, Sim (eng s) -> Sim (eng (on_dial_failure s p)).
Proof.
  intros s p H. unfold on_dial_failure. destruct (aget p (pdial s)); [| exact H].
  apply Sim_fold; [| exact H]. intros acc a Ha. apply Sim_fail. exact Ha.
Qed.

Lemma Sim_open_failure : forall s sid, Sim (eng s) -> Sim (eng (on_substream_open_failure s sid)).
Proof.
  intros s sid H. unfold on_substream_open_failure. destruct (aget sid (psub s)); [| exact H].
  cbn [peers w_psub]. destruct (aget n (peers s)); [| exact H]. apply Sim_disconnect. exact H.
Qed.

Lemma outbound_eng : forall s p sid, eng (on_outbound_substream s p sid) = eng s.
Proof.
  intros s p sid. unfold on_outbound_substream. cbn [peers w_psub].
  destruct (aget p (peers s)); [| reflexivity]. destruct (aget sid l); [| reflexivity].
  destruct (a_kind p0); [| reflexivity | reflexivity].
  match goal with |- eng (if ?b then _ else _) = _ => destruct b end; reflexivity.
Qed.

Lemma inbound_eng : forall s p id, eng (on_inbound_substream s p id) = eng s.
Proof. intros s p id. unfold on_inbound_substream. destruct (aget p (peers s)); reflexivity. Qed.

Lemma Sim_on_message : forall g s id p qo m, Sim (eng s) -> Sim (eng (fst (on_message g s id p qo m))).
Proof.
  intros g s id p qo m H. unfold on_message. destruct qo as [q |].
  - destruct m; cbn [fst]; first [apply Sim_response; [exact H | exact I] | apply Sim_resp_fail; exact H].
  - destruct m as [ps | | hk r ps | v | hk pv ps |]; cbn [fst]; try exact H;
      try (destruct hk; cbn [fst]; exact H). destruct v; exact H.
Qed.

Lemma Sim_on_future : forall g s id r, Sim (eng s) -> Sim (eng (fst (on_future g s id r))).
Proof.
  intros g s id r H. unfold on_future. destruct (find_fut id (futs s)) as [f |]; [| exact H].
  destruct (res_ok (f_kind f) r); [| exact H].
  assert (H1 : Sim (eng (w_futs s (del_fut id (futs s))))) by exact H.
  destruct r; cbn [fst].
  - destruct (f_q f); [apply Sim_send_ok |]; exact H1.
  - destruct (f_q f); [apply Sim_send_ok |]; exact H1.
  - apply Sim_disconnect. exact H1.
  - apply Sim_on_message. destruct (f_q f); [apply Sim_send_ok |]; exact H1.
  - apply Sim_disconnect. exact H1.
Qed.

Lemma Sim_start_track : forall s pv q l qr, Sim (eng s) -> Sim (eng (start_track s pv q l qr)).
Proof.
  intros s pv q l qr H. unfold start_track. apply Sim_fold.
  - intros acc p Ha. pose proof (open_or_dial_eng acc p (mkAct (if pv then AProv else APut) q)) as Eo.
    destruct (open_or_dial acc p _) as [s2 ok]. cbn [fst] in Eo. destruct ok.
    + rewrite Eo. exact Ha.
    + apply Sim_send_fail. rewrite Eo. exact Ha.
  - cbn [eng w_eng]. apply (Sim_step (eng s)); [exact H | apply nodup_aset; apply H |].
    intros xe Hr. exists DUMMY, (E.XStart q (tt_of pv) (qtag_of qr) (qn_of qr) 0 l []).
    apply track_start_refines. exact Hr.
Qed.

Lemma Sim_on_action : forall s a, Sim (eng s) -> Sim (eng (fst (fst (on_action s a)))).
Proof.
  intros s a H. destruct a; cbn [on_action fst]; try exact H; try (apply Sim_start_track; exact H).
  pose proof (open_or_dial_eng s p (mkAct AFind q)) as Eo.
  destruct (open_or_dial s p (mkAct AFind q)) as [s2 ok]. cbn [fst] in *. destruct ok.
  - rewrite Eo. exact H.
  - apply Sim_fail. rewrite Eo. exact H.
Qed.

Lemma nodup_epoll : forall now q e, NoDup (map fst e) -> NoDup (map fst (fst (epoll now q e))).
Proof.
  intros now q e H. unfold epoll. destruct (aget q e) as [[lk qr c ls | qr ps | pv pd n need] |]; [| | | exact H].
  - destruct (L.next_action c ls now) as [ls' a].
    destruct a; cbn [fst L.is_terminal]; first [exact H | apply nodup_adel; exact H | apply nodup_setq; exact H].
  - apply nodup_adel. exact H.
  - destruct pd; [apply nodup_adel |]; exact H.
Qed.

Lemma Sim_serve : forall s q, Sim (eng s) -> Sim (eng (fst (fst (serve s q)))).
Proof.
  intros s q H. destruct H as [Hn [h Hh]]. rewrite (serve_factor s q (erel_kinds _ _ Hh)).
  apply Sim_on_action. cbn [eng w_eng]. split; [apply nodup_epoll; exact Hn |].
  exists (h ++ [(DUMMY, E.XNext (now s) (q + 1))]). rewrite xrunG_snoc.
  apply (epoll_refines DUMMY (eng s) (xrunG [] h) (now s) q Hh Hn).
Qed.

Lemma Sim_on_cmd : forall g s q c dists seeds, Sim (eng s) -> Sim (eng (fst (on_cmd g s q c dists seeds))).
Proof.
  intros g s q c dists seeds H. pose proof (on_cmd_refines g s) as R.
  destruct (xstart_of c) as [[[[[t qtag] qn] known] kp] |] eqn:Ex.
  - apply (Sim_step (eng s)); [exact H | |].
    + destruct H as [Hn _]. unfold on_cmd, start_lookup.
      destruct c as [| qr | qr | qr local | kp0 | qr]; cbn [fst eng w_eng]; try (apply nodup_aset; exact Hn).
      destruct qr; destruct local; cbn [fst eng w_eng]; first [exact Hn | apply nodup_aset; exact Hn].
    + intros xe Hr. specialize (R xe q c dists seeds Hr). rewrite Ex in R.
      exists (gc_of g dists), (E.XStart q t qtag qn known seeds kp). exact R.
  - destruct H as [Hn [h Hh]]. specialize (R _ q c dists seeds Hh). rewrite Ex in R. rewrite R. split; [exact Hn | exists h; exact Hh].
Qed.

Lemma Sim_step_ev : forall g s e, Sim (eng s) -> Sim (eng (fst (fst (step g s e)))).
Proof.
  intros g s e H. destruct e; cbn [step].
  - pose proof (Sim_on_cmd g s q c dists seeds H) as R. destruct (on_cmd g s q c dists seeds). exact R.
  - cbn [fst eng w_eng]. apply (Sim_step (eng s)); [exact H | apply nodup_aset; apply H |].
    intros xe Hr. exists DUMMY, (E.XStart q E.TPutRecordToPeers (qtag_of qr) (qn_of qr) 0 ps []).
    apply put_to_peers_refines. exact Hr.
  - exact H.
  - apply Sim_serve. exact H.
  - destruct (aget p (conn s)); cbn [fst]; [exact H |]. apply Sim_established. exact H.
  - destruct (aget p (conn s)); cbn [fst]; [| exact H]. apply Sim_disconnect. exact H.
  - destruct (aget p (conn s)); exact H.
  - exact H.
  - cbn [fst]. rewrite outbound_eng. exact H.
  - apply Sim_open_failure. exact H.
  - apply Sim_dial_failure. exact H.
  - cbn [fst]. rewrite inbound_eng. exact H.
  - pose proof (Sim_on_future g s id r H) as R. destruct (on_future g s id r). exact R.
  - exact H.
Qed.

Lemma run_sim : forall g es s, Sim (eng s) -> Sim (eng (fst (run g s es))).
Proof.
  intros g es. induction es as [| e t IH]; intros s H; [exact H |].
  rewrite run_cons. cbn [fst]. apply IH, Sim_step_ev, H.
Qed.

(* after EVERY history of the loop the engine of the glue model is, entry by entry, an engine that C15's
   QueryEngine model reaches by a history of its own calls *)
Lemma engine_is_c15 : forall g m es,
  exists h, erel (eng (fst (run g (st0 m) es))) (xrunG [] h).
Proof. intros g m es. apply (run_sim g es (st0 m) Sim_nil). Qed.

(* the three theorems of Properties.v *)
Lemma engine_calls_refine : forall gc s xe q p, erel (eng s) xe ->
  erel (eng (eng_resp_fail s q p)) (fst (E.xstep gc xe (E.XFail q p))) /\
  erel (eng (eng_send_fail s q p)) (fst (E.xstep gc xe (E.XSendFail q p))) /\
  erel (eng (eng_send_ok s q p)) (fst (E.xstep gc xe (E.XSendOk q p))) /\
  erel (eng (eng_fail s q p)) (fst (E.xstep gc xe (E.XPeerFail q p))) /\
  (forall m, match m with MAddProvider _ | MInvalid => False | _ => True end ->
             erel (eng (eng_response s q p m)) (fst (E.xstep gc xe (E.XResp q p (mk_of m) (reply_of_msg m))))) /\
  (lookups_live s ->
   peer_wanted s q p = match snd (E.xstep gc xe (E.XPeerAct q p)) with E.XNone => false | _ => true end).
Proof.
  intros gc s xe q p H.
  split; [apply eng_resp_fail_refines; exact H |]. split; [apply eng_send_fail_refines; exact H |].
  split; [apply eng_send_ok_refines; exact H |]. split; [apply eng_fail_refines; exact H |].
  split; [intros m Hm; apply eng_response_refines; assumption |].
  intro Hl. apply peer_wanted_refines; assumption.
Qed.

Lemma engine_starts_refine : forall g gc s xe q, erel (eng s) xe ->
  (forall c dists seeds,
     match xstart_of c with
     | Some (t, qtag, qn, known, kp) =>
         erel (eng (fst (on_cmd g s q c dists seeds)))
              (fst (E.xstep (gc_of g dists) xe (E.XStart q t qtag qn known seeds kp)))
     | None => eng (fst (on_cmd g s q c dists seeds)) = eng s
     end) /\
  (forall qr ps, erel (aset q (QToPeers qr ps) (eng s))
                      (fst (E.xstep gc xe (E.XStart q E.TPutRecordToPeers (qtag_of qr) (qn_of qr) 0 ps [])))) /\
  (forall pv l qr, erel (aset q (QTrack pv (ndedup l) 0 (clamp qr (N.of_nat (length l)))) (eng s))
                        (fst (E.xstep gc xe (E.XStart q (tt_of pv) (qtag_of qr) (qn_of qr) 0 l [])))).
Proof.
  intros g gc s xe q H. split; [intros; apply on_cmd_refines; exact H |].
  split; [intros; apply put_to_peers_refines; exact H | intros; apply track_start_refines; exact H].
Qed.

Lemma engine_serve_refines : forall gc s xe q, erel (eng s) xe -> NoDup (map fst (eng s)) ->
  exists e', erel e' (fst (E.xstep gc xe (E.XNext (now s) (q + 1)))) /\
             serve s q = on_action (w_eng s e') (snd (E.xstep gc xe (E.XNext (now s) (q + 1)))).
Proof.
  intros gc s xe q H Hn. destruct (epoll_refines gc (eng s) xe (now s) q H Hn) as [R1 R2].
  exists (fst (epoll (now s) q (eng s))). split; [exact R1 |].
  rewrite <- R2. apply serve_factor. eapply erel_kinds. exact H.
Qed.
