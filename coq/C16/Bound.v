(* C16 — the global step bound: C15's measure lifted through the glue. *)
From Coq Require Import List NArith Bool Lia ZifyBool ZifyNat ZifyN.
From V.C15 Require Proofs.
From V.C16 Require Import Model Proofs Obl.
Import ListNotations.
Open Scope N_scope.

Arguments N.add : simpl never.
Arguments N.sub : simpl never.
Arguments N.eqb : simpl never.
Arguments N.ltb : simpl never.
Arguments N.leb : simpl never.
Arguments N.of_nat : simpl never.
Arguments aset : simpl never.
Arguments adel : simpl never.
Arguments aget : simpl never.

(* ------------------------------------------------------------------ sums over association lists *)

Fixpoint asum {A} (w : A -> nat) (l : list (N * A)) : nat :=
  match l with [] => 0%nat | x :: t => (w (snd x) + asum w t)%nat end.

Lemma asum_app : forall A (w : A -> nat) a b, asum w (a ++ b) = (asum w a + asum w b)%nat.
Proof. intros A w a b. induction a as [| x t IH]; cbn [app asum]; [reflexivity | rewrite IH; lia]. Qed.

Lemma asum_adel : forall A (w : A -> nat) k l, (asum w (adel k l) <= asum w l)%nat.
Proof.
  intros A w k l. unfold adel. induction l as [| x t IH]; [apply le_n |].
  cbn [filter asum]. destruct (negb (fst x =? k)); cbn [asum]; lia.
Qed.

Lemma asum_adel_hit : forall A (w : A -> nat) k v l,
  aget k l = Some v -> (asum w (adel k l) + w v <= asum w l)%nat.
Proof.
  intros A w k v l. unfold adel, aget. induction l as [| [k0 v0] t IH]; [discriminate |].
  cbn [fst filter asum snd]. destruct (N.eqb_spec k0 k) as [E | E]; cbn [negb].
  - intro H. inversion H. subst. pose proof (asum_adel A w k t) as L. unfold adel in L. lia.
  - intro H. specialize (IH H). cbn [asum snd]. lia.
Qed.

Lemma asum_aset_none : forall A (w : A -> nat) k v l,
  (asum w (aset k v l) <= asum w l + w v)%nat.
Proof.
  intros A w k v l. unfold aset. rewrite asum_app. cbn [asum snd]. pose proof (asum_adel A w k l). lia.
Qed.

Lemma asum_aset_some : forall A (w : A -> nat) k v v0 l,
  aget k l = Some v0 -> (asum w (aset k v l) + w v0 <= asum w l + w v)%nat.
Proof.
  intros A w k v v0 l H. unfold aset. rewrite asum_app. cbn [asum snd].
  pose proof (asum_adel_hit A w k v0 l H). lia.
Qed.

Lemma asum_map_keep : forall A (w : A -> nat) (f : N * A -> N * A) l,
  (forall x, In x l -> (w (snd (f x)) <= w (snd x))%nat) -> (asum w (map f l) <= asum w l)%nat.
Proof.
  intros A w f l. induction l as [| x t IH]; intro H; [apply le_n |]. cbn [map asum].
  specialize (H x (or_introl eq_refl)) as H0. assert (asum w (map f t) <= asum w t)%nat.
  { apply IH. intros y Hy. apply H. right. exact Hy. }
  lia.
Qed.

(* ------------------------------------------------------------------ the measure *)

Definition kn (g : gcfg) : nat := N.to_nat (g_k g).

Definition qW (U : list N) (g : gcfg) (x : qstate) : nat :=
  match x with
  | QLookup _ _ _ ls => (5 * LP.mu U ls + length (L.recq ls) + (5 * kn g + 2))%nat
  | QToPeers _ ps => (5 * length ps + 2)%nat
  | QTrack _ pd _ _ => (length pd + 1)%nat
  end.

Definition fw (f : fut) : nat :=
  match f_kind f with FInRead | FReqResp | FReqEat => 2%nat | _ => 1%nat end.
Fixpoint fsum (l : list fut) : nat := match l with [] => 0%nat | f :: t => (fw f + fsum t)%nat end.

Definition mE (U : list N) (g : gcfg) (s : st) : nat := asum (qW U g) (eng s).
Definition mD (s : st) : nat := asum (fun acts : list pact => length acts) (pdial s).
Definition mS (s : st) : nat := asum (fun acts : list (N * pact) => length acts) (peers s).
Definition mF (s : st) : nat := fsum (futs s).
(* owed to the glue: 4 per queued dial action, 3 per pending substream action, 2 per future that
   reads a message, 1 per future that only writes *)
Definition mG (s : st) : nat := (4 * mD s + 3 * mS s + mF s)%nat.
Definition M (U : list N) (g : gcfg) (s : st) : nat := (mE U g s + mG s)%nat.

(* ------------------------------------------------------------------ what stays true of every query *)

Definition QOK (U : list N) (g : gcfg) (x : qstate) : Prop :=
  match x with
  | QLookup _ _ c ls =>
      LI1 c ls /\ LP.cands_in U ls /\ L.c_k c = g_k g /\ N.of_nat (length (L.resps ls)) <= L.c_k c /\
      L.done ls = false
  | _ => True
  end.

(* an engine call that keeps QOK and does not raise the weight *)
Definition wrel (U : list N) (g : gcfg) (x x' : qstate) : Prop :=
  QOK U g x -> QOK U g x' /\ (qW U g x' <= qW U g x)%nat.

Lemma wrel_refl : forall U g x, wrel U g x x.
Proof. intros U g x H. split; [exact H | apply le_n]. Qed.

Lemma wrel_trans : forall U g a b c, wrel U g a b -> wrel U g b c -> wrel U g a c.
Proof. intros U g a b c H1 H2 Ha. destruct (H1 Ha) as [Hb L1]. destruct (H2 Hb) as [Hc L2]. split; [exact Hc | lia]. Qed.

Lemma nremove_len : forall p l, (length (nremove p l) <= length l)%nat.
Proof. intros. unfold nremove. apply LP.filter_len_le. Qed.

Lemma nremove_len_lt : forall p l, In p l -> (length (nremove p l) < length l)%nat.
Proof.
  intros p l. unfold nremove. induction l as [| h t IH]; [intros [] |]. cbn [filter].
  intros [H | H].
  - subst h. rewrite N.eqb_refl. cbn [negb length]. pose proof (LP.filter_len_le N (fun x => negb (x =? p)) t). lia.
  - specialize (IH H). destruct (negb (h =? p)); cbn [length]; lia.
Qed.

Lemma wrel_sf : forall U g p x, wrel U g x (q_send_fail p x).
Proof.
  intros U g p [lk qr c ls | qr ps | pv pd n need]; try apply wrel_refl.
  intros _. split; [exact I |]. cbn [q_send_fail qW]. pose proof (nremove_len p pd). lia.
Qed.

Lemma wrel_so : forall U g p x, wrel U g x (q_send_ok p x).
Proof.
  intros U g p [lk qr c ls | qr ps | pv pd n need]; try apply wrel_refl.
  intros _. split; [cbn [q_send_ok]; destruct (nmem p pd); exact I |]. cbn [q_send_ok]. destruct (nmem p pd); cbn [qW]; [| lia].
  pose proof (nremove_len p pd). lia.
Qed.

Lemma QOK_failure : forall U g lk qr c ls p,
  QOK U g (QLookup lk qr c ls) ->
  QOK U g (QLookup lk qr c (L.on_failure c ls p)) /\
  (LP.mu U (L.on_failure c ls p) <= LP.mu U ls)%nat /\ L.recq (L.on_failure c ls p) = L.recq ls /\
  (L.effective ls p = true -> (LP.mu U (L.on_failure c ls p) < LP.mu U ls)%nat).
Proof.
  intros U g lk qr c ls p (H1 & H2 & H3 & H4 & H5).
  pose proof (LP.mu_step c U ls (L.EFail p) (l1_inv _ _ H1) H2) as [Mu1 Mu2]. cbn [L.step fst snd] in Mu1, Mu2.
  destruct (failure_sets c ls p) as [F1 _]. destruct (on_failure_weight c ls p) as [_ W2].
  split; [| split; [exact Mu1 | split; [exact W2 |]]].
  - cbn [QOK]. split; [apply LI1_failure; exact H1 |].
    split; [apply (LP.cands_in_step c U ls (L.EFail p) I H2) |]. split; [exact H3 |].
    split; [rewrite F1; exact H4 | rewrite on_failure_done; exact H5].
  - intro E. apply Mu2. right. exists p. split; [right; reflexivity | exact E].
Qed.

Lemma wrel_rf : forall U g p x, wrel U g x (q_resp_fail p x).
Proof.
  intros U g p [lk qr c ls | qr ps | pv pd n need]; try apply wrel_refl.
  intro H. destruct (QOK_failure U g lk qr c ls p H) as (A & B & C & _). split; [exact A |].
  cbn [q_resp_fail qW]. rewrite C. lia.
Qed.

(* a response: the record queue may grow by one, but then the pending set has shrunk *)
Lemma QOK_response : forall U g lk qr c ls p rep,
  (forall q, In q (L.r_peers rep) -> In q U) ->
  QOK U g (QLookup lk qr c ls) ->
  QOK U g (QLookup lk qr c (L.on_response c ls p rep)) /\
  (5 * LP.mu U (L.on_response c ls p rep) + length (L.recq (L.on_response c ls p rep)) <=
   5 * LP.mu U ls + length (L.recq ls))%nat.
Proof.
  intros U g lk qr c ls p rep Hu (H1 & H2 & H3 & H4 & H5).
  pose proof (LP.mu_step c U ls (L.EResp p rep) (l1_inv _ _ H1) H2) as [Mu1 Mu2]. cbn [L.step fst snd] in Mu1, Mu2.
  split.
  - cbn [QOK]. split; [apply LI1_response; exact H1 |].
    split; [apply (LP.cands_in_step c U ls (L.EResp p rep) Hu H2) |]. split; [exact H3 |].
    split; [| rewrite on_response_done; exact H5].
    destruct (L.effective ls p) eqn:E; [| rewrite LP.on_response_noeff by exact E; exact H4].
    destruct (LP.on_response_eff c ls p rep E) as (_ & _ & _ & _ & _ & A6 & _). rewrite A6.
    destruct (L.c_kind c); [apply LP.resp_insert_len; exact H4 | exact H4 | exact H4].
  - destruct (L.effective ls p) eqn:E.
    + assert (Lt : (LP.mu U (L.on_response c ls p rep) < LP.mu U ls)%nat).
      { apply Mu2. right. exists p. split; [left; exists rep; reflexivity | exact E]. }
      destruct (LP.on_response_eff c ls p rep E) as (_ & _ & _ & _ & _ & _ & _ & A8).
      unfold LP.rec_update in A8. assert (length (L.recq (L.on_response c ls p rep)) <= S (length (L.recq ls)))%nat.
      { destruct (L.c_kind c); [inversion A8; lia | | inversion A8; lia].
        destruct (L.r_rec rep) as [[id [|]] |]; inversion A8 as [[Q1 Q2]]; rewrite ?Q2, ?app_length; cbn [length]; lia. }
      lia.
    + rewrite LP.on_response_noeff by exact E. lia.
Qed.

Definition msg_in (U : list N) (m : msg) : Prop :=
  match m with
  | MFindNode ps => forall q, In q ps -> In q U
  | MGetRecord _ _ ps => forall q, In q ps -> In q U
  | MGetProviders _ _ ps => forall q, In q ps -> In q U
  | _ => True
  end.

Lemma wrel_response : forall U g p m x, msg_in U m -> wrel U g x (q_response p m x).
Proof.
  intros U g p m [lk qr c ls | qr ps | pv pd n need] Hm; try apply wrel_refl.
  intro H.
  assert (F : QOK U g (QLookup lk qr c (L.on_failure c ls p)) /\
              (qW U g (QLookup lk qr c (L.on_failure c ls p)) <= qW U g (QLookup lk qr c ls))%nat).
  { destruct (QOK_failure U g lk qr c ls p H) as (A & B & C & _). split; [exact A |]. cbn [qW]. rewrite C. lia. }
  assert (R : forall rep, (forall q, In q (L.r_peers rep) -> In q U) ->
              QOK U g (QLookup lk qr c (L.on_response c ls p rep)) /\
              (qW U g (QLookup lk qr c (L.on_response c ls p rep)) <= qW U g (QLookup lk qr c ls))%nat).
  { intros rep Hu. destruct (QOK_response U g lk qr c ls p rep Hu H) as [A B]. split; [exact A |]. cbn [qW]. lia. }
  cbn [q_response]. destruct lk, m; cbn [msg_in] in Hm; first [exact F | apply R; cbn [L.r_peers]; exact Hm].
Qed.

(* ------------------------------------------------------------------ pointwise engine relations *)

Section PtRel.
  Variable R : qstate -> qstate -> Prop.
  Hypothesis R_refl : forall x, R x x.
  Hypothesis R_trans : forall a b c, R a b -> R b c -> R a c.
  Hypothesis R_sf : forall p x, R x (q_send_fail p x).
  Hypothesis R_rf : forall p x, R x (q_resp_fail p x).

  Definition prel1 (a b : N * qstate) : Prop := fst a = fst b /\ R (snd a) (snd b).
  Definition prel (s s' : st) : Prop := Forall2 prel1 (eng s) (eng s').

  Lemma prel_list_refl : forall l, Forall2 prel1 l l.
  Proof. induction l; constructor; [split; [reflexivity | apply R_refl] | assumption]. Qed.

  Lemma prel_refl : forall s, prel s s.
  Proof. intro s. apply prel_list_refl. Qed.

  Lemma prel_list_trans : forall a b c, Forall2 prel1 a b -> Forall2 prel1 b c -> Forall2 prel1 a c.
  Proof.
    intros a b c H1. revert c. induction H1 as [| x y l l' Hxy H1 IH]; intros c H2; inversion H2; subst; constructor.
    - destruct Hxy as [A1 A2]. match goal with H : prel1 y _ |- _ => destruct H as [B1 B2] end.
      split; [congruence | eapply R_trans; eassumption].
    - apply IH. assumption.
  Qed.

  Lemma prel_trans : forall a b c, prel a b -> prel b c -> prel a c.
  Proof. intros a b c. apply prel_list_trans. Qed.

  Lemma prel_eng : forall s s', eng s' = eng s -> prel s s'.
  Proof. intros s s' E. unfold prel. rewrite E. apply prel_list_refl. Qed.

  Lemma prel_upd : forall s q f, (forall x, R x (f x)) -> prel s (upd_q s q f).
  Proof.
    intros s q f Hf. unfold prel, upd_q. proj. induction (eng s) as [| x t IH]; cbn [map]; constructor; [| exact IH].
    destruct (fst x =? q); cbn [fst snd]; split; try reflexivity; [apply Hf | apply R_refl].
  Qed.

  Lemma prel_fail : forall s q p, prel s (eng_fail s q p).
  Proof.
    intros. unfold eng_fail, eng_resp_fail, eng_send_fail.
    eapply prel_trans; apply prel_upd; [apply R_sf | apply R_rf].
  Qed.

  Lemma prel_fold : forall A (f : st -> A -> st) l,
    (forall s a, prel s (f s a)) -> forall s, prel s (fold_left f l s).
  Proof.
    intros A f l H. induction l as [| a t IH]; intro s; cbn [fold_left]; [apply prel_refl |].
    eapply prel_trans; [apply H | apply IH].
  Qed.

  Lemma prel_disconnect : forall s p qo, prel s (disconnect_peer s p qo).
  Proof.
    intros s p qo. unfold disconnect_peer.
    set (s1 := match qo with Some q => eng_fail s q p | None => s end).
    assert (L1 : prel s s1) by (subst s1; destruct qo; [apply prel_fail | apply prel_refl]).
    destruct (aget p (peers s1)); [| exact L1].
    eapply prel_trans; [exact L1 |]. eapply prel_trans; [| apply prel_fold].
    - apply prel_eng. reflexivity.
    - intros s0 x. destruct (opt_is qo (a_q (snd x))); [apply prel_refl | apply prel_fail].
  Qed.

  Lemma prel_established : forall s p, prel s (on_connection_established s p).
  Proof.
    intros s p. unfold on_connection_established.
    destruct (aget p (peers s)); [apply prel_refl |]. destruct (aget p (pdial s)); [| apply prel_refl].
    eapply prel_trans; [| apply prel_fold].
    - apply prel_eng. reflexivity.
    - intros s0 a. pose proof (svc_open_eng s0 p) as E. destruct (svc_open s0 p) as [s2 r]. cbn [fst] in E.
      destruct r; [apply prel_eng; unfold track_sub, add_paction; proj; exact E |].
      eapply prel_trans; [apply prel_eng; exact E | apply prel_fail].
  Qed.

  Lemma prel_outbound : forall s p sid, prel s (on_outbound_substream s p sid).
  Proof.
    intros s p sid. apply prel_eng. unfold on_outbound_substream.
    destruct (aget p (peers (w_psub s (adel sid (psub s))))) as [acts |]; [| reflexivity].
    destruct (aget sid acts) as [a |]; [| reflexivity].
    destruct (a_kind a); [destruct (peer_wanted _ _ _) | |]; reflexivity.
  Qed.

  Lemma prel_open_failure : forall s sid, prel s (on_substream_open_failure s sid).
  Proof.
    intros s sid. unfold on_substream_open_failure. destruct (aget sid (psub s)) as [p |]; [| apply prel_refl].
    destruct (aget p (peers (w_psub s (adel sid (psub s))))) as [acts |]; [| apply prel_eng; reflexivity].
    eapply prel_trans; [| apply prel_disconnect]. apply prel_eng. reflexivity.
  Qed.

  Lemma prel_dial_failure : forall s p, prel s (on_dial_failure s p).
  Proof.
    intros s p. unfold on_dial_failure. destruct (aget p (pdial s)); [| apply prel_refl].
    eapply prel_trans; [| apply prel_fold].
    - apply prel_eng. reflexivity.
    - intros s0 a. apply prel_fail.
  Qed.

  Lemma prel_inbound : forall s p id, prel s (on_inbound_substream s p id).
  Proof.
    intros s p id. apply prel_eng. unfold on_inbound_substream. destruct (aget p (peers s)); reflexivity.
  Qed.

  Lemma prel_trk_fold : forall pv q l s, prel s (fold_left (trk_step pv q) l s).
  Proof.
    intros pv q l. apply prel_fold. intros s0 p. unfold trk_step.
    pose proof (open_or_dial_eng s0 p (mkAct (if pv then AProv else APut) q)) as E.
    destruct (open_or_dial s0 p (mkAct (if pv then AProv else APut) q)) as [s2 ok]. cbn [fst] in E.
    destruct ok; [apply prel_eng; exact E |].
    eapply prel_trans; [apply prel_eng; exact E | apply prel_upd; apply R_sf].
  Qed.
End PtRel.

(* the engine part of the invariant: distinct query ids, every query well-formed *)
Definition BE (U : list N) (g : gcfg) (s : st) : Prop :=
  NoDup (map fst (eng s)) /\ Forall (fun x => QOK U g (snd x)) (eng s).

Definition wprel U g := prel (wrel U g).

Lemma wprel_BE : forall U g s s', wprel U g s s' -> BE U g s -> BE U g s' /\ (mE U g s' <= mE U g s)%nat.
Proof.
  intros U g s s' H [Hn Hf]. unfold wprel, prel, BE, mE in *. revert Hn Hf.
  induction H as [| x y l l' [E R] H IH]; intros Hn Hf; [split; [split; constructor | apply le_n] |].
  inversion Hn as [| ? ? Hx Hn']. inversion Hf as [| ? ? Qx Hf']. subst.
  destruct (IH Hn' Hf') as [[I1 I2] I3]. destruct (R Qx) as [Qy Wy].
  assert (Keys : map fst l' = map fst l).
  { clear -H. induction H as [| a b t t' [E _] H IH]; [reflexivity |]. cbn [map]. rewrite IH, E. reflexivity. }
  split; [split |].
  - cbn [map]. constructor; [rewrite Keys, <- E; exact Hx | exact I1].
  - constructor; assumption.
  - cbn [asum]. lia.
Qed.

Lemma BE_aget : forall U g s q x, BE U g s -> aget q (eng s) = Some x -> QOK U g x.
Proof.
  intros U g s q x [_ Hf] A. apply aget_In in A. rewrite Forall_forall in Hf. apply (Hf (q, x) A).
Qed.

(* ------------------------------------------------------------------ the glue part of the measure *)

Lemma len_aset : forall A k (v : A) l, (length (aset k v l) <= S (length l))%nat.
Proof. intros. unfold aset, adel. rewrite app_length. cbn [length]. pose proof (LP.filter_len_le (N * A) (fun x => negb (fst x =? k)) l). lia. Qed.

Lemma len_adel : forall A k (l : list (N * A)), (length (adel k l) <= length l)%nat.
Proof. intros. unfold adel. apply LP.filter_len_le. Qed.

Lemma len_adel_hit : forall A k (v : A) l, aget k l = Some v -> (S (length (adel k l)) <= length l)%nat.
Proof.
  intros A k v l. unfold adel, aget. induction l as [| [k0 v0] t IH]; [discriminate |].
  cbn [fst filter]. destruct (N.eqb_spec k0 k) as [E | E]; cbn [negb length].
  - intros _. pose proof (len_adel A k t) as L. unfold adel in L. lia.
  - intro H. specialize (IH H). lia.
Qed.

Lemma mG_glue : forall s s', same_glue s s' -> mG s' = mG s.
Proof. intros s s' (A1 & A2 & A3 & A4 & _). unfold mG, mD, mS, mF. rewrite A1, A3, A4. reflexivity. Qed.

Lemma mG_track_sub : forall s p sid a, (mG (track_sub s p sid a) <= mG s + 3)%nat.
Proof.
  intros s p sid a. unfold mG, mD, mS, mF, track_sub, add_paction, pacts. proj.
  destruct (aget p (peers s)) as [acts |] eqn:E.
  - pose proof (asum_aset_some _ (fun x : list (N * pact) => length x) p (aset sid a acts) acts (peers s) E) as H.
    cbv beta in H. pose proof (len_aset pact sid a acts). lia.
  - pose proof (asum_aset_none _ (fun x : list (N * pact) => length x) p (aset sid a []) (peers s)) as H.
    cbv beta in H. pose proof (len_aset pact sid a []). cbn [length] in *. lia.
Qed.

Lemma mG_push_dial : forall s p a, (mG (push_dial s p a) <= mG s + 4)%nat.
Proof.
  intros s p a. unfold mG, mD, mS, mF, push_dial. proj.
  destruct (aget p (pdial s)) as [acts |] eqn:E.
  - pose proof (asum_aset_some _ (fun x : list pact => length x) p (acts ++ [a]) acts (pdial s) E) as H.
    cbv beta in H. rewrite app_length in H. cbn [length] in H. lia.
  - pose proof (asum_aset_none _ (fun x : list pact => length x) p ([] ++ [a]) (pdial s)) as H.
    cbv beta in H. cbn [app length] in H. cbn [app]. lia.
Qed.

Lemma mG_add_fut : forall s f, mG (add_fut s f) = (mG s + fw f)%nat.
Proof.
  intros s f. unfold mG, mD, mS, mF, add_fut. proj.
  assert (forall l, fsum (l ++ [f]) = (fsum l + fw f)%nat) as H.
  { induction l as [| h t IH]; cbn [app fsum]; [lia | rewrite IH; lia]. }
  rewrite H. lia.
Qed.

Lemma mG_svc_open : forall s p, mG (fst (svc_open s p)) = mG s.
Proof. intros s p. unfold svc_open. destruct (aget p (conn s)) as [[|] |]; reflexivity. Qed.

Lemma mG_open_or_dial : forall s p a, (mG (fst (open_or_dial s p a)) <= mG s + 4)%nat.
Proof.
  intros s p a. unfold open_or_dial. pose proof (mG_svc_open s p) as E1.
  destruct (svc_open s p) as [s1 r]. cbn [fst] in E1. destruct r as [sid |]; cbn [fst].
  - pose proof (mG_track_sub s1 p sid a). lia.
  - destruct (svc_dial s1 p); cbn [fst].
    + pose proof (mG_push_dial s1 p a). lia.
    + pose proof (mG_svc_open s1 p) as E2. destruct (svc_open s1 p) as [s2 r2]. cbn [fst] in E2.
      destruct r2 as [sid |]; cbn [fst]; [pose proof (mG_track_sub s2 p sid a) |]; lia.
    + lia.
Qed.

Lemma mG_eng_fail : forall s q p, mG (eng_fail s q p) = mG s.
Proof. intros. apply mG_glue. apply eng_fail_glue. Qed.

Lemma mG_upd : forall s q f, mG (upd_q s q f) = mG s.
Proof. intros. apply mG_glue. apply upd_q_glue. Qed.

Lemma mG_fold_same : forall A (f : st -> A -> st) l,
  (forall s a, mG (f s a) = mG s) -> forall s, mG (fold_left f l s) = mG s.
Proof.
  intros A f l H. induction l as [| a t IH]; intro s; cbn [fold_left]; [reflexivity |]. rewrite IH. apply H.
Qed.

Lemma fsum_del : forall id l f, find_fut id l = Some f -> (fsum (del_fut id l) + fw f)%nat = fsum l.
Proof.
  intros id l f. induction l as [| h t IH]; [discriminate |]. cbn [find_fut del_fut].
  destruct (f_id h =? id).
  - intro H. inversion H. subst. cbn [fsum]. lia.
  - intro H. specialize (IH H). cbn [fsum]. lia.
Qed.

(* disconnect_peer: every pending action of the peer leaves the maps *)
Lemma mG_disconnect : forall s p qo,
  (mG (disconnect_peer s p qo) + 3 * length (pacts s p) <= mG s)%nat.
Proof.
  intros s p qo. unfold disconnect_peer.
  set (s1 := match qo with Some q => eng_fail s q p | None => s end).
  assert (G1 : mG s1 = mG s /\ peers s1 = peers s).
  { subst s1. destruct qo; [split; [apply mG_eng_fail | apply eng_fail_glue] | split; reflexivity]. }
  destruct G1 as [G1 P1]. unfold pacts. rewrite <- P1.
  destruct (aget p (peers s1)) as [acts |] eqn:E; [| cbn [length]; lia].
  rewrite mG_fold_same.
  - unfold mG, mD, mS, mF in *. proj.
    pose proof (asum_adel_hit _ (fun x : list (N * pact) => length x) p acts (peers s1) E) as H. cbv beta in H. lia.
  - intros s0 x. destruct (opt_is qo (a_q (snd x))); [reflexivity | apply mG_eng_fail].
Qed.

Lemma mG_dial_failure : forall s p,
  (mG (on_dial_failure s p) + 4 * length (match aget p (pdial s) with Some l => l | None => [] end) <= mG s)%nat.
Proof.
  intros s p. unfold on_dial_failure. destruct (aget p (pdial s)) as [acts |] eqn:E; [| cbn [length]; lia].
  rewrite mG_fold_same; [| intros; apply mG_eng_fail].
  unfold mG, mD, mS, mF. proj.
  pose proof (asum_adel_hit _ (fun x : list pact => length x) p acts (pdial s) E) as H. cbv beta in H. lia.
Qed.

Lemma mG_est_fold : forall p acts s,
  (mG (fold_left (est_step p) acts s) <= mG s + 3 * length acts)%nat.
Proof.
  intros p acts. induction acts as [| a t IH]; intro s; cbn [fold_left length]; [lia |].
  specialize (IH (est_step p s a)).
  assert (St : (mG (est_step p s a) <= mG s + 3)%nat).
  { unfold est_step. pose proof (mG_svc_open s p) as E1. destruct (svc_open s p) as [s2 r]. cbn [fst] in E1.
    destruct r as [sid |]; [pose proof (mG_track_sub s2 p sid a) | rewrite mG_eng_fail]; lia. }
  lia.
Qed.

Lemma mG_established : forall s p,
  (mG (on_connection_established s p) +
   (match aget p (peers s) with
    | Some _ => 0
    | None => length (match aget p (pdial s) with Some l => l | None => [] end)
    end) <= mG s)%nat.
Proof.
  intros s p. unfold on_connection_established.
  destruct (aget p (peers s)) eqn:Ep; [lia |].
  destruct (aget p (pdial s)) as [acts |] eqn:Ed; [| cbn [length]; lia].
  fold (est_step p).
  pose proof (mG_est_fold p acts (w_peers (w_pdial s (adel p (pdial s))) (aset p [] (peers s)))) as F.
  assert (B : (mG (w_peers (w_pdial s (adel p (pdial s))) (aset p [] (peers s))) + 4 * length acts <= mG s)%nat).
  { unfold mG, mD, mS, mF. proj.
    pose proof (asum_adel_hit _ (fun x : list pact => length x) p acts (pdial s) Ed) as H1. cbv beta in H1.
    pose proof (asum_aset_none _ (fun x : list (N * pact) => length x) p [] (peers s)) as H2. cbv beta in H2.
    cbn [length] in H2. lia. }
  lia.
Qed.

Lemma mG_take_action : forall s p acts sid a,
  aget p (peers s) = Some acts -> aget sid acts = Some a ->
  (mG (w_peers s (aset p (adel sid acts) (peers s))) + 3 <= mG s)%nat.
Proof.
  intros s p acts sid a Hp Ha. unfold mG, mD, mS, mF. proj.
  pose proof (asum_aset_some _ (fun x : list (N * pact) => length x) p (adel sid acts) acts (peers s) Hp) as H.
  cbv beta in H. pose proof (len_adel_hit pact sid a acts Ha). lia.
Qed.

Lemma mG_outbound : forall s p sid,
  (mG (on_outbound_substream s p sid) +
   (match aget p (peers s) with
    | Some acts => match aget sid acts with Some _ => 1 | None => 0 end
    | None => 0
    end) <= mG s)%nat.
Proof.
  intros s p sid. unfold on_outbound_substream. set (s1 := w_psub s (adel sid (psub s))).
  change (peers s1) with (peers s). assert (G1 : mG s1 = mG s) by reflexivity.
  destruct (aget p (peers s)) as [acts |] eqn:Ep; [| lia].
  destruct (aget sid acts) as [a |] eqn:Ea; [| lia].
  pose proof (mG_take_action s1 p acts sid a Ep Ea) as T. change (peers s1) with (peers s) in T.
  destruct (a_kind a); [destruct (peer_wanted _ _ _) | |]; rewrite ?mG_add_fut; unfold fw; cbn [f_kind]; lia.
Qed.

Lemma mG_open_failure : forall s sid,
  (mG (on_substream_open_failure s sid) +
   (match aget sid (psub s) with
    | Some p => match aget p (peers s) with
                | Some acts => match aget sid acts with Some _ => 3 | None => 0 end
                | None => 0
                end
    | None => 0
    end) <= mG s)%nat.
Proof.
  intros s sid. unfold on_substream_open_failure. destruct (aget sid (psub s)) as [p |]; [| lia].
  set (s1 := w_psub s (adel sid (psub s))). change (peers s1) with (peers s).
  destruct (aget p (peers s)) as [acts |] eqn:Ep; [| change (mG s1) with (mG s); lia].
  pose proof (mG_disconnect (w_peers s1 (aset p (adel sid acts) (peers s1))) p (option_map a_q (aget sid acts))) as D.
  change (peers s1) with (peers s) in D.
  destruct (aget sid acts) as [a |] eqn:Ea.
  - pose proof (mG_take_action s1 p acts sid a Ep Ea) as T. change (mG s1) with (mG s) in T.
    change (peers s1) with (peers s) in T. lia.
  - assert (mG (w_peers s1 (aset p (adel sid acts) (peers s))) <= mG s)%nat.
    { unfold mG, mD, mS, mF. proj. change (pdial s1) with (pdial s). change (futs s1) with (futs s).
      pose proof (asum_aset_some _ (fun x : list (N * pact) => length x) p (adel sid acts) acts (peers s) Ep) as H.
      cbv beta in H. pose proof (len_adel pact sid acts). lia. }
    lia.
Qed.

Lemma mG_inbound : forall s p id, (mG (on_inbound_substream s p id) <= mG s + 2)%nat.
Proof.
  intros s p id. unfold on_inbound_substream. rewrite mG_add_fut. unfold fw. cbn [f_kind].
  destruct (aget p (peers s)); [lia |]. unfold mG, mD, mS, mF. proj.
  pose proof (asum_aset_none _ (fun x : list (N * pact) => length x) p [] (peers s)) as H. cbv beta in H. cbn [length] in H. lia.
Qed.

(* ------------------------------------------------------------------ engine list surgery under distinct keys *)

Lemma aget_notin : forall A k (l : list (N * A)), ~ In k (map fst l) -> aget k l = None.
Proof.
  intros A k l. unfold aget. induction l as [| [k0 v] t IH]; [reflexivity |]. cbn [map fst In].
  intro H. destruct (N.eqb_spec k0 k) as [E | E]; [exfalso; apply H; left; exact E |]. apply IH. tauto.
Qed.

Lemma asum_set : forall A (w : A -> nat) q x x' (l : list (N * A)),
  NoDup (map fst l) -> aget q l = Some x ->
  (asum w (map (fun y => if fst y =? q then (q, x') else y) l) + w x)%nat = (asum w l + w x')%nat.
Proof.
  intros A w q x x' l. unfold aget. induction l as [| [k0 v] t IH]; [discriminate |].
  cbn [map fst]. intros Hn. inversion Hn as [| ? ? Hk Hn']. subst. destruct (N.eqb_spec k0 q) as [E | E].
  - intro H. inversion H. subst. cbn [map fst asum snd].
    assert (Id : map (fun y : N * A => if fst y =? q then (q, x') else y) t = t).
    { clear -Hk. induction t as [| [k1 v1] t' IH]; [reflexivity |]. cbn [map fst] in *.
      destruct (N.eqb_spec k1 q) as [E1 | E1]; [exfalso; apply Hk; left; exact E1 |].
      rewrite IH; [reflexivity | intro K; apply Hk; right; exact K]. }
    rewrite Id. lia.
  - intro H. specialize (IH Hn' H). cbn [asum snd]. lia.
Qed.

Lemma keys_map_set : forall A q (x' : A) (l : list (N * A)),
  map fst (map (fun y => if fst y =? q then (q, x') else y) l) = map fst l.
Proof.
  intros A q x' l. induction l as [| [k v] t IH]; [reflexivity |]. cbn [map fst].
  destruct (N.eqb_spec k q) as [E | E]; cbn [fst]; rewrite IH; [subst; reflexivity | reflexivity].
Qed.

Lemma keys_adel : forall A q (l : list (N * A)) k, In k (map fst (adel q l)) -> In k (map fst l) /\ k <> q.
Proof.
  intros A q l k. unfold adel. induction l as [| [k0 v] t IH]; [intros [] |]. cbn [filter fst].
  destruct (N.eqb_spec k0 q) as [E | E]; cbn [negb map fst In].
  - intro H. destruct (IH H). tauto.
  - intros [H | H]; [subst; tauto | destruct (IH H); tauto].
Qed.

Lemma nodup_adel : forall A q (l : list (N * A)), NoDup (map fst l) -> NoDup (map fst (adel q l)).
Proof.
  intros A q l. unfold adel. induction l as [| [k0 v] t IH]; [intro; constructor |]. cbn [map fst filter].
  intro Hn. inversion Hn as [| ? ? Hk Hn']. subst. destruct (negb (k0 =? q)); cbn [map fst]; [| apply IH; exact Hn'].
  constructor; [| apply IH; exact Hn']. intro K. apply Hk. fold (adel q t) in K. apply keys_adel in K. apply K.
Qed.

Lemma nodup_aset : forall A q (v : A) (l : list (N * A)), NoDup (map fst l) -> NoDup (map fst (aset q v l)).
Proof.
  intros A q v l Hn. unfold aset. rewrite map_app. cbn [map fst]. apply LP.NoDup_app_intro_one.
  - apply nodup_adel. exact Hn.
  - intro K. apply keys_adel in K. destruct K as [_ K]. congruence.
Qed.

Lemma forall_adel : forall A (P : N * A -> Prop) q (l : list (N * A)), Forall P l -> Forall P (adel q l).
Proof.
  intros A P q l H. unfold adel. rewrite Forall_forall in *. intros x Hx. apply filter_In in Hx. apply H. apply Hx.
Qed.

Lemma BE_set_q : forall U g s q x x',
  BE U g s -> aget q (eng s) = Some x -> QOK U g x' ->
  BE U g (set_q s q x') /\ (mE U g (set_q s q x') + qW U g x = mE U g s + qW U g x')%nat.
Proof.
  intros U g s q x x' [Hn Hf] A Hx. unfold BE, mE, set_q. proj. split; [split |].
  - rewrite keys_map_set. exact Hn.
  - rewrite Forall_forall in *. intros y Hy. apply in_map_iff in Hy. destruct Hy as (z & Ez & Hz).
    destruct (fst z =? q); subst y; [exact Hx | apply Hf; exact Hz].
  - apply asum_set; assumption.
Qed.

Lemma BE_del_q : forall U g s q x,
  BE U g s -> aget q (eng s) = Some x ->
  BE U g (del_q s q) /\ (mE U g (del_q s q) + qW U g x <= mE U g s)%nat.
Proof.
  intros U g s q x [Hn Hf] A. unfold BE, mE, del_q. proj. split; [split |].
  - apply nodup_adel. exact Hn.
  - apply forall_adel. exact Hf.
  - apply asum_adel_hit. exact A.
Qed.

Lemma BE_aset : forall U g s q x',
  BE U g s -> QOK U g x' ->
  BE U g (w_eng s (aset q x' (eng s))) /\
  (mE U g (w_eng s (aset q x' (eng s))) <= mE U g s + qW U g x')%nat.
Proof.
  intros U g s q x' [Hn Hf] Hx. unfold BE, mE. proj. split; [split |].
  - apply nodup_aset. exact Hn.
  - unfold aset. apply Forall_app. split; [apply forall_adel; exact Hf | constructor; [exact Hx | constructor]].
  - apply asum_aset_none.
Qed.

(* ------------------------------------------------------------------ the send phase and the drain step *)

Lemma ndedup_len : forall l, (length (ndedup l) <= length l)%nat.
Proof.
  induction l as [| h t IH]; [apply le_n |]. cbn [ndedup length]. pose proof (nremove_len h (ndedup t)). lia.
Qed.

Lemma trk_fold_M : forall U g pv q l s,
  BE U g s ->
  BE U g (fold_left (trk_step pv q) l s) /\
  (M U g (fold_left (trk_step pv q) l s) <= M U g s + 4 * length l)%nat.
Proof.
  intros U g pv q l. induction l as [| p t IH]; intros s HB; cbn [fold_left length]; [split; [exact HB | lia] |].
  assert (St : BE U g (trk_step pv q s p) /\ (M U g (trk_step pv q s p) <= M U g s + 4)%nat).
  { unfold trk_step. pose proof (open_or_dial_eng s p (mkAct (if pv then AProv else APut) q)) as E.
    pose proof (mG_open_or_dial s p (mkAct (if pv then AProv else APut) q)) as G.
    destruct (open_or_dial s p (mkAct (if pv then AProv else APut) q)) as [s2 ok]. cbn [fst] in *.
    assert (B2 : BE U g s2 /\ mE U g s2 = mE U g s).
    { split; [unfold BE; rewrite E; exact HB | unfold mE; rewrite E; reflexivity]. }
    destruct B2 as [B2 E2]. destruct ok; [split; [exact B2 | unfold M; lia] |].
    assert (R : wprel U g s2 (eng_send_fail s2 q p)).
    { unfold eng_send_fail. apply prel_upd; [apply wrel_refl | apply wrel_sf]. }
    destruct (wprel_BE U g _ _ R B2) as [B3 E3]. split; [exact B3 |].
    unfold M, eng_send_fail. rewrite mG_upd. unfold eng_send_fail in E3. lia. }
  destruct St as [B1 M1]. destruct (IH _ B1) as [B2 M2]. split; [exact B2 | lia].
Qed.

Lemma start_track_M : forall U g s pv q l qr x,
  BE U g s -> aget q (eng s) = Some x ->
  BE U g (start_track (del_q s q) pv q l qr) /\
  (M U g (start_track (del_q s q) pv q l qr) + qW U g x <= M U g s + 5 * length l + 1)%nat.
Proof.
  intros U g s pv q l qr x HB A. rewrite start_track_fold.
  destruct (BE_del_q U g s q x HB A) as [B1 E1].
  destruct (BE_aset U g (del_q s q) q (QTrack pv (ndedup l) 0 (clamp qr (N.of_nat (length l)))) B1 I) as [B2 E2].
  destruct (trk_fold_M U g pv q l _ B2) as [B3 M3]. split; [exact B3 |].
  unfold M in *. cbn [qW] in E2. pose proof (ndedup_len l).
  assert (G0 : mG (w_eng (del_q s q) (aset q (QTrack pv (ndedup l) 0 (clamp qr (N.of_nat (length l)))) (eng (del_q s q)))) = mG s) by reflexivity.
  lia.
Qed.

Lemma QOK_next : forall U g lk qr c ls t,
  QOK U g (QLookup lk qr c ls) ->
  L.done (fst (L.next_action c ls t)) = false ->
  QOK U g (QLookup lk qr c (fst (L.next_action c ls t))).
Proof.
  intros U g lk qr c ls t (H1 & H2 & H3 & H4 & H5) Hd. cbn [QOK].
  split; [apply LI1_next; exact H1 |]. split; [apply (LP.cands_in_step c U ls (L.ENext t) I H2) |].
  split; [exact H3 |]. split; [| exact Hd].
  pose proof (LP.next_action_shape c ls t) as Sh.
  assert (R : L.resps (fst (L.next_action c ls t)) = L.resps ls).
  { inversion Sh; subst; try tauto;
      match goal with H : LP.same7 _ _ |- _ => destruct H as (_ & _ & _ & Rr & _); exact Rr end. }
  rewrite R. exact H4.
Qed.

Lemma serve_M : forall U g s q,
  BE U g s ->
  BE U g (fst (fst (serve s q))) /\ (M U g (fst (fst (serve s q))) <= M U g s)%nat /\
  (snd (serve s q) = true -> (M U g (fst (fst (serve s q))) < M U g s)%nat).
Proof.
  intros U g s q HB. unfold serve.
  destruct (aget q (eng s)) as [[lk qr c ls | qr ps | pv pd n need] |] eqn:Eq; cbn [fst snd];
    [| | | split; [exact HB | split; [lia | discriminate]]].
  - pose proof (BE_aget U g s q _ HB Eq) as Qx. pose proof Qx as (H1 & H2 & H3 & H4 & H5).
    assert (Del : BE U g (del_q s q) /\ (M U g (del_q s q) <= M U g s)%nat /\ (true = true -> (M U g (del_q s q) < M U g s)%nat)).
    { destruct (BE_del_q U g s q _ HB Eq) as [B1 E1]. split; [exact B1 |].
      assert (mG (del_q s q) = mG s) by reflexivity. unfold M. cbn [qW] in E1. split; [lia | intros _; lia]. }
    assert (Trk : forall pv l, (length l <= kn g)%nat ->
              BE U g (start_track (del_q s q) pv q l qr) /\
              (M U g (start_track (del_q s q) pv q l qr) <= M U g s)%nat /\
              (true = true -> (M U g (start_track (del_q s q) pv q l qr) < M U g s)%nat)).
    { intros pv l Hl. destruct (start_track_M U g s pv q l qr _ HB Eq) as [B1 E1]. split; [exact B1 |].
      cbn [qW] in E1. split; [lia | intros _; lia]. }
    pose proof (LP.mu_step c U ls (L.ENext (now s)) (l1_inv _ _ H1) H2) as [Mu1 Mu2]. cbn [L.step] in Mu1, Mu2.
    pose proof (QOK_next U g lk qr c ls (now s) Qx) as Qn.
    destruct (L.next_action c ls (now s)) as [ls' a] eqn:En. cbn [fst snd] in Mu1, Mu2, Qn.
    destruct a as [| p | | l | p r | | l]; cbn [fst snd].
    + split; [exact HB | split; [lia | discriminate]].
    + (* SendMessage *)
      destruct (next_send_shape _ _ _ _ _ En) as [Hd' _]. destruct (next_send_cands _ _ _ _ _ En) as [_ Hr].
      assert (Lt : (LP.mu U ls' < LP.mu U ls)%nat) by (apply Mu2; left; exists p; reflexivity).
      destruct (BE_set_q U g s q _ (QLookup lk qr c ls') HB Eq (Qn Hd')) as [B1 E1]. cbn [qW] in E1. rewrite Hr in E1.
      pose proof (open_or_dial_eng (set_q s q (QLookup lk qr c ls')) p (mkAct AFind q)) as Ee.
      pose proof (mG_open_or_dial (set_q s q (QLookup lk qr c ls')) p (mkAct AFind q)) as Eg.
      destruct (open_or_dial (set_q s q (QLookup lk qr c ls')) p (mkAct AFind q)) as [s2 ok]. cbn [fst snd] in *.
      assert (B2 : BE U g s2 /\ mE U g s2 = mE U g (set_q s q (QLookup lk qr c ls'))).
      { split; [unfold BE; rewrite Ee; exact B1 | unfold mE; rewrite Ee; reflexivity]. }
      destruct B2 as [B2 E2]. change (mG (set_q s q (QLookup lk qr c ls'))) with (mG s) in Eg.
      destruct ok.
      * split; [exact B2 |]. unfold M. split; [lia | intros _; lia].
      * assert (R : wprel U g s2 (eng_fail s2 q p)) by (apply prel_fail; [apply wrel_refl | apply wrel_trans | apply wrel_sf | apply wrel_rf]).
        destruct (wprel_BE U g _ _ R B2) as [B3 E3]. split; [exact B3 |]. unfold M. rewrite mG_eng_fail. split; [lia | intros _; lia].
    + exact Del.
    + assert (El : l = map snd (L.resps ls)) by (apply (next_found c ls (now s)); rewrite En; reflexivity).
      assert (Hl : (length l <= kn g)%nat).
      { subst l. rewrite map_length. unfold kn. rewrite <- H3. lia. }
      destruct lk; first [exact Del | apply Trk; exact Hl].
    + (* partial result *)
      destruct (next_partial_shape _ _ _ _ _ _ En) as [Hd' _]. destruct (next_partial_recq _ _ _ _ _ _ En) as [_ Hr].
      destruct (BE_set_q U g s q _ (QLookup lk qr c ls') HB Eq (Qn Hd')) as [B1 E1]. cbn [qW] in E1.
      split; [exact B1 |]. unfold M. change (mG (set_q s q (QLookup lk qr c ls'))) with (mG s). split; [lia | intros _; lia].
    + exact Del.
    + exact Del.
  - destruct (start_track_M U g s false q ps qr _ HB Eq) as [B1 E1]. split; [exact B1 |]. cbn [qW] in E1. split; [lia | intros _; lia].
  - destruct pd; cbn [fst snd]; [| split; [exact HB | split; [lia | discriminate]]].
    destruct (BE_del_q U g s q _ HB Eq) as [B1 E1]. split; [exact B1 |].
    assert (mG (del_q s q) = mG s) by reflexivity. unfold M. cbn [qW length] in E1. split; [lia | intros _; lia].
Qed.

(* ------------------------------------------------------------------ executor completions *)

Lemma firstn_sub : forall A n (l : list A) x, In x (firstn n l) -> In x l.
Proof.
  intros A n. induction n as [| n IH]; intros l x H; [destruct H |]. destruct l as [| h t]; [destruct H |].
  cbn [firstn] in H. destruct H as [H | H]; [left; exact H | right; apply IH; exact H].
Qed.

Lemma msg_in_trunc : forall U g m, msg_in U m -> msg_in U (trunc_msg g m).
Proof.
  intros U g m H. destruct m; cbn [trunc_msg msg_in] in *; try exact H;
    intros q Hq; apply H; unfold cut in Hq; eapply firstn_sub; exact Hq.
Qed.

Lemma rel_M : forall U g s s' d,
  BE U g s -> wprel U g s s' -> (mG s' + d <= mG s)%nat ->
  BE U g s' /\ (M U g s' + d <= M U g s)%nat.
Proof.
  intros U g s s' d HB R G. destruct (wprel_BE U g s s' R HB) as [B E]. split; [exact B | unfold M; lia].
Qed.

Lemma on_future_M : forall U g s id r,
  BE U g s -> (match r with RRead m => msg_in U m | _ => True end) ->
  BE U g (fst (on_future g s id r)) /\ (M U g (fst (on_future g s id r)) <= M U g s)%nat /\
  ((exists f, find_fut id (futs s) = Some f /\ res_ok (f_kind f) r = true) ->
   (M U g (fst (on_future g s id r)) < M U g s)%nat).
Proof.
  intros U g s id r HB Hm. unfold on_future.
  destruct (find_fut id (futs s)) as [f |] eqn:Ef;
    [| cbn [fst]; split; [exact HB | split; [lia | intros (f & Hf & _); discriminate Hf]]].
  destruct (res_ok (f_kind f) r) eqn:Eok;
    [| cbn [fst]; split; [exact HB | split; [lia | intros (f0 & Hf & Hr); inversion Hf; subst; congruence]]].
  set (s1 := w_futs s (del_fut id (futs s))).
  assert (G1 : (mG s1 + fw f = mG s)%nat).
  { unfold mG, mD, mS, mF. subst s1. proj. pose proof (fsum_del id (futs s) f Ef). lia. }
  assert (B1 : BE U g s1) by exact HB.
  assert (E1 : mE U g s1 = mE U g s) by reflexivity.
  assert (Fw : (1 <= fw f)%nat) by (unfold fw; destruct (f_kind f); lia).
  assert (Q : (forall x, wrel U g x x) /\ (forall a b c, wrel U g a b -> wrel U g b c -> wrel U g a c) /\
              (forall p x, wrel U g x (q_send_fail p x)) /\ (forall p x, wrel U g x (q_resp_fail p x))).
  { split; [apply wrel_refl |]. split; [apply wrel_trans |]. split; [apply wrel_sf | apply wrel_rf]. }
  destruct Q as (Q1 & Q2 & Q3 & Q4).
  set (s2 := match f_q f with Some q => eng_send_ok s1 q (f_peer f) | None => s1 end).
  assert (P2 : BE U g s2 /\ (M U g s2 <= M U g s1)%nat /\ mG s2 = mG s1).
  { subst s2. destruct (f_q f) as [q |]; [| split; [exact B1 | split; [lia | reflexivity]]].
    unfold eng_send_ok. destruct (rel_M U g s1 (upd_q s1 q (q_send_ok (f_peer f))) 0 B1) as [B E].
    - apply prel_upd; [exact Q1 | apply wrel_so].
    - rewrite mG_upd. lia.
    - split; [exact B | split; [lia | apply mG_upd]]. }
  destruct P2 as (B2 & M2 & G2).
  assert (Disc : BE U g (disconnect_peer s1 (f_peer f) (f_q f)) /\
                 (M U g (disconnect_peer s1 (f_peer f) (f_q f)) <= M U g s1)%nat).
  { destruct (rel_M U g s1 (disconnect_peer s1 (f_peer f) (f_q f)) 0 B1) as [B E].
    - apply prel_disconnect; assumption.
    - pose proof (mG_disconnect s1 (f_peer f) (f_q f)). lia.
    - split; [exact B | lia]. }
  assert (M1 : (M U g s1 + fw f = M U g s)%nat) by (unfold M; lia).
  assert (Fin : forall s', BE U g s' -> (M U g s' <= M U g s1)%nat ->
            BE U g s' /\ (M U g s' <= M U g s)%nat /\
            ((exists f0, Some f = Some f0 /\ res_ok (f_kind f0) r = true) -> (M U g s' < M U g s)%nat)).
  { intros s' B L. split; [exact B | split; [lia | intros _; lia]]. }
  destruct r as [| | | m |]; cbn [fst].
  - apply Fin; [exact B2 | exact M2].
  - apply Fin; [exact B2 | exact M2].
  - apply Fin; apply Disc.
  - (* ReadSuccess: a reading future weighs 2, the reply future it may leave behind weighs 1 *)
    assert (Fw2 : fw f = 2%nat).
    { unfold fw. destruct (f_kind f); cbn in Eok; try discriminate; reflexivity. }
    pose proof (msg_in_trunc U g m Hm) as Hm'.
    assert (Msg : BE U g (fst (on_message g s2 id (f_peer f) (f_q f) (trunc_msg g m))) /\
                  (M U g (fst (on_message g s2 id (f_peer f) (f_q f) (trunc_msg g m))) <= M U g s2 + 1)%nat).
    { unfold on_message. destruct (f_q f) as [q0 |].
      - assert (Up : forall fn, (forall x, wrel U g x (fn x)) ->
                  BE U g (upd_q s2 q0 fn) /\ (M U g (upd_q s2 q0 fn) <= M U g s2 + 1)%nat).
        { intros fn Hfn. destruct (rel_M U g s2 (upd_q s2 q0 fn) 0 B2) as [B E];
            [apply prel_upd; [exact Q1 | exact Hfn] | rewrite mG_upd; lia | split; [exact B | lia]]. }
        destruct (trunc_msg g m) eqn:Et; cbn [fst]; unfold eng_response, eng_resp_fail;
          first [apply Up; intro x; apply wrel_response; exact Hm' | apply Up; apply wrel_rf].
      - assert (Add : forall fk, fw (mkFut id (f_peer f) None fk) = 1%nat ->
                  BE U g (add_fut s2 (mkFut id (f_peer f) None fk)) /\
                  (M U g (add_fut s2 (mkFut id (f_peer f) None fk)) <= M U g s2 + 1)%nat).
        { intros fk Hk. split; [exact B2 |]. unfold M. rewrite mG_add_fut, Hk.
          assert (mE U g (add_fut s2 (mkFut id (f_peer f) None fk)) = mE U g s2) by reflexivity. lia. }
        destruct (trunc_msg g m) as [ps | | [|] rr ps | [|] | [|] pv ps |]; cbn [fst];
          first [apply Add; reflexivity | split; [exact B2 | lia]]. }
    destruct Msg as [B3 M3]. split; [exact B3 |]. split; [lia | intros _; lia].
  - apply Fin; apply Disc.
Qed.

(* ------------------------------------------------------------------ every step *)

Definition ev_in_U (U : list N) (e : ev) : Prop :=
  match e with
  | ECmd _ _ _ seeds => forall p, In p seeds -> In p U
  | EPutToPeers _ _ ps => forall p, In p ps -> In p U
  | EFut _ (RRead m) => msg_in U m
  | _ => True
  end.

Lemma step_M : forall U g s e,
  BE U g s -> ev_in_U U e -> is_input e = false ->
  BE U g (fst (fst (step g s e))) /\ (M U g (fst (fst (step g s e))) <= M U g s)%nat /\
  (productive s e -> (M U g (fst (fst (step g s e))) < M U g s)%nat).
Proof.
  intros U g s e HB Hu Hi.
  assert (Q : (forall x, wrel U g x x) /\ (forall a b c, wrel U g a b -> wrel U g b c -> wrel U g a c) /\
              (forall p x, wrel U g x (q_send_fail p x)) /\ (forall p x, wrel U g x (q_resp_fail p x))).
  { split; [apply wrel_refl |]. split; [apply wrel_trans |]. split; [apply wrel_sf | apply wrel_rf]. }
  destruct Q as (Q1 & Q2 & Q3 & Q4).
  assert (Same : BE U g s /\ (M U g s <= M U g s)%nat /\ (False -> (M U g s < M U g s)%nat)) by (split; [exact HB | split; [lia | tauto]]).
  destruct e; cbn [step fst is_input productive] in *; try discriminate Hi.
  - exact Same.
  - apply serve_M. exact HB.
  - (* established *)
    destruct (aget p (conn s)) eqn:Ec; cbn [fst].
    + split; [exact HB | split; [lia | intros (K & _); discriminate K]].
    + set (s0 := w_conn s (aset p alive (conn s))).
      pose proof (mG_established s0 p) as G. change (peers s0) with (peers s) in G. change (pdial s0) with (pdial s) in G.
      change (mG s0) with (mG s) in G.
      destruct (rel_M U g s0 (on_connection_established s0 p) 0 HB) as [B E];
        [apply prel_established; assumption | change (mG s0) with (mG s); lia |].
      split; [exact B |]. change (M U g s0) with (M U g s) in E. split; [lia |].
      intros (_ & Kp & a & acts & Kd). rewrite Kp, Kd in G. cbn [length] in G.
      destruct (wprel_BE U g s0 _ (prel_established _ Q1 Q2 Q3 Q4 s0 p) HB) as [_ E2].
      change (mE U g s0) with (mE U g s) in E2. unfold M. lia.
  - (* closed *)
    destruct (aget p (conn s)) eqn:Ec; cbn [fst]; [| exact Same].
    set (s0 := w_conn s (adel p (conn s))).
    destruct (rel_M U g s0 (disconnect_peer s0 p None) 0 HB) as [B E];
      [apply prel_disconnect; assumption | pose proof (mG_disconnect s0 p None); change (mG s0) with (mG s) in *; lia |].
    change (M U g s0) with (M U g s) in E. split; [exact B | split; [lia | tauto]].
  - destruct (aget p (conn s)); cbn [fst]; exact Same.
  - cbn [fst]. exact Same.
  - (* opened *)
    cbn [fst]. pose proof (mG_outbound s p sid) as G.
    destruct (rel_M U g s (on_outbound_substream s p sid) 0 HB) as [B E]; [apply prel_outbound; exact Q1 | lia |].
    split; [exact B | split; [lia |]]. intros (acts & a & K1 & K2). rewrite K1, K2 in G.
    destruct (wprel_BE U g s _ (prel_outbound _ Q1 s p sid) HB) as [_ E2]. unfold M. lia.
  - (* open failure *)
    cbn [fst]. pose proof (mG_open_failure s sid) as G.
    destruct (rel_M U g s (on_substream_open_failure s sid) 0 HB) as [B E]; [apply prel_open_failure; assumption | lia |].
    split; [exact B | split; [lia |]]. intros (p & acts & a & K1 & K2 & K3). rewrite K1, K2, K3 in G.
    destruct (wprel_BE U g s _ (prel_open_failure _ Q1 Q2 Q3 Q4 s sid) HB) as [_ E2]. unfold M. lia.
  - (* dial failure *)
    cbn [fst]. pose proof (mG_dial_failure s p) as G.
    destruct (rel_M U g s (on_dial_failure s p) 0 HB) as [B E]; [apply prel_dial_failure; assumption | lia |].
    split; [exact B | split; [lia |]]. intros (a & acts & K). rewrite K in G. cbn [length] in G.
    destruct (wprel_BE U g s _ (prel_dial_failure _ Q1 Q2 Q3 Q4 s p) HB) as [_ E2]. unfold M. lia.
  - (* executor completion *)
    pose proof (on_future_M U g s id r HB) as F. destruct (on_future g s id r) as [s' o]. cbn [fst] in *.
    apply F. destruct r; try exact I. exact Hu.
  - cbn [fst]. exact Same.
Qed.

(* ------------------------------------------------------------------ fair schedules are short *)

Fixpoint evs_in_U (U : list N) (es : list ev) : Prop :=
  match es with [] => True | e :: t => ev_in_U U e /\ evs_in_U U t end.

Lemma fair_bound : forall U g es s,
  BE U g s -> evs_in_U U es -> fair_run g s es ->
  (length (work es) + M U g (fst (run g s es)) <= M U g s)%nat /\ BE U g (fst (run g s es)).
Proof.
  intros U g es. induction es as [| e t IH]; intros s HB Hu Hf; [cbn; split; [lia | exact HB] |].
  destruct Hu as [Hu1 Hu2]. destruct Hf as (F1 & F2 & F3).
  destruct (step_M U g s e HB Hu1 F1) as (B1 & L1 & S1).
  destruct (IH _ B1 Hu2 F3) as [I1 I2]. rewrite run_cons. cbn [fst]. split; [| exact I2].
  unfold work in *. cbn [filter]. destruct F2 as [F2 | F2].
  - rewrite F2. cbn [negb]. lia.
  - specialize (S1 F2). destruct (is_tick e); cbn [negb length]; lia.
Qed.

(* when nothing productive is enabled, nothing is owed and the engine is drained *)
Lemma has_action_serve : forall s q x, aget q (eng s) = Some x -> has_action (now s) x = true -> snd (serve s q) = true.
Proof.
  intros s q x A H. unfold serve. rewrite A. destruct x as [lk qr c ls | qr ps | pv pd n need]; cbn [has_action] in H.
  - destruct (L.next_action c ls (now s)) as [ls' a]. cbn [snd] in H. destruct a; try discriminate H; try reflexivity.
    + destruct (open_or_dial (set_q s q (QLookup lk qr c ls')) p (mkAct AFind q)) as [s2 ok]. reflexivity.
    + destruct lk; reflexivity.
  - reflexivity.
  - destruct pd; [reflexivity | discriminate H].
Qed.

Lemma res_exists : forall k, exists r, res_ok k r = true.
Proof. intros []; [exists RSendFail | exists RSendFail | exists RSendOk | exists RReadFail | exists RSendOk | exists RSendOk]; reflexivity. Qed.

Lemma find_fut_some : forall f l, In f l -> exists f', find_fut (f_id f) l = Some f'.
Proof.
  intros f l. induction l as [| h t IH]; [intros [] |]. cbn [find_fut]. intros [H | H].
  - subst h. rewrite N.eqb_refl. eauto.
  - destruct (f_id h =? f_id f); [eauto | apply IH; exact H].
Qed.

Lemma in_aget : forall A q (x : A) l, NoDup (map fst l) -> In (q, x) l -> aget q l = Some x.
Proof.
  intros A q x l. unfold aget. induction l as [| [k v] t IH]; [intros _ []|]. cbn [map fst].
  intro Hn. inversion Hn as [| ? ? Hk Hn']. subst. intros [H | H].
  - inversion H. subst. rewrite N.eqb_refl. reflexivity.
  - destruct (N.eqb_spec k q) as [E | E]; [| apply IH; assumption].
    exfalso. apply Hk. subst k. apply in_map_iff. exists (q, x). split; [reflexivity | exact H].
Qed.

Lemma stuck_idle : forall s, NoDup (map fst (eng s)) -> stuck s -> idle s /\ quiescent s = true.
Proof.
  intros s Hn Hs. split.
  - intros k q p [O | [O | O]].
    + destruct O as (acts & a & H1 & H2 & _). destruct acts as [| a0 t]; [destruct H2 |].
      apply (Hs (EDialFail p)). cbn. eauto.
    + destruct O as (acts & sid & a & H1 & H2 & _). apply (Hs (EOpened p sid)). cbn. eauto.
    + destruct O as (f & H1 & _). destruct (find_fut_some f _ H1) as [f' Hf]. destruct (res_exists (f_kind f')) as [r Hr].
      apply (Hs (EFut (f_id f) r)). cbn. eauto.
  - unfold quiescent. apply forallb_forall. intros [q x] Hx. cbn [snd].
    destruct (has_action (now s) x) eqn:E; [| reflexivity]. exfalso.
    apply (Hs (EServe q)). cbn. eapply has_action_serve; [apply in_aget; eassumption | exact E].
Qed.

(* ------------------------------------------------------------------ new work and the explicit budget *)

Lemma QOK_init : forall U g lk qr kd nd kn0 kp dists seeds,
  ~ In (g_local g) seeds -> (forall p, In p seeds -> In p U) ->
  QOK U g (QLookup lk qr (lcfg g kd nd kn0 kp dists) (L.init (lcfg g kd nd kn0 kp dists) seeds)).
Proof.
  intros U g lk qr kd nd kn0 kp dists seeds Hl Hu. cbn [QOK].
  split; [apply LI1_init; exact Hl |]. split; [apply LP.init_cands_in; exact Hu |].
  split; [reflexivity |]. split; [unfold L.init; cbn [L.resps length]; lia | reflexivity].
Qed.

Lemma step_input_M : forall U g s e,
  BE U g s -> ev_in_U U e -> cmd_ok g e -> is_input e = true ->
  BE U g (fst (fst (step g s e))) /\
  (M U g (fst (fst (step g s e))) <= M U g s + budget1 (length U) g e)%nat.
Proof.
  intros U g s e HB Hu Hc Hi. destruct e; try discriminate Hi; cbn [step fst budget1 ev_in_U cmd_ok] in *.
  - unfold on_cmd.
    assert (St : forall lk qr kd nd kn0 kp,
              BE U g (start_lookup g s q lk qr (lcfg g kd nd kn0 kp dists) seeds) /\
              (M U g (start_lookup g s q lk qr (lcfg g kd nd kn0 kp dists) seeds) <=
               M U g s + (10 * length U + 5 * N.to_nat (g_k g) + 2))%nat).
    { intros. unfold start_lookup.
      destruct (BE_aset U g s q _ HB (QOK_init U g lk qr kd nd kn0 kp dists seeds Hc Hu)) as [B E]. split; [exact B |].
      set (s' := w_eng s (aset q (QLookup lk qr (lcfg g kd nd kn0 kp dists) (L.init (lcfg g kd nd kn0 kp dists) seeds)) (eng s))) in *.
      assert (G0 : mG s' = mG s) by reflexivity.
      assert (R0 : length (L.recq (L.init (lcfg g kd nd kn0 kp dists) seeds)) = 0%nat) by reflexivity.
      unfold M. cbn [qW] in E. rewrite R0 in E. pose proof (LP.mu_init (lcfg g kd nd kn0 kp dists) U seeds) as Mi.
      unfold kn in E. lia. }
    destruct c as [| qr | qr | qr local | kp0 | qr]; cbn [fst]; try apply St.
    destruct qr; destruct local; cbn [fst]; first [apply St | split; [exact HB | lia]].
  - destruct (BE_aset U g s q (QToPeers qr ps) HB I) as [B E]. split; [exact B |]. unfold M. cbn [qW] in E.
    assert (G0 : mG (w_eng s (aset q (QToPeers qr ps) (eng s))) = mG s) by reflexivity. lia.
  - split; [unfold BE, on_inbound_substream; destruct (aget p (peers s)); exact HB |].
    unfold M. pose proof (mG_inbound s p id).
    assert (mE U g (on_inbound_substream s p id) = mE U g s) by (unfold mE, on_inbound_substream; destruct (aget p (peers s)); reflexivity).
    lia.
Qed.

Lemma run_budget : forall U g es s,
  BE U g s -> evs_in_U U es -> cmds_ok g es ->
  BE U g (fst (run g s es)) /\ (M U g (fst (run g s es)) <= M U g s + budget (length U) g es)%nat.
Proof.
  intros U g es. induction es as [| e t IH]; intros s HB Hu Hc; [cbn; split; [exact HB | lia] |].
  destruct Hu as [Hu1 Hu2]. destruct Hc as [Hc1 Hc2]. rewrite run_cons. cbn [fst budget].
  destruct (is_input e) eqn:Ei.
  - destruct (step_input_M U g s e HB Hu1 Hc1 Ei) as [B1 M1]. destruct (IH _ B1 Hu2 Hc2) as [B2 M2]. split; [exact B2 | lia].
  - destruct (step_M U g s e HB Hu1 Ei) as (B1 & M1 & _). destruct (IH _ B1 Hu2 Hc2) as [B2 M2].
    assert (budget1 (length U) g e = 0%nat) by (destruct e; try reflexivity; discriminate Ei).
    split; [exact B2 | lia].
Qed.

Lemma BE_st0 : forall U g m, BE U g (st0 m) /\ M U g (st0 m) = 0%nat.
Proof. intros. split; [split; constructor | reflexivity]. Qed.

Lemma run_app : forall g a b s,
  run g s (a ++ b) = (fst (run g (fst (run g s a)) b), snd (run g s a) ++ snd (run g (fst (run g s a)) b)).
Proof.
  intros g a. induction a as [| e t IH]; intros b s.
  - cbn [app run fst snd]. destruct (run g s b). reflexivity.
  - cbn [app]. rewrite !run_cons. cbn [fst snd]. rewrite IH. cbn [fst snd]. rewrite app_assoc. reflexivity.
Qed.

(* The fair-termination theorem: after ANY history es0, let the environment and the drain loop keep
   acting productively (es1: no new work, every event answers something owed).  Such a schedule has
   at most `budget` events — an explicit function of the work that was handed to the node — and
   when it stops because nothing productive is enabled any more, every started operation has
   produced exactly one terminal event. *)
Lemma fair_terminates : forall U g m es0 es1 q,
  1 <= g_alpha g -> fresh_ids [] (es0 ++ es1) -> cmds_ok g es0 -> evs_in_U U es0 -> evs_in_U U es1 ->
  let s0 := fst (run g (st0 m) es0) in
  fair_run g s0 es1 ->
  (length (work es1) <= budget (length U) g es0)%nat /\
  (stuck (fst (run g s0 es1)) ->
   terminals q (snd (run g (st0 m) (es0 ++ es1))) = started q (es0 ++ es1) /\
   (started q (es0 ++ es1) <= 1)%nat).
Proof.
  intros U g m es0 es1 q Ha Hf Hc Hu0 Hu1 s0 Hfair.
  destruct (BE_st0 U g m) as [B0 M0].
  destruct (run_budget U g es0 (st0 m) B0 Hu0 Hc) as [B1 M1]. fold s0 in B1, M1.
  destruct (fair_bound U g es1 s0 B1 Hu1 Hfair) as [L2 B2]. split; [lia |].
  intro Hs. destruct (stuck_idle _ (proj1 B2) Hs) as [Hi Hq].
  pose proof (all_reported g m (es0 ++ es1) q Ha Hf) as R. cbn zeta in R.
  rewrite run_app in R. cbn [fst snd] in R. fold s0 in R. rewrite run_app. cbn [snd]. fold s0.
  apply R; assumption.
Qed.
