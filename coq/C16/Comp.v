(* C16 — theorems about the composition glue + routing table (the C14 model) + store (the C17
   model) of Compose.v: the composed run IS a run of the glue model on computed commands, the
   table keeps C14's invariant under everything kademlia/mod.rs does to it, the seeds of every
   lookup are RoutingTable::closest of that table (with C14's facts, never the local peer),
   put_record_to_peers targets named peers only, GetRecord answers from the local store, and the
   theorems of Proofs.v / Obl.v hold for composed histories. *)
From Coq Require Import List Arith NArith Bool Lia Sorted Permutation.
From V.C14 Require Model Proofs.
From V.C17 Require Model Proofs.
From V.C16 Require Import Model Proofs Obl Compose.
Import ListNotations.
Open Scope N_scope.

Module R := V.C14.Model.
Module RP := V.C14.Proofs.
Module S := V.C17.Model.
Module SP := V.C17.Proofs.

(* ------------------------------------------------------------------ refinement *)

Lemma crun_cons : forall wc w u t,
  crun wc w (u :: t) =
  (fst (crun wc (fst (fst (cstep wc w u))) t),
   snd (fst (cstep wc w u)) ++ snd (crun wc (fst (fst (cstep wc w u))) t)).
Proof.
  intros. cbn [crun]. destruct (cstep wc w u) as [[w1 o] ok]. cbn [fst snd].
  destruct (crun wc w1 t) as [w2 o2]. reflexivity.
Qed.

Lemma crun_app : forall wc a b w,
  fst (crun wc w (a ++ b)) = fst (crun wc (fst (crun wc w a)) b).
Proof.
  intros wc a. induction a as [| u t IH]; intros b w; [reflexivity |].
  cbn [app]. rewrite !crun_cons. cbn [fst]. apply IH.
Qed.

Lemma cstep_base : forall wc w u,
  w_st (fst (fst (cstep wc w u))) = fst (fst (step (wc_g wc) (w_st w) (fst (fst (elab wc w u))))) /\
  snd (fst (cstep wc w u)) = snd (fst (step (wc_g wc) (w_st w) (fst (fst (elab wc w u))))).
Proof.
  intros wc w u. unfold cstep. destruct (elab wc w u) as [[e t'] s']. cbn [fst snd].
  destruct (step (wc_g wc) (w_st w) e) as [[st' o] ok]. cbn [fst snd w_st]. split; reflexivity.
Qed.

Lemma cstep_rt : forall wc w u, w_rt (fst (fst (cstep wc w u))) = snd (fst (elab wc w u)).
Proof.
  intros. unfold cstep. destruct (elab wc w u) as [[e t'] s'].
  destruct (step (wc_g wc) (w_st w) e) as [[st' o] ok]. reflexivity.
Qed.

Lemma cstep_store : forall wc w u, w_store (fst (fst (cstep wc w u))) = snd (elab wc w u).
Proof.
  intros. unfold cstep. destruct (elab wc w u) as [[e t'] s'].
  destruct (step (wc_g wc) (w_st w) e) as [[st' o] ok]. reflexivity.
Qed.

Lemma compose_refines : forall wc us w,
  w_st (fst (crun wc w us)) = fst (run (wc_g wc) (w_st w) (elabs wc w us)) /\
  snd (crun wc w us) = snd (run (wc_g wc) (w_st w) (elabs wc w us)).
Proof.
  intros wc us. induction us as [| u t IH]; intro w; [split; reflexivity |].
  rewrite crun_cons. cbn [elabs fst snd]. rewrite run_cons. cbn [fst snd].
  destruct (cstep_base wc w u) as [B1 B2]. destruct (IH (fst (fst (cstep wc w u)))) as [I1 I2].
  rewrite B1 in I1, I2. split; [exact I1 | rewrite B2, I2; reflexivity].
Qed.

(* the ids the user starts *)
Definition ustarted_by (u : uev) : option N :=
  match u with
  | UCmd q _ _ | UPutToPeers q _ _ _ => Some q
  | UEv e => started_by e
  | _ => None
  end.
Definition ustarted (q : N) (us : list uev) : nat :=
  length (filter (fun u => opt_is (ustarted_by u) q) us).

Lemma elab_started : forall wc w u, started_by (fst (fst (elab wc w u))) = ustarted_by u.
Proof.
  intros wc w u. destruct u as [q c target | q qr rk given | rk | p a | e]; cbn [elab ustarted_by].
  - destruct c; cbn [fst started_by]; try reflexivity.
    destruct (V.C17.Model.get (w_store w) rk 0) as [st' r]. reflexivity.
  - destruct (rt_filter wc (w_rt w) given) as [t' ps]. reflexivity.
  - reflexivity.
  - reflexivity.
  - destruct (side wc w e) as [t' s']. reflexivity.
Qed.

Fixpoint ufresh (seen : list N) (us : list uev) : Prop :=
  match us with
  | [] => True
  | u :: t => match ustarted_by u with
              | Some q => ~ In q seen /\ ufresh (q :: seen) t
              | None => ufresh seen t
              end
  end.

Lemma elabs_fresh : forall wc us w seen, ufresh seen us -> fresh_ids seen (elabs wc w us).
Proof.
  intros wc us. induction us as [| u t IH]; intros w seen H; [exact I |].
  cbn [elabs fresh_ids ufresh] in *. rewrite elab_started. destruct (ustarted_by u).
  - destruct H as [H1 H2]. split; [exact H1 | apply IH; exact H2].
  - apply IH. exact H.
Qed.

Lemma elabs_started : forall wc q us w, started q (elabs wc w us) = ustarted q us.
Proof.
  intros wc q us. induction us as [| u t IH]; intro w; [reflexivity |].
  cbn [elabs]. unfold started, ustarted in *. cbn [filter]. rewrite elab_started.
  destruct (opt_is (ustarted_by u) q); cbn [length]; rewrite IH; reflexivity.
Qed.

(* ------------------------------------------------------------------ the peers' keys *)

Record keys_ok (wc : wcfg) : Prop := mkKO {
  ko_len : forall p k, In (p, k) (wc_keys wc) -> length k = length (lkey wc);
  ko_pos : (1 <= length (lkey wc))%nat;
  ko_lab : NoDup (map fst (wc_keys wc));          (* one key per label *)
  ko_inj : NoDup (map snd (wc_keys wc));          (* distinct peers have distinct keys *)
  ko_unk : ~ In UNKNOWN (map fst (wc_keys wc))
}.

Lemma aget_cons_ne : forall A (p0 p : N) (k0 : A) t, p0 <> p -> aget p ((p0, k0) :: t) = aget p t.
Proof.
  intros. change ((p0, k0) :: t) with ([(p0, k0)] ++ t). rewrite aget_app.
  replace (aget p [(p0, k0)]) with (@None A); [reflexivity |].
  unfold aget. destruct (N.eqb_spec p0 p); [contradiction | reflexivity].
Qed.

Lemma In_aget : forall A (l : list (N * A)) p k, NoDup (map fst l) -> In (p, k) l -> aget p l = Some k.
Proof.
  intros A l. induction l as [| [p0 k0] t IH]; intros p k Hn Hin; [destruct Hin |].
  cbn [map fst] in Hn. inversion Hn as [| ? ? Hni Hn']. subst.
  destruct Hin as [E | Hin].
  - inversion E. subst. apply aget_head.
  - rewrite aget_cons_ne; [apply IH; assumption |].
    intro E. subst p0. apply Hni. change p with (fst (p, k)). apply in_map. exact Hin.
Qed.

Lemma pkey_In : forall wc p, pkey wc p <> [] -> In (p, pkey wc p) (wc_keys wc).
Proof.
  intros wc p H. unfold pkey in *. destruct (aget p (wc_keys wc)) as [k |] eqn:E; [| congruence].
  apply aget_In. exact E.
Qed.

Lemma pkey_len : forall wc p, keys_ok wc -> pkey wc p = [] \/ length (pkey wc p) = length (lkey wc).
Proof.
  intros wc p Hk. destruct (pkey wc p) eqn:E; [left; reflexivity |]. right. rewrite <- E.
  apply (ko_len wc Hk p). apply pkey_In. congruence.
Qed.

Lemma peer_of_In : forall (keys : list (N * key)) p k,
  NoDup (map snd keys) -> In (p, k) keys -> peer_of keys k = p.
Proof.
  intros keys. induction keys as [| [p0 k0] t IH]; intros p k Hn Hin; [destruct Hin |].
  cbn [peer_of]. cbn [map snd] in Hn. inversion Hn as [| ? ? Hni Hn']. subst.
  destruct (R.key_eqb k0 k) eqn:E.
  - apply RP.key_eqb_eq in E. subst k0. destruct Hin as [H | H]; [inversion H; reflexivity |].
    exfalso. apply Hni. change k with (snd (p, k)). apply in_map. exact H.
  - destruct Hin as [H | H].
    + inversion H. subst. rewrite RP.key_eqb_refl in E. discriminate.
    + apply IH; assumption.
Qed.

Lemma peer_of_known : forall (keys : list (N * key)) k p,
  peer_of keys k = p -> p <> UNKNOWN -> In (p, k) keys.
Proof.
  intros keys k p. induction keys as [| [p0 k0] t IH]; cbn [peer_of]; [intros E Hn; congruence |].
  destruct (R.key_eqb k0 k) eqn:E.
  - intros Ep _. subst p0. apply RP.key_eqb_eq in E. subst k0. left. reflexivity.
  - intros Ep Hn. right. apply IH; assumption.
Qed.

Lemma peer_of_pkey : forall wc p, keys_ok wc -> pkey wc p <> [] -> peer_of (wc_keys wc) (pkey wc p) = p.
Proof. intros wc p Hk H. apply peer_of_In; [apply (ko_inj wc Hk) | apply pkey_In; exact H]. Qed.

Lemma lkey_nonempty : forall wc, keys_ok wc -> lkey wc <> [].
Proof. intros wc Hk E. pose proof (ko_pos wc Hk) as H. rewrite E in H. cbn in H. lia. Qed.

Lemma local_known : forall wc, keys_ok wc -> g_local (wc_g wc) <> UNKNOWN.
Proof.
  intros wc Hk E. apply (ko_unk wc Hk). rewrite <- E.
  change (g_local (wc_g wc)) with (fst (g_local (wc_g wc), lkey wc)). apply in_map.
  apply pkey_In. apply lkey_nonempty. exact Hk.
Qed.

(* ------------------------------------------------------------------ the table keeps C14's invariant *)

Definition TInv (wc : wcfg) (t : table) : Prop := RP.Inv (lkey wc) (wc_K wc) t.

Lemma ilog2_nil : forall l, R.ilog2 (R.kxor l []) = None.
Proof. intros. destruct l; reflexivity. Qed.

Lemma rt_op_nokey : forall wc t o, R.op_key o = [] -> rt_op wc t o = t.
Proof.
  intros wc t o E. unfold rt_op, R.step, R.step_gen. rewrite E, ilog2_nil. destruct o as [| | k [|] c | | |]; reflexivity.
Qed.

Lemma rt_op_inv : forall wc t o p,
  keys_ok wc -> R.op_key o = pkey wc p -> TInv wc t -> TInv wc (rt_op wc t o).
Proof.
  intros wc t o p Hk E HI. destruct (pkey_len wc p Hk) as [H | H].
  - rewrite rt_op_nokey; [exact HI | congruence].
  - unfold rt_op. apply RP.step_inv; [exact HI | congruence].
Qed.

Lemma upd_inv : forall wc t i b',
  TInv wc t -> (i < length t)%nat -> RP.BInv (lkey wc) (wc_K wc) i b' -> TInv wc (R.upd_nth i b' t).
Proof.
  intros wc t i b' [HL HB] Hlt Hb'. split; [rewrite RP.upd_nth_length; exact HL |].
  intros j Hj. rewrite RP.upd_nth_length in Hj. destruct (Nat.eq_dec j i) as [-> | Hne].
  - rewrite RP.nth_upd_same by exact Hlt. exact Hb'.
  - rewrite RP.nth_upd_other by exact Hne. apply HB. exact Hj.
Qed.

Lemma entry_occ : forall K b k a y c,
  R.bucket_entry K b k = R.SOcc a y c -> b = a ++ y :: c /\ R.n_key y = k.
Proof.
  intros K b k a y c Es. unfold R.bucket_entry in Es.
  destruct (R.split_first (R.has_key k) b) as [[[a0 y0] c0] |] eqn:E1.
  - inversion Es. subst. apply RP.split_first_some in E1. destruct E1 as (Hb & Hy & _).
    split; [exact Hb |]. unfold R.has_key in Hy. apply RP.key_eqb_eq in Hy. exact Hy.
  - destruct (length b <? K)%nat; [discriminate |].
    destruct (R.split_first R.replaceable b) as [[[a0 y0] c0] |]; discriminate.
Qed.

Lemma rt_disconnect_inv : forall wc t p, keys_ok wc -> TInv wc t -> TInv wc (rt_disconnect wc t p).
Proof.
  intros wc t p Hk HI. unfold rt_disconnect.
  destruct (R.ilog2 (R.kxor (lkey wc) (pkey wc p))) as [i |] eqn:Ei; [| exact HI].
  assert (Hlen : length (pkey wc p) = length (lkey wc)).
  { destruct (pkey_len wc p Hk) as [H | H]; [| exact H]. rewrite H, ilog2_nil in Ei. discriminate. }
  assert (Hlt : (i < length t)%nat).
  { destruct HI as [HL _]. apply RP.ilog2_lt in Ei. rewrite RP.kxor_length in Ei. lia. }
  pose proof (RP.apply_slot_binv (lkey wc) (wc_K wc) i (nth i t []) (R.OEntry (pkey wc p))
                (RP.inv_nth _ _ _ i HI) Hlen Ei) as E0.
  cbn [R.op_key R.apply_slot] in E0.
  destruct (R.bucket_entry (wc_K wc) (nth i t []) (pkey wc p)) as [| | a y c | a y c] eqn:Es;
    try (apply upd_inv; [exact HI | exact Hlt | exact E0]).
  apply upd_inv; [exact HI | exact Hlt |]. cbn [R.slot_bucket] in E0.
  apply (RP.binv_same_key (lkey wc) (wc_K wc) i a y _ c E0); [reflexivity |].
  apply entry_occ in Es. destruct Es as [_ Hy]. unfold RP.real. rewrite Hy.
  destruct (pkey wc p); [cbn in Hlen; pose proof (ko_pos wc Hk); lia | reflexivity].
Qed.

Lemma rt_filter1_table : forall wc t p, fst (rt_filter1 wc t p) = rt_op wc t (R.OEntry (pkey wc p)).
Proof.
  intros wc t p. unfold rt_filter1, rt_op, R.step, R.step_gen. cbn [R.op_key].
  destruct (R.ilog2 (R.kxor (lkey wc) (pkey wc p))); reflexivity.
Qed.

Lemma rt_filter_inv : forall wc ps t, keys_ok wc -> TInv wc t -> TInv wc (fst (rt_filter wc t ps)).
Proof.
  intros wc ps. induction ps as [| p r IH]; intros t Hk HI; [exact HI |]. cbn [rt_filter].
  destruct (p =? g_local (wc_g wc)); [apply IH; assumption |].
  pose proof (rt_filter1_table wc t p) as E. destruct (rt_filter1 wc t p) as [t1 o]. cbn [fst] in E.
  specialize (IH t1 Hk). destruct (rt_filter wc t1 r) as [t2 l]. cbn [fst] in *. apply IH.
  rewrite E. eapply rt_op_inv; [exact Hk | reflexivity | exact HI].
Qed.

Lemma rt_learn_inv : forall wc s ps t, keys_ok wc -> TInv wc t -> TInv wc (rt_learn wc s t ps).
Proof.
  intros wc s ps. unfold rt_learn. induction ps as [| p r IH]; intros t Hk HI; [exact HI |]. cbn [fold_left].
  apply IH; [exact Hk |]. destruct (p =? g_local (wc_g wc)); [exact HI |].
  eapply rt_op_inv; [exact Hk | reflexivity | exact HI].
Qed.

Lemma side_inv : forall wc w e, keys_ok wc -> TInv wc (w_rt w) -> TInv wc (fst (side wc w e)).
Proof.
  intros wc w e Hk HI. unfold side.
  set (t0 := match disconnects (w_st w) e with Some p => rt_disconnect wc (w_rt w) p | None => w_rt w end).
  assert (H0 : TInv wc t0).
  { subst t0. destruct (disconnects (w_st w) e); [apply rt_disconnect_inv; assumption | exact HI]. }
  clearbody t0.
  destruct e; cbn [fst]; try exact H0.
  - destruct (aget p (conn (w_st w))); cbn [fst]; [exact H0 |].
    eapply rt_op_inv; [exact Hk | reflexivity | exact H0].
  - eapply rt_op_inv; [exact Hk | reflexivity | exact H0].
  - destruct r as [| | | m |]; cbn [fst]; try exact H0.
    destruct (find_fut id (futs (w_st w))) as [f |]; [| exact H0].
    destruct (res_ok (f_kind f) (RRead m)); [| exact H0].
    destruct (f_q f).
    + cbn [fst]. destruct (msg_peers (trunc_msg (wc_g wc) m)); [apply rt_learn_inv; assumption | exact H0].
    + destruct (trunc_msg (wc_g wc) m); exact H0.
Qed.

Lemma elab_inv : forall wc w u, keys_ok wc -> TInv wc (w_rt w) -> TInv wc (snd (fst (elab wc w u))).
Proof.
  intros wc w u Hk HI. destruct u as [q c target | q qr rk given | rk | p a | e]; cbn [elab].
  - destruct c; cbn [fst snd]; try exact HI. destruct (V.C17.Model.get (w_store w) rk 0). exact HI.
  - pose proof (rt_filter_inv wc given (w_rt w) Hk HI) as F. destruct (rt_filter wc (w_rt w) given). exact F.
  - exact HI.
  - cbn [fst snd]. eapply rt_op_inv; [exact Hk | reflexivity | exact HI].
  - pose proof (side_inv wc w e Hk HI) as F. destruct (side wc w e). exact F.
Qed.

Lemma cstep_inv : forall wc w u, keys_ok wc -> TInv wc (w_rt w) -> TInv wc (w_rt (fst (fst (cstep wc w u)))).
Proof. intros. rewrite cstep_rt. apply elab_inv; assumption. Qed.

Lemma crun_inv : forall wc us w, keys_ok wc -> TInv wc (w_rt w) -> TInv wc (w_rt (fst (crun wc w us))).
Proof.
  intros wc us. induction us as [| u t IH]; intros w Hk HI; [exact HI |].
  rewrite crun_cons. cbn [fst]. apply IH; [exact Hk |]. apply cstep_inv; assumption.
Qed.

Lemma table_inv : forall wc m us,
  keys_ok wc -> TInv wc (w_rt (fst (crun wc (w0 wc m (length (lkey wc))) us))).
Proof. intros. apply crun_inv; [assumption |]. apply RP.empty_inv. Qed.

(* ------------------------------------------------------------------ the seeds of a lookup *)

Lemma elab_cmd : forall wc w q c target,
  exists cmd, fst (fst (elab wc w (UCmd q c target))) =
              ECmd q cmd (dists_of wc target) (seeds_of wc (w_rt w) target).
Proof.
  intros wc w q c target. cbn [elab]. destruct c; cbn [fst]; eauto.
  destruct (V.C17.Model.get (w_store w) rk 0). cbn [fst]. eauto.
Qed.

Lemma firstn_In : forall A n (l : list A) x, In x (firstn n l) -> In x l.
Proof.
  intros A n. induction n as [| n IH]; intros l x H; [destruct H |].
  destruct l as [| h t]; [destruct H |]. destruct H as [H | H]; [left; exact H | right; apply IH; exact H].
Qed.

(* what closest returns are addressed nodes of the table, hence real peers, hence not the local one *)
Lemma closest_not_local : forall wc t target k n,
  TInv wc t -> In n (R.closest (lkey wc) t target k) -> R.n_key n <> lkey wc.
Proof.
  intros wc t target k n HI Hin. unfold R.closest in Hin. apply firstn_In in Hin.
  unfold R.all_closest in Hin. apply in_flat_map in Hin. destruct Hin as (i & _ & Hin).
  unfold R.bucket_closest in Hin.
  assert (Hin' : In n (filter R.n_addr (nth i t []))).
  { eapply Permutation_in; [apply RP.sort_perm | exact Hin]. }
  apply filter_In in Hin'. destruct Hin' as [Hb Ha].
  destruct (RP.inv_nth _ _ _ i HI) as (_ & Hok & _). rewrite Forall_forall in Hok.
  destruct (Hok n Hb) as [[_ Hf] | [_ Hidx]]; [congruence |].
  intro E. rewrite E, RP.kxor_self_ilog2 in Hidx. discriminate.
Qed.

Lemma seeds_not_local : forall wc t target,
  keys_ok wc -> TInv wc t -> ~ In (g_local (wc_g wc)) (seeds_of wc t target).
Proof.
  intros wc t target Hk HI Hin. unfold seeds_of in Hin. apply in_map_iff in Hin.
  destruct Hin as (n & Hn & Hc).
  apply peer_of_known in Hn; [| apply local_known; exact Hk].
  apply (In_aget _ _ _ _ (ko_lab wc Hk)) in Hn.
  apply (closest_not_local wc t target _ n HI Hc). unfold lkey, pkey. rewrite Hn. reflexivity.
Qed.

Lemma seeds_facts : forall wc t target,
  keys_ok wc -> TInv wc t -> length target = length (lkey wc) -> RP.outside_class (lkey wc) t target ->
  let k := N.to_nat (g_k (wc_g wc)) in
  let nodes := R.closest (lkey wc) t target k in
  let cands := filter R.n_addr (concat t) in
  seeds_of wc t target = map (fun n => peer_of (wc_keys wc) (R.n_key n)) nodes /\
  StronglySorted (RP.dlt target) nodes /\ NoDup (map R.n_key nodes) /\
  (forall n, In n nodes -> In n cands) /\
  length nodes = Nat.min k (length cands) /\
  (forall a b, In a nodes -> In b cands -> ~ In b nodes -> RP.dlt target a b) /\
  ~ In (g_local (wc_g wc)) (seeds_of wc t target).
Proof.
  intros wc t target Hk HI Hl Hc k nodes cands.
  destruct (RP.closest_facts (lkey wc) (wc_K wc) t target k (ko_pos wc Hk) HI Hl Hc) as (F1 & F2 & F3 & F4 & F5).
  split; [reflexivity |]. split; [exact F1 |]. split; [exact F2 |]. split; [exact F3 |].
  split; [exact F4 |]. split; [exact F5 |]. apply seeds_not_local; assumption.
Qed.

(* ------------------------------------------------------------------ put_record_to_peers names its targets *)

Lemma rt_filter1_named : forall wc t p x, keys_ok wc -> snd (rt_filter1 wc t p) = Some x -> x = p.
Proof.
  intros wc t p x Hk. unfold rt_filter1.
  destruct (R.ilog2 (R.kxor (lkey wc) (pkey wc p))) as [i |] eqn:Ei; cbn [snd]; [| discriminate].
  destruct (R.bucket_entry (wc_K wc) (nth i t []) (pkey wc p)) as [| | a y c | a y c] eqn:Es; try discriminate.
  intros [= <-]. apply entry_occ in Es. destruct Es as [_ Hy]. rewrite Hy. apply peer_of_pkey; [exact Hk |].
  intro E. rewrite E, ilog2_nil in Ei. discriminate.
Qed.

Lemma rt_filter_named : forall wc ps t x, keys_ok wc ->
  In x (snd (rt_filter wc t ps)) -> In x ps /\ x <> g_local (wc_g wc).
Proof.
  intros wc ps. induction ps as [| p r IH]; intros t x Hk H; [destruct H |]. cbn [rt_filter] in H.
  destruct (p =? g_local (wc_g wc)) eqn:El.
  - destruct (IH t x Hk H) as [H1 H2]. split; [right; exact H1 | exact H2].
  - pose proof (rt_filter1_named wc t p) as F. destruct (rt_filter1 wc t p) as [t1 o]. cbn [snd] in F.
    specialize (IH t1 x Hk). destruct (rt_filter wc t1 r) as [t2 l]. cbn [snd] in *.
    destruct o as [y |].
    + destruct H as [H | H].
      * subst y. rewrite (F x Hk eq_refl). split; [left; reflexivity |]. apply N.eqb_neq. exact El.
      * destruct (IH H) as [H1 H2]. split; [right; exact H1 | exact H2].
    + destruct (IH H) as [H1 H2]. split; [right; exact H1 | exact H2].
Qed.

Lemma rt_filter_nodup : forall wc ps t, keys_ok wc -> NoDup ps -> NoDup (snd (rt_filter wc t ps)).
Proof.
  intros wc ps. induction ps as [| p r IH]; intros t Hk Hn; [constructor |]. cbn [rt_filter].
  inversion Hn as [| ? ? Hni Hn']. subst.
  destruct (p =? g_local (wc_g wc)); [apply IH; assumption |].
  pose proof (rt_filter1_named wc t p) as F. destruct (rt_filter1 wc t p) as [t1 o]. cbn [snd] in F.
  pose proof (IH t1 Hk Hn') as N1. pose proof (rt_filter_named wc r t1) as N2.
  destruct (rt_filter wc t1 r) as [t2 l]. cbn [snd] in *.
  destruct o as [y |]; [| exact N1]. constructor; [| exact N1].
  rewrite (F y Hk eq_refl). intro H. apply Hni. apply (N2 p Hk H).
Qed.

Lemma elab_put_to_peers : forall wc w q qr rk given,
  exists ps, fst (fst (elab wc w (UPutToPeers q qr rk given))) = EPutToPeers q qr ps /\
             ps = snd (rt_filter wc (w_rt w) given).
Proof.
  intros. cbn [elab]. destruct (rt_filter wc (w_rt w) given) as [t' ps]. cbn [fst snd]. eauto.
Qed.

Lemma seeds_from_table : forall wc m us q c target,
  keys_ok wc ->
  let w := fst (crun wc (w0 wc m (length (lkey wc))) us) in
  let t := w_rt w in
  let k := N.to_nat (g_k (wc_g wc)) in
  let nodes := R.closest (lkey wc) t target k in
  let cands := filter R.n_addr (concat t) in
  let seeds := map (fun n => peer_of (wc_keys wc) (R.n_key n)) nodes in
  (exists cmd, fst (fst (elab wc w (UCmd q c target))) = ECmd q cmd (dists_of wc target) seeds) /\
  ~ In (g_local (wc_g wc)) seeds /\
  (length target = length (lkey wc) -> RP.outside_class (lkey wc) t target ->
   StronglySorted (RP.dlt target) nodes /\ NoDup (map R.n_key nodes) /\
   (forall n, In n nodes -> In n cands) /\
   length nodes = Nat.min k (length cands) /\
   (forall a b, In a nodes -> In b cands -> ~ In b nodes -> RP.dlt target a b)).
Proof.
  intros wc m us q c target Hk w t k nodes cands seeds.
  pose proof (table_inv wc m us Hk) as HI. fold w in HI.
  split; [apply elab_cmd |]. split; [apply (seeds_not_local wc t target Hk HI) |].
  intros Hl Hc. destruct (seeds_facts wc t target Hk HI Hl Hc) as (_ & F1 & F2 & F3 & F4 & F5 & _).
  repeat split; assumption.
Qed.

Lemma put_to_peers_named : forall wc w q qr rk given,
  keys_ok wc ->
  exists ps, fst (fst (elab wc w (UPutToPeers q qr rk given))) = EPutToPeers q qr ps /\
             (forall x, In x ps -> In x given /\ x <> g_local (wc_g wc)) /\
             (NoDup given -> NoDup ps).
Proof.
  intros wc w q qr rk given Hk. destruct (elab_put_to_peers wc w q qr rk given) as (ps & E & Eps).
  exists ps. split; [exact E |]. subst ps. split.
  - intros x Hx. apply (rt_filter_named wc given (w_rt w) x Hk Hx).
  - apply rt_filter_nodup. exact Hk.
Qed.

(* ------------------------------------------------------------------ well-formed commands come for free *)

Definition ucmd_ok (g : gcfg) (u : uev) : Prop :=
  match u with
  | UPutToPeers _ _ _ given => NoDup given
  | UEv e => cmd_ok g e
  | _ => True
  end.

Lemma elab_cmd_ok : forall wc w u,
  keys_ok wc -> TInv wc (w_rt w) -> ucmd_ok (wc_g wc) u -> cmd_ok (wc_g wc) (fst (fst (elab wc w u))).
Proof.
  intros wc w u Hk HI Hu. destruct u as [q c target | q qr rk given | rk | p a | e].
  - destruct (elab_cmd wc w q c target) as [cmd E]. rewrite E. cbn [cmd_ok].
    apply seeds_not_local; assumption.
  - destruct (elab_put_to_peers wc w q qr rk given) as (ps & E & Eps). rewrite E. cbn [cmd_ok]. subst ps.
    apply rt_filter_nodup; assumption.
  - exact I.
  - exact I.
  - cbn [elab]. destruct (side wc w e). exact Hu.
Qed.

Lemma elabs_cmds_ok : forall wc us w,
  keys_ok wc -> TInv wc (w_rt w) -> Forall (ucmd_ok (wc_g wc)) us -> cmds_ok (wc_g wc) (elabs wc w us).
Proof.
  intros wc us. induction us as [| u t IH]; intros w Hk HI HF; [exact I |].
  inversion HF as [| ? ? Hu Ht]. subst. cbn [elabs cmds_ok]. split.
  - apply elab_cmd_ok; assumption.
  - apply IH; [exact Hk | apply cstep_inv; assumption | exact Ht].
Qed.

(* ------------------------------------------------------------------ the store *)

(* every record of the store was put by this node's handlers with the configured ttl *)
Definition SI (wc : wcfg) (s : S.store) : Prop :=
  Forall (fun r => S.r_exp r = Some (wc_ttl wc)) (S.recs s).

Definition stored (s : S.store) (rk : N) : Prop := S.find_rec rk (S.recs s) <> None.

Lemma put_SI : forall wc s rk, SI wc s -> SI wc (S.put (wc_scfg wc) s (local_record wc rk)).
Proof.
  intros wc s rk H. unfold S.put.
  destruct (S.max_size (wc_scfg wc) <=? S.r_len (local_record wc rk)); [exact H |].
  assert (Hr : SI wc (S.mkStore (S.replace_rec (local_record wc rk) (S.recs s)) (S.pkeys s) (S.locals s))).
  { unfold SI. cbn [S.recs]. apply SP.replace_rec_forall; [reflexivity | exact H]. }
  destruct (S.find_rec (S.r_key (local_record wc rk)) (S.recs s)) as [old |].
  - destruct (S.r_exp old); cbn [S.r_exp local_record]; [| exact Hr].
    destruct (wc_ttl wc <? n); [exact H | exact Hr].
  - destruct (S.max_records (wc_scfg wc) <=? N.of_nat (length (S.recs s))); [exact H |].
    unfold SI. cbn [S.recs]. apply Forall_app. split; [exact H | constructor; [reflexivity | constructor]].
Qed.

Lemma get_same : forall wc s k, SI wc s -> 1 <= wc_ttl wc -> S.get s k 0 = (s, S.find_rec k (S.recs s)).
Proof.
  intros wc s k H Ht. unfold S.get. destruct (S.find_rec k (S.recs s)) as [r |] eqn:E; [| reflexivity].
  assert (Hx : S.rec_expired r 0 = false).
  { unfold SI in H. rewrite Forall_forall in H. unfold S.rec_expired.
    rewrite (H r (SP.find_rec_in _ _ _ E)). apply N.leb_gt. lia. }
  rewrite Hx. reflexivity.
Qed.

Lemma put_stored : forall c s r,
  S.r_len r < S.max_size c -> N.of_nat (length (S.recs s)) < S.max_records c ->
  stored (S.put c s r) (S.r_key r).
Proof.
  intros c s r Hs Hn. unfold stored. rewrite SP.put_lookup.
  assert (E1 : S.max_size c <=? S.r_len r = false) by (apply N.leb_gt; exact Hs). rewrite E1.
  destruct (S.find_rec (S.r_key r) (S.recs s)) as [old |].
  - destruct (S.r_exp old), (S.r_exp r); try discriminate. destruct (n0 <? n); discriminate.
  - assert (E2 : S.max_records c <=? N.of_nat (length (S.recs s)) = false) by (apply N.leb_gt; exact Hn).
    rewrite E2. discriminate.
Qed.

Lemma put_keeps : forall c s r rk, stored s rk -> stored (S.put c s r) rk.
Proof.
  intros c s r rk H. unfold stored in *. destruct (N.eq_dec rk (S.r_key r)) as [-> | Hne].
  - rewrite SP.put_lookup. destruct (S.max_size c <=? S.r_len r); [exact H |].
    destruct (S.find_rec (S.r_key r) (S.recs s)) as [old |]; [| congruence].
    destruct (S.r_exp old), (S.r_exp r); try discriminate. destruct (n0 <? n); discriminate.
  - destruct (SP.put_other c s r rk Hne) as [E _]. rewrite E. exact H.
Qed.

Lemma put_length : forall c s r, (length (S.recs (S.put c s r)) <= S (length (S.recs s)))%nat.
Proof.
  intros c s r. unfold S.put. destruct (S.max_size c <=? S.r_len r); [lia |].
  destruct (S.find_rec (S.r_key r) (S.recs s)) as [old |].
  - destruct (S.r_exp old), (S.r_exp r); cbn [S.recs]; rewrite ?SP.replace_rec_length; try lia.
    destruct (n0 <? n); cbn [S.recs]; rewrite ?SP.replace_rec_length; lia.
  - destruct (S.max_records c <=? N.of_nat (length (S.recs s))); cbn [S.recs]; [lia |].
    rewrite app_length. cbn. lia.
Qed.

(* what a composed step does to the store: nothing, or one put of a record of this node *)
Lemma elab_store : forall wc w u, SI wc (w_store w) -> 1 <= wc_ttl wc ->
  snd (elab wc w u) = w_store w \/
  exists rk, snd (elab wc w u) = S.put (wc_scfg wc) (w_store w) (local_record wc rk).
Proof.
  intros wc w u HS Ht. destruct u as [q c target | q qr rk given | rk | p a | e]; cbn [elab].
  - destruct c; cbn [snd]; eauto. rewrite (get_same wc _ rk HS Ht). left. reflexivity.
  - destruct (rt_filter wc (w_rt w) given). left. reflexivity.
  - right. exists rk. reflexivity.
  - left. reflexivity.
  - assert (Hs : snd (side wc w e) = w_store w \/
                 exists rk, snd (side wc w e) = S.put (wc_scfg wc) (w_store w) (local_record wc rk)).
    { unfold side. destruct e; cbn [snd]; try (left; reflexivity).
      - destruct (aget p (conn (w_st w))); left; reflexivity.
      - destruct r as [| | | m |]; try (left; reflexivity).
        destruct (find_fut id (futs (w_st w))) as [f |]; [| left; reflexivity].
        destruct (res_ok (f_kind f) (RRead m)); [| left; reflexivity].
        destruct (f_q f); [left; reflexivity |].
        destruct (trunc_msg (wc_g wc) m); try (left; reflexivity).
        right. exists INBOUND_KEY. reflexivity. }
    destruct (side wc w e) as [t' s']. exact Hs.
Qed.

Lemma cstep_SI : forall wc w u, SI wc (w_store w) -> 1 <= wc_ttl wc -> SI wc (w_store (fst (fst (cstep wc w u)))).
Proof.
  intros wc w u HS Ht. rewrite cstep_store. destruct (elab_store wc w u HS Ht) as [E | [rk E]]; rewrite E.
  - exact HS.
  - apply put_SI. exact HS.
Qed.

Lemma cstep_stored : forall wc w u rk, SI wc (w_store w) -> 1 <= wc_ttl wc ->
  stored (w_store w) rk -> stored (w_store (fst (fst (cstep wc w u)))) rk.
Proof.
  intros wc w u rk HS Ht H. rewrite cstep_store. destruct (elab_store wc w u HS Ht) as [E | [rk' E]]; rewrite E.
  - exact H.
  - apply put_keeps. exact H.
Qed.

Lemma cstep_length : forall wc w u, SI wc (w_store w) -> 1 <= wc_ttl wc ->
  (length (S.recs (w_store (fst (fst (cstep wc w u))))) <= S (length (S.recs (w_store w))))%nat.
Proof.
  intros wc w u HS Ht. rewrite cstep_store. destruct (elab_store wc w u HS Ht) as [E | [rk' E]]; rewrite E.
  - lia.
  - apply put_length.
Qed.

Lemma crun_store : forall wc us w rk, SI wc (w_store w) -> 1 <= wc_ttl wc ->
  let w' := fst (crun wc w us) in
  SI wc (w_store w') /\ (stored (w_store w) rk -> stored (w_store w') rk) /\
  (length (S.recs (w_store w')) <= length us + length (S.recs (w_store w)))%nat.
Proof.
  intros wc us. induction us as [| u t IH]; intros w rk HS Ht; cbn zeta.
  - split; [exact HS |]. split; [tauto | cbn; lia].
  - rewrite crun_cons. cbn [fst].
    destruct (IH (fst (fst (cstep wc w u))) rk (cstep_SI wc w u HS Ht) Ht) as (I1 & I2 & I3).
    split; [exact I1 |]. split.
    + intro H. apply I2. apply cstep_stored; assumption.
    + pose proof (cstep_length wc w u HS Ht). cbn [length]. lia.
Qed.

Lemma reach_SI : forall wc m L us, 1 <= wc_ttl wc -> SI wc (w_store (fst (crun wc (w0 wc m L) us))).
Proof.
  intros wc m L us Ht. assert (S0 : SI wc (w_store (w0 wc m L))) by constructor.
  apply (crun_store wc us (w0 wc m L) 0 S0 Ht).
Qed.

(* ---- GetRecord ---- *)
Definition needed_of (g : gcfg) (qr : quorum) : N := match qr with QOne => 1 | QN n => n | QAll => g_k g end.

Lemma get_record_step : forall wc w q qr rk target,
  SI wc (w_store w) -> 1 <= wc_ttl wc ->
  let g := wc_g wc in
  let hit := match S.find_rec rk (S.recs (w_store w)) with Some _ => true | None => false end in
  let lookup := start_lookup g (w_st w) q LRec qr
                  (lcfg g V.C15.Model.KRecord (needed_of g qr) (if hit then 1 else 0) (dists_of wc target))
                  (seeds_of wc (w_rt w) target) in
  fst (cstep wc w (UCmd q (UCGet qr rk) target)) =
  match qr, hit with
  | QOne, true => (w, [OPartial q (g_local g) LOCAL_REC; OGetRecSuccess q])
  | _, _ => (mkW lookup (w_rt w) (w_store w), if hit then [OPartial q (g_local g) LOCAL_REC] else [])
  end.
Proof.
  intros wc w q qr rk target HS Ht g hit lookup. unfold cstep. cbn [elab].
  rewrite (get_same wc _ rk HS Ht). subst hit lookup.
  destruct (S.find_rec rk (S.recs (w_store w))) as [r |]; cbn [step on_cmd];
    destruct qr; cbn [fst snd needed_of]; try reflexivity.
  destruct w; reflexivity.
Qed.

(* a record this node stored is found by every later GetRecord(Quorum::One) without the network *)
Lemma put_then_get : forall wc m L us1 u us2 q rk target,
  1 <= wc_ttl wc -> REC_LEN < S.max_size (wc_scfg wc) ->
  N.of_nat (length (us1 ++ u :: us2)) <= S.max_records (wc_scfg wc) ->
  (u = UStoreRecord rk \/ exists q0 qr0 t0, u = UCmd q0 (UCPut qr0 rk) t0) ->
  let w := fst (crun wc (w0 wc m L) (us1 ++ u :: us2)) in
  fst (cstep wc w (UCmd q (UCGet QOne rk) target)) =
  (w, [OPartial q (g_local (wc_g wc)) LOCAL_REC; OGetRecSuccess q]).
Proof.
  intros wc m L us1 u us2 q rk target Ht Hsz Hn Hu w.
  assert (S0 : SI wc (w_store (w0 wc m L))) by constructor.
  destruct (crun_store wc us1 (w0 wc m L) rk S0 Ht) as (S1 & _ & L1).
  set (w1 := fst (crun wc (w0 wc m L) us1)) in *.
  assert (St : stored (w_store (fst (fst (cstep wc w1 u)))) rk).
  { rewrite cstep_store.
    assert (E : snd (elab wc w1 u) = S.put (wc_scfg wc) (w_store w1) (local_record wc rk)).
    { destruct Hu as [-> | (q0 & qr0 & t0 & ->)]; reflexivity. }
    rewrite E. change rk with (S.r_key (local_record wc rk)) at 2. apply put_stored; [exact Hsz |].
    rewrite app_length in Hn. cbn [length] in *. cbn in L1. lia. }
  assert (Ew : w = fst (crun wc (fst (fst (cstep wc w1 u))) us2)).
  { subst w w1. rewrite crun_app, crun_cons. reflexivity. }
  destruct (crun_store wc us2 (fst (fst (cstep wc w1 u))) rk (cstep_SI wc w1 u S1 Ht) Ht) as (S2 & K2 & _).
  rewrite <- Ew in S2, K2. specialize (K2 St).
  rewrite (get_record_step wc w q QOne rk target S2 Ht). unfold stored in K2.
  destruct (S.find_rec rk (S.recs (w_store w))); [reflexivity | congruence].
Qed.

(* ------------------------------------------------------------------ the base theorems on composed histories *)

Section Lift.
Variables (wc : wcfg) (m : list (N * N)).
Let g := wc_g wc.
Let L := length (lkey wc).
Let W (us : list uev) := fst (crun wc (w0 wc m L) us).

Lemma lift_state : forall us, w_st (W us) = fst (run g (st0 m) (elabs wc (w0 wc m L) us)).
Proof. intros. apply (compose_refines wc us (w0 wc m L)). Qed.
Lemma lift_outs : forall us, snd (crun wc (w0 wc m L) us) = snd (run g (st0 m) (elabs wc (w0 wc m L) us)).
Proof. intros. apply (compose_refines wc us (w0 wc m L)). Qed.

Lemma c_no_wait : forall us q x p,
  1 <= g_alpha g ->
  let s := w_st (W us) in
  aget q (eng s) = Some x -> In p (waiting x) -> owes s (negb (is_track x)) q p.
Proof. intros us q x p Ha. cbn zeta. rewrite lift_state. apply no_wait_for_nothing. exact Ha. Qed.

Lemma c_one_terminal : forall us q,
  ufresh [] us ->
  (terminals q (snd (crun wc (w0 wc m L) us)) + (if live q (w_st (W us)) then 1 else 0) = ustarted q us)%nat /\
  (ustarted q us <= 1)%nat.
Proof.
  intros us q Hf. rewrite lift_state, lift_outs, <- (elabs_started wc q us (w0 wc m L)).
  apply one_terminal. apply elabs_fresh. exact Hf.
Qed.

Lemma c_terminates : forall us q,
  1 <= g_alpha g -> ufresh [] us ->
  idle (w_st (W us)) -> quiescent (w_st (W us)) = true ->
  terminals q (snd (crun wc (w0 wc m L) us)) = ustarted q us /\ (ustarted q us <= 1)%nat.
Proof.
  intros us q Ha Hf. rewrite lift_state, lift_outs, <- (elabs_started wc q us (w0 wc m L)).
  apply all_reported; [exact Ha | apply elabs_fresh; exact Hf].
Qed.

Lemma c_cmds_ok : forall us,
  keys_ok wc -> Forall (ucmd_ok g) us -> cmds_ok g (elabs wc (w0 wc m L) us).
Proof. intros us Hk HF. apply elabs_cmds_ok; [exact Hk | apply RP.empty_inv | exact HF]. Qed.

Lemma c_sides : forall us,
  keys_ok wc -> ufresh [] us -> Forall (ucmd_ok g) us ->
  let es := elabs wc (w0 wc m L) us in
  fresh_ids [] es /\ cmds_ok g es.
Proof.
  intros us Hk Hf HF. split; [apply elabs_fresh; exact Hf | apply c_cmds_ok; assumption].
Qed.

Lemma c_at_most_one : forall us k q p,
  keys_ok wc -> ufresh [] us -> Forall (ucmd_ok g) us -> (cnt (w_st (W us)) k q p <= 1)%nat.
Proof.
  intros us k q p Hk Hf HF. rewrite lift_state.
  apply at_most_one; [apply elabs_fresh; exact Hf | apply c_cmds_ok; assumption].
Qed.

Lemma c_quorum_honest : forall us q,
  keys_ok wc -> ufresh [] us -> Forall (ucmd_ok g) us ->
  let outs := snd (crun wc (w0 wc m L) us) in
  let es := elabs wc (w0 wc m L) us in
  In (OPutSuccess q) outs \/ In (OProvSuccess q) outs ->
  exists targets qr S,
    find_quorum q es = Some qr /\ In (OTrack q targets) outs /\ NoDup S /\
    clamp qr (N.of_nat (length targets)) <= N.of_nat (length S) /\
    (forall p, In p S -> In (q, p) (put_sends g (st0 m) es) /\ In p targets).
Proof.
  intros us q Hk Hf HF. cbn zeta. rewrite lift_outs.
  apply quorum_honest_put; [apply elabs_fresh; exact Hf | apply c_cmds_ok; assumption].
Qed.
End Lift.

(* a small world for the non-vacuity example of Properties.v *)
Definition ex_wc : wcfg :=
  mkWC (mkG 20 3 99 10) [(99, [false; false]); (0, [true; false]); (1, [true; true])] [0; 1] 20
       (V.C17.Model.mkCfg 8 10 8 8 8 100) 50.
Lemma ex_wc_ok : keys_ok ex_wc.
Proof.
  constructor.
  - intros p k H. unfold ex_wc in H. cbn [wc_keys In] in H.
    repeat (destruct H as [H | H]; [inversion H; vm_compute; reflexivity |]). destruct H.
  - vm_compute. auto.
  - cbn [ex_wc wc_keys map fst]. repeat constructor; cbn [In]; intuition discriminate.
  - cbn [ex_wc wc_keys map snd]. repeat constructor; cbn [In]; intuition discriminate.
  - cbn [ex_wc wc_keys map fst In]. unfold UNKNOWN. intuition discriminate.
Qed.
