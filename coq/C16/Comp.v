(* C16 — theorems about the composition glue + routing table (the C14 model) + store (the C17
   model) of Compose.v: the composed run IS a run of the glue model on computed commands, the
   table keeps C14's invariant under everything kademlia/mod.rs does to it, the seeds of every
   lookup are RoutingTable::closest of that table (with C14's facts, never the local peer),
   put_record_to_peers targets named peers only, GetRecord answers from the local store, and the
   theorems of Proofs.v / Obl.v hold for composed histories. *)
From Coq Require Import List Arith NArith Bool Lia Sorted Permutation.
From V.C14 Require Model Proofs.
From V.C17 Require Model Proofs Timed TimedProofs Ingress IngressProofs.
From V.C16 Require Import Model Proofs Obl Bound Compose.
Import ListNotations.
Open Scope N_scope.

Module R := V.C14.Model.
Module RP := V.C14.Proofs.
Module S := V.C17.Model.
Module T := V.C17.Timed.
Module K := V.C17.Ingress.
Module SP := V.C17.Proofs.
Module KP := V.C17.IngressProofs.
Module TP := V.C17.TimedProofs.

(* ------------------------------------------------------------------ refinement *)

Lemma crun_cons : forall wc w u t,
  crun wc w (u :: t) =
  (fst (crun wc (fst (fst (cstep wc w u))) t),
   snd (fst (cstep wc w u)) ++ snd (crun wc (fst (fst (cstep wc w u))) t)).
Proof.
  intros. cbn [crun]. destruct (cstep wc w u) as [[w1 o] ok]. cbn [fst snd].
  destruct (crun wc w1 t) as [w2 o2]. reflexivity.
Qed.

Lemma crun_app : forall wc a b w,
  fst (crun wc w (a ++ b)) = fst (crun wc (fst (crun wc w a)) b).
Proof.
  intros wc a. induction a as [| u t IH]; intros b w; [reflexivity |].
  cbn [app]. rewrite !crun_cons. cbn [fst]. apply IH.
Qed.

Lemma cstep_base : forall wc w u,
  w_st (fst (fst (cstep wc w u))) = fst (fst (step (wc_g wc) (w_st w) (fst (fst (elab wc w u))))) /\
  snd (fst (cstep wc w u)) = snd (fst (step (wc_g wc) (w_st w) (fst (fst (elab wc w u))))).
Proof.
  intros wc w u. unfold cstep. destruct (elab wc w u) as [[e t'] s']. cbn [fst snd].
  destruct (step (wc_g wc) (w_st w) e) as [[st' o] ok]. cbn [fst snd w_st]. split; reflexivity.
Qed.

Lemma cstep_rt : forall wc w u, w_rt (fst (fst (cstep wc w u))) = snd (fst (elab wc w u)).
Proof.
  intros. unfold cstep. destruct (elab wc w u) as [[e t'] s'].
  destruct (step (wc_g wc) (w_st w) e) as [[st' o] ok]. reflexivity.
Qed.

Lemma cstep_ks : forall wc w u, w_ks (fst (fst (cstep wc w u))) = snd (elab wc w u).
Proof.
  intros. unfold cstep. destruct (elab wc w u) as [[e t'] s'].
  destruct (step (wc_g wc) (w_st w) e) as [[st' o] ok]. reflexivity.
Qed.

Lemma elab_ks : forall wc w u, snd (elab wc w u) = fst (kside wc w u).
Proof.
  intros wc w u. destruct u; cbn [elab]; try reflexivity.
  - destruct (rt_filter wc (w_rt w) given). reflexivity.
  - destruct (fire1 wc (age (w_ks w) wait) rk (lrank wc target)) as [[k [qc |]] |]; reflexivity.
Qed.

Lemma compose_refines : forall wc us w,
  w_st (fst (crun wc w us)) = fst (run (wc_g wc) (w_st w) (elabs wc w us)) /\
  snd (crun wc w us) = snd (run (wc_g wc) (w_st w) (elabs wc w us)).
Proof.
  intros wc us. induction us as [| u t IH]; intro w; [split; reflexivity |].
  rewrite crun_cons. cbn [elabs fst snd]. rewrite run_cons. cbn [fst snd].
  destruct (cstep_base wc w u) as [B1 B2]. destruct (IH (fst (fst (cstep wc w u)))) as [I1 I2].
  rewrite B1 in I1, I2. split; [exact I1 | rewrite B2, I2; reflexivity].
Qed.

(* the ids the user starts; a refresh timer that fires starts an operation (with an id from the shared
   counter) only when a refresh is due: `started_by` of the elaborated event decides *)
Definition ustarted (q : N) (us : list uev) : nat :=
  length (filter (fun u => opt_is (ustarted_by u) q) us).

Lemma elab_started : forall wc w u,
  started_by (fst (fst (elab wc w u))) = ustarted_by u \/
  (started_by (fst (fst (elab wc w u))) = None /\ exists q rk wt t, u = UFire q rk wt t).
Proof.
  intros wc w u. destruct u as [q c target | q qr rk len pub exp upd given | rk len pub exp | p a | rk target | q rk wait target | d | id rq | e]; cbn [elab ustarted_by].
  - left. reflexivity.
  - left. destruct (rt_filter wc (w_rt w) given) as [t' ps]. reflexivity.
  - left. reflexivity.
  - left. reflexivity.
  - left. reflexivity.
  - destruct (fire1 wc (age (w_ks w) wait) rk (lrank wc target)) as [[k [qc |]] |]; [left; reflexivity | |];
      (right; split; [reflexivity | eauto]).
  - left. reflexivity.
  - left. reflexivity.
  - left. reflexivity.
Qed.

Fixpoint ufresh (seen : list N) (us : list uev) : Prop :=
  match us with
  | [] => True
  | u :: t => match ustarted_by u with
              | Some q => ~ In q seen /\ ufresh (q :: seen) t
              | None => ufresh seen t
              end
  end.

Lemma fresh_ids_weaken : forall es seen seen',
  (forall x, In x seen' -> In x seen) -> fresh_ids seen es -> fresh_ids seen' es.
Proof.
  intros es. induction es as [| e t IH]; intros seen seen' Hi H; [exact I |]. cbn [fresh_ids] in *.
  destruct (started_by e) as [q |].
  - destruct H as [H1 H2]. split; [intro K; apply H1; apply Hi; exact K |].
    apply (IH (q :: seen)); [| exact H2]. intros x [Hx | Hx]; [left; exact Hx | right; apply Hi; exact Hx].
  - apply (IH seen); assumption.
Qed.

Lemma elabs_fresh : forall wc us w seen, ufresh seen us -> fresh_ids seen (elabs wc w us).
Proof.
  intros wc us. induction us as [| u t IH]; intros w seen H; [exact I |].
  cbn [elabs fresh_ids ufresh] in *.
  destruct (elab_started wc w u) as [E | (E & q & rk & wt & tg & Eu)]; rewrite E.
  - destruct (ustarted_by u).
    + destruct H as [H1 H2]. split; [exact H1 | apply IH; exact H2].
    + apply IH. exact H.
  - subst u. cbn [ustarted_by] in H. destruct H as [_ H2].
    apply (fresh_ids_weaken _ (q :: seen)); [intros x Hx; right; exact Hx | apply IH; exact H2].
Qed.

Lemma elabs_started : forall wc q us w, (started q (elabs wc w us) <= ustarted q us)%nat.
Proof.
  intros wc q us. induction us as [| u t IH]; intro w; [cbn; lia |].
  cbn [elabs]. unfold started, ustarted in *. cbn [filter]. specialize (IH (fst (fst (cstep wc w u)))).
  destruct (elab_started wc w u) as [E | (E & _)]; rewrite E.
  - destruct (opt_is (ustarted_by u) q); cbn [length]; lia.
  - cbn [opt_is]. destruct (opt_is (ustarted_by u) q); cbn [length]; lia.
Qed.

(* what the composed run starts: commands, put_record_to_peers, and the refreshes that are due *)
Definition cstarted (wc : wcfg) (w : world) (q : N) (us : list uev) : nat := started q (elabs wc w us).

(* ------------------------------------------------------------------ the peers' keys *)

Record keys_ok (wc : wcfg) : Prop := mkKO {
  ko_len : forall p k, In (p, k) (wc_keys wc) -> length k = length (lkey wc);
  ko_pos : (1 <= length (lkey wc))%nat;
  ko_lab : NoDup (map fst (wc_keys wc));          (* one key per label *)
  ko_inj : NoDup (map snd (wc_keys wc));          (* distinct peers have distinct keys *)
  ko_unk : ~ In UNKNOWN (map fst (wc_keys wc))
}.

Lemma aget_cons_ne : forall A (p0 p : N) (k0 : A) t, p0 <> p -> aget p ((p0, k0) :: t) = aget p t.
Proof.
  intros. change ((p0, k0) :: t) with ([(p0, k0)] ++ t). rewrite aget_app.
  replace (aget p [(p0, k0)]) with (@None A); [reflexivity |].
  unfold aget. destruct (N.eqb_spec p0 p); [contradiction | reflexivity].
Qed.

Lemma In_aget : forall A (l : list (N * A)) p k, NoDup (map fst l) -> In (p, k) l -> aget p l = Some k.
Proof.
  intros A l. induction l as [| [p0 k0] t IH]; intros p k Hn Hin; [destruct Hin |].
  cbn [map fst] in Hn. inversion Hn as [| ? ? Hni Hn']. subst.
  destruct Hin as [E | Hin].
  - inversion E. subst. apply aget_head.
  - rewrite aget_cons_ne; [apply IH; assumption |].
    intro E. subst p0. apply Hni. change p with (fst (p, k)). apply in_map. exact Hin.
Qed.

Lemma pkey_In : forall wc p, pkey wc p <> [] -> In (p, pkey wc p) (wc_keys wc).
Proof.
  intros wc p H. unfold pkey in *. destruct (aget p (wc_keys wc)) as [k |] eqn:E; [| congruence].
  apply aget_In. exact E.
Qed.

Lemma pkey_len : forall wc p, keys_ok wc -> pkey wc p = [] \/ length (pkey wc p) = length (lkey wc).
Proof.
  intros wc p Hk. destruct (pkey wc p) eqn:E; [left; reflexivity |]. right. rewrite <- E.
  apply (ko_len wc Hk p). apply pkey_In. congruence.
Qed.

Lemma peer_of_In : forall (keys : list (N * key)) p k,
  NoDup (map snd keys) -> In (p, k) keys -> peer_of keys k = p.
Proof.
  intros keys. induction keys as [| [p0 k0] t IH]; intros p k Hn Hin; [destruct Hin |].
  cbn [peer_of]. cbn [map snd] in Hn. inversion Hn as [| ? ? Hni Hn']. subst.
  destruct (R.key_eqb k0 k) eqn:E.
  - apply RP.key_eqb_eq in E. subst k0. destruct Hin as [H | H]; [inversion H; reflexivity |].
    exfalso. apply Hni. change k with (snd (p, k)). apply in_map. exact H.
  - destruct Hin as [H | H].
    + inversion H. subst. rewrite RP.key_eqb_refl in E. discriminate.
    + apply IH; assumption.
Qed.

Lemma peer_of_known : forall (keys : list (N * key)) k p,
  peer_of keys k = p -> p <> UNKNOWN -> In (p, k) keys.
Proof.
  intros keys k p. induction keys as [| [p0 k0] t IH]; cbn [peer_of]; [intros E Hn; congruence |].
  destruct (R.key_eqb k0 k) eqn:E.
  - intros Ep _. subst p0. apply RP.key_eqb_eq in E. subst k0. left. reflexivity.
  - intros Ep Hn. right. apply IH; assumption.
Qed.

Lemma peer_of_pkey : forall wc p, keys_ok wc -> pkey wc p <> [] -> peer_of (wc_keys wc) (pkey wc p) = p.
Proof. intros wc p Hk H. apply peer_of_In; [apply (ko_inj wc Hk) | apply pkey_In; exact H]. Qed.

Lemma lkey_nonempty : forall wc, keys_ok wc -> lkey wc <> [].
Proof. intros wc Hk E. pose proof (ko_pos wc Hk) as H. rewrite E in H. cbn in H. lia. Qed.

Lemma local_known : forall wc, keys_ok wc -> g_local (wc_g wc) <> UNKNOWN.
Proof.
  intros wc Hk E. apply (ko_unk wc Hk). rewrite <- E.
  change (g_local (wc_g wc)) with (fst (g_local (wc_g wc), lkey wc)). apply in_map.
  apply pkey_In. apply lkey_nonempty. exact Hk.
Qed.

(* ------------------------------------------------------------------ the table keeps C14's invariant *)

Definition TInv (wc : wcfg) (t : table) : Prop := RP.Inv (lkey wc) (wc_K wc) t.

Lemma ilog2_nil : forall l, R.ilog2 (R.kxor l []) = None.
Proof. intros. destruct l; reflexivity. Qed.

Lemma rt_op_nokey : forall wc t o, R.op_key o = [] -> rt_op wc t o = t.
Proof.
  intros wc t o E. unfold rt_op, R.step, R.step_gen. rewrite E, ilog2_nil. destruct o as [| | k [|] c | | |]; reflexivity.
Qed.

Lemma rt_op_inv : forall wc t o p,
  keys_ok wc -> R.op_key o = pkey wc p -> TInv wc t -> TInv wc (rt_op wc t o).
Proof.
  intros wc t o p Hk E HI. destruct (pkey_len wc p Hk) as [H | H].
  - rewrite rt_op_nokey; [exact HI | congruence].
  - unfold rt_op. apply RP.step_inv; [exact HI | congruence].
Qed.

Lemma upd_inv : forall wc t i b',
  TInv wc t -> (i < length t)%nat -> RP.BInv (lkey wc) (wc_K wc) i b' -> TInv wc (R.upd_nth i b' t).
Proof.
  intros wc t i b' [HL HB] Hlt Hb'. split; [rewrite RP.upd_nth_length; exact HL |].
  intros j Hj. rewrite RP.upd_nth_length in Hj. destruct (Nat.eq_dec j i) as [-> | Hne].
  - rewrite RP.nth_upd_same by exact Hlt. exact Hb'.
  - rewrite RP.nth_upd_other by exact Hne. apply HB. exact Hj.
Qed.

Lemma entry_occ : forall K b k a y c,
  R.bucket_entry K b k = R.SOcc a y c -> b = a ++ y :: c /\ R.n_key y = k.
Proof.
  intros K b k a y c Es. unfold R.bucket_entry in Es.
  destruct (R.split_first (R.has_key k) b) as [[[a0 y0] c0] |] eqn:E1.
  - inversion Es. subst. apply RP.split_first_some in E1. destruct E1 as (Hb & Hy & _).
    split; [exact Hb |]. unfold R.has_key in Hy. apply RP.key_eqb_eq in Hy. exact Hy.
  - destruct (length b <? K)%nat; [discriminate |].
    destruct (R.split_first R.replaceable b) as [[[a0 y0] c0] |]; discriminate.
Qed.

Lemma rt_disconnect_inv : forall wc t p, keys_ok wc -> TInv wc t -> TInv wc (rt_disconnect wc t p).
Proof. intros wc t p Hk HI. unfold rt_disconnect. eapply rt_op_inv; [exact Hk | reflexivity | exact HI]. Qed.

Lemma rt_filter1_table : forall wc t p, fst (rt_filter1 wc t p) = rt_op wc t (R.OEntry (pkey wc p)).
Proof.
  intros wc t p. unfold rt_filter1, rt_op, R.step, R.step_gen. cbn [R.op_key].
  destruct (R.ilog2 (R.kxor (lkey wc) (pkey wc p))); reflexivity.
Qed.

Lemma rt_filter_inv : forall wc ps t, keys_ok wc -> TInv wc t -> TInv wc (fst (rt_filter wc t ps)).
Proof.
  intros wc ps. induction ps as [| p r IH]; intros t Hk HI; [exact HI |]. cbn [rt_filter].
  destruct (p =? g_local (wc_g wc)); [apply IH; assumption |].
  pose proof (rt_filter1_table wc t p) as E. destruct (rt_filter1 wc t p) as [t1 o]. cbn [fst] in E.
  specialize (IH t1 Hk). destruct (rt_filter wc t1 r) as [t2 l]. cbn [fst] in *. apply IH.
  rewrite E. eapply rt_op_inv; [exact Hk | reflexivity | exact HI].
Qed.

Lemma rt_learn_inv : forall wc s ps t, keys_ok wc -> TInv wc t -> TInv wc (rt_learn wc s t ps).
Proof.
  intros wc s ps. unfold rt_learn. induction ps as [| p r IH]; intros t Hk HI; [exact HI |]. cbn [fold_left].
  apply IH; [exact Hk |]. destruct (p =? g_local (wc_g wc)); [exact HI |].
  eapply rt_op_inv; [exact Hk | reflexivity | exact HI].
Qed.

Lemma side_inv : forall wc w e, keys_ok wc -> TInv wc (w_rt w) -> TInv wc (side wc w e).
Proof.
  intros wc w e Hk HI. unfold side.
  set (t0 := match disconnects (w_st w) e with Some p => rt_disconnect wc (w_rt w) p | None => w_rt w end).
  assert (H0 : TInv wc t0).
  { subst t0. destruct (disconnects (w_st w) e); [apply rt_disconnect_inv; assumption | exact HI]. }
  clearbody t0.
  destruct e; try exact H0.
  - destruct (aget p (conn (w_st w))); [exact H0 |].
    eapply rt_op_inv; [exact Hk | reflexivity | exact H0].
  - eapply rt_op_inv; [exact Hk | reflexivity | exact H0].
  - destruct r as [| | | m |]; try exact H0.
    destruct (find_fut id (futs (w_st w))) as [f |]; [| exact H0].
    destruct (res_ok (f_kind f) (RRead m)); [| exact H0].
    destruct (f_q f); [| exact H0].
    destruct (msg_peers (trunc_msg (wc_g wc) m)); [| exact H0].
    destruct (wc_auto wc); [apply rt_learn_inv; assumption | exact H0].
Qed.

Lemma elab_inv : forall wc w u, keys_ok wc -> TInv wc (w_rt w) -> TInv wc (snd (fst (elab wc w u))).
Proof.
  intros wc w u Hk HI. destruct u as [q c target | q qr rk len pub exp upd given | rk len pub exp | p a | rk target | q rk wait target | d | id rq | e]; cbn [elab]; try exact HI.
  - pose proof (rt_filter_inv wc given (w_rt w) Hk HI) as F. destruct (rt_filter wc (w_rt w) given). exact F.
  - cbn [fst snd]. eapply rt_op_inv; [exact Hk | reflexivity | exact HI].
  - destruct (fire1 wc (age (w_ks w) wait) rk (lrank wc target)) as [[k [qc |]] |]; exact HI.
  - apply side_inv; assumption.
Qed.

Lemma cstep_inv : forall wc w u, keys_ok wc -> TInv wc (w_rt w) -> TInv wc (w_rt (fst (fst (cstep wc w u)))).
Proof. intros. rewrite cstep_rt. apply elab_inv; assumption. Qed.

Lemma crun_inv : forall wc us w, keys_ok wc -> TInv wc (w_rt w) -> TInv wc (w_rt (fst (crun wc w us))).
Proof.
  intros wc us. induction us as [| u t IH]; intros w Hk HI; [exact HI |].
  rewrite crun_cons. cbn [fst]. apply IH; [exact Hk |]. apply cstep_inv; assumption.
Qed.

Lemma table_inv : forall wc m us,
  keys_ok wc -> TInv wc (w_rt (fst (crun wc (w0 wc m (length (lkey wc))) us))).
Proof. intros. apply crun_inv; [assumption |]. apply RP.empty_inv. Qed.

(* ------------------------------------------------------------------ who puts peers into the table *)

(* only add_known_peer writes a new key into a bucket; every other table operation of the event loop
   rewrites an existing node in place, or pushes the key-less placeholder of a vacant entry() *)
Definition is_add (o : R.op) : bool :=
  match o with R.OAdd _ true _ | R.OInsert _ _ _ => true | _ => false end.

Definition is_add_any (o : R.op) : bool :=
  match o with R.OAdd _ _ _ | R.OInsert _ _ _ => true | _ => false end.

Definition has_node_key (t : table) (k : key) : Prop := exists n, In n (concat t) /\ R.n_key n = k.

Lemma in_concat_upd : forall (t : table) i b' n,
  In n (concat (R.upd_nth i b' t)) -> In n b' \/ In n (concat t).
Proof.
  intros t. induction t as [| b r IH]; intros i b' n H; [destruct i; destruct H |].
  destruct i as [| j]; cbn [R.upd_nth concat] in *; apply in_app_or in H; destruct H as [H | H].
  - left. exact H.
  - right. apply in_or_app. right. exact H.
  - right. apply in_or_app. left. exact H.
  - destruct (IH j b' n H) as [H1 | H1]; [left; exact H1 | right; apply in_or_app; right; exact H1].
Qed.

Lemma in_nth_concat : forall (t : table) i n, In n (nth i t []) -> In n (concat t).
Proof.
  intros t. induction t as [| b r IH]; intros i n H; [destruct i; destruct H |].
  destruct i as [| j]; cbn [nth concat] in *; apply in_or_app; [left; exact H | right; eapply IH; exact H].
Qed.

Lemma entry_vac : forall K b k a y c,
  R.bucket_entry K b k = R.SVac a y c ->
  (a = b /\ y = R.placeholder /\ c = []) \/ b = a ++ y :: c.
Proof.
  intros K b k a y c Es. unfold R.bucket_entry in Es.
  destruct (R.split_first (R.has_key k) b) as [[[a0 y0] c0] |]; [discriminate |].
  destruct (length b <? K)%nat.
  - inversion Es. subst. left. repeat split.
  - destruct (R.split_first R.replaceable b) as [[[a0 y0] c0] |] eqn:E2; [| discriminate].
    inversion Es. subst. right. apply RP.split_first_some in E2. apply E2.
Qed.

Lemma apply_slot_keys : forall K b o n,
  In n (R.apply_slot o b (R.bucket_entry K b (R.op_key o))) -> R.n_key n <> [] ->
  (exists n', In n' b /\ R.n_key n' = R.n_key n) \/ (is_add_any o = true /\ R.n_key n = R.op_key o).
Proof.
  intros K b o n Hin Hr.
  destruct (R.bucket_entry K b (R.op_key o)) as [| | a y c | a y c] eqn:Es.
  - left. exists n. split; [| reflexivity]. destruct o as [| | ? [|] ? | | |]; exact Hin.
  - left. exists n. split; [| reflexivity]. destruct o as [| | ? [|] ? | | |]; exact Hin.
  - (* occupied: the node keeps its key *)
    pose proof (entry_occ _ _ _ _ _ _ Es) as [Hb Hy].
    assert (G : forall y', R.n_key y' = R.n_key y -> In n (a ++ y' :: c) ->
                exists n', In n' b /\ R.n_key n' = R.n_key n).
    { intros y' Ey H. rewrite Hb. apply in_app_or in H. destruct H as [H | [H | H]].
      - exists n. split; [apply in_or_app; left; exact H | reflexivity].
      - subst n. exists y. split; [apply in_or_app; right; left; reflexivity | symmetry; exact Ey].
      - exists n. split; [apply in_or_app; right; right; exact H | reflexivity]. }
    left. unfold R.apply_slot, R.apply_slot_gen in Hin.
    destruct o as [k0 | k0 a0 c0 | k0 [|] c0 | k0 d0 | k0 ne0 | k0]; cbn [R.slot_bucket] in Hin;
      (eapply G; [| exact Hin]; reflexivity).
  - (* vacant *)
    assert (G : In n (a ++ y :: c) -> exists n', In n' b /\ R.n_key n' = R.n_key n).
    { intro H. destruct (entry_vac _ _ _ _ _ _ Es) as [(-> & -> & ->) | Hb].
      - apply in_app_or in H. destruct H as [H | [H | []]]; [exists n; split; [exact H | reflexivity] |].
        subst n. cbn in Hr. congruence.
      - exists n. split; [rewrite Hb; exact H | reflexivity]. }
    assert (G2 : forall y', R.n_key y' = R.op_key o -> In n (a ++ y' :: c) ->
                 (exists n', In n' b /\ R.n_key n' = R.n_key n) \/ R.n_key n = R.op_key o).
    { intros y' Ey H. apply in_app_or in H. destruct H as [H | [H | H]].
      - left. apply G. apply in_or_app. left. exact H.
      - right. subst n. exact Ey.
      - left. apply G. apply in_or_app. right. right. exact H. }
    unfold R.apply_slot, R.apply_slot_gen in Hin.
    destruct o as [k0 | k0 a0 c0 | k0 a0 c0 | k0 d0 | k0 ne0 | k0]; cbn [R.slot_bucket R.op_key is_add_any] in *;
      try (left; apply G; exact Hin).
    + destruct (G2 (R.mkNode k0 a0 c0) eq_refl Hin) as [H | H]; [left; exact H | right; split; [reflexivity | exact H]].
    + destruct (G2 (R.mkNode k0 true c0) eq_refl Hin) as [H | H]; [left; exact H | right; split; [reflexivity | exact H]].
Qed.

Lemma rt_op_keys : forall wc t o n,
  In n (concat (rt_op wc t o)) -> R.n_key n <> [] ->
  has_node_key t (R.n_key n) \/ (is_add o = true /\ R.n_key n = R.op_key o).
Proof.
  intros wc t o n Hin Hr.
  assert (Same : In n (concat t) -> has_node_key t (R.n_key n)) by (intro H; exists n; split; [exact H | reflexivity]).
  destruct (is_add o) eqn:Ea.
  2: assert (Hno : is_add_any o = false \/ rt_op wc t o = t).
  2: { destruct o as [| | k0 [|] c0 | | |]; try (left; reflexivity); [discriminate Ea | discriminate Ea | right; reflexivity]. }
  2: destruct Hno as [Hno | Hno]; [| rewrite Hno in Hin; left; apply Same; exact Hin].
  all: unfold rt_op in Hin;
    destruct (RP.step_cases (lkey wc) (wc_K wc) t o) as [E | (i & _ & E)]; rewrite E in Hin;
    [left; apply Same; exact Hin |];
    apply in_concat_upd in Hin; destruct Hin as [Hin | Hin]; [| left; apply Same; exact Hin];
    destruct (apply_slot_keys _ _ _ _ Hin Hr) as [(n' & H1 & H2) | [H3 H4]];
    [left; exists n'; split; [eapply in_nth_concat; exact H1 | exact H2] |].
  - right. split; [reflexivity | exact H4].
  - congruence.
Qed.

Lemma rt_op_keys_noadd : forall wc t o k,
  is_add o = false -> k <> [] -> has_node_key (rt_op wc t o) k -> has_node_key t k.
Proof.
  intros wc t o k Ha Hk (n & Hin & En). subst k.
  destruct (rt_op_keys wc t o n Hin Hk) as [H | [H _]]; [exact H | congruence].
Qed.

Lemma rt_filter_keys : forall wc ps t k,
  k <> [] -> has_node_key (fst (rt_filter wc t ps)) k -> has_node_key t k.
Proof.
  intros wc ps. induction ps as [| p r IH]; intros t k Hk H; [exact H |]. cbn [rt_filter] in H.
  destruct (p =? g_local (wc_g wc)); [apply IH; assumption |].
  pose proof (rt_filter1_table wc t p) as E. destruct (rt_filter1 wc t p) as [t1 o]. cbn [fst] in E.
  specialize (IH t1 k Hk). destruct (rt_filter wc t1 r) as [t2 l]. cbn [fst] in *.
  specialize (IH H). rewrite E in IH. eapply rt_op_keys_noadd; [| exact Hk | exact IH]. reflexivity.
Qed.

(* RoutingTableUpdateMode::Manual: an event of the loop never brings a new peer into the table *)
Lemma side_keys_manual : forall wc w e k,
  wc_auto wc = false -> k <> [] -> has_node_key (side wc w e) k -> has_node_key (w_rt w) k.
Proof.
  intros wc w e k Hm Hk. unfold side.
  set (t0 := match disconnects (w_st w) e with Some p => rt_disconnect wc (w_rt w) p | None => w_rt w end).
  assert (H0 : has_node_key t0 k -> has_node_key (w_rt w) k).
  { subst t0. destruct (disconnects (w_st w) e); [| tauto]. unfold rt_disconnect.
    apply rt_op_keys_noadd; [reflexivity | exact Hk]. }
  clearbody t0.
  destruct e; try exact H0.
  - destruct (aget p (conn (w_st w))); [exact H0 |].
    intro H. apply H0. eapply rt_op_keys_noadd; [| exact Hk | exact H]. reflexivity.
  - intro H. apply H0. eapply rt_op_keys_noadd; [| exact Hk | exact H]. reflexivity.
  - destruct r as [| | | m |]; try exact H0.
    destruct (find_fut id (futs (w_st w))) as [f |]; [| exact H0].
    destruct (res_ok (f_kind f) (RRead m)); [| exact H0].
    destruct (f_q f); [| exact H0].
    rewrite Hm. destruct (msg_peers (trunc_msg (wc_g wc) m)); exact H0.
Qed.

Lemma cstep_keys_manual : forall wc w u k,
  wc_auto wc = false -> k <> [] -> has_node_key (w_rt (fst (fst (cstep wc w u)))) k ->
  has_node_key (w_rt w) k \/ exists p, u = UAddKnownPeer p true /\ k = pkey wc p.
Proof.
  intros wc w u k Hm Hk. rewrite cstep_rt.
  destruct u as [q c target | q qr rk len pub exp upd given | rk len pub exp | p a | rk target | q rk wait target | d | id rq | e]; cbn [elab]; try (left; assumption).
  - intro H. left. pose proof (rt_filter_keys wc given (w_rt w) k Hk) as F.
    destruct (rt_filter wc (w_rt w) given). apply F. exact H.
  - cbn [fst snd]. intros (n & Hin & En). subst k.
    destruct (rt_op_keys wc (w_rt w) _ n Hin Hk) as [H | [Ha Ek]]; [left; exact H |].
    right. exists p. destruct a; [split; [reflexivity | exact Ek] | discriminate Ha].
  - left. destruct (fire1 wc (age (w_ks w) wait) rk (lrank wc target)) as [[k0 [qc |]] |]; assumption.
  - intro H. left. apply (side_keys_manual wc w e k Hm Hk). exact H.
Qed.

Lemma crun_keys_manual : forall wc us w k,
  wc_auto wc = false -> k <> [] -> has_node_key (w_rt (fst (crun wc w us))) k ->
  has_node_key (w_rt w) k \/ exists p, In (UAddKnownPeer p true) us /\ k = pkey wc p.
Proof.
  intros wc us. induction us as [| u t IH]; intros w k Hm Hk H; [left; exact H |].
  rewrite crun_cons in H. cbn [fst] in H.
  destruct (IH _ k Hm Hk H) as [H1 | (p & H1 & H2)].
  - destruct (cstep_keys_manual wc w u k Hm Hk H1) as [H2 | (p & -> & H2)]; [left; exact H2 |].
    right. exists p. split; [left; reflexivity | exact H2].
  - right. exists p. split; [right; exact H1 | exact H2].
Qed.

Lemma concat_repeat_nil : forall A n, concat (repeat (@nil A) n) = [].
Proof. intros A n. induction n as [| n IH]; [reflexivity | exact IH]. Qed.

Lemma manual_table : forall wc m L us n,
  wc_auto wc = false ->
  In n (concat (w_rt (fst (crun wc (w0 wc m L) us)))) -> R.n_key n <> [] ->
  exists p, In (UAddKnownPeer p true) us /\ R.n_key n = pkey wc p.
Proof.
  intros wc m L us n Hm Hin Hr.
  destruct (crun_keys_manual wc us (w0 wc m L) (R.n_key n) Hm Hr) as [(n' & H & _) | H].
  - exists n. split; [exact Hin | reflexivity].
  - exfalso. cbn [w0 w_rt] in H. unfold R.empty_table in H. rewrite concat_repeat_nil in H. destruct H.
  - exact H.
Qed.

(* ------------------------------------------------------------------ the seeds of a lookup *)

Lemma elab_cmd : forall wc w q c target,
  exists cmd, fst (fst (elab wc w (UCmd q c target))) =
              ECmd q cmd (dists_of wc target) (seeds_of wc (w_rt w) target).
Proof.
  intros wc w q c target. cbn [elab fst]. eauto.
Qed.

Lemma firstn_In : forall A n (l : list A) x, In x (firstn n l) -> In x l.
Proof.
  intros A n. induction n as [| n IH]; intros l x H; [destruct H |].
  destruct l as [| h t]; [destruct H |]. destruct H as [H | H]; [left; exact H | right; apply IH; exact H].
Qed.

(* what closest returns are addressed nodes of the table, hence real peers, hence not the local one *)
Lemma closest_not_local : forall wc t target k n,
  TInv wc t -> In n (R.closest (lkey wc) t target k) -> R.n_key n <> lkey wc.
Proof.
  intros wc t target k n HI Hin. unfold R.closest in Hin. apply firstn_In in Hin.
  unfold R.all_closest in Hin. apply in_flat_map in Hin. destruct Hin as (i & _ & Hin).
  unfold R.bucket_closest in Hin.
  assert (Hin' : In n (filter R.n_addr (nth i t []))).
  { eapply Permutation_in; [apply RP.sort_perm | exact Hin]. }
  apply filter_In in Hin'. destruct Hin' as [Hb Ha].
  destruct (RP.inv_nth _ _ _ i HI) as (_ & Hok & _). rewrite Forall_forall in Hok.
  destruct (Hok n Hb) as [[_ Hf] | [_ Hidx]]; [congruence |].
  intro E. rewrite E, RP.kxor_self_ilog2 in Hidx. discriminate.
Qed.

Lemma seeds_not_local : forall wc t target,
  keys_ok wc -> TInv wc t -> ~ In (g_local (wc_g wc)) (seeds_of wc t target).
Proof.
  intros wc t target Hk HI Hin. unfold seeds_of in Hin. apply in_map_iff in Hin.
  destruct Hin as (n & Hn & Hc).
  apply peer_of_known in Hn; [| apply local_known; exact Hk].
  apply (In_aget _ _ _ _ (ko_lab wc Hk)) in Hn.
  apply (closest_not_local wc t target _ n HI Hc). unfold lkey, pkey. rewrite Hn. reflexivity.
Qed.

Lemma seeds_facts : forall wc t target,
  keys_ok wc -> TInv wc t -> length target = length (lkey wc) -> RP.outside_class (lkey wc) t target ->
  let k := N.to_nat (g_k (wc_g wc)) in
  let nodes := R.closest (lkey wc) t target k in
  let cands := filter R.n_addr (concat t) in
  seeds_of wc t target = map (fun n => peer_of (wc_keys wc) (R.n_key n)) nodes /\
  StronglySorted (RP.dlt target) nodes /\ NoDup (map R.n_key nodes) /\
  (forall n, In n nodes -> In n cands) /\
  length nodes = Nat.min k (length cands) /\
  (forall a b, In a nodes -> In b cands -> ~ In b nodes -> RP.dlt target a b) /\
  ~ In (g_local (wc_g wc)) (seeds_of wc t target).
Proof.
  intros wc t target Hk HI Hl Hc k nodes cands.
  destruct (RP.closest_facts (lkey wc) (wc_K wc) t target k (ko_pos wc Hk) HI Hl Hc) as (F1 & F2 & F3 & F4 & F5).
  split; [reflexivity |]. split; [exact F1 |]. split; [exact F2 |]. split; [exact F3 |].
  split; [exact F4 |]. split; [exact F5 |]. apply seeds_not_local; assumption.
Qed.

(* ------------------------------------------------------------------ put_record_to_peers names its targets *)

Lemma rt_filter1_named : forall wc t p x, keys_ok wc -> snd (rt_filter1 wc t p) = Some x -> x = p.
Proof.
  intros wc t p x Hk. unfold rt_filter1.
  destruct (R.ilog2 (R.kxor (lkey wc) (pkey wc p))) as [i |] eqn:Ei; cbn [snd]; [| discriminate].
  destruct (R.bucket_entry (wc_K wc) (nth i t []) (pkey wc p)) as [| | a y c | a y c] eqn:Es; try discriminate.
  intros [= <-]. apply entry_occ in Es. destruct Es as [_ Hy]. rewrite Hy. apply peer_of_pkey; [exact Hk |].
  intro E. rewrite E, ilog2_nil in Ei. discriminate.
Qed.

Lemma rt_filter_named : forall wc ps t x, keys_ok wc ->
  In x (snd (rt_filter wc t ps)) -> In x ps /\ x <> g_local (wc_g wc).
Proof.
  intros wc ps. induction ps as [| p r IH]; intros t x Hk H; [destruct H |]. cbn [rt_filter] in H.
  destruct (p =? g_local (wc_g wc)) eqn:El.
  - destruct (IH t x Hk H) as [H1 H2]. split; [right; exact H1 | exact H2].
  - pose proof (rt_filter1_named wc t p) as F. destruct (rt_filter1 wc t p) as [t1 o]. cbn [snd] in F.
    specialize (IH t1 x Hk). destruct (rt_filter wc t1 r) as [t2 l]. cbn [snd] in *.
    destruct o as [y |].
    + destruct H as [H | H].
      * subst y. rewrite (F x Hk eq_refl). split; [left; reflexivity |]. apply N.eqb_neq. exact El.
      * destruct (IH H) as [H1 H2]. split; [right; exact H1 | exact H2].
    + destruct (IH H) as [H1 H2]. split; [right; exact H1 | exact H2].
Qed.

Lemma rt_filter_nodup : forall wc ps t, keys_ok wc -> NoDup ps -> NoDup (snd (rt_filter wc t ps)).
Proof.
  intros wc ps. induction ps as [| p r IH]; intros t Hk Hn; [constructor |]. cbn [rt_filter].
  inversion Hn as [| ? ? Hni Hn']. subst.
  destruct (p =? g_local (wc_g wc)); [apply IH; assumption |].
  pose proof (rt_filter1_named wc t p) as F. destruct (rt_filter1 wc t p) as [t1 o]. cbn [snd] in F.
  pose proof (IH t1 Hk Hn') as N1. pose proof (rt_filter_named wc r t1) as N2.
  destruct (rt_filter wc t1 r) as [t2 l]. cbn [snd] in *.
  destruct o as [y |]; [| exact N1]. constructor; [| exact N1].
  rewrite (F y Hk eq_refl). intro H. apply Hni. apply (N2 p Hk H).
Qed.

Lemma elab_put_to_peers : forall wc w q qr rk len pub exp upd given,
  exists ps, fst (fst (elab wc w (UPutToPeers q qr rk len pub exp upd given))) = EPutToPeers q qr ps /\
             ps = snd (rt_filter wc (w_rt w) given).
Proof.
  intros. cbn [elab]. destruct (rt_filter wc (w_rt w) given) as [t' ps]. cbn [fst snd]. eauto.
Qed.

Lemma seeds_from_table : forall wc m us q c target,
  keys_ok wc ->
  let w := fst (crun wc (w0 wc m (length (lkey wc))) us) in
  let t := w_rt w in
  let k := N.to_nat (g_k (wc_g wc)) in
  let nodes := R.closest (lkey wc) t target k in
  let cands := filter R.n_addr (concat t) in
  let seeds := map (fun n => peer_of (wc_keys wc) (R.n_key n)) nodes in
  (exists cmd, fst (fst (elab wc w (UCmd q c target))) = ECmd q cmd (dists_of wc target) seeds) /\
  ~ In (g_local (wc_g wc)) seeds /\
  (length target = length (lkey wc) -> RP.outside_class (lkey wc) t target ->
   StronglySorted (RP.dlt target) nodes /\ NoDup (map R.n_key nodes) /\
   (forall n, In n nodes -> In n cands) /\
   length nodes = Nat.min k (length cands) /\
   (forall a b, In a nodes -> In b cands -> ~ In b nodes -> RP.dlt target a b)).
Proof.
  intros wc m us q c target Hk w t k nodes cands seeds.
  pose proof (table_inv wc m us Hk) as HI. fold w in HI.
  split; [apply elab_cmd |]. split; [apply (seeds_not_local wc t target Hk HI) |].
  intros Hl Hc. destruct (seeds_facts wc t target Hk HI Hl Hc) as (_ & F1 & F2 & F3 & F4 & F5 & _).
  repeat split; assumption.
Qed.

Lemma put_to_peers_named : forall wc w q qr rk len pub exp upd given,
  keys_ok wc ->
  exists ps, fst (fst (elab wc w (UPutToPeers q qr rk len pub exp upd given))) = EPutToPeers q qr ps /\
             (forall x, In x ps -> In x given /\ x <> g_local (wc_g wc)) /\
             (NoDup given -> NoDup ps).
Proof.
  intros wc w q qr rk len pub exp upd given Hk. destruct (elab_put_to_peers wc w q qr rk len pub exp upd given) as (ps & E & Eps).
  exists ps. split; [exact E |]. subst ps. split.
  - intros x Hx. apply (rt_filter_named wc given (w_rt w) x Hk Hx).
  - apply rt_filter_nodup. exact Hk.
Qed.

(* ------------------------------------------------------------------ well-formed commands come for free *)

Definition ucmd_ok (g : gcfg) (u : uev) : Prop :=
  match u with
  | UPutToPeers _ _ _ _ _ _ _ given => NoDup given
  | UEv e => cmd_ok g e
  | _ => True
  end.

Lemma elab_cmd_ok : forall wc w u,
  keys_ok wc -> TInv wc (w_rt w) -> ucmd_ok (wc_g wc) u -> cmd_ok (wc_g wc) (fst (fst (elab wc w u))).
Proof.
  intros wc w u Hk HI Hu. destruct u as [q c target | q qr rk len pub exp upd given | rk len pub exp | p a | rk target | q rk wait target | d | id rq | e].
  - destruct (elab_cmd wc w q c target) as [cmd E]. rewrite E. cbn [cmd_ok].
    apply seeds_not_local; assumption.
  - destruct (elab_put_to_peers wc w q qr rk len pub exp upd given) as (ps & E & Eps). rewrite E. cbn [cmd_ok]. subst ps.
    apply rt_filter_nodup; assumption.
  - exact I.
  - exact I.
  - exact I.
  - cbn [elab]. destruct (fire1 wc (age (w_ks w) wait) rk (lrank wc target)) as [[k0 [qc |]] |];
      cbn [fst cmd_ok]; [apply seeds_not_local; assumption | exact I | exact I].
  - exact I.
  - exact I.
  - exact Hu.
Qed.

Lemma elabs_cmds_ok : forall wc us w,
  keys_ok wc -> TInv wc (w_rt w) -> Forall (ucmd_ok (wc_g wc)) us -> cmds_ok (wc_g wc) (elabs wc w us).
Proof.
  intros wc us. induction us as [| u t IH]; intros w Hk HI HF; [exact I |].
  inversion HF as [| ? ? Hu Ht]. subst. cbn [elabs cmds_ok]. split.
  - apply elab_cmd_ok; assumption.
  - apply IH; [exact Hk | apply cstep_inv; assumption | exact Ht].
Qed.

(* ------------------------------------------------------------------ the store *)

(* The store of the composed world is the C17 model, driven by C17's model of the loop (`kstep`) for every
   event that has a counterpart there; the two additions of this file (explicit time passing, one refresh
   future at a time) apply C17's operations.  Hence the store maps of every reachable world are reached by
   Model.v operations, and C17's store invariant holds in the composition. *)
Lemma w_store_ks : forall w, w_store w = KP.kstore (w_ks w).
Proof. reflexivity. Qed.

Lemma cstep_store : forall wc w u, w_store (fst (fst (cstep wc w u))) = KP.kstore (fst (kside wc w u)).
Proof. intros. rewrite w_store_ks, cstep_ks, elab_ks. reflexivity. Qed.

Lemma fire1_reach : forall wc ks rk dist ks' o,
  fire1 wc ks rk dist = Some (ks', o) ->
  KP.Reach (wc_scfg wc) (KP.kstore ks) (KP.kstore ks') /\ K.ks_now ks' = K.ks_now ks /\ K.ks_dead ks' = false.
Proof.
  intros wc ks rk dist ks' o. unfold fire1. destruct (K.ks_dead ks) eqn:Ed; [discriminate |].
  destruct (take_due (K.ks_now ks) rk (T.ts_timers (K.ks_t ks))) as [rest |]; [| discriminate].
  set (ks1 := K.with_ts ks _).
  destruct (T.find_q rk (T.ts_quorum (K.ks_t ks))) as [qc |]; intro H; injection H as <- <-.
  - pose proof (KP.do_top_reach (kc_of wc) ks1 (T.TPutLocal rk dist qc)) as R.
    pose proof (KP.do_top_now (kc_of wc) ks1 (T.TPutLocal rk dist qc)) as [N1 N2].
    split; [exact R |]. split; [exact N1 | rewrite <- Ed; exact N2].
  - split; [apply KP.reach_refl |]. split; [reflexivity | exact Ed].
Qed.

Lemma kside_reach : forall wc w u,
  KP.Reach (wc_scfg wc) (w_store w) (KP.kstore (fst (kside wc w u))).
Proof.
  intros wc w u. unfold kside. destruct (kev_of wc w u) as [ke |].
  - apply (KP.kstep_reach (kc_of wc)).
  - destruct u; try apply KP.reach_refl.
    destruct (fire1 wc (age (w_ks w) wait) rk (lrank wc target)) as [[ks' o] |] eqn:E; [| apply KP.reach_refl].
    destruct (fire1_reach _ _ _ _ _ _ E) as [R _]. exact R.
Qed.

Lemma cstep_store_inv : forall wc w u,
  1 <= S.max_per_key (wc_scfg wc) -> SP.Inv (wc_scfg wc) (w_store w) ->
  SP.Inv (wc_scfg wc) (w_store (fst (fst (cstep wc w u)))).
Proof.
  intros wc w u Hc HI. rewrite cstep_store.
  eapply KP.reach_inv; [exact Hc | apply kside_reach | exact HI].
Qed.

Lemma store_inv : forall wc m L us,
  1 <= S.max_per_key (wc_scfg wc) -> SP.Inv (wc_scfg wc) (w_store (fst (crun wc (w0 wc m L) us))).
Proof.
  intros wc m L us Hc.
  assert (G : forall us w, SP.Inv (wc_scfg wc) (w_store w) -> SP.Inv (wc_scfg wc) (w_store (fst (crun wc w us)))).
  { clear us. induction us as [| u t IH]; intros w HI; [exact HI |].
    rewrite crun_cons. cbn [fst]. apply IH. apply cstep_store_inv; assumption. }
  apply G. apply SP.inv_empty. exact Hc.
Qed.

(* the clock never goes back *)
Lemma kstep_clock : forall c st e, K.ks_now st <= K.ks_now (fst (K.kstep c st e)).
Proof.
  intros c st e. unfold K.kstep. destruct (K.ks_dead st); [cbn; lia |].
  assert (D : forall o, K.ks_now (fst (K.do_top c st o)) = K.ks_now st) by (intro o; apply KP.do_top_now).
  assert (Sn : forall x, K.ks_now (K.settle c x) = K.ks_now x) by reflexivity.
  assert (R : forall order x, K.ks_now (K.refresh_all c x order) = K.ks_now x).
  { induction order as [| [k dd] t IH]; intro x; cbn [K.refresh_all]; [reflexivity |].
    destruct (T.find_q k (T.ts_quorum (K.ks_t x))); [| apply IH]. rewrite IH. apply KP.do_top_now. }
  destruct e.
  - destruct (pub =? K.PUB_INVALID); [cbn [fst]; rewrite Sn; lia |].
    destruct (K.k_auto c); cbn [fst]; rewrite Sn, ?D; lia.
  - destruct (K.decoded_provs (K.k_repl c) provs) as [| [[p d] na] [| x l]]; try (cbn [fst]; rewrite Sn; lia).
    destruct (p =? from); cbn [fst]; rewrite Sn, ?D; lia.
  - specialize (D (T.TOp (S.OGet key))). destruct (K.do_top c st (T.TOp (S.OGet key))). cbn [fst] in *. rewrite Sn. lia.
  - specialize (D (T.TOp (S.OGetProviders key))). destruct (K.do_top c st (T.TOp (S.OGetProviders key))). cbn [fst] in *. rewrite Sn. lia.
  - cbn [fst]. rewrite Sn, D. lia.
  - destruct update_local; cbn [fst]; rewrite Sn, ?D; lia.
  - cbn [fst]. rewrite Sn, D. lia.
  - cbn [fst]. rewrite Sn, D. lia.
  - specialize (D (T.TOp (S.ORemoveLocal key dist))). destruct (K.do_top c st (T.TOp (S.ORemoveLocal key dist))) as [st1 r].
    cbn [fst] in D. destruct r as [o | l | b]; cbn [fst]; try (rewrite Sn; lia).
    destruct o as [| o | l | b]; cbn [fst]; try (rewrite Sn; lia). destruct b; cbn [fst K.ks_now]; rewrite ?Sn; lia.
  - specialize (D (T.TOp (S.OGet key))). destruct (K.do_top c st (T.TOp (S.OGet key))). cbn [fst] in *. rewrite Sn. lia.
  - cbn [fst]. rewrite Sn, D. lia.
  - set (st1 := K.mkKS (K.ks_t st) (K.ks_now st + d) false).
    assert (D1 : K.ks_now (fst (K.do_top c st1 T.TPoll)) = K.ks_now st1) by apply KP.do_top_now.
    destruct (K.do_top c st1 T.TPoll) as [st2 r]. cbn [fst] in D1.
    destruct r as [o | l | b]; cbn [fst]; try (rewrite D1; cbn; lia).
    destruct (K.same_keys _ _); cbn [fst]; rewrite ?Sn, ?R, D1; cbn; lia.
Qed.

Lemma kside_clock : forall wc w u, w_clock w <= K.ks_now (fst (kside wc w u)).
Proof.
  intros wc w u. unfold kside, w_clock. destruct (kev_of wc w u) as [ke |]; [apply kstep_clock |].
  destruct u; cbn [fst]; try lia.
  - destruct (fire1 wc (age (w_ks w) wait) rk (lrank wc target)) as [[ks' o] |] eqn:E; cbn [fst]; [| lia].
    destruct (fire1_reach _ _ _ _ _ _ E) as (_ & N1 & _). rewrite N1. cbn. lia.
  - cbn. lia.
Qed.

Lemma cstep_clock : forall wc w u, w_clock w <= w_clock (fst (fst (cstep wc w u))).
Proof. intros. unfold w_clock at 2. rewrite cstep_ks, elab_ks. apply kside_clock. Qed.

Lemma crun_clock : forall wc us w, w_clock w <= w_clock (fst (crun wc w us)).
Proof.
  intros wc us. induction us as [| u t IH]; intro w; [cbn; lia |].
  rewrite crun_cons. cbn [fst]. pose proof (cstep_clock wc w u). specialize (IH (fst (fst (cstep wc w u)))). lia.
Qed.

(* ---- GetRecord and the local store ---- *)
Definition needed_of (g : gcfg) (qr : quorum) : N := match qr with QOne => 1 | QN n => n | QAll => g_k g end.

(* a record is live: stored under its key and not expired at the clock reading *)
Definition live_rec (s : S.store) (now rk : N) : Prop :=
  exists r, S.find_rec rk (S.recs s) = Some r /\ S.rec_expired r now = false.

Lemma get_hit : forall c st key, K.ks_dead st = false ->
  (is_hit (snd (K.kstep c st (K.KCmdGetRecord key))) = true <-> live_rec (KP.kstore st) (K.ks_now st) key) /\
  (forall from, is_hit (snd (K.kstep c st (K.KGetValue from key))) = true <-> live_rec (KP.kstore st) (K.ks_now st) key).
Proof.
  intros c st key Hd.
  assert (G : is_hit (snd (let '(st1, r) := K.do_top c st (T.TOp (S.OGet key)) in
                           (K.settle c st1,
                            match r with
                            | T.TOut (S.RRec (Some r0)) => K.KRec (Some (r0, K.remaining (K.ks_now st) r0))
                            | _ => K.KRec None
                            end))) = true <-> live_rec (KP.kstore st) (K.ks_now st) key).
  { rewrite KP.do_top_get. cbn [snd]. unfold live_rec.
    destruct (snd (S.get (KP.kstore st) key (K.ks_now st))) as [r |] eqn:Eg; cbn [is_hit].
    - split; [intros _ | reflexivity]. apply TP.get_complete in Eg. destruct Eg as [E1 E2].
      exists r. split; [exact E1 |]. unfold S.rec_expired. destruct (S.r_exp r) as [t |]; [| reflexivity].
      specialize (E2 t eq_refl). apply N.leb_gt. exact E2.
    - split; [discriminate |]. intros (r & E1 & E2). exfalso.
      assert (Some r = None); [| discriminate]. rewrite <- Eg. symmetry. apply TP.get_complete. split; [exact E1 |].
      intros t Ht. unfold S.rec_expired in E2. rewrite Ht in E2. apply N.leb_gt in E2. exact E2. }
  split; [| intro from]; unfold K.kstep; rewrite Hd; exact G.
Qed.

Lemma get_record_step : forall wc w q qr rk target,
  let g := wc_g wc in
  let ans := K.kstep (kc_of wc) (w_ks w) (K.KCmdGetRecord rk) in
  let hit := is_hit (snd ans) in
  let lookup := start_lookup g (w_st w) q LRec qr
                  (lcfg g V.C15.Model.KRecord (needed_of g qr) (if hit then 1 else 0) [] (dists_of wc target))
                  (seeds_of wc (w_rt w) target) in
  fst (cstep wc w (UCmd q (UCGet qr rk) target)) =
  match qr, hit with
  | QOne, true => (mkW (w_st w) (w_rt w) (fst ans), [OPartial q (g_local g) LOCAL_REC; OGetRecSuccess q])
  | _, _ => (mkW lookup (w_rt w) (fst ans), if hit then [OPartial q (g_local g) LOCAL_REC] else [])
  end.
Proof.
  intros wc w q qr rk target g ans hit lookup. unfold cstep. cbn [elab kside kev_of].
  fold ans. fold hit. cbn [step on_cmd]. subst lookup. fold g.
  destruct qr as [| n |]; destruct hit; reflexivity.
Qed.

(* ---- a stored record is found until it expires ---- *)
(* events that may write a record under key rk *)
Definition uwrites (u : uev) (rk : N) : bool :=
  match u with
  | UCmd _ (UCPut _ k _ _) _ => k =? rk
  | UPutToPeers _ _ k _ _ _ upd _ => upd && (k =? rk)
  | UStoreRecord k _ _ _ => k =? rk
  | UInReq _ (IPutValue k _ _ _) => k =? rk
  | _ => false
  end.

Lemma put_local_recs : forall c s k dist now, S.recs (fst (S.put_local_provider c s k dist now)) = S.recs s.
Proof.
  intros. unfold S.put_local_provider.
  pose proof (KP.put_provider_recs c s k S.LOCAL_ID dist 0 now) as H.
  destruct (S.put_provider c s k S.LOCAL_ID dist 0 now) as [s1 ok]. cbn [fst] in H. destruct ok; cbn [fst S.recs]; exact H.
Qed.

Lemma remove_local_recs : forall s k dist, S.recs (fst (S.remove_local_provider s k dist)) = S.recs s.
Proof.
  intros. unfold S.remove_local_provider. destruct (negb _); [reflexivity |].
  destruct (S.find_pk k (S.pkeys s)); [| reflexivity]. destruct (S.search dist l); [| reflexivity].
  destruct (S.remove_nth i l); reflexivity.
Qed.

Lemma get_keeps : forall s k now rk r,
  S.find_rec rk (S.recs s) = Some r -> S.rec_expired r now = false ->
  S.find_rec rk (S.recs (fst (S.get s k now))) = Some r.
Proof.
  intros s k now rk r Hf He. destruct (SP.get_pure s k now) as (_ & _ & H). rewrite H, Hf, He.
  rewrite andb_false_r. reflexivity.
Qed.

Lemma put_keeps_other : forall c s x rk r, S.r_key x <> rk ->
  S.find_rec rk (S.recs s) = Some r -> S.find_rec rk (S.recs (S.put c s x)) = Some r.
Proof. intros c s x rk r Hn Hf. destruct (SP.put_other c s x rk) as [H _]; [congruence |]. rewrite H. exact Hf. Qed.

Lemma do_top_put_local_recs : forall c st k dist q,
  S.recs (KP.kstore (fst (K.do_top c st (T.TPutLocal k dist q)))) = S.recs (KP.kstore st).
Proof.
  intros. unfold K.do_top, KP.kstore. cbn [T.tstep].
  pose proof (TP.put_local_q_store (K.k_scfg c) (K.ks_t st) k dist q (K.ks_now st)) as [H _].
  destruct (T.put_local_q (K.k_scfg c) (K.ks_t st) k dist q (K.ks_now st)) as [ts' b]. cbn [fst K.with_ts K.ks_t] in *.
  rewrite H. apply put_local_recs.
Qed.

Definition kwrites (e : K.kev) (rk : N) : bool :=
  match e with
  | K.KPutValue _ k _ _ _ _ | K.KCmdPutRecord k _ _ _ | K.KCmdStoreRecord k _ _ _ _ => k =? rk
  | K.KCmdPutToPeers k _ _ _ _ upd => upd && (k =? rk)
  | K.KAge _ _ => true
  | _ => false
  end.

Lemma kstep_keeps : forall c st e rk r, kwrites e rk = false ->
  S.find_rec rk (S.recs (KP.kstore st)) = Some r -> S.rec_expired r (K.ks_now st) = false ->
  S.find_rec rk (S.recs (KP.kstore (fst (K.kstep c st e)))) = Some r.
Proof.
  intros c st e rk r Hw Hf He. unfold K.kstep. destruct (K.ks_dead st); [exact Hf |].
  assert (P : forall x, S.r_key x <> rk ->
              S.find_rec rk (S.recs (KP.kstore (K.settle c (fst (K.do_top c st (T.TOp (S.OPut x))))))) = Some r).
  { intros x Hx. rewrite KP.settle_store, KP.do_top_store. cbn [S.step fst]. apply put_keeps_other; assumption. }
  assert (G : forall k, S.find_rec rk (S.recs (KP.kstore (fst (K.do_top c st (T.TOp (S.OGet k)))))) = Some r).
  { intro k. rewrite KP.do_top_store. cbn [S.step]. destruct (S.get (KP.kstore st) k (K.ks_now st)) as [s' o] eqn:Eg.
    cbn [fst]. change s' with (fst (s', o)). rewrite <- Eg. apply get_keeps; assumption. }
  assert (Q : forall x, S.find_rec rk (S.recs (KP.kstore (K.settle c x))) = S.find_rec rk (S.recs (KP.kstore x)))
    by (intro x; rewrite KP.settle_store; reflexivity).
  destruct e; cbn [kwrites] in Hw.
  - destruct (pub =? K.PUB_INVALID); [cbn [fst]; rewrite Q; exact Hf |].
    destruct (K.k_auto c); cbn [fst]; [| rewrite Q; exact Hf].
    apply P. cbn [K.rec_of S.r_key]. apply N.eqb_neq. exact Hw.
  - destruct (K.decoded_provs (K.k_repl c) provs) as [| [[p d] na] [| x l]]; try (cbn [fst]; rewrite Q; exact Hf).
    destruct (p =? from); cbn [fst]; rewrite Q; [| exact Hf]. rewrite KP.do_top_store. cbn [S.step].
    pose proof (KP.put_provider_recs (K.k_scfg c) (KP.kstore st) key p d (N.min na K.WIRE_MAX_ADDRS) (K.ks_now st)) as R.
    destruct (S.put_provider _ _ _ _ _ _ _). cbn [fst] in *. rewrite R. exact Hf.
  - specialize (G key). destruct (K.do_top c st (T.TOp (S.OGet key))). cbn [fst] in *. rewrite Q. exact G.
  - pose proof (KP.do_top_store c st (S.OGetProviders key)) as D. cbn [S.step] in D.
    destruct (K.do_top c st (T.TOp (S.OGetProviders key))) as [st1 o]. cbn [fst] in *. rewrite Q, D.
    destruct (SP.get_providers_pure (KP.kstore st) key (K.ks_now st)) as (R & _).
    destruct (S.get_providers (KP.kstore st) key (K.ks_now st)). cbn [fst] in *. rewrite R. exact Hf.
  - cbn [fst]. apply P. cbn [K.rec_of S.r_key]. apply N.eqb_neq. exact Hw.
  - destruct update_local; cbn [fst]; [| rewrite Q; exact Hf]. apply P. cbn [K.rec_of S.r_key]. apply N.eqb_neq. exact Hw.
  - cbn [fst]. apply P. cbn [K.rec_of S.r_key]. apply N.eqb_neq. exact Hw.
  - cbn [fst]. rewrite Q, do_top_put_local_recs. exact Hf.
  - pose proof (KP.do_top_store c st (S.ORemoveLocal key dist)) as D. cbn [S.step] in D.
    destruct (K.do_top c st (T.TOp (S.ORemoveLocal key dist))) as [st1 o]. cbn [fst] in D.
    assert (R1 : S.find_rec rk (S.recs (KP.kstore st1)) = Some r).
    { rewrite D. pose proof (remove_local_recs (KP.kstore st) key dist) as R.
      destruct (S.remove_local_provider (KP.kstore st) key dist). cbn [fst] in *. rewrite R. exact Hf. }
    destruct o as [o | l | b]; cbn [fst]; try (rewrite Q; exact R1).
    destruct o as [| o | l | b]; cbn [fst]; try (rewrite Q; exact R1). destruct b; cbn [fst]; [rewrite Q |]; exact R1.
  - specialize (G key). destruct (K.do_top c st (T.TOp (S.OGet key))). cbn [fst] in *. rewrite Q. exact G.
  - cbn [fst]. pose proof (KP.do_top_store c st (S.OGetProviders key)) as D. cbn [S.step] in D.
    rewrite Q, D.
    destruct (SP.get_providers_pure (KP.kstore st) key (K.ks_now st)) as (R & _).
    destruct (S.get_providers (KP.kstore st) key (K.ks_now st)). cbn [fst] in *. rewrite R. exact Hf.
  - discriminate Hw.
Qed.

Lemma kev_writes : forall wc w u ke rk, kev_of wc w u = Some ke -> uwrites u rk = false -> kwrites ke rk = false.
Proof.
  intros wc w u ke rk. destruct u as [q c target | q qr k len pub exp upd given | k len pub exp | p a | k target | q k wait target | d | id rq | e];
    cbn [kev_of uwrites]; try discriminate.
  - destruct c; intro H; try discriminate H; injection H as <-; cbn [kwrites]; auto.
  - intro H; injection H as <-. cbn [kwrites]. auto.
  - intro H; injection H as <-. cbn [kwrites]. auto.
  - intro H; injection H as <-. reflexivity.
  - destruct (inbound_read (w_st w) id); [| discriminate].
    destruct rq; try discriminate; intro H; injection H as <-; cbn [kwrites]; auto.
Qed.

Lemma kside_keeps : forall wc w u rk r, uwrites u rk = false ->
  S.find_rec rk (S.recs (w_store w)) = Some r -> S.rec_expired r (w_clock w) = false ->
  S.find_rec rk (S.recs (KP.kstore (fst (kside wc w u)))) = Some r.
Proof.
  intros wc w u rk r Hw Hf He. unfold kside. destruct (kev_of wc w u) as [ke |] eqn:Ek.
  - apply kstep_keeps; [eapply kev_writes; eassumption | exact Hf | exact He].
  - destruct u; cbn [fst]; try exact Hf.
    destruct (fire1 wc (age (w_ks w) wait) rk0 (lrank wc target)) as [[ks' o] |] eqn:E; cbn [fst]; [| exact Hf].
    revert E. unfold fire1. destruct (K.ks_dead (age (w_ks w) wait)); [discriminate |].
    destruct (take_due _ _ _) as [rest |]; [| discriminate].
    set (ks1 := K.with_ts _ _).
    destruct (T.find_q rk0 _) as [qc |]; intro H; injection H as <- <-.
    + rewrite KP.settle_store, do_top_put_local_recs. exact Hf.
    + exact Hf.
Qed.

Lemma rec_expired_mono : forall r a b, a <= b -> S.rec_expired r b = false -> S.rec_expired r a = false.
Proof.
  intros r a b Hab. unfold S.rec_expired. destruct (S.r_exp r) as [t |]; [| reflexivity].
  intro H. apply N.leb_gt in H. apply N.leb_gt. lia.
Qed.

Fixpoint no_write (rk : N) (us : list uev) : Prop :=
  match us with [] => True | u :: t => uwrites u rk = false /\ no_write rk t end.

Lemma crun_keeps : forall wc us w rk r, no_write rk us ->
  S.find_rec rk (S.recs (w_store w)) = Some r ->
  S.rec_expired r (w_clock (fst (crun wc w us))) = false ->
  S.find_rec rk (S.recs (w_store (fst (crun wc w us)))) = Some r.
Proof.
  intros wc us. induction us as [| u t IH]; intros w rk r Hn Hf He; [exact Hf |].
  destruct Hn as [Hu Ht]. rewrite crun_cons in *. cbn [fst] in *. apply IH; [exact Ht | | exact He].
  rewrite cstep_store. apply kside_keeps; [exact Hu | exact Hf |].
  eapply rec_expired_mono; [| exact He].
  pose proof (cstep_clock wc w u). pose proof (crun_clock wc t (fst (fst (cstep wc w u)))). lia.
Qed.

(* a record in the store is found by every later GetRecord(Quorum::One) — the operation answers at once,
   from the local store — whatever happened in between, until the record expires or is written again *)
Lemma put_then_get : forall wc w us q rk r target,
  S.find_rec rk (S.recs (w_store w)) = Some r -> no_write rk us ->
  let w' := fst (crun wc w us) in
  S.rec_expired r (w_clock w') = false -> K.ks_dead (w_ks w') = false ->
  snd (fst (cstep wc w' (UCmd q (UCGet QOne rk) target))) =
    [OPartial q (g_local (wc_g wc)) LOCAL_REC; OGetRecSuccess q] /\
  w_st (fst (fst (cstep wc w' (UCmd q (UCGet QOne rk) target)))) = w_st w'.
Proof.
  intros wc w us q rk r target Hf Hn w' He Hd.
  pose proof (crun_keeps wc us w rk r Hn Hf He) as Hf'. fold w' in Hf'.
  pose proof (get_record_step wc w' q QOne rk target) as G. cbn zeta in G.
  destruct (get_hit (kc_of wc) (w_ks w') rk Hd) as [[_ Hh] _].
  rewrite Hh in G; [| exists r; split; [exact Hf' | exact He]].
  destruct (cstep wc w' (UCmd q (UCGet QOne rk) target)) as [[w2 o] ok]. cbn [fst snd] in *.
  injection G as -> ->. split; reflexivity.
Qed.

(* ---- incoming records ---- *)
(* IncomingRecordValidationMode::Manual: no event of the loop and no request of a remote peer adds or
   alters a record; only the user's store_record / put_record / put_record_to_peers do *)
Lemma manual_validation : forall wc w u k r,
  wc_vauto wc = false ->
  (exists e, u = UEv e) \/ (exists id rq, u = UInReq id rq) ->
  S.find_rec k (S.recs (w_store (fst (fst (cstep wc w u))))) = Some r ->
  S.find_rec k (S.recs (w_store w)) = Some r.
Proof.
  intros wc w u k r Hm Hu. rewrite cstep_store.
  destruct Hu as [[e ->] | (id & rq & ->)]; unfold kside.
  - cbn [kev_of fst]. auto.
  - destruct (kev_of wc w (UInReq id rq)) as [ke |] eqn:Ek; [| cbn [fst]; auto].
    destruct (K.ks_dead (w_ks w)) eqn:Ed.
    + unfold K.kstep. rewrite Ed. cbn [fst]. auto.
    + apply (KP.manual_mode_no_remote_record (kc_of wc) (w_ks w) ke Ed); [| exact Hm].
      cbn [kev_of] in Ek. destruct (inbound_read (w_st w) id); [| discriminate].
      destruct rq; try discriminate; injection Ek as <-; reflexivity.
Qed.

(* in the Automatic mode the record of an inbound PUT_VALUE is handed to the store as soon as the request
   has been read, with the expiry computed from the ttl of the wire *)
Lemma auto_validation : forall wc w id rk len pub ttl,
  wc_vauto wc = true -> inbound_read (w_st w) id = true -> K.ks_dead (w_ks w) = false ->
  pub <> K.PUB_INVALID ->
  w_store (fst (fst (cstep wc w (UInReq id (IPutValue rk len pub ttl))))) =
  S.put (wc_scfg wc) (w_store w)
        (K.rec_of rk LOCAL_REC len pub (if ttl =? 0 then None else Some (w_clock w + ttl))).
Proof.
  intros wc w id rk len pub ttl Hm Hf Hd Hp. rewrite cstep_store.
  unfold kside. cbn [kev_of]. rewrite Hf. unfold K.kstep. rewrite Hd.
  apply N.eqb_neq in Hp. rewrite Hp. cbn [K.k_auto kc_of]. rewrite Hm. cbn [fst].
  change (T.ts_store (K.ks_t ?x)) with (KP.kstore x). rewrite KP.settle_store, KP.do_top_store. reflexivity.
Qed.

(* ------------------------------------------------------------------ the base theorems on composed histories *)

Section Lift.
Variables (wc : wcfg) (m : list (N * N)).
Let g := wc_g wc.
Let L := length (lkey wc).
Let W (us : list uev) := fst (crun wc (w0 wc m L) us).

Lemma lift_state : forall us, w_st (W us) = fst (run g (st0 m) (elabs wc (w0 wc m L) us)).
Proof. intros. apply (compose_refines wc us (w0 wc m L)). Qed.
Lemma lift_outs : forall us, snd (crun wc (w0 wc m L) us) = snd (run g (st0 m) (elabs wc (w0 wc m L) us)).
Proof. intros. apply (compose_refines wc us (w0 wc m L)). Qed.

Lemma c_no_wait : forall us q x p,
  1 <= g_alpha g ->
  let s := w_st (W us) in
  aget q (eng s) = Some x -> In p (waiting x) -> owes s (negb (is_track x)) q p.
Proof. intros us q x p Ha. cbn zeta. rewrite lift_state. apply no_wait_for_nothing. exact Ha. Qed.

Lemma c_one_terminal : forall us q,
  ufresh [] us ->
  (terminals q (snd (crun wc (w0 wc m L) us)) + (if live q (w_st (W us)) then 1 else 0) =
   cstarted wc (w0 wc m L) q us)%nat /\
  (cstarted wc (w0 wc m L) q us <= ustarted q us)%nat /\ (cstarted wc (w0 wc m L) q us <= 1)%nat.
Proof.
  intros us q Hf. rewrite lift_state, lift_outs. unfold cstarted.
  destruct (one_terminal g m (elabs wc (w0 wc m L) us) q (elabs_fresh wc us _ [] Hf)) as [H1 H2].
  split; [exact H1 |]. split; [apply elabs_started | exact H2].
Qed.

Lemma c_terminates : forall us q,
  1 <= g_alpha g -> ufresh [] us ->
  idle (w_st (W us)) -> quiescent (w_st (W us)) = true ->
  terminals q (snd (crun wc (w0 wc m L) us)) = cstarted wc (w0 wc m L) q us /\
  (cstarted wc (w0 wc m L) q us <= 1)%nat.
Proof.
  intros us q Ha Hf. rewrite lift_state, lift_outs. unfold cstarted.
  apply all_reported; [exact Ha | apply elabs_fresh; exact Hf].
Qed.

Lemma c_cmds_ok : forall us,
  keys_ok wc -> Forall (ucmd_ok g) us -> cmds_ok g (elabs wc (w0 wc m L) us).
Proof. intros us Hk HF. apply elabs_cmds_ok; [exact Hk | apply RP.empty_inv | exact HF]. Qed.

Lemma c_sides : forall us,
  keys_ok wc -> ufresh [] us -> Forall (ucmd_ok g) us ->
  let es := elabs wc (w0 wc m L) us in
  fresh_ids [] es /\ cmds_ok g es.
Proof.
  intros us Hk Hf HF. split; [apply elabs_fresh; exact Hf | apply c_cmds_ok; assumption].
Qed.

Lemma c_at_most_one : forall us k q p,
  keys_ok wc -> ufresh [] us -> Forall (ucmd_ok g) us -> (cnt (w_st (W us)) k q p <= 1)%nat.
Proof.
  intros us k q p Hk Hf HF. rewrite lift_state.
  apply at_most_one; [apply elabs_fresh; exact Hf | apply c_cmds_ok; assumption].
Qed.

Lemma c_quorum_honest : forall us q,
  keys_ok wc -> ufresh [] us -> Forall (ucmd_ok g) us ->
  let outs := snd (crun wc (w0 wc m L) us) in
  let es := elabs wc (w0 wc m L) us in
  In (OPutSuccess q) outs \/ In (OProvSuccess q) outs ->
  exists targets qr S,
    find_quorum q es = Some qr /\ In (OTrack q targets) outs /\ NoDup S /\
    clamp qr (N.of_nat (length targets)) <= N.of_nat (length S) /\
    (forall p, In p S -> In (q, p) (put_sends g (st0 m) es) /\ In p targets).
Proof.
  intros us q Hk Hf HF. cbn zeta. rewrite lift_outs.
  apply quorum_honest_put; [apply elabs_fresh; exact Hf | apply c_cmds_ok; assumption].
Qed.
End Lift.

(* ------------------------------------------------------------------ fair termination of composed histories *)

Lemma elabs_app : forall wc a b w,
  elabs wc w (a ++ b) = elabs wc w a ++ elabs wc (fst (crun wc w a)) b.
Proof.
  intros wc a. induction a as [| u t IH]; intros b w; [reflexivity |].
  cbn [app elabs]. rewrite crun_cons. cbn [fst]. rewrite IH. reflexivity.
Qed.

Definition uev_in_U (U : list N) (u : uev) : Prop :=
  match u with
  | UPutToPeers _ _ _ _ _ _ _ given => forall p, In p given -> In p U
  | UEv e => ev_in_U U e
  | _ => True
  end.

Lemma peer_of_in : forall (keys : list (N * key)) k, In (peer_of keys k) (UNKNOWN :: map fst keys).
Proof.
  intros keys k. induction keys as [| [p0 k0] t IH]; cbn [peer_of]; [left; reflexivity |].
  destruct (R.key_eqb k0 k); [right; left; reflexivity |].
  destruct IH as [H | H]; [left; exact H | right; right; exact H].
Qed.

Lemma seeds_in_U : forall wc t target U,
  (forall p, In p (UNKNOWN :: map fst (wc_keys wc)) -> In p U) ->
  forall p, In p (seeds_of wc t target) -> In p U.
Proof.
  intros wc t target U HU p Hp. unfold seeds_of in Hp. apply in_map_iff in Hp. destruct Hp as (n & <- & _).
  apply HU. apply peer_of_in.
Qed.

Lemma elab_in_U : forall wc w u U,
  keys_ok wc -> (forall p, In p (UNKNOWN :: map fst (wc_keys wc)) -> In p U) ->
  uev_in_U U u -> ev_in_U U (fst (fst (elab wc w u))).
Proof.
  intros wc w u U Hk HU Hu. destruct u as [q c target | q qr rk len pub exp upd given | rk len pub exp | p a | rk target | q rk wait target | d | id rq | e].
  - destruct (elab_cmd wc w q c target) as [cmd E]. rewrite E. cbn [ev_in_U]. apply seeds_in_U. exact HU.
  - destruct (elab_put_to_peers wc w q qr rk len pub exp upd given) as (ps & E & Eps). rewrite E. cbn [ev_in_U]. subst ps.
    intros p Hp. apply Hu. apply (rt_filter_named wc given (w_rt w) p Hk Hp).
  - exact I.
  - exact I.
  - exact I.
  - cbn [elab]. destruct (fire1 wc (age (w_ks w) wait) rk (lrank wc target)) as [[k0 [qc |]] |];
      cbn [fst ev_in_U]; [apply seeds_in_U; exact HU | exact I | exact I].
  - exact I.
  - cbn [elab fst ev_in_U].
    destruct rq; cbn [msg_of_req msg_in]; try exact I; try (intros ? []).
    destruct (pub =? K.PUB_INVALID); exact I.
  - exact Hu.
Qed.

Lemma elabs_in_U : forall wc us w U,
  keys_ok wc -> (forall p, In p (UNKNOWN :: map fst (wc_keys wc)) -> In p U) ->
  Forall (uev_in_U U) us -> evs_in_U U (elabs wc w us).
Proof.
  intros wc us. induction us as [| u t IH]; intros w U Hk HU HF; [exact I |].
  inversion HF as [| ? ? Hu Ht]. subst. cbn [elabs evs_in_U]. split.
  - apply elab_in_U; assumption.
  - apply IH; assumption.
Qed.

Lemma c_fair_terminates : forall wc m U us0 us1 q,
  keys_ok wc -> 1 <= g_alpha (wc_g wc) ->
  (forall p, In p (UNKNOWN :: map fst (wc_keys wc)) -> In p U) ->
  ufresh [] (us0 ++ us1) -> Forall (ucmd_ok (wc_g wc)) us0 -> Forall (uev_in_U U) (us0 ++ us1) ->
  let W0 := w0 wc m (length (lkey wc)) in
  let w1 := fst (crun wc W0 us0) in
  let es1 := elabs wc w1 us1 in
  fair_run (wc_g wc) (w_st w1) es1 ->
  (length (work es1) <= budget (length U) (wc_g wc) (elabs wc W0 us0))%nat /\
  (stuck (w_st (fst (crun wc w1 us1))) ->
   terminals q (snd (crun wc W0 (us0 ++ us1))) = cstarted wc W0 q (us0 ++ us1) /\
   (cstarted wc W0 q (us0 ++ us1) <= 1)%nat).
Proof.
  intros wc m U us0 us1 q Hk Ha HU Hf Hc Hin W0 w1 es1 Hfair.
  apply Forall_app in Hin. destruct Hin as [Hin0 Hin1].
  pose proof (elabs_fresh wc (us0 ++ us1) W0 [] Hf) as Hfr. rewrite elabs_app in Hfr. fold w1 es1 in Hfr.
  assert (S0 : w_st w1 = fst (run (wc_g wc) (st0 m) (elabs wc W0 us0))) by apply (compose_refines wc us0 W0).
  rewrite S0 in Hfair.
  destruct (fair_terminates U (wc_g wc) m (elabs wc W0 us0) es1 q Ha Hfr
              (elabs_cmds_ok wc us0 W0 Hk (RP.empty_inv _ _) Hc)
              (elabs_in_U wc us0 W0 U Hk HU Hin0) (elabs_in_U wc us1 w1 U Hk HU Hin1) Hfair) as [B T].
  split; [exact B |]. intro Hs.
  destruct (compose_refines wc us1 w1) as [R1 _]. fold es1 in R1. rewrite S0 in R1. rewrite R1 in Hs.
  destruct (compose_refines wc (us0 ++ us1) W0) as [_ R2]. rewrite elabs_app in R2. fold w1 es1 in R2.
  unfold cstarted. rewrite elabs_app. fold w1 es1. rewrite R2. apply T. exact Hs.
Qed.

(* ------------------------------------------------------------------ provider refresh: the store's timers *)

Lemma qdecode_qcode : forall qr, qr <> QN 0 -> qdecode (qcode qr) = qr.
Proof.
  destruct qr as [| n |]; intro H; try reflexivity. cbn [qcode].
  destruct n as [| p]; [congruence |]. unfold qdecode.
  destruct (N.pos p + 1) eqn:E; [lia |]. destruct p0; try (f_equal; lia).
Qed.

(* a refresh future that has completed starts an ADD_PROVIDER operation exactly when the key is still in
   local_providers, with the quorum stored there, seeded from the current table *)
Lemma refresh_due : forall wc w q rk wait target rest,
  K.ks_dead (w_ks w) = false ->
  take_due (w_clock w + wait) rk (w_timers w) = Some rest ->
  fst (fst (elab wc w (UFire q rk wait target))) =
  match T.find_q rk (w_quorum w) with
  | Some qc => ECmd q (CRefresh (qdecode qc)) (dists_of wc target) (seeds_of wc (w_rt w) target)
  | None => ENop
  end.
Proof.
  intros wc w q rk wait target rest Hd Ht. cbn [elab]. unfold fire1. cbn [age K.ks_dead K.ks_now K.ks_t].
  rewrite Hd. unfold w_clock, w_timers in Ht. rewrite Ht. unfold w_quorum.
  destruct (T.find_q rk (T.ts_quorum (K.ks_t (w_ks w)))); reflexivity.
Qed.

(* no refresh future of the key has completed: nothing is taken, the event is not a step of the loop *)
Lemma refresh_not_due : forall wc w q rk wait target,
  take_due (w_clock w + wait) rk (w_timers w) = None ->
  uvalid wc w (UFire q rk wait target) = false.
Proof.
  intros wc w q rk wait target Ht. unfold uvalid. rewrite Ht. apply andb_false_r.
Qed.

Lemma settle_keeps_timer : forall c st t,
  1 <= K.k_interval c -> In t (T.ts_timers (K.ks_t st)) ->
  match T.tm_due t with Some d => K.ks_now st < d | None => True end ->
  exists t', In t' (T.ts_timers (K.ks_t (K.settle c st))) /\ T.tm_key t' = T.tm_key t.
Proof.
  intros c st t Hi Hin Hd. exists (T.arm (K.k_interval c) (K.ks_now st) t). split.
  - unfold K.settle. cbn [T.tstep fst K.with_ts K.ks_t T.ts_timers]. apply filter_In. split.
    + apply in_map. exact Hin.
    + unfold T.is_due, T.arm. destruct (T.tm_due t) as [d |] eqn:E.
      * rewrite E. apply negb_true_iff. apply N.leb_gt. exact Hd.
      * cbn [T.tm_due]. apply negb_true_iff. apply N.leb_gt. lia.
  - unfold T.arm. destruct (T.tm_due t); reflexivity.
Qed.

(* ... and when the store accepts the refreshed provider record, the next refresh future of the key is armed *)
Lemma refresh_rearms : forall wc w q rk wait target rest qc,
  1 <= wc_interval wc -> K.ks_dead (w_ks w) = false ->
  take_due (w_clock w + wait) rk (w_timers w) = Some rest ->
  T.find_q rk (w_quorum w) = Some qc ->
  snd (S.put_local_provider (wc_scfg wc) (w_store w) rk (lrank wc target) (w_clock w + wait)) = true ->
  exists t, In t (w_timers (fst (fst (cstep wc w (UFire q rk wait target))))) /\ T.tm_key t = rk.
Proof.
  intros wc w q rk wait target rest qc Hi Hd Ht Hq Hok.
  unfold w_timers at 1. rewrite cstep_ks, elab_ks. unfold kside. cbn [kev_of]. unfold fire1.
  cbn [age K.ks_dead K.ks_now K.ks_t]. rewrite Hd. unfold w_clock, w_timers in Ht. rewrite Ht.
  unfold w_quorum in Hq. rewrite Hq. cbn [fst].
  set (ks1 := K.with_ts _ _).
  assert (E : exists t, In t (T.ts_timers (K.ks_t (fst (K.do_top (kc_of wc) ks1 (T.TPutLocal rk (lrank wc target) qc))))) /\
                        T.tm_key t = rk /\ T.tm_due t = None).
  { unfold K.do_top. cbn [T.tstep].
    pose proof (TP.put_local_q_timers (K.k_scfg (kc_of wc)) (K.ks_t ks1) rk (lrank wc target) qc (K.ks_now ks1)) as Tm.
    pose proof (TP.put_local_q_store (K.k_scfg (kc_of wc)) (K.ks_t ks1) rk (lrank wc target) qc (K.ks_now ks1)) as [_ Ok].
    destruct (T.put_local_q (K.k_scfg (kc_of wc)) (K.ks_t ks1) rk (lrank wc target) qc (K.ks_now ks1)) as [ts' b].
    cbn [fst snd K.with_ts K.ks_t] in *. subst ks1. cbn [K.with_ts K.ks_t K.ks_now T.ts_store age] in Ok.
    change (K.k_scfg (kc_of wc)) with (wc_scfg wc) in Ok.
    unfold w_store, w_clock in Hok. rewrite Hok in Ok. subst b. rewrite Tm.
    eexists. split; [apply in_or_app; right; left; reflexivity |]. split; reflexivity. }
  destruct E as (t & Hin & Hk & Hdue).
  destruct (settle_keeps_timer (kc_of wc) _ t Hi Hin) as (t' & Hin' & Hk'); [rewrite Hdue; exact I |].
  exists t'. split; [exact Hin' | congruence].
Qed.

(* ---- a provided key always has a refresh future: the refresh will come ---- *)
(* no refresh future is overdue: the armed ones lie in the future *)
Definition Safe (now : N) (l : list T.timer) : Prop :=
  Forall (fun t => match T.tm_due t with Some d => now < d | None => True end) l.
(* every key of local_providers has a refresh future *)
Definition PT (q : list (N * N)) (l : list T.timer) : Prop :=
  forall rk qc, T.find_q rk q = Some qc -> exists t, In t l /\ T.tm_key t = rk.
Definition PTS (st : K.kstate) : Prop :=
  Safe (K.ks_now st) (T.ts_timers (K.ks_t st)) /\ PT (T.ts_quorum (K.ks_t st)) (T.ts_timers (K.ks_t st)).

Lemma put_local_q_PTS : forall c ts k dist q now,
  Safe now (T.ts_timers ts) -> PT (T.ts_quorum ts) (T.ts_timers ts) ->
  Safe now (T.ts_timers (fst (T.put_local_q c ts k dist q now))) /\
  PT (T.ts_quorum (fst (T.put_local_q c ts k dist q now))) (T.ts_timers (fst (T.put_local_q c ts k dist q now))).
Proof.
  intros c ts k dist q now HS HP. unfold T.put_local_q.
  destruct (S.put_local_provider c (T.ts_store ts) k dist now) as [s1 ok]. destruct ok; cbn [fst T.ts_timers T.ts_quorum].
  - split.
    + apply Forall_app. split; [exact HS | constructor; [exact I | constructor]].
    + intros rk qc. rewrite TP.find_q_set. destruct (N.eqb_spec k rk) as [-> | Hne].
      * intros _. eexists. split; [apply in_or_app; right; left; reflexivity | reflexivity].
      * intro H. destruct (HP _ _ H) as (t & Hin & Hk). exists t. split; [apply in_or_app; left; exact Hin | exact Hk].
  - split; assumption.
Qed.

Lemma tstep_PTS : forall c i ts o now, o <> T.TPoll ->
  Safe now (T.ts_timers ts) -> PT (T.ts_quorum ts) (T.ts_timers ts) ->
  Safe now (T.ts_timers (fst (T.tstep c i ts o now))) /\
  PT (T.ts_quorum (fst (T.tstep c i ts o now))) (T.ts_timers (fst (T.tstep c i ts o now))).
Proof.
  intros c i ts o now Ho HS HP.
  destruct o as [o | k dist q | | e | e]; cbn [T.tstep]; try (split; assumption); try congruence.
  - destruct o as [k | r | k | k pid dist naddr | k dist | k dist].
    + destruct (S.step c (T.ts_store ts) (S.OGet k) now). split; assumption.
    + destruct (S.step c (T.ts_store ts) (S.OPut r) now). split; assumption.
    + destruct (S.step c (T.ts_store ts) (S.OGetProviders k) now). split; assumption.
    + destruct (S.step c (T.ts_store ts) (S.OPutProvider k pid dist naddr) now). split; assumption.
    + pose proof (put_local_q_PTS c ts k dist T.QUORUM_ONE now HS HP) as H.
      destruct (T.put_local_q c ts k dist T.QUORUM_ONE now). exact H.
    + destruct (S.step c (T.ts_store ts) (S.ORemoveLocal k dist) now). cbn [fst T.ts_timers T.ts_quorum].
      split; [exact HS |]. intros rk qc. destruct (N.eq_dec rk k) as [-> | Hne].
      * rewrite TP.find_q_del_same. discriminate.
      * rewrite TP.find_q_del_other by exact Hne. apply HP.
  - pose proof (put_local_q_PTS c ts k dist q now HS HP) as H.
    destruct (T.put_local_q c ts k dist q now). exact H.
Qed.

Lemma do_top_PTS : forall c st o, o <> T.TPoll -> PTS st -> PTS (fst (K.do_top c st o)).
Proof.
  intros c st o Ho [HS HP]. unfold K.do_top, PTS.
  pose proof (tstep_PTS (K.k_scfg c) (K.k_interval c) (K.ks_t st) o (K.ks_now st) Ho HS HP) as H.
  destruct (T.tstep (K.k_scfg c) (K.k_interval c) (K.ks_t st) o (K.ks_now st)). exact H.
Qed.

Lemma settle_PTS : forall c st, 1 <= K.k_interval c -> PTS st -> PTS (K.settle c st).
Proof.
  intros c st Hi [HS HP]. split.
  - pose proof (KP.settle_armed c st) as A. unfold KP.KArmed in A. unfold Safe.
    eapply Forall_impl; [| exact A]. intros t (d & -> & Hd). exact Hd.
  - intros rk qc Hq. rewrite KP.settle_quorum in Hq. destruct (HP _ _ Hq) as (t & Hin & Hk).
    destruct (settle_keeps_timer c st t Hi Hin) as (t' & Hin' & Hk').
    + unfold Safe in HS. rewrite Forall_forall in HS. apply HS. exact Hin.
    + exists t'. split; [exact Hin' | congruence].
Qed.

Lemma kstep_PTS : forall c st e, 1 <= K.k_interval c ->
  match e with K.KAge _ _ => False | _ => True end -> PTS st -> PTS (fst (K.kstep c st e)).
Proof.
  intros c st e Hi He H. unfold K.kstep. destruct (K.ks_dead st); [exact H |].
  assert (SD : forall o, o <> T.TPoll -> PTS (K.settle c (fst (K.do_top c st o)))).
  { intros o Ho. apply settle_PTS; [exact Hi | apply do_top_PTS; assumption]. }
  assert (S0 : PTS (K.settle c st)) by (apply settle_PTS; assumption).
  destruct e; try contradiction.
  - destruct (pub =? K.PUB_INVALID); [exact S0 |]. destruct (K.k_auto c); cbn [fst]; [apply SD; discriminate | exact S0].
  - destruct (K.decoded_provs (K.k_repl c) provs) as [| [[p d] na] [| x l]]; try exact S0.
    destruct (p =? from); cbn [fst]; [apply SD; discriminate | exact S0].
  - pose proof (SD (T.TOp (S.OGet key))) as D. destruct (K.do_top c st (T.TOp (S.OGet key))). apply D. discriminate.
  - pose proof (SD (T.TOp (S.OGetProviders key))) as D. destruct (K.do_top c st (T.TOp (S.OGetProviders key))). apply D. discriminate.
  - cbn [fst]. apply SD. discriminate.
  - destruct update_local; cbn [fst]; [apply SD; discriminate | exact S0].
  - cbn [fst]. apply SD. discriminate.
  - cbn [fst]. apply SD. discriminate.
  - pose proof (do_top_PTS c st (T.TOp (S.ORemoveLocal key dist))) as D.
    destruct (K.do_top c st (T.TOp (S.ORemoveLocal key dist))) as [st1 r]. cbn [fst] in D.
    assert (D1 : PTS st1) by (apply D; [discriminate | exact H]).
    destruct r as [o | l | b]; cbn [fst]; try (apply settle_PTS; assumption).
    destruct o as [| o | l | b]; cbn [fst]; try (apply settle_PTS; assumption).
    destruct b; cbn [fst]; [apply settle_PTS; assumption | exact D1].
  - pose proof (SD (T.TOp (S.OGet key))) as D. destruct (K.do_top c st (T.TOp (S.OGet key))). apply D. discriminate.
  - cbn [fst]. apply SD. discriminate.
Qed.

Lemma take_due_spec : forall now rk l rest, take_due now rk l = Some rest ->
  (forall t, In t rest -> In t l) /\ (forall t, In t l -> T.tm_key t <> rk -> In t rest).
Proof.
  intros now rk l. induction l as [| h t IH]; intros rest H; [discriminate |]. cbn [take_due] in H.
  destruct ((T.tm_key h =? rk) && T.is_due now h) eqn:E.
  - injection H as <-. split; [intros x Hx; right; exact Hx |].
    intros x [-> | Hx] Hk; [| exact Hx]. apply andb_true_iff in E. destruct E as [E _]. apply N.eqb_eq in E. congruence.
  - destruct (take_due now rk t) as [r' |]; [| discriminate]. cbn [option_map] in H. injection H as <-.
    destruct (IH r' eq_refl) as [I1 I2]. split.
    + intros x [-> | Hx]; [left; reflexivity | right; apply I1; exact Hx].
    + intros x [-> | Hx] Hk; [left; reflexivity | right; apply I2; assumption].
Qed.

(* the store accepts the provider record of a refresh (it is refused only at the provider capacity of the
   store, after the local provider record of the key has been lost) *)
Definition refresh_accepted (wc : wcfg) (w : world) (u : uev) : Prop :=
  match u with
  | UFire _ rk wait t =>
      T.find_q rk (w_quorum w) <> None ->
      snd (S.put_local_provider (wc_scfg wc) (w_store w) rk (lrank wc t) (w_clock w + wait)) = true
  | _ => True
  end.

Lemma cstep_PTS : forall wc w u, 1 <= wc_interval wc ->
  uvalid wc w u = true -> refresh_accepted wc w u -> PTS (w_ks w) -> PTS (w_ks (fst (fst (cstep wc w u)))).
Proof.
  intros wc w u Hi Hv Ha H. rewrite cstep_ks, elab_ks. unfold kside.
  destruct (kev_of wc w u) as [ke |] eqn:Ek.
  - apply kstep_PTS; [exact Hi | | exact H].
    destruct u as [q c target | q qr k len pub exp upd given | k len pub exp | p a | k target | q k wait target | d | id rq | e];
      cbn [kev_of] in Ek; try discriminate.
    + destruct c; try discriminate; injection Ek as <-; exact I.
    + injection Ek as <-; exact I.
    + injection Ek as <-; exact I.
    + injection Ek as <-; exact I.
    + destruct (inbound_read (w_st w) id); [| discriminate]. destruct rq; try discriminate; injection Ek as <-; exact I.
  - destruct u as [q c target | q qr k len pub exp upd given | k len pub exp | p a | k target | q k wait target | d | id rq | e];
      cbn [fst]; try exact H.
    + (* a refresh future is taken *)
      unfold uvalid in Hv. apply andb_true_iff in Hv. destruct Hv as [Hdd Hv]. apply negb_true_iff in Hdd.
      unfold fire1 in *. cbn [age K.ks_dead K.ks_now K.ks_t] in *. rewrite Hdd.
      unfold w_clock, w_timers in Hv.
      destruct (take_due (K.ks_now (w_ks w) + wait) k (T.ts_timers (K.ks_t (w_ks w)))) as [rest |] eqn:Et; [| discriminate].
      destruct (take_due_spec _ _ _ _ Et) as [T1 T2]. destruct H as [HS HP].
      rename Hv into Hnd.
      set (ks1 := K.with_ts _ _).
      assert (S1 : Safe (K.ks_now ks1) (T.ts_timers (K.ks_t ks1))).
      { subst ks1. cbn [K.with_ts K.ks_now K.ks_t T.ts_timers age]. unfold Safe. apply Forall_forall. intros t Ht.
        rewrite forallb_forall in Hnd. specialize (Hnd t Ht). unfold T.is_due in Hnd.
        destruct (T.tm_due t) as [dd |]; [| exact I]. apply negb_true_iff in Hnd. apply N.leb_gt in Hnd. exact Hnd. }
      assert (P1 : forall rk qc, rk <> k -> T.find_q rk (T.ts_quorum (K.ks_t ks1)) = Some qc ->
                                 exists t, In t (T.ts_timers (K.ks_t ks1)) /\ T.tm_key t = rk).
      { intros rk qc Hne Hq. subst ks1. cbn [K.with_ts K.ks_t T.ts_quorum T.ts_timers] in *.
        destruct (HP _ _ Hq) as (t & Hin & Hk). exists t. split; [apply T2; [exact Hin | congruence] | exact Hk]. }
      destruct (T.find_q k (T.ts_quorum (K.ks_t (w_ks w)))) as [qc |] eqn:Eq; cbn [fst].
      * apply settle_PTS; [exact Hi |]. unfold K.do_top. cbn [T.tstep]. unfold T.put_local_q.
        cbn [refresh_accepted] in Ha. unfold w_quorum in Ha. rewrite Eq in Ha. specialize (Ha ltac:(discriminate)).
        change (S.put_local_provider (K.k_scfg (kc_of wc)) (T.ts_store (K.ks_t ks1)) k (lrank wc target) (K.ks_now ks1))
          with (S.put_local_provider (wc_scfg wc) (w_store w) k (lrank wc target) (w_clock w + wait)).
        destruct (S.put_local_provider (wc_scfg wc) (w_store w) k (lrank wc target) (w_clock w + wait)) as [s1 ok].
        cbn [snd] in Ha. subst ok. unfold PTS. cbn [fst K.with_ts K.ks_t K.ks_now T.ts_timers T.ts_quorum]. split.
        -- apply Forall_app. split; [exact S1 | constructor; [exact I | constructor]].
        -- intros rk qc' Hq. rewrite TP.find_q_set in Hq. destruct (N.eqb_spec k rk) as [-> | Hne].
           ++ eexists. split; [apply in_or_app; right; left; reflexivity | reflexivity].
           ++ destruct (P1 rk qc' ltac:(congruence) Hq) as (t & Hin & Hk).
              exists t. split; [apply in_or_app; left; exact Hin | exact Hk].
      * apply settle_PTS; [exact Hi |]. split; [exact S1 |].
        intros rk qc Hq. destruct (N.eq_dec rk k) as [-> | Hne].
        -- subst ks1. cbn [K.with_ts K.ks_t T.ts_quorum] in Hq. congruence.
        -- apply (P1 rk qc Hne Hq).
    + (* explicit time passing stops before the next deadline *)
      unfold uvalid in Hv. apply andb_true_iff in Hv. destruct Hv as [_ Hv]. destruct H as [HS HP].
      split; [| exact HP]. cbn [age K.ks_now K.ks_t]. unfold Safe. apply Forall_forall. intros t Ht.
      rewrite forallb_forall in Hv. specialize (Hv t Ht). unfold T.is_due, w_clock in Hv.
      destruct (T.tm_due t) as [dd |]; [| exact I]. apply negb_true_iff in Hv. apply N.leb_gt in Hv. exact Hv.
Qed.

Fixpoint valid_run (wc : wcfg) (w : world) (us : list uev) : Prop :=
  match us with
  | [] => True
  | u :: t => uvalid wc w u = true /\ refresh_accepted wc w u /\ valid_run wc (fst (fst (cstep wc w u))) t
  end.

(* as long as a key is in local_providers a refresh future is pending for it, and none is overdue: in
   every consistent schedule (`uvalid`: only completed futures are taken, explicit time passing stops before
   the next deadline) in which the store accepted the refreshed provider records *)
Lemma provided_has_timer : forall wc m L us rk qc,
  1 <= wc_interval wc -> valid_run wc (w0 wc m L) us ->
  let w := fst (crun wc (w0 wc m L) us) in
  T.find_q rk (w_quorum w) = Some qc -> exists t, In t (w_timers w) /\ T.tm_key t = rk.
Proof.
  intros wc m L us rk qc Hi Hv w.
  assert (G : forall us w, valid_run wc w us -> PTS (w_ks w) -> PTS (w_ks (fst (crun wc w us)))).
  { intros us0. induction us0 as [| u t IH]; intros w1 Hv1 H; [exact H |].
    destruct Hv1 as (V1 & V2 & V3). rewrite crun_cons. cbn [fst]. apply IH; [exact V3 |].
    apply cstep_PTS; assumption. }
  destruct (G us (w0 wc m L) Hv) as [_ HP]; [split; [constructor | intros ? ? A; discriminate A] |].
  apply HP.
Qed.

(* ------------------------------------------------------------------ requests of remote peers *)

(* the answer to an inbound FIND_NODE / GET_VALUE / GET_PROVIDERS: the closer peers are
   RoutingTable::closest of the current table for the key asked for — the very function that seeds the
   node's own lookups, so never the local peer, at most k; the record flag of GET_VALUE says that the store
   holds a record under the key that has not expired; the providers of GET_PROVIDERS are the unexpired
   provider records the store holds for the key (C17: V.C17.IngressProofs.served_providers_fresh) *)
Lemma inbound_reply : forall wc w id rq b ps pv,
  keys_ok wc -> TInv wc (w_rt w) -> K.ks_dead (w_ks w) = false ->
  reply_of wc w (UInReq id rq) = Some (b, ps, pv) ->
  exists target,
    (rq = IFindNode target \/ (exists rk, rq = IGetValue rk target) \/ (exists rk, rq = IGetProviders rk target)) /\
    ps = seeds_of wc (w_rt w) target /\ ~ In (g_local (wc_g wc)) ps /\
    (length ps <= N.to_nat (g_k (wc_g wc)))%nat /\
    (b = true <-> exists rk, rq = IGetValue rk target /\ live_rec (w_store w) (w_clock w) rk) /\
    (forall rk, rq = IGetProviders rk target ->
       pv = map (fun p => (peer_of_pid wc (S.p_id p), K.serve_addrs (kc_of wc) p)) (known_provs (w_ks w) rk) /\
       Forall (fun p => S.prov_expired p (w_clock w) = false) (known_provs (w_ks w) rk)) /\
    ((forall rk, rq <> IGetProviders rk target) -> pv = []).
Proof.
  intros wc w id rq b ps pv Hk HI Hd H. cbn [reply_of] in H.
  destruct (inbound_read (w_st w) id) eqn:Hr; [| discriminate].
  assert (Len : forall target, (length (seeds_of wc (w_rt w) target) <= N.to_nat (g_k (wc_g wc)))%nat).
  { intro target. unfold seeds_of, R.closest. rewrite map_length. apply firstn_le_length. }
  destruct rq as [target | rk len pub ttl | rk target | rk target | rk provs target]; try discriminate H;
    injection H as <- <- <-; exists target.
  - split; [left; reflexivity |]. split; [reflexivity |]. split; [apply seeds_not_local; assumption |].
    split; [apply Len |]. split; [split; [discriminate | intros (rk & E & _); discriminate E] |].
    split; [intros rk E; discriminate E | reflexivity].
  - split; [right; left; eauto |]. split; [reflexivity |]. split; [apply seeds_not_local; assumption |].
    split; [apply Len |]. split.
    + unfold kside. cbn [kev_of]. rewrite Hr.
      destruct (get_hit (kc_of wc) (w_ks w) rk Hd) as [_ Hh]. rewrite Hh. split.
      * intro L. exists rk. split; [reflexivity | exact L].
      * intros (rk' & E & L). injection E as <-. exact L.
    + split; [intros rk' E; discriminate E | reflexivity].
  - split; [right; right; eauto |]. split; [reflexivity |]. split; [apply seeds_not_local; assumption |].
    split; [apply Len |]. split; [split; [discriminate | intros (rk' & E & _); discriminate E] |].
    split; [| intro Hn; exfalso; apply (Hn rk); reflexivity].
    intros rk' E. injection E as <-. unfold kside. cbn [kev_of]. rewrite Hr.
    destruct (snd (K.kstep (kc_of wc) (w_ks w) (K.KGetProviders (pid_of wc (sender (w_st w) id)) rk))) eqn:Es;
      try (exfalso; revert Es; unfold K.kstep; rewrite Hd, KP.do_top_get_providers; discriminate).
    destruct (KP.served_providers_fresh (kc_of wc) (w_ks w) _ rk l Hd Es) as (pl & E1 & E2 & E3 & _).
    unfold known_provs. change (T.ts_store (K.ks_t (w_ks w))) with (KP.kstore (w_ks w)). rewrite <- E1. split; [| exact E3].
    subst l. rewrite map_map. reflexivity.
Qed.

(* a record in the store is served to every remote GET_VALUE that comes before it expires or is written
   again *)
Lemma serve_after_put : forall wc w us rk r id target,
  S.find_rec rk (S.recs (w_store w)) = Some r -> no_write rk us ->
  let w' := fst (crun wc w us) in
  S.rec_expired r (w_clock w') = false -> K.ks_dead (w_ks w') = false ->
  inbound_read (w_st w') id = true ->
  reply_of wc w' (UInReq id (IGetValue rk target)) = Some (true, seeds_of wc (w_rt w') target, []).
Proof.
  intros wc w us rk r id target Hf Hn w' He Hd Hr.
  pose proof (crun_keeps wc us w rk r Hn Hf He) as Hf'. fold w' in Hf'.
  cbn [reply_of]. rewrite Hr. unfold kside. cbn [kev_of]. rewrite Hr.
  destruct (get_hit (kc_of wc) (w_ks w') rk Hd) as [_ Hh].
  destruct (Hh (pid_of wc (sender (w_st w') id))) as [_ Hh2]. rewrite Hh2; [reflexivity |].
  exists r. split; [exact Hf' | exact He].
Qed.

(* ------------------------------------------------------------------ inbound traffic and the user's operations *)

(* events of the inbound side: a remote peer opens a substream; a future that serves a remote request
   (no query id) reads a message or finishes its reply *)
Definition inbound_ev (s : st) (e : ev) : Prop :=
  match e with
  | EInbound _ _ => True
  | EFut id r => exists f, find_fut id (futs s) = Some f /\ f_q f = None /\
                           (r = RSendOk \/ r = RAssume \/ exists m, r = RRead m)
  | _ => False
  end.

Lemma del_fut_keeps : forall id l f0 f,
  find_fut id l = Some f0 -> In f l -> f <> f0 -> In f (del_fut id l).
Proof.
  intros id l. induction l as [| h t IH]; intros f0 f Hf Hin Hne; [destruct Hin |].
  cbn [find_fut del_fut] in *. destruct (f_id h =? id).
  - inversion Hf. subst h. destruct Hin as [H | H]; [congruence | exact H].
  - destruct Hin as [H | H]; [left; exact H | right; eapply IH; eassumption].
Qed.

(* they neither start, end nor touch an operation of the user: the engine, pending_dials,
   pending_substreams and every pending action stay as they are, no terminal event and no send phase is
   produced, every future working for a query stays in flight *)
Lemma inbound_isolated : forall g s e,
  inbound_ev s e ->
  let s' := fst (fst (step g s e)) in
  let o := snd (fst (step g s e)) in
  eng s' = eng s /\ pdial s' = pdial s /\ psub s' = psub s /\
  (forall p acts, aget p (peers s) = Some acts -> aget p (peers s') = Some acts) /\
  (forall x, In x o -> x = OIncomingRecord \/ x = OIncomingProvider) /\
  (forall f, In f (futs s) -> f_q f <> None -> In f (futs s')).
Proof.
  intros g s e He. destruct e; cbn [inbound_ev] in He; try contradiction; cbn [step fst snd].
  - (* inbound substream *)
    unfold on_inbound_substream.
    assert (P : forall p0 acts, aget p0 (peers s) = Some acts ->
                aget p0 (peers (match aget p (peers s) with Some _ => s | None => w_peers s (aset p [] (peers s)) end)) = Some acts).
    { intros p0 acts A. destruct (aget p (peers s)) eqn:Ep; [exact A |]. cbn [peers w_peers].
      destruct (N.eq_dec p p0) as [-> | Hne]; [congruence | rewrite aget_aset_other by congruence; exact A]. }
    destruct (aget p (peers s)) eqn:Ep; cbn [add_fut w_futs w_peers eng pdial psub peers futs];
      (split; [reflexivity |]; split; [reflexivity |]; split; [reflexivity |]; split; [exact P |];
       split; [intros x [] |]; intros f Hf _; apply in_or_app; left; exact Hf).
  - (* a future of the inbound side completes *)
    destruct He as (f & Hf & Hq & Hr). unfold on_future. rewrite Hf.
    destruct (res_ok (f_kind f) r) eqn:Eok; cbn [fst snd].
    2: { repeat split; try reflexivity; try tauto. intros x []. }
    assert (Keep : forall f1, In f1 (futs s) -> f_q f1 <> None -> In f1 (del_fut id (futs s))).
    { intros f1 H1 H2. eapply del_fut_keeps; [exact Hf | exact H1 |]. intro E. subst f1. contradiction. }
    destruct Hr as [-> | [-> | [m ->]]]; rewrite Hq; cbn [fst snd].
    + repeat split; try reflexivity; try tauto. intros x [].
    + repeat split; try reflexivity; try tauto. intros x [].
    + unfold on_message.
      destruct (trunc_msg g m) as [ps | | hk rc ps | v | hk pv ps |]; cbn [fst snd];
        try destruct hk; try destruct v; cbn [fst snd add_fut w_futs eng pdial psub peers futs];
        (split; [reflexivity |]; split; [reflexivity |]; split; [reflexivity |]; split; [tauto |]; split;
         [intros x Hx; cbn [In] in Hx; intuition | intros f1 H1 H2; try (apply in_or_app; left); apply Keep; assumption]).
Qed.

(* a small world for the non-vacuity example of Properties.v *)
Definition ex_wc : wcfg :=
  mkWC (mkG 20 3 99 10) [(99, [false; false]); (0, [true; false]); (1, [true; true])] [0; 1] 20
       (V.C17.Model.mkCfg 8 10 8 8 8 100) 50 true true 30 0.
Lemma ex_wc_ok : keys_ok ex_wc.
Proof.
  constructor.
  - intros p k H. unfold ex_wc in H. cbn [wc_keys In] in H.
    repeat (destruct H as [H | H]; [inversion H; vm_compute; reflexivity |]). destruct H.
  - vm_compute. auto.
  - cbn [ex_wc wc_keys map fst]. repeat constructor; cbn [In]; intuition discriminate.
  - cbn [ex_wc wc_keys map snd]. repeat constructor; cbn [In]; intuition discriminate.
  - cbn [ex_wc wc_keys map fst In]. unfold UNKNOWN. intuition discriminate.
Qed.

(* ------------------------------------------------------------------ a connection closes while requests are outstanding *)

Lemma closed_discharges : forall g m es p,
  1 <= g_alpha g ->
  let s := fst (run g (st0 m) es) in
  aget p (conn s) <> None ->
  let s' := fst (fst (step g s (EClosed p))) in
  aget p (peers s') = None /\ futs s' = futs s /\ pdial s' = pdial s /\
  forall q x, aget q (eng s') = Some x -> In p (waiting x) ->
    owes_dial s' (negb (is_track x)) q p \/ owes_fut s' (negb (is_track x)) q p.
Proof.
  intros g m es p Ha s Hc s'.
  assert (G : GI s) by (apply run_GI; [exact Ha | apply GI_st0]).
  assert (G' : GI s') by (apply step_GI; assumption).
  assert (E : s' = disconnect_peer (w_conn s (adel p (conn s))) p None).
  { subst s'. cbn [step]. destruct (aget p (conn s)); [reflexivity | congruence]. }
  destruct G as [Hl Hcv Hf].
  assert (Hl0 : lookups_live (w_conn s (adel p (conn s)))) by exact Hl.
  assert (Hc0 : covered (w_conn s (adel p (conn s))) []) by exact Hcv.
  destruct (disconnect_spec (w_conn s (adel p (conn s))) p None [] Hl0 Hc0) as (_ & _ & D1 & _ & _ & D2 & D3 & _).
  { intros z []. }
  rewrite <- E in D1, D2, D3.
  split; [exact D1 |]. split; [exact D3 |]. split; [exact D2 |].
  intros q x A W. destruct G' as [_ Hcv' _]. destruct (Hcv' q x p A W) as [O | []].
  destruct O as [O | [O | O]]; [left; exact O | | right; exact O].
  destruct O as (acts & sid & a & K & _). rewrite D1 in K. discriminate.
Qed.
