(* C16 — theorems about the composition glue + routing table (the C14 model) + store (the C17
   model) of Compose.v: the composed run IS a run of the glue model on computed commands, the
   table keeps C14's invariant under everything kademlia/mod.rs does to it, the seeds of every
   lookup are RoutingTable::closest of that table (with C14's facts, never the local peer),
   put_record_to_peers targets named peers only, GetRecord answers from the local store, and the
   theorems of Proofs.v / Obl.v hold for composed histories. *)
From Coq Require Import List Arith NArith Bool Lia Sorted Permutation.
From V.C14 Require Model Proofs.
From V.C17 Require Model Proofs.
From V.C16 Require Import Model Proofs Obl Bound Compose.
Import ListNotations.
Open Scope N_scope.

Module R := V.C14.Model.
Module RP := V.C14.Proofs.
Module S := V.C17.Model.
Module SP := V.C17.Proofs.

(* ------------------------------------------------------------------ refinement *)

Lemma crun_cons : forall wc w u t,
  crun wc w (u :: t) =
  (fst (crun wc (fst (fst (cstep wc w u))) t),
   snd (fst (cstep wc w u)) ++ snd (crun wc (fst (fst (cstep wc w u))) t)).
Proof.
  intros. cbn [crun]. destruct (cstep wc w u) as [[w1 o] ok]. cbn [fst snd].
  destruct (crun wc w1 t) as [w2 o2]. reflexivity.
Qed.

Lemma crun_app : forall wc a b w,
  fst (crun wc w (a ++ b)) = fst (crun wc (fst (crun wc w a)) b).
Proof.
  intros wc a. induction a as [| u t IH]; intros b w; [reflexivity |].
  cbn [app]. rewrite !crun_cons. cbn [fst]. apply IH.
Qed.

Lemma cstep_base : forall wc w u,
  w_st (fst (fst (cstep wc w u))) = fst (fst (step (wc_g wc) (w_st w) (fst (fst (elab wc w u))))) /\
  snd (fst (cstep wc w u)) = snd (fst (step (wc_g wc) (w_st w) (fst (fst (elab wc w u))))).
Proof.
  intros wc w u. unfold cstep. destruct (elab wc w u) as [[e t'] s']. cbn [fst snd].
  destruct (step (wc_g wc) (w_st w) e) as [[st' o] ok]. cbn [fst snd w_st]. split; reflexivity.
Qed.

Lemma cstep_rt : forall wc w u, w_rt (fst (fst (cstep wc w u))) = snd (fst (elab wc w u)).
Proof.
  intros. unfold cstep. destruct (elab wc w u) as [[e t'] s'].
  destruct (step (wc_g wc) (w_st w) e) as [[st' o] ok]. reflexivity.
Qed.

Lemma cstep_store : forall wc w u, w_store (fst (fst (cstep wc w u))) = snd (elab wc w u).
Proof.
  intros. unfold cstep. destruct (elab wc w u) as [[e t'] s'].
  destruct (step (wc_g wc) (w_st w) e) as [[st' o] ok]. reflexivity.
Qed.

Lemma compose_refines : forall wc us w,
  w_st (fst (crun wc w us)) = fst (run (wc_g wc) (w_st w) (elabs wc w us)) /\
  snd (crun wc w us) = snd (run (wc_g wc) (w_st w) (elabs wc w us)).
Proof.
  intros wc us. induction us as [| u t IH]; intro w; [split; reflexivity |].
  rewrite crun_cons. cbn [elabs fst snd]. rewrite run_cons. cbn [fst snd].
  destruct (cstep_base wc w u) as [B1 B2]. destruct (IH (fst (fst (cstep wc w u)))) as [I1 I2].
  rewrite B1 in I1, I2. split; [exact I1 | rewrite B2, I2; reflexivity].
Qed.

(* the ids the user starts; a refresh timer that fires starts an operation (with an id from the shared
   counter) only when a refresh is due: `started_by` of the elaborated event decides *)
Definition ustarted_by (u : uev) : option N :=
  match u with
  | UCmd q _ _ | UPutToPeers q _ _ _ | UFire q _ _ => Some q
  | UEv e => started_by e
  | _ => None
  end.
Definition ustarted (q : N) (us : list uev) : nat :=
  length (filter (fun u => opt_is (ustarted_by u) q) us).

Lemma elab_started : forall wc w u,
  started_by (fst (fst (elab wc w u))) = ustarted_by u \/
  (started_by (fst (fst (elab wc w u))) = None /\ exists q rk t, u = UFire q rk t /\ fire_due w rk = None).
Proof.
  intros wc w u. destruct u as [q c target | q qr rk given | rk | p a | rk | q rk target | id rq | e]; cbn [elab ustarted_by].
  - left. destruct c; cbn [fst started_by]; try reflexivity.
    destruct (V.C17.Model.get (w_store w) rk 0) as [st' r]. reflexivity.
  - left. destruct (rt_filter wc (w_rt w) given) as [t' ps]. reflexivity.
  - left. reflexivity.
  - left. reflexivity.
  - left. reflexivity.
  - destruct (fire_due w rk) eqn:E; [left; reflexivity |]. right. split; [reflexivity |]. eauto.
  - left. destruct (side_k wc w (EFut id (RRead (msg_of_req rq))) (req_key rq)) as [t' s']. reflexivity.
  - left. destruct (side wc w e) as [t' s']. reflexivity.
Qed.

Fixpoint ufresh (seen : list N) (us : list uev) : Prop :=
  match us with
  | [] => True
  | u :: t => match ustarted_by u with
              | Some q => ~ In q seen /\ ufresh (q :: seen) t
              | None => ufresh seen t
              end
  end.

Lemma fresh_ids_weaken : forall es seen seen',
  (forall x, In x seen' -> In x seen) -> fresh_ids seen es -> fresh_ids seen' es.
Proof.
  intros es. induction es as [| e t IH]; intros seen seen' Hi H; [exact I |]. cbn [fresh_ids] in *.
  destruct (started_by e) as [q |].
  - destruct H as [H1 H2]. split; [intro K; apply H1; apply Hi; exact K |].
    apply (IH (q :: seen)); [| exact H2]. intros x [Hx | Hx]; [left; exact Hx | right; apply Hi; exact Hx].
  - apply (IH seen); assumption.
Qed.

Lemma elabs_fresh : forall wc us w seen, ufresh seen us -> fresh_ids seen (elabs wc w us).
Proof.
  intros wc us. induction us as [| u t IH]; intros w seen H; [exact I |].
  cbn [elabs fresh_ids ufresh] in *.
  destruct (elab_started wc w u) as [E | (E & q & rk & tg & Eu & _)]; rewrite E.
  - destruct (ustarted_by u).
    + destruct H as [H1 H2]. split; [exact H1 | apply IH; exact H2].
    + apply IH. exact H.
  - subst u. cbn [ustarted_by] in H. destruct H as [_ H2].
    apply (fresh_ids_weaken _ (q :: seen)); [intros x Hx; right; exact Hx | apply IH; exact H2].
Qed.

Lemma elabs_started : forall wc q us w, (started q (elabs wc w us) <= ustarted q us)%nat.
Proof.
  intros wc q us. induction us as [| u t IH]; intro w; [cbn; lia |].
  cbn [elabs]. unfold started, ustarted in *. cbn [filter]. specialize (IH (fst (fst (cstep wc w u)))).
  destruct (elab_started wc w u) as [E | (E & _)]; rewrite E.
  - destruct (opt_is (ustarted_by u) q); cbn [length]; lia.
  - cbn [opt_is]. destruct (opt_is (ustarted_by u) q); cbn [length]; lia.
Qed.

(* what the composed run starts: commands, put_record_to_peers, and the refreshes that are due *)
Definition cstarted (wc : wcfg) (w : world) (q : N) (us : list uev) : nat := started q (elabs wc w us).

(* ------------------------------------------------------------------ the peers' keys *)

Record keys_ok (wc : wcfg) : Prop := mkKO {
  ko_len : forall p k, In (p, k) (wc_keys wc) -> length k = length (lkey wc);
  ko_pos : (1 <= length (lkey wc))%nat;
  ko_lab : NoDup (map fst (wc_keys wc));          (* one key per label *)
  ko_inj : NoDup (map snd (wc_keys wc));          (* distinct peers have distinct keys *)
  ko_unk : ~ In UNKNOWN (map fst (wc_keys wc))
}.

Lemma aget_cons_ne : forall A (p0 p : N) (k0 : A) t, p0 <> p -> aget p ((p0, k0) :: t) = aget p t.
Proof.
  intros. change ((p0, k0) :: t) with ([(p0, k0)] ++ t). rewrite aget_app.
  replace (aget p [(p0, k0)]) with (@None A); [reflexivity |].
  unfold aget. destruct (N.eqb_spec p0 p); [contradiction | reflexivity].
Qed.

Lemma In_aget : forall A (l : list (N * A)) p k, NoDup (map fst l) -> In (p, k) l -> aget p l = Some k.
Proof.
  intros A l. induction l as [| [p0 k0] t IH]; intros p k Hn Hin; [destruct Hin |].
  cbn [map fst] in Hn. inversion Hn as [| ? ? Hni Hn']. subst.
  destruct Hin as [E | Hin].
  - inversion E. subst. apply aget_head.
  - rewrite aget_cons_ne; [apply IH; assumption |].
    intro E. subst p0. apply Hni. change p with (fst (p, k)). apply in_map. exact Hin.
Qed.

Lemma pkey_In : forall wc p, pkey wc p <> [] -> In (p, pkey wc p) (wc_keys wc).
Proof.
  intros wc p H. unfold pkey in *. destruct (aget p (wc_keys wc)) as [k |] eqn:E; [| congruence].
  apply aget_In. exact E.
Qed.

Lemma pkey_len : forall wc p, keys_ok wc -> pkey wc p = [] \/ length (pkey wc p) = length (lkey wc).
Proof.
  intros wc p Hk. destruct (pkey wc p) eqn:E; [left; reflexivity |]. right. rewrite <- E.
  apply (ko_len wc Hk p). apply pkey_In. congruence.
Qed.

Lemma peer_of_In : forall (keys : list (N * key)) p k,
  NoDup (map snd keys) -> In (p, k) keys -> peer_of keys k = p.
Proof.
  intros keys. induction keys as [| [p0 k0] t IH]; intros p k Hn Hin; [destruct Hin |].
  cbn [peer_of]. cbn [map snd] in Hn. inversion Hn as [| ? ? Hni Hn']. subst.
  destruct (R.key_eqb k0 k) eqn:E.
  - apply RP.key_eqb_eq in E. subst k0. destruct Hin as [H | H]; [inversion H; reflexivity |].
    exfalso. apply Hni. change k with (snd (p, k)). apply in_map. exact H.
  - destruct Hin as [H | H].
    + inversion H. subst. rewrite RP.key_eqb_refl in E. discriminate.
    + apply IH; assumption.
Qed.

Lemma peer_of_known : forall (keys : list (N * key)) k p,
  peer_of keys k = p -> p <> UNKNOWN -> In (p, k) keys.
Proof.
  intros keys k p. induction keys as [| [p0 k0] t IH]; cbn [peer_of]; [intros E Hn; congruence |].
  destruct (R.key_eqb k0 k) eqn:E.
  - intros Ep _. subst p0. apply RP.key_eqb_eq in E. subst k0. left. reflexivity.
  - intros Ep Hn. right. apply IH; assumption.
Qed.

Lemma peer_of_pkey : forall wc p, keys_ok wc -> pkey wc p <> [] -> peer_of (wc_keys wc) (pkey wc p) = p.
Proof. intros wc p Hk H. apply peer_of_In; [apply (ko_inj wc Hk) | apply pkey_In; exact H]. Qed.

Lemma lkey_nonempty : forall wc, keys_ok wc -> lkey wc <> [].
Proof. intros wc Hk E. pose proof (ko_pos wc Hk) as H. rewrite E in H. cbn in H. lia. Qed.

Lemma local_known : forall wc, keys_ok wc -> g_local (wc_g wc) <> UNKNOWN.
Proof.
  intros wc Hk E. apply (ko_unk wc Hk). rewrite <- E.
  change (g_local (wc_g wc)) with (fst (g_local (wc_g wc), lkey wc)). apply in_map.
  apply pkey_In. apply lkey_nonempty. exact Hk.
Qed.

(* ------------------------------------------------------------------ the table keeps C14's invariant *)

Definition TInv (wc : wcfg) (t : table) : Prop := RP.Inv (lkey wc) (wc_K wc) t.

Lemma ilog2_nil : forall l, R.ilog2 (R.kxor l []) = None.
Proof. intros. destruct l; reflexivity. Qed.

Lemma rt_op_nokey : forall wc t o, R.op_key o = [] -> rt_op wc t o = t.
Proof.
  intros wc t o E. unfold rt_op, R.step, R.step_gen. rewrite E, ilog2_nil. destruct o as [| | k [|] c | | |]; reflexivity.
Qed.

Lemma rt_op_inv : forall wc t o p,
  keys_ok wc -> R.op_key o = pkey wc p -> TInv wc t -> TInv wc (rt_op wc t o).
Proof.
  intros wc t o p Hk E HI. destruct (pkey_len wc p Hk) as [H | H].
  - rewrite rt_op_nokey; [exact HI | congruence].
  - unfold rt_op. apply RP.step_inv; [exact HI | congruence].
Qed.

Lemma upd_inv : forall wc t i b',
  TInv wc t -> (i < length t)%nat -> RP.BInv (lkey wc) (wc_K wc) i b' -> TInv wc (R.upd_nth i b' t).
Proof.
  intros wc t i b' [HL HB] Hlt Hb'. split; [rewrite RP.upd_nth_length; exact HL |].
  intros j Hj. rewrite RP.upd_nth_length in Hj. destruct (Nat.eq_dec j i) as [-> | Hne].
  - rewrite RP.nth_upd_same by exact Hlt. exact Hb'.
  - rewrite RP.nth_upd_other by exact Hne. apply HB. exact Hj.
Qed.

Lemma entry_occ : forall K b k a y c,
  R.bucket_entry K b k = R.SOcc a y c -> b = a ++ y :: c /\ R.n_key y = k.
Proof.
  intros K b k a y c Es. unfold R.bucket_entry in Es.
  destruct (R.split_first (R.has_key k) b) as [[[a0 y0] c0] |] eqn:E1.
  - inversion Es. subst. apply RP.split_first_some in E1. destruct E1 as (Hb & Hy & _).
    split; [exact Hb |]. unfold R.has_key in Hy. apply RP.key_eqb_eq in Hy. exact Hy.
  - destruct (length b <? K)%nat; [discriminate |].
    destruct (R.split_first R.replaceable b) as [[[a0 y0] c0] |]; discriminate.
Qed.

Lemma rt_disconnect_inv : forall wc t p, keys_ok wc -> TInv wc t -> TInv wc (rt_disconnect wc t p).
Proof. intros wc t p Hk HI. unfold rt_disconnect. eapply rt_op_inv; [exact Hk | reflexivity | exact HI]. Qed.

Lemma rt_filter1_table : forall wc t p, fst (rt_filter1 wc t p) = rt_op wc t (R.OEntry (pkey wc p)).
Proof.
  intros wc t p. unfold rt_filter1, rt_op, R.step, R.step_gen. cbn [R.op_key].
  destruct (R.ilog2 (R.kxor (lkey wc) (pkey wc p))); reflexivity.
Qed.

Lemma rt_filter_inv : forall wc ps t, keys_ok wc -> TInv wc t -> TInv wc (fst (rt_filter wc t ps)).
Proof.
  intros wc ps. induction ps as [| p r IH]; intros t Hk HI; [exact HI |]. cbn [rt_filter].
  destruct (p =? g_local (wc_g wc)); [apply IH; assumption |].
  pose proof (rt_filter1_table wc t p) as E. destruct (rt_filter1 wc t p) as [t1 o]. cbn [fst] in E.
  specialize (IH t1 Hk). destruct (rt_filter wc t1 r) as [t2 l]. cbn [fst] in *. apply IH.
  rewrite E. eapply rt_op_inv; [exact Hk | reflexivity | exact HI].
Qed.

Lemma rt_learn_inv : forall wc s ps t, keys_ok wc -> TInv wc t -> TInv wc (rt_learn wc s t ps).
Proof.
  intros wc s ps. unfold rt_learn. induction ps as [| p r IH]; intros t Hk HI; [exact HI |]. cbn [fold_left].
  apply IH; [exact Hk |]. destruct (p =? g_local (wc_g wc)); [exact HI |].
  eapply rt_op_inv; [exact Hk | reflexivity | exact HI].
Qed.

Lemma side_k_inv : forall wc w e ik, keys_ok wc -> TInv wc (w_rt w) -> TInv wc (fst (side_k wc w e ik)).
Proof.
  intros wc w e ik Hk HI. unfold side_k.
  set (t0 := match disconnects (w_st w) e with Some p => rt_disconnect wc (w_rt w) p | None => w_rt w end).
  assert (H0 : TInv wc t0).
  { subst t0. destruct (disconnects (w_st w) e); [apply rt_disconnect_inv; assumption | exact HI]. }
  clearbody t0.
  destruct e; cbn [fst]; try exact H0.
  - destruct (aget p (conn (w_st w))); cbn [fst]; [exact H0 |].
    eapply rt_op_inv; [exact Hk | reflexivity | exact H0].
  - eapply rt_op_inv; [exact Hk | reflexivity | exact H0].
  - destruct r as [| | | m |]; cbn [fst]; try exact H0.
    destruct (find_fut id (futs (w_st w))) as [f |]; [| exact H0].
    destruct (res_ok (f_kind f) (RRead m)); [| exact H0].
    destruct (f_q f).
    + cbn [fst]. destruct (msg_peers (trunc_msg (wc_g wc) m)); [| exact H0].
      destruct (wc_auto wc); [apply rt_learn_inv; assumption | exact H0].
    + destruct (trunc_msg (wc_g wc) m); exact H0.
Qed.

Lemma side_inv : forall wc w e, keys_ok wc -> TInv wc (w_rt w) -> TInv wc (fst (side wc w e)).
Proof. intros. apply side_k_inv; assumption. Qed.

Lemma elab_inv : forall wc w u, keys_ok wc -> TInv wc (w_rt w) -> TInv wc (snd (fst (elab wc w u))).
Proof.
  intros wc w u Hk HI. destruct u as [q c target | q qr rk given | rk | p a | rk | q rk target | id rq | e]; cbn [elab].
  - destruct c; cbn [fst snd]; try exact HI. destruct (V.C17.Model.get (w_store w) rk 0). exact HI.
  - pose proof (rt_filter_inv wc given (w_rt w) Hk HI) as F. destruct (rt_filter wc (w_rt w) given). exact F.
  - exact HI.
  - cbn [fst snd]. eapply rt_op_inv; [exact Hk | reflexivity | exact HI].
  - exact HI.
  - destruct (fire_due w rk); exact HI.
  - pose proof (side_k_inv wc w (EFut id (RRead (msg_of_req rq))) (req_key rq) Hk HI) as F.
    destruct (side_k wc w (EFut id (RRead (msg_of_req rq))) (req_key rq)). exact F.
  - pose proof (side_inv wc w e Hk HI) as F. destruct (side wc w e). exact F.
Qed.

Lemma cstep_inv : forall wc w u, keys_ok wc -> TInv wc (w_rt w) -> TInv wc (w_rt (fst (fst (cstep wc w u)))).
Proof. intros. rewrite cstep_rt. apply elab_inv; assumption. Qed.

Lemma crun_inv : forall wc us w, keys_ok wc -> TInv wc (w_rt w) -> TInv wc (w_rt (fst (crun wc w us))).
Proof.
  intros wc us. induction us as [| u t IH]; intros w Hk HI; [exact HI |].
  rewrite crun_cons. cbn [fst]. apply IH; [exact Hk |]. apply cstep_inv; assumption.
Qed.

Lemma table_inv : forall wc m us,
  keys_ok wc -> TInv wc (w_rt (fst (crun wc (w0 wc m (length (lkey wc))) us))).
Proof. intros. apply crun_inv; [assumption |]. apply RP.empty_inv. Qed.

(* ------------------------------------------------------------------ who puts peers into the table *)

(* only add_known_peer writes a new key into a bucket; every other table operation of the event loop
   rewrites an existing node in place, or pushes the key-less placeholder of a vacant entry() *)
Definition is_add (o : R.op) : bool :=
  match o with R.OAdd _ true _ | R.OInsert _ _ _ => true | _ => false end.

Definition is_add_any (o : R.op) : bool :=
  match o with R.OAdd _ _ _ | R.OInsert _ _ _ => true | _ => false end.

Definition has_node_key (t : table) (k : key) : Prop := exists n, In n (concat t) /\ R.n_key n = k.

Lemma in_concat_upd : forall (t : table) i b' n,
  In n (concat (R.upd_nth i b' t)) -> In n b' \/ In n (concat t).
Proof.
  intros t. induction t as [| b r IH]; intros i b' n H; [destruct i; destruct H |].
  destruct i as [| j]; cbn [R.upd_nth concat] in *; apply in_app_or in H; destruct H as [H | H].
  - left. exact H.
  - right. apply in_or_app. right. exact H.
  - right. apply in_or_app. left. exact H.
  - destruct (IH j b' n H) as [H1 | H1]; [left; exact H1 | right; apply in_or_app; right; exact H1].
Qed.

Lemma in_nth_concat : forall (t : table) i n, In n (nth i t []) -> In n (concat t).
Proof.
  intros t. induction t as [| b r IH]; intros i n H; [destruct i; destruct H |].
  destruct i as [| j]; cbn [nth concat] in *; apply in_or_app; [left; exact H | right; eapply IH; exact H].
Qed.

Lemma entry_vac : forall K b k a y c,
  R.bucket_entry K b k = R.SVac a y c ->
  (a = b /\ y = R.placeholder /\ c = []) \/ b = a ++ y :: c.
Proof.
  intros K b k a y c Es. unfold R.bucket_entry in Es.
  destruct (R.split_first (R.has_key k) b) as [[[a0 y0] c0] |]; [discriminate |].
  destruct (length b <? K)%nat.
  - inversion Es. subst. left. repeat split.
  - destruct (R.split_first R.replaceable b) as [[[a0 y0] c0] |] eqn:E2; [| discriminate].
    inversion Es. subst. right. apply RP.split_first_some in E2. apply E2.
Qed.

Lemma apply_slot_keys : forall K b o n,
  In n (R.apply_slot o b (R.bucket_entry K b (R.op_key o))) -> R.n_key n <> [] ->
  (exists n', In n' b /\ R.n_key n' = R.n_key n) \/ (is_add_any o = true /\ R.n_key n = R.op_key o).
Proof.
  intros K b o n Hin Hr.
  destruct (R.bucket_entry K b (R.op_key o)) as [| | a y c | a y c] eqn:Es.
  - left. exists n. split; [| reflexivity]. destruct o as [| | ? [|] ? | | |]; exact Hin.
  - left. exists n. split; [| reflexivity]. destruct o as [| | ? [|] ? | | |]; exact Hin.
  - (* occupied: the node keeps its key *)
    pose proof (entry_occ _ _ _ _ _ _ Es) as [Hb Hy].
    assert (G : forall y', R.n_key y' = R.n_key y -> In n (a ++ y' :: c) ->
                exists n', In n' b /\ R.n_key n' = R.n_key n).
    { intros y' Ey H. rewrite Hb. apply in_app_or in H. destruct H as [H | [H | H]].
      - exists n. split; [apply in_or_app; left; exact H | reflexivity].
      - subst n. exists y. split; [apply in_or_app; right; left; reflexivity | symmetry; exact Ey].
      - exists n. split; [apply in_or_app; right; right; exact H | reflexivity]. }
    left. unfold R.apply_slot, R.apply_slot_gen in Hin.
    destruct o as [k0 | k0 a0 c0 | k0 [|] c0 | k0 d0 | k0 ne0 | k0]; cbn [R.slot_bucket] in Hin;
      (eapply G; [| exact Hin]; reflexivity).
  - (* vacant *)
    assert (G : In n (a ++ y :: c) -> exists n', In n' b /\ R.n_key n' = R.n_key n).
    { intro H. destruct (entry_vac _ _ _ _ _ _ Es) as [(-> & -> & ->) | Hb].
      - apply in_app_or in H. destruct H as [H | [H | []]]; [exists n; split; [exact H | reflexivity] |].
        subst n. cbn in Hr. congruence.
      - exists n. split; [rewrite Hb; exact H | reflexivity]. }
    assert (G2 : forall y', R.n_key y' = R.op_key o -> In n (a ++ y' :: c) ->
                 (exists n', In n' b /\ R.n_key n' = R.n_key n) \/ R.n_key n = R.op_key o).
    { intros y' Ey H. apply in_app_or in H. destruct H as [H | [H | H]].
      - left. apply G. apply in_or_app. left. exact H.
      - right. subst n. exact Ey.
      - left. apply G. apply in_or_app. right. right. exact H. }
    unfold R.apply_slot, R.apply_slot_gen in Hin.
    destruct o as [k0 | k0 a0 c0 | k0 a0 c0 | k0 d0 | k0 ne0 | k0]; cbn [R.slot_bucket R.op_key is_add_any] in *;
      try (left; apply G; exact Hin).
    + destruct (G2 (R.mkNode k0 a0 c0) eq_refl Hin) as [H | H]; [left; exact H | right; split; [reflexivity | exact H]].
    + destruct (G2 (R.mkNode k0 true c0) eq_refl Hin) as [H | H]; [left; exact H | right; split; [reflexivity | exact H]].
Qed.

Lemma rt_op_keys : forall wc t o n,
  In n (concat (rt_op wc t o)) -> R.n_key n <> [] ->
  has_node_key t (R.n_key n) \/ (is_add o = true /\ R.n_key n = R.op_key o).
Proof.
  intros wc t o n Hin Hr.
  assert (Same : In n (concat t) -> has_node_key t (R.n_key n)) by (intro H; exists n; split; [exact H | reflexivity]).
  destruct (is_add o) eqn:Ea.
  2: assert (Hno : is_add_any o = false \/ rt_op wc t o = t).
  2: { destruct o as [| | k0 [|] c0 | | |]; try (left; reflexivity); [discriminate Ea | discriminate Ea | right; reflexivity]. }
  2: destruct Hno as [Hno | Hno]; [| rewrite Hno in Hin; left; apply Same; exact Hin].
  all: unfold rt_op in Hin;
    destruct (RP.step_cases (lkey wc) (wc_K wc) t o) as [E | (i & _ & E)]; rewrite E in Hin;
    [left; apply Same; exact Hin |];
    apply in_concat_upd in Hin; destruct Hin as [Hin | Hin]; [| left; apply Same; exact Hin];
    destruct (apply_slot_keys _ _ _ _ Hin Hr) as [(n' & H1 & H2) | [H3 H4]];
    [left; exists n'; split; [eapply in_nth_concat; exact H1 | exact H2] |].
  - right. split; [reflexivity | exact H4].
  - congruence.
Qed.

Lemma rt_op_keys_noadd : forall wc t o k,
  is_add o = false -> k <> [] -> has_node_key (rt_op wc t o) k -> has_node_key t k.
Proof.
  intros wc t o k Ha Hk (n & Hin & En). subst k.
  destruct (rt_op_keys wc t o n Hin Hk) as [H | [H _]]; [exact H | congruence].
Qed.

Lemma rt_filter_keys : forall wc ps t k,
  k <> [] -> has_node_key (fst (rt_filter wc t ps)) k -> has_node_key t k.
Proof.
  intros wc ps. induction ps as [| p r IH]; intros t k Hk H; [exact H |]. cbn [rt_filter] in H.
  destruct (p =? g_local (wc_g wc)); [apply IH; assumption |].
  pose proof (rt_filter1_table wc t p) as E. destruct (rt_filter1 wc t p) as [t1 o]. cbn [fst] in E.
  specialize (IH t1 k Hk). destruct (rt_filter wc t1 r) as [t2 l]. cbn [fst] in *.
  specialize (IH H). rewrite E in IH. eapply rt_op_keys_noadd; [| exact Hk | exact IH]. reflexivity.
Qed.

(* RoutingTableUpdateMode::Manual: an event of the loop never brings a new peer into the table *)
Lemma side_keys_manual : forall wc w e ik k,
  wc_auto wc = false -> k <> [] -> has_node_key (fst (side_k wc w e ik)) k -> has_node_key (w_rt w) k.
Proof.
  intros wc w e ik k Hm Hk. unfold side_k.
  set (t0 := match disconnects (w_st w) e with Some p => rt_disconnect wc (w_rt w) p | None => w_rt w end).
  assert (H0 : has_node_key t0 k -> has_node_key (w_rt w) k).
  { subst t0. destruct (disconnects (w_st w) e); [| tauto]. unfold rt_disconnect.
    apply rt_op_keys_noadd; [reflexivity | exact Hk]. }
  clearbody t0.
  destruct e; cbn [fst]; try exact H0.
  - destruct (aget p (conn (w_st w))); cbn [fst]; [exact H0 |].
    intro H. apply H0. eapply rt_op_keys_noadd; [| exact Hk | exact H]. reflexivity.
  - intro H. apply H0. eapply rt_op_keys_noadd; [| exact Hk | exact H]. reflexivity.
  - destruct r as [| | | m |]; cbn [fst]; try exact H0.
    destruct (find_fut id (futs (w_st w))) as [f |]; [| exact H0].
    destruct (res_ok (f_kind f) (RRead m)); [| exact H0].
    destruct (f_q f).
    + cbn [fst]. rewrite Hm. destruct (msg_peers (trunc_msg (wc_g wc) m)); exact H0.
    + destruct (trunc_msg (wc_g wc) m); exact H0.
Qed.

Lemma cstep_keys_manual : forall wc w u k,
  wc_auto wc = false -> k <> [] -> has_node_key (w_rt (fst (fst (cstep wc w u)))) k ->
  has_node_key (w_rt w) k \/ exists p, u = UAddKnownPeer p true /\ k = pkey wc p.
Proof.
  intros wc w u k Hm Hk. rewrite cstep_rt.
  destruct u as [q c target | q qr rk given | rk | p a | rk | q rk target | id rq | e]; cbn [elab].
  - left. destruct c; cbn [fst snd] in *; try assumption. destruct (V.C17.Model.get (w_store w) rk 0). assumption.
  - intro H. left. pose proof (rt_filter_keys wc given (w_rt w) k Hk) as F.
    destruct (rt_filter wc (w_rt w) given). apply F. exact H.
  - left. assumption.
  - cbn [fst snd]. intros (n & Hin & En). subst k.
    destruct (rt_op_keys wc (w_rt w) _ n Hin Hk) as [H | [Ha Ek]]; [left; exact H |].
    right. exists p. destruct a; [split; [reflexivity | exact Ek] | discriminate Ha].
  - left. assumption.
  - left. destruct (fire_due w rk); assumption.
  - intro H. left. pose proof (side_keys_manual wc w (EFut id (RRead (msg_of_req rq))) (req_key rq) k Hm Hk) as F.
    destruct (side_k wc w (EFut id (RRead (msg_of_req rq))) (req_key rq)). apply F. exact H.
  - intro H. left. pose proof (side_keys_manual wc w e INBOUND_KEY k Hm Hk) as F. unfold side in H.
    destruct (side_k wc w e INBOUND_KEY). apply F. exact H.
Qed.

Lemma crun_keys_manual : forall wc us w k,
  wc_auto wc = false -> k <> [] -> has_node_key (w_rt (fst (crun wc w us))) k ->
  has_node_key (w_rt w) k \/ exists p, In (UAddKnownPeer p true) us /\ k = pkey wc p.
Proof.
  intros wc us. induction us as [| u t IH]; intros w k Hm Hk H; [left; exact H |].
  rewrite crun_cons in H. cbn [fst] in H.
  destruct (IH _ k Hm Hk H) as [H1 | (p & H1 & H2)].
  - destruct (cstep_keys_manual wc w u k Hm Hk H1) as [H2 | (p & -> & H2)]; [left; exact H2 |].
    right. exists p. split; [left; reflexivity | exact H2].
  - right. exists p. split; [right; exact H1 | exact H2].
Qed.

Lemma concat_repeat_nil : forall A n, concat (repeat (@nil A) n) = [].
Proof. intros A n. induction n as [| n IH]; [reflexivity | exact IH]. Qed.

Lemma manual_table : forall wc m L us n,
  wc_auto wc = false ->
  In n (concat (w_rt (fst (crun wc (w0 wc m L) us)))) -> R.n_key n <> [] ->
  exists p, In (UAddKnownPeer p true) us /\ R.n_key n = pkey wc p.
Proof.
  intros wc m L us n Hm Hin Hr.
  destruct (crun_keys_manual wc us (w0 wc m L) (R.n_key n) Hm Hr) as [(n' & H & _) | H].
  - exists n. split; [exact Hin | reflexivity].
  - exfalso. cbn [w0 w_rt] in H. unfold R.empty_table in H. rewrite concat_repeat_nil in H. destruct H.
  - exact H.
Qed.

(* IncomingRecordValidationMode::Manual: no event of the loop writes the store; only the user's
   store_record / put_record do *)
Lemma side_k_store_manual : forall wc w e ik, wc_vauto wc = false -> snd (side_k wc w e ik) = w_store w.
Proof.
  intros wc w e ik Hm. unfold side_k. destruct e; cbn [snd]; try reflexivity.
  - destruct (aget p (conn (w_st w))); reflexivity.
  - destruct r as [| | | m |]; try reflexivity.
    destruct (find_fut id (futs (w_st w))) as [f |]; [| reflexivity].
    destruct (res_ok (f_kind f) (RRead m)); [| reflexivity].
    destruct (f_q f); [reflexivity |].
    destruct (trunc_msg (wc_g wc) m); try reflexivity. rewrite Hm. reflexivity.
Qed.

Lemma manual_validation : forall wc w u,
  wc_vauto wc = false ->
  (exists e, u = UEv e) \/ (exists id rk, u = UInReq id (IPutValue rk)) ->
  w_store (fst (fst (cstep wc w u))) = w_store w.
Proof.
  intros wc w u Hm [[e ->] | (id & rk & ->)]; rewrite cstep_store; cbn [elab].
  - pose proof (side_k_store_manual wc w e INBOUND_KEY Hm) as Hs. unfold side.
    destruct (side_k wc w e INBOUND_KEY) as [t' s']. exact Hs.
  - pose proof (side_k_store_manual wc w (EFut id (RRead (msg_of_req (IPutValue rk)))) (req_key (IPutValue rk)) Hm) as Hs.
    destruct (side_k wc w (EFut id (RRead (msg_of_req (IPutValue rk)))) (req_key (IPutValue rk))) as [t' s']. exact Hs.
Qed.

(* in the Automatic mode an inbound PUT_VALUE is in the store when its read future has completed *)
Lemma auto_validation : forall wc w id rk,
  wc_vauto wc = true -> inbound_read (w_st w) id = true ->
  w_store (fst (fst (cstep wc w (UInReq id (IPutValue rk))))) =
  S.put (wc_scfg wc) (w_store w) (local_record wc rk).
Proof.
  intros wc w id rk Hm Hf. rewrite cstep_store. cbn [elab msg_of_req req_key]. unfold side_k.
  unfold inbound_read in Hf. destruct (find_fut id (futs (w_st w))) as [f |]; [| discriminate].
  destruct (f_kind f) eqn:Ek; try discriminate. destruct (f_q f) eqn:Eq; [discriminate |].
  cbn [res_ok trunc_msg]. rewrite Hm. reflexivity.
Qed.

(* ------------------------------------------------------------------ the seeds of a lookup *)

Lemma elab_cmd : forall wc w q c target,
  exists cmd, fst (fst (elab wc w (UCmd q c target))) =
              ECmd q cmd (dists_of wc target) (seeds_of wc (w_rt w) target).
Proof.
  intros wc w q c target. cbn [elab]. destruct c; cbn [fst]; eauto.
  destruct (V.C17.Model.get (w_store w) rk 0). cbn [fst]. eauto.
Qed.

Lemma firstn_In : forall A n (l : list A) x, In x (firstn n l) -> In x l.
Proof.
  intros A n. induction n as [| n IH]; intros l x H; [destruct H |].
  destruct l as [| h t]; [destruct H |]. destruct H as [H | H]; [left; exact H | right; apply IH; exact H].
Qed.

(* what closest returns are addressed nodes of the table, hence real peers, hence not the local one *)
Lemma closest_not_local : forall wc t target k n,
  TInv wc t -> In n (R.closest (lkey wc) t target k) -> R.n_key n <> lkey wc.
Proof.
  intros wc t target k n HI Hin. unfold R.closest in Hin. apply firstn_In in Hin.
  unfold R.all_closest in Hin. apply in_flat_map in Hin. destruct Hin as (i & _ & Hin).
  unfold R.bucket_closest in Hin.
  assert (Hin' : In n (filter R.n_addr (nth i t []))).
  { eapply Permutation_in; [apply RP.sort_perm | exact Hin]. }
  apply filter_In in Hin'. destruct Hin' as [Hb Ha].
  destruct (RP.inv_nth _ _ _ i HI) as (_ & Hok & _). rewrite Forall_forall in Hok.
  destruct (Hok n Hb) as [[_ Hf] | [_ Hidx]]; [congruence |].
  intro E. rewrite E, RP.kxor_self_ilog2 in Hidx. discriminate.
Qed.

Lemma seeds_not_local : forall wc t target,
  keys_ok wc -> TInv wc t -> ~ In (g_local (wc_g wc)) (seeds_of wc t target).
Proof.
  intros wc t target Hk HI Hin. unfold seeds_of in Hin. apply in_map_iff in Hin.
  destruct Hin as (n & Hn & Hc).
  apply peer_of_known in Hn; [| apply local_known; exact Hk].
  apply (In_aget _ _ _ _ (ko_lab wc Hk)) in Hn.
  apply (closest_not_local wc t target _ n HI Hc). unfold lkey, pkey. rewrite Hn. reflexivity.
Qed.

Lemma seeds_facts : forall wc t target,
  keys_ok wc -> TInv wc t -> length target = length (lkey wc) -> RP.outside_class (lkey wc) t target ->
  let k := N.to_nat (g_k (wc_g wc)) in
  let nodes := R.closest (lkey wc) t target k in
  let cands := filter R.n_addr (concat t) in
  seeds_of wc t target = map (fun n => peer_of (wc_keys wc) (R.n_key n)) nodes /\
  StronglySorted (RP.dlt target) nodes /\ NoDup (map R.n_key nodes) /\
  (forall n, In n nodes -> In n cands) /\
  length nodes = Nat.min k (length cands) /\
  (forall a b, In a nodes -> In b cands -> ~ In b nodes -> RP.dlt target a b) /\
  ~ In (g_local (wc_g wc)) (seeds_of wc t target).
Proof.
  intros wc t target Hk HI Hl Hc k nodes cands.
  destruct (RP.closest_facts (lkey wc) (wc_K wc) t target k (ko_pos wc Hk) HI Hl Hc) as (F1 & F2 & F3 & F4 & F5).
  split; [reflexivity |]. split; [exact F1 |]. split; [exact F2 |]. split; [exact F3 |].
  split; [exact F4 |]. split; [exact F5 |]. apply seeds_not_local; assumption.
Qed.

(* ------------------------------------------------------------------ put_record_to_peers names its targets *)

Lemma rt_filter1_named : forall wc t p x, keys_ok wc -> snd (rt_filter1 wc t p) = Some x -> x = p.
Proof.
  intros wc t p x Hk. unfold rt_filter1.
  destruct (R.ilog2 (R.kxor (lkey wc) (pkey wc p))) as [i |] eqn:Ei; cbn [snd]; [| discriminate].
  destruct (R.bucket_entry (wc_K wc) (nth i t []) (pkey wc p)) as [| | a y c | a y c] eqn:Es; try discriminate.
  intros [= <-]. apply entry_occ in Es. destruct Es as [_ Hy]. rewrite Hy. apply peer_of_pkey; [exact Hk |].
  intro E. rewrite E, ilog2_nil in Ei. discriminate.
Qed.

Lemma rt_filter_named : forall wc ps t x, keys_ok wc ->
  In x (snd (rt_filter wc t ps)) -> In x ps /\ x <> g_local (wc_g wc).
Proof.
  intros wc ps. induction ps as [| p r IH]; intros t x Hk H; [destruct H |]. cbn [rt_filter] in H.
  destruct (p =? g_local (wc_g wc)) eqn:El.
  - destruct (IH t x Hk H) as [H1 H2]. split; [right; exact H1 | exact H2].
  - pose proof (rt_filter1_named wc t p) as F. destruct (rt_filter1 wc t p) as [t1 o]. cbn [snd] in F.
    specialize (IH t1 x Hk). destruct (rt_filter wc t1 r) as [t2 l]. cbn [snd] in *.
    destruct o as [y |].
    + destruct H as [H | H].
      * subst y. rewrite (F x Hk eq_refl). split; [left; reflexivity |]. apply N.eqb_neq. exact El.
      * destruct (IH H) as [H1 H2]. split; [right; exact H1 | exact H2].
    + destruct (IH H) as [H1 H2]. split; [right; exact H1 | exact H2].
Qed.

Lemma rt_filter_nodup : forall wc ps t, keys_ok wc -> NoDup ps -> NoDup (snd (rt_filter wc t ps)).
Proof.
  intros wc ps. induction ps as [| p r IH]; intros t Hk Hn; [constructor |]. cbn [rt_filter].
  inversion Hn as [| ? ? Hni Hn']. subst.
  destruct (p =? g_local (wc_g wc)); [apply IH; assumption |].
  pose proof (rt_filter1_named wc t p) as F. destruct (rt_filter1 wc t p) as [t1 o]. cbn [snd] in F.
  pose proof (IH t1 Hk Hn') as N1. pose proof (rt_filter_named wc r t1) as N2.
  destruct (rt_filter wc t1 r) as [t2 l]. cbn [snd] in *.
  destruct o as [y |]; [| exact N1]. constructor; [| exact N1].
  rewrite (F y Hk eq_refl). intro H. apply Hni. apply (N2 p Hk H).
Qed.

Lemma elab_put_to_peers : forall wc w q qr rk given,
  exists ps, fst (fst (elab wc w (UPutToPeers q qr rk given))) = EPutToPeers q qr ps /\
             ps = snd (rt_filter wc (w_rt w) given).
Proof.
  intros. cbn [elab]. destruct (rt_filter wc (w_rt w) given) as [t' ps]. cbn [fst snd]. eauto.
Qed.

Lemma seeds_from_table : forall wc m us q c target,
  keys_ok wc ->
  let w := fst (crun wc (w0 wc m (length (lkey wc))) us) in
  let t := w_rt w in
  let k := N.to_nat (g_k (wc_g wc)) in
  let nodes := R.closest (lkey wc) t target k in
  let cands := filter R.n_addr (concat t) in
  let seeds := map (fun n => peer_of (wc_keys wc) (R.n_key n)) nodes in
  (exists cmd, fst (fst (elab wc w (UCmd q c target))) = ECmd q cmd (dists_of wc target) seeds) /\
  ~ In (g_local (wc_g wc)) seeds /\
  (length target = length (lkey wc) -> RP.outside_class (lkey wc) t target ->
   StronglySorted (RP.dlt target) nodes /\ NoDup (map R.n_key nodes) /\
   (forall n, In n nodes -> In n cands) /\
   length nodes = Nat.min k (length cands) /\
   (forall a b, In a nodes -> In b cands -> ~ In b nodes -> RP.dlt target a b)).
Proof.
  intros wc m us q c target Hk w t k nodes cands seeds.
  pose proof (table_inv wc m us Hk) as HI. fold w in HI.
  split; [apply elab_cmd |]. split; [apply (seeds_not_local wc t target Hk HI) |].
  intros Hl Hc. destruct (seeds_facts wc t target Hk HI Hl Hc) as (_ & F1 & F2 & F3 & F4 & F5 & _).
  repeat split; assumption.
Qed.

Lemma put_to_peers_named : forall wc w q qr rk given,
  keys_ok wc ->
  exists ps, fst (fst (elab wc w (UPutToPeers q qr rk given))) = EPutToPeers q qr ps /\
             (forall x, In x ps -> In x given /\ x <> g_local (wc_g wc)) /\
             (NoDup given -> NoDup ps).
Proof.
  intros wc w q qr rk given Hk. destruct (elab_put_to_peers wc w q qr rk given) as (ps & E & Eps).
  exists ps. split; [exact E |]. subst ps. split.
  - intros x Hx. apply (rt_filter_named wc given (w_rt w) x Hk Hx).
  - apply rt_filter_nodup. exact Hk.
Qed.

(* ------------------------------------------------------------------ well-formed commands come for free *)

Definition ucmd_ok (g : gcfg) (u : uev) : Prop :=
  match u with
  | UPutToPeers _ _ _ given => NoDup given
  | UEv e => cmd_ok g e
  | _ => True
  end.

Lemma elab_cmd_ok : forall wc w u,
  keys_ok wc -> TInv wc (w_rt w) -> ucmd_ok (wc_g wc) u -> cmd_ok (wc_g wc) (fst (fst (elab wc w u))).
Proof.
  intros wc w u Hk HI Hu. destruct u as [q c target | q qr rk given | rk | p a | rk | q rk target | id rq | e].
  - destruct (elab_cmd wc w q c target) as [cmd E]. rewrite E. cbn [cmd_ok].
    apply seeds_not_local; assumption.
  - destruct (elab_put_to_peers wc w q qr rk given) as (ps & E & Eps). rewrite E. cbn [cmd_ok]. subst ps.
    apply rt_filter_nodup; assumption.
  - exact I.
  - exact I.
  - exact I.
  - cbn [elab]. destruct (fire_due w rk); cbn [fst cmd_ok]; [apply seeds_not_local; assumption | exact I].
  - cbn [elab]. destruct (side_k wc w (EFut id (RRead (msg_of_req rq))) (req_key rq)). exact I.
  - cbn [elab]. destruct (side wc w e). exact Hu.
Qed.

Lemma elabs_cmds_ok : forall wc us w,
  keys_ok wc -> TInv wc (w_rt w) -> Forall (ucmd_ok (wc_g wc)) us -> cmds_ok (wc_g wc) (elabs wc w us).
Proof.
  intros wc us. induction us as [| u t IH]; intros w Hk HI HF; [exact I |].
  inversion HF as [| ? ? Hu Ht]. subst. cbn [elabs cmds_ok]. split.
  - apply elab_cmd_ok; assumption.
  - apply IH; [exact Hk | apply cstep_inv; assumption | exact Ht].
Qed.

(* ------------------------------------------------------------------ the store *)

(* every record of the store was put by this node's handlers with the configured ttl *)
Definition SI (wc : wcfg) (s : S.store) : Prop :=
  Forall (fun r => S.r_exp r = Some (wc_ttl wc)) (S.recs s).

Definition stored (s : S.store) (rk : N) : Prop := S.find_rec rk (S.recs s) <> None.

Lemma put_SI : forall wc s rk, SI wc s -> SI wc (S.put (wc_scfg wc) s (local_record wc rk)).
Proof.
  intros wc s rk H. unfold S.put.
  destruct (S.max_size (wc_scfg wc) <=? S.r_len (local_record wc rk)); [exact H |].
  assert (Hr : SI wc (S.mkStore (S.replace_rec (local_record wc rk) (S.recs s)) (S.pkeys s) (S.locals s))).
  { unfold SI. cbn [S.recs]. apply SP.replace_rec_forall; [reflexivity | exact H]. }
  destruct (S.find_rec (S.r_key (local_record wc rk)) (S.recs s)) as [old |].
  - destruct (S.r_exp old); cbn [S.r_exp local_record]; [| exact Hr].
    destruct (wc_ttl wc <? n); [exact H | exact Hr].
  - destruct (S.max_records (wc_scfg wc) <=? N.of_nat (length (S.recs s))); [exact H |].
    unfold SI. cbn [S.recs]. apply Forall_app. split; [exact H | constructor; [reflexivity | constructor]].
Qed.

Lemma get_same : forall wc s k, SI wc s -> 1 <= wc_ttl wc -> S.get s k 0 = (s, S.find_rec k (S.recs s)).
Proof.
  intros wc s k H Ht. unfold S.get. destruct (S.find_rec k (S.recs s)) as [r |] eqn:E; [| reflexivity].
  assert (Hx : S.rec_expired r 0 = false).
  { unfold SI in H. rewrite Forall_forall in H. unfold S.rec_expired.
    rewrite (H r (SP.find_rec_in _ _ _ E)). apply N.leb_gt. lia. }
  rewrite Hx. reflexivity.
Qed.

Lemma put_stored : forall c s r,
  S.r_len r < S.max_size c -> N.of_nat (length (S.recs s)) < S.max_records c ->
  stored (S.put c s r) (S.r_key r).
Proof.
  intros c s r Hs Hn. unfold stored. rewrite SP.put_lookup.
  assert (E1 : S.max_size c <=? S.r_len r = false) by (apply N.leb_gt; exact Hs). rewrite E1.
  destruct (S.find_rec (S.r_key r) (S.recs s)) as [old |].
  - destruct (S.r_exp old), (S.r_exp r); try discriminate. destruct (n0 <? n); discriminate.
  - assert (E2 : S.max_records c <=? N.of_nat (length (S.recs s)) = false) by (apply N.leb_gt; exact Hn).
    rewrite E2. discriminate.
Qed.

Lemma put_keeps : forall c s r rk, stored s rk -> stored (S.put c s r) rk.
Proof.
  intros c s r rk H. unfold stored in *. destruct (N.eq_dec rk (S.r_key r)) as [-> | Hne].
  - rewrite SP.put_lookup. destruct (S.max_size c <=? S.r_len r); [exact H |].
    destruct (S.find_rec (S.r_key r) (S.recs s)) as [old |]; [| congruence].
    destruct (S.r_exp old), (S.r_exp r); try discriminate. destruct (n0 <? n); discriminate.
  - destruct (SP.put_other c s r rk Hne) as [E _]. rewrite E. exact H.
Qed.

Lemma put_length : forall c s r, (length (S.recs (S.put c s r)) <= S (length (S.recs s)))%nat.
Proof.
  intros c s r. unfold S.put. destruct (S.max_size c <=? S.r_len r); [lia |].
  destruct (S.find_rec (S.r_key r) (S.recs s)) as [old |].
  - destruct (S.r_exp old), (S.r_exp r); cbn [S.recs]; rewrite ?SP.replace_rec_length; try lia.
    destruct (n0 <? n); cbn [S.recs]; rewrite ?SP.replace_rec_length; lia.
  - destruct (S.max_records c <=? N.of_nat (length (S.recs s))); cbn [S.recs]; [lia |].
    rewrite app_length. cbn. lia.
Qed.

(* what a composed step does to the store: nothing, or one put of a record of this node *)
Lemma side_k_store : forall wc w e ik,
  snd (side_k wc w e ik) = w_store w \/
  (snd (side_k wc w e ik) = S.put (wc_scfg wc) (w_store w) (local_record wc ik) /\
   exists id, e = EFut id (RRead MPutValue)).
Proof.
  intros wc w e ik. unfold side_k. destruct e; cbn [snd]; try (left; reflexivity).
  - destruct (aget p (conn (w_st w))); left; reflexivity.
  - destruct r as [| | | m |]; try (left; reflexivity).
    destruct (find_fut id (futs (w_st w))) as [f |]; [| left; reflexivity].
    destruct (res_ok (f_kind f) (RRead m)); [| left; reflexivity].
    destruct (f_q f); [left; reflexivity |].
    destruct m; cbn [trunc_msg]; try (left; reflexivity).
    destruct (wc_vauto wc); [right; split; [reflexivity | eauto] | left; reflexivity].
Qed.

Lemma elab_store : forall wc w u, SI wc (w_store w) -> 1 <= wc_ttl wc ->
  snd (elab wc w u) = w_store w \/
  exists rk, snd (elab wc w u) = S.put (wc_scfg wc) (w_store w) (local_record wc rk).
Proof.
  intros wc w u HS Ht. destruct u as [q c target | q qr rk given | rk | p a | rk | q rk target | id rq | e]; cbn [elab].
  - destruct c; cbn [snd]; eauto. rewrite (get_same wc _ rk HS Ht). left. reflexivity.
  - destruct (rt_filter wc (w_rt w) given). left. reflexivity.
  - right. exists rk. reflexivity.
  - left. reflexivity.
  - left. reflexivity.
  - destruct (fire_due w rk); left; reflexivity.
  - pose proof (side_k_store wc w (EFut id (RRead (msg_of_req rq))) (req_key rq)) as Hs.
    destruct (side_k wc w (EFut id (RRead (msg_of_req rq))) (req_key rq)) as [t' s']. cbn [snd] in *.
    destruct Hs as [Hs | [Hs (id' & Hm)]].
    + subst s'. destruct rq; try (left; reflexivity).
      destruct (inbound_read (w_st w) id); [| left; reflexivity].
      rewrite (get_same wc _ rk HS Ht). left. reflexivity.
    + destruct rq; cbn [msg_of_req] in Hm; try discriminate Hm. right. exists (req_key (IPutValue rk)). exact Hs.
  - pose proof (side_k_store wc w e INBOUND_KEY) as Hs. unfold side.
    destruct (side_k wc w e INBOUND_KEY) as [t' s']. cbn [snd] in *.
    destruct Hs as [Hs | [Hs _]]; [left; exact Hs | right; exists INBOUND_KEY; exact Hs].
Qed.

Lemma cstep_SI : forall wc w u, SI wc (w_store w) -> 1 <= wc_ttl wc -> SI wc (w_store (fst (fst (cstep wc w u)))).
Proof.
  intros wc w u HS Ht. rewrite cstep_store. destruct (elab_store wc w u HS Ht) as [E | [rk E]]; rewrite E.
  - exact HS.
  - apply put_SI. exact HS.
Qed.

Lemma cstep_stored : forall wc w u rk, SI wc (w_store w) -> 1 <= wc_ttl wc ->
  stored (w_store w) rk -> stored (w_store (fst (fst (cstep wc w u)))) rk.
Proof.
  intros wc w u rk HS Ht H. rewrite cstep_store. destruct (elab_store wc w u HS Ht) as [E | [rk' E]]; rewrite E.
  - exact H.
  - apply put_keeps. exact H.
Qed.

Lemma cstep_length : forall wc w u, SI wc (w_store w) -> 1 <= wc_ttl wc ->
  (length (S.recs (w_store (fst (fst (cstep wc w u))))) <= S (length (S.recs (w_store w))))%nat.
Proof.
  intros wc w u HS Ht. rewrite cstep_store. destruct (elab_store wc w u HS Ht) as [E | [rk' E]]; rewrite E.
  - lia.
  - apply put_length.
Qed.

Lemma crun_store : forall wc us w rk, SI wc (w_store w) -> 1 <= wc_ttl wc ->
  let w' := fst (crun wc w us) in
  SI wc (w_store w') /\ (stored (w_store w) rk -> stored (w_store w') rk) /\
  (length (S.recs (w_store w')) <= length us + length (S.recs (w_store w)))%nat.
Proof.
  intros wc us. induction us as [| u t IH]; intros w rk HS Ht; cbn zeta.
  - split; [exact HS |]. split; [tauto | cbn; lia].
  - rewrite crun_cons. cbn [fst].
    destruct (IH (fst (fst (cstep wc w u))) rk (cstep_SI wc w u HS Ht) Ht) as (I1 & I2 & I3).
    split; [exact I1 |]. split.
    + intro H. apply I2. apply cstep_stored; assumption.
    + pose proof (cstep_length wc w u HS Ht). cbn [length]. lia.
Qed.

Lemma reach_SI : forall wc m L us, 1 <= wc_ttl wc -> SI wc (w_store (fst (crun wc (w0 wc m L) us))).
Proof.
  intros wc m L us Ht. assert (S0 : SI wc (w_store (w0 wc m L))) by constructor.
  apply (crun_store wc us (w0 wc m L) 0 S0 Ht).
Qed.

(* ---- GetRecord ---- *)
Definition needed_of (g : gcfg) (qr : quorum) : N := match qr with QOne => 1 | QN n => n | QAll => g_k g end.

Lemma get_record_step : forall wc w q qr rk target,
  SI wc (w_store w) -> 1 <= wc_ttl wc ->
  let g := wc_g wc in
  let hit := match S.find_rec rk (S.recs (w_store w)) with Some _ => true | None => false end in
  let lookup := start_lookup g (w_st w) q LRec qr
                  (lcfg g V.C15.Model.KRecord (needed_of g qr) (if hit then 1 else 0) (dists_of wc target))
                  (seeds_of wc (w_rt w) target) in
  fst (cstep wc w (UCmd q (UCGet qr rk) target)) =
  match qr, hit with
  | QOne, true => (w, [OPartial q (g_local g) LOCAL_REC; OGetRecSuccess q])
  | _, _ => (mkW lookup (w_rt w) (w_store w) (w_prov w) (w_timers w),
             if hit then [OPartial q (g_local g) LOCAL_REC] else [])
  end.
Proof.
  intros wc w q qr rk target HS Ht g hit lookup. unfold cstep. cbn [elab prov_side fst snd].
  rewrite (get_same wc _ rk HS Ht). subst hit lookup.
  destruct (S.find_rec rk (S.recs (w_store w))) as [r |]; cbn [step on_cmd];
    destruct qr; cbn [fst snd needed_of]; try reflexivity.
  destruct w; reflexivity.
Qed.

(* the event puts a record with key rk into the store: store_record, the local half of put_record, or —
   with automatic validation — a PUT_VALUE of a remote peer read from an inbound substream *)
Definition stores (wc : wcfg) (w : world) (u : uev) (rk : N) : Prop :=
  u = UStoreRecord rk \/ (exists q0 qr0 t0, u = UCmd q0 (UCPut qr0 rk) t0) \/
  (wc_vauto wc = true /\ exists id, u = UInReq id (IPutValue rk) /\ inbound_read (w_st w) id = true).

Lemma stores_put : forall wc w u rk, stores wc w u rk ->
  snd (elab wc w u) = S.put (wc_scfg wc) (w_store w) (local_record wc rk).
Proof.
  intros wc w u rk [-> | [(q0 & qr0 & t0 & ->) | (Hm & id & -> & Hr)]]; try reflexivity.
  rewrite <- cstep_store. apply auto_validation; assumption.
Qed.

(* a record this node stored is found by every later GetRecord(Quorum::One) without the network *)
Lemma put_then_get : forall wc m L us1 u us2 q rk target,
  1 <= wc_ttl wc -> REC_LEN < S.max_size (wc_scfg wc) ->
  N.of_nat (length (us1 ++ u :: us2)) <= S.max_records (wc_scfg wc) ->
  stores wc (fst (crun wc (w0 wc m L) us1)) u rk ->
  let w := fst (crun wc (w0 wc m L) (us1 ++ u :: us2)) in
  fst (cstep wc w (UCmd q (UCGet QOne rk) target)) =
  (w, [OPartial q (g_local (wc_g wc)) LOCAL_REC; OGetRecSuccess q]).
Proof.
  intros wc m L us1 u us2 q rk target Ht Hsz Hn Hu w.
  assert (S0 : SI wc (w_store (w0 wc m L))) by constructor.
  destruct (crun_store wc us1 (w0 wc m L) rk S0 Ht) as (S1 & _ & L1).
  set (w1 := fst (crun wc (w0 wc m L) us1)) in *.
  assert (St : stored (w_store (fst (fst (cstep wc w1 u)))) rk).
  { rewrite cstep_store.
    assert (E : snd (elab wc w1 u) = S.put (wc_scfg wc) (w_store w1) (local_record wc rk)) by (apply stores_put; exact Hu).
    rewrite E. change rk with (S.r_key (local_record wc rk)) at 2. apply put_stored; [exact Hsz |].
    rewrite app_length in Hn. cbn [length] in *. cbn in L1. lia. }
  assert (Ew : w = fst (crun wc (fst (fst (cstep wc w1 u))) us2)).
  { subst w w1. rewrite crun_app, crun_cons. reflexivity. }
  destruct (crun_store wc us2 (fst (fst (cstep wc w1 u))) rk (cstep_SI wc w1 u S1 Ht) Ht) as (S2 & K2 & _).
  rewrite <- Ew in S2, K2. specialize (K2 St).
  rewrite (get_record_step wc w q QOne rk target S2 Ht). unfold stored in K2.
  destruct (S.find_rec rk (S.recs (w_store w))); [reflexivity | congruence].
Qed.

(* ------------------------------------------------------------------ the base theorems on composed histories *)

Section Lift.
Variables (wc : wcfg) (m : list (N * N)).
Let g := wc_g wc.
Let L := length (lkey wc).
Let W (us : list uev) := fst (crun wc (w0 wc m L) us).

Lemma lift_state : forall us, w_st (W us) = fst (run g (st0 m) (elabs wc (w0 wc m L) us)).
Proof. intros. apply (compose_refines wc us (w0 wc m L)). Qed.
Lemma lift_outs : forall us, snd (crun wc (w0 wc m L) us) = snd (run g (st0 m) (elabs wc (w0 wc m L) us)).
Proof. intros. apply (compose_refines wc us (w0 wc m L)). Qed.

Lemma c_no_wait : forall us q x p,
  1 <= g_alpha g ->
  let s := w_st (W us) in
  aget q (eng s) = Some x -> In p (waiting x) -> owes s (negb (is_track x)) q p.
Proof. intros us q x p Ha. cbn zeta. rewrite lift_state. apply no_wait_for_nothing. exact Ha. Qed.

Lemma c_one_terminal : forall us q,
  ufresh [] us ->
  (terminals q (snd (crun wc (w0 wc m L) us)) + (if live q (w_st (W us)) then 1 else 0) =
   cstarted wc (w0 wc m L) q us)%nat /\
  (cstarted wc (w0 wc m L) q us <= ustarted q us)%nat /\ (cstarted wc (w0 wc m L) q us <= 1)%nat.
Proof.
  intros us q Hf. rewrite lift_state, lift_outs. unfold cstarted.
  destruct (one_terminal g m (elabs wc (w0 wc m L) us) q (elabs_fresh wc us _ [] Hf)) as [H1 H2].
  split; [exact H1 |]. split; [apply elabs_started | exact H2].
Qed.

Lemma c_terminates : forall us q,
  1 <= g_alpha g -> ufresh [] us ->
  idle (w_st (W us)) -> quiescent (w_st (W us)) = true ->
  terminals q (snd (crun wc (w0 wc m L) us)) = cstarted wc (w0 wc m L) q us /\
  (cstarted wc (w0 wc m L) q us <= 1)%nat.
Proof.
  intros us q Ha Hf. rewrite lift_state, lift_outs. unfold cstarted.
  apply all_reported; [exact Ha | apply elabs_fresh; exact Hf].
Qed.

Lemma c_cmds_ok : forall us,
  keys_ok wc -> Forall (ucmd_ok g) us -> cmds_ok g (elabs wc (w0 wc m L) us).
Proof. intros us Hk HF. apply elabs_cmds_ok; [exact Hk | apply RP.empty_inv | exact HF]. Qed.

Lemma c_sides : forall us,
  keys_ok wc -> ufresh [] us -> Forall (ucmd_ok g) us ->
  let es := elabs wc (w0 wc m L) us in
  fresh_ids [] es /\ cmds_ok g es.
Proof.
  intros us Hk Hf HF. split; [apply elabs_fresh; exact Hf | apply c_cmds_ok; assumption].
Qed.

Lemma c_at_most_one : forall us k q p,
  keys_ok wc -> ufresh [] us -> Forall (ucmd_ok g) us -> (cnt (w_st (W us)) k q p <= 1)%nat.
Proof.
  intros us k q p Hk Hf HF. rewrite lift_state.
  apply at_most_one; [apply elabs_fresh; exact Hf | apply c_cmds_ok; assumption].
Qed.

Lemma c_quorum_honest : forall us q,
  keys_ok wc -> ufresh [] us -> Forall (ucmd_ok g) us ->
  let outs := snd (crun wc (w0 wc m L) us) in
  let es := elabs wc (w0 wc m L) us in
  In (OPutSuccess q) outs \/ In (OProvSuccess q) outs ->
  exists targets qr S,
    find_quorum q es = Some qr /\ In (OTrack q targets) outs /\ NoDup S /\
    clamp qr (N.of_nat (length targets)) <= N.of_nat (length S) /\
    (forall p, In p S -> In (q, p) (put_sends g (st0 m) es) /\ In p targets).
Proof.
  intros us q Hk Hf HF. cbn zeta. rewrite lift_outs.
  apply quorum_honest_put; [apply elabs_fresh; exact Hf | apply c_cmds_ok; assumption].
Qed.
End Lift.

(* ------------------------------------------------------------------ fair termination of composed histories *)

Lemma elabs_app : forall wc a b w,
  elabs wc w (a ++ b) = elabs wc w a ++ elabs wc (fst (crun wc w a)) b.
Proof.
  intros wc a. induction a as [| u t IH]; intros b w; [reflexivity |].
  cbn [app elabs]. rewrite crun_cons. cbn [fst]. rewrite IH. reflexivity.
Qed.

Definition uev_in_U (U : list N) (u : uev) : Prop :=
  match u with
  | UPutToPeers _ _ _ given => forall p, In p given -> In p U
  | UEv e => ev_in_U U e
  | _ => True
  end.

Lemma peer_of_in : forall (keys : list (N * key)) k, In (peer_of keys k) (UNKNOWN :: map fst keys).
Proof.
  intros keys k. induction keys as [| [p0 k0] t IH]; cbn [peer_of]; [left; reflexivity |].
  destruct (R.key_eqb k0 k); [right; left; reflexivity |].
  destruct IH as [H | H]; [left; exact H | right; right; exact H].
Qed.

Lemma seeds_in_U : forall wc t target U,
  (forall p, In p (UNKNOWN :: map fst (wc_keys wc)) -> In p U) ->
  forall p, In p (seeds_of wc t target) -> In p U.
Proof.
  intros wc t target U HU p Hp. unfold seeds_of in Hp. apply in_map_iff in Hp. destruct Hp as (n & <- & _).
  apply HU. apply peer_of_in.
Qed.

Lemma elab_in_U : forall wc w u U,
  keys_ok wc -> (forall p, In p (UNKNOWN :: map fst (wc_keys wc)) -> In p U) ->
  uev_in_U U u -> ev_in_U U (fst (fst (elab wc w u))).
Proof.
  intros wc w u U Hk HU Hu. destruct u as [q c target | q qr rk given | rk | p a | rk | q rk target | id rq | e].
  - destruct (elab_cmd wc w q c target) as [cmd E]. rewrite E. cbn [ev_in_U]. apply seeds_in_U. exact HU.
  - destruct (elab_put_to_peers wc w q qr rk given) as (ps & E & Eps). rewrite E. cbn [ev_in_U]. subst ps.
    intros p Hp. apply Hu. apply (rt_filter_named wc given (w_rt w) p Hk Hp).
  - exact I.
  - exact I.
  - exact I.
  - cbn [elab]. destruct (fire_due w rk); cbn [fst ev_in_U]; [apply seeds_in_U; exact HU | exact I].
  - cbn [elab]. destruct (side_k wc w (EFut id (RRead (msg_of_req rq))) (req_key rq)). cbn [fst ev_in_U].
    destruct rq; cbn [msg_of_req msg_in]; try exact I; intros ? [].
  - cbn [elab]. destruct (side wc w e). exact Hu.
Qed.

Lemma elabs_in_U : forall wc us w U,
  keys_ok wc -> (forall p, In p (UNKNOWN :: map fst (wc_keys wc)) -> In p U) ->
  Forall (uev_in_U U) us -> evs_in_U U (elabs wc w us).
Proof.
  intros wc us. induction us as [| u t IH]; intros w U Hk HU HF; [exact I |].
  inversion HF as [| ? ? Hu Ht]. subst. cbn [elabs evs_in_U]. split.
  - apply elab_in_U; assumption.
  - apply IH; assumption.
Qed.

Lemma c_fair_terminates : forall wc m U us0 us1 q,
  keys_ok wc -> 1 <= g_alpha (wc_g wc) ->
  (forall p, In p (UNKNOWN :: map fst (wc_keys wc)) -> In p U) ->
  ufresh [] (us0 ++ us1) -> Forall (ucmd_ok (wc_g wc)) us0 -> Forall (uev_in_U U) (us0 ++ us1) ->
  let W0 := w0 wc m (length (lkey wc)) in
  let w1 := fst (crun wc W0 us0) in
  let es1 := elabs wc w1 us1 in
  fair_run (wc_g wc) (w_st w1) es1 ->
  (length (work es1) <= budget (length U) (wc_g wc) (elabs wc W0 us0))%nat /\
  (stuck (w_st (fst (crun wc w1 us1))) ->
   terminals q (snd (crun wc W0 (us0 ++ us1))) = cstarted wc W0 q (us0 ++ us1) /\
   (cstarted wc W0 q (us0 ++ us1) <= 1)%nat).
Proof.
  intros wc m U us0 us1 q Hk Ha HU Hf Hc Hin W0 w1 es1 Hfair.
  apply Forall_app in Hin. destruct Hin as [Hin0 Hin1].
  pose proof (elabs_fresh wc (us0 ++ us1) W0 [] Hf) as Hfr. rewrite elabs_app in Hfr. fold w1 es1 in Hfr.
  assert (S0 : w_st w1 = fst (run (wc_g wc) (st0 m) (elabs wc W0 us0))) by apply (compose_refines wc us0 W0).
  rewrite S0 in Hfair.
  destruct (fair_terminates U (wc_g wc) m (elabs wc W0 us0) es1 q Ha Hfr
              (elabs_cmds_ok wc us0 W0 Hk (RP.empty_inv _ _) Hc)
              (elabs_in_U wc us0 W0 U Hk HU Hin0) (elabs_in_U wc us1 w1 U Hk HU Hin1) Hfair) as [B T].
  split; [exact B |]. intro Hs.
  destruct (compose_refines wc us1 w1) as [R1 _]. fold es1 in R1. rewrite S0 in R1. rewrite R1 in Hs.
  destruct (compose_refines wc (us0 ++ us1) W0) as [_ R2]. rewrite elabs_app in R2. fold w1 es1 in R2.
  unfold cstarted. rewrite elabs_app. fold w1 es1. rewrite R2. apply T. exact Hs.
Qed.

(* ------------------------------------------------------------------ provider refresh: the store's timers *)

Lemma cstep_prov : forall wc w u,
  w_prov (fst (fst (cstep wc w u))) = fst (prov_side w u) /\ w_timers (fst (fst (cstep wc w u))) = snd (prov_side w u).
Proof.
  intros. unfold cstep. destruct (elab wc w u) as [[e t'] s'].
  destruct (step (wc_g wc) (w_st w) e) as [[st' o] ok]. split; reflexivity.
Qed.

(* the quorum of the last start_providing(rk) that no stop_providing(rk) has followed *)
Fixpoint last_prov (rk : N) (acc : option quorum) (us : list uev) : option quorum :=
  match us with
  | [] => acc
  | UCmd _ (UCProv qr rk') _ :: t => last_prov rk (if rk' =? rk then Some qr else acc) t
  | UStopProviding rk' :: t => last_prov rk (if rk' =? rk then None else acc) t
  | _ :: t => last_prov rk acc t
  end.

Lemma prov_side_get : forall w u rk,
  aget rk (fst (prov_side w u)) = last_prov rk (aget rk (w_prov w)) [u].
Proof.
  intros w u rk. destruct u as [q c target | q qr rk0 given | rk0 | p a | rk0 | q rk0 target | id rq | e];
    cbn [prov_side last_prov fst]; try reflexivity.
  - destruct c; cbn [fst]; try reflexivity. destruct (N.eqb_spec rk0 rk) as [-> | Hne].
    + apply aget_aset_same.
    + apply aget_aset_other. congruence.
  - destruct (N.eqb_spec rk0 rk) as [-> | Hne]; [apply aget_adel_same | apply aget_adel_other; congruence].
  - destruct (nmem rk0 (w_timers w)); [destruct (aget rk0 (w_prov w)) |]; reflexivity.
Qed.

Lemma last_prov_cons : forall rk acc u t, last_prov rk acc (u :: t) = last_prov rk (last_prov rk acc [u]) t.
Proof.
  intros rk acc u t. destruct u as [q c target | | | | | | |]; try reflexivity. destruct c; reflexivity.
Qed.

Lemma prov_track : forall wc us w rk,
  aget rk (w_prov (fst (crun wc w us))) = last_prov rk (aget rk (w_prov w)) us.
Proof.
  intros wc us. induction us as [| u t IH]; intros w rk; [reflexivity |].
  rewrite crun_cons. cbn [fst]. rewrite IH. destruct (cstep_prov wc w u) as [E _]. rewrite E, prov_side_get.
  symmetry. apply last_prov_cons.
Qed.

Lemma rem1_other : forall x y l, x <> y -> In y l -> In y (rem1 x l).
Proof.
  intros x y l Hne. induction l as [| h t IH]; [intros [] |]. cbn [rem1]. intros [H | H].
  - subst h. destruct (N.eqb_spec y x); [congruence | left; reflexivity].
  - destruct (h =? x); [exact H | right; apply IH; exact H].
Qed.

(* a provided key always has a refresh timer armed: the refresh will come *)
Definition PT (w : world) : Prop := forall rk qr, aget rk (w_prov w) = Some qr -> In rk (w_timers w).

Lemma cstep_PT : forall wc w u, PT w -> PT (fst (fst (cstep wc w u))).
Proof.
  intros wc w u H rk qr. destruct (cstep_prov wc w u) as [E1 E2]. rewrite E1, E2.
  destruct u as [q c target | q qr0 rk0 given | rk0 | p a | rk0 | q rk0 target | id rq | e];
    cbn [prov_side fst snd]; try apply H.
  - destruct c; cbn [fst snd]; try apply H. destruct (N.eqb_spec rk0 rk) as [-> | Hne].
    + intros _. apply in_or_app. right. left. reflexivity.
    + rewrite aget_aset_other by congruence. intro A. apply in_or_app. left. eapply H. exact A.
  - destruct (N.eqb_spec rk0 rk) as [-> | Hne]; [rewrite aget_adel_same; discriminate |].
    rewrite aget_adel_other by congruence. apply H.
  - destruct (nmem rk0 (w_timers w)) eqn:Et; [| apply H].
    destruct (aget rk0 (w_prov w)) eqn:Ep; cbn [fst snd]; intro A.
    + destruct (N.eq_dec rk0 rk) as [-> | Hne]; apply in_or_app; [right; left; reflexivity |].
      left. apply rem1_other; [exact Hne | eapply H; exact A].
    + destruct (N.eq_dec rk0 rk) as [-> | Hne]; [congruence |]. apply rem1_other; [exact Hne | eapply H; exact A].
Qed.

Lemma crun_PT : forall wc us w, PT w -> PT (fst (crun wc w us)).
Proof.
  intros wc us. induction us as [| u t IH]; intros w H; [exact H |].
  rewrite crun_cons. cbn [fst]. apply IH. apply cstep_PT. exact H.
Qed.

(* a timer that fires starts a refresh exactly when the key is still provided, with the quorum of the
   last start_providing; then it is an ADD_PROVIDER operation like a user's, seeded from the table *)
Lemma refresh_due : forall wc m L us q rk target,
  let w := fst (crun wc (w0 wc m L) us) in
  In rk (w_timers w) ->
  fst (fst (elab wc w (UFire q rk target))) =
  match last_prov rk None us with
  | Some qr => ECmd q (CRefresh qr) (dists_of wc target) (seeds_of wc (w_rt w) target)
  | None => ENop
  end /\
  (last_prov rk None us <> None -> In rk (w_timers (fst (fst (cstep wc w (UFire q rk target)))))).
Proof.
  intros wc m L us q rk target w Hin.
  assert (Et : nmem rk (w_timers w) = true) by (apply nmem_In; exact Hin).
  pose proof (prov_track wc us (w0 wc m L) rk) as P. fold w in P. change (aget rk (w_prov (w0 wc m L))) with (@None quorum) in P.
  split.
  - cbn [elab]. unfold fire_due. rewrite Et, P. destruct (last_prov rk None us); reflexivity.
  - intro Hp. destruct (cstep_prov wc w (UFire q rk target)) as [_ E2]. rewrite E2. cbn [prov_side]. rewrite Et, P.
    destruct (last_prov rk None us); [| congruence]. cbn [snd]. apply in_or_app. right. left. reflexivity.
Qed.

Lemma provided_has_timer : forall wc m L us rk,
  last_prov rk None us <> None -> In rk (w_timers (fst (crun wc (w0 wc m L) us))).
Proof.
  intros wc m L us rk H. pose proof (prov_track wc us (w0 wc m L) rk) as P.
  change (aget rk (w_prov (w0 wc m L))) with (@None quorum) in P.
  destruct (last_prov rk None us) as [qr |] eqn:E; [| congruence].
  eapply (crun_PT wc us (w0 wc m L)); [intros ? ? A; discriminate A | exact P].
Qed.

(* ------------------------------------------------------------------ requests of remote peers *)

(* the answer to an inbound FIND_NODE / GET_VALUE / GET_PROVIDERS: the closer peers are
   RoutingTable::closest of the current table for the key asked for — the very function that seeds the
   node's own lookups, so never the local peer, at most k — and the record flag of GET_VALUE is the
   store's answer *)
Lemma inbound_reply : forall wc w id rq b ps,
  keys_ok wc -> TInv wc (w_rt w) -> SI wc (w_store w) -> 1 <= wc_ttl wc ->
  reply_of wc w (UInReq id rq) = Some (b, ps) ->
  exists target,
    (rq = IFindNode target \/ (exists rk, rq = IGetValue rk target) \/ rq = IGetProviders target) /\
    ps = seeds_of wc (w_rt w) target /\ ~ In (g_local (wc_g wc)) ps /\
    (length ps <= N.to_nat (g_k (wc_g wc)))%nat /\
    (b = true <-> exists rk, rq = IGetValue rk target /\ stored (w_store w) rk).
Proof.
  intros wc w id rq b ps Hk HI HS Ht H. cbn [reply_of] in H.
  destruct (inbound_read (w_st w) id); [| discriminate].
  assert (Len : forall target, (length (seeds_of wc (w_rt w) target) <= N.to_nat (g_k (wc_g wc)))%nat).
  { intro target. unfold seeds_of, R.closest. rewrite map_length. apply firstn_le_length. }
  destruct rq as [target | rk | rk target | target | v]; try discriminate H; inversion H; subst; exists target.
  - split; [left; reflexivity |]. split; [reflexivity |]. split; [apply seeds_not_local; assumption |].
    split; [apply Len |]. split; [discriminate | intros (rk & E & _); discriminate E].
  - split; [right; left; eauto |]. split; [reflexivity |]. split; [apply seeds_not_local; assumption |].
    split; [apply Len |]. rewrite (get_same wc _ rk HS Ht). cbn [snd]. unfold stored. split.
    + intro E. exists rk. split; [reflexivity |]. destruct (S.find_rec rk (S.recs (w_store w))); [discriminate | discriminate E].
    + intros (rk' & E & St). inversion E. subst rk'. destruct (S.find_rec rk (S.recs (w_store w))); [reflexivity | congruence].
  - split; [right; right; reflexivity |]. split; [reflexivity |]. split; [apply seeds_not_local; assumption |].
    split; [apply Len |]. split; [discriminate | intros (rk & E & _); discriminate E].
Qed.

(* a record this node stored is served to every remote GET_VALUE that comes later *)
Lemma stored_after_put : forall wc m L us1 u us2 rk,
  1 <= wc_ttl wc -> REC_LEN < S.max_size (wc_scfg wc) ->
  N.of_nat (length (us1 ++ u :: us2)) <= S.max_records (wc_scfg wc) ->
  stores wc (fst (crun wc (w0 wc m L) us1)) u rk ->
  let w := fst (crun wc (w0 wc m L) (us1 ++ u :: us2)) in
  SI wc (w_store w) /\ stored (w_store w) rk.
Proof.
  intros wc m L us1 u us2 rk Ht Hsz Hn Hu w.
  assert (S0 : SI wc (w_store (w0 wc m L))) by constructor.
  destruct (crun_store wc us1 (w0 wc m L) rk S0 Ht) as (S1 & _ & L1).
  set (w1 := fst (crun wc (w0 wc m L) us1)) in *.
  assert (St : stored (w_store (fst (fst (cstep wc w1 u)))) rk).
  { rewrite cstep_store.
    assert (E : snd (elab wc w1 u) = S.put (wc_scfg wc) (w_store w1) (local_record wc rk)) by (apply stores_put; exact Hu).
    rewrite E. change rk with (S.r_key (local_record wc rk)) at 2. apply put_stored; [exact Hsz |].
    rewrite app_length in Hn. cbn [length] in *. cbn in L1. lia. }
  assert (Ew : w = fst (crun wc (fst (fst (cstep wc w1 u))) us2)).
  { subst w w1. rewrite crun_app, crun_cons. reflexivity. }
  destruct (crun_store wc us2 (fst (fst (cstep wc w1 u))) rk (cstep_SI wc w1 u S1 Ht) Ht) as (S2 & K2 & _).
  rewrite <- Ew in S2, K2. split; [exact S2 | apply K2; exact St].
Qed.

Lemma serve_after_put : forall wc m L us1 u us2 rk id target,
  1 <= wc_ttl wc -> REC_LEN < S.max_size (wc_scfg wc) ->
  N.of_nat (length (us1 ++ u :: us2)) <= S.max_records (wc_scfg wc) ->
  stores wc (fst (crun wc (w0 wc m L) us1)) u rk ->
  let w := fst (crun wc (w0 wc m L) (us1 ++ u :: us2)) in
  inbound_read (w_st w) id = true ->
  reply_of wc w (UInReq id (IGetValue rk target)) = Some (true, seeds_of wc (w_rt w) target).
Proof.
  intros wc m L us1 u us2 rk id target Ht Hsz Hn Hu w Hr.
  destruct (stored_after_put wc m L us1 u us2 rk Ht Hsz Hn Hu) as [HS St]. fold w in HS, St.
  cbn [reply_of]. rewrite Hr, (get_same wc _ rk HS Ht). cbn [snd]. unfold stored in St.
  destruct (S.find_rec rk (S.recs (w_store w))); [reflexivity | congruence].
Qed.

(* ------------------------------------------------------------------ inbound traffic and the user's operations *)

(* events of the inbound side: a remote peer opens a substream; a future that serves a remote request
   (no query id) reads a message or finishes its reply *)
Definition inbound_ev (s : st) (e : ev) : Prop :=
  match e with
  | EInbound _ _ => True
  | EFut id r => exists f, find_fut id (futs s) = Some f /\ f_q f = None /\
                           (r = RSendOk \/ r = RAssume \/ exists m, r = RRead m)
  | _ => False
  end.

Lemma del_fut_keeps : forall id l f0 f,
  find_fut id l = Some f0 -> In f l -> f <> f0 -> In f (del_fut id l).
Proof.
  intros id l. induction l as [| h t IH]; intros f0 f Hf Hin Hne; [destruct Hin |].
  cbn [find_fut del_fut] in *. destruct (f_id h =? id).
  - inversion Hf. subst h. destruct Hin as [H | H]; [congruence | exact H].
  - destruct Hin as [H | H]; [left; exact H | right; eapply IH; eassumption].
Qed.

(* they neither start, end nor touch an operation of the user: the engine, pending_dials,
   pending_substreams and every pending action stay as they are, no terminal event and no send phase is
   produced, every future working for a query stays in flight *)
Lemma inbound_isolated : forall g s e,
  inbound_ev s e ->
  let s' := fst (fst (step g s e)) in
  let o := snd (fst (step g s e)) in
  eng s' = eng s /\ pdial s' = pdial s /\ psub s' = psub s /\
  (forall p acts, aget p (peers s) = Some acts -> aget p (peers s') = Some acts) /\
  (forall x, In x o -> x = OIncomingRecord \/ x = OIncomingProvider) /\
  (forall f, In f (futs s) -> f_q f <> None -> In f (futs s')).
Proof.
  intros g s e He. destruct e; cbn [inbound_ev] in He; try contradiction; cbn [step fst snd].
  - (* inbound substream *)
    unfold on_inbound_substream.
    assert (P : forall p0 acts, aget p0 (peers s) = Some acts ->
                aget p0 (peers (match aget p (peers s) with Some _ => s | None => w_peers s (aset p [] (peers s)) end)) = Some acts).
    { intros p0 acts A. destruct (aget p (peers s)) eqn:Ep; [exact A |]. cbn [peers w_peers].
      destruct (N.eq_dec p p0) as [-> | Hne]; [congruence | rewrite aget_aset_other by congruence; exact A]. }
    destruct (aget p (peers s)) eqn:Ep; cbn [add_fut w_futs w_peers eng pdial psub peers futs];
      (split; [reflexivity |]; split; [reflexivity |]; split; [reflexivity |]; split; [exact P |];
       split; [intros x [] |]; intros f Hf _; apply in_or_app; left; exact Hf).
  - (* a future of the inbound side completes *)
    destruct He as (f & Hf & Hq & Hr). unfold on_future. rewrite Hf.
    destruct (res_ok (f_kind f) r) eqn:Eok; cbn [fst snd].
    2: { repeat split; try reflexivity; try tauto. intros x []. }
    assert (Keep : forall f1, In f1 (futs s) -> f_q f1 <> None -> In f1 (del_fut id (futs s))).
    { intros f1 H1 H2. eapply del_fut_keeps; [exact Hf | exact H1 |]. intro E. subst f1. contradiction. }
    destruct Hr as [-> | [-> | [m ->]]]; rewrite Hq; cbn [fst snd].
    + repeat split; try reflexivity; try tauto. intros x [].
    + repeat split; try reflexivity; try tauto. intros x [].
    + unfold on_message.
      destruct (trunc_msg g m) as [ps | | hk rc ps | v | hk pv ps |]; cbn [fst snd];
        try destruct hk; try destruct v; cbn [fst snd add_fut w_futs eng pdial psub peers futs];
        (split; [reflexivity |]; split; [reflexivity |]; split; [reflexivity |]; split; [tauto |]; split;
         [intros x Hx; cbn [In] in Hx; intuition | intros f1 H1 H2; try (apply in_or_app; left); apply Keep; assumption]).
Qed.

(* a small world for the non-vacuity example of Properties.v *)
Definition ex_wc : wcfg :=
  mkWC (mkG 20 3 99 10) [(99, [false; false]); (0, [true; false]); (1, [true; true])] [0; 1] 20
       (V.C17.Model.mkCfg 8 10 8 8 8 100) 50 true true.
Lemma ex_wc_ok : keys_ok ex_wc.
Proof.
  constructor.
  - intros p k H. unfold ex_wc in H. cbn [wc_keys In] in H.
    repeat (destruct H as [H | H]; [inversion H; vm_compute; reflexivity |]). destruct H.
  - vm_compute. auto.
  - cbn [ex_wc wc_keys map fst]. repeat constructor; cbn [In]; intuition discriminate.
  - cbn [ex_wc wc_keys map snd]. repeat constructor; cbn [In]; intuition discriminate.
  - cbn [ex_wc wc_keys map fst In]. unfold UNKNOWN. intuition discriminate.
Qed.

(* ------------------------------------------------------------------ a connection closes while requests are outstanding *)

Lemma closed_discharges : forall g m es p,
  1 <= g_alpha g ->
  let s := fst (run g (st0 m) es) in
  aget p (conn s) <> None ->
  let s' := fst (fst (step g s (EClosed p))) in
  aget p (peers s') = None /\ futs s' = futs s /\ pdial s' = pdial s /\
  forall q x, aget q (eng s') = Some x -> In p (waiting x) ->
    owes_dial s' (negb (is_track x)) q p \/ owes_fut s' (negb (is_track x)) q p.
Proof.
  intros g m es p Ha s Hc s'.
  assert (G : GI s) by (apply run_GI; [exact Ha | apply GI_st0]).
  assert (G' : GI s') by (apply step_GI; assumption).
  assert (E : s' = disconnect_peer (w_conn s (adel p (conn s))) p None).
  { subst s'. cbn [step]. destruct (aget p (conn s)); [reflexivity | congruence]. }
  destruct G as [Hl Hcv Hf].
  assert (Hl0 : lookups_live (w_conn s (adel p (conn s)))) by exact Hl.
  assert (Hc0 : covered (w_conn s (adel p (conn s))) []) by exact Hcv.
  destruct (disconnect_spec (w_conn s (adel p (conn s))) p None [] Hl0 Hc0) as (_ & _ & D1 & _ & _ & D2 & D3 & _).
  { intros z []. }
  rewrite <- E in D1, D2, D3.
  split; [exact D1 |]. split; [exact D3 |]. split; [exact D2 |].
  intros q x A W. destruct G' as [_ Hcv' _]. destruct (Hcv' q x p A W) as [O | []].
  destruct O as [O | [O | O]]; [left; exact O | | right; exact O].
  destruct O as (acts & sid & a & K & _). rewrite D1 in K. discriminate.
Qed.
