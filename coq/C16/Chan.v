(* C16 — the bounded event channel: nothing is lost, order is kept, the loop parks exactly when full. *)
From Coq Require Import List NArith Bool Lia.
From V.C16 Require Import Model Proofs.
Import ListNotations.
Open Scope N_scope.

Lemma refill_spec : forall r c k c' k',
  refill r c k = (c', k') ->
  c' ++ k' = c ++ k /\ (length c' <= length c + r)%nat /\ (k' <> [] -> length c' = (length c + r)%nat).
Proof.
  induction r as [| r IH]; intros c k c' k' H; cbn [refill] in H.
  - inversion H. subst. split; [reflexivity |]. split; [lia | intros _; lia].
  - destruct k as [| o t].
    + inversion H. subst. split; [reflexivity |]. split; [lia | intro K; contradiction].
    + destruct (IH _ _ _ _ H) as (A & B & C). rewrite app_length in B, C. cbn [length] in B, C.
      split; [rewrite A, <- app_assoc; reflexivity |]. split; [lia | intro K; specialize (C K); lia].
Qed.

Lemma push_spec : forall cap c k c' k',
  (length c <= cap)%nat -> push cap c k = (c', k') ->
  c' ++ k' = c ++ k /\ (length c' <= cap)%nat /\ (k' <> [] -> length c' = cap).
Proof.
  intros cap c k c' k' Hc H. unfold push in H. destruct (refill_spec _ _ _ _ _ H) as (A & B & C).
  split; [exact A |]. split; [lia | intro K; specialize (C K); lia].
Qed.

(* what is in flight towards the user *)
Definition flight (b : bst) : list out := b_chan b ++ b_back b.
Definition bwf (cap : nat) (b : bst) : Prop :=
  (length (b_chan b) <= cap)%nat /\ (b_back b <> [] -> length (b_chan b) = cap).

Lemma bstep_spec : forall g cap b e,
  bwf cap b ->
  let b' := fst (fst (bstep g cap b e)) in
  let rcv := snd (fst (bstep g cap b e)) in
  bwf cap b' /\
  match e, b_back b with
  | BEv e', [] =>
      b_st b' = fst (fst (step g (b_st b) e')) /\
      rcv ++ flight b' = flight b ++ filter is_event (snd (fst (step g (b_st b) e')))
  | _, _ => b_st b' = b_st b /\ rcv ++ flight b' = flight b
  end.
Proof.
  intros g cap b e [W1 W2]. destruct e as [e |]; cbn [bstep].
  - destruct (b_back b) as [| o t] eqn:Eb.
    + destruct (step g (b_st b) e) as [[s' o] ok]. cbn [fst snd].
      destruct (push cap (b_chan b) (filter is_event o)) as [c' k'] eqn:Ep. cbn [fst snd].
      destruct (push_spec _ _ _ _ _ W1 Ep) as (A & B & C).
      split; [split; assumption |]. split; [reflexivity |]. unfold flight. cbn [b_chan b_back app]. rewrite Eb, app_nil_r. exact A.
    + cbn [fst snd]. split; [split; [exact W1 | rewrite Eb; exact W2] |]. split; reflexivity.
  - destruct (b_chan b) as [| o t] eqn:Ec; cbn [fst snd].
    + split; [split; [rewrite Ec; exact W1 | rewrite Ec; exact W2] |].
      destruct (b_back b); split; reflexivity.
    + destruct (push cap t (b_back b)) as [c' k'] eqn:Ep. cbn [fst snd].
      assert (Wt : (length t <= cap)%nat) by (cbn [length] in W1; lia).
      destruct (push_spec _ _ _ _ _ Wt Ep) as (A & B & C).
      assert (R : [o] ++ flight (mkB (b_st b) c' k') = flight b).
      { unfold flight. cbn [b_chan b_back]. rewrite Ec, A. reflexivity. }
      split; [split; assumption |]. destruct (b_back b); split; try reflexivity; exact R.
Qed.

Lemma brun_cons : forall g cap b e t,
  brun g cap b (e :: t) =
  (fst (brun g cap (fst (fst (bstep g cap b e))) t),
   snd (fst (bstep g cap b e)) ++ snd (brun g cap (fst (fst (bstep g cap b e))) t)).
Proof.
  intros. cbn [brun]. destruct (bstep g cap b e) as [[b1 r] ok]. cbn [fst snd].
  destruct (brun g cap b1 t) as [b2 r2]. reflexivity.
Qed.

(* no loss, no reordering, no duplication; the state is the state of the unbounded loop on the
   events it really took *)
Lemma brun_spec : forall g cap es b,
  bwf cap b ->
  let b' := fst (brun g cap b es) in
  let rcv := snd (brun g cap b es) in
  let tk := taken g cap b es in
  bwf cap b' /\ b_st b' = fst (run g (b_st b) tk) /\
  rcv ++ flight b' = flight b ++ filter is_event (snd (run g (b_st b) tk)).
Proof.
  intros g cap es. induction es as [| e t IH]; intros b W.
  - cbn. split; [exact W |]. split; [reflexivity | rewrite app_nil_r; reflexivity].
  - rewrite brun_cons. cbn [fst snd taken].
    pose proof (bstep_spec g cap b e W) as S. cbn zeta in S. destruct S as [W1 S].
    destruct (IH _ W1) as (I1 & I2 & I3). cbn zeta in I1, I2, I3.
    destruct e as [e' |]; [destruct (b_back b) as [| o0 t0] |].
    + destruct S as [S1 S2]. rewrite run_cons. cbn [fst snd]. rewrite <- S1.
      split; [exact I1 |]. split; [exact I2 |]. rewrite <- app_assoc, I3, app_assoc, S2, filter_app, <- app_assoc. reflexivity.
    + destruct S as [S1 S2]. rewrite <- S1. split; [exact I1 |]. split; [exact I2 |].
      rewrite <- app_assoc, I3, app_assoc, S2. reflexivity.
    + assert (S' : b_st (fst (fst (bstep g cap b BRecv))) = b_st b /\
                   snd (fst (bstep g cap b BRecv)) ++ flight (fst (fst (bstep g cap b BRecv))) = flight b).
      { destruct (b_back b); exact S. }
      destruct S' as [S1 S2]. rewrite <- S1. split; [exact I1 |]. split; [exact I2 |].
      rewrite <- app_assoc, I3, app_assoc, S2. reflexivity.
Qed.

Lemma bounded_channel : forall g m cap es,
  let b' := fst (brun g cap (b0 m) es) in
  let rcv := snd (brun g cap (b0 m) es) in
  let tk := taken g cap (b0 m) es in
  b_st b' = fst (run g (st0 m) tk) /\
  rcv ++ b_chan b' ++ b_back b' = filter is_event (snd (run g (st0 m) tk)) /\
  (length (b_chan b') <= cap)%nat /\ (b_back b' <> [] -> length (b_chan b') = cap).
Proof.
  intros g m cap es. assert (W : bwf cap (b0 m)) by (split; [cbn; lia | intro K; contradiction]).
  destruct (brun_spec g cap es (b0 m) W) as ([A1 A2] & B & C). cbn zeta in *. tauto.
Qed.

(* the user drains everything: after |channel| + |backlog| receives nothing is left (capacity >= 1) *)
Lemma drain_all : forall g cap n b,
  (1 <= cap)%nat -> bwf cap b -> (length (flight b) <= n)%nat ->
  flight (fst (brun g cap b (repeat BRecv n))) = [] /\
  snd (brun g cap b (repeat BRecv n)) = flight b.
Proof.
  intros g cap n. induction n as [| n IH]; intros b Hc W Hl.
  - cbn. destruct (flight b); [split; reflexivity | cbn in Hl; lia].
  - cbn [repeat]. rewrite brun_cons. cbn [fst snd].
    pose proof (bstep_spec g cap b BRecv W) as S. cbn zeta in S. destruct S as [W1 S].
    assert (S' : snd (fst (bstep g cap b BRecv)) ++ flight (fst (fst (bstep g cap b BRecv))) = flight b)
      by (destruct (b_back b); apply S).
    assert (Len : (length (flight (fst (fst (bstep g cap b BRecv)))) <= n)%nat).
    { cbn [bstep] in *. destruct (b_chan b) as [| o t] eqn:Ec.
      - (* an empty channel means an empty backlog: the loop is not parked *)
        destruct W as [_ W2]. destruct (b_back b) as [| o0 t0] eqn:Eb.
        + cbn [fst]. unfold flight. rewrite Ec, Eb. cbn. lia.
        + exfalso. rewrite Ec in W2. cbn [length] in W2. specialize (W2 ltac:(discriminate)). lia.
      - destruct (push cap t (b_back b)) as [c' k']. cbn [fst snd] in *.
        apply (f_equal (@length out)) in S'. cbn [app length] in S'. lia. }
    destruct (IH _ Hc W1 Len) as [I1 I2]. split; [exact I1 |]. rewrite I2. exact S'.
Qed.
