(* SHA-256 (FIPS 180-4) as an executable Gallina function on byte strings (bytes are N below 256,
   words are N below 2^32). Written for extraction with ExtrOcamlBasic (binary N): only
   N.land / N.lxor / N.lor / N.shiftl / N.shiftr / N.modulo on small numbers.

   Proved here: the digest always has 32 bytes, all below 256. That the function IS SHA-256 is
   established by the NIST example vectors at the end (vm_compute) and, on every check, by the
   differential run against the implementation's digests. *)
From Coq Require Import List Arith NArith Bool Lia.
From Coq Require Import ZifyBool ZifyNat ZifyN.
From V.common Require Import Varint.
Import ListNotations.
Open Scope N_scope.

Definition W32 : N := 4294967296.
Definition MASK32 : N := 4294967295.

(* (a + b) mod 2^32, written with a mask: N.land is linear in the extracted binary representation,
   N.modulo is a long division (add32_mod below) *)
Definition add32 (a b : N) : N := N.land (a + b) MASK32.
Definition rotr (n x : N) : N := N.lor (N.shiftr x n) (N.land (N.shiftl x (32 - n)) MASK32).
Definition shr (n x : N) : N := N.shiftr x n.
Definition not32 (x : N) : N := N.lxor x MASK32.

Definition ch (x y z : N) : N := N.lxor (N.land x y) (N.land (not32 x) z).
Definition maj (x y z : N) : N := N.lxor (N.land x y) (N.lxor (N.land x z) (N.land y z)).
Definition bsig0 (x : N) : N := N.lxor (rotr 2 x) (N.lxor (rotr 13 x) (rotr 22 x)).
Definition bsig1 (x : N) : N := N.lxor (rotr 6 x) (N.lxor (rotr 11 x) (rotr 25 x)).
Definition ssig0 (x : N) : N := N.lxor (rotr 7 x) (N.lxor (rotr 18 x) (shr 3 x)).
Definition ssig1 (x : N) : N := N.lxor (rotr 17 x) (N.lxor (rotr 19 x) (shr 10 x)).

Definition K256 : list N :=
  [1116352408; 1899447441; 3049323471; 3921009573; 961987163; 1508970993; 2453635748; 2870763221;
   3624381080; 310598401; 607225278; 1426881987; 1925078388; 2162078206; 2614888103; 3248222580;
   3835390401; 4022224774; 264347078; 604807628; 770255983; 1249150122; 1555081692; 1996064986;
   2554220882; 2821834349; 2952996808; 3210313671; 3336571891; 3584528711; 113926993; 338241895;
   666307205; 773529912; 1294757372; 1396182291; 1695183700; 1986661051; 2177026350; 2456956037;
   2730485921; 2820302411; 3259730800; 3345764771; 3516065817; 3600352804; 4094571909; 275423344;
   430227734; 506948616; 659060556; 883997877; 958139571; 1322822218; 1537002063; 1747873779;
   1955562222; 2024104815; 2227730452; 2361852424; 2428436474; 2756734187; 3204031479; 3329325298].

Record state := mkSt { sa : N; sb : N; sc : N; sd : N; se : N; sf : N; sg : N; sh : N }.

Definition H0 : state :=
  mkSt 1779033703 3144134277 1013904242 2773480762 1359893119 2600822924 528734635 1541459225.

Definition round (st : state) (k w : N) : state :=
  let t1 := add32 (add32 (add32 (sh st) (bsig1 (se st))) (add32 (ch (se st) (sf st) (sg st)) k)) w in
  let t2 := add32 (bsig0 (sa st)) (maj (sa st) (sb st) (sc st)) in
  mkSt (add32 t1 t2) (sa st) (sb st) (sc st) (add32 (sd st) t1) (se st) (sf st) (sg st).

(* the message schedule as a sliding window of the last 16 words: the head is W_t, the new last
   element is W_{t+16} = ssig1 W_{t+14} + W_{t+9} + ssig0 W_{t+1} + W_t *)
Definition next_window (win : list N) : list N :=
  match win with
  | w0 :: rest =>
      let w1 := nth 0 rest 0 in
      let w9 := nth 8 rest 0 in
      let w14 := nth 13 rest 0 in
      rest ++ [add32 (add32 (ssig1 w14) w9) (add32 (ssig0 w1) w0)]
  | [] => []
  end.

Fixpoint rounds (ks : list N) (win : list N) (st : state) : state :=
  match ks with
  | [] => st
  | k :: ks' => rounds ks' (next_window win) (round st k (hd 0 win))
  end.

Definition compress (st : state) (block_words : list N) : state :=
  let r := rounds K256 block_words st in
  mkSt (add32 (sa st) (sa r)) (add32 (sb st) (sb r)) (add32 (sc st) (sc r)) (add32 (sd st) (sd r))
       (add32 (se st) (se r)) (add32 (sf st) (sf r)) (add32 (sg st) (sg r)) (add32 (sh st) (sh r)).

(* big-endian words *)
Fixpoint words_of (fuel : nat) (l : list N) : list N :=
  match fuel with
  | O => []
  | S f =>
      match l with
      | a :: b :: c :: d :: t => (((a * 256 + b) * 256 + c) * 256 + d) :: words_of f t
      | _ => []
      end
  end.

Definition word_bytes (w : N) : list N :=
  [(w / 16777216) mod 256; (w / 65536) mod 256; (w / 256) mod 256; w mod 256].

Definition len_bytes (n : N) : list N :=
  word_bytes (n / W32) ++ word_bytes (n mod W32).

(* padding: 0x80, zeros up to 56 mod 64, the bit length as 8 big-endian bytes *)
Definition pad (msg : list N) : list N :=
  let l := length msg in
  let zeros := ((119 - l mod 64) mod 64)%nat in
  msg ++ [128] ++ repeat 0 zeros ++ len_bytes (8 * N.of_nat l).

Fixpoint blocks (fuel : nat) (l : list N) (st : state) : state :=
  match fuel with
  | O => st
  | S f =>
      match l with
      | [] => st
      | _ => blocks f (skipn 64 l) (compress st (words_of 16 (firstn 64 l)))
      end
  end.

Definition sha256 (msg : list N) : list N :=
  let p := pad msg in
  let st := blocks (S (length p / 64)) p H0 in
  word_bytes (sa st) ++ word_bytes (sb st) ++ word_bytes (sc st) ++ word_bytes (sd st) ++
  word_bytes (se st) ++ word_bytes (sf st) ++ word_bytes (sg st) ++ word_bytes (sh st).

(* ------------------------------------------------------------------ *)
Lemma add32_mod a b : add32 a b = (a + b) mod W32.
Proof. unfold add32. change MASK32 with (N.ones 32). rewrite N.land_ones. reflexivity. Qed.

Lemma word_bytes_ok w : bytes_ok (word_bytes w) = true /\ length (word_bytes w) = 4%nat.
Proof.
  split; [|reflexivity]. unfold word_bytes, bytes_ok, forallb, is_byte.
  repeat match goal with |- context [?x mod 256 <? 256] =>
    let H := fresh in assert (H : x mod 256 <? 256 = true)
      by (apply N.ltb_lt; apply N.mod_lt; discriminate); rewrite H; clear H end.
  reflexivity.
Qed.

Theorem sha256_length msg : length (sha256 msg) = 32%nat.
Proof. unfold sha256. rewrite !app_length. reflexivity. Qed.

Theorem sha256_bytes msg : bytes_ok (sha256 msg) = true.
Proof.
  unfold sha256. rewrite !bytes_ok_app.
  repeat rewrite (proj1 (word_bytes_ok _)). reflexivity.
Qed.

(* NIST FIPS 180-4 example vectors: "", "abc", and the 56-byte two-block message *)
Example sha256_empty :
  sha256 [] = [227;176;196;66;152;252;28;20;154;251;244;200;153;111;185;36;
               39;174;65;228;100;155;147;76;164;149;153;27;120;82;184;85].
Proof. vm_compute. reflexivity. Qed.

Example sha256_abc :
  sha256 [97;98;99] = [186;120;22;191;143;1;207;234;65;65;64;222;93;174;34;35;
                       176;3;97;163;150;23;122;156;180;16;255;97;242;0;21;173].
Proof. vm_compute. reflexivity. Qed.

Example sha256_two_blocks :
  sha256 [97;98;99;100;98;99;100;101;99;100;101;102;100;101;102;103;101;102;103;104;102;103;104;105;
          103;104;105;106;104;105;106;107;105;106;107;108;106;107;108;109;107;108;109;110;108;109;110;111;
          109;110;111;112;110;111;112;113]
  = [36;141;106;97;210;6;56;184;229;192;38;147;12;62;96;57;163;60;228;89;100;255;33;103;246;236;237;212;25;219;6;193].
Proof. vm_compute. reflexivity. Qed.
