(* The protobuf wire format as decoded by prost 0.13.5 (`prost::encoding`), reusable by all
   properties.  Built on common/Varint.v: a byte is an N below 256, a byte string a `list N`.

   Layer 1 (this file, schema independent): a message body is tokenised into a list of
   (field number, wire value); the tokeniser follows prost's `decode_key`, `decode_varint`,
   `skip_field` (groups included, with prost's recursion limit) and the length checks of the
   length-delimited readers.  Layer 2 (per schema, in the property's Model.v) folds the
   tokens into a record: last-wins scalars, repeated append, nested messages decoded from
   the payload of a length-delimited token, wrong wire type of a known field = error.

   Why two passes agree with prost's single pass: prost's result is `Result<M, DecodeError>`
   and every error aborts the whole decode, so only "is there an error anywhere" matters,
   not where it is found first.  A known field of wire type w is read exactly like an
   unknown field of wire type w is skipped (same varint reader, same `len > remaining`
   check); a nested message is read by `merge_loop` from the shared buffer up to a limit,
   and overrunning the limit is an error ("delimited length exceeded") exactly when decoding
   the sliced payload on its own runs out of bytes ("buffer underflow").

   prost's rules that differ from unsigned-varint (Varint.decode_gen):
     - varints need not be minimal (80 00 decodes to 0);
     - at most 10 bytes; the 10th byte must be 0 or 1, otherwise "invalid varint" (so the
       value never exceeds 64 bits and nothing is truncated silently);
     - key = varint <= u32::MAX, wire type = key & 7 in 0..5, field number = key >> 3 >= 1.

   All errors are collapsed to `Err`.  `OutOfFuel` is a third outcome that exists only so that
   "the fuel `S (length input)` always suffices" is a theorem (parse_fields_fuel) instead of
   a convention. *)
From Coq Require Import List Arith NArith Bool Lia.
From Coq Require Import ZifyBool ZifyNat ZifyN.
From V.common Require Import Varint.
Import ListNotations.
Open Scope N_scope.

Definition bytes := list N.
Definition blen (b : bytes) : N := N.of_nat (length b).

Inductive res (A : Type) := Ok (a : A) | Err | OutOfFuel.
Arguments Ok {A} a.
Arguments Err {A}.
Arguments OutOfFuel {A}.

Definition res_opt {A} (r : res A) : option A := match r with Ok a => Some a | _ => None end.

(* prost::encoding::decode_varint (fast path, slice path and slow path agree on this) *)
Definition pb_varint (b : bytes) : option (N * bytes) :=
  match take_varint 10 b with
  | Some (pre, rest) =>
      if Nat.eqb (length pre) 10 && (2 <=? last pre 0) then None else Some (value pre, rest)
  | None => None
  end.

(* prost::encoding::decode_key: (field number, wire type, rest) *)
Definition pb_key (b : bytes) : option (N * N * bytes) :=
  match pb_varint b with
  | Some (k, r) =>
      if 2 ^ 32 <=? k then None
      else if 6 <=? k mod 8 then None
      else if k / 8 =? 0 then None
      else Some (k / 8, k mod 8, r)
  | None => None
  end.

(* n bytes off the front; the length is compared BEFORE anything is materialised *)
Definition take_n (n : N) (b : bytes) : option (bytes * bytes) :=
  if blen b <? n then None else Some (firstn (N.to_nat n) b, skipn (N.to_nat n) b).

Inductive wval :=
| WVarint (n : N)        (* wire type 0 *)
| WFixed64 (b : bytes)   (* wire type 1, 8 bytes *)
| WLen (b : bytes)       (* wire type 2 *)
| WFixed32 (b : bytes)   (* wire type 5, 4 bytes *)
| WGroup.                (* wire types 3..4: a well-nested group, content dropped *)

Definition field := (N * wval)%type.

(* the value of a field of wire type 0, 1, 2 or 5 *)
Definition read_scalar (wt : N) (b : bytes) : option (wval * bytes) :=
  if wt =? 0 then
    match pb_varint b with Some (n, r) => Some (WVarint n, r) | None => None end
  else if wt =? 1 then
    match take_n 8 b with Some (x, r) => Some (WFixed64 x, r) | None => None end
  else if wt =? 2 then
    match pb_varint b with
    | Some (n, r) => match take_n n r with Some (x, r') => Some (WLen x, r') | None => None end
    | None => None
    end
  else if wt =? 5 then
    match take_n 4 b with Some (x, r) => Some (WFixed32 x, r) | None => None end
  else None.

(* prost::RECURSION_LIMIT *)
Definition RECURSION_LIMIT : N := 100.

(* skip_field's StartGroup loop: `ctx` is the recurse_count of the skip_field call that met the
   StartGroup key of group `tag`; the fields inside are skipped with ctx - 1, and skip_field
   begins with `ctx.limit_reached()?`.  Returns what follows the matching EndGroup key. *)
Fixpoint skip_group (fuel : nat) (ctx : N) (tag : N) (b : bytes) : res bytes :=
  match fuel with
  | O => OutOfFuel
  | S f =>
      match pb_key b with
      | None => Err
      | Some (t, wt, r) =>
          if wt =? 4 then (if t =? tag then Ok r else Err)
          else if ctx - 1 =? 0 then Err
          else if wt =? 3 then
            match skip_group f (ctx - 1) t r with
            | Ok r' => skip_group f ctx tag r'
            | Err => Err
            | OutOfFuel => OutOfFuel
            end
          else
            match read_scalar wt r with
            | Some (_, r') => skip_group f ctx tag r'
            | None => Err
            end
      end
  end.

(* the body of a message (Message::merge / merge_loop): keys and values until the input ends.
   `ctx` = recurse_count at this nesting level (100 at the top); it is >= 1 wherever this is
   used (see `sub_ctx`). *)
Fixpoint parse_fields (fuel : nat) (ctx : N) (b : bytes) : res (list field) :=
  match fuel with
  | O => OutOfFuel
  | S f =>
      match b with
      | [] => Ok []
      | _ :: _ =>
          match pb_key b with
          | None => Err
          | Some (t, wt, r) =>
              if wt =? 4 then Err
              else if wt =? 3 then
                match skip_group f ctx t r with
                | Ok r' =>
                    match parse_fields f ctx r' with
                    | Ok fs => Ok ((t, WGroup) :: fs)
                    | Err => Err
                    | OutOfFuel => OutOfFuel
                    end
                | Err => Err
                | OutOfFuel => OutOfFuel
                end
              else
                match read_scalar wt r with
                | Some (v, r') =>
                    match parse_fields f ctx r' with
                    | Ok fs => Ok ((t, v) :: fs)
                    | Err => Err
                    | OutOfFuel => OutOfFuel
                    end
                | None => Err
                end
          end
      end
  end.

(* the fuel used everywhere: one more than the input length *)
Definition pb_parse_at (ctx : N) (b : bytes) : res (list field) := parse_fields (S (length b)) ctx b.
(* Message::decode *)
Definition pb_parse (b : bytes) : res (list field) := pb_parse_at RECURSION_LIMIT b.

(* encoding::message::merge for a nested message at a level whose recurse_count is ctx:
   `ctx.limit_reached()?` then the payload is read with ctx - 1 *)
Definition pb_parse_sub (ctx : N) (payload : bytes) : res (list field) :=
  if ctx =? 0 then Err else pb_parse_at (ctx - 1) payload.

(* ---------- the generic encoder (what prost's encode_key / encode_varint / put produce) ---------- *)
Definition enc_key (num wt : N) : bytes := encode (num * 8 + wt).
Definition enc_field (f : field) : bytes :=
  match f with
  | (num, WVarint n) => enc_key num 0 ++ encode n
  | (num, WFixed64 b) => enc_key num 1 ++ b
  | (num, WLen b) => enc_key num 2 ++ encode (blen b) ++ b
  | (num, WFixed32 b) => enc_key num 5 ++ b
  | (num, WGroup) => enc_key num 3 ++ enc_key num 4
  end.
Definition encode_fields (fs : list field) : bytes := flat_map enc_field fs.

(* ---------- sizes ---------- *)
(* payload bytes a token carries into the decoded value *)
Definition wpayload (v : wval) : nat :=
  match v with WLen b | WFixed64 b | WFixed32 b => length b | _ => O end.
Definition fields_payload (fs : list field) : nat :=
  fold_right (fun f acc => (wpayload (snd f) + acc)%nat) O fs.

(* ---------- scalar conversions of the generated code ---------- *)
Definition to_u32 (n : N) : N := n mod 2 ^ 32.          (* `value as u32` / `as i32` (two's complement) *)
Definition to_bool (n : N) : bool := negb (n =? 0).     (* `value != 0` *)
(* `*value as u64` of an i32 kept as its two's complement in [0, 2^32): sign extension *)
Definition i32_to_u64 (n : N) : N := if n <? 2 ^ 31 then n else n + (2 ^ 64 - 2 ^ 32).

(* ---------- UTF-8 (core::str::from_utf8: Unicode table 3-7, no surrogates, <= U+10FFFF) ---------- *)
Definition in_rng (x lo hi : N) : bool := (lo <=? x) && (x <=? hi).
Definition cont (x : N) : bool := in_rng x 128 191.

Fixpoint utf8_ok (l : bytes) : bool :=
  match l with
  | [] => true
  | a :: t1 =>
      if a <? 128 then utf8_ok t1
      else if a <? 194 then false
      else if a <? 224 then
        match t1 with
        | b :: t2 => cont b && utf8_ok t2
        | [] => false
        end
      else if a <? 240 then
        match t1 with
        | b :: c :: t3 =>
            (if a =? 224 then in_rng b 160 191 else if a =? 237 then in_rng b 128 159 else cont b)
            && cont c && utf8_ok t3
        | _ => false
        end
      else if a <? 245 then
        match t1 with
        | b :: c :: d :: t4 =>
            (if a =? 240 then in_rng b 144 191 else if a =? 244 then in_rng b 128 143 else cont b)
            && cont c && cont d && utf8_ok t4
        | _ => false
        end
      else false
  end.

(* ================================================================== lemmas *)
Local Arguments N.add : simpl never.
Local Arguments N.mul : simpl never.
Local Arguments N.sub : simpl never.
Local Arguments N.eqb : simpl never.
Local Arguments N.ltb : simpl never.
Local Arguments N.leb : simpl never.
Local Arguments N.div : simpl never.
Local Arguments N.modulo : simpl never.
Local Arguments N.pow : simpl never.
Local Arguments N.of_nat : simpl never.
Local Arguments N.to_nat : simpl never.

Lemma two32 : 2 ^ 32 = 4294967296. Proof. reflexivity. Qed.
Lemma two64 : 2 ^ 64 = 18446744073709551616. Proof. reflexivity. Qed.
Lemma two29 : 2 ^ 29 = 536870912. Proof. reflexivity. Qed.

Lemma blen_app a b : blen (a ++ b) = blen a + blen b.
Proof. unfold blen. rewrite app_length. lia. Qed.

(* ---- take_varint without a byte-range assumption: shape of the split ---- *)
Lemma take_varint_split fuel : forall l p r,
  take_varint fuel l = Some (p, r) -> l = p ++ r /\ (1 <= length p <= fuel)%nat.
Proof.
  induction fuel as [|f IH]; intros l p r; [destruct l; discriminate|].
  destruct l as [|b t]; cbn [take_varint]; [discriminate|].
  destruct (b <? 128).
  - intros [= <- <-]. cbn. split; [reflexivity|lia].
  - destruct (take_varint f t) as [[p' r']|] eqn:T; [|discriminate].
    intros [= <- <-]. destruct (IH _ _ _ T) as (-> & L). cbn [length app]. split; [reflexivity|lia].
Qed.

Lemma pb_varint_split b n r : pb_varint b = Some (n, r) ->
  exists p, b = p ++ r /\ (1 <= length p <= 10)%nat.
Proof.
  unfold pb_varint. destruct (take_varint 10 b) as [[p r']|] eqn:T; [|discriminate].
  destruct (Nat.eqb (length p) 10 && (2 <=? last p 0)); [discriminate|].
  intros [= <- <-]. exists p. apply take_varint_split. exact T.
Qed.

Lemma pb_varint_shorter b n r : pb_varint b = Some (n, r) -> (length r < length b)%nat.
Proof.
  intros H. destruct (pb_varint_split _ _ _ H) as (p & -> & L). rewrite app_length. lia.
Qed.

Lemma pb_key_shorter b t wt r : pb_key b = Some (t, wt, r) -> (length r < length b)%nat.
Proof.
  unfold pb_key. destruct (pb_varint b) as [[k r']|] eqn:V; [|discriminate].
  destruct (2 ^ 32 <=? k); [discriminate|]. destruct (6 <=? k mod 8); [discriminate|].
  destruct (k / 8 =? 0); [discriminate|]. intros [= <- <- <-]. eapply pb_varint_shorter; eassumption.
Qed.

Lemma take_n_spec n b x r : take_n n b = Some (x, r) ->
  b = x ++ r /\ blen x = n.
Proof.
  unfold take_n. destruct (blen b <? n) eqn:E; [discriminate|]. intros [= <- <-].
  split; [symmetry; apply firstn_skipn|]. unfold blen in *. rewrite firstn_length. lia.
Qed.

(* every value costs at least one byte of input, and at least its payload *)
Lemma read_scalar_cost wt b v r : read_scalar wt b = Some (v, r) ->
  (length r + wpayload v <= length b /\ length r + 1 <= length b)%nat.
Proof.
  unfold read_scalar.
  destruct (wt =? 0).
  { destruct (pb_varint b) as [[n r']|] eqn:V; [|discriminate]. intros [= <- <-].
    pose proof (pb_varint_shorter _ _ _ V). cbn [wpayload]. lia. }
  destruct (wt =? 1).
  { destruct (take_n 8 b) as [[x r']|] eqn:T; [|discriminate]. intros [= <- <-].
    destruct (take_n_spec _ _ _ _ T) as (-> & L). unfold blen in L. rewrite app_length. cbn [wpayload]. lia. }
  destruct (wt =? 2).
  { destruct (pb_varint b) as [[n r']|] eqn:V; [|discriminate].
    destruct (take_n n r') as [[x r'']|] eqn:T; [|discriminate]. intros [= <- <-].
    pose proof (pb_varint_shorter _ _ _ V). destruct (take_n_spec _ _ _ _ T) as (-> & L).
    rewrite app_length in *. cbn [wpayload]. lia. }
  destruct (wt =? 5); [|discriminate].
  destruct (take_n 4 b) as [[x r']|] eqn:T; [|discriminate]. intros [= <- <-].
  destruct (take_n_spec _ _ _ _ T) as (-> & L). unfold blen in L. rewrite app_length. cbn [wpayload]. lia.
Qed.

(* ---- the group skipper: fuel, progress ---- *)
Lemma skip_group_spec fuel : forall ctx tag b,
  (length b < fuel)%nat ->
  skip_group fuel ctx tag b <> OutOfFuel /\
  (forall r, skip_group fuel ctx tag b = Ok r -> (length r < length b)%nat) /\
  (forall fuel', (length b < fuel')%nat -> skip_group fuel' ctx tag b = skip_group fuel ctx tag b).
Proof.
  induction fuel as [|f IH]; intros ctx tag b L; [lia|].
  cbn [skip_group].
  destruct (pb_key b) as [[[t wt] r]|] eqn:K.
  2:{ split; [discriminate|]. split; [discriminate|]. intros [|f'] L'; [lia|]. cbn [skip_group]. rewrite K. reflexivity. }
  pose proof (pb_key_shorter _ _ _ _ K) as Lr.
  assert (Stab : forall fuel', (length b < fuel')%nat ->
     skip_group fuel' ctx tag b =
       (if wt =? 4 then (if t =? tag then Ok r else Err)
        else if ctx - 1 =? 0 then Err
        else if wt =? 3 then
          match skip_group (pred fuel') (ctx - 1) t r with
          | Ok r' => skip_group (pred fuel') ctx tag r' | Err => Err | OutOfFuel => OutOfFuel end
        else match read_scalar wt r with
             | Some (_, r') => skip_group (pred fuel') ctx tag r' | None => Err end)).
  { intros [|f'] L'; [lia|]. cbn [skip_group pred]. rewrite K. reflexivity. }
  destruct (wt =? 4) eqn:E4.
  { split; [destruct (t =? tag); discriminate|]. split.
    - intros r0. destruct (t =? tag); [|discriminate]. intros [= <-]. exact Lr.
    - intros fuel' L'. rewrite (Stab fuel' L'), ?E4. reflexivity. }
  destruct (ctx - 1 =? 0) eqn:Ec.
  { split; [discriminate|]. split; [discriminate|]. intros fuel' L'. rewrite (Stab fuel' L'), ?E4, ?Ec. reflexivity. }
  destruct (wt =? 3) eqn:E3.
  - destruct (IH (ctx - 1) t r ltac:(lia)) as (NF1 & Sh1 & St1).
    destruct (skip_group f (ctx - 1) t r) as [r'| |] eqn:G1; [| |congruence].
    + specialize (Sh1 r' eq_refl).
      destruct (IH ctx tag r' ltac:(lia)) as (NF2 & Sh2 & St2).
      split; [exact NF2|]. split.
      * intros r0 H0. specialize (Sh2 r0 H0). lia.
      * intros fuel' L'. rewrite (Stab fuel' L'), ?E4, ?Ec, ?E3.
        rewrite (St1 (pred fuel')) by lia. rewrite ?G1. apply St2. lia.
    + split; [discriminate|]. split; [discriminate|].
      intros fuel' L'. rewrite (Stab fuel' L'), ?E4, ?Ec, ?E3. rewrite (St1 (pred fuel')) by lia.
      rewrite ?G1. reflexivity.
  - destruct (read_scalar wt r) as [[v r']|] eqn:R.
    + pose proof (read_scalar_cost _ _ _ _ R) as C.
      destruct (IH ctx tag r' ltac:(lia)) as (NF2 & Sh2 & St2).
      split; [exact NF2|]. split.
      * intros r0 H0. specialize (Sh2 r0 H0). lia.
      * intros fuel' L'. rewrite (Stab fuel' L'), ?E4, ?Ec, ?E3, ?R. apply St2. lia.
    + split; [discriminate|]. split; [discriminate|].
      intros fuel' L'. rewrite (Stab fuel' L'), ?E4, ?Ec, ?E3, ?R. reflexivity.
Qed.

(* ---- the tokeniser: never out of fuel, fuel irrelevant, size of the result ---- *)
Lemma parse_fields_spec fuel : forall ctx b,
  (length b < fuel)%nat ->
  parse_fields fuel ctx b <> OutOfFuel /\
  (forall fs, parse_fields fuel ctx b = Ok fs ->
     (length fs + fields_payload fs <= length b /\ 2 * length fs <= length b)%nat) /\
  (forall fuel', (length b < fuel')%nat -> parse_fields fuel' ctx b = parse_fields fuel ctx b).
Proof.
  induction fuel as [|f IH]; intros ctx b L; [lia|].
  destruct b as [|x b0].
  { cbn [parse_fields]. split; [discriminate|]. split.
    - intros fs [= <-]. cbn. lia.
    - intros [|f'] L'; [cbn in L'; lia|]. reflexivity. }
  set (b := x :: b0) in *.
  assert (Stab : forall fuel', (length b < fuel')%nat ->
    parse_fields fuel' ctx b =
      match pb_key b with
      | None => Err
      | Some (t, wt, r) =>
          if wt =? 4 then Err
          else if wt =? 3 then
            match skip_group (pred fuel') ctx t r with
            | Ok r' => match parse_fields (pred fuel') ctx r' with
                       | Ok fs => Ok ((t, WGroup) :: fs) | Err => Err | OutOfFuel => OutOfFuel end
            | Err => Err | OutOfFuel => OutOfFuel end
          else match read_scalar wt r with
               | Some (v, r') => match parse_fields (pred fuel') ctx r' with
                                 | Ok fs => Ok ((t, v) :: fs) | Err => Err | OutOfFuel => OutOfFuel end
               | None => Err end
      end).
  { intros [|f'] L'; [lia|]. reflexivity. }
  rewrite (Stab (S f) L). cbn [pred].
  destruct (pb_key b) as [[[t wt] r]|] eqn:K.
  2:{ split; [discriminate|]. split; [discriminate|]. intros fuel' L'. rewrite (Stab fuel' L'). reflexivity. }
  pose proof (pb_key_shorter _ _ _ _ K) as Lr.
  destruct (wt =? 4) eqn:E4.
  { split; [discriminate|]. split; [discriminate|]. intros fuel' L'. rewrite (Stab fuel' L'), ?E4. reflexivity. }
  destruct (wt =? 3) eqn:E3.
  - destruct (skip_group_spec f ctx t r ltac:(lia)) as (NF1 & Sh1 & St1).
    destruct (skip_group f ctx t r) as [r'| |] eqn:G1; [| |congruence].
    + specialize (Sh1 r' eq_refl).
      destruct (IH ctx r' ltac:(lia)) as (NF2 & Sz2 & St2).
      destruct (parse_fields f ctx r') as [fs| |] eqn:P2; [| |congruence].
      * split; [discriminate|]. split.
        -- intros fs0 [= <-]. specialize (Sz2 fs eq_refl). cbn [length fields_payload fold_right snd wpayload].
           fold (fields_payload fs). lia.
        -- intros fuel' L'. rewrite (Stab fuel' L'), ?E4, ?E3. rewrite (St1 (pred fuel')) by lia.
           rewrite ?G1. rewrite (St2 (pred fuel')) by lia. rewrite ?P2. reflexivity.
      * split; [discriminate|]. split; [discriminate|].
        intros fuel' L'. rewrite (Stab fuel' L'), ?E4, ?E3. rewrite (St1 (pred fuel')) by lia.
        rewrite ?G1. rewrite (St2 (pred fuel')) by lia. rewrite ?P2. reflexivity.
    + split; [discriminate|]. split; [discriminate|].
      intros fuel' L'. rewrite (Stab fuel' L'), ?E4, ?E3. rewrite (St1 (pred fuel')) by lia.
      rewrite ?G1. reflexivity.
  - destruct (read_scalar wt r) as [[v r']|] eqn:R.
    + pose proof (read_scalar_cost _ _ _ _ R) as C.
      destruct (IH ctx r' ltac:(lia)) as (NF2 & Sz2 & St2).
      destruct (parse_fields f ctx r') as [fs| |] eqn:P2; [| |congruence].
      * split; [discriminate|]. split.
        -- intros fs0 [= <-]. specialize (Sz2 fs eq_refl). cbn [length fields_payload fold_right snd].
           fold (fields_payload fs). lia.
        -- intros fuel' L'. rewrite (Stab fuel' L'), ?E4, ?E3, ?R. rewrite (St2 (pred fuel')) by lia.
           rewrite ?P2. reflexivity.
      * split; [discriminate|]. split; [discriminate|].
        intros fuel' L'. rewrite (Stab fuel' L'), ?E4, ?E3, ?R. rewrite (St2 (pred fuel')) by lia.
        rewrite ?P2. reflexivity.
    + split; [discriminate|]. split; [discriminate|].
      intros fuel' L'. rewrite (Stab fuel' L'), ?E4, ?E3, ?R. reflexivity.
Qed.

(* the three facts, for the fuel that is actually used *)
Theorem parse_fields_fuel ctx b : pb_parse_at ctx b <> OutOfFuel.
Proof. unfold pb_parse_at. apply parse_fields_spec. lia. Qed.

Theorem parse_fields_fuel_irrelevant ctx b fuel :
  (length b < fuel)%nat -> parse_fields fuel ctx b = pb_parse_at ctx b.
Proof.
  intros L. unfold pb_parse_at.
  destruct (parse_fields_spec (S (length b)) ctx b ltac:(lia)) as (_ & _ & St). apply St. exact L.
Qed.

Theorem parse_fields_size ctx b fs : pb_parse_at ctx b = Ok fs ->
  (length fs + fields_payload fs <= length b /\ 2 * length fs <= length b)%nat.
Proof.
  unfold pb_parse_at. intros H.
  destruct (parse_fields_spec (S (length b)) ctx b ltac:(lia)) as (_ & Sz & _). apply Sz. exact H.
Qed.

Lemma pb_parse_sub_fuel ctx b : pb_parse_sub ctx b <> OutOfFuel.
Proof. unfold pb_parse_sub. destruct (ctx =? 0); [discriminate|apply parse_fields_fuel]. Qed.

Lemma pb_parse_sub_size ctx b fs : pb_parse_sub ctx b = Ok fs ->
  (length fs + fields_payload fs <= length b /\ 2 * length fs <= length b)%nat.
Proof. unfold pb_parse_sub. destruct (ctx =? 0); [discriminate|apply parse_fields_size]. Qed.

(* ---- round trip of the tokeniser ---- *)
Lemma value_ge_last p : wf p -> last p 0 * pow128 (pred (length p)) <= value p.
Proof.
  induction 1 as [b H|b t H1 H2 W IH].
  - cbn [last length pred pow128 value]. rewrite N.mod_small by lia. lia.
  - pose proof (wf_nonempty _ W) as NE.
    assert (E : last (b :: t) 0 = last t 0) by (destruct t; [congruence|reflexivity]).
    rewrite E. cbn [length pred value].
    destruct t as [|x t']; [congruence|]. cbn [length pred] in IH. cbn [length pow128].
    pose proof (mod128_lt b). nia.
Qed.

Lemma pb_varint_encode n rest : n < 2 ^ 64 -> pb_varint (encode n ++ rest) = Some (n, rest).
Proof.
  intros Hn. unfold pb_varint. destruct (encode_spec n) as (W & V & M).
  assert (L : (length (encode n) <= 10)%nat).
  { apply (encode_length n 9). pose proof pow128_10. lia. }
  rewrite (take_varint_app 10 _ rest W L), V.
  destruct (Nat.eqb (length (encode n)) 10) eqn:E10; [|reflexivity]. cbn [andb].
  apply Nat.eqb_eq in E10. pose proof (value_ge_last _ W) as G. rewrite V, E10 in G.
  cbn [pred] in G. change (pow128 9) with 9223372036854775808 in G. rewrite two64 in Hn.
  destruct (2 <=? last (encode n) 0) eqn:E2; [nia|reflexivity].
Qed.

Definition wf_num (num : N) : Prop := 1 <= num /\ num < 2 ^ 29.

Lemma pb_key_enc num wt rest : wf_num num -> wt < 6 ->
  pb_key (enc_key num wt ++ rest) = Some (num, wt, rest).
Proof.
  intros [H1 H2] Hw. rewrite two29 in H2. unfold pb_key, enc_key.
  rewrite pb_varint_encode by (rewrite two64; lia).
  assert (Em : (num * 8 + wt) mod 8 = wt).
  { rewrite N.add_comm, N.mod_add by lia. apply N.mod_small. lia. }
  assert (Ed : (num * 8 + wt) / 8 = num).
  { rewrite N.add_comm, N.div_add by lia. rewrite N.div_small by lia. lia. }
  rewrite Em, Ed, two32.
  destruct (4294967296 <=? num * 8 + wt) eqn:A; [lia|].
  destruct (6 <=? wt) eqn:B; [lia|]. destruct (num =? 0) eqn:C; [lia|]. reflexivity.
Qed.

Lemma take_n_app x r : take_n (blen x) (x ++ r) = Some (x, r).
Proof.
  unfold take_n. rewrite blen_app. destruct (blen x + blen r <? blen x) eqn:E; [lia|].
  unfold blen. rewrite Nat2N.id. rewrite firstn_app, Nat.sub_diag, firstn_all. cbn [firstn].
  rewrite app_nil_r. rewrite skipn_app, Nat.sub_diag, skipn_all. reflexivity.
Qed.

Definition wf_field (f : field) : Prop :=
  wf_num (fst f) /\
  match snd f with
  | WVarint n => n < 2 ^ 64
  | WFixed64 b => length b = 8%nat
  | WLen b => blen b < 2 ^ 64
  | WFixed32 b => length b = 4%nat
  | WGroup => False
  end.

Lemma enc_key_nonempty num wt : enc_key num wt <> [].
Proof. unfold enc_key. apply wf_nonempty. apply encode_spec. Qed.

Lemma parse_fields_step f ctx b t wt r v r' fs :
  pb_key b = Some (t, wt, r) -> (wt =? 4) = false -> (wt =? 3) = false ->
  read_scalar wt r = Some (v, r') -> parse_fields f ctx r' = Ok fs ->
  parse_fields (S f) ctx b = Ok ((t, v) :: fs).
Proof.
  intros K E4 E3 R P. destruct b as [|x b0]; [discriminate K|].
  cbn [parse_fields]. rewrite K, E4, E3, R, P. reflexivity.
Qed.

Lemma read_scalar_enc (v : wval) rest :
  match v with
  | WVarint n => n < 2 ^ 64 /\ read_scalar 0 (encode n ++ rest) = Some (v, rest)
  | WFixed64 b => length b = 8%nat -> read_scalar 1 (b ++ rest) = Some (v, rest)
  | WLen b => blen b < 2 ^ 64 -> read_scalar 2 (encode (blen b) ++ b ++ rest) = Some (v, rest)
  | WFixed32 b => length b = 4%nat -> read_scalar 5 (b ++ rest) = Some (v, rest)
  | WGroup => True
  end \/ (match v with WVarint n => ~ n < 2 ^ 64 | _ => False end).
Proof.
  destruct v as [n|b|b|b|]; unfold read_scalar.
  - destruct (N.lt_ge_cases n (2 ^ 64)) as [H|H]; [left|right; lia].
    split; [exact H|]. change (0 =? 0) with true. cbn iota. rewrite pb_varint_encode by exact H. reflexivity.
  - left. intros L. change (1 =? 0) with false. change (1 =? 1) with true. cbn iota.
    replace 8 with (blen b) by (unfold blen; rewrite L; reflexivity). rewrite take_n_app. reflexivity.
  - left. intros L. change (2 =? 0) with false. change (2 =? 1) with false. change (2 =? 2) with true. cbn iota.
    rewrite pb_varint_encode by exact L. rewrite take_n_app. reflexivity.
  - left. intros L. change (5 =? 0) with false. change (5 =? 1) with false. change (5 =? 2) with false.
    change (5 =? 5) with true. cbn iota.
    replace 4 with (blen b) by (unfold blen; rewrite L; reflexivity). rewrite take_n_app. reflexivity.
  - left. exact I.
Qed.

Lemma parse_encode_fields ctx : forall fs fuel,
  Forall wf_field fs -> (length (encode_fields fs) < fuel)%nat ->
  parse_fields fuel ctx (encode_fields fs) = Ok fs.
Proof.
  induction fs as [|[num v] fs IH]; intros fuel W L.
  - destruct fuel; [cbn in L; lia|]. reflexivity.
  - inversion W as [|? ? [Wn Wv] W']; subst. cbn [fst snd] in *.
    destruct fuel as [|f]; [lia|].
    unfold encode_fields in *. cbn [flat_map] in *. fold (encode_fields fs) in *.
    rewrite app_length in L.
    assert (Lk : forall w, (1 <= length (enc_key num w))%nat).
    { intros w. pose proof (enc_key_nonempty num w). destruct (enc_key num w); [congruence|cbn; lia]. }
    destruct v as [n|b|b|b|]; cbn [enc_field] in *; [| | | |destruct Wv]; rewrite <- ?app_assoc.
    + eapply parse_fields_step; [apply pb_key_enc; [exact Wn|lia]|reflexivity|reflexivity| |].
      * destruct (read_scalar_enc (WVarint n) (encode_fields fs)) as [[_ H]|H]; [exact H|contradiction].
      * apply IH; [exact W'|]. specialize (Lk 0). rewrite !app_length in L. lia.
    + eapply parse_fields_step; [apply pb_key_enc; [exact Wn|lia]|reflexivity|reflexivity| |].
      * destruct (read_scalar_enc (WFixed64 b) (encode_fields fs)) as [H|[]]. apply H. exact Wv.
      * apply IH; [exact W'|]. specialize (Lk 1). rewrite !app_length in L. lia.
    + eapply parse_fields_step; [apply pb_key_enc; [exact Wn|lia]|reflexivity|reflexivity| |].
      * destruct (read_scalar_enc (WLen b) (encode_fields fs)) as [H|[]]. apply H. exact Wv.
      * apply IH; [exact W'|]. specialize (Lk 2). rewrite !app_length in L. lia.
    + eapply parse_fields_step; [apply pb_key_enc; [exact Wn|lia]|reflexivity|reflexivity| |].
      * destruct (read_scalar_enc (WFixed32 b) (encode_fields fs)) as [H|[]]. apply H. exact Wv.
      * apply IH; [exact W'|]. specialize (Lk 5). rewrite !app_length in L. lia.
Qed.

Theorem pb_parse_encode ctx fs : Forall wf_field fs -> pb_parse_at ctx (encode_fields fs) = Ok fs.
Proof. intros W. unfold pb_parse_at. apply parse_encode_fields; [exact W|lia]. Qed.

Lemma pb_parse_sub_encode ctx fs : 1 <= ctx -> Forall wf_field fs ->
  pb_parse_sub ctx (encode_fields fs) = Ok fs.
Proof.
  intros H W. unfold pb_parse_sub. destruct (ctx =? 0) eqn:E; [lia|]. apply pb_parse_encode. exact W.
Qed.

(* ---- bytes_ok of encodings ---- *)
Lemma enc_field_bytes f :
  match snd f with WLen b | WFixed64 b | WFixed32 b => bytes_ok b = true | _ => True end ->
  bytes_ok (enc_field f) = true.
Proof.
  destruct f as [num v]. cbn [snd]. unfold enc_key.
  destruct v; cbn [enc_field]; intros H; unfold enc_key; rewrite ?bytes_ok_app, ?encode_bytes, ?H; reflexivity.
Qed.

(* ---- scalar conversions ---- *)
Lemma to_u32_small n : n < 2 ^ 32 -> to_u32 n = n.
Proof. intros H. unfold to_u32. apply N.mod_small. exact H. Qed.

Lemma i32_roundtrip n : n < 2 ^ 32 -> to_u32 (i32_to_u64 n) = n /\ i32_to_u64 n < 2 ^ 64.
Proof.
  intros H. unfold i32_to_u64, to_u32. rewrite two32 in *. rewrite two64.
  change (2 ^ 31) with 2147483648. destruct (n <? 2147483648) eqn:E.
  - split; [apply N.mod_small; lia|lia].
  - split; [|lia].
    replace (n + (18446744073709551616 - 4294967296)) with (n + 4294967295 * 4294967296) by lia.
    rewrite N.mod_add by lia. apply N.mod_small. lia.
Qed.
