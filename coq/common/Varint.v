(* Unsigned LEB128 varints as used by the `unsigned-varint` crate (0.8.0), reusable by all properties.

   Representation: a byte is an N below 256, a byte string is a `list N` (same convention as
   the wire format of common/Wire.v, so no conversion is needed in the Glue files).

   encode : N -> list N                       unsigned_varint::encode::{u8,..,u64,usize}
   decode_gen nbytes bits : list N -> option (N * list N)
                                              unsigned_varint::decode::{u32,u64,usize} and
                                              unsigned_varint::io::read_u64, with the crate's rules:
       - at most `nbytes` bytes are looked at (5 for u32, 10 for u64/usize); if none of them
         has the top bit clear the result is Overflow; running out of input is Insufficient/EOF;
       - a multi-byte varint whose last byte is 0 is rejected (NotMinimal);
       - the value is assembled with `n |= k << (7*i)` in the target integer type, so bits that
         do not fit are SILENTLY DROPPED (only possible in the last admissible byte: byte 10 of
         a u64 keeps 1 bit of 7, byte 5 of a u32 keeps 4 bits of 7).  This is modelled by
         `mod 2^bits` and is the reason why decoding is not injective on 10-byte inputs
         (lemma decode_u64_truncates).
   All errors are collapsed to None (the callers modelled so far map them to one error). *)
From Coq Require Import List Arith NArith Bool Lia.
From Coq Require Import ZifyBool ZifyNat ZifyN.
Import ListNotations.
Open Scope N_scope.

Fixpoint pow128 (f : nat) : N := match f with O => 1 | S f' => 128 * pow128 f' end.

(* little-endian groups of 7 bits, top bit set on all but the last group *)
Fixpoint enc (fuel : nat) (n : N) : list N :=
  match fuel with
  | O => [n mod 128]
  | S f => if n <? 128 then [n] else (128 + n mod 128) :: enc f (n / 128)
  end.

(* N.size n = number of bits of n: always enough fuel *)
Definition encode (n : N) : list N := enc (N.to_nat (N.size n)) n.

(* value of a varint prefix, before truncation to the integer type *)
Fixpoint value (pre : list N) : N :=
  match pre with [] => 0 | b :: t => b mod 128 + 128 * value t end.

(* the bytes up to and including the first one with the top bit clear, at most `fuel` of them *)
Fixpoint take_varint (fuel : nat) (l : list N) : option (list N * list N) :=
  match fuel, l with
  | O, _ => None
  | _, [] => None
  | S f, b :: t =>
      if b <? 128 then Some ([b], t)
      else match take_varint f t with Some (p, r) => Some (b :: p, r) | None => None end
  end.

Definition minimal (pre : list N) : bool :=
  match pre with
  | [] => false
  | [_] => true
  | _ => negb (last pre 1 =? 0)
  end.

Definition decode_gen (nbytes : nat) (bits : N) (l : list N) : option (N * list N) :=
  match take_varint nbytes l with
  | Some (pre, rest) => if minimal pre then Some (value pre mod 2 ^ bits, rest) else None
  | None => None
  end.

Definition decode_u64 := decode_gen 10 64.
Definition decode_u32 := decode_gen 5 32.

Definition is_byte (b : N) : bool := b <? 256.
Definition bytes_ok (l : list N) : bool := forallb is_byte l.

(* ------------------------------------------------------------------ *)
Local Arguments N.add : simpl never.
Local Arguments N.mul : simpl never.
Local Arguments N.sub : simpl never.
Local Arguments N.eqb : simpl never.
Local Arguments N.ltb : simpl never.
Local Arguments N.leb : simpl never.
Local Arguments N.div : simpl never.
Local Arguments N.modulo : simpl never.
Local Arguments N.pow : simpl never.

Lemma pow128_pos f : 0 < pow128 f.
Proof. induction f as [|f IH]; cbn [pow128]; lia. Qed.

Lemma div128_lt n q : n < 128 * q -> n / 128 < q.
Proof. intros H. apply N.div_lt_upper_bound; lia. Qed.

Lemma mod128_lt n : n mod 128 < 128.
Proof. apply N.mod_lt; lia. Qed.

Lemma div_mod128 n : n = 128 * (n / 128) + n mod 128.
Proof. apply N.div_mod; lia. Qed.

(* fuel irrelevance *)
Lemma enc_irrel f1 : forall f2 n, n < pow128 (S f1) -> n < pow128 (S f2) -> enc f1 n = enc f2 n.
Proof.
  induction f1 as [|f1 IH]; intros f2 n H1 H2.
  - cbn [pow128] in H1. destruct f2 as [|f2]; cbn [enc]; [reflexivity|].
    destruct (n <? 128) eqn:E; [|lia]. rewrite N.mod_small by lia. reflexivity.
  - destruct f2 as [|f2].
    + cbn [pow128] in H2. cbn [enc]. destruct (n <? 128) eqn:E; [|lia].
      rewrite N.mod_small by lia. reflexivity.
    + cbn [enc]. destruct (n <? 128) eqn:E; [reflexivity|]. f_equal.
      apply IH; apply div128_lt; [exact H1 | exact H2].
Qed.

Lemma pow2_le_pow128 k : 2 ^ N.of_nat k <= pow128 k.
Proof.
  induction k as [|k IH]; [cbn; lia|].
  rewrite Nat2N.inj_succ, N.pow_succ_r by lia. cbn [pow128]. lia.
Qed.

Lemma lt_pow128_size n : n < pow128 (S (N.to_nat (N.size n))).
Proof.
  pose proof (N.size_gt n) as H.
  pose proof (pow2_le_pow128 (N.to_nat (N.size n))) as H2.
  rewrite N2Nat.id in H2. cbn [pow128].
  pose proof (pow128_pos (N.to_nat (N.size n))). lia.
Qed.

Lemma encode_enc f n : n < pow128 (S f) -> enc f n = encode n.
Proof. intros H. unfold encode. apply enc_irrel; [exact H | apply lt_pow128_size]. Qed.

Lemma encode_small n : n < 128 -> encode n = [n].
Proof. intros H. rewrite <- (encode_enc 0) by (cbn; lia). cbn [enc]. now rewrite N.mod_small. Qed.

Lemma encode_step n : 128 <= n -> encode n = (128 + n mod 128) :: encode (n / 128).
Proof.
  intros H. unfold encode at 1.
  destruct (N.to_nat (N.size n)) as [|f] eqn:E.
  - pose proof (lt_pow128_size n) as L. rewrite E in L. cbn in L. lia.
  - cbn [enc]. destruct (n <? 128) eqn:E2; [lia|]. f_equal.
    apply encode_enc. apply div128_lt. pose proof (lt_pow128_size n) as L. rewrite E in L. exact L.
Qed.

(* ---- well-formed varint prefixes ---- *)
Inductive wf : list N -> Prop :=
| wf_last b : b < 128 -> wf [b]
| wf_more b t : 128 <= b -> b < 256 -> wf t -> wf (b :: t).

Lemma wf_nonempty p : wf p -> p <> [].
Proof. destruct 1; discriminate. Qed.

Lemma wf_bytes p : wf p -> bytes_ok p = true.
Proof.
  induction 1 as [b H|b t H1 H2 H IH]; cbn [bytes_ok forallb].
  - unfold is_byte. destruct (b <? 256) eqn:E; [reflexivity|lia].
  - fold (bytes_ok t). rewrite IH. unfold is_byte. destruct (b <? 256) eqn:E; [reflexivity|lia].
Qed.

Lemma take_varint_wf fuel : forall l p r,
  bytes_ok l = true -> take_varint fuel l = Some (p, r) ->
  wf p /\ l = p ++ r /\ (length p <= fuel)%nat.
Proof.
  induction fuel as [|f IH]; intros l p r B; [destruct l; discriminate|].
  destruct l as [|b t]; cbn [take_varint]; [discriminate|].
  cbn [bytes_ok forallb] in B. apply andb_prop in B as [Bb Bt]. unfold is_byte in Bb.
  destruct (b <? 128) eqn:E.
  - intros [= <- <-]. split; [constructor; lia|]. split; [reflexivity|cbn; lia].
  - destruct (take_varint f t) as [[p' r']|] eqn:T; [|discriminate].
    intros [= <- <-]. destruct (IH t p' r' Bt T) as (W & -> & L).
    split; [constructor; [lia|lia|exact W]|]. split; [reflexivity|cbn [length]; lia].
Qed.

Lemma take_varint_app fuel : forall p r,
  wf p -> (length p <= fuel)%nat -> take_varint fuel (p ++ r) = Some (p, r).
Proof.
  induction fuel as [|f IH]; intros p r W L.
  - destruct W; cbn [length] in L; lia.
  - destruct W as [b H|b t H1 H2 W]; cbn [app take_varint].
    + destruct (b <? 128) eqn:E; [reflexivity|lia].
    + destruct (b <? 128) eqn:E; [lia|]. cbn [length] in L.
      rewrite (IH t r W) by lia. reflexivity.
Qed.

(* ---- encode produces minimal well-formed prefixes with the right value ---- *)
Lemma enc_spec f : forall n, n < pow128 (S f) ->
  wf (enc f n) /\ value (enc f n) = n /\ minimal (enc f n) = true /\
  (length (enc f n) <= S f)%nat /\ (128 <= n -> last (enc f n) 1 <> 0).
Proof.
  induction f as [|f IH]; intros n H.
  - cbn [pow128] in H. cbn [enc]. rewrite N.mod_small by lia.
    repeat split; [constructor; lia | cbn [value]; rewrite N.mod_small by lia; lia | cbn; lia | lia].
  - cbn [enc]. destruct (n <? 128) eqn:E.
    + repeat split; [constructor; lia | cbn [value]; rewrite N.mod_small by lia; lia | cbn; lia | lia].
    + assert (Hd : n / 128 < pow128 (S f)) by (apply div128_lt; exact H).
      destruct (IH _ Hd) as (W & V & M & L & Z).
      pose proof (mod128_lt n) as Hm. pose proof (div_mod128 n) as Hdm.
      assert (Hq : 1 <= n / 128) by lia.
      assert (Hlast : last ((128 + n mod 128) :: enc f (n / 128)) 1 = last (enc f (n / 128)) 1).
      { pose proof (wf_nonempty _ W). destruct (enc f (n / 128)); [congruence|reflexivity]. }
      assert (Hnz : last (enc f (n / 128)) 1 <> 0).
      { destruct (N.lt_ge_cases (n / 128) 128) as [Hs|Hs].
        - replace (enc f (n / 128)) with [n / 128].
          + cbn [last]. lia.
          + rewrite (encode_enc f _ Hd). symmetry. apply encode_small. exact Hs.
        - apply Z. exact Hs. }
      repeat split.
      * constructor; [lia|lia|exact W].
      * cbn [value]. rewrite V.
        replace (128 + n mod 128) with (n mod 128 + 1 * 128) by lia.
        rewrite N.mod_add by lia. rewrite (N.mod_small (n mod 128)) by lia. lia.
      * pose proof (wf_nonempty _ W) as NE.
        cbn [minimal]. destruct (enc f (n / 128)) as [|x t] eqn:Ex; [congruence|].
        rewrite <- Ex in *. change (negb (last ((128 + n mod 128) :: enc f (n / 128)) 1 =? 0) = true).
        rewrite Hlast. destruct (last (enc f (n / 128)) 1 =? 0) eqn:E0; [lia|reflexivity].
      * cbn [length]. lia.
      * intros _. rewrite Hlast. exact Hnz.
Qed.

Lemma encode_spec n :
  wf (encode n) /\ value (encode n) = n /\ minimal (encode n) = true.
Proof.
  unfold encode. destruct (enc_spec _ n (lt_pow128_size n)) as (W & V & M & _). auto.
Qed.

Lemma encode_length n f : n < pow128 (S f) -> (length (encode n) <= S f)%nat.
Proof.
  intros H. rewrite <- (encode_enc f n H). destruct (enc_spec f n H) as (_ & _ & _ & L & _). exact L.
Qed.

Lemma encode_bytes n : bytes_ok (encode n) = true.
Proof. apply wf_bytes. apply encode_spec. Qed.

(* ---- a minimal well-formed prefix is the encoding of its value ---- *)
Lemma value_pos p : wf p -> last p 1 <> 0 -> 0 < value p.
Proof.
  induction 1 as [b H|b t H1 H2 W IH].
  - cbn [value last]. intros Hb. rewrite N.mod_small by lia. lia.
  - intros Hl. pose proof (wf_nonempty _ W).
    assert (last (b :: t) 1 = last t 1) as E by (destruct t; [congruence|reflexivity]).
    rewrite E in Hl. specialize (IH Hl). cbn [value]. lia.
Qed.

Lemma wf_minimal_encode p : wf p -> minimal p = true -> encode (value p) = p.
Proof.
  induction 1 as [b H|b t H1 H2 W IH]; intros M.
  - cbn [value]. rewrite N.mod_small by lia. replace (b + 128 * 0) with b by lia.
    apply encode_small. exact H.
  - pose proof (wf_nonempty _ W) as NE.
    assert (Hl : last t 1 <> 0).
    { cbn [minimal] in M. destruct t as [|x t']; [congruence|].
      destruct (last (b :: x :: t') 1 =? 0) eqn:E0; [discriminate|].
      change (last (b :: x :: t') 1) with (last (x :: t') 1) in E0. lia. }
    assert (Mt : minimal t = true).
    { destruct t as [|x [|y t']]; [congruence|reflexivity|].
      cbn [minimal]. destruct (last (x :: y :: t') 1 =? 0) eqn:E0; [lia|reflexivity]. }
    pose proof (value_pos _ W Hl) as Vp.
    cbn [value].
    assert (Hb : b mod 128 = b - 128).
    { replace b with ((b - 128) + 1 * 128) at 1 by lia. rewrite N.mod_add by lia.
      apply N.mod_small. lia. }
    rewrite Hb.
    set (n := b - 128 + 128 * value t).
    assert (Hmod : n mod 128 = b - 128).
    { unfold n. rewrite N.mul_comm, N.mod_add by lia. apply N.mod_small. lia. }
    assert (Hdiv : n / 128 = value t).
    { unfold n. rewrite N.mul_comm, N.div_add by lia. rewrite N.div_small by lia. lia. }
    rewrite encode_step by (unfold n; lia). rewrite Hmod, Hdiv, (IH Mt). f_equal. lia.
Qed.

(* ---- decode / encode ---- *)
Lemma decode_encode nbytes bits n rest :
  n < 2 ^ bits -> (length (encode n) <= nbytes)%nat ->
  decode_gen nbytes bits (encode n ++ rest) = Some (n, rest).
Proof.
  intros Hn Hl. unfold decode_gen. destruct (encode_spec n) as (W & V & M).
  rewrite (take_varint_app nbytes _ rest W Hl), M, V, N.mod_small by exact Hn. reflexivity.
Qed.

Lemma pow128_10 : 2 ^ 64 <= pow128 10.
Proof. vm_compute. discriminate. Qed.
Lemma pow128_5 : 2 ^ 32 <= pow128 5.
Proof. vm_compute. discriminate. Qed.

Lemma decode_u64_encode n rest : n < 2 ^ 64 -> decode_u64 (encode n ++ rest) = Some (n, rest).
Proof.
  intros H. apply decode_encode; [exact H|]. apply (encode_length n 9). pose proof pow128_10. lia.
Qed.

Lemma decode_u32_encode n rest : n < 2 ^ 32 -> decode_u32 (encode n ++ rest) = Some (n, rest).
Proof.
  intros H. apply decode_encode; [exact H|]. apply (encode_length n 4). pose proof pow128_5. lia.
Qed.

(* what an accepted input looks like *)
Lemma decode_gen_inv nbytes bits l n rest :
  bytes_ok l = true -> decode_gen nbytes bits l = Some (n, rest) ->
  exists pre, l = pre ++ rest /\ wf pre /\ minimal pre = true /\ (length pre <= nbytes)%nat /\
              n = value pre mod 2 ^ bits /\ encode (value pre) = pre.
Proof.
  intros B. unfold decode_gen.
  destruct (take_varint nbytes l) as [[p r]|] eqn:T; [|discriminate].
  destruct (minimal p) eqn:M; [|discriminate]. intros [= <- <-].
  destruct (take_varint_wf _ _ _ _ B T) as (W & E & L).
  exists p. repeat split; auto. apply wf_minimal_encode; assumption.
Qed.

Lemma value_bound p : wf p -> value p < pow128 (length p).
Proof.
  induction 1 as [b H|b t H1 H2 W IH]; cbn [value length pow128].
  - rewrite N.mod_small by lia. lia.
  - pose proof (mod128_lt b). lia.
Qed.

Lemma pow128_mono a b : (a <= b)%nat -> pow128 a <= pow128 b.
Proof.
  induction 1 as [|b H IH]; [lia|]. cbn [pow128]. pose proof (pow128_pos b). lia.
Qed.

(* canonicality: an accepted varint that does not use the last admissible byte (so that
   nothing can be truncated) is THE encoding of the decoded value *)
Lemma decode_gen_canonical nbytes bits l n rest :
  bytes_ok l = true -> decode_gen nbytes bits l = Some (n, rest) ->
  exists pre, l = pre ++ rest /\ (length pre <= nbytes)%nat /\
    (pow128 (length pre) <= 2 ^ bits -> pre = encode n).
Proof.
  intros B D. destruct (decode_gen_inv _ _ _ _ _ B D) as (pre & E & W & M & L & V & C).
  exists pre. split; [exact E|]. split; [exact L|]. intros Hfit.
  pose proof (value_bound _ W). rewrite N.mod_small in V by lia. subst n. symmetry. exact C.
Qed.

Lemma pow128_9 : pow128 9 <= 2 ^ 64.
Proof. vm_compute. discriminate. Qed.
Lemma pow128_4 : pow128 4 <= 2 ^ 32.
Proof. vm_compute. discriminate. Qed.

Lemma decode_u64_canonical l n rest :
  bytes_ok l = true -> decode_u64 l = Some (n, rest) ->
  exists pre, l = pre ++ rest /\ (length pre <= 10)%nat /\ ((length pre <= 9)%nat -> pre = encode n).
Proof.
  intros B D. destruct (decode_gen_canonical _ _ _ _ _ B D) as (pre & E & L & C).
  exists pre. split; [exact E|]. split; [exact L|]. intros H9. apply C.
  pose proof (pow128_mono _ _ H9). pose proof pow128_9. lia.
Qed.

Lemma decode_u64_shape l n rest :
  bytes_ok l = true -> decode_u64 l = Some (n, rest) ->
  exists pre, l = pre ++ rest /\ (1 <= length pre <= 10)%nat /\ bytes_ok pre = true /\
              ((length pre <= 9)%nat -> pre = encode n).
Proof.
  intros B D. destruct (decode_gen_inv _ _ _ _ _ B D) as (pre & E & W & M & L & V & C).
  exists pre. split; [exact E|]. split.
  - split; [|exact L]. pose proof (wf_nonempty _ W). destruct pre; [congruence|cbn [length]; lia].
  - split; [apply wf_bytes; exact W|]. intros H9.
    pose proof (value_bound _ W). pose proof (pow128_mono _ _ H9). pose proof pow128_9.
    fold decode_u64 in D. rewrite N.mod_small in V by lia. subst n. symmetry. exact C.
Qed.

Lemma bytes_ok_app a b : bytes_ok (a ++ b) = bytes_ok a && bytes_ok b.
Proof. unfold bytes_ok. apply forallb_app. Qed.

Lemma decode_gen_lt nbytes bits l n rest : decode_gen nbytes bits l = Some (n, rest) -> n < 2 ^ bits.
Proof.
  unfold decode_gen. destruct (take_varint nbytes l) as [[p r]|]; [|discriminate].
  destruct (minimal p); [|discriminate]. intros [= <- <-].
  apply N.mod_lt. apply N.pow_nonzero. lia.
Qed.

(* the truncation in the 10th byte, on the real code: 0x12 and this 10-byte string decode alike *)
Lemma decode_u64_truncates :
  decode_u64 [146; 128; 128; 128; 128; 128; 128; 128; 128; 2] = Some (18, []) /\
  decode_u64 [18] = Some (18, []).
Proof. split; vm_compute; reflexivity. Qed.
