(* Generic "list of N" wire format used between the Rust harness, the extracted models and
   the in-Coq evaluation: small parser combinators and a few list helpers. Definitions only. *)
From Coq Require Import List NArith Bool.
Import ListNotations.
Open Scope N_scope.

Definition parser (A : Type) := list N -> option (A * list N).

Definition pret {A} (a : A) : parser A := fun l => Some (a, l).
Definition pbind {A B} (p : parser A) (f : A -> parser B) : parser B :=
  fun l => match p l with Some (a, l') => f a l' | None => None end.
Definition pfail {A} : parser A := fun _ => None.

Notation "'let*' x ':=' p 'in' q" := (pbind p (fun x => q))
  (at level 200, x pattern, p at level 100, q at level 200, right associativity).

Definition pN : parser N := fun l => match l with x :: t => Some (x, t) | [] => None end.
Definition pBool : parser bool := let* x := pN in pret (negb (x =? 0)).
Definition pNat : parser nat := let* x := pN in pret (N.to_nat x).

Fixpoint prep {A} (n : nat) (p : parser A) : parser (list A) :=
  match n with
  | O => pret []
  | S m => let* a := p in let* t := prep m p in pret (a :: t)
  end.

(* count-prefixed list. The element parser is iterated with the remaining input as fuel (every
   element consumes at least one number), so a corrupt count cannot make the parser build a huge
   nat and the whole parse stays linear in the input. *)
Fixpoint prep_fuel {A} (fuel : list N) (n : N) (p : parser A) (l : list N) : option (list A * list N) :=
  if n =? 0 then Some ([], l)
  else match fuel with
       | [] => None
       | _ :: fuel' =>
           match p l with
           | Some (a, l') =>
               match prep_fuel fuel' (n - 1) p l' with
               | Some (t, l'') => Some (a :: t, l'')
               | None => None
               end
           | None => None
           end
       end.

Definition plist {A} (p : parser A) : parser (list A) :=
  fun l => match l with
           | [] => None
           | n :: t => prep_fuel l n p t
           end.

(* run to end of input *)
Definition pall {A} (p : parser A) (l : list N) : option A :=
  match p l with Some (a, []) => Some a | _ => None end.

Definition b2n (b : bool) : N := if b then 1 else 0.
Definition enc_opt (o : option N) : N := match o with None => 0 | Some t => t + 1 end.
Definition dec_opt (x : N) : option N := if x =? 0 then None else Some (x - 1).
Definition enc_list {A} (f : A -> list N) (l : list A) : list N :=
  N.of_nat (length l) :: flat_map f l.

(* insertion sort by a key in N (stable) *)
Fixpoint ins_by {A} (key : A -> N) (x : A) (l : list A) : list A :=
  match l with
  | [] => [x]
  | h :: t => if key x <? key h then x :: l else h :: ins_by key x t
  end.
Definition sort_by {A} (key : A -> N) (l : list A) : list A :=
  fold_right (ins_by key) [] l.

Fixpoint list_eqb {A} (eqb : A -> A -> bool) (a b : list A) : bool :=
  match a, b with
  | [], [] => true
  | x :: a', y :: b' => eqb x y && list_eqb eqb a' b'
  | _, _ => false
  end.

Definition opt_eqb {A} (eqb : A -> A -> bool) (a b : option A) : bool :=
  match a, b with
  | None, None => true
  | Some x, Some y => eqb x y
  | _, _ => false
  end.

Definition nlist_eqb := list_eqb N.eqb.
