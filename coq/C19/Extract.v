From Coq Require Import ExtrOcamlBasic.
From V.C19 Require Import Glue.
Extraction Language OCaml.
Extraction "c19_model.ml" run_case prop_ok known_class.
