(* C19 — the stream-based multistream-select futures of C03 (listener_select_proto /
   dialer_select_proto over LengthDelimited), embedded; see E02.v for why the two top-level
   compositions are copied. *)
From Coq Require Import List NArith Bool.
From V.common Require Import Wire.
From V.C03 Require Import Model Glue.
Import ListNotations.
Open Scope N_scope.

(* the other property's own composition, used as is (ocaml/build_model.sh aliases the requested
   names after monolithic extraction, so no copy is needed any more) *)
Definition run_c03 : list N -> list N := V.C03.Glue.run_case.
Definition ok_c03 : list N -> list N -> bool := V.C03.Glue.prop_ok.
Lemma run_c03_in_sync : run_c03 = V.C03.Glue.run_case.
Proof. reflexivity. Qed.
Lemma ok_c03_in_sync : ok_c03 = V.C03.Glue.prop_ok.
Proof. reflexivity. Qed.
