(* C19 — the stream-based multistream-select futures of C03 (listener_select_proto /
   dialer_select_proto over LengthDelimited), embedded; see E02.v for why the two top-level
   compositions are copied. *)
From Coq Require Import List NArith Bool.
From V.common Require Import Wire.
From V.C03 Require Import Model Glue.
Import ListNotations.
Open Scope N_scope.

Definition run_c03 (l : list N) : list N :=
  match decode_case l with
  | Some (Case0 c) =>
      let '(s, status) := run_sys (run_fuel l) (c_sched c) false 0 (sys_init c) in
      trace0 s status
  | Some (Case3 side lazy ns rs input pay) =>
      let '(s, status) := run_sys (run_fuel l) [] (negb side) 0 (sys_alone side lazy ns rs input pay) in
      trace0 s status
  | Some (Case1 h ls pl) => trace1 (webrtc_listener (tag_from 0 ls) pl h)
  | Some (Case2 p fs ops) =>
      match propose_msg p true with
      | Some m => [1; 0] ++ enc_bytes m ++ run_wops ops p fs false
      | None => [1; 1]
      end
  | None => [0]
  end.

Definition ok_c03 (case trace : list N) : bool :=
  match decode_case case, trace with
  | Some (Case0 c), 1 :: body =>
      match pall p_obs0 body with
      | Some o => ok0 c o
      | None => false
      end
  | Some (Case3 side lazy ns rs input pay), 1 :: body =>
      match pall p_obs0 body with
      | Some o => ok3 side lazy ns input o
      | None => false
      end
  | Some (Case1 h ls pl), 1 :: body => ok1 ls pl body
  | Some (Case2 p fs ops), 1 :: body =>
      match body with 0 :: _ => true | 1 :: _ => true | _ => false end
  | None, [0] => true
  | _, _ => false
  end.

Lemma run_c03_in_sync : run_c03 = run_case.
Proof. reflexivity. Qed.
Lemma ok_c03_in_sync : ok_c03 = prop_ok.
Proof. reflexivity. Qed.
