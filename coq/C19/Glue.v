(* C19 — wire format, model runner and the trace oracle prop_ok.  Definitions only.

   `L x..` = count-prefixed list.  ORC = L of entries `kind (L key) (L answer)`.

   Cases (first number = kind):
     1  k (L bytes) ORC                 KademliaMessage::from_bytes(bytes, k)
     2  (L bytes)                       multistream Message::decode
     3  max+1|0 (L stream)              Substream, ProtocolCodec::UnsignedVarint(max): frames until end/error
     4  (L buf)                         substream::read_payload_size
     5  (L bytes) ORC                   keys.proto + RemotePublicKey::from_protobuf_encoding
     6  (L bytes) ORC                   noise handshake payload (+ identity key)
     7  (L peer) (L local) (L bytes) ORC   identify response
     8  (L bytes) ORC                   bitswap message
     9  (L bytes)                       bitswap Prefix::from_bytes
     10 (L bytes)                       PeerId::from_bytes
     11 (L bytes) ORC                   Multiaddr::try_from: valid, empty, trailing /p2p id (model of Formats.v)
     17 (L bytes)                       Cid::read_bytes (model of Formats.v)
     18 (L der)                         TLS certificate parse (opaque: returns, allocation bound; feature worker)
     19 (L bytes)                       WebRTC extract_framed_message + WebRtcMessage::decode (feature worker)
     21 (L bytes)                       yamux Connection fed the bytes (opaque: returns, allocation bound)
     12 hdr (L (L name)) (L payload)     webrtc_listener_negotiate(names, payload, header_received)
     13 (L proto) (L (L payload))        WebRtcDialerState::propose(proto, []) then register_response per payload
     14 <C02 case>                      NoiseSocket writer -> tampered wire -> reader (coq/C02 model and oracle)
     15 <C04 case>                      Substream codecs incl. Identity(n), raw adversarial wire, re-polling (coq/C04)
     16 <C03 case>                      stream-based listener/dialer futures against scripted bytes (coq/C03)
     22 role 0 (L stream) ORC           Noise `handshake()` (role 0 dialer / 1 listener) fed raw bytes
     22 role 1 (L payload) decl ORC     ... against a correct Noise peer whose identity message carries `payload`
                                        and is announced with length decl-1 (0 = the true length)
     23 mode chunk cut (L stream) ORC   WebSocket adapter (BufferedStream over tungstenite): mode 0 server role,
                                        2 client role, 1 after accept_async (remote sends stream[..cut] first),
                                        3 after client_async_tls (stream = the remote's response, 28-byte accept-key marker)
     24 (L user) (L (L addr)) (L datagram) ORC   one mDNS datagram handed to Mdns
     25 (L reply)                       WebRTC Noise path: with_prologue, first_message, get_remote_peer_id(reply) (feature worker)
     20 sub ..                          round trips through the library's own encoders (see rt_case)
   Traces:  status alloc cap body..
     status 1 = the call returned; alloc = the allocation bound when the measured peak is within
     it (the harness prints the peak otherwise); cap = the collection size the property caps
     (max |peers| / |protocols| / max frame length / 0); body = canonical dump of the result.
   PANIC / ABORT / TIMEOUT are single-number traces. *)
From Coq Require Import List NArith Bool.
From V.gen Require Consts.
From V.common Require Import Wire Varint Protobuf.
From V.C18 Require Model.
From V.C03 Require Model.
From V.C19 Require Import Formats Model Net Consume.
From V.C19 Require E02 E03 E04.
Import ListNotations.
Open Scope N_scope.

Definition pL : parser (list N) := plist pN.
Definition eL (l : list N) : list N := enc_list (fun x => [x]) l.
Definition eO (o : option bytes) : list N := match o with Some b => 1 :: eL b | None => [0] end.
Definition eLL (l : list bytes) : list N := enc_list eL l.
Definition eB (b : bool) : list N := [b2n b].

Definition p_orc : parser oracle :=
  plist (let* k := pN in let* key := pL in let* a := pL in pret (k, key, a)).

(* ---------- dumps ---------- *)
Definition dump_krecord (r : krecord) : list N :=
  eL (r_key r) ++ eL (r_value r) ++ eL (r_time r) ++ eL (r_publisher r) ++ [r_ttl r].
Definition dump_kpeer (p : kpeer) : list N := eL (p_id p) ++ eLL (p_addrs p) ++ [p_conn p].
Definition dump_kmsg (m : kmsg) : list N :=
  [m_type m; m_cluster m] ++ eL (m_key m) ++
  (match m_record m with Some r => 1 :: dump_krecord r | None => [0] end) ++
  enc_list dump_kpeer (m_closer m) ++ enc_list dump_kpeer (m_provider m).

Definition dump_kad_peer (p : kad_peer) : list N :=
  eL (V.C18.Model.to_bytes (kp_pid p)) ++ [kp_conn p] ++
  (if Nat.ltb (length (kp_addrs p)) MAX_ADDRESSES
   then nlen (kp_addrs p) :: flat_map eL (kp_addrs p)
   else [N.of_nat MAX_ADDRESSES]).
Definition dump_krec (r : krec) : list N :=
  eL (rc_key r) ++ eL (rc_value r) ++
  (match rc_publisher r with Some p => 1 :: eL (V.C18.Model.to_bytes p) | None => [0] end) ++ [rc_ttl r].
Definition dump_kad (m : kad_message) : list N :=
  match m with
  | KFindNode t ps => [1] ++ eL t ++ enc_list dump_kad_peer ps
  | KPutValue r => [2] ++ dump_krec r
  | KGetRecord k r ps =>
      [3] ++ eO k ++ (match r with Some r' => 1 :: dump_krec r' | None => [0] end) ++ enc_list dump_kad_peer ps
  | KAddProvider k ps => [4] ++ eL k ++ enc_list dump_kad_peer ps
  | KGetProviders k ps qs => [5] ++ eO k ++ enc_list dump_kad_peer ps ++ enc_list dump_kad_peer qs
  end.
Definition kad_cap (m : kad_message) : N :=
  match m with
  | KFindNode _ ps | KGetRecord _ _ ps | KAddProvider _ ps => nlen ps
  | KPutValue _ => 0
  | KGetProviders _ ps qs => N.max (nlen ps) (nlen qs)
  end.

Definition dump_msm (r : V.C03.Model.dres) : list N :=
  match r with
  | V.C03.Model.DOk V.C03.Model.MHeader => [1; 1]
  | V.C03.Model.DOk (V.C03.Model.MProto p) => [1; 2] ++ eL p
  | V.C03.Model.DOk V.C03.Model.MLs => [1; 3]
  | V.C03.Model.DOk (V.C03.Model.MProtos ps) => [1; 4] ++ eLL ps
  | V.C03.Model.DOk V.C03.Model.MNa => [1; 5]
  | V.C03.Model.DErr V.C03.Model.EIo => [0; 1]
  | V.C03.Model.DErr V.C03.Model.EInvMsg => [0; 2]
  | V.C03.Model.DErr V.C03.Model.EInvProto => [0; 3]
  | V.C03.Model.DErr V.C03.Model.ETooMany => [0; 4]
  end.
Definition msm_cap (r : V.C03.Model.dres) : N :=
  match r with V.C03.Model.DOk (V.C03.Model.MProtos ps) => nlen ps | _ => 0 end.

Definition dump_pubkey (m : pubkey) : list N := [k_type m] ++ eL (k_data m).
Definition dump_ext (e : noise_ext) : list N := eLL (x_certs e) ++ eLL (x_muxers e).
Definition dump_noise (m : noise_payload) : list N :=
  eO (n_key m) ++ eO (n_sig m) ++ (match n_ext m with Some e => 1 :: dump_ext e | None => [0] end).
Definition dump_identify (m : identify) : list N :=
  eO (i_protocol_version m) ++ eO (i_agent_version m) ++ eO (i_public_key m) ++ eLL (i_listen m) ++
  eO (i_observed m) ++ eLL (i_protocols m).
Definition dump_info (i : identify_info) : list N :=
  eO (ii_protocol_version i) ++ eO (ii_agent i) ++ eLL (ii_protocols i) ++ eO (ii_observed i) ++ eLL (ii_listen i).
Definition dump_entry (e : bs_entry) : list N :=
  eL (e_block e) ++ [e_priority e; b2n (e_cancel e); e_want e; b2n (e_dont_have e)].
Definition dump_bs (m : bs_msg) : list N :=
  (match bs_wantlist_of m with
   | Some w => 1 :: enc_list dump_entry (w_entries w) ++ [b2n (w_full w)]
   | None => [0]
   end) ++ eLL (bs_blocks m) ++
  enc_list (fun x => eL (b_prefix x) ++ eL (b_data x)) (bs_payload m) ++
  enc_list (fun x => eL (bp_cid x) ++ [bp_type x]) (bs_presences m) ++ [bs_pending m].
Definition dump_cids (l : list (list N * N)) : list N := enc_list (fun x => eL (fst x) ++ [snd x]) l.

(* numbers that may reach 2^64 are printed as their varint bytes (the wire format stops at 2^62) *)
Definition dump_prefix (q : prefix) : list N :=
  [1; px_version q] ++ eL (encode (px_codec q)) ++ eL (encode (px_mh_type q)) ++ [px_mh_len q].
Definition dump_rps (r : rps) : list N :=
  match r with
  | RpsOk s n => [1] ++ eL (encode s) ++ [n]
  | RpsNotEnough => [0; 0]
  | RpsOverflow => [0; 1]
  | RpsDecodeError => [0; 2]
  end.
Definition status_code (s : rstatus) : N := match s with SEnd => 0 | SFail => 1 | SFuel => 2 end.
Fixpoint max_len (l : list bytes) : N :=
  match l with [] => 0 | x :: t => N.max (blen x) (max_len t) end.

(* ---------- round-trip cases (kind 20): a value, the library encodes it, decodes it back ---------- *)
(* a Kademlia peer as given to the encoders: peer id bytes (valid), <= 1 address, connection *)
Definition p_kadpeer : parser kad_peer :=
  let* id := pL in let* addrs := plist pL in let* c := pN in
  match V.C18.Model.of_bytes id with
  | Some pid => if V.C18.Model.valid pid then pret (mkKadPeer pid addrs c) else pfail
  | None => pfail
  end.
Definition p_krec : parser krec :=
  let* k := pL in let* v := pL in let* hp := pN in
  let* pub := (if hp =? 0 then pret None
               else let* id := pL in
                    match V.C18.Model.of_bytes id with Some pid => pret (Some pid) | None => pfail end) in
  let* ttl := pN in pret (mkRec k v pub ttl).

Inductive rt_case :=
| RtKad (m : kmsg) (k : nat)          (* sub 1..9: the nine encoders of message.rs *)
| RtMsm (m : V.C03.Model.msg)                 (* sub 20 *)
| RtKey (k : bytes)                   (* sub 21 *)
| RtIdentify (m : identify)           (* sub 22 *)
| RtBitswap (m : bs_msg)              (* sub 23 *)
| RtNoise (m : noise_payload)         (* sub 24 *)
| RtPrefix (p : prefix)               (* sub 25 *)
| RtFrames (max : N) (fs : list bytes)  (* sub 26: send side framing, then receive *)
| RtWs (client_writes : bool) (chunks : list bytes)   (* sub 27: WebSocket adapter writes, the other role reads *)
| RtMdns (ua ub : bytes) (listen : list bytes).        (* sub 28: mDNS reply of A read by B *)

Definition p_obytes : parser (option bytes) :=
  let* h := pN in if h =? 0 then pret None else let* b := pL in pret (Some b).

Definition p_rt : parser rt_case :=
  let* sub := pN in
  if sub =? 1 then let* key := pL in pret (RtKad (msg_find_node key) 20)
  else if sub =? 2 then let* r := p_krec in pret (RtKad (msg_put_value r) 20)
  else if sub =? 3 then let* key := pL in pret (RtKad (msg_get_record key) 20)
  else if sub =? 4 then let* key := pL in let* ps := plist p_kadpeer in
                        pret (RtKad (msg_find_node_response key ps) (length ps))
  else if sub =? 5 then let* key := pL in let* v := pL in pret (RtKad (msg_put_value_response key v) 20)
  else if sub =? 6 then let* key := pL in let* ps := plist p_kadpeer in let* h := pN in
                        let* r := (if h =? 0 then pret None else let* r := p_krec in pret (Some r)) in
                        pret (RtKad (msg_get_value_response key ps r) (length ps))
  else if sub =? 7 then let* key := pL in let* p := p_kadpeer in pret (RtKad (msg_add_provider key p) 20)
  else if sub =? 8 then let* key := pL in pret (RtKad (msg_get_providers_request key) 20)
  else if sub =? 9 then let* ps := plist p_kadpeer in let* qs := plist p_kadpeer in
                        pret (RtKad (msg_get_providers_response ps qs) (length ps + length qs))
  else if sub =? 20 then
    let* t := pN in
    if t =? 1 then pret (RtMsm V.C03.Model.MHeader)
    else if t =? 2 then let* p := pL in pret (RtMsm (V.C03.Model.MProto p))
    else if t =? 3 then pret (RtMsm V.C03.Model.MLs)
    else if t =? 4 then let* ps := plist pL in pret (RtMsm (V.C03.Model.MProtos ps))
    else if t =? 5 then pret (RtMsm V.C03.Model.MNa)
    else pfail
  else if sub =? 21 then let* k := pL in pret (RtKey k)
  else if sub =? 22 then
    let* pv := p_obytes in let* av := p_obytes in let* pk := p_obytes in let* la := plist pL in
    let* oa := p_obytes in let* ps := plist pL in pret (RtIdentify (mkIdent pv av pk la oa ps))
  else if sub =? 23 then
    let* hw := pN in
    let* w := (if hw =? 0 then pret None
               else let* es := plist (let* b := pL in let* pr := pN in let* c := pBool in let* wt := pN in
                                      let* d := pBool in pret (mkEntry b pr c wt d)) in
                    let* full := pBool in pret (Some (mkWant es full))) in
    let* blocks := plist pL in
    let* payload := plist (let* a := pL in let* b := pL in pret (mkBlock a b)) in
    let* pres := plist (let* a := pL in let* t := pN in pret (mkPresence a t)) in
    let* pending := pN in pret (RtBitswap (mkBs w blocks payload pres pending))
  else if sub =? 24 then
    let* k := p_obytes in let* s := p_obytes in let* he := pN in
    let* e := (if he =? 0 then pret None
               else let* c := plist pL in let* m := plist pL in pret (Some (mkExt c m))) in
    pret (RtNoise (mkNoise k s e))
  else if sub =? 25 then
    let* v := pN in let* c := pN in let* t := pN in let* l := pN in pret (RtPrefix (mkPrefix v c t l))
  else if sub =? 26 then let* max := pN in let* fs := plist pL in pret (RtFrames max fs)
  else if sub =? 27 then let* c := pBool in let* cs := plist pL in pret (RtWs c cs)
  else if sub =? 28 then let* a := pL in let* b := pL in let* l := plist pL in pret (RtMdns a b l)
  else pfail.

(* all addresses of a round-trip Kademlia message are valid multiaddresses: the oracle the
   decoder sees *)
Definition orc_all_valid (m : kmsg) : oracle :=
  map (fun a => (1, a, [1])) (flat_map p_addrs (m_closer m ++ m_provider m)).

(* ---------- cases ---------- *)
Inductive case :=
| CKad (k : nat) (b : bytes) (o : oracle)
| CMsm (b : bytes)
| CFrames (max : option N) (s : bytes)
| CRps (b : bytes)
| CKey (b : bytes) (o : oracle)
| CNoise (b : bytes) (o : oracle)
| CIdent (peer local b : bytes) (o : oracle)
| CBitswap (b : bytes) (o : oracle)
| CPrefix (b : bytes)
| CPeerId (b : bytes)
| CMaddr (b : bytes) (o : oracle)
| CCid (b : bytes)
| COpaque (kind : N) (b : bytes)
| CWebRtc (b : bytes)
| CWebListen (hdr : bool) (names : list bytes) (payload : bytes)
| CWebDial (proto : bytes) (ops : list bytes)
| CEmbed (kind : N) (raw : list N)
| CNoiseRaw (role : N) (s : bytes) (o : oracle)
| CNoiseActive (role : N) (p : bytes) (decl : N) (o : oracle)
| CWs (mode chunk cut : N) (s : bytes) (o : oracle)
| CMdns (user : bytes) (listen : list bytes) (d : bytes) (o : oracle)
| CWebNoise (b : bytes)
| CRt (r : rt_case).

Definition p_case : parser case :=
  let* kind := pN in
  if kind =? 1 then let* k := pN in let* b := pL in let* o := p_orc in
                    if 100000 <? k then pfail else pret (CKad (N.to_nat k) b o)
  else if kind =? 2 then let* b := pL in pret (CMsm b)
  else if kind =? 3 then let* m := pN in let* s := pL in
                         pret (CFrames (if m =? 0 then None else Some (m - 1)) s)
  else if kind =? 4 then let* b := pL in pret (CRps b)
  else if kind =? 5 then let* b := pL in let* o := p_orc in pret (CKey b o)
  else if kind =? 6 then let* b := pL in let* o := p_orc in pret (CNoise b o)
  else if kind =? 7 then let* p := pL in let* l := pL in let* b := pL in let* o := p_orc in pret (CIdent p l b o)
  else if kind =? 8 then let* b := pL in let* o := p_orc in pret (CBitswap b o)
  else if kind =? 9 then let* b := pL in pret (CPrefix b)
  else if kind =? 10 then let* b := pL in pret (CPeerId b)
  else if kind =? 11 then let* b := pL in let* o := p_orc in pret (CMaddr b o)
  else if kind =? 17 then let* b := pL in pret (CCid b)
  else if (kind =? 18) || (kind =? 21) then let* b := pL in pret (COpaque kind b)
  else if kind =? 19 then let* b := pL in pret (CWebRtc b)
  else if kind =? 12 then let* h := pBool in let* ns := plist pL in let* pl := pL in pret (CWebListen h ns pl)
  else if kind =? 13 then let* p := pL in let* ops := plist pL in pret (CWebDial p ops)
  else if (14 <=? kind) && (kind <=? 16) then (fun l => Some (CEmbed kind l, []))
  else if kind =? 20 then let* r := p_rt in pret (CRt r)
  else if kind =? 22 then
    let* role := pN in let* mode := pN in
    if 1 <? role then pfail
    else if mode =? 0 then let* s := pL in let* o := p_orc in pret (CNoiseRaw role s o)
    else if mode =? 1 then let* p := pL in let* d := pN in let* o := p_orc in
                           if 65536 <? d then pfail else pret (CNoiseActive role p d o)
    else pfail
  else if kind =? 23 then
    let* mode := pN in let* chunk := pN in let* cut := pN in let* s := pL in let* o := p_orc in
    if (3 <? mode) || (chunk =? 0) || (1048576 <? chunk) || (negb (mode =? 1) && negb (mode =? 3) && negb (cut =? 0)) || (blen s <? cut)
    then pfail else pret (CWs mode chunk cut s o)
  else if kind =? 24 then
    let* u := pL in let* l := plist pL in let* d := pL in let* o := p_orc in pret (CMdns u l d o)
  else if kind =? 25 then let* b := pL in pret (CWebNoise b)
  else pfail.

Definition rt_bytes_ok (r : rt_case) : bool :=
  match r with
  | RtKad m _ => bytes_ok (enc_kmsg m)
  | RtMsm m => bytes_ok (V.C03.Model.encode_msg m)
  | RtKey k => bytes_ok k
  | RtIdentify m => bytes_ok (enc_identify m)
  | RtBitswap m => bytes_ok (enc_bs_msg m)
  | RtNoise m => bytes_ok (enc_noise m)
  | RtPrefix _ => true
  | RtFrames max fs => forallb bytes_ok fs && forallb (fun f => blen f <=? max) fs
  | RtWs _ cs => forallb bytes_ok cs && forallb (fun c => negb (is_nil c) && (blen c <=? 70000)) cs
  | RtMdns a b l => mdns_user_ok a && mdns_user_ok b && negb (nlist_eqb a b) && forallb bytes_ok l &&
                    forallb maddr_valid_m l && forallb (fun x => blen x <=? 60) l
  end.

Definition input_of (c : case) : bytes :=
  match c with
  | CKad _ b _ | CMsm b | CFrames _ b | CRps b | CKey b _ | CNoise b _ | CIdent _ _ b _
  | CBitswap b _ | CPrefix b | CPeerId b | CMaddr b _ | CCid b | COpaque _ b | CWebRtc b => b
  | CWebListen _ _ b => b
  | CWebDial _ ops => concat ops
  | CNoiseRaw _ b _ | CNoiseActive _ b _ _ | CWs _ _ _ b _ | CMdns _ _ b _ | CWebNoise b => b
  | CEmbed _ _ => []
  | CRt _ => []
  end.

(* names handed to the Rust API are `ProtocolName`s (strings): ASCII here *)
Definition ascii_name (p : bytes) : bool := forallb (fun x => x <? 128) p.

Definition well_formed (c : case) : bool :=
  match c with
  | CRt r => rt_bytes_ok r
  | CIdent p l b _ => bytes_ok p && bytes_ok l && bytes_ok b
  | CWebListen _ ns b => forallb ascii_name ns && bytes_ok b
  | CEmbed _ _ => true
  | CWebDial p ops => ascii_name p && V.C03.Model.starts_slash p && forallb bytes_ok ops
  | CNoiseActive _ p _ _ => bytes_ok p && (blen p <=? 65000)
  | CMdns u l d _ => mdns_user_ok u && forallb bytes_ok l && forallb maddr_valid_m l &&
                     forallb (fun x => blen x <=? 60) l && bytes_ok d
  | _ => bytes_ok (input_of c)
  end.

Definition decode_case (l : list N) : option case :=
  match pall p_case l with
  | Some c => if well_formed c then Some c else None
  | None => None
  end.

(* ---------- running ---------- *)
Definition hdr (input_len cap : N) (body : list N) : list N := 1 :: alloc_bound input_len :: cap :: body.
Definition hdrk (k : nat) (input_len cap : N) (body : list N) : list N :=
  1 :: alloc_bound_kad (N.of_nat k) input_len :: cap :: body.


Definition dump_recv (r : recv) : list N :=
  eLL (rv_frames r) ++ [status_code (rv_status r)].

(* embedded cases run the other property's whole scenario (handshake, writer, reader) inside the
   measured window; their buffers are pinned exactly by the embedded trace, the allocation field
   only guards against runaway growth *)
Definition EMBED_BOUND : N := 268435456.

Definition YAMUX_KNOWN : N := 777.

(* opaque third-party parsers: TLS certificates (x509-parser / webpki), the yamux connection *)
Definition opaque_bound (kind len : N) : N :=
  if kind =? 21 then YAMUX_BOUND else alloc_bound len + TLS_CONST.

Definition run_kad (k : nat) (b : bytes) (o : oracle) : list N :=
  let raw := match dec_kmsg b with Some m => 1 :: dump_kmsg m | None => [0] end in
  (* consumer stage (k >= 1): the real Kademlia loop receives the very bytes *)
  let cons := if Nat.eqb k 0 then [] else kad_consume o (blen b) (kad_from_bytes k o b) in
  match kad_from_bytes k o b with
  | Some m => hdrk k (blen b) (kad_cap m) (raw ++ 1 :: dump_kad m ++ cons)
  | None => hdrk k (blen b) 0 (raw ++ [0] ++ cons)
  end.

Definition RT_MDNS_BOUND : N := alloc_bound 4096 + 65536.
Definition run_rt (r : rt_case) : list N :=
  match r with
  | RtKad m k =>
      let b := enc_kmsg m in
      (* the encoding is compared by length (address order inside a peer is HashMap order) and,
         when no peer has more than one address, byte for byte *)
      let single := forallb (fun p => Nat.leb (length (p_addrs p)) 1) (m_closer m ++ m_provider m) in
      match kad_from_bytes k (orc_all_valid m) b with
      | Some d => hdrk k (blen b) (kad_cap d) ([blen b] ++ (if single then 1 :: eL b else [0]) ++ 1 :: dump_kad d)
      | None => hdrk k (blen b) 0 ([blen b] ++ (if single then 1 :: eL b else [0]) ++ [0])
      end
  | RtMsm m =>
      let b := V.C03.Model.encode_msg m in
      let d := V.C03.Model.decode_msg b in
      hdr (blen b) (msm_cap d) (eL b ++ dump_msm d)
  | RtKey k =>
      let b := key_to_protobuf k in
      hdr (blen b) 0 (eL b ++ (match dec_pubkey b with Some m => 1 :: dump_pubkey m | None => [0] end) ++
                      eO (remote_key [(2, k, [1])] b))
  | RtIdentify m =>
      let b := enc_identify m in
      hdr (blen b) 0 (eL b ++ match dec_identify b with Some d => 1 :: dump_identify d | None => [0] end)
  | RtBitswap m =>
      let b := enc_bs_msg m in
      hdr (blen b) 0 (eL b ++ match dec_bs_msg b with Some d => 1 :: dump_bs d | None => [0] end)
  | RtNoise m =>
      let b := enc_noise m in
      hdr (blen b) 0 (eL b ++ match dec_noise b with Some d => 1 :: dump_noise d | None => [0] end)
  | RtPrefix p =>
      let b := prefix_to_bytes p in
      hdr (blen b) 0 (eL b ++ match prefix_from_bytes b with
                              | Some q => dump_prefix q
                              | None => [0]
                              end)
  | RtFrames max fs =>
      let s := frames_of fs in
      let r := recv_all (Some max) s in
      1 :: recv_alloc_bound max (blen s) :: max_len (rv_frames r) :: eL s ++ dump_recv r
  | RtWs cw cs =>
      (* a client masks with a random key; what is read back does not depend on it (C19_ws_roundtrip) *)
      let wire := concat (map (ws_frame (if cw then Some [0; 0; 0; 0] else None)) cs) in
      1 :: ws_bound (blen wire) :: 0 :: eL (ws_run (if cw then WsServer else WsClient) wire) ++ [1]
  | RtMdns a b l => 1 :: RT_MDNS_BOUND :: 0 :: eLL (sort_dedupe l)
  end.

Definition run (c : case) : list N :=
  match c with
  | CKad k b o => run_kad k b o
  | CMsm b => let d := V.C03.Model.decode_msg b in hdr (blen b) (msm_cap d) (dump_msm d)
  | CFrames max s =>
      let r := recv_all max s in
      1 :: recv_alloc_bound (match max with Some m => m | None => blen s end) (blen s)
        :: max_len (rv_frames r) :: dump_recv r
  | CRps b => hdr (blen b) 0 (dump_rps (read_payload_size b))
  | CKey b o =>
      hdr (blen b) 0
        ((match dec_pubkey b with Some m => 1 :: dump_pubkey m | None => [0] end) ++
         eO (remote_key o b) ++ dump_key_peer (remote_key o b))
  | CNoise b o =>
      hdr (blen b) 0
        ((match dec_noise b with Some m => 1 :: dump_noise m | None => [0] end) ++
         eO (noise_identity o b) ++ dump_key_peer (noise_identity o b))
  | CIdent p l b o =>
      hdr (blen b) 0
        ((match dec_identify b with Some m => 1 :: dump_identify m | None => [0] end) ++
         (match identify_response o p l b with Some i => 1 :: dump_info i | None => [0] end))
  | CBitswap b o =>
      hdr (blen b) 0
        (match dec_bs_msg b with
         | Some m => 1 :: dump_bs m ++ dump_cids (bs_request o m) ++ eLL (bs_response_blocks o m) ++
                     dump_cids (bs_response_presences o m)
         | None => [0]
         end)
  | CPrefix b =>
      hdr (blen b) 0
        (match prefix_from_bytes b with
         | Some q => dump_prefix q ++ eL (prefix_to_bytes q)
         | None => [0]
         end)
  | CPeerId b =>
      (* consumer stage: the bytes of multiaddr::PeerId::from(peer) ([255] = the model's own decoder
         let through an id the conversion panics on: never, C19_peer_id_convertible) *)
      hdr (blen b) 0 (match V.C18.Model.of_bytes b with
                      | Some p => 1 :: eL (V.C18.Model.to_bytes p) ++
                                  match convert_peer_id p with Some c => eL c | None => [255] end
                      | None => [0]
                      end)
  | CMaddr b o =>
      hdr (blen b) 0
        (if maddr_valid_m b
         then [1; b2n (is_nil b)] ++ match maddr_last_p2p b with Some id => 1 :: id | None => [0] end ++
              maddr_consume b
         else [0])
  | CCid b => hdr (blen b) 0 (match cid_read b with Some c => 1 :: eL c | None => [0] end)
  | COpaque k b =>
      (* kind 21: an input that contains the trigger of known finding class 1 is not predicted
         beyond "first frame => the addition is reached" (777 1 = it panicked, 777 2 = outcome
         not predicted); everything else must return within the bound *)
      if (k =? 21) && yamux_first_frame_trigger b then [YAMUX_KNOWN; 1]
      else if (k =? 21) && yamux_syn_credit_overflow (S (length b)) b then [YAMUX_KNOWN; 2]
      else [1; opaque_bound k (blen b); 0]
  | CWebRtc b =>
      hdr (blen b) 0
        (match webrtc_extract b with
         | WfNeedMore => [0]
         | WfErr => [1]
         | WfFrame body rest =>
             2 :: eL body ++ eL rest ++
             match webrtc_message body with
             | Some (p, f) => 1 :: eO p ++ [enc_opt f]
             | None => [0]
             end
         end)
  | CWebListen h ns pl =>
      hdr (blen pl) 0
        (match wl_negotiate ns pl h with
         | V.C03.Model.WLAccepted i reply => [0; i] ++ eL reply
         | V.C03.Model.WLRejected reply => 1 :: eL reply
         | V.C03.Model.WLPendingProtocol reply => 2 :: eL reply
         | V.C03.Model.WLErr c => [3; c]
         end)
  | CWebDial p ops => hdr (blen (concat ops)) 0 (run_regs p false ops)
  | CEmbed k raw =>
      1 :: EMBED_BOUND :: 0 ::
      (if k =? 14 then V.C19.E02.run_c02 raw else if k =? 15 then V.C19.E04.run_c04 raw else V.C19.E03.run_c03 raw)
  | CNoiseRaw role s _ => 1 :: NOISE_BOUND :: 0 :: [noise_raw role s]
  | CNoiseActive role p d o => 1 :: NOISE_BOUND :: 0 :: noise_active role o p (dec_opt d)
  | CWs mode _ cut s o =>
      (* cap = the number of bytes delivered: never more than arrived (C19_ws_delivered_bounded) *)
      let out := if (mode =? 1) || (mode =? 3) then
                   match ws_accept o s with
                   | Some rest => Some (ws_run (if mode =? 1 then WsServer else WsClient) rest)
                   | None => None
                   end
                 else Some (ws_run (if mode =? 0 then WsServer else WsClient) s) in
      match out with
      | Some b => 1 :: ws_bound (blen s) :: blen b :: 1 :: eL b ++ [1]
      | None => 1 :: ws_bound (blen s) :: 0 :: [0; 0; 1]
      end
  | CMdns u l d o =>
      (* cap = the number of addresses reported *)
      let body := mdns_datagram u (nlen l) o d in
      1 :: mdns_bound d :: (match body with 1 :: n :: _ => n | _ => 0 end) :: body
  | CWebNoise b => 1 :: NOISE_BOUND :: 0 :: [webrtc_noise_reply b]
  | CRt r => run_rt r
  end.

Definition run_case (l : list N) : list N :=
  match decode_case l with
  | Some c => run c
  | None => [0]
  end.

(* ---------- the oracle on traces ---------- *)
(* the cap the property puts on the collection reported in the third trace position *)
Definition cap_of (c : case) : N :=
  match c with
  | CKad k _ _ => N.of_nat k
  | CMsm _ => Consts.C03_MAX_PROTOCOLS
  | CFrames (Some m) _ => m
  | CFrames None s => blen s
  | CRt (RtKad _ k) => N.of_nat k
  | CRt (RtMsm _) => Consts.C03_MAX_PROTOCOLS
  | CRt (RtFrames m _) => m
  | CWs _ _ _ s _ => blen s
  | CMdns _ _ d _ => blen d
  | _ => 0
  end.
Definition bound_of (c : case) : N :=
  match c with
  | CFrames (Some m) s => recv_alloc_bound m (blen s)
  | CFrames None s => recv_alloc_bound (blen s) (blen s)
  | CRt (RtFrames m fs) => recv_alloc_bound m (blen (frames_of fs))
  | CEmbed _ _ => EMBED_BOUND
  | COpaque k b => opaque_bound k (blen b)
  | CRt (RtKad m k) => alloc_bound_kad (N.of_nat k) (blen (enc_kmsg m))
  | CKad k b _ => alloc_bound_kad (N.of_nat k) (blen b)
  | CRt (RtMsm m) => alloc_bound (blen (V.C03.Model.encode_msg m))
  | CRt (RtKey k) => alloc_bound (blen (key_to_protobuf k))
  | CRt (RtIdentify m) => alloc_bound (blen (enc_identify m))
  | CRt (RtBitswap m) => alloc_bound (blen (enc_bs_msg m))
  | CRt (RtNoise m) => alloc_bound (blen (enc_noise m))
  | CRt (RtPrefix p) => alloc_bound (blen (prefix_to_bytes p))
  | CRt (RtWs cw cs) =>
      ws_bound (blen (concat (map (ws_frame (if cw then Some [0; 0; 0; 0] else None)) cs)))
  | CRt (RtMdns _ _ _) => RT_MDNS_BOUND
  | CNoiseRaw _ _ _ | CNoiseActive _ _ _ _ | CWebNoise _ => NOISE_BOUND
  | CWs _ _ _ s _ => ws_bound (blen s)
  | CMdns _ _ d _ => mdns_bound d
  | _ => alloc_bound (blen (input_of c))
  end.

(* for round trips: what must come back, as the tail of the body (the encoding itself is not
   judged, only that decoding it yields the value) *)
Definition wf_name3 (p : bytes) : bool :=
  V.C03.Model.starts_slash p && negb (V.C03.Model.has_nl p) && negb (nlist_eqb p V.C03.Model.HEADER_NAME).
Definition rt_expect (r : rt_case) : option (list N) :=
  match r with
  | RtKad m k =>
      match kad_of_kmsg k (orc_all_valid m) m with
      | Some d => Some (1 :: dump_kad d)
      | None => None
      end
  | RtMsm m =>
      match m with
      | V.C03.Model.MProto p => if wf_name3 p then Some (dump_msm (V.C03.Model.DOk m)) else None
      | V.C03.Model.MProtos ps =>
          if forallb V.C03.Model.starts_slash ps && forallb (fun p => negb (V.C03.Model.has_nl p)) ps &&
             (nlen ps <=? Consts.C03_MAX_PROTOCOLS)
          then Some (dump_msm (V.C03.Model.DOk m)) else None
      | _ => Some (dump_msm (V.C03.Model.DOk m))
      end
  | RtKey k => Some (1 :: dump_pubkey (mkPubkey 1 k) ++ eO (Some k))
  | RtIdentify m => Some (1 :: dump_identify m)
  | RtBitswap m => Some (1 :: dump_bs m)
  | RtNoise m => Some (1 :: dump_noise m)
  | RtPrefix p => Some (dump_prefix p)
  | RtFrames max fs => Some (eLL fs ++ [0])
  | RtWs _ cs => Some (eL (concat cs) ++ [1])
  | RtMdns _ _ l => Some (eLL (sort_dedupe l))
  end.

Fixpoint ends_with (suffix l : list N) : bool :=
  if nlist_eqb suffix l then true
  else match l with [] => false | _ :: t => ends_with suffix t end.

Definition prop_ok (case trace : list N) : bool :=
  match decode_case case with
  | None => match trace with [0] => true | _ => false end
  | Some c =>
      match trace with
      | st :: alloc :: cap :: body =>
          (st =? 1) && (alloc <=? bound_of c) && (cap <=? cap_of c) &&
          match c with
          | CRt r => match rt_expect r with Some e => ends_with e body | None => true end
          | CEmbed k raw =>
              if k =? 14 then V.C19.E02.ok_c02 raw body
              else if k =? 15 then V.C19.E04.ok_c04 raw body
              else V.C19.E03.ok_c03 raw body
          | _ => true
          end
      | _ => false
      end
  end.

(* known finding class 1: the yamux crate's SYN-credit addition overflows (a panic where overflow
   checks are compiled in); recognised only on a kind-21 case whose trace is not a normal return *)
Definition known_class (case trace : list N) : N :=
  match decode_case case with
  | Some (COpaque 21 b) =>
      match trace with
      | 1 :: _ => 0
      | _ => if yamux_syn_credit_overflow (S (length b)) b then 1 else 0
      end
  | _ => 0
  end.
