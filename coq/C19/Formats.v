(* C19 — small executable models of the third-party binary formats that litep2p hands remote
   bytes to: multihash 0.19 (`Multihash::<64>::read`), cid 0.11 (`Cid::read_bytes`) and
   multiaddr 0.18 (`Multiaddr::try_from(Vec<u8>)` = a sequence of `Protocol::from_bytes`).
   Transcribed from the crates' sources; tied to them by the differential run (every multiaddress
   and CID inside a Kademlia / identify / bitswap case, plus direct cases).  Definitions first,
   lemmas at the end. *)
From Coq Require Import List Arith NArith Bool Lia.
From Coq Require Import ZifyBool ZifyNat ZifyN.
From V.common Require Import Wire Varint Protobuf.
From V.C18 Require Model.
Import ListNotations.
Open Scope N_scope.

(* ---------------------------------------------------------------- multihash / cid *)
(* Multihash::<64>::read: code, size <= 64, `size` digest bytes; what follows is left alone *)
Definition mh_read (b : bytes) : option (N * bytes * bytes) :=   (* code, digest, rest *)
  match decode_u64 b with
  | Some (code, r1) =>
      match decode_u64 r1 with
      | Some (size, r2) =>
          if (64 <? size) || (255 <? size) then None
          else match take_n size r2 with
               | Some (d, rest) => Some (code, d, rest)
               | None => None
               end
      | None => None
      end
  | None => None
  end.

(* Cid::read_bytes (reader semantics: trailing bytes are not looked at); the result is
   `cid.to_bytes()`: CIDv0 = the bare sha2-256 multihash, CIDv1 = version codec multihash *)
Definition cid_read (b : bytes) : option bytes :=
  if bytes_ok b then
    match decode_u64 b with
    | Some (v, r1) =>
        match decode_u64 r1 with
        | Some (c, r2) =>
            if (v =? 18) && (c =? 32) then
              match take_n 32 r2 with
              | Some (d, _) => Some ([18; 32] ++ d)
              | None => None
              end
            else if v =? 1 then
              match mh_read r2 with
              | Some (code, d, _) => Some (encode 1 ++ encode c ++ encode code ++ encode (blen d) ++ d)
              | None => None
              end
            else None
        | None => None
        end
    | None => None
    end
  else None.

(* ---------------------------------------------------------------- multiaddr *)
Inductive pkind := KFixed (n : N) | KNone | KUtf8 | KRaw | KMultihash | KPeerId.

(* Protocol::from_bytes: the protocol table of multiaddr 0.18.2 *)
Definition proto_table : list (N * pkind) :=
  [(33, KFixed 2); (53, KUtf8); (54, KUtf8); (55, KUtf8); (56, KUtf8); (480, KNone); (443, KNone);
   (4, KFixed 4); (41, KFixed 16); (276, KNone); (275, KNone); (280, KNone); (466, KMultihash);
   (479, KNone); (777, KFixed 8); (444, KFixed 12); (445, KFixed 37); (421, KPeerId); (290, KNone);
   (460, KNone); (461, KNone); (132, KFixed 2); (6, KFixed 2); (448, KNone); (454, KNone);
   (273, KFixed 2); (301, KNone); (400, KUtf8); (302, KNone); (465, KNone); (477, KNone);
   (4770, KUtf8); (478, KNone); (4780, KUtf8); (42, KUtf8); (43, KFixed 1); (446, KRaw);
   (447, KRaw); (449, KUtf8); (277, KNone); (281, KNone)].
Fixpoint proto_kind_in (t : list (N * pkind)) (id : N) : option pkind :=
  match t with
  | [] => None
  | (i, k) :: r => if i =? id then Some k else proto_kind_in r id
  end.
Definition proto_kind (id : N) : option pkind := proto_kind_in proto_table id.
Definition P2P_CODE : N := 421.

Definition data_ok (k : pkind) (d : bytes) : bool :=
  match k with
  | KUtf8 => utf8_ok d
  | KMultihash => match V.C18.Model.mh_parse d with Some _ => true | None => false end
  | KPeerId => match V.C18.Model.of_bytes d with Some _ => true | None => false end
  | _ => true
  end.

(* one component: (protocol id, its data, what follows) *)
Definition comp_parse (b : bytes) : option (N * bytes * bytes) :=
  match decode_u32 b with
  | None => None
  | Some (id, r) =>
      match proto_kind id with
      | None => None
      | Some KNone => Some (id, [], r)
      | Some (KFixed n) =>
          match take_n n r with Some (d, rest) => Some (id, d, rest) | None => None end
      | Some k =>
          match decode_u64 r with
          | Some (n, r2) =>
              match take_n n r2 with
              | Some (d, rest) => if data_ok k d then Some (id, d, rest) else None
              | None => None
              end
          | None => None
          end
      end
  end.

Fixpoint maddr_parse_f (fuel : nat) (b : bytes) : res (list (N * bytes)) :=
  match fuel with
  | O => OutOfFuel
  | S f =>
      match b with
      | [] => Ok []
      | _ :: _ =>
          match comp_parse b with
          | None => Err
          | Some (id, d, rest) =>
              match maddr_parse_f f rest with
              | Ok cs => Ok ((id, d) :: cs)
              | Err => Err
              | OutOfFuel => OutOfFuel
              end
          end
      end
  end.
(* Multiaddr::try_from(Vec<u8>) *)
Definition maddr_parse (b : bytes) : res (list (N * bytes)) :=
  if bytes_ok b then maddr_parse_f (S (length b)) b else Err.

(* what litep2p looks at: validity, emptiness, the peer id of a trailing /p2p component *)
Definition maddr_valid_m (b : bytes) : bool := match maddr_parse b with Ok _ => true | _ => false end.
Definition maddr_last_p2p (b : bytes) : option bytes :=
  match maddr_parse b with
  | Ok cs =>
      match rev cs with
      | (id, d) :: _ =>
          if id =? P2P_CODE
          then match V.C18.Model.of_bytes d with Some p => Some (V.C18.Model.to_bytes p) | None => None end
          else None
      | [] => None
      end
  | _ => None
  end.

(* ================================================================== lemmas *)
Local Arguments N.add : simpl never.
Local Arguments N.mul : simpl never.
Local Arguments N.sub : simpl never.
Local Arguments N.eqb : simpl never.
Local Arguments N.ltb : simpl never.
Local Arguments N.leb : simpl never.
Local Arguments N.pow : simpl never.
Local Arguments N.of_nat : simpl never.
Local Arguments N.to_nat : simpl never.

Lemma decode_gen_shorter nb bits b n r : decode_gen nb bits b = Some (n, r) ->
  exists p, b = p ++ r /\ (1 <= length p <= nb)%nat.
Proof.
  unfold decode_gen. destruct (take_varint nb b) as [[p r']|] eqn:T; [|discriminate].
  destruct (minimal p); [|discriminate]. intros [= <- <-]. exists p. apply (take_varint_split _ _ _ _ T).
Qed.

Lemma mh_read_spec b code d rest : mh_read b = Some (code, d, rest) ->
  exists hdr, b = hdr ++ d ++ rest /\ (2 <= length hdr <= 20)%nat /\ (length d <= 64)%nat.
Proof.
  unfold mh_read. destruct (decode_u64 b) as [[c r1]|] eqn:D1; [|discriminate].
  destruct (decode_u64 r1) as [[sz r2]|] eqn:D2; [|discriminate].
  destruct ((64 <? sz) || (255 <? sz)) eqn:E; [discriminate|].
  destruct (take_n sz r2) as [[x r3]|] eqn:T; [|discriminate]. intros [= <- <- <-].
  destruct (decode_gen_shorter _ _ _ _ _ D1) as (p1 & -> & L1).
  destruct (decode_gen_shorter _ _ _ _ _ D2) as (p2 & -> & L2).
  destruct (take_n_spec _ _ _ _ T) as (-> & Lx).
  exists (p1 ++ p2). rewrite <- app_assoc. split; [reflexivity|]. rewrite app_length. unfold blen in Lx. lia.
Qed.

(* a CID never carries more than 64 digest bytes and comes entirely out of the input *)
Lemma encode_le_prefix nb b n r : bytes_ok b = true -> decode_gen nb 64 b = Some (n, r) -> (nb <= 10)%nat ->
  (length (encode n) + length r <= length b)%nat.
Proof.
  intros B D Hn. destruct (decode_gen_inv _ _ _ _ _ B D) as (pre & -> & W & M & L & V & C).
  rewrite app_length.
  destruct (Nat.le_gt_cases (length pre) 9) as [H9|H9].
  - pose proof (value_bound _ W). pose proof (pow128_mono _ _ H9). pose proof pow128_9.
    rewrite N.mod_small in V by lia. subst n. rewrite C. lia.
  - assert (n < 2 ^ 64) by (subst n; apply N.mod_lt; rewrite two64; lia).
    pose proof (encode_length n 9 ltac:(pose proof pow128_10; lia)). lia.
Qed.

Lemma bytes_ok_app_r a b : bytes_ok (a ++ b) = true -> bytes_ok b = true.
Proof. rewrite bytes_ok_app. intros H. apply andb_prop in H. apply H. Qed.

Lemma cid_read_size b c : cid_read b = Some c -> (length c <= length b /\ length c <= 104)%nat.
Proof.
  unfold cid_read. destruct (bytes_ok b) eqn:B; [|discriminate].
  destruct (decode_u64 b) as [[v r1]|] eqn:D1; [|discriminate].
  destruct (decode_u64 r1) as [[co r2]|] eqn:D2; [|discriminate].
  pose proof (encode_le_prefix _ _ _ _ B D1 ltac:(lia)) as E1.
  destruct (decode_gen_shorter _ _ _ _ _ D1) as (p1 & Eb & L1).
  assert (B1 : bytes_ok r1 = true) by (rewrite Eb in B; apply (bytes_ok_app_r _ _ B)).
  pose proof (encode_le_prefix _ _ _ _ B1 D2 ltac:(lia)) as E2.
  destruct (decode_gen_shorter _ _ _ _ _ D2) as (p2 & Er1 & L2).
  assert (B2 : bytes_ok r2 = true) by (rewrite Er1 in B1; apply (bytes_ok_app_r _ _ B1)).
  assert (Lb : length b = (length p1 + length p2 + length r2)%nat) by (rewrite Eb, Er1, !app_length; lia).
  destruct ((v =? 18) && (co =? 32)).
  - destruct (take_n 32 r2) as [[d r3]|] eqn:T; [|discriminate]. intros [= <-].
    destruct (take_n_spec _ _ _ _ T) as (Er2 & Ld). unfold blen in Ld. rewrite Er2, app_length in Lb.
    cbn [app length]. lia.
  - destruct (v =? 1) eqn:V1; [|discriminate].
    destruct (mh_read r2) as [[[code d] r3]|] eqn:MH; [|discriminate]. intros [= <-].
    unfold mh_read in MH. destruct (decode_u64 r2) as [[c' r2a]|] eqn:D3; [|discriminate].
    destruct (decode_u64 r2a) as [[sz r2b]|] eqn:D4; [|discriminate].
    destruct ((64 <? sz) || (255 <? sz)) eqn:E; [discriminate|].
    destruct (take_n sz r2b) as [[x r2c]|] eqn:T; [|discriminate]. injection MH as <- <- <-.
    pose proof (encode_le_prefix _ _ _ _ B2 D3 ltac:(lia)) as E3.
    destruct (decode_gen_shorter _ _ _ _ _ D3) as (p3 & Er2 & L3).
    assert (B3 : bytes_ok r2a = true) by (rewrite Er2 in B2; apply (bytes_ok_app_r _ _ B2)).
    pose proof (encode_le_prefix _ _ _ _ B3 D4 ltac:(lia)) as E4.
    destruct (take_n_spec _ _ _ _ T) as (Er2b & Lx). rewrite Lx.
    assert (V1' : v = 1) by lia. subst v.
    assert (L64 : forall n, n < 2 ^ 64 -> (length (encode n) <= 10)%nat).
    { intros n Hn. apply (encode_length n 9). pose proof pow128_10. lia. }
    pose proof (decode_gen_lt _ _ _ _ _ D2). pose proof (decode_gen_lt _ _ _ _ _ D3). pose proof (decode_gen_lt _ _ _ _ _ D4).
    change (encode 1) with [1] in *. cbn [app length] in *. rewrite !app_length. rewrite Er2b, app_length in E4. unfold blen in Lx.
    pose proof (L64 co ltac:(assumption)).
    pose proof (L64 c' ltac:(assumption)). pose proof (L64 sz ltac:(assumption)). lia.
Qed.

(* ---- multiaddr: fuel, progress, size ---- *)
Lemma comp_parse_spec b id d rest : comp_parse b = Some (id, d, rest) ->
  (length rest + length d + 1 <= length b)%nat.
Proof.
  unfold comp_parse. destruct (decode_u32 b) as [[i r]|] eqn:D; [|discriminate].
  destruct (decode_gen_shorter _ _ _ _ _ D) as (p & -> & L). rewrite app_length.
  destruct (proto_kind i) as [k|]; [|discriminate].
  destruct k as [n| | | | |].
  - destruct (take_n n r) as [[x r']|] eqn:T; [|discriminate]. intros [= <- <- <-].
    destruct (take_n_spec _ _ _ _ T) as (-> & _). rewrite app_length. lia.
  - intros [= <- <- <-]. cbn [length]. lia.
  - destruct (decode_u64 r) as [[n r2]|] eqn:D2; [|discriminate].
    destruct (take_n n r2) as [[x r']|] eqn:T; [|discriminate]. destruct (data_ok KUtf8 x); [|discriminate].
    intros [= <- <- <-]. destruct (decode_gen_shorter _ _ _ _ _ D2) as (p2 & -> & L2).
    destruct (take_n_spec _ _ _ _ T) as (-> & _). rewrite !app_length. lia.
  - destruct (decode_u64 r) as [[n r2]|] eqn:D2; [|discriminate].
    destruct (take_n n r2) as [[x r']|] eqn:T; [|discriminate]. destruct (data_ok KRaw x); [|discriminate].
    intros [= <- <- <-]. destruct (decode_gen_shorter _ _ _ _ _ D2) as (p2 & -> & L2).
    destruct (take_n_spec _ _ _ _ T) as (-> & _). rewrite !app_length. lia.
  - destruct (decode_u64 r) as [[n r2]|] eqn:D2; [|discriminate].
    destruct (take_n n r2) as [[x r']|] eqn:T; [|discriminate]. destruct (data_ok KMultihash x); [|discriminate].
    intros [= <- <- <-]. destruct (decode_gen_shorter _ _ _ _ _ D2) as (p2 & -> & L2).
    destruct (take_n_spec _ _ _ _ T) as (-> & _). rewrite !app_length. lia.
  - destruct (decode_u64 r) as [[n r2]|] eqn:D2; [|discriminate].
    destruct (take_n n r2) as [[x r']|] eqn:T; [|discriminate]. destruct (data_ok KPeerId x); [|discriminate].
    intros [= <- <- <-]. destruct (decode_gen_shorter _ _ _ _ _ D2) as (p2 & -> & L2).
    destruct (take_n_spec _ _ _ _ T) as (-> & _). rewrite !app_length. lia.
Qed.

Definition comps_size (cs : list (N * bytes)) : nat :=
  fold_right (fun c acc => (S (length (snd c)) + acc)%nat) O cs.

Lemma maddr_parse_f_spec fuel : forall b, (length b < fuel)%nat ->
  maddr_parse_f fuel b <> OutOfFuel /\
  (forall cs, maddr_parse_f fuel b = Ok cs -> (comps_size cs <= length b)%nat) /\
  (forall fuel', (length b < fuel')%nat -> maddr_parse_f fuel' b = maddr_parse_f fuel b).
Proof.
  induction fuel as [|f IH]; intros b L; [lia|].
  destruct b as [|x b0].
  { cbn. split; [discriminate|]. split; [intros cs [= <-]; cbn; lia|]. intros [|f'] L'; [cbn in L'; lia|reflexivity]. }
  set (b := x :: b0) in *. cbn [maddr_parse_f].
  assert (Stab : forall fuel', (length b < fuel')%nat -> maddr_parse_f fuel' b =
     match comp_parse b with
     | None => Err
     | Some (id, d, rest) => match maddr_parse_f (pred fuel') rest with
                             | Ok cs => Ok ((id, d) :: cs) | Err => Err | OutOfFuel => OutOfFuel end
     end).
  { intros [|f'] L'; [lia|]. reflexivity. }
  destruct (comp_parse b) as [[[id d] rest]|] eqn:C.
  2:{ split; [discriminate|]. split; [discriminate|]. intros fuel' L'. rewrite (Stab fuel' L'). reflexivity. }
  pose proof (comp_parse_spec _ _ _ _ C) as P.
  destruct (IH rest ltac:(lia)) as (NF & Sz & St).
  destruct (maddr_parse_f f rest) as [cs| |] eqn:R; [| |congruence].
  - split; [discriminate|]. split.
    + intros cs0 [= <-]. specialize (Sz cs eq_refl). cbn [comps_size fold_right snd]. fold (comps_size cs). lia.
    + intros fuel' L'. rewrite (Stab fuel' L'), (St (pred fuel')) by lia. reflexivity.
  - split; [discriminate|]. split; [discriminate|].
    intros fuel' L'. rewrite (Stab fuel' L'), (St (pred fuel')) by lia. reflexivity.
Qed.

Lemma maddr_parse_total b : maddr_parse b <> OutOfFuel.
Proof.
  unfold maddr_parse. destruct (bytes_ok b); [|discriminate]. apply maddr_parse_f_spec. lia.
Qed.

Lemma maddr_parse_size b cs : maddr_parse b = Ok cs -> (comps_size cs <= length b)%nat.
Proof.
  unfold maddr_parse. destruct (bytes_ok b); [|discriminate].
  destruct (maddr_parse_f_spec (S (length b)) b ltac:(lia)) as (_ & Sz & _). apply Sz.
Qed.

Lemma maddr_parse_fuel_irrelevant b fuel : (length b < fuel)%nat ->
  maddr_parse_f fuel b = maddr_parse_f (S (length b)) b.
Proof.
  intros L. destruct (maddr_parse_f_spec (S (length b)) b ltac:(lia)) as (_ & _ & St). apply St. exact L.
Qed.
