(* C19 — executable model of litep2p's decoders of remote bytes.  Definitions only.

   Built on common/Protobuf.v (prost's wire format: tokeniser with fuel = |input|+1, groups,
   recursion limit), common/Varint.v (unsigned-varint 0.8), C18's PeerId model and C03's
   multistream-select `Message` codec / `LengthDelimited` reader.

   Per protobuf schema: a record, a `step` (one token merged into the record: last-wins
   scalars, repeated append, nested messages decoded from the length-delimited payload and
   MERGED into an already present optional sub-message, wrong wire type of a known field =
   error, invalid UTF-8 in a `string` = error, unknown fields dropped), `dec_*` (decode) and
   `fields_*` / `enc_*` (prost's encoder: fields in tag order, proto3 scalars omitted when
   default, proto2 `optional` emitted when present, proto2 `required` always emitted).
   On top: the litep2p post-processing named by the property.

   Multiaddr::try_from and Cid::read_bytes are modelled in Formats.v.  What is NOT modelled
   (the curve-point check, hash functions) enters through an oracle dictionary supplied with
   each case (kind, key bytes) -> answer:
     kind 2  ed25519 VerifyingKey::from_bytes     answer [valid]
     kind 4  Code::try_from(t) + digest(data)     key = varint t ++ data; answer [supported] ++ digest
   Theorems quantify over all dictionaries. *)
From Coq Require Import List NArith Bool.
From V.gen Require Consts.
From V.common Require Import Wire Varint Protobuf.
From V.C18 Require Model.
From V.C03 Require Model.
From V.C19 Require Import Formats.
Import ListNotations.
Open Scope N_scope.


(* ------------------------------------------------------------------ generic *)
Fixpoint fold_opt {M : Type} (step : M -> field -> option M) (fs : list field) (m : M) : option M :=
  match fs with
  | [] => Some m
  | f :: t => match step m f with Some m' => fold_opt step t m' | None => None end
  end.

Definition is_nil {A} (l : list A) : bool := match l with [] => true | _ => false end.
Definition nlen {A} (l : list A) : N := N.of_nat (length l).

(* tokens of a sub-message carried by a length-delimited token of a level with recurse_count ctx *)
Definition sub_fields (ctx : N) (payload : bytes) : option (list field) := res_opt (pb_parse_sub ctx payload).
Definition top_fields (b : bytes) : option (list field) := res_opt (pb_parse b).

(* field emitters of the encoder *)
Definition f_bytes3 (num : N) (b : bytes) : list field := if is_nil b then [] else [(num, WLen b)].  (* proto3 *)
Definition f_int3 (num n : N) : list field := if n =? 0 then [] else [(num, WVarint (i32_to_u64 n))]. (* int32 / enum *)
Definition f_u32_3 (num n : N) : list field := if n =? 0 then [] else [(num, WVarint n)].            (* uint32 *)
Definition f_bool3 (num : N) (b : bool) : list field := if b then [(num, WVarint 1)] else [].
Definition f_opt_bytes (num : N) (o : option bytes) : list field :=
  match o with Some b => [(num, WLen b)] | None => [] end.
Definition f_rep_bytes (num : N) (l : list bytes) : list field := map (fun b => (num, WLen b)) l.

(* lexicographic order on byte strings (the order of Rust's `Vec<u8>`), sorted insertion
   without duplicates *)
Fixpoint bytes_ltb (a b : bytes) : bool :=
  match a, b with
  | [], [] => false
  | [], _ :: _ => true
  | _ :: _, [] => false
  | x :: a', y :: b' => if x <? y then true else if y <? x then false else bytes_ltb a' b'
  end.
Fixpoint ins_sorted (x : bytes) (l : list bytes) : list bytes :=
  match l with
  | [] => [x]
  | h :: t => if nlist_eqb x h then l else if bytes_ltb x h then x :: l else h :: ins_sorted x t
  end.
Definition sort_dedupe (l : list bytes) : list bytes := fold_right ins_sorted [] l.

(* ------------------------------------------------------------------ oracle *)
Definition oracle := list (N * bytes * list N).
Fixpoint orc_find (o : oracle) (kind : N) (key : bytes) : option (list N) :=
  match o with
  | [] => None
  | (k, b, a) :: t => if (k =? kind) && nlist_eqb b key then Some a else orc_find t kind key
  end.
Definition orc_flag (o : oracle) (kind : N) (key : bytes) : bool :=
  match orc_find o kind key with Some (1 :: _) => true | _ => false end.
(* Multiaddr::try_from: the model of Formats.v (the dictionary is not consulted) *)
Definition maddr_valid (o : oracle) (b : bytes) : bool := maddr_valid_m b.

(* ================================================================== keys.proto *)
Record pubkey := mkPubkey { k_type : N; k_data : bytes }.
Definition pubkey0 : pubkey := mkPubkey 0 [].
Definition pubkey_step (m : pubkey) (f : field) : option pubkey :=
  let '(num, v) := f in
  if num =? 1 then match v with WVarint n => Some (mkPubkey (to_u32 n) (k_data m)) | _ => None end
  else if num =? 2 then match v with WLen b => Some (mkPubkey (k_type m) b) | _ => None end
  else Some m.
Definition dec_pubkey (b : bytes) : option pubkey :=
  match top_fields b with Some fs => fold_opt pubkey_step fs pubkey0 | None => None end.
(* proto2 `required`: both fields always written *)
Definition fields_pubkey (m : pubkey) : list field :=
  [(1, WVarint (i32_to_u64 (k_type m))); (2, WLen (k_data m))].
Definition enc_pubkey (m : pubkey) : bytes := encode_fields (fields_pubkey m).

(* RemotePublicKey::from_protobuf_encoding (cargo feature `rsa` off): KeyType::try_from, only
   Ed25519 = 1, 32 bytes, valid curve point (oracle kind 2) *)
Definition remote_key (o : oracle) (b : bytes) : option bytes :=
  match dec_pubkey b with
  | Some m =>
      if (k_type m =? 1) && (blen (k_data m) =? 32) && orc_flag o 2 (k_data m)
      then Some (k_data m) else None
  | None => None
  end.
(* PublicKey::to_protobuf_encoding *)
Definition key_to_protobuf (k : bytes) : bytes := enc_pubkey (mkPubkey 1 k).

(* ================================================================== noise.proto *)
Record noise_ext := mkExt { x_certs : list bytes; x_muxers : list bytes }.
Definition ext0 : noise_ext := mkExt [] [].
Definition ext_step (m : noise_ext) (f : field) : option noise_ext :=
  let '(num, v) := f in
  if num =? 1 then match v with WLen b => Some (mkExt (x_certs m ++ [b]) (x_muxers m)) | _ => None end
  else if num =? 2 then
    match v with WLen b => if utf8_ok b then Some (mkExt (x_certs m) (x_muxers m ++ [b])) else None | _ => None end
  else Some m.
Record noise_payload := mkNoise { n_key : option bytes; n_sig : option bytes; n_ext : option noise_ext }.
Definition noise0 : noise_payload := mkNoise None None None.
Definition noise_step (ctx : N) (m : noise_payload) (f : field) : option noise_payload :=
  let '(num, v) := f in
  if num =? 1 then match v with WLen b => Some (mkNoise (Some b) (n_sig m) (n_ext m)) | _ => None end
  else if num =? 2 then match v with WLen b => Some (mkNoise (n_key m) (Some b) (n_ext m)) | _ => None end
  else if num =? 4 then
    match v with
    | WLen b =>
        match sub_fields ctx b with
        | Some fs =>
            match fold_opt ext_step fs (match n_ext m with Some e => e | None => ext0 end) with
            | Some e => Some (mkNoise (n_key m) (n_sig m) (Some e))
            | None => None
            end
        | None => None
        end
    | _ => None
    end
  else Some m.
Definition dec_noise (b : bytes) : option noise_payload :=
  match top_fields b with Some fs => fold_opt (noise_step RECURSION_LIMIT) fs noise0 | None => None end.
Definition fields_ext (e : noise_ext) : list field := f_rep_bytes 1 (x_certs e) ++ f_rep_bytes 2 (x_muxers e).
Definition fields_noise (m : noise_payload) : list field :=
  f_opt_bytes 1 (n_key m) ++ f_opt_bytes 2 (n_sig m) ++
  match n_ext m with Some e => [(4, WLen (encode_fields (fields_ext e)))] | None => [] end.
Definition enc_noise (m : noise_payload) : bytes := encode_fields (fields_noise m).

(* the key part of parse_and_verify_peer_id: identity_key present and decodable *)
Definition noise_identity (o : oracle) (b : bytes) : option bytes :=
  match dec_noise b with
  | Some m => match n_key m with Some k => remote_key o k | None => None end
  | None => None
  end.

(* ================================================================== kademlia.proto *)
Record krecord := mkKRec { r_key : bytes; r_value : bytes; r_time : bytes; r_publisher : bytes; r_ttl : N }.
Definition krecord0 : krecord := mkKRec [] [] [] [] 0.
Definition krecord_step (m : krecord) (f : field) : option krecord :=
  let '(num, v) := f in
  if num =? 1 then match v with WLen b => Some (mkKRec b (r_value m) (r_time m) (r_publisher m) (r_ttl m)) | _ => None end
  else if num =? 2 then match v with WLen b => Some (mkKRec (r_key m) b (r_time m) (r_publisher m) (r_ttl m)) | _ => None end
  else if num =? 5 then
    match v with
    | WLen b => if utf8_ok b then Some (mkKRec (r_key m) (r_value m) b (r_publisher m) (r_ttl m)) else None
    | _ => None
    end
  else if num =? 666 then match v with WLen b => Some (mkKRec (r_key m) (r_value m) (r_time m) b (r_ttl m)) | _ => None end
  else if num =? 777 then match v with WVarint n => Some (mkKRec (r_key m) (r_value m) (r_time m) (r_publisher m) (to_u32 n)) | _ => None end
  else Some m.
Definition fields_krecord (m : krecord) : list field :=
  f_bytes3 1 (r_key m) ++ f_bytes3 2 (r_value m) ++ f_bytes3 5 (r_time m) ++
  f_bytes3 666 (r_publisher m) ++ f_u32_3 777 (r_ttl m).

Record kpeer := mkKPeer { p_id : bytes; p_addrs : list bytes; p_conn : N }.
Definition kpeer0 : kpeer := mkKPeer [] [] 0.
Definition kpeer_step (m : kpeer) (f : field) : option kpeer :=
  let '(num, v) := f in
  if num =? 1 then match v with WLen b => Some (mkKPeer b (p_addrs m) (p_conn m)) | _ => None end
  else if num =? 2 then match v with WLen b => Some (mkKPeer (p_id m) (p_addrs m ++ [b]) (p_conn m)) | _ => None end
  else if num =? 3 then match v with WVarint n => Some (mkKPeer (p_id m) (p_addrs m) (to_u32 n)) | _ => None end
  else Some m.
Definition fields_kpeer (m : kpeer) : list field :=
  f_bytes3 1 (p_id m) ++ f_rep_bytes 2 (p_addrs m) ++ f_int3 3 (p_conn m).
Definition dec_kpeer (ctx : N) (payload : bytes) : option kpeer :=
  match sub_fields ctx payload with Some fs => fold_opt kpeer_step fs kpeer0 | None => None end.
Definition enc_kpeer (m : kpeer) : bytes := encode_fields (fields_kpeer m).

Record kmsg := mkKMsg {
  m_type : N; m_cluster : N; m_key : bytes; m_record : option krecord;
  m_closer : list kpeer; m_provider : list kpeer }.
Definition kmsg0 : kmsg := mkKMsg 0 0 [] None [] [].
Definition kmsg_step (ctx : N) (m : kmsg) (f : field) : option kmsg :=
  let '(num, v) := f in
  if num =? 1 then
    match v with WVarint n => Some (mkKMsg (to_u32 n) (m_cluster m) (m_key m) (m_record m) (m_closer m) (m_provider m)) | _ => None end
  else if num =? 10 then
    match v with WVarint n => Some (mkKMsg (m_type m) (to_u32 n) (m_key m) (m_record m) (m_closer m) (m_provider m)) | _ => None end
  else if num =? 2 then
    match v with WLen b => Some (mkKMsg (m_type m) (m_cluster m) b (m_record m) (m_closer m) (m_provider m)) | _ => None end
  else if num =? 3 then
    match v with
    | WLen b =>
        match sub_fields ctx b with
        | Some fs =>
            match fold_opt krecord_step fs (match m_record m with Some r => r | None => krecord0 end) with
            | Some r => Some (mkKMsg (m_type m) (m_cluster m) (m_key m) (Some r) (m_closer m) (m_provider m))
            | None => None
            end
        | None => None
        end
    | _ => None
    end
  else if num =? 8 then
    match v with
    | WLen b => match dec_kpeer ctx b with
                | Some p => Some (mkKMsg (m_type m) (m_cluster m) (m_key m) (m_record m) (m_closer m ++ [p]) (m_provider m))
                | None => None
                end
    | _ => None
    end
  else if num =? 9 then
    match v with
    | WLen b => match dec_kpeer ctx b with
                | Some p => Some (mkKMsg (m_type m) (m_cluster m) (m_key m) (m_record m) (m_closer m) (m_provider m ++ [p]))
                | None => None
                end
    | _ => None
    end
  else Some m.
Definition dec_kmsg (b : bytes) : option kmsg :=
  match top_fields b with Some fs => fold_opt (kmsg_step RECURSION_LIMIT) fs kmsg0 | None => None end.
Definition fields_kmsg (m : kmsg) : list field :=
  f_int3 1 (m_type m) ++ f_bytes3 2 (m_key m) ++
  match m_record m with Some r => [(3, WLen (encode_fields (fields_krecord r)))] | None => [] end ++
  map (fun p => (8, WLen (enc_kpeer p))) (m_closer m) ++
  map (fun p => (9, WLen (enc_kpeer p))) (m_provider m) ++
  f_int3 10 (m_cluster m).
Definition enc_kmsg (m : kmsg) : bytes := encode_fields (fields_kmsg m).

(* ---- litep2p post-processing: KademliaPeer::try_from, record_from_schema, from_bytes ---- *)
(* kademlia::types::MAX_ADDRESSES: what KademliaPeer::addresses() and the encoder report *)
Definition MAX_ADDRESSES : nat := N.to_nat Consts.C19_KAD_MAX_ADDRESSES.

(* the address store of a converted peer: valid addresses, one per distinct value; the store
   keeps at most 64 and addresses() reports the 32 best (which ones depends on HashMap order,
   so from the cap on only the count is observable) *)
Record kad_peer := mkKadPeer { kp_pid : V.C18.Model.pid; kp_addrs : list bytes; kp_conn : N }.
Definition conv_peer (o : oracle) (p : kpeer) : option kad_peer :=
  match V.C18.Model.of_bytes (p_id p) with
  | None => None
  | Some pid =>
      if 4 <=? p_conn p then None   (* ConnectionType::try_from(i32): 0..3 (negative = >= 2^31) *)
      else Some (mkKadPeer pid (sort_dedupe (filter (maddr_valid o) (p_addrs p))) (p_conn p))
  end.
Fixpoint filter_map {A B} (f : A -> option B) (l : list A) : list B :=
  match l with
  | [] => []
  | x :: t => match f x with Some y => y :: filter_map f t | None => filter_map f t end
  end.
(* .iter().filter_map(|peer| KademliaPeer::try_from(peer).ok()).take(replication_factor) *)
Definition conv_peers (o : oracle) (k : nat) (ps : list kpeer) : list kad_peer :=
  firstn k (filter_map (conv_peer o) ps).

Record krec := mkRec { rc_key : bytes; rc_value : bytes; rc_publisher : option V.C18.Model.pid; rc_ttl : N }.
Definition conv_record (r : krecord) : option krec :=
  if is_nil (r_publisher r) then Some (mkRec (r_key r) (r_value r) None (r_ttl r))
  else match V.C18.Model.of_bytes (r_publisher r) with
       | Some p => Some (mkRec (r_key r) (r_value r) (Some p) (r_ttl r))
       | None => None
       end.

Inductive kad_message :=
| KFindNode (target : bytes) (peers : list kad_peer)
| KPutValue (record : krec)
| KGetRecord (key : option bytes) (record : option krec) (peers : list kad_peer)
| KAddProvider (key : bytes) (providers : list kad_peer)
| KGetProviders (key : option bytes) (peers providers : list kad_peer).

Definition nonempty_key (b : bytes) : option bytes := if is_nil b then None else Some b.

Definition kad_of_kmsg (k : nat) (o : oracle) (m : kmsg) : option kad_message :=
  let t := m_type m in
  if t =? 4 then Some (KFindNode (m_key m) (conv_peers o k (m_closer m)))
  else if t =? 0 then
    match m_record m with
    | Some r => match conv_record r with Some r' => Some (KPutValue r') | None => None end
    | None => None
    end
  else if t =? 1 then
    let key := if is_nil (m_key m)
               then match m_record m with Some r => nonempty_key (r_key r) | None => None end
               else Some (m_key m) in
    match m_record m with
    | Some r => match conv_record r with
                | Some r' => Some (KGetRecord key (Some r') (conv_peers o k (m_closer m)))
                | None => None
                end
    | None => Some (KGetRecord key None (conv_peers o k (m_closer m)))
    end
  else if t =? 2 then
    match nonempty_key (m_key m) with
    | Some key => Some (KAddProvider key (conv_peers o k (m_provider m)))
    | None => None
    end
  else if t =? 3 then
    Some (KGetProviders (nonempty_key (m_key m)) (conv_peers o k (m_closer m)) (conv_peers o k (m_provider m)))
  else None.

(* KademliaMessage::from_bytes(bytes, replication_factor) *)
Definition kad_from_bytes (k : nat) (o : oracle) (b : bytes) : option kad_message :=
  match dec_kmsg b with Some m => kad_of_kmsg k o m | None => None end.

(* the library's own encoders (message.rs); cluster_level_raw is always 10 *)
Definition schema_peer (p : kad_peer) : kpeer := mkKPeer (V.C18.Model.to_bytes (kp_pid p)) (kp_addrs p) (kp_conn p).
Definition schema_record (r : krec) : krecord :=
  mkKRec (rc_key r) (rc_value r) []
         (match rc_publisher r with Some p => V.C18.Model.to_bytes p | None => [] end) (rc_ttl r).
Definition msg_find_node (key : bytes) : kmsg := mkKMsg 4 10 key None [] [].
Definition msg_put_value (r : krec) : kmsg := mkKMsg 0 10 (rc_key r) (Some (schema_record r)) [] [].
Definition msg_get_record (key : bytes) : kmsg := mkKMsg 1 10 key None [] [].
Definition msg_find_node_response (key : bytes) (ps : list kad_peer) : kmsg :=
  mkKMsg 4 10 key None (map schema_peer ps) [].
Definition msg_put_value_response (key value : bytes) : kmsg :=
  mkKMsg 0 10 key (Some (mkKRec key value [] [] 0)) [] [].
Definition msg_get_value_response (key : bytes) (ps : list kad_peer) (r : option krec) : kmsg :=
  mkKMsg 1 10 key (option_map schema_record r) (map schema_peer ps) [].
Definition msg_add_provider (key : bytes) (p : kad_peer) : kmsg := mkKMsg 2 10 key None [] [schema_peer p].
Definition msg_get_providers_request (key : bytes) : kmsg := mkKMsg 3 10 key None [] [].
Definition msg_get_providers_response (providers closer : list kad_peer) : kmsg :=
  mkKMsg 3 10 [] None (map schema_peer closer) (map schema_peer providers).

(* ================================================================== identify.proto (proto2) *)
Record identify := mkIdent {
  i_protocol_version : option bytes; i_agent_version : option bytes; i_public_key : option bytes;
  i_listen : list bytes; i_observed : option bytes; i_protocols : list bytes }.
Definition identify0 : identify := mkIdent None None None [] None [].
Definition ident_step (m : identify) (f : field) : option identify :=
  let '(num, v) := f in
  if num =? 5 then
    match v with WLen b => if utf8_ok b then Some (mkIdent (Some b) (i_agent_version m) (i_public_key m) (i_listen m) (i_observed m) (i_protocols m)) else None | _ => None end
  else if num =? 6 then
    match v with WLen b => if utf8_ok b then Some (mkIdent (i_protocol_version m) (Some b) (i_public_key m) (i_listen m) (i_observed m) (i_protocols m)) else None | _ => None end
  else if num =? 1 then
    match v with WLen b => Some (mkIdent (i_protocol_version m) (i_agent_version m) (Some b) (i_listen m) (i_observed m) (i_protocols m)) | _ => None end
  else if num =? 2 then
    match v with WLen b => Some (mkIdent (i_protocol_version m) (i_agent_version m) (i_public_key m) (i_listen m ++ [b]) (i_observed m) (i_protocols m)) | _ => None end
  else if num =? 4 then
    match v with WLen b => Some (mkIdent (i_protocol_version m) (i_agent_version m) (i_public_key m) (i_listen m) (Some b) (i_protocols m)) | _ => None end
  else if num =? 3 then
    match v with WLen b => if utf8_ok b then Some (mkIdent (i_protocol_version m) (i_agent_version m) (i_public_key m) (i_listen m) (i_observed m) (i_protocols m ++ [b])) else None | _ => None end
  else Some m.
Definition dec_identify (b : bytes) : option identify :=
  match top_fields b with Some fs => fold_opt ident_step fs identify0 | None => None end.
Definition fields_identify (m : identify) : list field :=
  f_opt_bytes 1 (i_public_key m) ++ f_rep_bytes 2 (i_listen m) ++ f_rep_bytes 3 (i_protocols m) ++
  f_opt_bytes 4 (i_observed m) ++ f_opt_bytes 5 (i_protocol_version m) ++ f_opt_bytes 6 (i_agent_version m).
Definition enc_identify (m : identify) : bytes := encode_fields (fields_identify m).

(* the address handling of on_outbound_substream: an address is kept when Multiaddr::try_from
   succeeds, it is not empty, and a trailing /p2p component (if any) names `expect` *)
Definition addr_kept (o : oracle) (expect : bytes) (a : bytes) : bool :=
  maddr_valid_m a && negb (is_nil a) &&
  match maddr_last_p2p a with Some id => nlist_eqb id expect | None => true end.
Record identify_info := mkInfo {
  ii_protocol_version : option bytes; ii_agent : option bytes; ii_protocols : list bytes;
  ii_observed : option bytes; ii_listen : list bytes }.
(* supported_protocols is a HashSet: sorted, deduplicated here *)
Definition IDENTIFY_PAYLOAD_SIZE : N := Consts.C19_IDENTIFY_PAYLOAD_SIZE.
Definition identify_response (o : oracle) (peer local : bytes) (b : bytes) : option identify_info :=
  if IDENTIFY_PAYLOAD_SIZE <? blen b then None   (* the substream codec refuses the frame *)
  else
  match dec_identify b with
  | Some m =>
      Some (mkInfo (i_protocol_version m) (i_agent_version m) (sort_dedupe (i_protocols m))
                   (match i_observed m with Some a => if addr_kept o local a then Some a else None | None => None end)
                   (filter (addr_kept o peer) (i_listen m)))
  | None => None
  end.

(* ================================================================== bitswap.proto (proto3) *)
Record bs_entry := mkEntry { e_block : bytes; e_priority : N; e_cancel : bool; e_want : N; e_dont_have : bool }.
Definition bs_entry0 : bs_entry := mkEntry [] 0 false 0 false.
Definition bs_entry_step (m : bs_entry) (f : field) : option bs_entry :=
  let '(num, v) := f in
  if num =? 1 then match v with WLen b => Some (mkEntry b (e_priority m) (e_cancel m) (e_want m) (e_dont_have m)) | _ => None end
  else if num =? 2 then match v with WVarint n => Some (mkEntry (e_block m) (to_u32 n) (e_cancel m) (e_want m) (e_dont_have m)) | _ => None end
  else if num =? 3 then match v with WVarint n => Some (mkEntry (e_block m) (e_priority m) (to_bool n) (e_want m) (e_dont_have m)) | _ => None end
  else if num =? 4 then match v with WVarint n => Some (mkEntry (e_block m) (e_priority m) (e_cancel m) (to_u32 n) (e_dont_have m)) | _ => None end
  else if num =? 5 then match v with WVarint n => Some (mkEntry (e_block m) (e_priority m) (e_cancel m) (e_want m) (to_bool n)) | _ => None end
  else Some m.
Definition fields_bs_entry (m : bs_entry) : list field :=
  f_bytes3 1 (e_block m) ++ f_int3 2 (e_priority m) ++ f_bool3 3 (e_cancel m) ++ f_int3 4 (e_want m) ++
  f_bool3 5 (e_dont_have m).

Record bs_wantlist := mkWant { w_entries : list bs_entry; w_full : bool }.
Definition bs_wantlist0 : bs_wantlist := mkWant [] false.
Definition bs_wantlist_step (ctx : N) (m : bs_wantlist) (f : field) : option bs_wantlist :=
  let '(num, v) := f in
  if num =? 1 then
    match v with
    | WLen b => match sub_fields ctx b with
                | Some fs => match fold_opt bs_entry_step fs bs_entry0 with
                             | Some e => Some (mkWant (w_entries m ++ [e]) (w_full m))
                             | None => None
                             end
                | None => None
                end
    | _ => None
    end
  else if num =? 2 then match v with WVarint n => Some (mkWant (w_entries m) (to_bool n)) | _ => None end
  else Some m.
Definition fields_bs_wantlist (m : bs_wantlist) : list field :=
  map (fun e => (1, WLen (encode_fields (fields_bs_entry e)))) (w_entries m) ++ f_bool3 2 (w_full m).

Record bs_block := mkBlock { b_prefix : bytes; b_data : bytes }.
Definition bs_block_step (m : bs_block) (f : field) : option bs_block :=
  let '(num, v) := f in
  if num =? 1 then match v with WLen b => Some (mkBlock b (b_data m)) | _ => None end
  else if num =? 2 then match v with WLen b => Some (mkBlock (b_prefix m) b) | _ => None end
  else Some m.
Definition fields_bs_block (m : bs_block) : list field := f_bytes3 1 (b_prefix m) ++ f_bytes3 2 (b_data m).

Record bs_presence := mkPresence { bp_cid : bytes; bp_type : N }.
Definition bs_presence_step (m : bs_presence) (f : field) : option bs_presence :=
  let '(num, v) := f in
  if num =? 1 then match v with WLen b => Some (mkPresence b (bp_type m)) | _ => None end
  else if num =? 2 then match v with WVarint n => Some (mkPresence (bp_cid m) (to_u32 n)) | _ => None end
  else Some m.
Definition fields_bs_presence (m : bs_presence) : list field := f_bytes3 1 (bp_cid m) ++ f_int3 2 (bp_type m).

Record bs_msg := mkBs {
  bs_wantlist_of : option bs_wantlist; bs_blocks : list bytes; bs_payload : list bs_block;
  bs_presences : list bs_presence; bs_pending : N }.
Definition bs_msg0 : bs_msg := mkBs None [] [] [] 0.
Definition bs_msg_step (ctx : N) (m : bs_msg) (f : field) : option bs_msg :=
  let '(num, v) := f in
  if num =? 1 then
    match v with
    | WLen b =>
        match sub_fields ctx b with
        | Some fs =>
            match fold_opt (bs_wantlist_step (ctx - 1)) fs
                    (match bs_wantlist_of m with Some w => w | None => bs_wantlist0 end) with
            | Some w => Some (mkBs (Some w) (bs_blocks m) (bs_payload m) (bs_presences m) (bs_pending m))
            | None => None
            end
        | None => None
        end
    | _ => None
    end
  else if num =? 2 then
    match v with WLen b => Some (mkBs (bs_wantlist_of m) (bs_blocks m ++ [b]) (bs_payload m) (bs_presences m) (bs_pending m)) | _ => None end
  else if num =? 3 then
    match v with
    | WLen b => match sub_fields ctx b with
                | Some fs => match fold_opt bs_block_step fs (mkBlock [] []) with
                             | Some x => Some (mkBs (bs_wantlist_of m) (bs_blocks m) (bs_payload m ++ [x]) (bs_presences m) (bs_pending m))
                             | None => None
                             end
                | None => None
                end
    | _ => None
    end
  else if num =? 4 then
    match v with
    | WLen b => match sub_fields ctx b with
                | Some fs => match fold_opt bs_presence_step fs (mkPresence [] 0) with
                             | Some x => Some (mkBs (bs_wantlist_of m) (bs_blocks m) (bs_payload m) (bs_presences m ++ [x]) (bs_pending m))
                             | None => None
                             end
                | None => None
                end
    | _ => None
    end
  else if num =? 5 then
    match v with WVarint n => Some (mkBs (bs_wantlist_of m) (bs_blocks m) (bs_payload m) (bs_presences m) (to_u32 n)) | _ => None end
  else Some m.
Definition dec_bs_msg (b : bytes) : option bs_msg :=
  match top_fields b with Some fs => fold_opt (bs_msg_step RECURSION_LIMIT) fs bs_msg0 | None => None end.
Definition fields_bs_msg (m : bs_msg) : list field :=
  match bs_wantlist_of m with Some w => [(1, WLen (encode_fields (fields_bs_wantlist w)))] | None => [] end ++
  f_rep_bytes 2 (bs_blocks m) ++
  map (fun x => (3, WLen (encode_fields (fields_bs_block x)))) (bs_payload m) ++
  map (fun x => (4, WLen (encode_fields (fields_bs_presence x)))) (bs_presences m) ++
  f_int3 5 (bs_pending m).
Definition enc_bs_msg (m : bs_msg) : bytes := encode_fields (fields_bs_msg m).

(* ---- the CID prefix parser (Prefix::from_bytes / to_bytes) ---- *)
Record prefix := mkPrefix { px_version : N; px_codec : N; px_mh_type : N; px_mh_len : N }.
Definition prefix_from_bytes (b : bytes) : option prefix :=
  if bytes_ok b then
    match decode_u64 b with
    | Some (v, r1) =>
        match decode_u64 r1 with
        | Some (c, r2) =>
            match decode_u64 r2 with
            | Some (t, r3) =>
                match decode_u64 r3 with
                | Some (l, []) =>
                    if (v <=? 1) && (l <? 256) then Some (mkPrefix v c t l) else None
                | _ => None
                end
            | None => None
            end
        | None => None
        end
    | None => None
    end
  else None.
Definition prefix_to_bytes (p : prefix) : bytes :=
  encode (px_version p) ++ encode (px_codec p) ++ encode (px_mh_type p) ++ encode (px_mh_len p).

(* block_to_response: the CID is rebuilt from the prefix and the digest of the received data
   (oracle kind 4); Multihash::wrap needs <= 64 digest bytes; Cid::new: version 0 admits only
   dag-pb (0x70) with a 32-byte sha2-256 (0x12) multihash. Result: the CID bytes. *)
Definition block_cid (o : oracle) (blk : bs_block) : option bytes :=
  match prefix_from_bytes (b_prefix blk) with
  | None => None
  | Some px =>
      match orc_find o 4 (encode (px_mh_type px) ++ b_data blk) with
      | Some (1 :: digest) =>
          if 64 <? blen digest then None
          else
            let mh := encode (px_mh_type px) ++ encode (blen digest) ++ digest in
            if px_version px =? 0 then
              if (px_codec px =? 112) && (px_mh_type px =? 18) && (blen digest =? 32) then Some mh else None
            else Some (encode 1 ++ encode (px_codec px) ++ mh)
      | _ => None
      end
  end.

(* on_message_received, as read: wanted cids (valid cid, want type 0/1), responses *)
Definition cid_of (o : oracle) (b : bytes) : option (list N) := cid_read b.
Definition bs_request (o : oracle) (m : bs_msg) : list (list N * N) :=
  match bs_wantlist_of m with
  | Some w =>
      filter_map (fun e => match cid_of o (e_block e) with
                           | Some c => if e_want e <? 2 then Some (c, e_want e) else None
                           | None => None
                           end) (w_entries w)
  | None => []
  end.
Definition bs_response_blocks (o : oracle) (m : bs_msg) : list bytes :=
  filter_map (block_cid o) (bs_payload m).
Definition bs_response_presences (o : oracle) (m : bs_msg) : list (list N * N) :=
  filter_map (fun p => match cid_of o (bp_cid p) with
                       | Some c => if bp_type p <? 2 then Some (c, bp_type p) else None
                       | None => None
                       end) (bs_presences m).

(* ================================================================== frame lengths *)
(* substream::read_payload_size on the length bytes read so far *)
Inductive rps := RpsOk (size nbytes : N) | RpsNotEnough | RpsOverflow | RpsDecodeError.
Definition read_payload_size (buf : bytes) : rps :=
  match take_varint 10 buf with
  | Some (pre, _) =>
      if minimal pre then RpsOk (value pre mod 2 ^ 64) (blen pre) else RpsDecodeError
  | None => if blen buf <? 10 then RpsNotEnough else RpsOverflow
  end.

(* <Substream as Stream>::poll_next with ProtocolCodec::UnsignedVarint(max) over a carrier that
   holds `s` and is then closed; polled until it ends or fails (a caller stops at the first
   error). Every `BytesMut::zeroed(size)` is recorded. *)
Inductive rstatus := SEnd | SFail | SFuel.
Record recv := mkRecv { rv_frames : list bytes; rv_allocs : list N; rv_status : rstatus }.
Definition over_max (max : option N) (size : N) : bool :=
  match max with Some m => m <? size | None => false end.
Fixpoint recv_frames (fuel : nat) (max : option N) (s : bytes) : recv :=
  match fuel with
  | O => mkRecv [] [] SFuel
  | S f =>
      match s with
      | [] => mkRecv [] [] SEnd
      | _ :: _ =>
          match take_varint 10 s with
          | None => mkRecv [] [] (if blen s <? 10 then SEnd else SFail)
          | Some (pre, rest) =>
              if negb (minimal pre) then mkRecv [] [] SFail
              else
                let size := value pre mod 2 ^ 64 in
                if over_max max size then mkRecv [] [] SFail      (* checked BEFORE allocating *)
                else if size =? 0 then
                  let r := recv_frames f max rest in
                  mkRecv ([] :: rv_frames r) (rv_allocs r) (rv_status r)
                else if blen rest <? size then mkRecv [] [size] SEnd   (* buffer allocated, stream ended *)
                else
                  let r := recv_frames f max (skipn (N.to_nat size) rest) in
                  mkRecv (firstn (N.to_nat size) rest :: rv_frames r) (size :: rv_allocs r) (rv_status r)
          end
      end
  end.
Definition recv_all (max : option N) (s : bytes) : recv := recv_frames (S (length s)) max s.

(* the sending side: unsigned-varint length, then the payload *)
Definition frames_of (fs : list bytes) : bytes := flat_map (fun f => encode (blen f) ++ f) fs.

(* multistream-select LengthDelimited: the length of the frame buffer it resizes to *)
Definition ld_frame_len (st : V.C03.Model.rstate) : N := match st with V.C03.Model.RBody n _ => n | V.C03.Model.RLen _ => 0 end.


(* ================================================================== message-based multistream (WebRTC) *)
(* decode_multistream_message / webrtc_listener_negotiate / WebRtcDialerState::register_response:
   C03's executable model (V.C03.Model.webrtc_decode1, webrtc_listener, webrtc_dialer_register)
   is reused.  The model compares the declared length with what is left (`len tail <? l`) in
   unbounded N: there is no `len_size + len` that could overflow. *)
Definition wl_negotiate (names : list bytes) (payload : bytes) (header_received : bool) : V.C03.Model.wl_res :=
  V.C03.Model.webrtc_listener (V.C03.Model.tag_from 0 names) payload header_received.

Definition wd_code (r : V.C03.Model.wd_res) : N :=
  match r with
  | V.C03.Model.WDNotReady => 0
  | V.C03.Model.WDSucceeded => 1
  | V.C03.Model.WDRejected => 2
  | V.C03.Model.WDErr c => 10 + c
  end.
(* register_response applied to a sequence of payloads, the handshake state threaded through *)
Fixpoint run_regs (proto : bytes) (waiting : bool) (ops : list bytes) : list N :=
  match ops with
  | [] => []
  | pl :: t =>
      let '(w', r) := V.C03.Model.webrtc_dialer_register (S (length pl)) proto waiting pl in
      wd_code r :: run_regs proto w' t
  end.
Definition wl_reply_len (r : V.C03.Model.wl_res) : N :=
  match r with
  | V.C03.Model.WLAccepted _ b | V.C03.Model.WLRejected b | V.C03.Model.WLPendingProtocol b => blen b
  | V.C03.Model.WLErr _ => 0
  end.

(* ================================================================== webrtc.proto (proto2) and its framing *)
Record wr_msg := mkWr { wr_flag : option N; wr_message : option bytes }.
Definition wr_msg0 : wr_msg := mkWr None None.
Definition wr_step (m : wr_msg) (f : field) : option wr_msg :=
  let '(num, v) := f in
  if num =? 1 then match v with WVarint n => Some (mkWr (Some (to_u32 n)) (wr_message m)) | _ => None end
  else if num =? 2 then match v with WLen b => Some (mkWr (wr_flag m) (Some b)) | _ => None end
  else Some m.
Definition dec_wr (b : bytes) : option wr_msg :=
  match top_fields b with Some fs => fold_opt wr_step fs wr_msg0 | None => None end.
Definition fields_wr (m : wr_msg) : list field :=
  match wr_flag m with Some f => [(1, WVarint (i32_to_u64 f))] | None => [] end ++ f_opt_bytes 2 (wr_message m).
(* WebRtcMessage::decode: (payload, flag); a flag outside FIN..FIN_ACK is dropped *)
Definition webrtc_message (b : bytes) : option (option bytes * option N) :=
  match dec_wr b with
  | Some m => Some (wr_message m, match wr_flag m with Some f => if f <? 4 then Some f else None | None => None end)
  | None => None
  end.
(* WebRtcMessage::encode(payload, flag) *)
Definition webrtc_encode_message (payload : bytes) (flag : option N) : bytes :=
  let body := encode_fields (fields_wr (mkWr flag (if is_nil payload then None else Some payload))) in
  encode (blen body) ++ body.

Definition WEBRTC_MAX_FRAME : N := Consts.C19_WEBRTC_MAX_FRAME_SIZE.
(* extract_framed_message on the bytes buffered so far *)
Inductive wfr := WfNeedMore | WfErr | WfFrame (body rest : bytes).
Definition webrtc_extract (b : bytes) : wfr :=
  match take_varint 10 b with
  | None => if blen b <? 10 then WfNeedMore else WfErr
  | Some (pre, rest) =>
      if minimal pre then
        let len := value pre mod 2 ^ 64 in
        if WEBRTC_MAX_FRAME <? len then WfErr             (* refused before waiting for the body *)
        else if blen rest <? len then WfNeedMore
        else WfFrame (firstn (N.to_nat len) rest) (skipn (N.to_nat len) rest)
      else WfErr
  end.

(* ================================================================== yamux (third-party, opaque) *)
(* The yamux crate is not modelled; only the one computation behind known finding class 1 is:
   a WindowUpdate frame with the SYN flag opens a stream with credit `header.credit + DEFAULT_CREDIT`
   computed in u32 (yamux 0.13.10, connection.rs:730). *)
Definition YAMUX_DEFAULT_CREDIT : N := 262144.
Definition u32_add_checked (a b : N) : option N := if a + b <? 2 ^ 32 then Some (a + b) else None.
Definition be32 (a b c d : N) : N := ((a * 256 + b) * 256 + c) * 256 + d.
(* walks the frames (12-byte headers; only Data frames carry a body): is there a WindowUpdate|SYN
   whose credit makes that addition overflow? *)
Fixpoint yamux_syn_credit_overflow (fuel : nat) (b : bytes) : bool :=
  match fuel with
  | O => false
  | S f =>
      match b with
      | _ :: ty :: _ :: f2 :: _ :: _ :: _ :: _ :: l1 :: l2 :: l3 :: l4 :: rest =>
          let len := be32 l1 l2 l3 l4 in
          if (ty =? 1) && N.odd f2 && match u32_add_checked len YAMUX_DEFAULT_CREDIT with None => true | Some _ => false end
          then true
          else if ty =? 0 then
            if blen rest <? len then false else yamux_syn_credit_overflow f (skipn (N.to_nat len) rest)
          else yamux_syn_credit_overflow f rest
      | _ => false
      end
  end.

(* ================================================================== allocation bound *)
(* What the harness compares the measured peak (bytes allocated during one decode call, input
   excluded) with.  Every decoded byte string is copied once (<= |input| in total); the
   per-element overhead of the Rust containers (Vec<Peer>, Vec<Vec<u8>>, String, AddressStore
   with its 64-slot HashMap per converted peer, Vec doubling) is covered by the factor and the
   constant. *)
Definition ALLOC_FACTOR : N := 96.
Definition ALLOC_CONST : N := 16384.
Definition alloc_bound (input_len : N) : N := ALLOC_FACTOR * input_len + ALLOC_CONST.
(* KademliaMessage::from_bytes: at most k converted peers per list are alive (+1 in flight);
   each owns an AddressStore whose HashMap is pre-sized for 64 records *)
Definition KAD_PEER_COST : N := 6144.
Definition alloc_bound_kad (k input_len : N) : N := alloc_bound input_len + KAD_PEER_COST * (2 * k + 1).
(* a yamux connection buffers at most one frame body (default limit 1 MiB) plus its windows;
   the TLS certificate parser works on borrowed DER plus a constant *)
Definition YAMUX_BOUND : N := 4194304.
(* the very first frame is the trigger and passes every check that precedes the addition (version 0,
   WindowUpdate, SYN without RST, odd = client-chosen stream id): the outcome is predicted *)
Definition yamux_first_frame_trigger (b : bytes) : bool :=
  match b with
  | v :: ty :: _ :: f2 :: _ :: _ :: _ :: s4 :: l1 :: l2 :: l3 :: l4 :: _ =>
      (v =? 0) && (ty =? 1) && N.odd f2 && negb (N.testbit f2 3) && N.odd s4 &&
      match u32_add_checked (be32 l1 l2 l3 l4) YAMUX_DEFAULT_CREDIT with None => true | Some _ => false end
  | _ => false
  end.
Definition TLS_CONST : N := 65536.
(* framed receive: the frame buffer (<= max), the frames handed out (<= |stream|), constant *)
Definition recv_alloc_bound (max stream_len : N) : N := max + 2 * stream_len + ALLOC_CONST.
