(* C19 — lemmas about the consumer stage (Consume.v): whatever the model's decoders accept
   satisfies the invariant of every conversion with a panic path that the event loops apply to it. *)
From Coq Require Import List Arith NArith Bool Lia.
From V.gen Require Consts.
From V.common Require Import Wire Varint Protobuf.
From V.C18 Require Model Proofs KeyProofs Addr AddrProofs.
From V.C03 Require Model.
From V.C19 Require Import Formats Model Consume.
Import ListNotations.
Open Scope N_scope.

(* ---------------------------------------------------------------- PeerId *)
(* every byte string PeerId::from_bytes accepts is accepted by the multiaddr crate's PeerId *)
Lemma peer_id_convertible b p : V.C18.Model.of_bytes b = Some p -> convertible p = true.
Proof.
  intros H. unfold convertible. apply V.C18.KeyProofs.valid_ref_admits.
  exact (V.C18.Proofs.of_bytes_valid _ _ H).
Qed.

Lemma valid_convertible p : V.C18.Model.valid p = true -> convertible p = true.
Proof. exact (V.C18.KeyProofs.valid_ref_admits p). Qed.

Lemma convert_peer_id_bytes b p : V.C18.Model.of_bytes b = Some p ->
  convert_peer_id p = Some (V.C18.Model.to_bytes p).
Proof. intros H. unfold convert_peer_id. rewrite (peer_id_convertible _ _ H). reflexivity. Qed.

(* and the converse direction of the tie: the conversion is safe EXACTLY on the ids litep2p's own
   from_multihash admits, so widening the decoder's accepted set breaks it *)
Lemma convertible_iff_admits p : convertible p = V.C18.Model.admits p.
Proof. unfold convertible. symmetry. apply V.C18.Proofs.admits_ref. Qed.

Lemma not_admitted_not_convertible p : V.C18.Model.admits p = false -> convert_peer_id p = None.
Proof. intros H. unfold convert_peer_id. rewrite convertible_iff_admits, H. reflexivity. Qed.

(* a witness for the boundary: an identity multihash with a 43-byte digest is a Multihash<64> but
   neither a peer id nor convertible *)
Lemma identity_43_not_convertible :
  let p := V.C18.Model.mkPid 0 (repeat 1 43) in
  V.C18.Model.mh_parse (V.C18.Model.mh_to_bytes p) = Some p /\ convert_peer_id p = None /\
  V.C18.Model.of_bytes (V.C18.Model.mh_to_bytes p) = None.
Proof. vm_compute. repeat split. Qed.

(* the inlined key of from_public_key_protobuf fits the multihash *)
Lemma inline_fits_true : inline_fits = true.
Proof.
  unfold inline_fits. destruct V.C18.Proofs.consts_facts as (-> & _ & -> & _). reflexivity.
Qed.

(* the peer id of an Ed25519 identity key is convertible whatever the 32 key bytes are *)
Lemma ed25519_peer_convertible k : length k = 32%nat -> convertible (ed25519_peer k) = true.
Proof.
  intros L. unfold convertible, ed25519_peer, V.C18.Model.ref_admits. cbn [V.C18.Model.code V.C18.Model.digest].
  unfold V.C18.Model.len, V.C18.Model.encode_ed25519. rewrite app_length, L. reflexivity.
Qed.

(* ---------------------------------------------------------------- Kademlia *)
Lemma conv_peer_convertible o p q : conv_peer o p = Some q -> convertible (kp_pid q) = true.
Proof.
  unfold conv_peer. destruct (V.C18.Model.of_bytes (p_id p)) as [pid|] eqn:E; [|discriminate].
  destruct (4 <=? p_conn p); [discriminate|]. intros [= <-]. cbn [kp_pid].
  exact (peer_id_convertible _ _ E).
Qed.

Lemma filter_map_forall {A B} (f : A -> option B) (P : B -> Prop) l :
  (forall x y, f x = Some y -> P y) -> Forall P (filter_map f l).
Proof.
  intros H. induction l as [|x t IH]; cbn [filter_map]; [constructor|].
  destruct (f x) eqn:E; [constructor; [exact (H _ _ E)|exact IH]|exact IH].
Qed.

Lemma Forall_firstn {A} (P : A -> Prop) n l : Forall P l -> Forall P (firstn n l).
Proof.
  intros H. revert n. induction H as [|x t Hx Ht IH]; intros [|n]; cbn [firstn]; constructor; auto.
Qed.

Lemma conv_peers_convertible o k ps : Forall (fun q => convertible (kp_pid q) = true) (conv_peers o k ps).
Proof.
  unfold conv_peers. apply Forall_firstn. apply filter_map_forall. intros x y H.
  exact (conv_peer_convertible _ _ _ H).
Qed.

Lemma conv_peers_pids o k ps : forallb convertible (map kp_pid (conv_peers o k ps)) = true.
Proof.
  apply forallb_forall. intros p Hp. apply in_map_iff in Hp as (q & <- & Hq).
  pose proof (conv_peers_convertible o k ps) as F. rewrite Forall_forall in F. exact (F _ Hq).
Qed.

Lemma conv_record_publisher r r' p : conv_record r = Some r' -> rc_publisher r' = Some p ->
  convertible p = true.
Proof.
  unfold conv_record. destruct (is_nil (r_publisher r)).
  - intros [= <-]. discriminate.
  - destruct (V.C18.Model.of_bytes (r_publisher r)) as [q|] eqn:E; [|discriminate].
    intros [= <-]. cbn [rc_publisher]. intros [= <-]. exact (peer_id_convertible _ _ E).
Qed.

Lemma publisher_ok r r' : conv_record r = Some r' ->
  match rc_publisher r' with Some p => convertible p | None => true end = true.
Proof.
  intros H. destruct (rc_publisher r') as [p|] eqn:E; [|reflexivity]. exact (conv_record_publisher _ _ _ H E).
Qed.

(* whatever KademliaMessage::from_bytes lets through is usable by the event loop: every peer id in
   it converts into a multiaddr::PeerId *)
Lemma kad_of_kmsg_usable k o m d : kad_of_kmsg k o m = Some d -> kad_usable d = true.
Proof.
  unfold kad_of_kmsg, kad_usable.
  destruct (m_type m =? 4).
  { intros [= <-]. cbn [kad_converted kad_publisher]. rewrite conv_peers_pids. reflexivity. }
  destruct (m_type m =? 0).
  { destruct (m_record m) as [r|]; [|discriminate]. destruct (conv_record r) as [r'|] eqn:E; [|discriminate].
    intros [= <-]. cbn [kad_converted kad_publisher forallb andb]. exact (publisher_ok _ _ E). }
  destruct (m_type m =? 1).
  { destruct (m_record m) as [r|].
    - destruct (conv_record r) as [r'|] eqn:E; [|discriminate]. intros [= <-].
      cbn [kad_converted kad_publisher]. rewrite conv_peers_pids. exact (publisher_ok _ _ E).
    - intros [= <-]. cbn [kad_converted kad_publisher]. rewrite conv_peers_pids. reflexivity. }
  destruct (m_type m =? 2).
  { destruct (nonempty_key (m_key m)); [|discriminate]. intros [= <-].
    cbn [kad_converted kad_publisher]. rewrite conv_peers_pids. reflexivity. }
  destruct (m_type m =? 3); [|discriminate].
  intros [= <-]. cbn [kad_converted kad_publisher]. rewrite forallb_app, !conv_peers_pids. reflexivity.
Qed.

Lemma kad_from_bytes_usable k o b d : kad_from_bytes k o b = Some d -> kad_usable d = true.
Proof.
  unfold kad_from_bytes. destruct (dec_kmsg b) as [m|]; [|discriminate]. apply kad_of_kmsg_usable.
Qed.

(* the peers update_routing_table hands to add_known_address / add_known_peer: decoded, convertible,
   never the node itself *)
Lemma update_peers_spec local ps p : In p (update_peers local ps) ->
  In p (map kp_pid ps) /\ pid_is local p = false.
Proof.
  unfold update_peers. intros H. apply filter_In in H as (H1 & H2). split; [exact H1|].
  destruct (pid_is local p); [discriminate|reflexivity].
Qed.

Lemma filter_len {A} (f : A -> bool) l : (length (filter f l) <= length l)%nat.
Proof. induction l as [|x t IH]; cbn [filter length]; [lia|]. destruct (f x); cbn [length]; lia. Qed.

Lemma update_peers_length local ps : (length (update_peers local ps) <= length ps)%nat.
Proof.
  unfold update_peers. etransitivity; [apply filter_len|]. rewrite map_length. apply Nat.le_refl.
Qed.

(* the peer ids that appear in the events of the stage *)
Definition kev_pids (e : kev) : list pid :=
  match e with
  | KevUpdate ps => ps
  | KevRecord r => match rc_publisher r with Some p => [p] | None => [] end
  | KevProvider _ p => [kp_pid p]
  end.

Lemma provider_events_pids from key ps e p :
  In e (provider_events from key ps) -> In p (kev_pids e) -> In p (map kp_pid ps).
Proof.
  unfold provider_events. destruct ps as [|q [|? ?]]; try (intros []).
  destruct (pid_is from (kp_pid q)); [|intros []].
  intros [<-|[]]. cbn [kev_pids]. intros [<-|[]]. left. reflexivity.
Qed.

Lemma forallb_In {A} (f : A -> bool) l x : forallb f l = true -> In x l -> f x = true.
Proof. intros H. rewrite forallb_forall in H. apply H. Qed.

Lemma kad_response_pids local from m e p : kad_usable m = true ->
  In e (kad_response local from m) -> In p (kev_pids e) -> convertible p = true.
Proof.
  unfold kad_usable. intros U. apply andb_prop in U as (U & _).
  destruct m as [t ps|r|key r ps|key ps|key ps qs]; cbn [kad_response kad_converted] in *.
  - intros [<-|[]] Hp. cbn [kev_pids] in Hp. apply update_peers_spec in Hp as (Hp & _). exact (forallb_In _ _ _ U Hp).
  - intros [].
  - intros [<-|[]] Hp. cbn [kev_pids] in Hp. apply update_peers_spec in Hp as (Hp & _). exact (forallb_In _ _ _ U Hp).
  - intros He Hp. exact (forallb_In _ _ _ U (provider_events_pids _ _ _ _ _ He Hp)).
  - intros [<-|[]] Hp. cbn [kev_pids] in Hp. apply update_peers_spec in Hp as (Hp & _).
    rewrite forallb_app in U. apply andb_prop in U as (U & _). exact (forallb_In _ _ _ U Hp).
Qed.

Lemma kad_request_pids from m e p : kad_usable m = true ->
  In e (snd (kad_request from m)) -> In p (kev_pids e) -> convertible p = true.
Proof.
  unfold kad_usable. intros U. apply andb_prop in U as (U & P).
  destruct m as [t ps|r|[key|] r ps|key ps|[key|] ps qs]; cbn [kad_request snd kad_converted kad_publisher] in *;
    try (intros Hf; destruct Hf; fail).
  - intros [<-|[]]. cbn [kev_pids]. destruct (rc_publisher r) as [q|]; [|intros []]. intros [<-|[]]. exact P.
  - intros He Hp. exact (forallb_In _ _ _ U (provider_events_pids _ _ _ _ _ He Hp)).
Qed.

(* a request never makes the loop walk over the remote's peers (update_routing_table is reached
   only by the answer to a query of the loop's own) *)
Lemma kad_request_no_update from m e : In e (snd (kad_request from m)) ->
  match e with KevUpdate _ => False | _ => True end.
Proof.
  destruct m as [t ps|r|[key|] r ps|key ps|[key|] ps qs]; cbn [kad_request snd]; try (intros Hf; destruct Hf; fail).
  - intros [<-|[]]. exact I.
  - unfold provider_events. destruct ps as [|q [|? ?]]; try (intros []).
    destruct (pid_is from (kp_pid q)); [|intros []]. intros [<-|[]]. exact I.
Qed.

(* ---------------------------------------------------------------- addresses *)
Lemma maddr_last_p2p_of_maddr b :
  maddr_last_p2p b = option_map V.C18.Model.to_bytes (V.C18.Addr.of_maddr b).
Proof.
  unfold maddr_last_p2p, V.C18.Addr.of_maddr, V.C18.Addr.of_comps, V.C18.Addr.last_comp.
  destruct (maddr_parse b) as [cs| |]; [|reflexivity|reflexivity].
  cbv delta [V.C18.Addr.comp]. destruct (rev cs) as [|[id d] r]; [reflexivity|].
  change V.C18.Model.P2P with P2P_CODE. destruct (id =? P2P_CODE); [|reflexivity].
  destruct (V.C18.Model.of_bytes d); reflexivity.
Qed.

(* AddressRecord::from_multiaddr keeps an address only if it ends with /p2p: such an address always
   carries an id litep2p takes (dial_address's `expect("`PeerId` to exist")`) *)
Lemma parsed_p2p_record_has_id b cs :
  maddr_parse b = Ok cs -> V.C18.Addr.ends_with_p2p cs = true -> record_has_id b = true.
Proof.
  intros P E. unfold record_has_id. rewrite maddr_last_p2p_of_maddr.
  destruct (V.C18.AddrProofs.parsed_p2p_has_id _ _ P E) as (p & ->). reflexivity.
Qed.

(* ... and so does an address to which /p2p/<peer> was appended for a decoded peer *)
Lemma appended_record_has_id b cs x p :
  maddr_parse b = Ok cs -> V.C18.Model.of_bytes x = Some p ->
  exists rb, V.C18.Addr.record_new_bytes p b = Some rb /\ record_has_id rb = true.
Proof.
  intros P H. pose proof (V.C18.Proofs.of_bytes_valid _ _ H) as V.
  destruct (V.C18.AddrProofs.record_new_bytes_spec p b cs P V) as (rb & R & _ & A & B).
  exists rb. split; [exact R|]. unfold record_has_id. rewrite maddr_last_p2p_of_maddr.
  destruct (V.C18.Addr.ends_with_p2p cs) eqn:E.
  - destruct (B eq_refl) as (_ & q & ->). reflexivity.
  - rewrite (A eq_refl). reflexivity.
Qed.

(* the socket-address parsers look at no more than three components and the head of the fourth *)
Lemma sock_parse_ws_implies_tcp_prefix cs :
  sock_parse true cs = true ->
  exists h t w r, cs = h :: t :: w :: r /\ is_host (fst h) = true /\ fst t = TCP /\ is_ws (fst w) = true.
Proof.
  destruct cs as [|[h hd] [|[t td] [|[w wd] r]]]; cbn [sock_parse]; try discriminate.
  - rewrite andb_false_r. discriminate.
  - intros H. apply andb_prop in H as (H & W). apply andb_prop in H as (H1 & H2). apply andb_prop in W as (W & _).
    exists (h, hd), (t, td), (w, wd), r. cbn [fst]. apply N.eqb_eq in H2. auto.
Qed.

(* ---------------------------------------------------------------- negotiated protocol names *)
Lemma l_find_bound (names : list V.C03.Model.name) : forall s p i,
  V.C03.Model.l_find (V.C03.Model.tag_from s names) p = Some i -> s <= i < s + nlen names.
Proof.
  induction names as [|x t IH]; intros s p i; cbn [V.C03.Model.tag_from V.C03.Model.l_find]; [discriminate|].
  unfold nlen. cbn [length]. destruct (V.C03.Model.name_eqb p x).
  - intros [= <-]. lia.
  - intros H. apply IH in H. unfold nlen in H. lia.
Qed.

Lemma wl_finish_index names p h rest i reply :
  V.C03.Model.wl_finish (V.C03.Model.tag_from 0 names) p h rest = V.C03.Model.WLAccepted i reply ->
  i < nlen names.
Proof.
  unfold V.C03.Model.wl_finish. destruct rest; [|discriminate].
  destruct (V.C03.Model.l_find (V.C03.Model.tag_from 0 names) p) as [j|] eqn:F.
  - destruct (V.C03.Model.webrtc_encode (V.C03.Model.MProto p) h); [|discriminate].
    intros [= <- _]. apply l_find_bound in F. lia.
  - destruct (V.C03.Model.webrtc_encode V.C03.Model.MNa h); discriminate.
Qed.

(* the message-based listener only ever accepts one of the names it was given *)
Lemma negotiated_in_set_ok names payload hdr :
  negotiated_in_set names (wl_negotiate names payload hdr) = true.
Proof.
  unfold negotiated_in_set. destruct (wl_negotiate names payload hdr) as [i reply| | |] eqn:E; try reflexivity.
  apply N.ltb_lt. unfold wl_negotiate, V.C03.Model.webrtc_listener in E.
  destruct (V.C03.Model.webrtc_decode1 payload) as [[[m|e] rest]|]; try discriminate.
  destruct m; try discriminate.
  - destruct hdr; [discriminate|]. destruct rest as [|x r]; [discriminate|].
    destruct (V.C03.Model.webrtc_decode1 (x :: r)) as [[[m2|e2] rest2]|]; try discriminate.
    destruct m2; try discriminate. exact (wl_finish_index _ _ _ _ _ _ E).
  - destruct hdr; [|discriminate]. exact (wl_finish_index _ _ _ _ _ _ E).
Qed.
