(* C19 — models of the transport-level decoders that sit in front of every protocol message.
   Definitions only (proofs: NetProofs.v).

   1. WebSocket: what `BufferedStream` (src/transport/websocket/stream.rs) hands to the Noise
      layer when tokio-tungstenite 0.27 with its DEFAULT configuration (litep2p passes none:
      max_frame_size 16 MiB, max_message_size 64 MiB, masked frames required from clients)
      reads the remote's bytes.  Every message that is not Binary and every protocol error ends
      the stream with an io error, so the only observable besides "failed" is the byte string
      delivered before: the concatenation of the complete Binary messages.
   2. Noise XX handshake (`crypto::noise::handshake`): the two-byte length prefix of a handshake
      message (read_handshake_message), and what becomes of the remote's identity payload.
   3. mDNS (`Mdns::on_inbound_response`): which addresses are reported for a parsed packet.

   Not modelled (oracle dictionary, same library calls as the implementation makes):
     kind 5  simple-dns Packet::parse          key = datagram; answer = summary (see p_summary)
     kind 6  str::parse::<Multiaddr>           key = the string; answer 1 ++ bytes | 0
     kind 7  ed25519 verify(static-key message) key = public key ++ signature; answer [ok]
     kind 8  tungstenite HTTP upgrade (accept)  key = stream; answer [accepted; bytes consumed] *)
From Coq Require Import List NArith Bool.
From V.gen Require Consts DecodeSites.
From V.common Require Import Wire Varint Protobuf.
From V.C19 Require Import Formats Model.
Import ListNotations.
Open Scope N_scope.

(* ================================================================== WebSocket *)
Definition WS_MAX_FRAME : N := DecodeSites.WS_MAX_FRAME_SIZE.
Definition WS_MAX_MESSAGE : N := DecodeSites.WS_MAX_MESSAGE_SIZE.

Fixpoint be_n (l : bytes) (acc : N) : N :=
  match l with [] => acc | x :: t => be_n t (acc * 256 + x) end.

(* payload[i] xor key[i mod 4]: the key is rotated as the payload is consumed *)
Fixpoint unmask (key : bytes) (p : bytes) : bytes :=
  match p with
  | [] => []
  | x :: t =>
      match key with
      | k0 :: kr => N.lxor x k0 :: unmask (kr ++ [k0]) t
      | [] => x :: unmask [] t
      end
  end.

Record ws_hdr := mkWsHdr { h_fin : bool; h_rsv : bool; h_op : N; h_mask : option bytes; h_len : N }.

(* FrameHeader::parse_internal: None = not enough bytes yet *)
Definition ws_header (b : bytes) : option (ws_hdr * bytes) :=
  match b with
  | b0 :: b1 :: r =>
      let l7 := N.land b1 127 in
      let ext := if l7 =? 126 then 2%nat else if l7 =? 127 then 8%nat else 0%nat in
      if Nat.ltb (length r) ext then None
      else
        let len := match ext with O => l7 | _ => be_n (firstn ext r) 0 end in
        let r1 := skipn ext r in
        let mk := mkWsHdr (N.testbit b0 7) (negb (N.land b0 112 =? 0)) (N.land b0 15) in
        if N.testbit b1 7
        then if Nat.ltb (length r1) 4 then None else Some (mk (Some (firstn 4 r1)) len, skipn 4 r1)
        else Some (mk None len, r1)
  | _ => None
  end.

Inductive ws_role := WsServer | WsClient.

Definition ws_reserved_op (op : N) : bool := ((3 <=? op) && (op <=? 7)) || (11 <=? op).

(* `acc` = the fragments of an unfinished Binary message.  Returns what has been delivered when
   the stream fails (it always does: a finite byte string ends without a closing handshake). *)
Fixpoint ws_read (fuel : nat) (role : ws_role) (acc : option bytes) (b : bytes) (out : bytes) : bytes :=
  match fuel with
  | O => out
  | S f =>
      match ws_header b with
      | None => out
      | Some (h, r) =>
          if ws_reserved_op (h_op h) then out
          else if WS_MAX_FRAME <? h_len h then out            (* checked before the payload is awaited *)
          else if blen r <? h_len h then out
          else
            let n := N.to_nat (h_len h) in
            let p := firstn n r in
            let r' := skipn n r in
            match role, h_mask h with
            | WsServer, None => out                            (* UnmaskedFrameFromClient *)
            | WsClient, Some _ => out                          (* MaskedFrameFromServer *)
            | _, m =>
                let p' := match m with Some k => unmask k p | None => p end in
                if h_rsv h then out
                else if 8 <=? h_op h then out                  (* Close / Ping / Pong: not Binary *)
                else if h_op h =? 0 then
                  match acc with
                  | None => out
                  | Some a =>
                      let a' := a ++ p' in
                      if WS_MAX_MESSAGE <? blen a' then out
                      else if h_fin h then ws_read f role None r' (out ++ a')
                      else ws_read f role (Some a') r' out
                  end
                else match acc with
                     | Some _ => out                           (* ExpectedFragment *)
                     | None =>
                         if h_op h =? 1 then out               (* Text: never delivers *)
                         else if h_fin h then ws_read f role None r' (out ++ p')
                         else ws_read f role (Some p') r' out
                     end
            end
      end
  end.

Definition ws_run (role : ws_role) (b : bytes) : bytes := ws_read (S (length b)) role None b [].

(* the writer: one Binary frame per poll_write (FrameHeader::format) *)
Fixpoint to_be (n : nat) (x : N) : bytes :=
  match n with O => [] | S m => to_be m (x / 256) ++ [x mod 256] end.
Definition ws_frame (mask : option bytes) (payload : bytes) : bytes :=
  let n := blen payload in
  let m := match mask with Some _ => 128 | None => 0 end in
  [130] ++
  (if n <? 126 then [m + n]
   else if n <? 65536 then (m + 126) :: to_be 2 n
   else (m + 127) :: to_be 8 n) ++
  match mask with Some k => k ++ unmask k payload | None => payload end.

(* after `accept_async`: the oracle says whether the upgrade request was accepted and how many
   bytes it consumed *)
Definition ws_accept (o : oracle) (s : bytes) : option bytes :=
  match orc_find o 8 s with
  | Some [1; consumed] => Some (skipn (N.to_nat consumed) s)
  | _ => None
  end.

Definition ws_bound (len : N) : N := WS_MAX_FRAME + 8 * len + 1048576.

(* ================================================================== Noise XX handshake *)
Definition NOISE_BOUND : N := 2097152.

(* read_handshake_message: u16 length, then exactly that many bytes; None = end of stream *)
Definition hs_frame (b : bytes) : option (bytes * bytes) :=
  match b with
  | h :: l :: r =>
      let n := h * 256 + l in
      if blen r <? n then None else Some (firstn (N.to_nat n) r, skipn (N.to_nat n) r)
  | _ => None
  end.

(* result codes: 0 = Ok(peer), 1 SnowError, 2 IoError, 3 ParseError, 4 PeerIdMissing, 5 BadSignature *)
(* bytes that were not produced by a Noise peer: every message is length-checked and then fails
   to decrypt (the static key of message 2 / 3 is AEAD-protected) *)
Definition noise_raw (role : N) (b : bytes) : N :=
  if role =? 1 then
    match hs_frame b with
    | None => 2
    | Some (m1, r) =>
        if blen m1 <? 32 then 1
        else match hs_frame r with None => 2 | Some _ => 1 end
    end
  else match hs_frame b with None => 2 | Some _ => 1 end.

(* NoiseContext::get_remote_peer_id (WebRTC) on bytes that no Noise peer produced: the reply needs
   its two length bytes, everything else fails inside the Noise message *)
Definition webrtc_noise_reply (b : bytes) : N := if blen b <? 2 then 3 else 1.

(* a correct Noise peer whose identity message carries the payload p and is announced with the
   length `decl` (None = the true one).  Message 2 = e(32) + s(32+16) + payload + tag(16);
   message 3 = s(32+16) + payload + tag(16). *)
Definition noise_msg_len (role : N) (p : bytes) : N := blen p + (if role =? 0 then 96 else 64).

Definition peer_of_ed25519 (pk : bytes) : bytes := 0 :: 36 :: key_to_protobuf pk.

Definition noise_identity_result (o : oracle) (p : bytes) : list N :=
  match dec_noise p with
  | None => [3]
  | Some m =>
      match n_key m with
      | None => [4]
      | Some k =>
          match remote_key o k with
          | None => [3]
          | Some pk =>
              match n_sig m with
              | None => [5]
              | Some sg =>
                  if orc_flag o 7 (pk ++ sg)
                  then 0 :: blen (peer_of_ed25519 pk) :: peer_of_ed25519 pk
                  else [5]
              end
          end
      end
  end.

Definition noise_active (role : N) (o : oracle) (p : bytes) (decl : option N) : list N :=
  let n := noise_msg_len role p in
  match decl with
  | Some d => if n <? d then [2] else if d <? n then [1] else noise_identity_result o p
  | None => noise_identity_result o p
  end.

(* ================================================================== mDNS *)
Definition MDNS_BUFFER : N := Consts.C19_MDNS_BUFFER.

Record md_answer := mkMdAns { ma_name : list bytes; ma_ptr : option (list bytes) }.
Record md_extra := mkMdExtra { mx_name : list bytes; mx_txt : option (list bytes) }.

Definition pBytes : parser bytes := plist pN.
Definition pNames : parser (list bytes) := plist pBytes.
Definition p_md_answer : parser md_answer :=
  let* n := pNames in let* k := pN in
  if k =? 0 then pret (mkMdAns n None) else let* t := pNames in pret (mkMdAns n (Some t)).
Definition p_md_extra : parser md_extra :=
  let* n := pNames in let* k := pN in
  if k =? 0 then pret (mkMdExtra n None) else let* vs := pNames in pret (mkMdExtra n (Some vs)).

(* the oracle's summary of the parsed packet: 0 | 1 response? answers additional *)
Definition p_summary : parser (option (bool * list md_answer * list md_extra)) :=
  let* ok := pN in
  if ok =? 0 then pret None
  else let* resp := pBool in let* a := plist p_md_answer in let* x := plist p_md_extra in
       pret (Some (resp, a, x)).

Definition names_eqb : list bytes -> list bytes -> bool := list_eqb nlist_eqb.

(* "_p2p._udp.local" *)
Definition SERVICE_NAME : list bytes :=
  [[95; 112; 50; 112]; [95; 117; 100; 112]; [108; 111; 99; 97; 108]].

Fixpoint filter_map {A B} (f : A -> option B) (l : list A) : list B :=
  match l with
  | [] => []
  | x :: t => match f x with Some y => y :: filter_map f t | None => filter_map f t end
  end.

(* Mdns::on_inbound_response *)
Definition mdns_response (user : bytes) (o : oracle) (answers : list md_answer) (extra : list md_extra) : list bytes :=
  let names :=
    filter_map (fun a =>
      if names_eqb (ma_name a) SERVICE_NAME
      then match ma_ptr a with
           | Some t => if names_eqb t [user] then None else Some t
           | None => None
           end
      else None) answers in
  match names with
  | [] => []
  | n0 :: _ =>
      flat_map (fun x =>
        if names_eqb (mx_name x) n0
        then match mx_txt x with
             | Some vals => filter_map (fun v => match orc_find o 6 v with Some (1 :: a) => Some a | _ => None end) vals
             | None => []
             end
        else []) extra
  end.

(* one datagram: body of the trace *)
Definition mdns_datagram (user : bytes) (nlisten : N) (o : oracle) (d : bytes) : list N :=
  let cut := firstn (N.to_nat MDNS_BUFFER) d in
  match orc_find o 5 cut with
  | Some s =>
      match pall p_summary s with
      | Some (Some (resp, a, x)) =>
          if resp
          then let l := sort_dedupe (mdns_response user o a x) in
               1 :: enc_list (fun b => enc_list (fun y => [y]) b) l
          else [2; 1; nlisten; 1]
      | _ => [0]
      end
  | None => [0]
  end.

Definition mdns_bound (d : bytes) : N := alloc_bound (blen (firstn (N.to_nat MDNS_BUFFER) d)) + 65536.

(* user names are single alphanumeric labels *)
Definition is_alnum (x : N) : bool :=
  ((48 <=? x) && (x <=? 57)) || ((65 <=? x) && (x <=? 90)) || ((97 <=? x) && (x <=? 122)).
Definition mdns_user_ok (u : bytes) : bool :=
  negb (is_nil u) && (blen u <=? 63) && forallb is_alnum u.
