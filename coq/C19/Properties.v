(* C19 — pinned property theorems: statements, `exact`, Print Assumptions, non-vacuity Examples.

   What "a decoder never panics, loops or over-allocates" means here:
   * every decoder below is a total Gallina function into option/result, so termination is
     machine-checked; where fuel is used, the theorems *_total / *_fuel show that the fuel derived
     from the input length is never exhausted (an "out of fuel" answer cannot occur and more fuel
     never changes the answer) — this is where a non-terminating loop would surface;
   * *_alloc_* bound what a decoder materialises by the input length (sizes count every byte
     string plus one unit per list element) and *_cap / *_checked_first give the collection caps
     and the "length checked against the configured maximum BEFORE allocating" property;
   * *_roundtrip_* say that what the library's own encoders produce decodes to the value encoded.
   Panic-freedom of the Rust code itself is decided by the differential run against these total
   functions (a panic / abort / hang is a disagreement and a failing input). *)
From Coq Require Import List NArith Bool.
From V.gen Require Consts.
From V.common Require Import Wire Varint Protobuf.
From V.C18 Require Model.
From V.C03 Require Model.
From V.C19 Require Import Formats Model Utf8Proofs Proofs MsProofs Net NetProofs Consume ConsumeProofs.
From V.C18 Require Addr.
From V.C19 Require Sites PanicSites.
From V.gen Require DecodeSites.
Import ListNotations.
Open Scope N_scope.

(* ---------------------------------------------------------------- protobuf layer (prost) *)
Theorem C19_pb_total :
  forall ctx b, pb_parse_at ctx b <> OutOfFuel.
Proof. exact parse_fields_fuel. Qed.
Print Assumptions C19_pb_total.

Theorem C19_pb_fuel_irrelevant :
  forall ctx b fuel, (length b < fuel)%nat -> parse_fields fuel ctx b = pb_parse_at ctx b.
Proof. exact parse_fields_fuel_irrelevant. Qed.
Print Assumptions C19_pb_fuel_irrelevant.

Theorem C19_pb_sub_total :
  forall ctx payload, pb_parse_sub ctx payload <> OutOfFuel.
Proof. exact pb_parse_sub_fuel. Qed.
Print Assumptions C19_pb_sub_total.

(* tokens: one unit per token plus all payload bytes fit in the input; at most |b|/2 tokens *)
Theorem C19_pb_alloc_bound :
  forall ctx b fs, pb_parse_at ctx b = Ok fs ->
  (length fs + fields_payload fs <= length b /\ 2 * length fs <= length b)%nat.
Proof. exact parse_fields_size. Qed.
Print Assumptions C19_pb_alloc_bound.

Theorem C19_pb_roundtrip :
  forall ctx fs, Forall wf_field fs -> pb_parse_at ctx (encode_fields fs) = Ok fs.
Proof. exact pb_parse_encode. Qed.
Print Assumptions C19_pb_roundtrip.

(* ---------------------------------------------------------------- Kademlia *)
Theorem C19_alloc_kad_message :
  forall b m, dec_kmsg b = Some m -> (size_kmsg m <= length b)%nat.
Proof. exact dec_kmsg_size. Qed.
Print Assumptions C19_alloc_kad_message.

Theorem C19_alloc_kad_peer_count :
  forall b m, dec_kmsg b = Some m ->
  (2 * (length (m_closer m) + length (m_provider m)) <= length b)%nat.
Proof. exact dec_kmsg_peers. Qed.
Print Assumptions C19_alloc_kad_peer_count.

(* |peers| <= replication factor, for every message kind, every oracle, every input *)
Theorem C19_kad_peers_cap :
  forall k o b r, kad_from_bytes k o b = Some r ->
  Forall (fun ps => (length ps <= k)%nat) (kad_peer_lists r).
Proof. exact kad_from_bytes_cap. Qed.
Print Assumptions C19_kad_peers_cap.

Theorem C19_roundtrip_kad_schema :
  forall m, wf_kmsg m -> dec_kmsg (enc_kmsg m) = Some m.
Proof. exact dec_enc_kmsg. Qed.
Print Assumptions C19_roundtrip_kad_schema.

Theorem C19_roundtrip_kad :
  forall k o m, wf_kmsg m -> kad_from_bytes k o (enc_kmsg m) = kad_of_kmsg k o m.
Proof. exact kad_roundtrip. Qed.
Print Assumptions C19_roundtrip_kad.

Theorem C19_roundtrip_find_node :
  forall k o key, wf_kmsg (msg_find_node key) ->
  kad_from_bytes k o (enc_kmsg (msg_find_node key)) = Some (KFindNode key []).
Proof. exact rt_find_node. Qed.
Print Assumptions C19_roundtrip_find_node.

Theorem C19_roundtrip_find_node_response :
  forall k o key ps, wf_kmsg (msg_find_node_response key ps) -> Forall (wf_kad_peer o) ps ->
  kad_from_bytes k o (enc_kmsg (msg_find_node_response key ps)) = Some (KFindNode key (firstn k ps)).
Proof. exact rt_find_node_response. Qed.
Print Assumptions C19_roundtrip_find_node_response.

Theorem C19_roundtrip_put_value :
  forall k o r, wf_kmsg (msg_put_value r) -> wf_krec r ->
  kad_from_bytes k o (enc_kmsg (msg_put_value r)) = Some (KPutValue r).
Proof. exact rt_put_value. Qed.
Print Assumptions C19_roundtrip_put_value.

Theorem C19_roundtrip_get_record :
  forall k o key, key <> [] -> wf_kmsg (msg_get_record key) ->
  kad_from_bytes k o (enc_kmsg (msg_get_record key)) = Some (KGetRecord (Some key) None []).
Proof. exact rt_get_record. Qed.
Print Assumptions C19_roundtrip_get_record.

Theorem C19_roundtrip_put_value_response :
  forall k o key value, wf_kmsg (msg_put_value_response key value) ->
  kad_from_bytes k o (enc_kmsg (msg_put_value_response key value)) = Some (KPutValue (mkRec key value None 0)).
Proof. exact rt_put_value_response. Qed.
Print Assumptions C19_roundtrip_put_value_response.

Theorem C19_roundtrip_get_value_response :
  forall k o key ps r, key <> [] ->
  wf_kmsg (msg_get_value_response key ps r) -> Forall (wf_kad_peer o) ps ->
  match r with Some r' => wf_krec r' | None => True end ->
  kad_from_bytes k o (enc_kmsg (msg_get_value_response key ps r)) = Some (KGetRecord (Some key) r (firstn k ps)).
Proof. exact rt_get_value_response. Qed.
Print Assumptions C19_roundtrip_get_value_response.

Theorem C19_roundtrip_add_provider :
  forall k o key p, key <> [] -> wf_kmsg (msg_add_provider key p) -> wf_kad_peer o p ->
  kad_from_bytes k o (enc_kmsg (msg_add_provider key p)) = Some (KAddProvider key (firstn k [p])).
Proof. exact rt_add_provider. Qed.
Print Assumptions C19_roundtrip_add_provider.

Theorem C19_roundtrip_get_providers_request :
  forall k o key, key <> [] -> wf_kmsg (msg_get_providers_request key) ->
  kad_from_bytes k o (enc_kmsg (msg_get_providers_request key)) = Some (KGetProviders (Some key) [] []).
Proof. exact rt_get_providers_request. Qed.
Print Assumptions C19_roundtrip_get_providers_request.

Theorem C19_roundtrip_get_providers_response :
  forall k o providers closer,
  wf_kmsg (msg_get_providers_response providers closer) ->
  Forall (wf_kad_peer o) providers -> Forall (wf_kad_peer o) closer ->
  kad_from_bytes k o (enc_kmsg (msg_get_providers_response providers closer)) =
  Some (KGetProviders None (firstn k closer) (firstn k providers)).
Proof. exact rt_get_providers_response. Qed.
Print Assumptions C19_roundtrip_get_providers_response.

(* ---------------------------------------------------------------- multistream-select *)
Theorem C19_multistream_fuel :
  forall b fuel, (length b < fuel)%nat ->
  V.C03.Model.parse_protos fuel b 0 [] = V.C03.Model.parse_protos (S (length b)) b 0 [].
Proof. exact decode_msg_fuel. Qed.
Print Assumptions C19_multistream_fuel.

Theorem C19_multistream_protocols_cap :
  forall b ps, V.C03.Model.decode_msg b = V.C03.Model.DOk (V.C03.Model.MProtos ps) ->
  N.of_nat (length ps) <= Consts.C03_MAX_PROTOCOLS.
Proof. exact decode_msg_cap. Qed.
Print Assumptions C19_multistream_protocols_cap.

Theorem C19_alloc_multistream :
  forall b m, V.C03.Model.decode_msg b = V.C03.Model.DOk m ->
  match m with
  | V.C03.Model.MProtos ps => (lsum (fun p => S (length p)) ps <= length b)%nat
  | V.C03.Model.MProto p => (length p <= length b)%nat
  | _ => True
  end.
Proof. exact decode_msg_size. Qed.
Print Assumptions C19_alloc_multistream.

(* the ls response: Message::decode (Message::encode (Protocols ps)) = Protocols ps for up to
   MAX_PROTOCOLS names accepted by Protocol::try_from (C03 leaves this message out of its codec
   theorem) *)
Theorem C19_roundtrip_multistream_protocols :
  forall ps, Forall wf_lsname ps -> N.of_nat (length ps) <= Consts.C03_MAX_PROTOCOLS ->
  V.C03.Model.decode_msg (V.C03.Model.encode_msg (V.C03.Model.MProtos ps)) = V.C03.Model.DOk (V.C03.Model.MProtos ps).
Proof. exact protocols_roundtrip. Qed.
Print Assumptions C19_roundtrip_multistream_protocols.

(* LengthDelimited: under every read script, the frame buffer is never sized above 16383 bytes
   and no frame longer than that is handed out *)
Theorem C19_length_delimited_frame_len :
  forall fuel st p st' p' r,
  st_ok st -> V.C03.Model.rd_poll fuel st p = (st', p', r) ->
  st_ok st' /\ (forall b, r = V.C03.Model.FFrame b -> V.C03.Model.len b <= 16383).
Proof. exact rd_poll_frame_len. Qed.
Print Assumptions C19_length_delimited_frame_len.

(* ---------------------------------------------------------------- message-based multistream (WebRTC) *)
(* decode_multistream_message: the message handed to Message::decode is a slice of the payload and
   the remainder is strictly shorter *)
Theorem C19_webrtc_decode_slice :
  forall data r rest, V.C03.Model.webrtc_decode1 data = Some (r, rest) ->
  exists l tail, V.C03.Model.uvi_dec data = Some (l, tail) /\ l <= V.C03.Model.len tail /\
    r = V.C03.Model.decode_msg (firstn (N.to_nat l) tail) /\ rest = skipn (N.to_nat l) tail /\
    (length rest < length data)%nat /\ (length (firstn (N.to_nat l) tail) < length data)%nat.
Proof. exact webrtc_decode1_spec. Qed.
Print Assumptions C19_webrtc_decode_slice.

(* every declared length that exceeds what is left is refused - including lengths within 10 of
   2^64, for which an `offset + len` computed in usize would wrap *)
Theorem C19_webrtc_truncated_rejected :
  forall data l tail, V.C03.Model.uvi_dec data = Some (l, tail) -> V.C03.Model.len tail < l ->
  V.C03.Model.webrtc_decode1 data = None.
Proof. exact webrtc_decode1_truncated. Qed.
Print Assumptions C19_webrtc_truncated_rejected.

(* register_response: the loop over the payload never runs out of the fuel S |payload| *)
Theorem C19_webrtc_dialer_fuel :
  forall f1 f2 proto w rem, (length rem < f1)%nat -> (length rem < f2)%nat ->
  V.C03.Model.webrtc_dialer_register f1 proto w rem = V.C03.Model.webrtc_dialer_register f2 proto w rem.
Proof. exact webrtc_dialer_fuel. Qed.
Print Assumptions C19_webrtc_dialer_fuel.

Theorem C19_webrtc_listener_reply_bound :
  forall names payload h,
  wl_reply_len (wl_negotiate names payload h) <= N.max V.C03.Model.MAX_FRAME (blen payload).
Proof. exact wl_negotiate_reply_bound. Qed.
Print Assumptions C19_webrtc_listener_reply_bound.

Theorem C19_alloc_webrtc_message :
  forall data m rest, V.C03.Model.webrtc_decode1 data = Some (V.C03.Model.DOk m, rest) ->
  match m with
  | V.C03.Model.MProtos ps => (lsum (fun p => S (length p)) ps <= length data)%nat
  | V.C03.Model.MProto p => (length p <= length data)%nat
  | _ => True
  end.
Proof. exact webrtc_decode1_alloc. Qed.
Print Assumptions C19_alloc_webrtc_message.

(* ---------------------------------------------------------------- substream frame lengths *)
Theorem C19_read_payload_size_ok :
  forall buf s n, read_payload_size buf = RpsOk s n -> s < 2 ^ 64 /\ 1 <= n /\ n <= 10.
Proof. exact read_payload_size_ok. Qed.
Print Assumptions C19_read_payload_size_ok.

Theorem C19_roundtrip_read_payload_size :
  forall n, n < 2 ^ 64 -> read_payload_size (encode n) = RpsOk n (blen (encode n)).
Proof. exact read_payload_size_encode. Qed.
Print Assumptions C19_roundtrip_read_payload_size.

Theorem C19_frames_total :
  forall max s, rv_status (recv_all max s) <> SFuel.
Proof. exact recv_all_total. Qed.
Print Assumptions C19_frames_total.

(* the length is compared with the configured maximum BEFORE the buffer is allocated: every
   allocation request and every frame is within the maximum, whatever the stream contains *)
Theorem C19_frame_alloc_checked_first :
  forall m s,
  Forall (fun a => a <= m) (rv_allocs (recv_all (Some m) s)) /\
  Forall (fun f => blen f <= m) (rv_frames (recv_all (Some m) s)).
Proof. exact recv_all_bounded. Qed.
Print Assumptions C19_frame_alloc_checked_first.

Theorem C19_frames_within_stream :
  forall max s, (lsum (@length N) (rv_frames (recv_all max s)) <= length s)%nat.
Proof. exact recv_all_within_stream. Qed.
Print Assumptions C19_frames_within_stream.

Theorem C19_roundtrip_frames :
  forall m fs, Forall (fun f => blen f <= m /\ blen f < 2 ^ 64) fs ->
  rv_frames (recv_all (Some m) (frames_of fs)) = fs /\ rv_status (recv_all (Some m) (frames_of fs)) = SEnd.
Proof. exact recv_all_roundtrip. Qed.
Print Assumptions C19_roundtrip_frames.

(* ---------------------------------------------------------------- keys, noise payload *)
Theorem C19_alloc_public_key :
  forall b m, dec_pubkey b = Some m -> (length (k_data m) <= length b)%nat.
Proof. exact dec_pubkey_size. Qed.
Print Assumptions C19_alloc_public_key.

Theorem C19_roundtrip_public_key_schema :
  forall m, k_type m < 2 ^ 32 -> wf_bytes (k_data m) -> dec_pubkey (enc_pubkey m) = Some m.
Proof. exact dec_enc_pubkey. Qed.
Print Assumptions C19_roundtrip_public_key_schema.

Theorem C19_roundtrip_public_key :
  forall o k, blen k = 32 -> orc_flag o 2 k = true -> remote_key o (key_to_protobuf k) = Some k.
Proof. exact remote_key_roundtrip. Qed.
Print Assumptions C19_roundtrip_public_key.

Theorem C19_alloc_noise_payload :
  forall b m, dec_noise b = Some m -> (size_noise m <= length b)%nat.
Proof. exact dec_noise_size. Qed.
Print Assumptions C19_alloc_noise_payload.

Theorem C19_roundtrip_noise_payload :
  forall m, wf_noise m -> dec_noise (enc_noise m) = Some m.
Proof. exact dec_enc_noise. Qed.
Print Assumptions C19_roundtrip_noise_payload.

(* ---------------------------------------------------------------- identify *)
Theorem C19_alloc_identify :
  forall b m, dec_identify b = Some m -> (size_identify m <= length b)%nat.
Proof. exact dec_identify_size. Qed.
Print Assumptions C19_alloc_identify.

Theorem C19_roundtrip_identify :
  forall m, wf_identify m -> dec_identify (enc_identify m) = Some m.
Proof. exact dec_enc_identify. Qed.
Print Assumptions C19_roundtrip_identify.

Theorem C19_identify_addresses_subset :
  forall o peer local b i, identify_response o peer local b = Some i ->
  exists m, dec_identify b = Some m /\ incl (ii_listen i) (i_listen m) /\
            (length (ii_listen i) <= length (i_listen m))%nat.
Proof. exact identify_response_listen. Qed.
Print Assumptions C19_identify_addresses_subset.

(* ---------------------------------------------------------------- bitswap *)
Theorem C19_alloc_bitswap :
  forall b m, dec_bs_msg b = Some m -> (size_bs m <= length b)%nat.
Proof. exact dec_bs_msg_size. Qed.
Print Assumptions C19_alloc_bitswap.

Theorem C19_roundtrip_bitswap :
  forall m, wf_bs m -> dec_bs_msg (enc_bs_msg m) = Some m.
Proof. exact dec_enc_bs_msg. Qed.
Print Assumptions C19_roundtrip_bitswap.

Theorem C19_roundtrip_prefix :
  forall p, px_version p <= 1 -> px_codec p < 2 ^ 64 -> px_mh_type p < 2 ^ 64 -> px_mh_len p < 256 ->
  prefix_from_bytes (prefix_to_bytes p) = Some p.
Proof. exact prefix_roundtrip. Qed.
Print Assumptions C19_roundtrip_prefix.

Theorem C19_prefix_fields_in_range :
  forall b p, prefix_from_bytes b = Some p ->
  px_version p <= 1 /\ px_codec p < 2 ^ 64 /\ px_mh_type p < 2 ^ 64 /\ px_mh_len p < 256.
Proof. exact prefix_from_bytes_fields. Qed.
Print Assumptions C19_prefix_fields_in_range.

(* ---------------------------------------------------------------- UTF-8, multihash, cid, multiaddr *)
(* the acceptor used for protobuf `string` fields (the model of core::str::from_utf8) accepts
   exactly the concatenations of shortest-form encodings of Unicode scalar values: no overlong
   forms, no surrogates, nothing above U+10FFFF, no stray or missing continuation bytes *)
Theorem C19_utf8_sound_complete :
  forall l, utf8_ok l = true <-> (exists cps, Forall scalar cps /\ l = flat_map utf8_encode cps).
Proof. exact utf8_sound_complete. Qed.
Print Assumptions C19_utf8_sound_complete.

(* Multihash::<64>::read: a header of 2..20 bytes, then at most 64 digest bytes out of the input *)
Theorem C19_alloc_multihash :
  forall b code d rest, mh_read b = Some (code, d, rest) ->
  exists hdr, b = hdr ++ d ++ rest /\ (2 <= length hdr <= 20)%nat /\ (length d <= 64)%nat.
Proof. exact mh_read_spec. Qed.
Print Assumptions C19_alloc_multihash.

(* Cid::read_bytes: the CID (as re-serialised) is no longer than the input and at most 104 bytes *)
Theorem C19_alloc_cid :
  forall b c, cid_read b = Some c -> (length c <= length b /\ length c <= 104)%nat.
Proof. exact cid_read_size. Qed.
Print Assumptions C19_alloc_cid.

(* Multiaddr::try_from: the component loop never runs out of the fuel S |input| ... *)
Theorem C19_maddr_total :
  forall b, maddr_parse b <> OutOfFuel.
Proof. exact maddr_parse_total. Qed.
Print Assumptions C19_maddr_total.

Theorem C19_maddr_fuel_irrelevant :
  forall b fuel, (length b < fuel)%nat -> maddr_parse_f fuel b = maddr_parse_f (S (length b)) b.
Proof. exact maddr_parse_fuel_irrelevant. Qed.
Print Assumptions C19_maddr_fuel_irrelevant.

(* ... and every length prefix inside it is bounded by what is left: the components (one unit
   each plus their data) fit in the input *)
Theorem C19_alloc_maddr :
  forall b cs, maddr_parse b = Ok cs -> (comps_size cs <= length b)%nat.
Proof. exact maddr_parse_size. Qed.
Print Assumptions C19_alloc_maddr.

(* ---------------------------------------------------------------- WebRTC message framing and webrtc.proto *)
Theorem C19_webrtc_frame_bounded :
  forall b body rest, webrtc_extract b = WfFrame body rest ->
  blen body <= WEBRTC_MAX_FRAME /\ exists pre, b = pre ++ body ++ rest /\ (1 <= length pre <= 10)%nat.
Proof. exact webrtc_extract_frame. Qed.
Print Assumptions C19_webrtc_frame_bounded.

Theorem C19_webrtc_oversized_rejected_first :
  forall pre rest, take_varint 10 (pre ++ rest) = Some (pre, rest) -> minimal pre = true ->
  WEBRTC_MAX_FRAME < value pre mod 2 ^ 64 -> webrtc_extract (pre ++ rest) = WfErr.
Proof. exact webrtc_extract_oversized. Qed.
Print Assumptions C19_webrtc_oversized_rejected_first.

Theorem C19_alloc_webrtc_proto :
  forall b m, dec_wr b = Some m -> (olen (wr_message m) <= length b)%nat.
Proof. exact dec_wr_size. Qed.
Print Assumptions C19_alloc_webrtc_proto.

Theorem C19_roundtrip_webrtc_message :
  forall payload flag rest,
  wf_bytes payload -> match flag with Some f => f < 4 | None => True end ->
  let body := encode_fields (fields_wr (mkWr flag (if is_nil payload then None else Some payload))) in
  blen body <= WEBRTC_MAX_FRAME ->
  webrtc_extract (webrtc_encode_message payload flag ++ rest) = WfFrame body rest /\
  webrtc_message body = Some (if is_nil payload then None else Some payload, flag).
Proof. exact webrtc_roundtrip. Qed.
Print Assumptions C19_roundtrip_webrtc_message.

(* ---------------------------------------------------------------- WebSocket adapter (BufferedStream over tungstenite) *)
(* reading terminates: the fuel |input|+1 is never the reason the reader stops *)
Theorem C19_ws_total :
  forall role b f, (length b < f)%nat -> ws_read f role None b [] = ws_run role b.
Proof. exact ws_run_fuel_irrelevant. Qed.
Print Assumptions C19_ws_total.

(* what is handed to the Noise layer never exceeds what arrived *)
Theorem C19_ws_delivered_bounded :
  forall role b, (length (ws_run role b) <= length b)%nat.
Proof. exact ws_run_size. Qed.
Print Assumptions C19_ws_delivered_bounded.

(* a frame header announcing more than the frame limit ends the stream before any payload byte
   is awaited (the limit is tungstenite's default 16 MiB: litep2p configures none) *)
Theorem C19_ws_oversized_checked_first :
  forall f role acc b out h r,
  ws_header b = Some (h, r) -> WS_MAX_FRAME < h_len h -> ws_read (S f) role acc b out = out.
Proof. exact ws_oversized_first. Qed.
Print Assumptions C19_ws_oversized_checked_first.

(* whatever the adapter writes (one Binary frame per write; a client masks with ANY 4-byte key),
   the adapter of the other role reads back *)
Theorem C19_ws_roundtrip :
  forall chunks mask,
  mask_ok mask -> Forall (fun c => blen c <= WS_MAX_FRAME) chunks ->
  ws_run (reader_of mask) (concat (map (ws_frame mask) chunks)) = concat chunks.
Proof. exact ws_run_roundtrip. Qed.
Print Assumptions C19_ws_roundtrip.

(* ---------------------------------------------------------------- Noise XX handshake *)
(* a handshake message is cut out of the stream exactly and is at most 65535 bytes long: the
   buffers of read_handshake_message are bounded by the width of the length prefix *)
Theorem C19_noise_frame_bounded :
  forall b m r, bytes_ok b = true -> hs_frame b = Some (m, r) ->
  blen m <= DecodeSites.SNOW_MAXMSGLEN /\ exists h l, b = h :: l :: m ++ r /\ blen m = h * 256 + l.
Proof. exact hs_frame_spec. Qed.
Print Assumptions C19_noise_frame_bounded.

Theorem C19_noise_raw_rejected :
  forall role b, noise_raw role b = 1 \/ noise_raw role b = 2.
Proof. exact noise_raw_rejects. Qed.
Print Assumptions C19_noise_raw_rejected.

Theorem C19_noise_identity_ok :
  forall o p t, noise_identity_result o p = 0 :: t ->
  exists m k pk sg,
    dec_noise p = Some m /\ n_key m = Some k /\ remote_key o k = Some pk /\ n_sig m = Some sg /\
    orc_flag o 7 (pk ++ sg) = true /\ t = blen (peer_of_ed25519 pk) :: peer_of_ed25519 pk.
Proof. exact noise_identity_ok. Qed.
Print Assumptions C19_noise_identity_ok.

Theorem C19_noise_length_lie_rejected :
  forall role o p d, d <> noise_msg_len role p ->
  noise_active role o p (Some d) = [1] \/ noise_active role o p (Some d) = [2].
Proof. exact noise_length_lie_rejected. Qed.
Print Assumptions C19_noise_length_lie_rejected.

(* ---------------------------------------------------------------- mDNS *)
Theorem C19_mdns_response_sound :
  forall user o answers extra a, In a (mdns_response user o answers extra) ->
  exists x vals v, In x extra /\ mx_txt x = Some vals /\ In v vals /\ orc_find o 6 v = Some (1 :: a).
Proof. exact mdns_response_sound. Qed.
Print Assumptions C19_mdns_response_sound.

Theorem C19_mdns_response_count :
  forall user o answers extra, (length (mdns_response user o answers extra) <= txt_count extra)%nat.
Proof. exact mdns_response_count. Qed.
Print Assumptions C19_mdns_response_count.

Theorem C19_mdns_own_name_ignored :
  forall user o answers extra,
  Forall (fun a => names_eqb (ma_name a) SERVICE_NAME = false \/ ma_ptr a = None \/ ma_ptr a = Some [user]) answers ->
  nlist_eqb user user = true -> mdns_response user o answers extra = [].
Proof. exact mdns_own_name_ignored. Qed.
Print Assumptions C19_mdns_own_name_ignored.

(* ---------------------------------------------------------------- the consumer stage *)
(* A decoder that returns a value on which the next line of the event loop panics is, for the
   node, a decoder that panics on remote bytes.  For every conversion of the crate that contains a
   panic path and can be reached by a decoded value (PanicSites.v, class PV) the theorems below
   show that the accepted set of the producing decoder implies the invariant that keeps it safe. *)

(* every byte string PeerId::from_bytes accepts is accepted by the multiaddr crate's PeerId: the
   `expect` of `From<PeerId> for multiaddr::PeerId` cannot fire on a decoded id (C18's model of
   litep2p's from_multihash and of libp2p-identity's) *)
Theorem C19_peer_id_convertible :
  forall b p, V.C18.Model.of_bytes b = Some p ->
  convertible p = true /\ convert_peer_id p = Some (V.C18.Model.to_bytes p).
Proof. intros b p H. split; [exact (peer_id_convertible _ _ H)|exact (convert_peer_id_bytes _ _ H)]. Qed.
Print Assumptions C19_peer_id_convertible.

(* ... and it is safe on exactly the multihashes litep2p's own from_multihash admits, so a decoder
   that admits more hands the event loops a value they panic on (witness: an identity multihash
   with a 43-byte digest parses as a Multihash<64>, is refused by from_bytes, and does not convert) *)
Theorem C19_conversion_boundary :
  (forall p, convertible p = V.C18.Model.admits p) /\
  (forall p, V.C18.Model.admits p = false -> convert_peer_id p = None) /\
  (let p := V.C18.Model.mkPid 0 (repeat 1 43) in
   V.C18.Model.mh_parse (V.C18.Model.mh_to_bytes p) = Some p /\ convert_peer_id p = None /\
   V.C18.Model.of_bytes (V.C18.Model.mh_to_bytes p) = None).
Proof.
  split; [exact convertible_iff_admits|]. split; [exact not_admitted_not_convertible|exact identity_43_not_convertible].
Qed.
Print Assumptions C19_conversion_boundary.

(* the id derived from an Ed25519 identity key (Noise / TLS handshake, the node's own key) converts *)
Theorem C19_ed25519_peer_convertible :
  forall k, length k = 32%nat -> convertible (ed25519_peer k) = true.
Proof. exact ed25519_peer_convertible. Qed.
Print Assumptions C19_ed25519_peer_convertible.

(* `Multihash::wrap(IDENTITY, key_enc).expect(..)` of from_public_key_protobuf: an inlined key
   encoding (<= MAX_INLINE_KEY_LENGTH, extracted from the source) fits the 64-byte multihash *)
Theorem C19_inline_key_fits : inline_fits = true.
Proof. exact inline_fits_true. Qed.
Print Assumptions C19_inline_key_fits.

(* whatever KademliaMessage::from_bytes lets through is usable by the event loop: every peer id in
   it (closer peers, providers, the publisher of the record) converts into a multiaddr::PeerId *)
Theorem C19_kad_decoded_usable :
  forall k o b m, kad_from_bytes k o b = Some m -> kad_usable m = true.
Proof. exact kad_from_bytes_usable. Qed.
Print Assumptions C19_kad_decoded_usable.

(* the peers update_routing_table hands to TransportService::add_known_address and
   RoutingTable::add_known_peer (both append /p2p/<peer> with `peer.into()`): decoded from the
   message, convertible, never the node itself, at most as many as were decoded (<= k) *)
Theorem C19_kad_update_peers_convertible :
  forall k o b m local from e p, kad_from_bytes k o b = Some m ->
  In e (kad_response local from m) -> In p (kev_pids e) -> convertible p = true.
Proof. intros k o b m local from e p H. exact (kad_response_pids local from m e p (kad_from_bytes_usable _ _ _ _ H)). Qed.
Print Assumptions C19_kad_update_peers_convertible.

Theorem C19_kad_update_peers_spec :
  forall local ps,
  (forall p, In p (update_peers local ps) -> In p (map kp_pid ps) /\ pid_is local p = false) /\
  (length (update_peers local ps) <= length ps)%nat.
Proof. intros local ps. split; [intros p; apply update_peers_spec|apply update_peers_length]. Qed.
Print Assumptions C19_kad_update_peers_spec.

(* a request: the ids in the events it causes are convertible, and it never makes the loop walk
   over the remote's peers (only the answer to one of the loop's own queries does) *)
Theorem C19_kad_request_events :
  forall k o b m from e, kad_from_bytes k o b = Some m -> In e (snd (kad_request from m)) ->
  (forall p, In p (kev_pids e) -> convertible p = true) /\
  match e with KevUpdate _ => False | _ => True end.
Proof.
  intros k o b m from e H He. split.
  - intros p. exact (kad_request_pids from m e p (kad_from_bytes_usable _ _ _ _ H) He).
  - exact (kad_request_no_update from m e He).
Qed.
Print Assumptions C19_kad_request_events.

(* `PeerId::try_from_multiaddr(record.address()).expect(..)` of dial_address: an address that
   AddressRecord::from_multiaddr keeps (it parsed and ends with /p2p) carries an id litep2p takes ... *)
Theorem C19_record_has_id_parsed :
  forall b cs, maddr_parse b = Ok cs -> V.C18.Addr.ends_with_p2p cs = true -> record_has_id b = true.
Proof. exact parsed_p2p_record_has_id. Qed.
Print Assumptions C19_record_has_id_parsed.

(* ... and so does an address to which /p2p/<peer> was appended for a decoded peer *)
Theorem C19_record_has_id_appended :
  forall b cs x p, maddr_parse b = Ok cs -> V.C18.Model.of_bytes x = Some p ->
  exists rb, V.C18.Addr.record_new_bytes p b = Some rb /\ record_has_id rb = true.
Proof. exact appended_record_has_id. Qed.
Print Assumptions C19_record_has_id_appended.

(* `protocols.get(&protocol).expect(..)` of accept_substream / ProtocolSet::protocol_codec: the
   message-based listener only ever accepts one of the names it was given *)
Theorem C19_negotiated_in_set :
  forall names payload hdr, negotiated_in_set names (wl_negotiate names payload hdr) = true.
Proof. exact negotiated_in_set_ok. Qed.
Print Assumptions C19_negotiated_in_set.

(* the WebSocket address parser accepts only host / tcp / ws-or-wss prefixes *)
Theorem C19_sock_parse_ws_shape :
  forall cs, sock_parse true cs = true ->
  exists h t w r, cs = h :: t :: w :: r /\ is_host (fst h) = true /\ fst t = TCP /\ is_ws (fst w) = true.
Proof. exact sock_parse_ws_implies_tcp_prefix. Qed.
Print Assumptions C19_sock_parse_ws_shape.

(* the panic-path inventory is the one of the source, every place a remote value can reach names
   a proved invariant and a harness kind with a consumer stage, and no call of the panicking
   peer-id conversion is left unexplained *)
Theorem C19_panic_sites_match :
  map PanicSites.site_of PanicSites.table = DecodeSites.panic_sites.
Proof. exact PanicSites.panic_sites_match. Qed.
Print Assumptions C19_panic_sites_match.

Theorem C19_panic_sites_classified :
  forallb PanicSites.entry_ok PanicSites.table = true /\
  forallb (fun e => negb (PanicSites.conversion_entry e) ||
                    match PanicSites.cls_of e with PanicSites.PV => true | PanicSites.PL => true | _ => false end)
          PanicSites.table = true.
Proof. split; [exact PanicSites.table_ok|exact PanicSites.conversions_have_invariants]. Qed.
Print Assumptions C19_panic_sites_classified.

(* ---------------------------------------------------------------- inventory ties (generated from the Rust source) *)
Theorem C19_sites_match :
  map (fun e => fst (fst e)) Sites.table = DecodeSites.sites.
Proof. exact Sites.sites_match. Qed.
Print Assumptions C19_sites_match.

Theorem C19_sites_kinds_ok : forallb Sites.entry_ok Sites.table = true.
Proof. exact Sites.table_kinds_ok. Qed.
Print Assumptions C19_sites_kinds_ok.

Theorem C19_codecs_match : map fst Sites.codec_table = DecodeSites.codecs.
Proof. exact Sites.codecs_match. Qed.
Print Assumptions C19_codecs_match.

Theorem C19_codecs_all_bounded : forallb Sites.codec_bounded DecodeSites.codecs = true.
Proof. exact Sites.codecs_all_bounded. Qed.
Print Assumptions C19_codecs_all_bounded.

Theorem C19_third_party_limits :
  Model.YAMUX_DEFAULT_CREDIT = DecodeSites.YAMUX_DEFAULT_CREDIT /\ DecodeSites.SNOW_MAXMSGLEN = 65535 /\
  WS_MAX_FRAME = 16777216 /\ WS_MAX_MESSAGE = 67108864 /\
  Protobuf.RECURSION_LIMIT = DecodeSites.PROST_RECURSION_LIMIT.
Proof. repeat split; reflexivity. Qed.

(* the multiaddr protocol table of the model lists exactly the protocol codes of the vendored crate *)
Theorem C19_maddr_codes_match :
  forallb (fun c => Sites.mem c DecodeSites.maddr_codes) (map fst proto_table) &&
  forallb (fun c => Sites.mem c (map fst proto_table)) DecodeSites.maddr_codes &&
  Nat.eqb (length proto_table) (length DecodeSites.maddr_codes) = true.
Proof. exact Sites.maddr_codes_match. Qed.
Print Assumptions C19_maddr_codes_match.
Print Assumptions C19_third_party_limits.

(* ---------------------------------------------------------------- yamux (third party): known finding class 1 *)
(* intended: the credit of a stream opened by WindowUpdate|SYN is computed for every u32 credit.
   Refuted on yamux 0.13.10 (`credit + DEFAULT_CREDIT` in u32): with overflow checks compiled in the
   connection task panics, without them the credit wraps.  Witness corpus/C19/yamux_syn_credit.case *)
Theorem C19_yamux_syn_credit_refuted :
  exists credit, credit < 2 ^ 32 /\ u32_add_checked credit YAMUX_DEFAULT_CREDIT = None /\
    yamux_syn_credit_overflow 2 [0; 1; 0; 1; 0; 0; 0; 1; 255; 255; 255; 255] = true.
Proof. exact yamux_syn_credit_refuted. Qed.
Print Assumptions C19_yamux_syn_credit_refuted.

Theorem C19_yamux_syn_credit_partial :
  forall credit, credit + YAMUX_DEFAULT_CREDIT < 2 ^ 32 ->
  u32_add_checked credit YAMUX_DEFAULT_CREDIT = Some (credit + YAMUX_DEFAULT_CREDIT).
Proof. exact yamux_syn_credit_partial. Qed.
Print Assumptions C19_yamux_syn_credit_partial.

(* ---------------------------------------------------------------- non-vacuity *)
(* a FIND_NODE response with one peer, decoded with replication factor 20 *)
Example C19_ex_kad :
  let pid := V.C18.Model.mkPid 18 (repeat 7 32) in
  let p := mkKadPeer pid [[4; 10; 0; 0; 1; 6; 0; 80]] 1 in
  kad_from_bytes 20 [(1, [4; 10; 0; 0; 1; 6; 0; 80], [1])] (enc_kmsg (msg_find_node_response [1; 2; 3] [p]))
  = Some (KFindNode [1; 2; 3] [p]).
Proof. vm_compute. reflexivity. Qed.

(* an unknown group nested 101 deep is rejected (prost's recursion limit), 100 deep is skipped *)
Example C19_ex_depth :
  let bomb d := repeat 123 d ++ repeat 124 d in
  pb_parse (bomb 100%nat) = Ok [(15, WGroup)] /\ pb_parse (bomb 101%nat) = Err.
Proof. split; vm_compute; reflexivity. Qed.

(* without a configured maximum (ProtocolCodec::UnsignedVarint(None), not used by any built-in
   protocol) ten bytes of input request a 2^63-byte buffer *)
Example C19_ex_unbounded_without_limit :
  rv_allocs (recv_all None [128; 128; 128; 128; 128; 128; 128; 128; 128; 1]) = [2 ^ 63].
Proof. exact recv_unbounded_without_limit. Qed.

Example C19_ex_frame_rejected_before_alloc :
  recv_all (Some 64) [65; 1; 2; 3] = mkRecv [] [] SFail.
Proof. vm_compute. reflexivity. Qed.

(* a length prefix of 2^64-1 (usize::MAX), as first message and after a valid header: ParseError *)
Example C19_ex_webrtc_extreme_length :
  let big := [255; 255; 255; 255; 255; 255; 255; 255; 255; 1] in
  let hdr := 19 :: V.C03.Model.MSG_HEADER in
  wl_negotiate [[47; 97]] (big ++ [47; 97; 10]) false = V.C03.Model.WLErr 1 /\
  wl_negotiate [[47; 97]] (hdr ++ big ++ [47; 97; 10]) false = V.C03.Model.WLErr 1 /\
  run_regs [47; 97] false [hdr ++ big] = [11].
Proof. repeat split; vm_compute; reflexivity. Qed.

(* /ip4/10.0.0.1/tcp/80/p2p/<sha256 id>: three components; a /dns with a length beyond the input is refused *)
Example C19_ex_maddr :
  maddr_parse ([4; 10; 0; 0; 1; 6; 0; 80; 165; 3; 34; 18; 32] ++ repeat 7 32) =
    Ok [(4, [10; 0; 0; 1]); (6, [0; 80]); (421, [18; 32] ++ repeat 7 32)] /\
  maddr_parse [53; 255; 255; 255; 255; 255; 255; 255; 255; 255; 1; 97] = Err.
Proof. split; vm_compute; reflexivity. Qed.

Example C19_ex_utf8 :
  utf8_ok [237; 159; 191] = true /\ utf8_ok [237; 160; 128] = false /\   (* U+D7FF yes, surrogate U+D800 no *)
  utf8_ok [192; 128] = false /\ utf8_ok [244; 143; 191; 191] = true /\ utf8_ok [244; 144; 128; 128] = false.
Proof. repeat split; vm_compute; reflexivity. Qed.

(* a masked "hi" from a client, then a frame announcing 16 MiB + 1: "hi" is delivered, nothing else *)
Example C19_ex_ws :
  ws_run WsServer ([130; 130; 1; 2; 3; 4; 105; 107] ++ [130; 255; 0; 0; 0; 0; 1; 0; 0; 1; 9; 9; 9; 9; 7; 7]) = [104; 105] /\
  ws_run WsServer (ws_frame (Some [9; 8; 7; 6]) [104; 105]) = [104; 105] /\
  ws_run WsClient [130; 130; 1; 2; 3; 4; 105; 107] = [].
Proof. vm_compute. repeat split; reflexivity. Qed.

(* listener: a 32-byte first message is accepted, the third one cannot decrypt; 31 bytes are refused;
   a message shorter than announced is an I/O error *)
Example C19_ex_noise_raw :
  noise_raw 1 ([0; 32] ++ repeat 7 32 ++ [0; 48] ++ repeat 7 48) = 1 /\
  noise_raw 1 ([0; 31] ++ repeat 7 31) = 1 /\ noise_raw 1 ([0; 32] ++ repeat 7 31) = 2 /\ noise_raw 0 [255] = 2.
Proof. vm_compute. repeat split; reflexivity. Qed.

(* a response whose only PTR answer points at "peer": the TXT value of the matching record is reported *)
Example C19_ex_mdns :
  mdns_response [117] [(6, [47], [1; 4; 1; 2; 3; 4])]
    [mkMdAns SERVICE_NAME (Some [[112]])] [mkMdExtra [[112]] (Some [[47]; [120]]); mkMdExtra [[113]] (Some [[47]])]
  = [[4; 1; 2; 3; 4]].
Proof. vm_compute. reflexivity. Qed.

(* the panic-path inventory: how many sites of each class *)
Example C19_ex_panic_inventory :
  (PanicSites.count PanicSites.PV, PanicSites.count PanicSites.PS, PanicSites.count PanicSites.PL,
   PanicSites.count PanicSites.PE, PanicSites.count PanicSites.PT) = (15, 32, 45, 15, 3)%nat.
Proof. vm_compute. reflexivity. Qed.

(* the consumer stage of a FIND_NODE reply with one peer: the loop answers a request with an empty
   reply and walks over the peer only when the message answers one of its own queries *)
Example C19_ex_kad_consume :
  let p := mkKadPeer (V.C18.Model.mkPid 18 (repeat 1 32)) [] 0 in
  let m := KFindNode [97] [p] in
  kad_request None m = (Some (enc_kmsg (msg_find_node_response [97] [])), []) /\
  kad_response None None m = [KevUpdate [V.C18.Model.mkPid 18 (repeat 1 32)]] /\
  kad_response (Some (V.C18.Model.mkPid 18 (repeat 1 32))) None m = [KevUpdate []].
Proof. vm_compute. repeat split; reflexivity. Qed.

(* the inventory: how many sites of each class *)
Example C19_ex_inventory :
  (Sites.count Sites.M, Sites.count Sites.D, Sites.count Sites.H, Sites.count Sites.X, Sites.count Sites.NW)
  = (125, 2, 19, 16, 77)%nat.
Proof. vm_compute. reflexivity. Qed.
