(* C19 — inventory tie: every place of the crate where bytes are parsed, sliced or size an
   allocation (coq/gen/DecodeSites.v, generated from the Rust source on every check by
   tools/gen_c19_sites.py) with its classification:
     M   driven by the harness kind `hk` AND modelled in Coq with theorems (named in the comment)
     D   in the model / hook as a transcription, only diffed
     H   driven by the harness, the parser itself is third party and opaque: "returns, no panic,
         allocation within the bound", result taken from the oracle dictionary where one is needed
     X   not covered
     NW  the token is not fed by bytes from the network (encoder, constant, local configuration)
   `sites_match` fails as soon as the source gains, loses or moves a site: the new site has to be
   classified here (and driven) before ./check C19 passes again.  `codecs_match` /
   `codecs_all_bounded` do the same for the frame limit every protocol configures.
   `python3 tools/gen_c19_sites.py --table` prints this table joined with source lines. *)
From Coq Require Import List NArith Bool String.
From V.gen Require Consts DecodeSites.
From V.common Require Protobuf.
From V.C19 Require Formats Model Net.
Import ListNotations.
Open Scope string_scope.
Open Scope N_scope.

Inductive cls := M | D | H | X | NW.

Definition table : list ((string * string * N) * cls * N) :=
  [
   (("src/codec/identity.rs", "decode", 13), NW, 0); (* cursor: codec module is used only by the uncompiled s2n-quic transport and by tests *)
   (("src/codec/unsigned_varint.rs", "-", 7), NW, 0); (* varint: codec module is used only by the uncompiled s2n-quic transport and by tests *)
   (("src/codec/unsigned_varint.rs", "decode", 1), NW, 0); (* decode: codec module is used only by the uncompiled s2n-quic transport and by tests *)
   (("src/codec/unsigned_varint.rs", "decode", 1), NW, 0); (* decode: codec module is used only by the uncompiled s2n-quic transport and by tests *)
   (("src/codec/unsigned_varint.rs", "decode", 7), NW, 0); (* varint: codec module is used only by the uncompiled s2n-quic transport and by tests *)
   (("src/codec/unsigned_varint.rs", "encode", 10), NW, 0); (* with_capacity: codec module is used only by the uncompiled s2n-quic transport and by tests *)
   (("src/codec/unsigned_varint.rs", "new", 7), NW, 0); (* varint: codec module is used only by the uncompiled s2n-quic transport and by tests *)
   (("src/codec/unsigned_varint.rs", "with_max_size", 7), NW, 0); (* varint: codec module is used only by the uncompiled s2n-quic transport and by tests *)
   (("src/crypto/ed25519.rs", "from", 2), NW, 0); (* from_bytes: local secret key *)
   (("src/crypto/ed25519.rs", "try_from_bytes", 2), H, 5); (* from_bytes: ed25519-dalek point check: oracle dictionary kind 2, reached by kinds 5 6 22 *)
   (("src/crypto/ed25519.rs", "verify", 3), H, 22); (* try_from: ed25519-dalek signature parse + verify: oracle dictionary kind 7 (kind 22 active) *)
   (("src/crypto/mod.rs", "from_protobuf_encoding", 1), M, 5); (* decode: RemotePublicKey::from_protobuf_encoding: C19_alloc_public_key, C19_roundtrip_public_key *)
   (("src/crypto/mod.rs", "from_protobuf_encoding", 3), M, 5); (* try_from: RemotePublicKey::from_protobuf_encoding: C19_alloc_public_key, C19_roundtrip_public_key *)
   (("src/crypto/mod.rs", "to_protobuf_encoding", 10), NW, 0); (* with_capacity: encoder / local value, not fed by wire bytes *)
   (("src/crypto/mod.rs", "try_from", 2), M, 5); (* from_bytes: RemotePublicKey::from_protobuf_encoding: C19_alloc_public_key, C19_roundtrip_public_key *)
   (("src/crypto/mod.rs", "try_from", 2), M, 5); (* from_bytes: RemotePublicKey::from_protobuf_encoding: C19_alloc_public_key, C19_roundtrip_public_key *)
   (("src/crypto/mod.rs", "try_from", 3), M, 5); (* try_from: RemotePublicKey::from_protobuf_encoding: C19_alloc_public_key, C19_roundtrip_public_key *)
   (("src/crypto/mod.rs", "try_from", 3), M, 5); (* try_from: RemotePublicKey::from_protobuf_encoding: C19_alloc_public_key, C19_roundtrip_public_key *)
   (("src/crypto/noise/mod.rs", "assemble", 10), NW, 0); (* with_capacity: encoder / local value, not fed by wire bytes *)
   (("src/crypto/noise/mod.rs", "first_message", 11), NW, 0); (* vec_n: encoder / local value, not fed by wire bytes *)
   (("src/crypto/noise/mod.rs", "first_message", 13), NW, 0); (* cursor: encoder / local value, not fed by wire bytes *)
   (("src/crypto/noise/mod.rs", "get_remote_peer_id", 1), M, 25); (* decode: WebRTC Noise reply: model Net.webrtc_noise_reply (feature worker); payload part as kind 6 *)
   (("src/crypto/noise/mod.rs", "get_remote_peer_id", 2), M, 25); (* from_bytes: u16::from_be_bytes of the two length bytes: model Net.webrtc_noise_reply (feature worker) *)
   (("src/crypto/noise/mod.rs", "get_remote_peer_id", 3), M, 25); (* try_from: WebRTC Noise reply: model Net.webrtc_noise_reply (feature worker); payload part as kind 6 *)
   (("src/crypto/noise/mod.rs", "get_remote_peer_id", 4), M, 25); (* parse: WebRTC Noise reply: model Net.webrtc_noise_reply (feature worker); payload part as kind 6 *)
   (("src/crypto/noise/mod.rs", "get_remote_peer_id", 5), M, 25); (* read_: WebRTC Noise reply: model Net.webrtc_noise_reply (feature worker); payload part as kind 6 *)
   (("src/crypto/noise/mod.rs", "get_remote_peer_id", 11), M, 25); (* vec_n: WebRTC Noise reply: model Net.webrtc_noise_reply (feature worker); payload part as kind 6 *)
   (("src/crypto/noise/mod.rs", "get_remote_peer_id", 13), M, 25); (* cursor: WebRTC Noise reply: model Net.webrtc_noise_reply (feature worker); payload part as kind 6 *)
   (("src/crypto/noise/mod.rs", "get_remote_peer_id", 13), M, 25); (* cursor: WebRTC Noise reply: model Net.webrtc_noise_reply (feature worker); payload part as kind 6 *)
   (("src/crypto/noise/mod.rs", "handshake", 1), M, 22); (* decode: C19_noise_frame_bounded, C19_noise_raw_rejected, C19_noise_identity_ok, C19_noise_length_lie_rejected *)
   (("src/crypto/noise/mod.rs", "handshake", 1), M, 22); (* decode: C19_noise_frame_bounded, C19_noise_raw_rejected, C19_noise_identity_ok, C19_noise_length_lie_rejected *)
   (("src/crypto/noise/mod.rs", "handshake", 4), M, 22); (* parse: C19_noise_frame_bounded, C19_noise_raw_rejected, C19_noise_identity_ok, C19_noise_length_lie_rejected *)
   (("src/crypto/noise/mod.rs", "handshake", 5), M, 22); (* read_: C19_noise_frame_bounded, C19_noise_raw_rejected, C19_noise_identity_ok, C19_noise_length_lie_rejected *)
   (("src/crypto/noise/mod.rs", "handshake", 5), M, 22); (* read_: C19_noise_frame_bounded, C19_noise_raw_rejected, C19_noise_identity_ok, C19_noise_length_lie_rejected *)
   (("src/crypto/noise/mod.rs", "handshake", 5), M, 22); (* read_: C19_noise_frame_bounded, C19_noise_raw_rejected, C19_noise_identity_ok, C19_noise_length_lie_rejected *)
   (("src/crypto/noise/mod.rs", "new", 4), NW, 0); (* parse: constant Noise pattern string *)
   (("src/crypto/noise/mod.rs", "new", 11), M, 14); (* vec_n: NoiseSocket buffers: sizes pinned by the C02 model (embedded kind 14) *)
   (("src/crypto/noise/mod.rs", "new", 11), M, 14); (* vec_n: NoiseSocket buffers: sizes pinned by the C02 model (embedded kind 14) *)
   (("src/crypto/noise/mod.rs", "new", 11), M, 14); (* vec_n: NoiseSocket buffers: sizes pinned by the C02 model (embedded kind 14) *)
   (("src/crypto/noise/mod.rs", "parse_and_verify_peer_id", 6), M, 6); (* protobuf: C19_alloc_noise_payload + kinds 6 and 22 (active) *)
   (("src/crypto/noise/mod.rs", "poll_flush", 14), NW, 0); (* slice: encoder / local value, not fed by wire bytes *)
   (("src/crypto/noise/mod.rs", "poll_read", 5), M, 14); (* read_: Noise transport frames: C02 model and theorems, embedded kind 14 *)
   (("src/crypto/noise/mod.rs", "poll_read", 5), M, 14); (* read_: Noise transport frames: C02 model and theorems, embedded kind 14 *)
   (("src/crypto/noise/mod.rs", "poll_read", 14), M, 14); (* slice: Noise transport frames: C02 model and theorems, embedded kind 14 *)
   (("src/crypto/noise/mod.rs", "poll_read", 14), M, 14); (* slice: Noise transport frames: C02 model and theorems, embedded kind 14 *)
   (("src/crypto/noise/mod.rs", "poll_read", 14), M, 14); (* slice: Noise transport frames: C02 model and theorems, embedded kind 14 *)
   (("src/crypto/noise/mod.rs", "poll_read", 14), M, 14); (* slice: Noise transport frames: C02 model and theorems, embedded kind 14 *)
   (("src/crypto/noise/mod.rs", "poll_read", 14), M, 14); (* slice: Noise transport frames: C02 model and theorems, embedded kind 14 *)
   (("src/crypto/noise/mod.rs", "poll_read", 14), M, 14); (* slice: Noise transport frames: C02 model and theorems, embedded kind 14 *)
   (("src/crypto/noise/mod.rs", "poll_read", 14), M, 14); (* slice: Noise transport frames: C02 model and theorems, embedded kind 14 *)
   (("src/crypto/noise/mod.rs", "poll_read", 14), M, 14); (* slice: Noise transport frames: C02 model and theorems, embedded kind 14 *)
   (("src/crypto/noise/mod.rs", "poll_read", 14), M, 14); (* slice: Noise transport frames: C02 model and theorems, embedded kind 14 *)
   (("src/crypto/noise/mod.rs", "poll_write", 14), NW, 0); (* slice: encoder / local value, not fed by wire bytes *)
   (("src/crypto/noise/mod.rs", "poll_write", 14), NW, 0); (* slice: encoder / local value, not fed by wire bytes *)
   (("src/crypto/noise/mod.rs", "read_handshake_message", 5), M, 22); (* read_: C19_noise_frame_bounded, C19_noise_raw_rejected, C19_noise_identity_ok, C19_noise_length_lie_rejected *)
   (("src/crypto/noise/mod.rs", "read_handshake_message", 5), M, 22); (* read_: C19_noise_frame_bounded, C19_noise_raw_rejected, C19_noise_identity_ok, C19_noise_length_lie_rejected *)
   (("src/crypto/noise/mod.rs", "read_handshake_message", 5), M, 22); (* read_: C19_noise_frame_bounded, C19_noise_raw_rejected, C19_noise_identity_ok, C19_noise_length_lie_rejected *)
   (("src/crypto/noise/mod.rs", "read_handshake_message", 12), M, 22); (* grow: C19_noise_frame_bounded, C19_noise_raw_rejected, C19_noise_identity_ok, C19_noise_length_lie_rejected *)
   (("src/crypto/noise/mod.rs", "read_handshake_message", 12), M, 22); (* grow: C19_noise_frame_bounded, C19_noise_raw_rejected, C19_noise_identity_ok, C19_noise_length_lie_rejected *)
   (("src/crypto/noise/mod.rs", "read_handshake_message", 12), M, 22); (* grow: C19_noise_frame_bounded, C19_noise_raw_rejected, C19_noise_identity_ok, C19_noise_length_lie_rejected *)
   (("src/crypto/noise/mod.rs", "read_handshake_message", 13), M, 22); (* cursor: C19_noise_frame_bounded, C19_noise_raw_rejected, C19_noise_identity_ok, C19_noise_length_lie_rejected *)
   (("src/crypto/noise/mod.rs", "read_handshake_message", 13), M, 22); (* cursor: C19_noise_frame_bounded, C19_noise_raw_rejected, C19_noise_identity_ok, C19_noise_length_lie_rejected *)
   (("src/crypto/noise/mod.rs", "read_message", 5), M, 14); (* read_: Noise transport frames: C02 model and theorems, embedded kind 14 *)
   (("src/crypto/noise/mod.rs", "read_message", 5), M, 14); (* read_: Noise transport frames: C02 model and theorems, embedded kind 14 *)
   (("src/crypto/noise/mod.rs", "second_message", 11), NW, 0); (* vec_n: encoder / local value, not fed by wire bytes *)
   (("src/crypto/noise/mod.rs", "second_message", 13), NW, 0); (* cursor: encoder / local value, not fed by wire bytes *)
   (("src/crypto/noise/mod.rs", "with_prologue", 4), NW, 0); (* parse: constant Noise pattern string *)
   (("src/crypto/noise/x25519_spec.rs", "dh", 14), H, 22); (* slice: fixed 32-byte keys handed over by snow; run by every kind-22 / kind-14 handshake *)
   (("src/crypto/noise/x25519_spec.rs", "dh", 14), H, 22); (* slice: fixed 32-byte keys handed over by snow; run by every kind-22 / kind-14 handshake *)
   (("src/crypto/tls/certificate.rs", "parse", 4), H, 18); (* parse: x509-parser / webpki / yasna: opaque, feature worker kind 18 (thorough tier) *)
   (("src/crypto/tls/certificate.rs", "parse_unverified", 1), H, 18); (* decode: x509-parser / webpki / yasna: opaque, feature worker kind 18 (thorough tier) *)
   (("src/crypto/tls/certificate.rs", "parse_unverified", 6), H, 18); (* protobuf: x509-parser / webpki / yasna: opaque, feature worker kind 18 (thorough tier) *)
   (("src/crypto/tls/certificate.rs", "signature_scheme", 3), H, 18); (* try_from: x509-parser / webpki / yasna: opaque, feature worker kind 18 (thorough tier) *)
   (("src/crypto/tls/verifier.rs", "verify_presented_certs", 4), H, 18); (* parse: x509-parser / webpki / yasna: opaque, feature worker kind 18 (thorough tier) *)
   (("src/crypto/tls/verifier.rs", "verify_tls13_signature", 4), H, 18); (* parse: x509-parser / webpki / yasna: opaque, feature worker kind 18 (thorough tier) *)
   (("src/lib.rs", "new", 5), NW, 0); (* read_: local resolver configuration file *)
   (("src/multistream_select/dialer_select.rs", "poll", 3), M, 16); (* try_from: DialerSelectFuture (C03 model, embedded kind 16) *)
   (("src/multistream_select/dialer_select.rs", "poll", 8), NW, 0); (* utf8: log output only (from_utf8_lossy) *)
   (("src/multistream_select/dialer_select.rs", "propose", 3), NW, 0); (* try_from: local protocol names *)
   (("src/multistream_select/dialer_select.rs", "propose_next_fallback", 3), NW, 0); (* try_from: local protocol names *)
   (("src/multistream_select/dialer_select.rs", "register_response", 1), M, 13); (* decode: C19_webrtc_dialer_fuel, C19_webrtc_decode_slice *)
   (("src/multistream_select/dialer_select.rs", "register_response", 7), M, 13); (* varint: C19_webrtc_dialer_fuel, C19_webrtc_decode_slice *)
   (("src/multistream_select/dialer_select.rs", "register_response", 13), M, 13); (* cursor: C19_webrtc_dialer_fuel, C19_webrtc_decode_slice *)
   (("src/multistream_select/dialer_select.rs", "register_response", 13), M, 13); (* cursor: C19_webrtc_dialer_fuel, C19_webrtc_decode_slice *)
   (("src/multistream_select/length_delimited.rs", "new", 10), M, 16); (* with_capacity: LengthDelimited buffers (C03 model, embedded kind 16) *)
   (("src/multistream_select/length_delimited.rs", "new", 10), M, 16); (* with_capacity: LengthDelimited buffers (C03 model, embedded kind 16) *)
   (("src/multistream_select/length_delimited.rs", "poll_next", 7), M, 16); (* varint: C19_length_delimited_frame_len + C03 model (embedded kind 16) *)
   (("src/multistream_select/length_delimited.rs", "poll_next", 12), M, 16); (* grow: C19_length_delimited_frame_len + C03 model (embedded kind 16) *)
   (("src/multistream_select/length_delimited.rs", "poll_next", 13), M, 16); (* cursor: C19_length_delimited_frame_len + C03 model (embedded kind 16) *)
   (("src/multistream_select/length_delimited.rs", "poll_next", 14), M, 16); (* slice: C19_length_delimited_frame_len + C03 model (embedded kind 16) *)
   (("src/multistream_select/length_delimited.rs", "poll_next", 14), M, 16); (* slice: C19_length_delimited_frame_len + C03 model (embedded kind 16) *)
   (("src/multistream_select/length_delimited.rs", "poll_write_buffer", 13), NW, 0); (* cursor: encoder / local value, not fed by wire bytes *)
   (("src/multistream_select/length_delimited.rs", "start_send", 3), NW, 0); (* try_from: encoder / local value, not fed by wire bytes *)
   (("src/multistream_select/length_delimited.rs", "start_send", 12), NW, 0); (* grow: encoder / local value, not fed by wire bytes *)
   (("src/multistream_select/listener_select.rs", "decode_multistream_message", 1), M, 12); (* decode: C19_webrtc_decode_slice, C19_webrtc_truncated_rejected, C19_webrtc_listener_reply_bound *)
   (("src/multistream_select/listener_select.rs", "decode_multistream_message", 7), M, 12); (* varint: C19_webrtc_decode_slice, C19_webrtc_truncated_rejected, C19_webrtc_listener_reply_bound *)
   (("src/multistream_select/listener_select.rs", "listener_select_proto", 3), NW, 0); (* try_from: local protocol names *)
   (("src/multistream_select/listener_select.rs", "listener_select_proto", 8), NW, 0); (* utf8: local protocol names *)
   (("src/multistream_select/listener_select.rs", "poll", 8), NW, 0); (* utf8: log output only (from_utf8_lossy) *)
   (("src/multistream_select/listener_select.rs", "poll", 8), NW, 0); (* utf8: log output only (from_utf8_lossy) *)
   (("src/multistream_select/listener_select.rs", "webrtc_listener_negotiate", 8), NW, 0); (* utf8: log output only (from_utf8_lossy) *)
   (("src/multistream_select/protocol.rs", "decode", 3), M, 2); (* try_from: Message::decode: C19_multistream_fuel, _protocols_cap, C19_alloc_multistream, C19_roundtrip_multistream_protocols *)
   (("src/multistream_select/protocol.rs", "decode", 3), M, 2); (* try_from: Message::decode: C19_multistream_fuel, _protocols_cap, C19_alloc_multistream, C19_roundtrip_multistream_protocols *)
   (("src/multistream_select/protocol.rs", "decode", 7), M, 2); (* varint: Message::decode: C19_multistream_fuel, _protocols_cap, C19_alloc_multistream, C19_roundtrip_multistream_protocols *)
   (("src/multistream_select/protocol.rs", "decode", 13), M, 2); (* cursor: Message::decode: C19_multistream_fuel, _protocols_cap, C19_alloc_multistream, C19_roundtrip_multistream_protocols *)
   (("src/multistream_select/protocol.rs", "decode", 14), M, 2); (* slice: Message::decode: C19_multistream_fuel, _protocols_cap, C19_alloc_multistream, C19_roundtrip_multistream_protocols *)
   (("src/multistream_select/protocol.rs", "decode", 14), M, 2); (* slice: Message::decode: C19_multistream_fuel, _protocols_cap, C19_alloc_multistream, C19_roundtrip_multistream_protocols *)
   (("src/multistream_select/protocol.rs", "decode", 14), M, 2); (* slice: Message::decode: C19_multistream_fuel, _protocols_cap, C19_alloc_multistream, C19_roundtrip_multistream_protocols *)
   (("src/multistream_select/protocol.rs", "encode", 10), NW, 0); (* with_capacity: encoder / local value, not fed by wire bytes *)
   (("src/multistream_select/protocol.rs", "encode", 12), NW, 0); (* grow: encoder / local value, not fed by wire bytes *)
   (("src/multistream_select/protocol.rs", "encode", 12), NW, 0); (* grow: encoder / local value, not fed by wire bytes *)
   (("src/multistream_select/protocol.rs", "encode", 12), NW, 0); (* grow: encoder / local value, not fed by wire bytes *)
   (("src/multistream_select/protocol.rs", "encode", 12), NW, 0); (* grow: encoder / local value, not fed by wire bytes *)
   (("src/multistream_select/protocol.rs", "encode", 12), NW, 0); (* grow: encoder / local value, not fed by wire bytes *)
   (("src/multistream_select/protocol.rs", "fmt", 8), NW, 0); (* utf8: encoder / local value, not fed by wire bytes *)
   (("src/multistream_select/protocol.rs", "poll_stream", 1), M, 16); (* decode: MessageIO over LengthDelimited: C03 model (embedded kind 16) *)
   (("src/multistream_select/protocol.rs", "try_from", 3), M, 2); (* try_from: Protocol::try_from inside Message::decode *)
   (("src/multistream_select/protocol.rs", "webrtc_encode_multistream_message", 10), NW, 0); (* with_capacity: encoder / local value, not fed by wire bytes *)
   (("src/peer_id.rs", "from_bytes", 2), M, 10); (* from_bytes: PeerId::from_bytes: C18 model, C19_alloc_multihash *)
   (("src/peer_id.rs", "from_str", 1), NW, 0); (* decode: text / serde forms of a peer id: user input, not wire bytes of the transports *)
   (("src/peer_id.rs", "from_str", 2), NW, 0); (* from_bytes: text / serde forms of a peer id: user input, not wire bytes of the transports *)
   (("src/peer_id.rs", "to_multiaddr_peer_id", 3), NW, 0); (* try_from: a PeerId that already exists *)
   (("src/peer_id.rs", "try_from", 2), M, 10); (* from_bytes: PeerId::try_from(Vec<u8>) = from_bytes *)
   (("src/peer_id.rs", "visit_bytes", 2), NW, 0); (* from_bytes: text / serde forms of a peer id: user input, not wire bytes of the transports *)
   (("src/peer_id.rs", "visit_str", 9), NW, 0); (* from_str: text / serde forms of a peer id: user input, not wire bytes of the transports *)
   (("src/protocol/libp2p/bitswap/mod.rs", "block_to_response", 2), M, 8); (* from_bytes: bitswap message through the real Bitswap::run loop: C19_alloc_bitswap, C19_alloc_cid *)
   (("src/protocol/libp2p/bitswap/mod.rs", "block_to_response", 3), M, 8); (* try_from: bitswap message through the real Bitswap::run loop: C19_alloc_bitswap, C19_alloc_cid *)
   (("src/protocol/libp2p/bitswap/mod.rs", "from_bytes", 3), M, 9); (* try_from: Prefix::from_bytes: C19_roundtrip_prefix, C19_prefix_fields_in_range *)
   (("src/protocol/libp2p/bitswap/mod.rs", "from_bytes", 3), M, 9); (* try_from: Prefix::from_bytes: C19_roundtrip_prefix, C19_prefix_fields_in_range *)
   (("src/protocol/libp2p/bitswap/mod.rs", "from_bytes", 7), M, 9); (* varint: Prefix::from_bytes: C19_roundtrip_prefix, C19_prefix_fields_in_range *)
   (("src/protocol/libp2p/bitswap/mod.rs", "from_bytes", 7), M, 9); (* varint: Prefix::from_bytes: C19_roundtrip_prefix, C19_prefix_fields_in_range *)
   (("src/protocol/libp2p/bitswap/mod.rs", "from_bytes", 7), M, 9); (* varint: Prefix::from_bytes: C19_roundtrip_prefix, C19_prefix_fields_in_range *)
   (("src/protocol/libp2p/bitswap/mod.rs", "from_bytes", 7), M, 9); (* varint: Prefix::from_bytes: C19_roundtrip_prefix, C19_prefix_fields_in_range *)
   (("src/protocol/libp2p/bitswap/mod.rs", "on_message_received", 1), M, 8); (* decode: bitswap message through the real Bitswap::run loop: C19_alloc_bitswap, C19_alloc_cid *)
   (("src/protocol/libp2p/bitswap/mod.rs", "on_message_received", 5), M, 8); (* read_: bitswap message through the real Bitswap::run loop: C19_alloc_bitswap, C19_alloc_cid *)
   (("src/protocol/libp2p/bitswap/mod.rs", "on_message_received", 5), M, 8); (* read_: bitswap message through the real Bitswap::run loop: C19_alloc_bitswap, C19_alloc_cid *)
   (("src/protocol/libp2p/bitswap/mod.rs", "to_bytes", 10), NW, 0); (* with_capacity: encoder / local value, not fed by wire bytes *)
   (("src/protocol/libp2p/identify.rs", "on_inbound_substream", 10), NW, 0); (* with_capacity: encoder / local value, not fed by wire bytes *)
   (("src/protocol/libp2p/identify.rs", "on_outbound_substream", 1), M, 7); (* decode: identify response through the real Identify::run loop: C19_alloc_identify, C19_identify_addresses_subset, C19_alloc_maddr *)
   (("src/protocol/libp2p/identify.rs", "on_outbound_substream", 3), M, 7); (* try_from: identify response through the real Identify::run loop: C19_alloc_identify, C19_identify_addresses_subset, C19_alloc_maddr *)
   (("src/protocol/libp2p/identify.rs", "on_outbound_substream", 3), M, 7); (* try_from: identify response through the real Identify::run loop: C19_alloc_identify, C19_identify_addresses_subset, C19_alloc_maddr *)
   (("src/protocol/libp2p/kademlia/message.rs", "add_provider", 10), NW, 0); (* with_capacity: encoder / local value, not fed by wire bytes *)
   (("src/protocol/libp2p/kademlia/message.rs", "find_node", 10), NW, 0); (* with_capacity: encoder / local value, not fed by wire bytes *)
   (("src/protocol/libp2p/kademlia/message.rs", "find_node_response", 10), NW, 0); (* with_capacity: encoder / local value, not fed by wire bytes *)
   (("src/protocol/libp2p/kademlia/message.rs", "from_bytes", 1), M, 1); (* decode: KademliaMessage::from_bytes: C19_alloc_kad_message, C19_kad_peers_cap *)
   (("src/protocol/libp2p/kademlia/message.rs", "from_bytes", 3), M, 1); (* try_from: KademliaMessage::from_bytes: C19_alloc_kad_message, C19_kad_peers_cap *)
   (("src/protocol/libp2p/kademlia/message.rs", "from_bytes", 3), M, 1); (* try_from: KademliaMessage::from_bytes: C19_alloc_kad_message, C19_kad_peers_cap *)
   (("src/protocol/libp2p/kademlia/message.rs", "from_bytes", 3), M, 1); (* try_from: KademliaMessage::from_bytes: C19_alloc_kad_message, C19_kad_peers_cap *)
   (("src/protocol/libp2p/kademlia/message.rs", "from_bytes", 3), M, 1); (* try_from: KademliaMessage::from_bytes: C19_alloc_kad_message, C19_kad_peers_cap *)
   (("src/protocol/libp2p/kademlia/message.rs", "from_bytes", 3), M, 1); (* try_from: KademliaMessage::from_bytes: C19_alloc_kad_message, C19_kad_peers_cap *)
   (("src/protocol/libp2p/kademlia/message.rs", "get_providers_request", 10), NW, 0); (* with_capacity: encoder / local value, not fed by wire bytes *)
   (("src/protocol/libp2p/kademlia/message.rs", "get_providers_response", 10), NW, 0); (* with_capacity: encoder / local value, not fed by wire bytes *)
   (("src/protocol/libp2p/kademlia/message.rs", "get_record", 10), NW, 0); (* with_capacity: encoder / local value, not fed by wire bytes *)
   (("src/protocol/libp2p/kademlia/message.rs", "get_value_response", 10), NW, 0); (* with_capacity: encoder / local value, not fed by wire bytes *)
   (("src/protocol/libp2p/kademlia/message.rs", "put_value", 10), NW, 0); (* with_capacity: encoder / local value, not fed by wire bytes *)
   (("src/protocol/libp2p/kademlia/message.rs", "put_value_response", 10), NW, 0); (* with_capacity: encoder / local value, not fed by wire bytes *)
   (("src/protocol/libp2p/kademlia/message.rs", "record_from_schema", 2), M, 1); (* from_bytes: KademliaMessage::from_bytes: C19_alloc_kad_message, C19_kad_peers_cap *)
   (("src/protocol/libp2p/kademlia/message.rs", "record_to_schema", 3), NW, 0); (* try_from: encoder / local value, not fed by wire bytes *)
   (("src/protocol/libp2p/kademlia/mod.rs", "on_inbound_substream", 5), M, 3); (* read_: executor reads one frame through Substream (kind 3 / 15) *)
   (("src/protocol/libp2p/kademlia/mod.rs", "on_message_received", 2), M, 1); (* from_bytes: the call of KademliaMessage::from_bytes with the configured replication factor *)
   (("src/protocol/libp2p/kademlia/types.rs", "try_from", 2), M, 1); (* from_bytes: KademliaPeer::try_from: peer id (C18 model) + Multiaddr::try_from (Formats.v) *)
   (("src/protocol/libp2p/kademlia/types.rs", "try_from", 3), M, 1); (* try_from: KademliaPeer::try_from: peer id (C18 model) + Multiaddr::try_from (Formats.v) *)
   (("src/protocol/libp2p/kademlia/types.rs", "try_from", 3), M, 1); (* try_from: KademliaPeer::try_from: peer id (C18 model) + Multiaddr::try_from (Formats.v) *)
   (("src/protocol/mdns.rs", "new", 11), NW, 0); (* vec_n: receive buffer of constant size (C19_MDNS_BUFFER) *)
   (("src/protocol/mdns.rs", "on_inbound_response", 4), M, 24); (* parse: C19_mdns_response_sound, C19_mdns_response_count (text multiaddr parser: oracle dictionary kind 6) *)
   (("src/protocol/mdns.rs", "parse_packet", 2), H, 24); (* from_bytes: the four 16-bit record counts of the DNS header (count check of fix F-C19a; witness corpus/C19/mdns_counts.case) *)
   (("src/protocol/mdns.rs", "parse_packet", 4), H, 24); (* parse: simple-dns Packet::parse behind the count check of fix F-C19a: oracle dictionary kind 5, allocation bound per datagram *)
   (("src/protocol/mdns.rs", "parse_packet", 14), H, 24); (* slice: datagram.get(4..HEADER_SIZE): checked access to the header counts (fix F-C19a) *)
   (("src/protocol/mdns.rs", "start", 4), D, 24); (* parse: dispatch of one datagram: transcribed in the hook VerifMdns::on_datagram (copy of 8 lines) *)
   (("src/protocol/mdns.rs", "start", 14), D, 24); (* slice: dispatch of one datagram: transcribed in the hook VerifMdns::on_datagram (copy of 8 lines) *)
   (("src/protocol/notification/mod.rs", "on_inbound_substream", 5), M, 3); (* read_: handshake read through Substream with UnsignedVarint(max_notification_size) (kind 3 / 15; codec table) *)
   (("src/protocol/notification/mod.rs", "on_inbound_substream", 5), M, 3); (* read_: handshake read through Substream with UnsignedVarint(max_notification_size) (kind 3 / 15; codec table) *)
   (("src/protocol/notification/mod.rs", "on_inbound_substream", 5), M, 3); (* read_: handshake read through Substream with UnsignedVarint(max_notification_size) (kind 3 / 15; codec table) *)
   (("src/substream/mod.rs", "new", 12), M, 15); (* grow: initial read buffer: C04 model (embedded kind 15) *)
   (("src/substream/mod.rs", "new", 12), M, 15); (* grow: initial read buffer: C04 model (embedded kind 15) *)
   (("src/substream/mod.rs", "poll_flush", 13), NW, 0); (* cursor: encoder / local value, not fed by wire bytes *)
   (("src/substream/mod.rs", "poll_next", 5), M, 3); (* read_: Substream::poll_next: C19_frames_total, C19_frame_alloc_checked_first, C19_frames_within_stream + C04 model (kind 15) *)
   (("src/substream/mod.rs", "poll_next", 12), M, 3); (* grow: Substream::poll_next: C19_frames_total, C19_frame_alloc_checked_first, C19_frames_within_stream + C04 model (kind 15) *)
   (("src/substream/mod.rs", "poll_next", 12), M, 3); (* grow: Substream::poll_next: C19_frames_total, C19_frame_alloc_checked_first, C19_frames_within_stream + C04 model (kind 15) *)
   (("src/substream/mod.rs", "poll_next", 13), M, 3); (* cursor: Substream::poll_next: C19_frames_total, C19_frame_alloc_checked_first, C19_frames_within_stream + C04 model (kind 15) *)
   (("src/substream/mod.rs", "poll_next", 14), M, 3); (* slice: Substream::poll_next: C19_frames_total, C19_frame_alloc_checked_first, C19_frames_within_stream + C04 model (kind 15) *)
   (("src/substream/mod.rs", "poll_next", 14), M, 3); (* slice: Substream::poll_next: C19_frames_total, C19_frame_alloc_checked_first, C19_frames_within_stream + C04 model (kind 15) *)
   (("src/substream/mod.rs", "poll_next", 14), M, 3); (* slice: Substream::poll_next: C19_frames_total, C19_frame_alloc_checked_first, C19_frames_within_stream + C04 model (kind 15) *)
   (("src/substream/mod.rs", "poll_next", 14), M, 3); (* slice: Substream::poll_next: C19_frames_total, C19_frame_alloc_checked_first, C19_frames_within_stream + C04 model (kind 15) *)
   (("src/substream/mod.rs", "read_payload_size", 7), M, 4); (* varint: C19_read_payload_size_ok, C19_roundtrip_read_payload_size *)
   (("src/substream/mod.rs", "read_payload_size", 7), M, 4); (* varint: C19_read_payload_size_ok, C19_roundtrip_read_payload_size *)
   (("src/substream/mod.rs", "read_payload_size", 14), M, 4); (* slice: C19_read_payload_size_ok, C19_roundtrip_read_payload_size *)
   (("src/substream/mod.rs", "send_unsigned_varint_payload", 14), NW, 0); (* slice: encoder / local value, not fed by wire bytes *)
   (("src/transport/quic/config.rs", "default", 4), NW, 0); (* parse: literal default listen address *)
   (("src/transport/quic/mod.rs", "dial", 3), NW, 0); (* try_from: local configuration value *)
   (("src/transport/quic/mod.rs", "extract_peer_id", 4), H, 18); (* parse: TLS certificate of the remote: opaque, feature worker kind 18 *)
   (("src/transport/quic/mod.rs", "open", 3), NW, 0); (* try_from: local configuration value *)
   (("src/transport/quic/mod.rs", "open", 10), NW, 0); (* with_capacity: local configuration value *)
   (("src/transport/tcp/config.rs", "default", 4), NW, 0); (* parse: literal default listen address *)
   (("src/transport/tcp/config.rs", "default", 4), NW, 0); (* parse: literal default listen address *)
   (("src/transport/tcp/connection.rs", "negotiate_connection", 23), H, 21); (* yamux_new: yamux crate: opaque, kind 21 (known finding class 1) *)
   (("src/transport/tcp/mod.rs", "dial_peer", 3), NW, 0); (* try_from: local socket / error list sized by the number of dialed addresses *)
   (("src/transport/tcp/mod.rs", "open", 10), NW, 0); (* with_capacity: local socket / error list sized by the number of dialed addresses *)
   (("src/transport/webrtc/config.rs", "default", 4), NW, 0); (* parse: literal default listen address *)
   (("src/transport/webrtc/connection.rs", "on_inbound_opening_channel_data", 1), M, 19); (* decode: WebRtcMessage::decode call (feature worker kind 19) *)
   (("src/transport/webrtc/connection.rs", "on_open_channel_data", 1), M, 19); (* decode: WebRtcMessage::decode call (feature worker kind 19) *)
   (("src/transport/webrtc/connection.rs", "on_outbound_opening_channel_data", 1), M, 19); (* decode: WebRtcMessage::decode call (feature worker kind 19) *)
   (("src/transport/webrtc/connection.rs", "run_event_loop", 3), X, 0); (* try_from: datagram handed to str0m: not driven *)
   (("src/transport/webrtc/connection.rs", "run_event_loop", 22), X, 0); (* str0m_input: str0m (STUN / DTLS / SCTP): not driven *)
   (("src/transport/webrtc/connection.rs", "run_event_loop", 22), X, 0); (* str0m_input: str0m (STUN / DTLS / SCTP): not driven *)
   (("src/transport/webrtc/mod.rs", "is_stun_packet", 14), X, 0); (* slice: first datagram of a WebRTC connection (DatagramRecv / STUN parse by str0m): not driven *)
   (("src/transport/webrtc/mod.rs", "make_rtc", 4), NW, 0); (* parse: local configuration / read buffer of configured size *)
   (("src/transport/webrtc/mod.rs", "new", 11), NW, 0); (* vec_n: local configuration / read buffer of configured size *)
   (("src/transport/webrtc/mod.rs", "on_socket_input", 3), X, 0); (* try_from: first datagram of a WebRTC connection (DatagramRecv / STUN parse by str0m): not driven *)
   (("src/transport/webrtc/mod.rs", "on_socket_input", 4), X, 0); (* parse: first datagram of a WebRTC connection (DatagramRecv / STUN parse by str0m): not driven *)
   (("src/transport/webrtc/mod.rs", "on_socket_input", 22), X, 0); (* str0m_input: str0m (STUN / DTLS / SCTP): not driven *)
   (("src/transport/webrtc/mod.rs", "poll_next", 14), X, 0); (* slice: first datagram of a WebRTC connection (DatagramRecv / STUN parse by str0m): not driven *)
   (("src/transport/webrtc/opening.rs", "noise_prologue", 10), NW, 0); (* with_capacity: encoder / local value, not fed by wire bytes *)
   (("src/transport/webrtc/opening.rs", "on_input", 22), X, 0); (* str0m_input: str0m (STUN / DTLS / SCTP): not driven *)
   (("src/transport/webrtc/opening.rs", "on_noise_channel_data", 1), M, 19); (* decode: WebRtcMessage::decode call (feature worker kind 19) *)
   (("src/transport/webrtc/opening.rs", "on_timeout", 22), X, 0); (* str0m_input: str0m (STUN / DTLS / SCTP): not driven *)
   (("src/transport/webrtc/substream.rs", "poll_read", 13), X, 0); (* cursor: WebRTC substream read buffer: not driven (needs a str0m channel) *)
   (("src/transport/webrtc/substream.rs", "poll_read", 14), X, 0); (* slice: WebRTC substream read buffer: not driven (needs a str0m channel) *)
   (("src/transport/webrtc/substream.rs", "poll_read", 14), X, 0); (* slice: WebRTC substream read buffer: not driven (needs a str0m channel) *)
   (("src/transport/webrtc/substream.rs", "poll_read", 14), X, 0); (* slice: WebRTC substream read buffer: not driven (needs a str0m channel) *)
   (("src/transport/webrtc/substream.rs", "poll_write", 14), X, 0); (* slice: WebRTC substream read buffer: not driven (needs a str0m channel) *)
   (("src/transport/webrtc/util.rs", "decode", 1), M, 19); (* decode: C19_webrtc_frame_bounded, C19_webrtc_oversized_rejected_first, C19_alloc_webrtc_proto (feature worker) *)
   (("src/transport/webrtc/util.rs", "decode", 3), M, 19); (* try_from: C19_webrtc_frame_bounded, C19_webrtc_oversized_rejected_first, C19_alloc_webrtc_proto (feature worker) *)
   (("src/transport/webrtc/util.rs", "encode", 10), NW, 0); (* with_capacity: encoder / local value, not fed by wire bytes *)
   (("src/transport/webrtc/util.rs", "extract_framed_message", 7), M, 19); (* varint: C19_webrtc_frame_bounded, C19_webrtc_oversized_rejected_first, C19_alloc_webrtc_proto (feature worker) *)
   (("src/transport/webrtc/util.rs", "extract_framed_message", 13), M, 19); (* cursor: C19_webrtc_frame_bounded, C19_webrtc_oversized_rejected_first, C19_alloc_webrtc_proto (feature worker) *)
   (("src/transport/webrtc/util.rs", "extract_framed_message", 13), M, 19); (* cursor: C19_webrtc_frame_bounded, C19_webrtc_oversized_rejected_first, C19_alloc_webrtc_proto (feature worker) *)
   (("src/transport/websocket/config.rs", "default", 4), NW, 0); (* parse: literal default listen address *)
   (("src/transport/websocket/config.rs", "default", 4), NW, 0); (* parse: literal default listen address *)
   (("src/transport/websocket/connection.rs", "accept_connection", 20), H, 23); (* ws_accept: tungstenite HTTP upgrade parser: oracle dictionary kind 8, kind 23 mode 1 *)
   (("src/transport/websocket/connection.rs", "negotiate_connection", 23), H, 21); (* yamux_new: yamux crate: opaque, kind 21 *)
   (("src/transport/websocket/mod.rs", "dial_peer", 3), NW, 0); (* try_from: local socket / error list *)
   (("src/transport/websocket/mod.rs", "dial_peer", 21), H, 23); (* ws_connect: tungstenite HTTP upgrade RESPONSE parser (ws:// only; the rustls handshake of wss:// is not driven): oracle dictionary kind 8, kind 23 mode 3 *)
   (("src/transport/websocket/mod.rs", "multiaddr_into_url", 4), X, 0); (* parse: url::Url::parse of a string built from the dialed multiaddr (which may have been learnt from the network): not driven *)
   (("src/transport/websocket/mod.rs", "open", 10), NW, 0); (* with_capacity: local socket / error list *)
   (("src/transport/websocket/stream.rs", "poll_read", 13), M, 23); (* cursor: BufferedStream: C19_ws_total, C19_ws_delivered_bounded, C19_ws_oversized_checked_first, C19_ws_roundtrip *)
   (("src/transport/websocket/stream.rs", "poll_read", 14), M, 23); (* slice: BufferedStream: C19_ws_total, C19_ws_delivered_bounded, C19_ws_oversized_checked_first, C19_ws_roundtrip *)
   (("src/transport/websocket/stream.rs", "poll_read", 14), M, 23); (* slice: BufferedStream: C19_ws_total, C19_ws_delivered_bounded, C19_ws_oversized_checked_first, C19_ws_roundtrip *)
   (("src/yamux/control.rs", "poll_next", 24), H, 21)   (* yamux_inbound: yamux crate: opaque, kind 21 (known finding class 1) *)
  ].

Lemma sites_match : map (fun e => fst (fst e)) table = DecodeSites.sites.
Proof. vm_compute. reflexivity. Qed.

(* harness kinds that have a Coq model (Glue.p_case) / that run an opaque third-party parser *)
Definition modelled_kinds : list N := [1; 2; 3; 4; 5; 6; 7; 8; 9; 10; 11; 12; 13; 14; 15; 16; 17; 19; 20; 22; 23; 24; 25].
Definition opaque_kinds : list N := [5; 18; 21; 22; 23; 24].
Definition mem (x : N) (l : list N) : bool := existsb (N.eqb x) l.
Definition entry_ok (e : (string * string * N) * cls * N) : bool :=
  match e with
  | (_, M, k) | (_, D, k) => mem k modelled_kinds
  | (_, H, k) => mem k opaque_kinds
  | (_, X, k) | (_, NW, k) => k =? 0
  end.
Lemma table_kinds_ok : forallb entry_ok table = true.
Proof. vm_compute. reflexivity. Qed.

Definition count (c : cls) : nat :=
  List.length (filter (fun e => match snd (fst e), c with M, M | D, D | H, H | X, X | NW, NW => true | _, _ => false end) table).

(* ---------- the codec (frame limit) every protocol configures ---------- *)
(* limit: the constant or configuration field that bounds one frame *)
Definition codec_table : list ((string * string * string) * string) :=
  [(("src/protocol/libp2p/bitswap/config.rs", "new", "UnsignedVarint(Some(MAX_MESSAGE_SIZE))"), "constant C19_BITSWAP_MAX_MESSAGE_SIZE");
   (("src/protocol/libp2p/identify.rs", "new", "UnsignedVarint(Some(IDENTIFY_PAYLOAD_SIZE))"), "constant C19_IDENTIFY_PAYLOAD_SIZE");
   (("src/protocol/libp2p/kademlia/config.rs", "new", "UnsignedVarint(Some(max_message_size))"), "configuration, default C19_KAD_DEFAULT_MAX_MESSAGE_SIZE");
   (("src/protocol/libp2p/ping/config.rs", "default", "Identity(PING_PAYLOAD_SIZE)"), "constant C19_PING_PAYLOAD_SIZE");
   (("src/protocol/libp2p/ping/config.rs", "new", "Identity(PING_PAYLOAD_SIZE)"), "constant C19_PING_PAYLOAD_SIZE");
   (("src/protocol/notification/config.rs", "new", "UnsignedVarint(Some(max_notification_size))"), "mandatory constructor argument (also bounds the handshake)");
   (("src/protocol/request_response/config.rs", "new", "UnsignedVarint(Some(max_message_size))"), "mandatory constructor argument")].

Lemma codecs_match : map fst codec_table = DecodeSites.codecs.
Proof. vm_compute. reflexivity. Qed.

(* no protocol of the crate runs its substreams without a frame limit *)
Definition codec_bounded (c : string * string * string) : bool :=
  negb (String.eqb (snd c) "UnsignedVarint(None)") && negb (String.eqb (snd c) "Unspecified").
Lemma codecs_all_bounded : forallb codec_bounded DecodeSites.codecs = true.
Proof. vm_compute. reflexivity. Qed.

(* ---------- third-party defaults the models use ---------- *)
Lemma yamux_credit_tie : Model.YAMUX_DEFAULT_CREDIT = DecodeSites.YAMUX_DEFAULT_CREDIT.
Proof. reflexivity. Qed.
Lemma snow_maxmsglen_tie : DecodeSites.SNOW_MAXMSGLEN = 65535.
Proof. reflexivity. Qed.
Lemma prost_recursion_tie : Protobuf.RECURSION_LIMIT = DecodeSites.PROST_RECURSION_LIMIT.
Proof. reflexivity. Qed.
(* the multiaddr protocol table of Formats.v lists exactly the codes of the vendored crate *)
Lemma maddr_codes_match :
  forallb (fun c => mem c DecodeSites.maddr_codes) (map fst Formats.proto_table) &&
  forallb (fun c => mem c (map fst Formats.proto_table)) DecodeSites.maddr_codes &&
  Nat.eqb (List.length Formats.proto_table) (List.length DecodeSites.maddr_codes) = true.
Proof. vm_compute. reflexivity. Qed.
Lemma ws_limits_tie : Net.WS_MAX_FRAME = 16777216 /\ Net.WS_MAX_MESSAGE = 67108864.
Proof. split; reflexivity. Qed.
