(* C19 — the panic-path inventory: every non-test place of the crate that can panic on a value
   (`expect`, `unwrap`, `unreachable!`, `panic!`, `todo!`, `assert!`) and every CALL of the
   conversion `From<PeerId> for multiaddr::PeerId` (which `expect`s) — coq/gen/DecodeSites.v
   `panic_sites`, generated from the Rust source on every check by tools/gen_c19_sites.py — with
   its classification:
     PV  a value that may have been decoded from remote bytes reaches it: safe by invariant `inv`
         (1 convertible, 2 inline_fits, 3 record_has_id, 4 negotiated_in_set of Consume.v), which
         the producing decoder's accepted set implies (theorems named in the comment), and the
         harness kind `hk` hands decoded values to that very line (consumer stage)
     PS  an invariant of the component's own state machine / bookkeeping
     PL  local configuration, own key or a constant
     PE  an encoder writing into a growable buffer
     PT  established earlier by a third-party validator
   `panic_sites_match` fails as soon as the source gains, loses or moves such a site: a new
   `expect` one step behind a decoder has to be classified (and, for PV, driven and proved)
   before ./check C19 passes again.  `python3 tools/gen_c19_sites.py --panic-table` prints this
   table joined with source lines, `--panic-skeleton` the sites not classified yet. *)
From Coq Require Import List NArith Bool String.
From V.gen Require DecodeSites.
Import ListNotations.
Open Scope string_scope.
Open Scope N_scope.

Inductive pcls := PV | PS | PL | PE | PT.

(* ((file, function, token kind), class, invariant, harness kind) *)
Definition table : list ((string * string * N) * pcls * N * N) :=
  [
   (("src/addresses.rs", "ensure_local_peer", 36), PL, 1, 0); (* into_maddr_peer: the node's own id, derived from its own Ed25519 key: C19_ed25519_peer_convertible *)
   (("src/codec/identity.rs", "new", 35), PL, 0, 0); (* assert: configured payload length *)
   (("src/codec/unsigned_varint.rs", "encode", 35), PE, 0, 0); (* assert: local payload length (uncompiled s2n-quic transport and tests only) *)
   (("src/crypto/mod.rs", "to_protobuf_encoding", 30), PE, 0, 0); (* expect: prost / simple-dns encoder into a growable buffer *)
   (("src/crypto/noise/mod.rs", "new", 30), PL, 0, 0); (* expect: constant Noise pattern string *)
   (("src/crypto/noise/mod.rs", "poll_read", 30), PS, 0, 0); (* expect: own state machine / bookkeeping: C02 model (embedded kind 14) *)
   (("src/crypto/noise/mod.rs", "poll_read", 30), PS, 0, 0); (* expect: own state machine / bookkeeping: C02 model (embedded kind 14) *)
   (("src/crypto/noise/mod.rs", "reset_read_state", 33), PS, 0, 0); (* panic: own state machine / bookkeeping: C02 model (embedded kind 14) *)
   (("src/crypto/noise/mod.rs", "with_prologue", 30), PL, 0, 0); (* expect: constant Noise pattern string *)
   (("src/crypto/tls/certificate.rs", "parse_unverified", 30), PL, 0, 0); (* expect: local configuration / own key / constant *)
   (("src/crypto/tls/mod.rs", "make_client_config", 30), PL, 0, 0); (* expect: local configuration / own key / constant *)
   (("src/crypto/tls/mod.rs", "make_client_config", 30), PL, 0, 0); (* expect: local configuration / own key / constant *)
   (("src/crypto/tls/mod.rs", "make_server_config", 30), PL, 0, 0); (* expect: local configuration / own key / constant *)
   (("src/crypto/tls/mod.rs", "make_server_config", 30), PL, 0, 0); (* expect: local configuration / own key / constant *)
   (("src/crypto/tls/verifier.rs", "verify_tls12_signature", 32), PT, 0, 0); (* unreachable: rustls is configured with TLS 1.3 only; a TLS 1.2 signature callback is never invoked *)
   (("src/crypto/tls/verifier.rs", "verify_tls12_signature", 32), PT, 0, 0); (* unreachable: rustls is configured with TLS 1.3 only; a TLS 1.2 signature callback is never invoked *)
   (("src/lib.rs", "new", 30), PL, 0, 0); (* expect: local configuration / own key / constant *)
   (("src/lib.rs", "new", 36), PL, 1, 0); (* into_maddr_peer: the node's own id, derived from its own Ed25519 key: C19_ed25519_peer_convertible *)
   (("src/lib.rs", "new", 36), PL, 1, 0); (* into_maddr_peer: the node's own id, derived from its own Ed25519 key: C19_ed25519_peer_convertible *)
   (("src/lib.rs", "new", 36), PL, 1, 0); (* into_maddr_peer: the node's own id, derived from its own Ed25519 key: C19_ed25519_peer_convertible *)
   (("src/lib.rs", "new", 36), PL, 1, 0); (* into_maddr_peer: the node's own id, derived from its own Ed25519 key: C19_ed25519_peer_convertible *)
   (("src/multistream_select/dialer_select.rs", "poll", 33), PS, 0, 0); (* panic: own state machine / bookkeeping: C03 model (embedded kind 16) *)
   (("src/multistream_select/length_delimited.rs", "into_inner", 35), PS, 0, 0); (* assert: own state machine / bookkeeping: C03 model (embedded kind 16) *)
   (("src/multistream_select/length_delimited.rs", "into_inner", 35), PS, 0, 0); (* assert: own state machine / bookkeeping: C03 model (embedded kind 16) *)
   (("src/multistream_select/listener_select.rs", "poll", 33), PS, 0, 0); (* panic: own state machine / bookkeeping: C03 model (embedded kind 16) *)
   (("src/multistream_select/negotiated.rs", "inner", 33), PS, 0, 0); (* panic: own state machine / bookkeeping: C03 model (embedded kind 16) *)
   (("src/multistream_select/negotiated.rs", "poll", 30), PS, 0, 0); (* expect: own state machine / bookkeeping: C03 model (embedded kind 16) *)
   (("src/multistream_select/negotiated.rs", "poll", 33), PS, 0, 0); (* panic: own state machine / bookkeeping: C03 model (embedded kind 16) *)
   (("src/peer_id.rs", "from", 30), PV, 1, 10); (* expect: From<PeerId> for multiaddr::PeerId: safe iff the id is admitted by the multiaddr crate: C19_peer_id_convertible (every id PeerId::from_bytes accepts), C19_conversion_boundary (exactly those) *)
   (("src/peer_id.rs", "from_public_key_protobuf", 30), PV, 2, 6); (* expect: Multihash::wrap of a key encoding of at most MAX_INLINE_KEY_LENGTH bytes: C19_inline_key_fits; kinds 5 / 6 consumer stage *)
   (("src/peer_id.rs", "is_public_key", 30), PL, 2, 0); (* expect: Multihash::wrap of the encoding of a litep2p PublicKey (Ed25519 only: 36 bytes) *)
   (("src/peer_id.rs", "random", 30), PL, 0, 0); (* expect: 32 random bytes fit the 64-byte multihash *)
   (("src/peer_id.rs", "to_multiaddr_peer_id", 36), PV, 1, 10); (* into_maddr_peer: the fallible conversion itself (multiaddr::PeerId::try_from of the multihash); `from` expects on it: C19_peer_id_convertible *)
   (("src/protocol/connection.rs", "downgrade", 33), PS, 0, 0); (* panic: own state machine / bookkeeping *)
   (("src/protocol/libp2p/identify.rs", "new", 30), PL, 0, 0); (* expect: own public key supplied by Litep2p::new *)
   (("src/protocol/libp2p/identify.rs", "on_inbound_substream", 30), PE, 0, 0); (* expect: prost / simple-dns encoder into a growable buffer *)
   (("src/protocol/libp2p/identify.rs", "on_outbound_substream", 36), PV, 1, 7); (* into_maddr_peer: the id of the connection's peer (derived from the key of the Noise / TLS handshake): C19_ed25519_peer_convertible; kind 7 runs the real loop *)
   (("src/protocol/libp2p/identify.rs", "on_outbound_substream", 36), PL, 1, 0); (* into_maddr_peer: the node's own id, derived from its own Ed25519 key: C19_ed25519_peer_convertible *)
   (("src/protocol/libp2p/kademlia/message.rs", "add_provider", 30), PE, 0, 0); (* expect: prost / simple-dns encoder into a growable buffer *)
   (("src/protocol/libp2p/kademlia/message.rs", "find_node", 30), PE, 0, 0); (* expect: prost / simple-dns encoder into a growable buffer *)
   (("src/protocol/libp2p/kademlia/message.rs", "find_node_response", 30), PE, 0, 0); (* expect: prost / simple-dns encoder into a growable buffer *)
   (("src/protocol/libp2p/kademlia/message.rs", "get_providers_request", 30), PE, 0, 0); (* expect: prost / simple-dns encoder into a growable buffer *)
   (("src/protocol/libp2p/kademlia/message.rs", "get_providers_response", 30), PE, 0, 0); (* expect: prost / simple-dns encoder into a growable buffer *)
   (("src/protocol/libp2p/kademlia/message.rs", "get_record", 30), PE, 0, 0); (* expect: prost / simple-dns encoder into a growable buffer *)
   (("src/protocol/libp2p/kademlia/message.rs", "get_value_response", 30), PE, 0, 0); (* expect: prost / simple-dns encoder into a growable buffer *)
   (("src/protocol/libp2p/kademlia/message.rs", "put_value", 30), PE, 0, 0); (* expect: prost / simple-dns encoder into a growable buffer *)
   (("src/protocol/libp2p/kademlia/message.rs", "put_value_response", 30), PE, 0, 0); (* expect: prost / simple-dns encoder into a growable buffer *)
   (("src/protocol/libp2p/kademlia/mod.rs", "run", 31), PS, 0, 0); (* unwrap: own state machine / bookkeeping *)
   (("src/protocol/libp2p/kademlia/query/mod.rs", "on_query_failed", 30), PS, 0, 0); (* expect: own state machine / bookkeeping *)
   (("src/protocol/libp2p/kademlia/query/mod.rs", "on_query_succeeded", 30), PS, 0, 0); (* expect: own state machine / bookkeeping *)
   (("src/protocol/libp2p/kademlia/routing_table.rs", "add_known_peer", 36), PV, 1, 1); (* into_maddr_peer: a peer decoded from a Kademlia message (update_routing_table): C19_kad_decoded_usable, C19_kad_update_peers_convertible; kind 1 consumer stage *)
   (("src/protocol/mdns.rs", "on_inbound_request", 30), PL, 0, 0); (* expect: the node's own listen address as a TXT string *)
   (("src/protocol/mdns.rs", "on_inbound_request", 30), PE, 0, 0); (* expect: prost / simple-dns encoder into a growable buffer *)
   (("src/protocol/mdns.rs", "on_outbound_request", 30), PE, 0, 0); (* expect: prost / simple-dns encoder into a growable buffer *)
   (("src/protocol/notification/config.rs", "build", 30), PL, 0, 0); (* expect: local configuration / own key / constant *)
   (("src/protocol/notification/config.rs", "build", 30), PL, 0, 0); (* expect: local configuration / own key / constant *)
   (("src/protocol/notification/handle.rs", "send_sync_notification", 32), PS, 0, 0); (* unreachable: own state machine / bookkeeping *)
   (("src/protocol/notification/mod.rs", "next_event", 32), PS, 0, 0); (* unreachable: own state machine / bookkeeping *)
   (("src/protocol/notification/negotiation.rs", "poll_next", 30), PS, 0, 0); (* expect: own state machine / bookkeeping *)
   (("src/protocol/protocol_set.rs", "from", 33), PS, 0, 0); (* panic: own state machine / bookkeeping *)
   (("src/protocol/protocol_set.rs", "new", 30), PS, 0, 0); (* expect: own state machine / bookkeeping *)
   (("src/protocol/protocol_set.rs", "protocol_codec", 30), PV, 4, 16); (* expect: the negotiated name is a key of the protocol set (or of its fallback map): C19_negotiated_in_set, C03 Fallback model *)
   (("src/protocol/request_response/config.rs", "build", 30), PL, 0, 0); (* expect: local configuration / own key / constant *)
   (("src/protocol/request_response/config.rs", "build", 30), PL, 0, 0); (* expect: local configuration / own key / constant *)
   (("src/protocol/request_response/handle.rs", "from", 33), PS, 0, 0); (* panic: own state machine / bookkeeping *)
   (("src/protocol/transport_service.rs", "add_known_address", 36), PV, 1, 1); (* into_maddr_peer: a peer decoded from a Kademlia message (update_routing_table): C19_kad_decoded_usable; kind 1 consumer stage *)
   (("src/substream/mod.rs", "poll_next", 33), PL, 0, 0); (* panic: the codec every protocol configures: none is Unspecified (C19_codecs_all_bounded) *)
   (("src/substream/mod.rs", "send_framed", 33), PL, 0, 0); (* panic: the codec every protocol configures: none is Unspecified (C19_codecs_all_bounded) *)
   (("src/substream/mod.rs", "send_framed", 33), PL, 0, 0); (* panic: the codec every protocol configures: none is Unspecified (C19_codecs_all_bounded) *)
   (("src/substream/mod.rs", "send_framed", 33), PL, 0, 0); (* panic: the codec every protocol configures: none is Unspecified (C19_codecs_all_bounded) *)
   (("src/substream/mod.rs", "send_framed", 33), PL, 0, 0); (* panic: the codec every protocol configures: none is Unspecified (C19_codecs_all_bounded) *)
   (("src/substream/mod.rs", "start_send", 33), PL, 0, 0); (* panic: the codec every protocol configures: none is Unspecified (C19_codecs_all_bounded) *)
   (("src/transport/manager/address.rs", "insert", 30), PS, 0, 0); (* expect: own state machine / bookkeeping *)
   (("src/transport/manager/address.rs", "new", 36), PV, 1, 10); (* into_maddr_peer: AddressRecord::new(peer, ..): any PeerId value: C19_peer_id_convertible; kind 10 consumer stage *)
   (("src/transport/manager/handle.rs", "add_known_address", 36), PV, 1, 1); (* into_maddr_peer: TransportManagerHandle::add_known_address with a decoded peer: C19_kad_decoded_usable; kinds 1 and 11 consumer stage *)
   (("src/transport/manager/mod.rs", "dial_address", 30), PV, 3, 11); (* expect: an AddressRecord's address ends in /p2p/<id litep2p takes>: C19_record_has_id_parsed, C19_record_has_id_appended; kind 11 consumer stage *)
   (("src/transport/manager/mod.rs", "next", 30), PS, 0, 0); (* expect: own state machine / bookkeeping *)
   (("src/transport/manager/mod.rs", "next", 30), PS, 0, 0); (* expect: own state machine / bookkeeping *)
   (("src/transport/manager/mod.rs", "next", 30), PS, 0, 0); (* expect: own state machine / bookkeeping *)
   (("src/transport/manager/mod.rs", "next", 30), PS, 0, 0); (* expect: own state machine / bookkeeping *)
   (("src/transport/manager/mod.rs", "next", 30), PS, 0, 0); (* expect: own state machine / bookkeeping *)
   (("src/transport/manager/mod.rs", "next", 33), PS, 0, 0); (* panic: own state machine / bookkeeping *)
   (("src/transport/manager/mod.rs", "on_connection_established", 30), PS, 0, 0); (* expect: own state machine / bookkeeping *)
   (("src/transport/manager/mod.rs", "on_connection_opened", 30), PS, 0, 0); (* expect: own state machine / bookkeeping *)
   (("src/transport/manager/mod.rs", "on_connection_opened", 30), PS, 0, 0); (* expect: own state machine / bookkeeping *)
   (("src/transport/manager/mod.rs", "poll_next", 30), PS, 0, 0); (* expect: own state machine / bookkeeping *)
   (("src/transport/manager/mod.rs", "register_listen_address", 35), PL, 0, 0); (* assert: registration of local protocols / transports / listen addresses at start-up *)
   (("src/transport/manager/mod.rs", "register_listen_address", 36), PL, 1, 0); (* into_maddr_peer: the node's own id, derived from its own Ed25519 key: C19_ed25519_peer_convertible *)
   (("src/transport/manager/mod.rs", "register_protocol", 33), PL, 0, 0); (* panic: registration of local protocols / transports / listen addresses at start-up *)
   (("src/transport/manager/mod.rs", "register_protocol", 35), PL, 0, 0); (* assert: registration of local protocols / transports / listen addresses at start-up *)
   (("src/transport/manager/mod.rs", "register_transport", 35), PL, 0, 0); (* assert: registration of local protocols / transports / listen addresses at start-up *)
   (("src/transport/quic/config.rs", "default", 30), PL, 0, 0); (* expect: local configuration / own key / constant *)
   (("src/transport/quic/connection.rs", "accept_substream", 30), PV, 4, 16); (* expect: the name the listener negotiation returned is one of the names offered: C19_negotiated_in_set (message-based), C03 model embedded in kind 16 (stream-based: the trace carries the index of the name) *)
   (("src/transport/quic/listener.rs", "new", 30), PL, 0, 0); (* expect: local configuration / own key / constant *)
   (("src/transport/quic/mod.rs", "dial", 30), PL, 0, 0); (* expect: own key / configured timeout *)
   (("src/transport/quic/mod.rs", "dial", 30), PL, 0, 0); (* expect: own key / configured timeout *)
   (("src/transport/quic/mod.rs", "extract_peer_id", 30), PT, 0, 18); (* expect: the certificate passed the libp2p TLS verifier during the handshake (kind 18 parses certificates, feature worker) *)
   (("src/transport/quic/mod.rs", "open", 30), PL, 0, 0); (* expect: own key / configured timeout *)
   (("src/transport/quic/mod.rs", "open", 30), PL, 0, 0); (* expect: own key / configured timeout *)
   (("src/transport/tcp/config.rs", "default", 30), PL, 0, 0); (* expect: local configuration / own key / constant *)
   (("src/transport/tcp/config.rs", "default", 30), PL, 0, 0); (* expect: local configuration / own key / constant *)
   (("src/transport/tcp/connection.rs", "accept_substream", 30), PV, 4, 16); (* expect: the name the listener negotiation returned is one of the names offered: C19_negotiated_in_set (message-based), C03 model embedded in kind 16 (stream-based: the trace carries the index of the name) *)
   (("src/transport/webrtc/config.rs", "default", 30), PL, 0, 0); (* expect: local configuration / own key / constant *)
   (("src/transport/webrtc/connection.rs", "insert", 35), PS, 0, 0); (* assert: own state machine / bookkeeping *)
   (("src/transport/webrtc/opening.rs", "on_noise_channel_data", 36), PV, 1, 6); (* into_maddr_peer: the id derived from the remote's Noise identity key: C19_ed25519_peer_convertible; kinds 6 / 22 consumer stage (WebRTC path itself is not driven) *)
   (("src/transport/webrtc/util.rs", "encode", 30), PE, 0, 0); (* expect: prost / simple-dns encoder into a growable buffer *)
   (("src/transport/websocket/config.rs", "default", 30), PL, 0, 0); (* expect: local configuration / own key / constant *)
   (("src/transport/websocket/config.rs", "default", 30), PL, 0, 0); (* expect: local configuration / own key / constant *)
   (("src/transport/websocket/connection.rs", "accept_substream", 30), PV, 4, 16); (* expect: the name the listener negotiation returned is one of the names offered: C19_negotiated_in_set (message-based), C03 model embedded in kind 16 (stream-based: the trace carries the index of the name) *)
   (("src/transport/websocket/connection.rs", "negotiate_connection", 36), PV, 1, 22)   (* into_maddr_peer: the id the Noise handshake returned: C19_ed25519_peer_convertible; kind 22 consumer stage *)
  ].

Definition site_of (e : (string * string * N) * pcls * N * N) : string * string * N := fst (fst (fst e)).
Definition cls_of (e : (string * string * N) * pcls * N * N) : pcls := snd (fst (fst e)).
Definition inv_of (e : (string * string * N) * pcls * N * N) : N := snd (fst e).
Definition hk_of (e : (string * string * N) * pcls * N * N) : N := snd e.

Lemma panic_sites_match : map site_of table = DecodeSites.panic_sites.
Proof. vm_compute. reflexivity. Qed.

(* the invariants that have a theorem (Properties.v): 1 convertible, 2 inline_fits, 3 record_has_id,
   4 negotiated_in_set; the harness kinds that have a consumer stage or run the real event loop *)
Definition proved_invariants : list N := [1; 2; 3; 4].
Definition consumer_kinds : list N := [1; 5; 6; 7; 10; 11; 12; 16; 22; 24].
Definition mem (x : N) (l : list N) : bool := existsb (N.eqb x) l.
Definition entry_ok (e : (string * string * N) * pcls * N * N) : bool :=
  match cls_of e with
  | PV => mem (inv_of e) proved_invariants && mem (hk_of e) consumer_kinds
  | PL => (inv_of e =? 0) || mem (inv_of e) proved_invariants
  | _ => inv_of e =? 0
  end.
(* every place a remote value can reach names a proved invariant and a harness kind that drives it *)
Lemma table_ok : forallb entry_ok table = true.
Proof. vm_compute. reflexivity. Qed.

Definition is_cls (c : pcls) (e : (string * string * N) * pcls * N * N) : bool :=
  match cls_of e, c with PV, PV | PS, PS | PL, PL | PE, PE | PT, PT => true | _, _ => false end.
Definition count (c : pcls) : nat := List.length (filter (is_cls c) table).

(* no call of the panicking peer-id conversion (kind 36) and no `expect` of peer_id.rs is left
   unexplained as "state machine" *)
Definition conversion_entry (e : (string * string * N) * pcls * N * N) : bool :=
  (snd (site_of e) =? 36) || String.eqb (fst (fst (site_of e))) "src/peer_id.rs".
Lemma conversions_have_invariants :
  forallb (fun e => negb (conversion_entry e) ||
                    match cls_of e with PV => true | PL => true | _ => false end) table = true.
Proof. vm_compute. reflexivity. Qed.
