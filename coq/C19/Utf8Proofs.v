(* C19 — the UTF-8 acceptor of common/Protobuf.v (`utf8_ok`, the model of core::str::from_utf8 used
   for protobuf `string` fields) is correct against a reference definition: a byte string is
   accepted iff it is the concatenation of the shortest-form encodings of Unicode scalar values
   (code points below 0x110000 that are not surrogates).  Overlong forms, surrogates, code points
   above U+10FFFF, stray continuation bytes and truncated sequences are all outside the
   reference set by construction of `utf8_encode`. *)
From Coq Require Import List Arith NArith Bool Lia.
From Coq Require Import ZifyBool ZifyNat ZifyN.
From V.common Require Import Varint Protobuf.
Import ListNotations.
Open Scope N_scope.

Arguments N.add : simpl never.
Arguments N.mul : simpl never.
Arguments N.sub : simpl never.
Arguments N.ltb : simpl never.
Arguments N.leb : simpl never.
Arguments N.eqb : simpl never.
Arguments N.div : simpl never.
Arguments N.modulo : simpl never.

Definition scalar (cp : N) : Prop := cp < 1114112 /\ ~ (55296 <= cp <= 57343).

(* the shortest-form encoding of a code point *)
Definition utf8_encode (cp : N) : bytes :=
  if cp <? 128 then [cp]
  else if cp <? 2048 then [192 + cp / 64; 128 + cp mod 64]
  else if cp <? 65536 then [224 + cp / 4096; 128 + (cp / 64) mod 64; 128 + cp mod 64]
  else [240 + cp / 262144; 128 + (cp / 4096) mod 64; 128 + (cp / 64) mod 64; 128 + cp mod 64].

Definition utf8_wellformed (l : bytes) : Prop :=
  exists cps, Forall scalar cps /\ l = flat_map utf8_encode cps.

Lemma dm k x m : 0 < m -> x < m -> (k * m + x) / m = k /\ (k * m + x) mod m = x.
Proof.
  intros Hm Hx. split.
  - rewrite N.add_comm, N.div_add by lia. rewrite N.div_small by lia. lia.
  - rewrite N.add_comm, N.mod_add by lia. apply N.mod_small. lia.
Qed.

Lemma in_rng_spec x lo hi : in_rng x lo hi = true <-> lo <= x /\ x <= hi.
Proof. unfold in_rng. rewrite andb_true_iff. lia. Qed.
Lemma cont_spec x : cont x = true <-> 128 <= x /\ x <= 191.
Proof. unfold cont. apply in_rng_spec. Qed.

(* ---- the four shapes, decoded ---- *)
Lemma enc2 a b : 194 <= a -> a < 224 -> 128 <= b -> b <= 191 ->
  let cp := (a - 192) * 64 + (b - 128) in scalar cp /\ utf8_encode cp = [a; b].
Proof.
  intros Ha1 Ha2 Hb1 Hb2 cp. destruct (dm (a - 192) (b - 128) 64 ltac:(lia) ltac:(lia)) as [D M].
  fold cp in D, M. assert (R : 128 <= cp /\ cp < 2048) by (unfold cp; lia).
  split; [unfold scalar; lia|]. unfold utf8_encode.
  destruct (cp <? 128) eqn:E1; [lia|]. destruct (cp <? 2048) eqn:E2; [|lia].
  rewrite D, M. f_equal; [lia|f_equal; lia].
Qed.

Lemma enc3 a b c : 224 <= a -> a < 240 -> 128 <= b -> b <= 191 -> 128 <= c -> c <= 191 ->
  (a = 224 -> 160 <= b) -> (a = 237 -> b <= 159) ->
  let cp := (a - 224) * 4096 + (b - 128) * 64 + (c - 128) in scalar cp /\ utf8_encode cp = [a; b; c].
Proof.
  intros Ha1 Ha2 Hb1 Hb2 Hc1 Hc2 H224 H237 cp.
  set (q := (a - 224) * 64 + (b - 128)).
  assert (Ecp : cp = q * 64 + (c - 128)) by (unfold cp, q; lia).
  destruct (dm q (c - 128) 64 ltac:(lia) ltac:(lia)) as [D1 M1]. rewrite <- Ecp in D1, M1.
  destruct (dm (a - 224) (b - 128) 64 ltac:(lia) ltac:(lia)) as [D2 M2]. fold q in D2, M2.
  assert (E4096 : cp / 4096 = a - 224).
  { replace 4096 with (64 * 64) by reflexivity. rewrite <- N.div_div by lia. rewrite D1. exact D2. }
  assert (R : 2048 <= cp /\ cp < 65536) by (unfold cp; lia).
  split.
  - unfold scalar. split; [lia|]. unfold cp. intros [S1 S2].
    destruct (N.eq_dec a 237) as [->|N237]; [specialize (H237 eq_refl); lia|]. lia.
  - unfold utf8_encode. destruct (cp <? 128) eqn:E1; [lia|]. destruct (cp <? 2048) eqn:E2; [lia|].
    destruct (cp <? 65536) eqn:E3; [|lia]. rewrite E4096, D1, M2, M1. f_equal; [lia|f_equal; [lia|f_equal; lia]].
Qed.

Lemma enc4 a b c d : 240 <= a -> a < 245 -> 128 <= b -> b <= 191 -> 128 <= c -> c <= 191 -> 128 <= d -> d <= 191 ->
  (a = 240 -> 144 <= b) -> (a = 244 -> b <= 143) ->
  let cp := (a - 240) * 262144 + (b - 128) * 4096 + (c - 128) * 64 + (d - 128) in
  scalar cp /\ utf8_encode cp = [a; b; c; d].
Proof.
  intros Ha1 Ha2 Hb1 Hb2 Hc1 Hc2 Hd1 Hd2 H240 H244 cp.
  set (q2 := (a - 240) * 64 + (b - 128)). set (q1 := q2 * 64 + (c - 128)).
  assert (Ecp : cp = q1 * 64 + (d - 128)) by (unfold cp, q1, q2; lia).
  destruct (dm q1 (d - 128) 64 ltac:(lia) ltac:(lia)) as [D1 M1]. rewrite <- Ecp in D1, M1.
  destruct (dm q2 (c - 128) 64 ltac:(lia) ltac:(lia)) as [D2 M2]. fold q1 in D2, M2.
  destruct (dm (a - 240) (b - 128) 64 ltac:(lia) ltac:(lia)) as [D3 M3]. fold q2 in D3, M3.
  assert (E4096 : cp / 4096 = q2).
  { replace 4096 with (64 * 64) by reflexivity. rewrite <- N.div_div by lia. rewrite D1. exact D2. }
  assert (E262144 : cp / 262144 = a - 240).
  { replace 262144 with (4096 * 64) by reflexivity. rewrite <- N.div_div by lia. rewrite E4096. exact D3. }
  assert (R : 65536 <= cp /\ cp < 1114112).
  { unfold cp. destruct (N.eq_dec a 240) as [->|N240]; [specialize (H240 eq_refl); lia|].
    destruct (N.eq_dec a 244) as [->|N244]; [specialize (H244 eq_refl); lia|]. lia. }
  split; [unfold scalar; lia|].
  unfold utf8_encode. destruct (cp <? 128) eqn:E1; [lia|]. destruct (cp <? 2048) eqn:E2; [lia|].
  destruct (cp <? 65536) eqn:E3; [lia|]. rewrite E262144, E4096, D1, M3, M2, M1.
  f_equal; [lia|f_equal; [lia|f_equal; [lia|f_equal; lia]]].
Qed.

(* ---- soundness: what utf8_ok accepts is well formed ---- *)
Lemma utf8_sound_n n : forall l, (length l <= n)%nat -> utf8_ok l = true -> utf8_wellformed l.
Proof.
  induction n as [|n IH]; intros l L H.
  { destruct l; [exists []; split; [constructor|reflexivity]|cbn in L; lia]. }
  destruct l as [|a t1]; [exists []; split; [constructor|reflexivity]|].
  cbn [utf8_ok] in H. cbn [length] in L.
  destruct (a <? 128) eqn:A1.
  { destruct (IH t1 ltac:(lia) H) as (cps & F & ->). exists (a :: cps). split.
    - constructor; [unfold scalar; lia|exact F].
    - cbn [flat_map]. replace (utf8_encode a) with [a] by (unfold utf8_encode; rewrite A1; reflexivity). reflexivity. }
  destruct (a <? 194) eqn:A2; [discriminate|].
  destruct (a <? 224) eqn:A3.
  { destruct t1 as [|b t2]; [discriminate|]. apply andb_prop in H as [Hb H]. apply cont_spec in Hb.
    cbn [length] in L. destruct (IH t2 ltac:(lia) H) as (cps & F & ->).
    destruct (enc2 a b ltac:(lia) ltac:(lia) ltac:(lia) ltac:(lia)) as [S E].
    eexists (_ :: cps). split; [constructor; [exact S|exact F]|]. cbn [flat_map]. rewrite E. reflexivity. }
  destruct (a <? 240) eqn:A4.
  { destruct t1 as [|b [|c t3]]; try discriminate.
    apply andb_prop in H as [H H3]. apply andb_prop in H as [Hb Hc]. apply cont_spec in Hc.
    cbn [length] in L. destruct (IH t3 ltac:(lia) H3) as (cps & F & ->).
    assert (Rb : 128 <= b /\ b <= 191 /\ (a = 224 -> 160 <= b) /\ (a = 237 -> b <= 159)).
    { destruct (a =? 224) eqn:E224; [apply in_rng_spec in Hb; lia|].
      destruct (a =? 237) eqn:E237; [apply in_rng_spec in Hb; lia|]. apply cont_spec in Hb. lia. }
    destruct (enc3 a b c ltac:(lia) ltac:(lia) ltac:(lia) ltac:(lia) ltac:(lia) ltac:(lia) ltac:(lia) ltac:(lia)) as [S E].
    eexists (_ :: cps). split; [constructor; [exact S|exact F]|]. cbn [flat_map]. rewrite E. reflexivity. }
  destruct (a <? 245) eqn:A5; [|discriminate].
  destruct t1 as [|b [|c [|d t4]]]; try discriminate.
  apply andb_prop in H as [H H4]. apply andb_prop in H as [H Hd]. apply andb_prop in H as [Hb Hc].
  apply cont_spec in Hc. apply cont_spec in Hd.
  cbn [length] in L. destruct (IH t4 ltac:(lia) H4) as (cps & F & ->).
  assert (Rb : 128 <= b /\ b <= 191 /\ (a = 240 -> 144 <= b) /\ (a = 244 -> b <= 143)).
  { destruct (a =? 240) eqn:E240; [apply in_rng_spec in Hb; lia|].
    destruct (a =? 244) eqn:E244; [apply in_rng_spec in Hb; lia|]. apply cont_spec in Hb. lia. }
  destruct (enc4 a b c d ltac:(lia) ltac:(lia) ltac:(lia) ltac:(lia) ltac:(lia) ltac:(lia) ltac:(lia) ltac:(lia) ltac:(lia) ltac:(lia)) as [S E].
  eexists (_ :: cps). split; [constructor; [exact S|exact F]|]. cbn [flat_map]. rewrite E. reflexivity.
Qed.

(* ---- completeness: every well-formed string is accepted ---- *)
Lemma mod64_lt x : x mod 64 < 64.
Proof. apply N.mod_lt. lia. Qed.

Lemma utf8_ok_encode cp rest : scalar cp -> utf8_ok (utf8_encode cp ++ rest) = utf8_ok rest.
Proof.
  intros [Hmax Hsur]. unfold utf8_encode.
  destruct (cp <? 128) eqn:E1.
  { cbn [app utf8_ok]. rewrite E1. reflexivity. }
  destruct (cp <? 2048) eqn:E2.
  { set (a := 192 + cp / 64). set (b := 128 + cp mod 64).
    pose proof (mod64_lt cp). pose proof (N.div_mod cp 64 ltac:(lia)) as DM.
    assert (Ra : 194 <= a /\ a < 224) by (unfold a; lia).
    cbn [app utf8_ok]. destruct (a <? 128) eqn:A1; [lia|]. destruct (a <? 194) eqn:A2; [lia|].
    destruct (a <? 224) eqn:A3; [|lia].
    assert (Cb : cont b = true) by (apply cont_spec; unfold b; lia). rewrite Cb. reflexivity. }
  destruct (cp <? 65536) eqn:E3.
  { set (a := 224 + cp / 4096). set (b := 128 + (cp / 64) mod 64). set (c := 128 + cp mod 64).
    pose proof (mod64_lt cp). pose proof (mod64_lt (cp / 64)).
    pose proof (N.div_mod cp 64 ltac:(lia)) as DM1. pose proof (N.div_mod (cp / 64) 64 ltac:(lia)) as DM2.
    assert (E4096 : cp / 4096 = cp / 64 / 64) by (rewrite N.div_div by lia; reflexivity).
    assert (Ra : 224 <= a /\ a < 240) by (unfold a; lia).
    cbn [app utf8_ok]. destruct (a <? 128) eqn:A1; [lia|]. destruct (a <? 194) eqn:A2; [lia|].
    destruct (a <? 224) eqn:A3; [lia|]. destruct (a <? 240) eqn:A4; [|lia].
    assert (Cc : cont c = true) by (apply cont_spec; unfold c; lia). rewrite Cc.
    assert (Cb : (if a =? 224 then in_rng b 160 191 else if a =? 237 then in_rng b 128 159 else cont b) = true).
    { destruct (a =? 224) eqn:E224; [apply in_rng_spec; unfold a, b in *; lia|].
      destruct (a =? 237) eqn:E237; [apply in_rng_spec; unfold a, b in *; lia|]. apply cont_spec. unfold b. lia. }
    rewrite Cb. reflexivity. }
  set (a := 240 + cp / 262144). set (b := 128 + (cp / 4096) mod 64). set (c := 128 + (cp / 64) mod 64).
  set (d := 128 + cp mod 64).
  pose proof (mod64_lt cp). pose proof (mod64_lt (cp / 64)). pose proof (mod64_lt (cp / 4096)).
  pose proof (N.div_mod cp 64 ltac:(lia)) as DM1. pose proof (N.div_mod (cp / 64) 64 ltac:(lia)) as DM2.
  pose proof (N.div_mod (cp / 4096) 64 ltac:(lia)) as DM3.
  assert (E4096 : cp / 4096 = cp / 64 / 64) by (rewrite N.div_div by lia; reflexivity).
  assert (E262144 : cp / 262144 = cp / 4096 / 64) by (rewrite N.div_div by lia; reflexivity).
  assert (Ra : 240 <= a /\ a < 245) by (unfold a; lia).
  cbn [app utf8_ok]. destruct (a <? 128) eqn:A1; [lia|]. destruct (a <? 194) eqn:A2; [lia|].
  destruct (a <? 224) eqn:A3; [lia|]. destruct (a <? 240) eqn:A4; [lia|]. destruct (a <? 245) eqn:A5; [|lia].
  assert (Cc : cont c = true) by (apply cont_spec; unfold c; lia).
  assert (Cd : cont d = true) by (apply cont_spec; unfold d; lia). rewrite Cc, Cd.
  assert (Cb : (if a =? 240 then in_rng b 144 191 else if a =? 244 then in_rng b 128 143 else cont b) = true).
  { destruct (a =? 240) eqn:E240; [apply in_rng_spec; unfold a, b in *; lia|].
    destruct (a =? 244) eqn:E244; [apply in_rng_spec; unfold a, b in *; lia|]. apply cont_spec. unfold b. lia. }
  rewrite Cb. reflexivity.
Qed.

Lemma utf8_complete cps : Forall scalar cps -> utf8_ok (flat_map utf8_encode cps) = true.
Proof.
  induction 1 as [|cp cps S _ IH]; [reflexivity|]. cbn [flat_map]. rewrite (utf8_ok_encode cp _ S). exact IH.
Qed.

Theorem utf8_sound_complete l : utf8_ok l = true <-> utf8_wellformed l.
Proof.
  split.
  - apply (utf8_sound_n (length l)). lia.
  - intros (cps & F & ->). apply utf8_complete. exact F.
Qed.
