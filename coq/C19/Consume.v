(* C19 — the CONSUMER STAGE: what the event loops do first with a value a decoder let through.
   Definitions only (lemmas: ConsumeProofs.v).

   From the node's point of view a decoder that returns a value on which the next line of the
   event loop panics is a decoder that panics on remote bytes.  The harness therefore hands every
   decoded value on exactly as the real code does (harness/src/c19/consume.rs: the real
   `Kademlia::run` loop in five roles, every PeerId conversion, the consumers of a Multiaddr), and
   this file says (i) what is observable of that stage, and (ii) for every conversion of the Rust
   source that contains a panic path, the INVARIANT on the decoded value that keeps it from
   panicking; ConsumeProofs.v proves that whatever the model's decoders accept satisfies it. *)
From Coq Require Import List NArith Bool.
From V.gen Require Consts.
From V.common Require Import Wire Varint Protobuf.
From V.C18 Require Model.
From V.C19 Require Import Formats Model.
Import ListNotations.
Open Scope N_scope.

Notation pid := V.C18.Model.pid.

(* ---------------------------------------------------------------- invariants of conversions *)
(* `impl From<PeerId> for multiaddr::PeerId` = `multiaddr::PeerId::try_from(multihash).expect(..)`:
   libp2p-identity's `PeerId::from_multihash` (C18's transcription `ref_admits`) must take it *)
Definition convertible (p : pid) : bool := V.C18.Model.ref_admits p.

(* `Multihash::wrap(IDENTITY, key_enc).expect(..)` in `PeerId::from_public_key_protobuf`: reached
   only when the key encoding is at most MAX_INLINE_KEY_LENGTH long; `wrap` takes up to 64 bytes *)
Definition inline_fits : bool := V.C18.Model.MAX_INLINE <=? V.C18.Model.MH_SIZE.

(* `PeerId::try_from_multiaddr(record.address()).expect("`PeerId` to exist")` in
   `TransportManager::dial_address`, on an `AddressRecord`: the record's address must end in a
   /p2p component that litep2p takes as a peer id *)
Definition record_has_id (addr : bytes) : bool :=
  match maddr_last_p2p addr with Some _ => true | None => false end.

(* `protocols.get(&protocol).expect("protocol to be one of the keys")` (accept_substream of the
   transports) and `ProtocolSet::protocol_codec(..).expect("protocol to exist")`: the name the
   listener negotiation hands back must be one of the names it was given *)
Definition negotiated_in_set (names : list bytes) (r : V.C03.Model.wl_res) : bool :=
  match r with
  | V.C03.Model.WLAccepted i _ => i <? nlen names
  | _ => true
  end.

(* ---------------------------------------------------------------- PeerId (kind 10 and everywhere) *)
(* what `multiaddr::PeerId::from(peer).to_bytes()` is when the conversion is safe *)
Definition convert_peer_id (p : pid) : option bytes :=
  if convertible p then Some (V.C18.Model.to_bytes p) else None.

(* the peer id of an Ed25519 identity key (RemotePublicKey::to_peer_id re-encodes the key) *)
Definition ed25519_peer (k : bytes) : pid := V.C18.Model.mkPid 0 (V.C18.Model.encode_ed25519 k).
Definition dump_key_peer (o : option bytes) : list N :=
  match o with
  | Some k => match convert_peer_id (ed25519_peer k) with Some b => enc_list (fun x => [x]) b | None => [255] end
  | None => []
  end.

(* ---------------------------------------------------------------- Multiaddr (kind 11) *)
Definition IP4 : N := 4.   Definition TCP : N := 6.    Definition IP6 : N := 41.
Definition DNS : N := 53.  Definition DNS4 : N := 54.  Definition DNS6 : N := 55.
Definition WS : N := 477.  Definition WSS : N := 478.  Definition WS_PATH : N := 4770.  Definition WSS_PATH : N := 4780.
Definition is_host (id : N) : bool := (id =? IP4) || (id =? IP6) || (id =? DNS) || (id =? DNS4) || (id =? DNS6).
Definition is_ws (id : N) : bool := (id =? WS) || (id =? WSS) || (id =? WS_PATH) || (id =? WSS_PATH).

(* transport/common/listener.rs multiaddr_to_socket_address(address, Tcp | WebSocket): host, /tcp,
   (/ws | /wss), then nothing or /p2p (what follows a /p2p is not looked at) *)
Definition sock_tail (cs : list (N * bytes)) : bool :=
  match cs with
  | [] => true
  | (id, _) :: _ => id =? P2P_CODE
  end.
Definition sock_parse (ws : bool) (cs : list (N * bytes)) : bool :=
  match cs with
  | (h, _) :: (t, _) :: r =>
      is_host h && (t =? TCP) &&
      (if ws then match r with (w, _) :: r' => is_ws w && sock_tail r' | [] => false end
       else sock_tail r)
  | _ => false
  end.

(* observable of the consumers of a decoded address:
   [PeerId::try_from_multiaddr is some; AddressRecord::from_multiaddr is some; tcp parser ok; ws parser ok] *)
Definition maddr_consume (b : bytes) : list N :=
  match maddr_parse b with
  | Ok cs =>
      let id := match maddr_last_p2p b with Some _ => true | None => false end in
      [b2n id; b2n id; b2n (sock_parse false cs); b2n (sock_parse true cs)]
  | _ => []
  end.

(* ---------------------------------------------------------------- Kademlia (kind 1) *)
(* the loop's own id and the remote peer every scripted substream belongs to: dictionary entries
   9 and 10 (written by the worker from the ids it really uses) *)
Definition orc_peer (o : oracle) (kind : N) : option pid :=
  match orc_find o kind [] with
  | Some b => V.C18.Model.of_bytes b
  | None => None
  end.
Definition ORC_LOCAL : N := 9.
Definition ORC_REMOTE : N := 10.

Definition pid_is (o : option pid) (p : pid) : bool :=
  match o with Some q => V.C18.Model.pid_eqb p q | None => false end.

(* what the loop tells the user about the remote's message itself *)
Inductive kev :=
| KevUpdate (peers : list pid)                 (* RoutingTableUpdate: the peers update_routing_table walks over *)
| KevRecord (r : krec)                         (* IncomingRecord *)
| KevProvider (key : bytes) (p : kad_peer).    (* IncomingProvider *)

(* update_routing_table: every decoded peer but the local one goes to
   TransportService::add_known_address and RoutingTable::add_known_peer (both append /p2p/<peer>
   with `peer.into()`) *)
Definition update_peers (local : option pid) (ps : list kad_peer) : list pid :=
  filter (fun p => negb (pid_is local p)) (map kp_pid ps).

(* the ADD_PROVIDER arm (the same with and without a query id) *)
Definition provider_events (from : option pid) (key : bytes) (ps : list kad_peer) : list kev :=
  match ps with
  | [p] => if pid_is from (kp_pid p) then [KevProvider key p] else []
  | _ => []
  end.

(* on_message_received(peer, None, ..): the message is a request. Routing table and store of the
   loop are empty, so the replies carry no peers and no record. *)
Definition kad_request (from : option pid) (m : kad_message) : option bytes * list kev :=
  match m with
  | KFindNode t _ => (Some (enc_kmsg (msg_find_node_response t [])), [])
  | KPutValue r => (Some (enc_kmsg (msg_put_value_response (rc_key r) (rc_value r))), [KevRecord r])
  | KGetRecord (Some key) _ _ => (Some (enc_kmsg (msg_get_value_response key [] None)), [])
  | KGetRecord None _ _ => (None, [])
  | KAddProvider key ps => (None, provider_events from key ps)
  | KGetProviders (Some _) _ _ => (Some (enc_kmsg (msg_get_providers_response [] [])), [])
  | KGetProviders None _ _ => (None, [])
  end.

(* on_message_received(peer, Some(query), ..): the message answers a query of the loop *)
Definition kad_response (local from : option pid) (m : kad_message) : list kev :=
  match m with
  | KFindNode _ ps | KGetRecord _ _ ps | KGetProviders _ ps _ => [KevUpdate (update_peers local ps)]
  | KPutValue _ => []
  | KAddProvider key ps => provider_events from key ps
  end.

(* every peer id the loop converts into a multiaddr::PeerId while consuming the message *)
Definition kad_converted (m : kad_message) : list pid :=
  match m with
  | KFindNode _ ps | KGetRecord _ _ ps | KAddProvider _ ps => map kp_pid ps
  | KGetProviders _ ps qs => map kp_pid ps ++ map kp_pid qs
  | KPutValue _ => []
  end.
Definition kad_publisher (m : kad_message) : option pid :=
  match m with
  | KPutValue r | KGetRecord _ (Some r) _ => rc_publisher r
  | _ => None
  end.
Definition kad_usable (m : kad_message) : bool :=
  forallb convertible (kad_converted m) &&
  match kad_publisher m with Some p => convertible p | None => true end.

(* the frame limit of the loop's substreams: a larger message never reaches the decoder *)
Definition KAD_FRAME_MAX : N := Consts.C19_KAD_DEFAULT_MAX_MESSAGE_SIZE.

(* the number of roles the real loop is run in: 0 = inbound request, 1..4 = reply to the loop's own
   FIND_NODE / GET_VALUE / GET_PROVIDERS / PUT_VALUE *)
Definition KAD_QUERY_ROLES : nat := 4.

(* ---------- dumps ---------- *)
Definition eLc (l : list N) : list N := enc_list (fun x => [x]) l.
Definition dump_addrs_capped (addrs : list bytes) : list N :=
  if Nat.ltb (length addrs) MAX_ADDRESSES
  then nlen addrs :: flat_map eLc addrs
  else [N.of_nat MAX_ADDRESSES].
Definition dump_krec_c (r : krec) : list N :=
  eLc (rc_key r) ++ eLc (rc_value r) ++
  (match rc_publisher r with Some p => 1 :: eLc (V.C18.Model.to_bytes p) | None => [0] end) ++ [rc_ttl r].
Definition dump_kev (e : kev) : list N :=
  match e with
  | KevUpdate ps => 1 :: enc_list (fun p => eLc (V.C18.Model.to_bytes p)) ps
  | KevRecord r => 2 :: dump_krec_c r
  | KevProvider key p => 3 :: eLc key ++ eLc (V.C18.Model.to_bytes (kp_pid p)) ++ dump_addrs_capped (kp_addrs p)
  end.
Definition dump_kevs (l : list kev) : list N := nlen l :: flat_map dump_kev l.

(* one role: `alive (0 | 1 L reply) events` *)
Definition dump_role (reply : option bytes) (evs : list kev) : list N :=
  1 :: (match reply with Some b => 1 :: eLc b | None => [0] end) ++ dump_kevs evs.

(* the whole stage for a message of `len` bytes that decoded to `m` (None: it did not decode, or
   the frame was refused: the loop drops the substream and tells nobody) *)
Definition kad_consume (o : oracle) (len : N) (m : option kad_message) : list N :=
  let local := orc_peer o ORC_LOCAL in
  let from := orc_peer o ORC_REMOTE in
  let m := if KAD_FRAME_MAX <? len then None else m in
  match m with
  | Some m =>
      let (reply, evs) := kad_request from m in
      dump_role reply evs ++ concat (repeat (dump_role None (kad_response local from m)) KAD_QUERY_ROLES)
  | None => concat (repeat (dump_role None []) (S KAD_QUERY_ROLES))
  end.
