(* C19 — the ls-response (Message::Protocols) round trip of multistream-select, on C03's model
   of Message::encode / Message::decode. *)
From Coq Require Import List Arith NArith Bool Lia.
From Coq Require Import ZifyBool ZifyNat ZifyN.
From V.gen Require Consts.
From V.common Require Import Wire Varint.
From V.C03 Require Import Model Proofs.
Import ListNotations.
Open Scope N_scope.

Arguments N.pow : simpl never.
Arguments N.mul : simpl never.
Arguments N.modulo : simpl never.
Arguments N.div : simpl never.

Lemma pow7_succ i : 2 ^ (7 * (i + 1)) = 128 * 2 ^ (7 * i).
Proof. replace (7 * (i + 1)) with (7 * i + 7) by lia. rewrite N.pow_add_r, N.mul_comm. reflexivity. Qed.

Lemma uvi_roundtrip_f f : forall n i acc rest,
  (1 <= f)%nat -> n < pow128 f -> i + N.of_nat f <= 10 -> (0 < i -> 0 < n) ->
  uvi_dec_f (uvi_enc_f f n ++ rest) i (7 * i) acc = Some ((acc + n * 2 ^ (7 * i)) mod 2 ^ 64, rest).
Proof.
  induction f as [|f IH]; intros n i acc rest Hf Hn Hi Hz; [lia|].
  cbn [uvi_enc_f]. destruct (n <? 128) eqn:E.
  - cbn [app uvi_dec_f]. rewrite E. rewrite (N.mod_small n 128) by lia.
    destruct ((n =? 0) && (0 <? i)) eqn:Z; [|reflexivity].
    apply andb_prop in Z as [Z1 Z2]. lia.
  - cbn [pow128] in Hn.
    assert (Hf' : (1 <= f)%nat).
    { destruct f; [cbn [pow128] in Hn; lia|lia]. }
    cbn [app uvi_dec_f].
    pose proof (mod128_lt n) as Hm. pose proof (div_mod128 n) as Hd.
    destruct (128 + n mod 128 <? 128) eqn:E2; [lia|].
    destruct (i =? 9) eqn:E9; [lia|].
    assert (Eb : (128 + n mod 128) mod 128 = n mod 128).
    { replace (128 + n mod 128) with (n mod 128 + 1 * 128) by lia. rewrite N.mod_add by lia. apply N.mod_small. lia. }
    rewrite Eb. replace (7 * i + 7) with (7 * (i + 1)) by lia.
    rewrite IH; [|exact Hf'|apply div128_lt; exact Hn|lia|intros _; apply N.div_str_pos; lia].
    f_equal. f_equal. f_equal. rewrite pow7_succ. set (P := 2 ^ (7 * i)). nia.
Qed.

Lemma uvi_roundtrip n rest : n < 2 ^ 64 -> uvi_dec (uvi_enc n ++ rest) = Some (n, rest).
Proof.
  intros H. unfold uvi_dec, uvi_enc. change 0 with (7 * 0) at 2.
  rewrite uvi_roundtrip_f; [| lia | pose proof pow128_10; lia | lia | lia].
  change (7 * 0) with 0. rewrite N.pow_0_r. rewrite N.mod_small by lia. f_equal. f_equal. lia.
Qed.

Lemma uvi_enc_nonempty n : n < 2 ^ 64 -> exists x t, uvi_enc n = x :: t.
Proof.
  intros H. unfold uvi_enc. cbn [uvi_enc_f]. destruct (n <? 128); eauto.
Qed.

Definition wf_lsname (p : name) : Prop := starts_slash p = true /\ len p + 1 < 2 ^ 64.

Lemma bytes_eqb_false_len (a b : bytes) : length a <> length b -> bytes_eqb a b = false.
Proof. intros H. apply bytes_eqb_neq. intros ->. congruence. Qed.

Lemma enc_entry_length p : len p + 1 < 2 ^ 64 -> (2 <= length (enc_proto_entry p))%nat.
Proof.
  intros H. unfold enc_proto_entry. destruct (uvi_enc_nonempty _ H) as (x & t & ->).
  rewrite !app_length. cbn [length]. lia.
Qed.

Lemma parse_protos_entries : forall ps fuel c acc,
  Forall wf_lsname ps -> c = N.of_nat (length acc) ->
  c + N.of_nat (length ps) <= Consts.C03_MAX_PROTOCOLS -> (length ps < fuel)%nat ->
  parse_protos fuel (flat_map enc_proto_entry ps ++ [NL]) c acc = DOk (MProtos (rev acc ++ ps)).
Proof.
  induction ps as [|p ps IH]; intros fuel c acc W Ec Hc Hf.
  - destruct fuel; [lia|]. cbn [flat_map app parse_protos]. rewrite bytes_eqb_refl, app_nil_r. reflexivity.
  - inversion W as [|? ? [Hs Hl] W']; subst. destruct fuel as [|f]; [lia|].
    cbn [flat_map parse_protos]. cbn [length] in *.
    set (rest := flat_map enc_proto_entry ps ++ [NL]).
    assert (Erem : (enc_proto_entry p ++ flat_map enc_proto_entry ps) ++ [NL] =
                   uvi_enc (len p + 1) ++ (p ++ [NL]) ++ rest).
    { unfold enc_proto_entry, rest. rewrite <- !app_assoc. reflexivity. }
    rewrite Erem.
    rewrite bytes_eqb_false_len.
    2:{ pose proof (enc_entry_length p Hl) as L2. unfold enc_proto_entry in L2. rewrite !app_length in *. cbn [length] in *. lia. }
    destruct (N.of_nat (length acc) =? Consts.C03_MAX_PROTOCOLS) eqn:E; [lia|].
    rewrite (uvi_roundtrip _ _ Hl).
    assert (Lt : len ((p ++ [NL]) ++ rest) = len p + 1 + len rest).
    { unfold len. rewrite !app_length. cbn [length]. lia. }
    destruct ((len p + 1 =? 0) || (len ((p ++ [NL]) ++ rest) <? len p + 1)) eqn:E1; [lia|].
    set (tail := (p ++ [NL]) ++ rest) in *.
    assert (F : firstn (N.to_nat (len p + 1 - 1)) tail = p).
    { replace (len p + 1 - 1) with (len p) by lia. unfold len, tail. rewrite Nat2N.id, <- app_assoc.
      rewrite firstn_app, Nat.sub_diag, firstn_all. cbn [firstn]. apply app_nil_r. }
    assert (Nt : nth (N.to_nat (len p + 1 - 1)) tail 0 = NL).
    { replace (len p + 1 - 1) with (len p) by lia. unfold len, tail. rewrite Nat2N.id, <- app_assoc.
      rewrite app_nth2 by lia. rewrite Nat.sub_diag. reflexivity. }
    assert (Sk : skipn (N.to_nat (len p + 1)) tail = rest).
    { replace (N.to_nat (len p + 1)) with (length (p ++ [NL])) by (unfold len; rewrite app_length; cbn [length]; lia).
      unfold tail. rewrite skipn_app, Nat.sub_diag, skipn_all. reflexivity. }
    rewrite !F, Nt, Sk, N.eqb_refl, Hs. cbn [negb].
    unfold rest. rewrite IH; [|exact W'|cbn [length]; lia|cbn [length]; lia|lia].
    cbn [rev]. rewrite <- app_assoc. reflexivity.
Qed.

Lemma flat_map_length_ge ps : Forall wf_lsname ps -> (length ps <= length (flat_map enc_proto_entry ps))%nat.
Proof.
  induction 1 as [|p ps [_ Hl] _ IH]; [cbn; lia|]. cbn [flat_map length]. rewrite app_length.
  pose proof (enc_entry_length p Hl). lia.
Qed.

Lemma entries_end_nl ps : ps <> [] -> exists X, flat_map enc_proto_entry ps = X ++ [NL].
Proof.
  intros NE. destruct (exists_last NE) as (l & q & ->). rewrite flat_map_app. cbn [flat_map]. rewrite app_nil_r.
  unfold enc_proto_entry. exists (flat_map (fun p => uvi_enc (len p + 1) ++ p ++ [NL]) l ++ uvi_enc (len q + 1) ++ q).
  rewrite <- !app_assoc. reflexivity.
Qed.

Lemma not_const (X c : bytes) : (forall t, rev c <> NL :: NL :: t) -> bytes_eqb (X ++ [NL; NL]) c = false.
Proof.
  intros H. apply bytes_eqb_neq. intros E. apply (f_equal (@rev N)) in E. rewrite rev_app_distr in E.
  cbn [rev app] in E. symmetry in E. exact (H _ E).
Qed.

(* Message::decode (Message::encode (Protocols ps)) = Protocols ps, for names accepted by
   Protocol::try_from (leading '/'), up to MAX_PROTOCOLS of them *)
Lemma protocols_roundtrip ps : Forall wf_lsname ps -> N.of_nat (length ps) <= Consts.C03_MAX_PROTOCOLS ->
  decode_msg (encode_msg (MProtos ps)) = DOk (MProtos ps).
Proof.
  intros W Hc. cbn [encode_msg]. destruct ps as [|p ps]; [vm_compute; reflexivity|].
  destruct (entries_end_nl (p :: ps) ltac:(discriminate)) as (X & EX).
  unfold decode_msg. set (b := flat_map enc_proto_entry (p :: ps) ++ [NL]).
  assert (Eb : b = X ++ [NL; NL]) by (unfold b; rewrite EX, <- app_assoc; reflexivity).
  assert (T1 : bytes_eqb b MSG_HEADER = false) by (rewrite Eb; apply not_const; intros t; vm_compute; discriminate).
  assert (T2 : bytes_eqb b MSG_NA = false) by (rewrite Eb; apply not_const; intros t; vm_compute; discriminate).
  assert (T3 : bytes_eqb b MSG_LS = false) by (rewrite Eb; apply not_const; intros t; vm_compute; discriminate).
  assert (Hn : has_nl (removelast b) = true).
  { rewrite Eb, removelast_app by discriminate. cbn [removelast]. unfold has_nl. rewrite existsb_app. cbn [existsb].
    rewrite N.eqb_refl. cbn [orb]. apply orb_true_r. }
  rewrite T1, T2, T3, Hn. cbn [negb]. rewrite andb_false_r. unfold b.
  rewrite parse_protos_entries; [reflexivity|exact W|reflexivity|cbn [length] in *; lia|].
  pose proof (flat_map_length_ge _ W). rewrite app_length. lia.
Qed.
