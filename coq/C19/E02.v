(* C19 — the Noise transport reader/writer of C02, embedded: C02's executable model and trace
   oracle are reused through copies of the two top-level compositions of coq/C02/Glue.v (the
   copies exist only so that the extracted C19 model does not contain a second `run_case`; the
   lemmas below keep them in sync with the originals at compile time). *)
From Coq Require Import List NArith Bool.
From V.common Require Import Wire.
From V.gen Require Import Consts.
From V.C02 Require Import Model Glue.
Import ListNotations.
Open Scope N_scope.

Definition run_c02 (l : list N) : list N :=
  match decode_case l with
  | None => [0]
  | Some k =>
      let c := k_cfg k in
      let '(wtr, w, ok) := run_writer c (k_wops k) (k_wsc k) writer_init in
      1 :: header c ++ enc_list enc_wrec wtr ++ [b2n ok] ++
      (if ok then
         let '(fx, fw, _) := poll_flush c [] w in
         let plains := w_frames fw in
         let e := env_of c plains (k_tamper k) in
         enc_wrec (fx, fw) ++
         enc_list (fun x => [x + TAG]) plains ++
         [e_avail e] ++
         enc_list enc_rrec (run_reader e (expand (k_reads k)) (k_rsc k) (reader_init c))
       else [])
  end.

Definition ok_c02 (case trace : list N) : bool :=
  match decode_case case, trace with
  | None, [0] => true
  | Some k, 1 :: body =>
      let c := k_cfg k in
      if (1 <=? c_factor c) && (1 <=? c_wbuf c) then
        match pall p_trace body with
        | None => false
        | Some t =>
            nlist_eqb (t_header t) (header c) &&
            t_ok t &&
            wcalls_ok (k_wops k) (t_wrecs t) &&
            match t_rest t with
            | None => false
            | Some ((fx, fst_, fsent), hdrs, avail, rr) =>
                let plains := map (fun h => h - TAG) hdrs in
                let total := sum plains in
                let items := apply_tamper (k_tamper k) (honest plains) in
                match fx with WReady _ => true | _ => false end &&
                match fst_ with WIdle => true | _ => false end &&
                (fsent =? frames_wire plains) &&
                forallb (hdr_ok (c_mfl c)) hdrs &&
                (total =? waccepted (t_wrecs t) (k_wops k)) &&
                (avail =? tamper_avail (k_tamper k) (honest plains)) &&
                rcalls_ok (is_clean (k_tamper k)) (clean_prefix items plains 0 avail) total avail
                          (expand (k_reads k)) rr 0
            end
        end
      else true
  | _, _ => false
  end.

Lemma run_c02_in_sync : run_c02 = run_case.
Proof. reflexivity. Qed.
Lemma ok_c02_in_sync : ok_c02 = prop_ok.
Proof. reflexivity. Qed.

(* the read buffer the socket allocates once (bytes): read-ahead window + one maximal frame *)
Definition noise_read_buffer (factor : N) : N := factor * MAX_NOISE_MSG_LEN + (2 + MAX_NOISE_MSG_LEN).
