(* C19 — the Noise transport reader/writer of C02, embedded: C02's executable model and trace
   oracle are reused through copies of the two top-level compositions of coq/C02/Glue.v (the
   copies exist only so that the extracted C19 model does not contain a second `run_case`; the
   lemmas below keep them in sync with the originals at compile time). *)
From Coq Require Import List NArith Bool.
From V.common Require Import Wire.
From V.gen Require Import Consts.
From V.C02 Require Import Model Glue.
Import ListNotations.
Open Scope N_scope.

(* the other property's own composition, used as is (ocaml/build_model.sh aliases the requested
   names after monolithic extraction, so no copy is needed any more) *)
Definition run_c02 : list N -> list N := V.C02.Glue.run_case.
Definition ok_c02 : list N -> list N -> bool := V.C02.Glue.prop_ok.
Lemma run_c02_in_sync : run_c02 = V.C02.Glue.run_case.
Proof. reflexivity. Qed.
Lemma ok_c02_in_sync : ok_c02 = V.C02.Glue.prop_ok.
Proof. reflexivity. Qed.

(* the read buffer the socket allocates once (bytes): read-ahead window + one maximal frame *)
Definition noise_read_buffer (factor : N) : N := factor * MAX_NOISE_MSG_LEN + (2 + MAX_NOISE_MSG_LEN).
