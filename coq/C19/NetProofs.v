(* C19 — proofs about the transport-level decoders of Net.v. *)
From Coq Require Import List NArith Bool Lia Arith.
From V.gen Require Consts DecodeSites.
From V.common Require Import Wire Varint Protobuf.
From V.C19 Require Import Formats Model Net.
Import ListNotations.
Open Scope N_scope.

Local Arguments N.mul : simpl never.
Local Arguments N.add : simpl never.
Local Arguments N.div : simpl never.
Local Arguments N.modulo : simpl never.
Local Arguments N.land : simpl never.
Local Arguments N.testbit : simpl never.
Local Arguments N.ltb : simpl never.
Local Arguments N.leb : simpl never.
Local Arguments firstn : simpl nomatch.
Local Arguments skipn : simpl nomatch.

(* ================================================================== WebSocket *)

Lemma unmask_length : forall p key, length (unmask key p) = length p.
Proof.
  induction p as [|x t IH]; intros key; simpl; [reflexivity|].
  destruct key; simpl; rewrite IH; reflexivity.
Qed.

Lemma unmask_involutive : forall p key, unmask key (unmask key p) = p.
Proof.
  induction p as [|x t IH]; intros key; simpl; [reflexivity|].
  destruct key as [|k0 kr]; simpl.
  - rewrite IH. reflexivity.
  - rewrite IH. f_equal.
    rewrite N.lxor_assoc, N.lxor_nilpotent, N.lxor_0_r. reflexivity.
Qed.

(* the header consumes at least two bytes *)
Lemma ws_header_consumes : forall b h r, ws_header b = Some (h, r) -> (length r + 2 <= length b)%nat.
Proof.
  intros b h r H. unfold ws_header in H.
  destruct b as [|b0 [|b1 r0]]; try discriminate.
  set (ext := if N.land b1 127 =? 126 then 2%nat else if N.land b1 127 =? 127 then 8%nat else 0%nat) in *.
  destruct (Nat.ltb (length r0) ext) eqn:E1; [discriminate|].
  apply Nat.ltb_ge in E1.
  assert (Hs : (length (skipn ext r0) <= length r0)%nat) by (rewrite skipn_length; lia).
  destruct (N.testbit b1 7).
  - destruct (Nat.ltb (length (skipn ext r0)) 4) eqn:E2; [discriminate|].
    inversion H; subst. rewrite skipn_length. simpl. rewrite skipn_length in Hs |- *. lia.
  - inversion H; subst. simpl. lia.
Qed.

Lemma ws_read_fuel : forall f1 role acc b out f2,
  (length b < f1)%nat -> (length b < f2)%nat ->
  ws_read f1 role acc b out = ws_read f2 role acc b out.
Proof.
  induction f1 as [|f1 IH]; intros role acc b out f2 H1 H2; [lia|].
  destruct f2 as [|f2]; [lia|].
  simpl. destruct (ws_header b) as [[h r]|] eqn:Eh; [|reflexivity].
  pose proof (ws_header_consumes _ _ _ Eh) as Hc.
  destruct (ws_reserved_op (h_op h)); [reflexivity|].
  destruct (WS_MAX_FRAME <? h_len h); [reflexivity|].
  destruct (blen r <? h_len h); [reflexivity|].
  assert (Hk : forall n, (length (skipn n r) < f1)%nat /\ (length (skipn n r) < f2)%nat).
  { intros n. rewrite skipn_length. lia. }
  destruct role, (h_mask h); try reflexivity;
    (destruct (h_rsv h); [reflexivity|]);
    (destruct (8 <=? h_op h); [reflexivity|]);
    (destruct (h_op h =? 0);
     [ destruct acc; [|reflexivity];
       match goal with |- context [WS_MAX_MESSAGE <? ?x] => destruct (WS_MAX_MESSAGE <? x); [reflexivity|] end;
       destruct (h_fin h); apply IH; apply Hk
     | destruct acc; [reflexivity|];
       destruct (h_op h =? 1); [reflexivity|];
       destruct (h_fin h); apply IH; apply Hk ]).
Qed.

Theorem ws_run_fuel_irrelevant : forall role b f,
  (length b < f)%nat -> ws_read f role None b [] = ws_run role b.
Proof. intros. unfold ws_run. apply ws_read_fuel; lia. Qed.

(* delivered bytes never exceed what arrived *)
Lemma ws_read_size : forall f role acc b out,
  (length (ws_read f role acc b out) <=
   length out + length b + match acc with Some a => length a | None => 0 end)%nat.
Proof.
  induction f as [|f IH]; intros role acc b out; simpl; [lia|].
  destruct (ws_header b) as [[h r]|] eqn:Eh; [|lia].
  pose proof (ws_header_consumes _ _ _ Eh) as Hc.
  destruct (ws_reserved_op (h_op h)); [lia|].
  destruct (WS_MAX_FRAME <? h_len h); [lia|].
  destruct (blen r <? h_len h); [lia|].
  set (n := N.to_nat (h_len h)).
  assert (Hsplit : (length (firstn n r) + length (skipn n r) <= length r)%nat).
  { rewrite <- (firstn_skipn n r) at 3. rewrite app_length. lia. }
  assert (Hu : forall k, length (unmask k (firstn n r)) = length (firstn n r)) by (intros; apply unmask_length).
  destruct role, (h_mask h) as [k|]; try lia;
    (destruct (h_rsv h); [lia|]);
    (destruct (8 <=? h_op h); [lia|]);
    (destruct (h_op h =? 0);
     [ destruct acc as [a|]; [|lia];
       match goal with |- context [WS_MAX_MESSAGE <? ?x] => destruct (WS_MAX_MESSAGE <? x); [lia|] end;
       destruct (h_fin h);
       match goal with |- (length (ws_read f ?ro ?ac ?bb ?oo) <= _)%nat =>
         specialize (IH ro ac bb oo); cbv beta iota in IH; rewrite ?app_length, ?Hu in IH; rewrite ?app_length, ?Hu; lia end
     | destruct acc as [a|]; [lia|];
       destruct (h_op h =? 1); [lia|];
       destruct (h_fin h);
       match goal with |- (length (ws_read f ?ro ?ac ?bb ?oo) <= _)%nat =>
         specialize (IH ro ac bb oo); cbv beta iota in IH; rewrite ?app_length, ?Hu in IH; rewrite ?app_length, ?Hu; lia end ]).
Qed.

Theorem ws_run_size : forall role b, (length (ws_run role b) <= length b)%nat.
Proof. intros. unfold ws_run. pose proof (ws_read_size (S (length b)) role None b []) as H. cbn [length] in H. lia. Qed.

(* a frame announced longer than the frame limit ends the stream before its payload is awaited *)
Theorem ws_oversized_first : forall f role acc b out h r,
  ws_header b = Some (h, r) -> WS_MAX_FRAME < h_len h ->
  ws_read (S f) role acc b out = out.
Proof.
  intros f role acc b out h r Hh Hl. simpl. rewrite Hh.
  destruct (ws_reserved_op (h_op h)); [reflexivity|].
  apply N.ltb_lt in Hl. rewrite Hl. reflexivity.
Qed.

(* ---------- round trip: what the writer frames, the reader of the other role delivers ---------- *)
Lemma to_be_length : forall k n, length (to_be k n) = k.
Proof. induction k; intros; simpl; [reflexivity|]. rewrite app_length, IHk. simpl. lia. Qed.

Lemma be_n_app : forall a b acc, be_n (a ++ b) acc = be_n b (be_n a acc).
Proof. induction a; intros; simpl; [reflexivity|]. apply IHa. Qed.

Lemma be_n_to_be : forall k n acc, be_n (to_be k n) acc = acc * 256 ^ N.of_nat k + n mod 256 ^ N.of_nat k.
Proof.
  induction k as [|k IH]; intros n acc.
  - simpl. rewrite N.mod_1_r. lia.
  - simpl to_be. rewrite be_n_app, IH. simpl be_n.
    rewrite Nat2N.inj_succ, N.pow_succ_r'.
    assert (H256 : 256 ^ N.of_nat k <> 0) by (apply N.pow_nonzero; lia).
    rewrite (N.mul_comm 256 (256 ^ N.of_nat k)).
    rewrite (N.mod_mul_r n (256 ^ N.of_nat k) 256) by lia.
    (* (n / 256) mod 256^k * 256 + n mod 256 = n mod (256^k * 256) reorganised *)
    assert (E : n mod (256 * 256 ^ N.of_nat k) = 256 * ((n / 256) mod 256 ^ N.of_nat k) + n mod 256).
    { rewrite (N.mod_mul_r n 256 (256 ^ N.of_nat k)) by lia. lia. }
    rewrite (N.mul_comm (256 ^ N.of_nat k) 256) in *.
    rewrite <- (N.mod_mul_r n (256 ^ N.of_nat k) 256) by lia.
    rewrite (N.mul_comm (256 ^ N.of_nat k) 256).
    rewrite E. lia.
Qed.

Lemma land_127 : forall m n, (m = 0 \/ m = 128) -> n < 128 -> N.land (m + n) 127 = n.
Proof.
  intros m n Hm Hn. change 127 with (N.ones 7). rewrite N.land_ones.
  destruct Hm; subst.
  - rewrite N.add_0_l. apply N.mod_small. exact Hn.
  - change (2 ^ 7) with 128. rewrite N.add_comm.
    replace (n + 128) with (n + 1 * 128) by lia. rewrite N.mod_add by lia. apply N.mod_small. exact Hn.
Qed.

Lemma testbit7 : forall m n, (m = 0 \/ m = 128) -> n < 128 -> N.testbit (m + n) 7 = (m =? 128).
Proof.
  intros m n Hm Hn. rewrite N.testbit_eqb. change (2 ^ 7) with 128.
  destruct Hm; subst.
  - rewrite N.add_0_l, N.div_small by exact Hn. reflexivity.
  - replace (128 + n) with (n + 1 * 128) by lia. rewrite N.div_add by lia.
    rewrite N.div_small by exact Hn. reflexivity.
Qed.

Definition mask_ok (mask : option bytes) : Prop :=
  match mask with Some k => length k = 4%nat | None => True end.
Definition reader_of (mask : option bytes) : ws_role :=
  match mask with Some _ => WsServer | None => WsClient end.

Local Opaque to_be.
Lemma ws_header_frame : forall mask payload rest,
  mask_ok mask -> blen payload < 2 ^ 64 ->
  ws_header (ws_frame mask payload ++ rest) =
  Some (mkWsHdr true false 2 mask (blen payload),
        match mask with Some k => unmask k payload | None => payload end ++ rest).
Proof.
  intros mask payload rest Hm Hl. unfold ws_frame.
  set (n := blen payload) in *.
  set (m := match mask with Some _ => 128 | None => 0 end).
  assert (Hm' : m = 0 \/ m = 128) by (unfold m; destruct mask; auto).
  assert (Hb0 : N.testbit 130 7 = true) by reflexivity.
  assert (Hr0 : N.land 130 112 = 0) by reflexivity.
  assert (Ho0 : N.land 130 15 = 2) by reflexivity.
  assert (Hmask : N.testbit (m + 126) 7 = (m =? 128) /\ N.testbit (m + 127) 7 = (m =? 128)).
  { split; apply testbit7; auto; lia. }
  assert (Htail : forall (pre : bytes),
     (if (m =? 128)
      then if Nat.ltb (length (match mask with Some k => k ++ unmask k payload | None => payload end ++ rest)) 4 then None
           else Some (mkWsHdr true false 2 (Some (firstn 4 (match mask with Some k => k ++ unmask k payload | None => payload end ++ rest))) n,
                      skipn 4 (match mask with Some k => k ++ unmask k payload | None => payload end ++ rest))
      else Some (mkWsHdr true false 2 None n, match mask with Some k => k ++ unmask k payload | None => payload end ++ rest)) =
     Some (mkWsHdr true false 2 mask n, match mask with Some k => unmask k payload | None => payload end ++ rest)).
  { intros _. destruct mask as [k|]; simpl in Hm; unfold m; simpl.
    - destruct k as [|k0 [|k1 [|k2 [|k3 [|]]]]]; try discriminate. simpl. reflexivity.
    - reflexivity. }
  destruct (n <? 126) eqn:E1.
  - apply N.ltb_lt in E1. simpl app.
    unfold ws_header. rewrite land_127 by (auto; lia).
    replace (n =? 126) with false by (symmetry; apply N.eqb_neq; lia).
    replace (n =? 127) with false by (symmetry; apply N.eqb_neq; lia).
    simpl Nat.ltb. cbv iota. simpl skipn.
    rewrite testbit7 by (auto; lia). rewrite Hb0, Hr0, Ho0. simpl negb.
    apply (Htail []).
  - destruct (n <? 65536) eqn:E2.
    + apply N.ltb_lt in E2. apply N.ltb_ge in E1.
      simpl app. unfold ws_header. rewrite land_127 by (auto; lia).
      change (126 =? 126) with true. cbv iota.
      rewrite <- app_assoc.
      assert (Hlen : length (to_be 2 n) = 2%nat) by apply to_be_length.
      replace (Nat.ltb (length (to_be 2 n ++ match mask with Some k => k ++ unmask k payload | None => payload end ++ rest)) 2) with false
        by (symmetry; apply Nat.ltb_ge; rewrite app_length; lia).
      rewrite firstn_app, Hlen, Nat.sub_diag, firstn_O, app_nil_r, (firstn_all2 (n:=2)) by lia.
      rewrite skipn_app, Hlen, Nat.sub_diag, (skipn_all2 (n:=2)) by lia. simpl app.
      rewrite be_n_to_be. rewrite N.mul_0_l, N.add_0_l. change (256 ^ N.of_nat 2) with 65536.
      rewrite N.mod_small by lia.
      destruct Hmask as [Hk _]. rewrite Hk, Hb0, Hr0, Ho0. simpl negb.
      apply (Htail []).
    + apply N.ltb_ge in E1. apply N.ltb_ge in E2.
      simpl app. unfold ws_header. rewrite land_127 by (auto; lia).
      change (127 =? 126) with false. change (127 =? 127) with true. cbv iota.
      rewrite <- app_assoc.
      assert (Hlen : length (to_be 8 n) = 8%nat) by apply to_be_length.
      replace (Nat.ltb (length (to_be 8 n ++ match mask with Some k => k ++ unmask k payload | None => payload end ++ rest)) 8) with false
        by (symmetry; apply Nat.ltb_ge; rewrite app_length; lia).
      rewrite firstn_app, Hlen, Nat.sub_diag, firstn_O, app_nil_r, (firstn_all2 (n:=8)) by lia.
      rewrite skipn_app, Hlen, Nat.sub_diag, (skipn_all2 (n:=8)) by lia. simpl app.
      rewrite be_n_to_be. rewrite N.mul_0_l, N.add_0_l. change (256 ^ N.of_nat 8) with (2 ^ 64).
      rewrite N.mod_small by lia.
      destruct Hmask as [_ Hk]. rewrite Hk, Hb0, Hr0, Ho0. simpl negb.
      apply (Htail []).
Qed.

Lemma firstn_app_len : forall (l r : bytes) n, n = length l -> firstn n (l ++ r) = l.
Proof. intros; subst. rewrite firstn_app, Nat.sub_diag, firstn_O, app_nil_r. apply firstn_all. Qed.
Lemma skipn_app_len : forall (l r : bytes) n, n = length l -> skipn n (l ++ r) = r.
Proof. intros; subst. rewrite skipn_app, Nat.sub_diag, skipn_all. reflexivity. Qed.

Lemma ws_read_frame : forall f mask payload rest out,
  mask_ok mask -> blen payload <= WS_MAX_FRAME ->
  ws_read (S f) (reader_of mask) None (ws_frame mask payload ++ rest) out =
  ws_read f (reader_of mask) None rest (out ++ payload).
Proof.
  intros f mask payload rest out Hm Hl.
  assert (H64 : blen payload < 2 ^ 64).
  { eapply N.le_lt_trans; [exact Hl|]. reflexivity. }
  cbn [ws_read]. rewrite (ws_header_frame mask payload rest Hm H64).
  cbn [h_op h_len h_mask h_rsv h_fin].
  change (ws_reserved_op 2) with false. cbv iota.
  replace (WS_MAX_FRAME <? blen payload) with false by (symmetry; apply N.ltb_ge; exact Hl).
  assert (Hn : N.to_nat (blen payload) = length payload) by (unfold blen; apply Nat2N.id).
  rewrite Hn.
  change (8 <=? 2) with false. change (2 =? 0) with false. change (2 =? 1) with false.
  destruct mask as [k|]; cbn [reader_of]; cbv iota.
  - assert (Hbl : length (unmask k payload) = length payload) by apply unmask_length.
    replace (blen (unmask k payload ++ rest) <? blen payload) with false.
    2:{ symmetry. apply N.ltb_ge. unfold blen. rewrite app_length, Hbl. lia. }
    rewrite firstn_app_len by (symmetry; exact Hbl).
    rewrite skipn_app_len by (symmetry; exact Hbl).
    rewrite unmask_involutive. reflexivity.
  - replace (blen (payload ++ rest) <? blen payload) with false.
    2:{ symmetry. apply N.ltb_ge. unfold blen. rewrite app_length. lia. }
    rewrite firstn_app_len by reflexivity.
    rewrite skipn_app_len by reflexivity.
    reflexivity.
Qed.

Theorem ws_roundtrip : forall chunks mask f out,
  mask_ok mask -> Forall (fun c => blen c <= WS_MAX_FRAME) chunks -> (length chunks < f)%nat ->
  ws_read f (reader_of mask) None (concat (map (ws_frame mask) chunks)) out = out ++ concat chunks.
Proof.
  induction chunks as [|c t IH]; intros mask f out Hm Hall Hf.
  - simpl. rewrite app_nil_r. destruct f; [reflexivity|]. reflexivity.
  - destruct f as [|f]; [simpl in Hf; lia|].
    inversion Hall; subst. cbn [map concat].
    rewrite ws_read_frame by assumption.
    rewrite IH by (try assumption; simpl in Hf; lia).
    rewrite <- app_assoc. reflexivity.
Qed.

Lemma ws_frame_length : forall mask payload, (2 <= length (ws_frame mask payload))%nat.
Proof.
  intros. unfold ws_frame. rewrite app_length. simpl length at 1.
  destruct (blen payload <? 126); [|destruct (blen payload <? 65536)]; rewrite app_length; simpl; lia.
Qed.

Theorem ws_run_roundtrip : forall chunks mask,
  mask_ok mask -> Forall (fun c => blen c <= WS_MAX_FRAME) chunks ->
  ws_run (reader_of mask) (concat (map (ws_frame mask) chunks)) = concat chunks.
Proof.
  intros chunks mask Hm Hall. unfold ws_run.
  rewrite ws_roundtrip; [reflexivity|assumption|assumption|].
  assert (H : forall l, (length l <= length (concat (map (ws_frame mask) l)))%nat).
  { induction l as [|x l IHl]; simpl; [lia|]. rewrite app_length. pose proof (ws_frame_length mask x). lia. }
  specialize (H chunks). lia.
Qed.

(* ================================================================== Noise *)
Lemma firstn_skipn_len : forall (n : nat) (r : bytes), (n <= length r)%nat -> length (firstn n r) = n.
Proof. intros. rewrite firstn_length. lia. Qed.

(* a handshake message never exceeds what its two length bytes can announce, and is cut out of
   the stream exactly *)
Theorem hs_frame_spec : forall b m r, bytes_ok b = true -> hs_frame b = Some (m, r) ->
  blen m <= 65535 /\ exists h l, b = h :: l :: m ++ r /\ blen m = h * 256 + l.
Proof.
  intros b m r Hok H. unfold hs_frame in H.
  destruct b as [|h [|l t]]; try discriminate.
  destruct (blen t <? h * 256 + l) eqn:E; [discriminate|].
  apply N.ltb_ge in E. inversion H; subst; clear H.
  assert (Hlen : blen (firstn (N.to_nat (h * 256 + l)) t) = h * 256 + l).
  { unfold blen in *. rewrite firstn_length. lia. }
  split.
  - rewrite Hlen. unfold bytes_ok in Hok. simpl in Hok.
    apply andb_prop in Hok. destruct Hok as [Hh Hok]. apply andb_prop in Hok. destruct Hok as [Hl _].
    unfold is_byte in *. apply N.ltb_lt in Hh. apply N.ltb_lt in Hl. lia.
  - exists h, l. rewrite firstn_skipn. split; [reflexivity|exact Hlen].
Qed.

(* raw bytes never authenticate: every outcome is an error *)
Theorem noise_raw_rejects : forall role b, noise_raw role b = 1 \/ noise_raw role b = 2.
Proof.
  intros. unfold noise_raw.
  destruct (role =? 1).
  - destruct (hs_frame b) as [[m1 r]|]; [|auto].
    destruct (blen m1 <? 32); [auto|]. destruct (hs_frame r) as [[? ?]|]; auto.
  - destruct (hs_frame b) as [[? ?]|]; auto.
Qed.

(* a peer is reported only for a payload that decodes, carries a key the curve check accepts and
   a signature the oracle confirms; the identity is the peer id of THAT key *)
Theorem noise_identity_ok : forall o p t,
  noise_identity_result o p = 0 :: t ->
  exists m k pk sg,
    dec_noise p = Some m /\ n_key m = Some k /\ remote_key o k = Some pk /\ n_sig m = Some sg /\
    orc_flag o 7 (pk ++ sg) = true /\ t = blen (peer_of_ed25519 pk) :: peer_of_ed25519 pk.
Proof.
  intros o p t H. unfold noise_identity_result in H.
  destruct (dec_noise p) as [m|] eqn:Em; [|discriminate].
  destruct (n_key m) as [k|] eqn:Ek; [|discriminate].
  destruct (remote_key o k) as [pk|] eqn:Er; [|discriminate].
  destruct (n_sig m) as [sg|] eqn:Es; [|discriminate].
  destruct (orc_flag o 7 (pk ++ sg)) eqn:Ef; [|discriminate].
  inversion H; subst. exists m, k, pk, sg. repeat split; auto.
Qed.

(* a length prefix that differs from the true message length never yields a peer *)
Theorem noise_length_lie_rejected : forall role o p d,
  d <> noise_msg_len role p -> noise_active role o p (Some d) = [1] \/ noise_active role o p (Some d) = [2].
Proof.
  intros role o p d Hd. unfold noise_active.
  destruct (noise_msg_len role p <? d) eqn:E1; [auto|].
  destruct (d <? noise_msg_len role p) eqn:E2; [auto|].
  apply N.ltb_ge in E1. apply N.ltb_ge in E2. lia.
Qed.

(* ================================================================== mDNS *)
Lemma filter_map_In : forall {A B} (f : A -> option B) l y,
  In y (filter_map f l) -> exists x, In x l /\ f x = Some y.
Proof.
  induction l as [|x t IH]; intros y H; simpl in H; [contradiction|].
  destruct (f x) as [z|] eqn:E.
  - destruct H as [H|H]; [subst; exists x; split; [left; reflexivity|exact E]|].
    destruct (IH _ H) as [x' [Hi Hf]]. exists x'. split; [right; exact Hi|exact Hf].
  - destruct (IH _ H) as [x' [Hi Hf]]. exists x'. split; [right; exact Hi|exact Hf].
Qed.

Lemma filter_map_length : forall {A B} (f : A -> option B) l, (length (filter_map f l) <= length l)%nat.
Proof. induction l; simpl; [lia|]. destruct (f a); simpl; lia. Qed.

(* every reported address is the parse of a TXT value of an additional record *)
Theorem mdns_response_sound : forall user o answers extra a,
  In a (mdns_response user o answers extra) ->
  exists x vals v, In x extra /\ mx_txt x = Some vals /\ In v vals /\ orc_find o 6 v = Some (1 :: a).
Proof.
  intros user o answers extra a H. unfold mdns_response in H.
  match type of H with In _ (match ?names with _ => _ end) => destruct names as [|n0 rest] end; [contradiction|].
  apply in_flat_map in H. destruct H as [x [Hx Ha]].
  destruct (names_eqb (mx_name x) n0); [|contradiction].
  destruct (mx_txt x) as [vals|] eqn:Et; [|contradiction].
  apply filter_map_In in Ha. destruct Ha as [v [Hv Hf]].
  exists x, vals, v. repeat split; auto.
  destruct (orc_find o 6 v) as [[|[|p] t]|]; try discriminate.
  destruct p; try discriminate. inversion Hf; subst. reflexivity.
Qed.

Definition txt_count (extra : list md_extra) : nat :=
  fold_right (fun x n => (match mx_txt x with Some vals => length vals | None => 0 end + n)%nat) 0%nat extra.

(* ... and there are at most as many as TXT values in the packet *)
Theorem mdns_response_count : forall user o answers extra,
  (length (mdns_response user o answers extra) <= txt_count extra)%nat.
Proof.
  intros. unfold mdns_response.
  match goal with |- context [match ?names with _ => _ end] => destruct names as [|n0 rest] end; [simpl; lia|].
  induction extra as [|x t IH]; [simpl; lia|].
  cbn [flat_map]. rewrite app_length.
  change (txt_count (x :: t)) with ((match mx_txt x with Some vals => length vals | None => 0 end + txt_count t)%nat).
  apply Nat.add_le_mono; [|exact IH].
  destruct (names_eqb (mx_name x) n0); destruct (mx_txt x) as [vals|]; simpl; try lia.
  apply filter_map_length.
Qed.

(* a response in which every PTR answer names ourselves (or another service) reports nothing *)
Theorem mdns_own_name_ignored : forall user o answers extra,
  Forall (fun a => names_eqb (ma_name a) SERVICE_NAME = false \/ ma_ptr a = None \/ ma_ptr a = Some [user]) answers ->
  nlist_eqb user user = true ->
  mdns_response user o answers extra = [].
Proof.
  intros user o answers extra Hall Hrefl. unfold mdns_response.
  match goal with |- match ?names with _ => _ end = _ => assert (Hn : names = []) end.
  { induction answers as [|a t IH]; [reflexivity|].
    inversion Hall; subst. simpl.
    destruct H1 as [H|[H|H]].
    - rewrite H. apply IH. assumption.
    - rewrite H. destruct (names_eqb (ma_name a) SERVICE_NAME); apply IH; assumption.
    - rewrite H. destruct (names_eqb (ma_name a) SERVICE_NAME); [|apply IH; assumption].
      unfold names_eqb at 1. simpl. rewrite Hrefl. simpl. apply IH. assumption. }
  rewrite Hn. reflexivity.
Qed.
