(* C19 — lemmas about the decoder models. *)
From Coq Require Import List Arith NArith Bool Lia.
From Coq Require Import ZifyBool ZifyNat ZifyN.
From V.gen Require Consts.
From V.common Require Import Wire Varint Protobuf.
From V.C18 Require Model Proofs.
From V.C03 Require Model Proofs.
From V.C19 Require Import Model.
Import ListNotations.
Open Scope N_scope.

Arguments N.add : simpl never.
Arguments N.mul : simpl never.
Arguments N.sub : simpl never.
Arguments N.ltb : simpl never.
Arguments N.leb : simpl never.
Arguments N.div : simpl never.
Arguments N.modulo : simpl never.
Arguments N.pow : simpl never.
Arguments N.of_nat : simpl never.
Arguments N.to_nat : simpl never.
Arguments encode : simpl never.
Arguments encode_fields : simpl never.
Arguments utf8_ok : simpl never.
Arguments to_u32 : simpl never.
Arguments i32_to_u64 : simpl never.
Arguments pb_parse_sub : simpl never.
Arguments pb_parse : simpl never.

(* ------------------------------------------------------------------ fold_opt *)
Lemma fold_opt_app {M} (step : M -> field -> option M) a b m :
  fold_opt step (a ++ b) m =
  match fold_opt step a m with Some m' => fold_opt step b m' | None => None end.
Proof.
  revert m. induction a as [|f a IH]; intros m; [reflexivity|].
  cbn [app fold_opt]. destruct (step m f); [apply IH|reflexivity].
Qed.

(* cost of a token: its key (>= 1 byte) plus its payload *)
Definition fcost (f : field) : nat := S (wpayload (snd f)).

Lemma fold_opt_size {M} (step : M -> field -> option M) (size : M -> nat) :
  (forall m f m', step m f = Some m' -> (size m' <= size m + fcost f)%nat) ->
  forall fs m m', fold_opt step fs m = Some m' ->
  (size m' <= size m + (length fs + fields_payload fs))%nat.
Proof.
  intros H. induction fs as [|f fs IH]; intros m m' E.
  - injection E as <-. cbn. lia.
  - cbn [fold_opt] in E. destruct (step m f) as [m1|] eqn:S1; [|discriminate].
    specialize (H _ _ _ S1). specialize (IH _ _ E). unfold fcost in H.
    cbn [length fields_payload fold_right]. fold (fields_payload fs). lia.
Qed.

Lemma fold_opt_map {M A} (step : M -> field -> option M) (mk : A -> field) (upd : M -> A -> M)
      (P : A -> Prop) :
  (forall m a, P a -> step m (mk a) = Some (upd m a)) ->
  forall l m, Forall P l -> fold_opt step (map mk l) m = Some (fold_left upd l m).
Proof.
  intros H. induction l as [|a l IH]; intros m F; [reflexivity|].
  inversion F as [|? ? Pa F']; subst. cbn [map fold_opt fold_left]. rewrite (H m a Pa). apply IH. exact F'.
Qed.

Definition lsum {A} (f : A -> nat) (l : list A) : nat := fold_right (fun x acc => (f x + acc)%nat) O l.
Lemma lsum_app {A} (f : A -> nat) a b : lsum f (a ++ b) = (lsum f a + lsum f b)%nat.
Proof. induction a as [|x a IH]; cbn [app lsum fold_right]; [reflexivity|]. fold (lsum f (a ++ b)). fold (lsum f a). lia. Qed.
Lemma lsum_cons {A} (f : A -> nat) x l : lsum f (x :: l) = (f x + lsum f l)%nat.
Proof. reflexivity. Qed.
Lemma lsum_rev {A} (f : A -> nat) l : lsum f (rev l) = lsum f l.
Proof.
  induction l as [|x l IH]; [reflexivity|]. cbn [rev]. rewrite lsum_app, IH.
  change (lsum f (x :: l)) with (f x + lsum f l)%nat. change (lsum f [x]) with (f x + 0)%nat. lia.
Qed.
Lemma lsum_one {A} (f : A -> nat) x : lsum f [x] = f x.
Proof. cbn. lia. Qed.
Lemma lsum_ge_length {A} (f : A -> nat) l : (forall x, 1 <= f x)%nat -> (length l <= lsum f l)%nat.
Proof.
  intros H. induction l as [|x l IH]; cbn [length lsum fold_right]; [lia|]. fold (lsum f l). specialize (H x). lia.
Qed.

Lemma sub_fields_size ctx b fs : sub_fields ctx b = Some fs ->
  (length fs + fields_payload fs <= length b)%nat.
Proof.
  unfold sub_fields. destruct (pb_parse_sub ctx b) as [x| |] eqn:E; cbn [res_opt]; try discriminate.
  intros [= <-]. apply (pb_parse_sub_size _ _ _ E).
Qed.
Lemma top_fields_size b fs : top_fields b = Some fs ->
  (length fs + fields_payload fs <= length b)%nat.
Proof.
  unfold top_fields. destruct (pb_parse b) as [x| |] eqn:E; cbn [res_opt]; try discriminate.
  intros [= <-]. apply (parse_fields_size _ _ _ E).
Qed.

(* totality of the protobuf layer as used by every schema: the tokeniser never runs out of fuel,
   so `None` always means a genuine decode error *)
Lemma top_fields_total b : pb_parse b <> OutOfFuel.
Proof. apply parse_fields_fuel. Qed.
Lemma sub_fields_total ctx b : pb_parse_sub ctx b <> OutOfFuel.
Proof. apply pb_parse_sub_fuel. Qed.

(* splitting a step: case analysis on the field number tests and the wire value *)
Ltac step_cases :=
  repeat match goal with
         | |- context [if ?c then _ else _] => destruct c eqn:?
         | |- context [match ?v with WVarint _ => _ | _ => _ end] => destruct v
         | H : context [if ?c then _ else _] |- _ => destruct c eqn:?
         | H : context [match ?v with WVarint _ => _ | _ => _ end] |- _ => destruct v
         end.

(* ================================================================== Kademlia: sizes *)
Definition size_krecord (r : krecord) : nat :=
  (length (r_key r) + length (r_value r) + length (r_time r) + length (r_publisher r))%nat.
Definition size_kpeer (p : kpeer) : nat := (length (p_id p) + lsum (fun a => S (length a)) (p_addrs p))%nat.
Definition size_kmsg (m : kmsg) : nat :=
  (length (m_key m) + match m_record m with Some r => size_krecord r | None => O end +
   lsum (fun p => S (size_kpeer p)) (m_closer m) + lsum (fun p => S (size_kpeer p)) (m_provider m))%nat.

Lemma krecord_step_size m f m' : krecord_step m f = Some m' ->
  (size_krecord m' <= size_krecord m + fcost f)%nat.
Proof.
  destruct f as [num v]. unfold krecord_step, fcost, size_krecord. cbn [snd].
  intros H. step_cases; try discriminate; injection H as <-; cbn [r_key r_value r_time r_publisher wpayload]; lia.
Qed.

Lemma kpeer_step_size m f m' : kpeer_step m f = Some m' ->
  (size_kpeer m' <= size_kpeer m + fcost f)%nat.
Proof.
  destruct f as [num v]. unfold kpeer_step, fcost, size_kpeer. cbn [snd].
  intros H. step_cases; try discriminate; injection H as <-; cbn [p_id p_addrs wpayload];
    rewrite ?lsum_app, ?lsum_one; lia.
Qed.

Lemma dec_kpeer_size ctx b p : dec_kpeer ctx b = Some p -> (size_kpeer p <= length b)%nat.
Proof.
  unfold dec_kpeer. destruct (sub_fields ctx b) as [fs|] eqn:E; [|discriminate]. intros H.
  pose proof (fold_opt_size kpeer_step size_kpeer kpeer_step_size _ _ _ H) as S.
  pose proof (sub_fields_size _ _ _ E). cbn in S. lia.
Qed.

Lemma kmsg_step_size ctx m f m' : kmsg_step ctx m f = Some m' ->
  (size_kmsg m' <= size_kmsg m + fcost f)%nat.
Proof.
  destruct f as [num v]. unfold kmsg_step, fcost. cbn [snd]. intros H.
  destruct (num =? 1); [destruct v; try discriminate; injection H as <-; unfold size_kmsg; cbn [m_key m_record m_closer m_provider wpayload]; lia|].
  destruct (num =? 10); [destruct v; try discriminate; injection H as <-; unfold size_kmsg; cbn [m_key m_record m_closer m_provider wpayload]; lia|].
  destruct (num =? 2); [destruct v; try discriminate; injection H as <-; unfold size_kmsg; cbn [m_key m_record m_closer m_provider wpayload]; lia|].
  destruct (num =? 3).
  { destruct v as [|?|b|?|]; try discriminate.
    destruct (sub_fields ctx b) as [fs|] eqn:E; [|discriminate].
    destruct (fold_opt krecord_step fs _) as [r|] eqn:F; [|discriminate]. injection H as <-.
    pose proof (fold_opt_size krecord_step size_krecord krecord_step_size _ _ _ F) as S.
    pose proof (sub_fields_size _ _ _ E). unfold size_kmsg. cbn [m_key m_record m_closer m_provider wpayload].
    destruct (m_record m); cbn in S; lia. }
  destruct (num =? 8).
  { destruct v as [|?|b|?|]; try discriminate. destruct (dec_kpeer ctx b) as [p|] eqn:D; [|discriminate].
    injection H as <-. pose proof (dec_kpeer_size _ _ _ D). unfold size_kmsg.
    cbn [m_key m_record m_closer m_provider wpayload]. rewrite lsum_app, lsum_one. lia. }
  destruct (num =? 9).
  { destruct v as [|?|b|?|]; try discriminate. destruct (dec_kpeer ctx b) as [p|] eqn:D; [|discriminate].
    injection H as <-. pose proof (dec_kpeer_size _ _ _ D). unfold size_kmsg.
    cbn [m_key m_record m_closer m_provider wpayload]. rewrite lsum_app, lsum_one. lia. }
  injection H as <-. lia.
Qed.

(* everything the prost decoder materialises for a Kademlia message (all byte strings, one unit
   per peer and per address) fits in the input *)
Lemma dec_kmsg_size b m : dec_kmsg b = Some m -> (size_kmsg m <= length b)%nat.
Proof.
  unfold dec_kmsg. destruct (top_fields b) as [fs|] eqn:E; [|discriminate]. intros H.
  pose proof (fold_opt_size _ size_kmsg (kmsg_step_size RECURSION_LIMIT) _ _ _ H) as S.
  pose proof (top_fields_size _ _ E). cbn in S. lia.
Qed.

Lemma dec_kmsg_peers b m : dec_kmsg b = Some m ->
  (2 * (length (m_closer m) + length (m_provider m)) <= length b)%nat.
Proof.
  (* each peer is a token of at least two bytes: via the token count *)
  unfold dec_kmsg. destruct (top_fields b) as [fs|] eqn:E; [|discriminate]. intros H.
  assert (G : forall fs m m', fold_opt (kmsg_step RECURSION_LIMIT) fs m = Some m' ->
              (length (m_closer m') + length (m_provider m') <= length (m_closer m) + length (m_provider m) + length fs)%nat).
  { clear. induction fs as [|[num v] fs IH]; intros m m' H.
    - injection H as <-. cbn. lia.
    - cbn [fold_opt] in H. destruct (kmsg_step RECURSION_LIMIT m (num, v)) as [m1|] eqn:S1; [|discriminate].
      specialize (IH _ _ H). cbn [length].
      assert ((length (m_closer m1) + length (m_provider m1) <= S (length (m_closer m) + length (m_provider m)))%nat).
      { clear - S1. unfold kmsg_step in S1. step_cases; try discriminate;
          repeat match goal with H : context [match ?x with Some _ => _ | None => _ end] |- _ => destruct x eqn:? end;
          try discriminate; injection S1 as <-; cbn [m_closer m_provider]; rewrite ?app_length; cbn [length]; lia. }
      lia. }
  specialize (G _ _ _ H). cbn in G.
  unfold top_fields in E. destruct (pb_parse b) as [x| |] eqn:P; cbn [res_opt] in E; try discriminate.
  injection E as ->. pose proof (parse_fields_size _ _ _ P). lia.
Qed.

(* ================================================================== Kademlia: caps *)
Lemma conv_peers_cap o k ps : (length (conv_peers o k ps) <= k)%nat.
Proof. unfold conv_peers. rewrite firstn_length. lia. Qed.

Lemma filter_map_length {A B} (f : A -> option B) l : (length (filter_map f l) <= length l)%nat.
Proof. induction l as [|x l IH]; cbn [filter_map length]; [lia|]. destruct (f x); cbn [length]; lia. Qed.

Lemma conv_peers_le o k ps : (length (conv_peers o k ps) <= length ps)%nat.
Proof. unfold conv_peers. rewrite firstn_length. pose proof (filter_map_length (conv_peer o) ps). lia. Qed.

Definition kad_peer_lists (m : kad_message) : list (list kad_peer) :=
  match m with
  | KFindNode _ ps | KGetRecord _ _ ps | KAddProvider _ ps => [ps]
  | KPutValue _ => []
  | KGetProviders _ ps qs => [ps; qs]
  end.

Lemma kad_of_kmsg_cap k o m r : kad_of_kmsg k o m = Some r ->
  Forall (fun ps => (length ps <= k)%nat) (kad_peer_lists r).
Proof.
  unfold kad_of_kmsg. intros H.
  repeat match goal with
         | H : context [if ?c then _ else _] |- _ => destruct c
         | H : context [match ?x with Some _ => _ | None => _ end] |- _ => destruct x
         end; try discriminate; injection H as <-; cbn [kad_peer_lists];
    repeat constructor; apply conv_peers_cap.
Qed.

Lemma kad_from_bytes_cap k o b r : kad_from_bytes k o b = Some r ->
  Forall (fun ps => (length ps <= k)%nat) (kad_peer_lists r).
Proof.
  unfold kad_from_bytes. destruct (dec_kmsg b); [|discriminate]. apply kad_of_kmsg_cap.
Qed.

(* ================================================================== Kademlia: round trip *)
Definition wf_bytes (b : bytes) : Prop := blen b < 2 ^ 64.

Lemma is_nil_spec {A} (l : list A) : is_nil l = true <-> l = [].
Proof. destruct l; cbn; split; congruence. Qed.

Lemma fold_addrs l : forall m,
  fold_left (fun m a => mkKPeer (p_id m) (p_addrs m ++ [a]) (p_conn m)) l m =
  mkKPeer (p_id m) (p_addrs m ++ l) (p_conn m).
Proof.
  induction l as [|a l IH]; intros m; cbn [fold_left].
  - rewrite app_nil_r. destruct m; reflexivity.
  - rewrite IH. cbn [p_id p_addrs p_conn]. rewrite <- app_assoc. reflexivity.
Qed.

Definition wf_kpeer (p : kpeer) : Prop :=
  wf_bytes (p_id p) /\ Forall wf_bytes (p_addrs p) /\ p_conn p < 2 ^ 32.

Lemma wf_num_lit n : 1 <= n -> n < 2 ^ 29 -> wf_num n.
Proof. intros; split; assumption. Qed.

Ltac wfn := cbn [fst snd]; apply wf_num_lit; [lia | rewrite two29; lia].

Lemma f_bytes3_wf num b : wf_num num -> wf_bytes b -> Forall wf_field (f_bytes3 num b).
Proof.
  intros Hn Hb. unfold f_bytes3. destruct (is_nil b); [constructor|].
  constructor; [split; [exact Hn|exact Hb]|constructor].
Qed.

Lemma f_int3_wf num n : wf_num num -> n < 2 ^ 32 -> Forall wf_field (f_int3 num n).
Proof.
  intros Hn Hv. unfold f_int3. destruct (n =? 0); [constructor|].
  constructor; [split; [exact Hn|]|constructor]. cbn [snd]. apply i32_roundtrip. exact Hv.
Qed.

Lemma f_rep_bytes_wf num l : wf_num num -> Forall wf_bytes l -> Forall wf_field (f_rep_bytes num l).
Proof.
  intros Hn Hl. unfold f_rep_bytes. apply Forall_map. eapply Forall_impl; [|exact Hl].
  intros a Ha. split; [exact Hn|exact Ha].
Qed.

Lemma fields_kpeer_wf p : wf_kpeer p -> Forall wf_field (fields_kpeer p).
Proof.
  intros (Wi & Wa & Wc). unfold fields_kpeer. rewrite !Forall_app. repeat split.
  - apply f_bytes3_wf; [wfn|exact Wi].
  - apply f_rep_bytes_wf; [wfn|exact Wa].
  - apply f_int3_wf; [wfn|exact Wc].
Qed.

Lemma kpeer_fold p : wf_kpeer p -> fold_opt kpeer_step (fields_kpeer p) kpeer0 = Some p.
Proof.
  intros (Wi & Wa & Wc). destruct p as [id addrs conn]. cbn [p_id p_addrs p_conn] in *.
  unfold fields_kpeer. cbn [p_id p_addrs p_conn]. rewrite !fold_opt_app.
  assert (E1 : fold_opt kpeer_step (f_bytes3 1 id) kpeer0 = Some (mkKPeer id [] 0)).
  { unfold f_bytes3. destruct id; reflexivity. }
  rewrite E1. rewrite ?fold_opt_app. unfold f_rep_bytes.
  rewrite (fold_opt_map kpeer_step (fun b => (2, WLen b))
             (fun m a => mkKPeer (p_id m) (p_addrs m ++ [a]) (p_conn m)) (fun _ => True));
    [|intros; reflexivity|apply Forall_forall; auto].
  rewrite fold_addrs. cbn [p_id p_addrs p_conn app].
  unfold f_int3. destruct (conn =? 0) eqn:E0.
  - apply N.eqb_eq in E0. subst. reflexivity.
  - cbn [fold_opt kpeer_step]. cbn. destruct (i32_roundtrip conn Wc) as [-> _]. reflexivity.
Qed.

Lemma dec_enc_kpeer ctx p : 1 <= ctx -> wf_kpeer p -> dec_kpeer ctx (enc_kpeer p) = Some p.
Proof.
  intros Hc W. unfold dec_kpeer, enc_kpeer, sub_fields.
  rewrite pb_parse_sub_encode by (try exact Hc; apply fields_kpeer_wf; exact W).
  cbn [res_opt]. apply kpeer_fold. exact W.
Qed.

Definition wf_krecord (r : krecord) : Prop :=
  wf_bytes (r_key r) /\ wf_bytes (r_value r) /\ wf_bytes (r_time r) /\ utf8_ok (r_time r) = true /\
  wf_bytes (r_publisher r) /\ r_ttl r < 2 ^ 32.

Lemma fields_krecord_wf r : wf_krecord r -> Forall wf_field (fields_krecord r).
Proof.
  intros (W1 & W2 & W3 & _ & W4 & W5). unfold fields_krecord. rewrite !Forall_app.
  repeat split; try (apply f_bytes3_wf; [wfn|assumption]).
  unfold f_u32_3. destruct (r_ttl r =? 0); [constructor|].
  constructor; [split; [wfn|]|constructor]. cbn [snd]. rewrite two64. rewrite two32 in W5. lia.
Qed.

Lemma krecord_fold r : wf_krecord r -> fold_opt krecord_step (fields_krecord r) krecord0 = Some r.
Proof.
  intros (W1 & W2 & W3 & U & W4 & W5). destruct r as [k v t p ttl]. cbn [r_key r_value r_time r_publisher r_ttl] in *.
  unfold fields_krecord. cbn [r_key r_value r_time r_publisher r_ttl]. rewrite !fold_opt_app.
  assert (E1 : fold_opt krecord_step (f_bytes3 1 k) krecord0 = Some (mkKRec k [] [] [] 0)) by (destruct k; reflexivity).
  rewrite E1. rewrite ?fold_opt_app.
  assert (E2 : fold_opt krecord_step (f_bytes3 2 v) (mkKRec k [] [] [] 0) = Some (mkKRec k v [] [] 0)) by (destruct v; reflexivity).
  rewrite E2. rewrite ?fold_opt_app.
  assert (E3 : fold_opt krecord_step (f_bytes3 5 t) (mkKRec k v [] [] 0) = Some (mkKRec k v t [] 0)).
  { unfold f_bytes3. destruct t as [|x t]; [reflexivity|]. cbn [is_nil fold_opt krecord_step]. cbn. rewrite U. reflexivity. }
  rewrite E3. rewrite ?fold_opt_app.
  assert (E4 : fold_opt krecord_step (f_bytes3 666 p) (mkKRec k v t [] 0) = Some (mkKRec k v t p 0)) by (destruct p; reflexivity).
  rewrite E4. rewrite ?fold_opt_app. unfold f_u32_3. destruct (ttl =? 0) eqn:E0.
  - apply N.eqb_eq in E0. subst. reflexivity.
  - cbn [fold_opt krecord_step]. cbn. rewrite to_u32_small by exact W5. reflexivity.
Qed.

Definition wf_kmsg (m : kmsg) : Prop :=
  m_type m < 2 ^ 32 /\ m_cluster m < 2 ^ 32 /\ wf_bytes (m_key m) /\
  match m_record m with Some r => wf_krecord r /\ wf_bytes (encode_fields (fields_krecord r)) | None => True end /\
  Forall (fun p => wf_kpeer p /\ wf_bytes (enc_kpeer p)) (m_closer m) /\
  Forall (fun p => wf_kpeer p /\ wf_bytes (enc_kpeer p)) (m_provider m).

Lemma fields_kmsg_wf m : wf_kmsg m -> Forall wf_field (fields_kmsg m).
Proof.
  intros (W1 & W2 & W3 & W4 & W5 & W6). unfold fields_kmsg. rewrite !Forall_app. repeat split.
  - apply f_int3_wf; [wfn|exact W1].
  - apply f_bytes3_wf; [wfn|exact W3].
  - destruct (m_record m); [|constructor]. constructor; [split; [wfn|]|constructor]. cbn [snd]. apply W4.
  - apply Forall_map. eapply Forall_impl; [|exact W5]. intros p [_ Hp]. split; [wfn|exact Hp].
  - apply Forall_map. eapply Forall_impl; [|exact W6]. intros p [_ Hp]. split; [wfn|exact Hp].
  - apply f_int3_wf; [wfn|exact W2].
Qed.

Lemma fold_closer ps : forall m,
  fold_left (fun m p => mkKMsg (m_type m) (m_cluster m) (m_key m) (m_record m) (m_closer m ++ [p]) (m_provider m)) ps m =
  mkKMsg (m_type m) (m_cluster m) (m_key m) (m_record m) (m_closer m ++ ps) (m_provider m).
Proof.
  induction ps as [|p ps IH]; intros m; cbn [fold_left].
  - rewrite app_nil_r. destruct m; reflexivity.
  - rewrite IH. cbn [m_type m_cluster m_key m_record m_closer m_provider]. rewrite <- app_assoc. reflexivity.
Qed.
Lemma fold_provider ps : forall m,
  fold_left (fun m p => mkKMsg (m_type m) (m_cluster m) (m_key m) (m_record m) (m_closer m) (m_provider m ++ [p])) ps m =
  mkKMsg (m_type m) (m_cluster m) (m_key m) (m_record m) (m_closer m) (m_provider m ++ ps).
Proof.
  induction ps as [|p ps IH]; intros m; cbn [fold_left].
  - rewrite app_nil_r. destruct m; reflexivity.
  - rewrite IH. cbn [m_type m_cluster m_key m_record m_closer m_provider]. rewrite <- app_assoc. reflexivity.
Qed.

Lemma rl_pos : 1 <= RECURSION_LIMIT.
Proof. unfold RECURSION_LIMIT. lia. Qed.

Lemma kmsg_fold m : wf_kmsg m -> fold_opt (kmsg_step RECURSION_LIMIT) (fields_kmsg m) kmsg0 = Some m.
Proof.
  intros (W1 & W2 & W3 & W4 & W5 & W6). destruct m as [ty cl key rec closer prov].
  cbn [m_type m_cluster m_key m_record m_closer m_provider] in *.
  unfold fields_kmsg. cbn [m_type m_cluster m_key m_record m_closer m_provider]. rewrite !fold_opt_app.
  assert (E1 : fold_opt (kmsg_step RECURSION_LIMIT) (f_int3 1 ty) kmsg0 = Some (mkKMsg ty 0 [] None [] [])).
  { unfold f_int3. destruct (ty =? 0) eqn:E0; [apply N.eqb_eq in E0; subst; reflexivity|].
    cbn [fold_opt kmsg_step]. cbn. destruct (i32_roundtrip ty W1) as [-> _]. reflexivity. }
  rewrite E1. rewrite ?fold_opt_app.
  assert (E2 : fold_opt (kmsg_step RECURSION_LIMIT) (f_bytes3 2 key) (mkKMsg ty 0 [] None [] []) = Some (mkKMsg ty 0 key None [] []))
    by (destruct key; reflexivity).
  rewrite E2. rewrite ?fold_opt_app.
  match goal with |- context [fold_opt _ ?seg (mkKMsg ty 0 key None [] [])] =>
    assert (E3 : fold_opt (kmsg_step RECURSION_LIMIT) seg (mkKMsg ty 0 key None [] []) = Some (mkKMsg ty 0 key rec [] []))
  end.
  { destruct rec as [r|]; [|reflexivity]. destruct W4 as [Wr _].
    cbn [fold_opt kmsg_step]. cbn [N.eqb Pos.eqb m_record m_type m_cluster m_key m_closer m_provider].
    unfold sub_fields. rewrite pb_parse_sub_encode by (try apply rl_pos; apply fields_krecord_wf; exact Wr).
    cbn [res_opt]. rewrite (krecord_fold r Wr). reflexivity. }
  rewrite E3. rewrite ?fold_opt_app.
  rewrite (fold_opt_map (kmsg_step RECURSION_LIMIT) (fun p => (8, WLen (enc_kpeer p)))
             (fun m p => mkKMsg (m_type m) (m_cluster m) (m_key m) (m_record m) (m_closer m ++ [p]) (m_provider m))
             (fun p => wf_kpeer p /\ wf_bytes (enc_kpeer p)));
    [|intros m0 p [Wp _]; cbn [kmsg_step]; cbn [N.eqb Pos.eqb]; rewrite (dec_enc_kpeer _ p rl_pos Wp); reflexivity|exact W5].
  rewrite fold_closer. cbn [m_type m_cluster m_key m_record m_closer m_provider app]. rewrite ?fold_opt_app.
  rewrite (fold_opt_map (kmsg_step RECURSION_LIMIT) (fun p => (9, WLen (enc_kpeer p)))
             (fun m p => mkKMsg (m_type m) (m_cluster m) (m_key m) (m_record m) (m_closer m) (m_provider m ++ [p]))
             (fun p => wf_kpeer p /\ wf_bytes (enc_kpeer p)));
    [|intros m0 p [Wp _]; cbn [kmsg_step]; cbn [N.eqb Pos.eqb]; rewrite (dec_enc_kpeer _ p rl_pos Wp); reflexivity|exact W6].
  rewrite fold_provider. cbn [m_type m_cluster m_key m_record m_closer m_provider app].
  unfold f_int3. destruct (cl =? 0) eqn:E0; [apply N.eqb_eq in E0; subst; reflexivity|].
  cbn [fold_opt kmsg_step]. cbn. destruct (i32_roundtrip cl W2) as [-> _]. reflexivity.
Qed.

Lemma dec_enc_kmsg m : wf_kmsg m -> dec_kmsg (enc_kmsg m) = Some m.
Proof.
  intros W. unfold dec_kmsg, enc_kmsg, top_fields, pb_parse.
  rewrite pb_parse_encode by (apply fields_kmsg_wf; exact W). cbn [res_opt]. apply kmsg_fold. exact W.
Qed.

(* the decoder applied to the library's encoding performs exactly the post-processing on the
   encoded value *)
Lemma kad_roundtrip k o m : wf_kmsg m -> kad_from_bytes k o (enc_kmsg m) = kad_of_kmsg k o m.
Proof. intros W. unfold kad_from_bytes. rewrite (dec_enc_kmsg m W). reflexivity. Qed.

(* ---- post-processing inverts the conversion to the schema types ---- *)
Definition wf_kad_peer (o : oracle) (p : kad_peer) : Prop :=
  V.C18.Model.valid (kp_pid p) = true /\ kp_conn p < 4 /\
  sort_dedupe (filter (maddr_valid o) (kp_addrs p)) = kp_addrs p.

Lemma conv_schema_peer o p : wf_kad_peer o p -> conv_peer o (schema_peer p) = Some p.
Proof.
  intros (V & C & A). unfold conv_peer, schema_peer. cbn [p_id p_addrs p_conn].
  rewrite (V.C18.Proofs.of_bytes_to_bytes _ V). destruct (4 <=? kp_conn p) eqn:E; [lia|].
  rewrite A. destruct p; reflexivity.
Qed.

Lemma filter_map_schema o ps : Forall (wf_kad_peer o) ps ->
  filter_map (conv_peer o) (map schema_peer ps) = ps.
Proof.
  induction 1 as [|p ps W _ IH]; [reflexivity|]. cbn [map filter_map].
  rewrite (conv_schema_peer o p W), IH. reflexivity.
Qed.

Lemma conv_peers_schema o k ps : Forall (wf_kad_peer o) ps ->
  conv_peers o k (map schema_peer ps) = firstn k ps.
Proof. intros W. unfold conv_peers. rewrite (filter_map_schema o ps W). reflexivity. Qed.

Lemma to_bytes_nonempty p : V.C18.Model.to_bytes p <> [].
Proof.
  unfold V.C18.Model.to_bytes, V.C18.Model.mh_to_bytes. pose proof (encode_spec (V.C18.Model.code p)) as (W & _).
  pose proof (wf_nonempty _ W). destruct (encode (V.C18.Model.code p)); [congruence|discriminate].
Qed.

Definition wf_krec (r : krec) : Prop :=
  match rc_publisher r with Some p => V.C18.Model.valid p = true | None => True end.

Lemma conv_schema_record r : wf_krec r -> conv_record (schema_record r) = Some r.
Proof.
  intros W. unfold conv_record, schema_record, wf_krec in *. cbn [r_key r_value r_publisher r_ttl].
  destruct r as [k v pub ttl]. cbn [rc_key rc_value rc_publisher rc_ttl] in *.
  destruct pub as [p|]; [|reflexivity].
  pose proof (to_bytes_nonempty p) as NE. destruct (V.C18.Model.to_bytes p) eqn:E; [congruence|].
  cbn [is_nil]. rewrite <- E. rewrite (V.C18.Proofs.of_bytes_to_bytes _ W). reflexivity.
Qed.

(* the nine encoders of message.rs, decoded back (k = replication factor of the receiver) *)
Lemma rt_find_node k o key : wf_kmsg (msg_find_node key) ->
  kad_from_bytes k o (enc_kmsg (msg_find_node key)) = Some (KFindNode key []).
Proof.
  intros W. rewrite (kad_roundtrip k o _ W). unfold kad_of_kmsg, msg_find_node, conv_peers.
  cbn [m_type m_key m_closer filter_map N.eqb Pos.eqb]. rewrite firstn_nil. reflexivity.
Qed.

Lemma rt_find_node_response k o key ps :
  wf_kmsg (msg_find_node_response key ps) -> Forall (wf_kad_peer o) ps ->
  kad_from_bytes k o (enc_kmsg (msg_find_node_response key ps)) = Some (KFindNode key (firstn k ps)).
Proof.
  intros W P. rewrite (kad_roundtrip k o _ W). unfold kad_of_kmsg, msg_find_node_response.
  cbn [m_type m_key m_closer N.eqb Pos.eqb]. rewrite (conv_peers_schema o k ps P). reflexivity.
Qed.

Lemma rt_put_value k o r : wf_kmsg (msg_put_value r) -> wf_krec r ->
  kad_from_bytes k o (enc_kmsg (msg_put_value r)) = Some (KPutValue r).
Proof.
  intros W R. rewrite (kad_roundtrip k o _ W). unfold kad_of_kmsg, msg_put_value.
  cbn [m_type m_record N.eqb Pos.eqb]. rewrite (conv_schema_record r R). reflexivity.
Qed.

Lemma rt_get_record k o key : key <> [] -> wf_kmsg (msg_get_record key) ->
  kad_from_bytes k o (enc_kmsg (msg_get_record key)) = Some (KGetRecord (Some key) None []).
Proof.
  intros NE W. rewrite (kad_roundtrip k o _ W). unfold kad_of_kmsg, msg_get_record, conv_peers.
  cbn [m_type m_key m_record m_closer filter_map N.eqb Pos.eqb]. rewrite firstn_nil.
  destruct key; [congruence|reflexivity].
Qed.

Lemma rt_put_value_response k o key value : wf_kmsg (msg_put_value_response key value) ->
  kad_from_bytes k o (enc_kmsg (msg_put_value_response key value)) = Some (KPutValue (mkRec key value None 0)).
Proof.
  intros W. rewrite (kad_roundtrip k o _ W). reflexivity.
Qed.

Lemma rt_get_value_response k o key ps r : key <> [] ->
  wf_kmsg (msg_get_value_response key ps r) -> Forall (wf_kad_peer o) ps ->
  match r with Some r' => wf_krec r' | None => True end ->
  kad_from_bytes k o (enc_kmsg (msg_get_value_response key ps r)) = Some (KGetRecord (Some key) r (firstn k ps)).
Proof.
  intros NE W P R. rewrite (kad_roundtrip k o _ W). unfold kad_of_kmsg, msg_get_value_response.
  cbn [m_type m_key m_record m_closer N.eqb Pos.eqb]. rewrite (conv_peers_schema o k ps P).
  destruct key as [|x key]; [congruence|]. cbn [is_nil].
  destruct r as [r'|]; cbn [option_map]; [|reflexivity]. rewrite (conv_schema_record r' R). reflexivity.
Qed.

Lemma rt_add_provider k o key p : key <> [] -> wf_kmsg (msg_add_provider key p) -> wf_kad_peer o p ->
  kad_from_bytes k o (enc_kmsg (msg_add_provider key p)) = Some (KAddProvider key (firstn k [p])).
Proof.
  intros NE W P. rewrite (kad_roundtrip k o _ W). unfold kad_of_kmsg, msg_add_provider.
  cbn [m_type m_key m_provider N.eqb Pos.eqb]. destruct key as [|x key]; [congruence|]. cbn [nonempty_key is_nil].
  change [schema_peer p] with (map schema_peer [p]). rewrite (conv_peers_schema o k [p]); [reflexivity|].
  constructor; [exact P|constructor].
Qed.

Lemma rt_get_providers_request k o key : key <> [] -> wf_kmsg (msg_get_providers_request key) ->
  kad_from_bytes k o (enc_kmsg (msg_get_providers_request key)) = Some (KGetProviders (Some key) [] []).
Proof.
  intros NE W. rewrite (kad_roundtrip k o _ W). unfold kad_of_kmsg, msg_get_providers_request, conv_peers.
  cbn [m_type m_key m_closer m_provider filter_map N.eqb Pos.eqb]. rewrite firstn_nil.
  destruct key; [congruence|reflexivity].
Qed.

Lemma rt_get_providers_response k o providers closer :
  wf_kmsg (msg_get_providers_response providers closer) ->
  Forall (wf_kad_peer o) providers -> Forall (wf_kad_peer o) closer ->
  kad_from_bytes k o (enc_kmsg (msg_get_providers_response providers closer)) =
  Some (KGetProviders None (firstn k closer) (firstn k providers)).
Proof.
  intros W P C. rewrite (kad_roundtrip k o _ W). unfold kad_of_kmsg, msg_get_providers_response.
  cbn [m_type m_key m_closer m_provider N.eqb Pos.eqb nonempty_key is_nil].
  rewrite (conv_peers_schema o k closer C), (conv_peers_schema o k providers P). reflexivity.
Qed.

(* ================================================================== frame lengths *)
Lemma two64' : 2 ^ 64 = 18446744073709551616. Proof. reflexivity. Qed.

Lemma read_payload_size_ok buf s n : read_payload_size buf = RpsOk s n ->
  s < 2 ^ 64 /\ 1 <= n /\ n <= 10.
Proof.
  unfold read_payload_size. destruct (take_varint 10 buf) as [[pre r]|] eqn:T.
  - destruct (minimal pre); [|discriminate]. intros [= <- <-].
    destruct (take_varint_split _ _ _ _ T) as (_ & L). split; [apply N.mod_lt; rewrite two64'; lia|].
    unfold blen. lia.
  - destruct (blen buf <? 10); discriminate.
Qed.

Lemma read_payload_size_encode n : n < 2 ^ 64 ->
  read_payload_size (encode n) = RpsOk n (blen (encode n)).
Proof.
  intros H. unfold read_payload_size. destruct (encode_spec n) as (W & V & M).
  assert (L : (length (encode n) <= 10)%nat) by (apply (encode_length n 9); pose proof pow128_10; lia).
  rewrite <- (app_nil_r (encode n)) at 1. rewrite (take_varint_app 10 _ [] W L), M, V.
  rewrite N.mod_small by exact H. reflexivity.
Qed.

Lemma skipn_length_le {A} n (l : list A) : (length (skipn n l) <= length l)%nat.
Proof. rewrite skipn_length. lia. Qed.

Lemma recv_frames_spec max fuel : forall s, (length s < fuel)%nat ->
  let r := recv_frames fuel max s in
  rv_status r <> SFuel /\
  (forall m, max = Some m -> Forall (fun a => a <= m) (rv_allocs r) /\ Forall (fun f => blen f <= m) (rv_frames r)) /\
  (lsum (@length N) (rv_frames r) <= length s)%nat.
Proof.
  assert (Triv : forall st, st <> SFuel -> forall s0 : bytes,
            rv_status (mkRecv [] [] st) <> SFuel /\
            (forall m, max = Some m -> Forall (fun a => a <= m) (rv_allocs (mkRecv [] [] st)) /\
                                       Forall (fun f => blen f <= m) (rv_frames (mkRecv [] [] st))) /\
            (lsum (@length N) (rv_frames (mkRecv [] [] st)) <= length s0)%nat).
  { intros st Hst s0. cbn. split; [exact Hst|]. split; [intros; split; constructor|lia]. }
  induction fuel as [|f IH]; intros s L; [lia|].
  cbn [recv_frames]. destruct s as [|x s0]; [apply Triv; discriminate|].
  set (s := x :: s0) in *.
  destruct (take_varint 10 s) as [[pre rest]|] eqn:T.
  2:{ apply Triv. destruct (blen s <? 10); discriminate. }
  destruct (take_varint_split _ _ _ _ T) as (Es & Lp).
  assert (Lr : (length rest < length s)%nat) by (rewrite Es, app_length; lia).
  destruct (minimal pre); cbn [negb].
  2:{ apply Triv. discriminate. }
  set (size := value pre mod 2 ^ 64).
  destruct (over_max max size) eqn:OM.
  { apply Triv. discriminate. }
  destruct (size =? 0) eqn:Z.
  { destruct (IH rest ltac:(lia)) as (NF & B & S). cbn zeta in *.
    cbn [rv_status rv_allocs rv_frames]. split; [exact NF|]. split.
    - intros m Em. destruct (B m Em) as [Ba Bf]. split; [exact Ba|]. constructor; [unfold blen; cbn; lia|exact Bf].
    - cbn [lsum fold_right length]. fold (lsum (@length N) (rv_frames (recv_frames f max rest))). lia. }
  destruct (blen rest <? size) eqn:Short.
  { cbn [rv_status rv_allocs rv_frames]. split; [discriminate|]. split.
    - intros m Em. subst max. cbn [over_max] in OM. split; [constructor; [lia|constructor]|constructor].
    - cbn. lia. }
  assert (Ls : (length (skipn (N.to_nat size) rest) <= length rest)%nat) by apply skipn_length_le.
  destruct (IH (skipn (N.to_nat size) rest) ltac:(lia)) as (NF & B & S). cbn zeta in *.
  cbn [rv_status rv_allocs rv_frames]. split; [exact NF|]. split.
  - intros m Em. destruct (B m Em) as [Ba Bf]. subst max. cbn [over_max] in OM.
    split; [constructor; [lia|exact Ba]|]. constructor; [|exact Bf].
    unfold blen in *. rewrite firstn_length. lia.
  - cbn [lsum fold_right]. fold (lsum (@length N) (rv_frames (recv_frames f max (skipn (N.to_nat size) rest)))).
    rewrite firstn_length, skipn_length in *. unfold blen in Short. lia.
Qed.

(* the framed receiver: total, every buffer it allocates and every frame it hands out is within
   the configured maximum (the check precedes the allocation), frames come out of the stream *)
Lemma recv_all_total max s : rv_status (recv_all max s) <> SFuel.
Proof. unfold recv_all. apply (recv_frames_spec max (S (length s)) s). lia. Qed.

Lemma recv_all_bounded m s :
  Forall (fun a => a <= m) (rv_allocs (recv_all (Some m) s)) /\
  Forall (fun f => blen f <= m) (rv_frames (recv_all (Some m) s)).
Proof.
  unfold recv_all. destruct (recv_frames_spec (Some m) (S (length s)) s ltac:(lia)) as (_ & B & _).
  apply B. reflexivity.
Qed.

Lemma recv_all_within_stream max s : (lsum (@length N) (rv_frames (recv_all max s)) <= length s)%nat.
Proof. unfold recv_all. apply (recv_frames_spec max (S (length s)) s). lia. Qed.

(* without a configured maximum nothing bounds the buffer: two bytes of input request 2^14 bytes, ten
   bytes request 2^63 (ProtocolCodec::UnsignedVarint(None) is only for trusted peers) *)
Lemma recv_unbounded_without_limit :
  rv_allocs (recv_all None [128; 128; 128; 128; 128; 128; 128; 128; 128; 1]) = [2 ^ 63].
Proof. vm_compute. reflexivity. Qed.

(* round trip of the framing *)
Lemma recv_frames_roundtrip m : forall fs fuel,
  Forall (fun f => blen f <= m /\ blen f < 2 ^ 64) fs -> (length (frames_of fs) < fuel)%nat ->
  let r := recv_frames fuel (Some m) (frames_of fs) in
  rv_frames r = fs /\ rv_status r = SEnd.
Proof.
  induction fs as [|fr fs IH]; intros fuel W L.
  - destruct fuel; [cbn in L; lia|]. cbn. auto.
  - inversion W as [|? ? [Hm H64] W']; subst. destruct fuel as [|f]; [lia|].
    unfold frames_of in *. cbn [flat_map] in *. fold (frames_of fs) in *.
    destruct (encode_spec (blen fr)) as (Wf & V & M).
    assert (L10 : (length (encode (blen fr)) <= 10)%nat) by (apply (encode_length _ 9); pose proof pow128_10; lia).
    assert (L1 : (1 <= length (encode (blen fr)))%nat).
    { pose proof (wf_nonempty _ Wf). destruct (encode (blen fr)); [congruence|cbn; lia]. }
    assert (NE : exists y ys, (encode (blen fr) ++ fr) ++ frames_of fs = y :: ys).
    { pose proof (wf_nonempty _ Wf). destruct (encode (blen fr)); [congruence|]. cbn [app]. eauto. }
    destruct NE as (y & ys & NE). cbn [recv_frames]. rewrite NE. rewrite <- NE. clear NE y ys.
    rewrite <- app_assoc. rewrite (take_varint_app 10 _ _ Wf L10), M, V. cbn [negb].
    rewrite N.mod_small by exact H64. cbn [over_max]. destruct (m <? blen fr) eqn:E; [lia|].
    rewrite !app_length in L.
    destruct (blen fr =? 0) eqn:Z.
    + assert (fr = []) by (destruct fr; [reflexivity|unfold blen in Z; cbn in Z; lia]). subst fr. cbn [app].
      destruct (IH f W' ltac:(lia)) as [E1 E2]. cbn zeta in *. cbn [rv_frames rv_status]. rewrite E1, E2. auto.
    + rewrite blen_app. destruct (blen fr + blen (frames_of fs) <? blen fr) eqn:S; [lia|].
      assert (F : firstn (N.to_nat (blen fr)) (fr ++ frames_of fs) = fr).
      { unfold blen. rewrite Nat2N.id, firstn_app, Nat.sub_diag, firstn_all. cbn [firstn]. apply app_nil_r. }
      assert (Sk : skipn (N.to_nat (blen fr)) (fr ++ frames_of fs) = frames_of fs).
      { unfold blen. rewrite Nat2N.id, skipn_app, Nat.sub_diag, skipn_all. reflexivity. }
      rewrite F, !Sk.
      destruct (IH f W' ltac:(lia)) as [E1 E2]. cbn zeta in *. cbn [rv_frames rv_status]. rewrite E1, E2. auto.
Qed.

(* ================================================================== multistream-select *)
Import V.C03.Model.

(* LengthDelimited: the frame buffer is resized to at most MAX_FRAME_SIZE = 16383 bytes *)
Lemma dec_len_bound buf n : dec_len buf = Some n -> last buf 0 < 128 -> n <= 16383.
Proof.
  destruct buf as [|b0 [|b1 [|? ?]]]; cbn [dec_len last]; try discriminate.
  - intros [= <-] H. lia.
  - destruct (b1 =? 0); [discriminate|]. intros [= <-] H. pose proof (mod128_lt b0). lia.
Qed.

Definition st_ok (st : rstate) : Prop := match st with RBody n _ => n <= 16383 | RLen _ => True end.

Lemma last_app_ne (a b : list N) d : b <> [] -> last (a ++ b) d = last b d.
Proof.
  intros NE. induction a as [|x a IH]; [reflexivity|]. cbn [app].
  destruct (a ++ b) as [|y l] eqn:E; [destruct a; [cbn in E; congruence|discriminate]|].
  cbn [last]. exact IH.
Qed.

Lemma rd_poll_frame_len fuel : forall st p st' p' r,
  st_ok st -> rd_poll fuel st p = (st', p', r) ->
  st_ok st' /\ (forall b, r = FFrame b -> len b <= 16383).
Proof.
  induction fuel as [|f IH]; intros st p st' p' r Ok H.
  - cbn [rd_poll] in H. injection H as <- <- <-. split; [exact Ok|discriminate].
  - cbn [rd_poll] in H. destruct st as [buf|n acc].
    + destruct (pipe_read p 1) as [p1 rr] eqn:PR. destruct rr as [| |bs].
      * injection H as <- <- <-. split; [exact I|discriminate].
      * injection H as <- <- <-. split; [exact I|]. destruct buf; discriminate.
      * destruct (V.C03.Proofs.pipe_read_spec p 1 p1 (RData bs) ltac:(lia) PR) as (_ & _ & L1 & _).
        assert (NE : bs <> []) by (destruct bs; [unfold len in L1; cbn in L1; lia|discriminate]).
        destruct (last bs 0 <? 128) eqn:EL.
        -- destruct (dec_len (buf ++ bs)) as [n|] eqn:D.
           ++ assert (B : n <= 16383).
              { apply (dec_len_bound _ _ D). rewrite (last_app_ne buf bs 0 NE). lia. }
              destruct (1 <=? n).
              ** apply (IH (RBody n []) _ _ _ _ B H).
              ** injection H as <- <- <-. split; [exact I|]. intros b [= <-]. unfold len. cbn. lia.
           ++ injection H as <- <- <-. split; [exact I|discriminate].
        -- destruct (len (buf ++ bs) =? Consts.C03_MAX_LEN_BYTES).
           ++ injection H as <- <- <-. split; [exact I|discriminate].
           ++ apply (IH (RLen (buf ++ bs)) _ _ _ _ I H).
    + destruct (pipe_read p (n - len acc)) as [p1 rr] eqn:PR. destruct rr as [| |bs].
      * injection H as <- <- <-. split; [exact Ok|discriminate].
      * injection H as <- <- <-. split; [exact Ok|discriminate].
      * destruct (len (acc ++ bs) =? n) eqn:E.
        -- injection H as <- <- <-. split; [exact I|]. intros b [= <-]. cbn [st_ok] in Ok. lia.
        -- apply (IH (RBody n (acc ++ bs)) _ _ _ _ Ok H).
Qed.

(* ---- Message::decode: the ls-response loop ---- *)
Lemma uvi_dec_f_shorter : forall buf i s a l tail,
  uvi_dec_f buf i s a = Some (l, tail) -> (length tail < length buf)%nat.
Proof.
  induction buf as [|b t IH]; intros i s a l tail; cbn [uvi_dec_f]; [discriminate|].
  destruct (b <? 128).
  - destruct ((b =? 0) && (0 <? i)); [discriminate|]. intros [= _ <-]. cbn. lia.
  - destruct (i =? 9); [discriminate|]. intros H. apply IH in H. cbn [length]. lia.
Qed.

Lemma parse_protos_fuel f1 : forall f2 rem c acc,
  (length rem < f1)%nat -> (length rem < f2)%nat ->
  parse_protos f1 rem c acc = parse_protos f2 rem c acc.
Proof.
  induction f1 as [|f1 IH]; intros f2 rem c acc L1 L2; [lia|].
  destruct f2 as [|f2]; [lia|]. cbn [parse_protos].
  destruct (bytes_eqb rem [NL]); [reflexivity|].
  destruct (c =? Consts.C03_MAX_PROTOCOLS); [reflexivity|].
  destruct (uvi_dec rem) as [[l tail]|] eqn:U; [|reflexivity].
  apply uvi_dec_f_shorter in U.
  destruct ((l =? 0) || (len tail <? l)); [reflexivity|].
  destruct (negb (nth (N.to_nat (l - 1)) tail 0 =? NL)); [reflexivity|].
  destruct (starts_slash (firstn (N.to_nat (l - 1)) tail)); [|reflexivity].
  pose proof (skipn_length_le (N.to_nat l) tail). apply IH; lia.
Qed.

(* the decoder's own fuel S |b| is enough: more fuel never changes the answer, so the
   out-of-fuel branch of the model is never the reason for an error *)
Lemma decode_msg_fuel b fuel : (length b < fuel)%nat ->
  parse_protos fuel b 0 [] = parse_protos (S (length b)) b 0 [].
Proof. intros L. apply parse_protos_fuel; lia. Qed.

Lemma parse_protos_cap fuel : forall rem c acc m,
  c = N.of_nat (length acc) -> c <= Consts.C03_MAX_PROTOCOLS ->
  parse_protos fuel rem c acc = DOk m ->
  match m with MProtos ps => N.of_nat (length ps) <= Consts.C03_MAX_PROTOCOLS | _ => True end.
Proof.
  induction fuel as [|f IH]; intros rem c acc m Ec Hc; cbn [parse_protos]; [discriminate|].
  destruct (bytes_eqb rem [NL]).
  { intros [= <-]. rewrite rev_length. lia. }
  destruct (c =? Consts.C03_MAX_PROTOCOLS) eqn:E; [discriminate|].
  destruct (uvi_dec rem) as [[l tail]|]; [|discriminate].
  destruct ((l =? 0) || (len tail <? l)); [discriminate|].
  destruct (negb (nth (N.to_nat (l - 1)) tail 0 =? NL)); [discriminate|].
  destruct (starts_slash (firstn (N.to_nat (l - 1)) tail)); [|discriminate].
  apply IH; [cbn [length]; lia|lia].
Qed.

Lemma decode_msg_cap b ps : decode_msg b = DOk (MProtos ps) ->
  N.of_nat (length ps) <= Consts.C03_MAX_PROTOCOLS.
Proof.
  unfold decode_msg.
  destruct (bytes_eqb b MSG_HEADER); [discriminate|]. destruct (bytes_eqb b MSG_NA); [discriminate|].
  destruct (bytes_eqb b MSG_LS); [discriminate|].
  destruct (starts_slash b && (last b 0 =? NL) && negb (has_nl (removelast b))); [discriminate|].
  intros H. assert (Hc : 0 <= Consts.C03_MAX_PROTOCOLS) by (unfold Consts.C03_MAX_PROTOCOLS; lia).
  exact (parse_protos_cap _ b 0 [] _ eq_refl Hc H).
Qed.

(* what Message::decode materialises: the names (one unit each) fit in the input *)
Lemma parse_protos_size fuel : forall rem c acc m,
  parse_protos fuel rem c acc = DOk m ->
  exists ps, m = MProtos ps /\
    (lsum (fun p => S (length p)) ps <= lsum (fun p => S (length p)) acc + length rem)%nat.
Proof.
  induction fuel as [|f IH]; intros rem c acc m; cbn [parse_protos]; [discriminate|].
  destruct (bytes_eqb rem [NL]).
  { intros [= <-]. eexists. split; [reflexivity|]. rewrite lsum_rev. lia. }
  destruct (c =? Consts.C03_MAX_PROTOCOLS); [discriminate|].
  destruct (uvi_dec rem) as [[l tail]|] eqn:U; [|discriminate].
  apply uvi_dec_f_shorter in U.
  destruct ((l =? 0) || (len tail <? l)) eqn:E1; [discriminate|].
  destruct (negb (nth (N.to_nat (l - 1)) tail 0 =? NL)); [discriminate|].
  destruct (starts_slash (firstn (N.to_nat (l - 1)) tail)); [|discriminate].
  intros H. destruct (IH _ _ _ _ H) as (ps & -> & S). exists ps. split; [reflexivity|].
  rewrite lsum_cons, firstn_length, skipn_length in S. unfold len in E1. lia.
Qed.

Lemma decode_msg_size b m : decode_msg b = DOk m ->
  match m with
  | MProtos ps => (lsum (fun p => S (length p)) ps <= length b)%nat
  | MProto p => (length p <= length b)%nat
  | _ => True
  end.
Proof.
  unfold decode_msg.
  destruct (bytes_eqb b MSG_HEADER); [intros [= <-]; exact I|]. destruct (bytes_eqb b MSG_NA); [intros [= <-]; exact I|].
  destruct (bytes_eqb b MSG_LS); [intros [= <-]; exact I|].
  destruct (starts_slash b && (last b 0 =? NL) && negb (has_nl (removelast b))).
  - intros [= <-]. destruct b as [|x b]; [cbn; lia|]. rewrite removelast_firstn_len, firstn_length. lia.
  - intros H. destruct (parse_protos_size _ _ _ _ _ H) as (ps & -> & S). cbn in S. lia.
Qed.

(* ================================================================== keys.proto *)
Lemma pubkey_step_size m f m' : pubkey_step m f = Some m' ->
  (length (k_data m') <= length (k_data m) + fcost f)%nat.
Proof.
  destruct f as [num v]. unfold pubkey_step, fcost. cbn [snd].
  intros H. step_cases; try discriminate; injection H as <-; cbn [k_data wpayload]; lia.
Qed.

Lemma dec_pubkey_size b m : dec_pubkey b = Some m -> (length (k_data m) <= length b)%nat.
Proof.
  unfold dec_pubkey. destruct (top_fields b) as [fs|] eqn:E; [|discriminate]. intros H.
  pose proof (fold_opt_size _ (fun m => length (k_data m)) pubkey_step_size _ _ _ H) as S.
  pose proof (top_fields_size _ _ E). cbn in S. lia.
Qed.

Lemma dec_enc_pubkey m : k_type m < 2 ^ 32 -> wf_bytes (k_data m) -> dec_pubkey (enc_pubkey m) = Some m.
Proof.
  intros Ht Hd. unfold dec_pubkey, enc_pubkey, top_fields, pb_parse.
  rewrite pb_parse_encode.
  - cbn [res_opt fields_pubkey fold_opt pubkey_step]. cbn. destruct (i32_roundtrip _ Ht) as [-> _].
    destruct m; reflexivity.
  - unfold fields_pubkey. constructor; [split; [wfn|cbn [snd]; apply i32_roundtrip; exact Ht]|].
    constructor; [split; [wfn|exact Hd]|constructor].
Qed.

Lemma remote_key_roundtrip o k : blen k = 32 -> orc_flag o 2 k = true ->
  remote_key o (key_to_protobuf k) = Some k.
Proof.
  intros L F. unfold remote_key, key_to_protobuf.
  rewrite (dec_enc_pubkey (mkPubkey 1 k)); [|cbn; rewrite two32; lia|unfold wf_bytes; cbn [k_data]; rewrite L, two64; lia].
  cbn [k_type k_data]. rewrite L, F. reflexivity.
Qed.

(* ================================================================== bitswap prefix *)
Lemma prefix_roundtrip p :
  px_version p <= 1 -> px_codec p < 2 ^ 64 -> px_mh_type p < 2 ^ 64 -> px_mh_len p < 256 ->
  prefix_from_bytes (prefix_to_bytes p) = Some p.
Proof.
  intros Hv Hc Ht Hl. unfold prefix_from_bytes, prefix_to_bytes.
  rewrite !bytes_ok_app, !encode_bytes. cbn [andb].
  rewrite decode_u64_encode by (rewrite two64; lia).
  rewrite decode_u64_encode by exact Hc. rewrite decode_u64_encode by exact Ht.
  rewrite <- (app_nil_r (encode (px_mh_len p))). rewrite decode_u64_encode by (rewrite two64; lia).
  destruct (px_version p <=? 1) eqn:E1; [|lia]. destruct (px_mh_len p <? 256) eqn:E2; [|lia].
  destruct p; reflexivity.
Qed.

Lemma prefix_from_bytes_fields b p : prefix_from_bytes b = Some p ->
  px_version p <= 1 /\ px_codec p < 2 ^ 64 /\ px_mh_type p < 2 ^ 64 /\ px_mh_len p < 256.
Proof.
  unfold prefix_from_bytes. destruct (bytes_ok b); [|discriminate].
  destruct (decode_u64 b) as [[v r1]|] eqn:D1; [|discriminate].
  destruct (decode_u64 r1) as [[c r2]|] eqn:D2; [|discriminate].
  destruct (decode_u64 r2) as [[t r3]|] eqn:D3; [|discriminate].
  destruct (decode_u64 r3) as [[l [|? ?]]|] eqn:D4; try discriminate.
  destruct ((v <=? 1) && (l <? 256)) eqn:E; [|discriminate]. intros [= <-]. cbn.
  pose proof (decode_gen_lt _ _ _ _ _ D2). pose proof (decode_gen_lt _ _ _ _ _ D3). lia.
Qed.

(* ================================================================== identify.proto *)
Definition olen (o : option bytes) : nat := match o with Some b => length b | None => O end.
Definition size_identify (m : identify) : nat :=
  (olen (i_protocol_version m) + olen (i_agent_version m) + olen (i_public_key m) +
   lsum (fun a => S (length a)) (i_listen m) + olen (i_observed m) +
   lsum (fun a => S (length a)) (i_protocols m))%nat.

Lemma ident_step_size m f m' : ident_step m f = Some m' ->
  (size_identify m' <= size_identify m + fcost f)%nat.
Proof.
  destruct f as [num v]. unfold ident_step, fcost, size_identify. cbn [snd].
  intros H. step_cases; try discriminate; injection H as <-;
    cbn [i_protocol_version i_agent_version i_public_key i_listen i_observed i_protocols wpayload olen];
    rewrite ?lsum_app, ?lsum_one; lia.
Qed.

Lemma dec_identify_size b m : dec_identify b = Some m -> (size_identify m <= length b)%nat.
Proof.
  unfold dec_identify. destruct (top_fields b) as [fs|] eqn:E; [|discriminate]. intros H.
  pose proof (fold_opt_size _ size_identify ident_step_size _ _ _ H) as S.
  pose proof (top_fields_size _ _ E). cbn in S. lia.
Qed.

Definition wf_obytes (o : option bytes) : Prop := match o with Some b => wf_bytes b | None => True end.
Definition utf8_o (o : option bytes) : Prop := match o with Some b => utf8_ok b = true | None => True end.
Definition wf_identify (m : identify) : Prop :=
  wf_obytes (i_protocol_version m) /\ utf8_o (i_protocol_version m) /\
  wf_obytes (i_agent_version m) /\ utf8_o (i_agent_version m) /\
  wf_obytes (i_public_key m) /\ Forall wf_bytes (i_listen m) /\ wf_obytes (i_observed m) /\
  Forall (fun p => wf_bytes p /\ utf8_ok p = true) (i_protocols m).

Lemma f_opt_bytes_wf num o : wf_num num -> wf_obytes o -> Forall wf_field (f_opt_bytes num o).
Proof.
  intros Hn Ho. destruct o as [b|]; [|constructor]. constructor; [split; [exact Hn|exact Ho]|constructor].
Qed.

Lemma fields_identify_wf m : wf_identify m -> Forall wf_field (fields_identify m).
Proof.
  intros (W1 & _ & W2 & _ & W3 & W4 & W5 & W6). unfold fields_identify. rewrite !Forall_app.
  repeat split; try (apply f_opt_bytes_wf; [wfn|assumption]).
  - apply f_rep_bytes_wf; [wfn|exact W4].
  - apply f_rep_bytes_wf; [wfn|]. eapply Forall_impl; [|exact W6]. intros a [Ha _]. exact Ha.
Qed.

Lemma fold_listen l : forall m,
  fold_left (fun m a => mkIdent (i_protocol_version m) (i_agent_version m) (i_public_key m) (i_listen m ++ [a]) (i_observed m) (i_protocols m)) l m =
  mkIdent (i_protocol_version m) (i_agent_version m) (i_public_key m) (i_listen m ++ l) (i_observed m) (i_protocols m).
Proof.
  induction l as [|a l IH]; intros m; cbn [fold_left].
  - rewrite app_nil_r. destruct m; reflexivity.
  - rewrite IH. cbn [i_protocol_version i_agent_version i_public_key i_listen i_observed i_protocols]. rewrite <- app_assoc. reflexivity.
Qed.
Lemma fold_protocols l : forall m,
  fold_left (fun m a => mkIdent (i_protocol_version m) (i_agent_version m) (i_public_key m) (i_listen m) (i_observed m) (i_protocols m ++ [a])) l m =
  mkIdent (i_protocol_version m) (i_agent_version m) (i_public_key m) (i_listen m) (i_observed m) (i_protocols m ++ l).
Proof.
  induction l as [|a l IH]; intros m; cbn [fold_left].
  - rewrite app_nil_r. destruct m; reflexivity.
  - rewrite IH. cbn [i_protocol_version i_agent_version i_public_key i_listen i_observed i_protocols]. rewrite <- app_assoc. reflexivity.
Qed.

Lemma identify_fold m : wf_identify m -> fold_opt ident_step (fields_identify m) identify0 = Some m.
Proof.
  intros (_ & U1 & _ & U2 & _ & _ & _ & W6). destruct m as [pv av pk la oa ps].
  cbn [i_protocol_version i_agent_version i_public_key i_listen i_observed i_protocols] in *.
  unfold fields_identify. cbn [i_protocol_version i_agent_version i_public_key i_listen i_observed i_protocols].
  rewrite fold_opt_app.
  assert (E1 : fold_opt ident_step (f_opt_bytes 1 pk) identify0 = Some (mkIdent None None pk [] None [])) by (destruct pk; reflexivity).
  rewrite E1. rewrite fold_opt_app. unfold f_rep_bytes.
  rewrite (fold_opt_map ident_step (fun b => (2, WLen b))
             (fun m a => mkIdent (i_protocol_version m) (i_agent_version m) (i_public_key m) (i_listen m ++ [a]) (i_observed m) (i_protocols m))
             (fun _ => True)); [|intros; reflexivity|apply Forall_forall; auto].
  rewrite fold_listen. cbn [i_protocol_version i_agent_version i_public_key i_listen i_observed i_protocols app].
  rewrite fold_opt_app.
  rewrite (fold_opt_map ident_step (fun b => (3, WLen b))
             (fun m a => mkIdent (i_protocol_version m) (i_agent_version m) (i_public_key m) (i_listen m) (i_observed m) (i_protocols m ++ [a]))
             (fun p => wf_bytes p /\ utf8_ok p = true));
    [|intros m0 a [_ Ua]; cbn [ident_step]; cbn [N.eqb Pos.eqb]; rewrite Ua; reflexivity|exact W6].
  rewrite fold_protocols. cbn [i_protocol_version i_agent_version i_public_key i_listen i_observed i_protocols app].
  rewrite fold_opt_app.
  assert (E4 : fold_opt ident_step (f_opt_bytes 4 oa) (mkIdent None None pk la None ps) = Some (mkIdent None None pk la oa ps)) by (destruct oa; reflexivity).
  rewrite E4. rewrite fold_opt_app.
  assert (E5 : fold_opt ident_step (f_opt_bytes 5 pv) (mkIdent None None pk la oa ps) = Some (mkIdent pv None pk la oa ps)).
  { destruct pv as [b|]; [|reflexivity]. cbn [f_opt_bytes fold_opt ident_step]. cbn [N.eqb Pos.eqb]. cbn in U1. rewrite U1. reflexivity. }
  rewrite E5.
  destruct av as [b|]; [|reflexivity]. cbn [f_opt_bytes fold_opt ident_step]. cbn [N.eqb Pos.eqb]. cbn in U2. rewrite U2. reflexivity.
Qed.

Lemma dec_enc_identify m : wf_identify m -> dec_identify (enc_identify m) = Some m.
Proof.
  intros W. unfold dec_identify, enc_identify, top_fields, pb_parse.
  rewrite pb_parse_encode by (apply fields_identify_wf; exact W). cbn [res_opt]. apply identify_fold. exact W.
Qed.

Lemma filter_len {A} (f : A -> bool) l : (length (filter f l) <= length l)%nat.
Proof. induction l as [|x l IH]; cbn [filter length]; [lia|]. destruct (f x); cbn [length]; lia. Qed.

(* the address rule keeps a subset of what was sent: nothing is materialised beyond the decode *)
Lemma identify_response_listen o peer local b i : identify_response o peer local b = Some i ->
  exists m, dec_identify b = Some m /\ incl (ii_listen i) (i_listen m) /\
            (length (ii_listen i) <= length (i_listen m))%nat.
Proof.
  unfold identify_response. destruct (IDENTIFY_PAYLOAD_SIZE <? blen b); [discriminate|].
  destruct (dec_identify b) as [m|]; [|discriminate]. intros [= <-].
  exists m. split; [reflexivity|]. cbn [ii_listen]. split.
  - intros a Ha. apply filter_In in Ha. apply Ha.
  - apply filter_len.
Qed.

(* ================================================================== noise.proto *)
Definition size_ext (e : noise_ext) : nat :=
  (lsum (fun a => S (length a)) (x_certs e) + lsum (fun a => S (length a)) (x_muxers e))%nat.
Definition size_noise (m : noise_payload) : nat :=
  (olen (n_key m) + olen (n_sig m) + match n_ext m with Some e => size_ext e | None => O end)%nat.

Lemma ext_step_size m f m' : ext_step m f = Some m' -> (size_ext m' <= size_ext m + fcost f)%nat.
Proof.
  destruct f as [num v]. unfold ext_step, fcost, size_ext. cbn [snd].
  intros H. step_cases; try discriminate; injection H as <-; cbn [x_certs x_muxers wpayload];
    rewrite ?lsum_app, ?lsum_one; lia.
Qed.

Lemma noise_step_size ctx m f m' : noise_step ctx m f = Some m' ->
  (size_noise m' <= size_noise m + fcost f)%nat.
Proof.
  destruct f as [num v]. unfold noise_step, fcost. cbn [snd]. intros H.
  destruct (num =? 1); [destruct v; try discriminate; injection H as <-; unfold size_noise; cbn [n_key n_sig n_ext wpayload olen]; lia|].
  destruct (num =? 2); [destruct v; try discriminate; injection H as <-; unfold size_noise; cbn [n_key n_sig n_ext wpayload olen]; lia|].
  destruct (num =? 4).
  { destruct v as [|?|b|?|]; try discriminate.
    destruct (sub_fields ctx b) as [fs|] eqn:E; [|discriminate].
    destruct (fold_opt ext_step fs _) as [e|] eqn:F; [|discriminate]. injection H as <-.
    pose proof (fold_opt_size ext_step size_ext ext_step_size _ _ _ F) as S.
    pose proof (sub_fields_size _ _ _ E). unfold size_noise. cbn [n_key n_sig n_ext wpayload].
    destruct (n_ext m); cbn in S; lia. }
  injection H as <-. lia.
Qed.

Lemma dec_noise_size b m : dec_noise b = Some m -> (size_noise m <= length b)%nat.
Proof.
  unfold dec_noise. destruct (top_fields b) as [fs|] eqn:E; [|discriminate]. intros H.
  pose proof (fold_opt_size _ size_noise (noise_step_size RECURSION_LIMIT) _ _ _ H) as S.
  pose proof (top_fields_size _ _ E). cbn in S. lia.
Qed.

Definition wf_ext (e : noise_ext) : Prop :=
  Forall wf_bytes (x_certs e) /\ Forall (fun p => wf_bytes p /\ utf8_ok p = true) (x_muxers e).
Definition wf_noise (m : noise_payload) : Prop :=
  wf_obytes (n_key m) /\ wf_obytes (n_sig m) /\
  match n_ext m with Some e => wf_ext e /\ wf_bytes (encode_fields (fields_ext e)) | None => True end.

Lemma fields_ext_wf e : wf_ext e -> Forall wf_field (fields_ext e).
Proof.
  intros [W1 W2]. unfold fields_ext. rewrite Forall_app. split.
  - apply f_rep_bytes_wf; [wfn|exact W1].
  - apply f_rep_bytes_wf; [wfn|]. eapply Forall_impl; [|exact W2]. intros a [Ha _]. exact Ha.
Qed.

Lemma fold_certs l : forall m,
  fold_left (fun m a => mkExt (x_certs m ++ [a]) (x_muxers m)) l m = mkExt (x_certs m ++ l) (x_muxers m).
Proof.
  induction l as [|a l IH]; intros m; cbn [fold_left].
  - rewrite app_nil_r. destruct m; reflexivity.
  - rewrite IH. cbn [x_certs x_muxers]. rewrite <- app_assoc. reflexivity.
Qed.
Lemma fold_muxers l : forall m,
  fold_left (fun m a => mkExt (x_certs m) (x_muxers m ++ [a])) l m = mkExt (x_certs m) (x_muxers m ++ l).
Proof.
  induction l as [|a l IH]; intros m; cbn [fold_left].
  - rewrite app_nil_r. destruct m; reflexivity.
  - rewrite IH. cbn [x_certs x_muxers]. rewrite <- app_assoc. reflexivity.
Qed.

Lemma ext_fold e : wf_ext e -> fold_opt ext_step (fields_ext e) ext0 = Some e.
Proof.
  intros [_ W2]. destruct e as [cs ms]. cbn [x_certs x_muxers] in *. unfold fields_ext. cbn [x_certs x_muxers].
  rewrite fold_opt_app. unfold f_rep_bytes.
  rewrite (fold_opt_map ext_step (fun b => (1, WLen b)) (fun m a => mkExt (x_certs m ++ [a]) (x_muxers m)) (fun _ => True));
    [|intros; reflexivity|apply Forall_forall; auto].
  rewrite fold_certs. cbn [x_certs x_muxers app].
  rewrite (fold_opt_map ext_step (fun b => (2, WLen b)) (fun m a => mkExt (x_certs m) (x_muxers m ++ [a]))
             (fun p => wf_bytes p /\ utf8_ok p = true));
    [|intros m0 a [_ Ua]; cbn [ext_step]; cbn [N.eqb Pos.eqb]; rewrite Ua; reflexivity|exact W2].
  rewrite fold_muxers. reflexivity.
Qed.

Lemma dec_enc_noise m : wf_noise m -> dec_noise (enc_noise m) = Some m.
Proof.
  intros (W1 & W2 & W3). unfold dec_noise, enc_noise, top_fields, pb_parse.
  rewrite pb_parse_encode.
  2:{ unfold fields_noise. rewrite !Forall_app. repeat split; try (apply f_opt_bytes_wf; [wfn|assumption]).
      destruct (n_ext m); [|constructor]. constructor; [split; [wfn|apply W3]|constructor]. }
  cbn [res_opt]. destruct m as [k s e]. cbn [n_key n_sig n_ext] in *. unfold fields_noise. cbn [n_key n_sig n_ext].
  rewrite fold_opt_app.
  assert (E1 : fold_opt (noise_step RECURSION_LIMIT) (f_opt_bytes 1 k) noise0 = Some (mkNoise k None None)) by (destruct k; reflexivity).
  rewrite E1. rewrite fold_opt_app.
  assert (E2 : fold_opt (noise_step RECURSION_LIMIT) (f_opt_bytes 2 s) (mkNoise k None None) = Some (mkNoise k s None)) by (destruct s; reflexivity).
  rewrite E2. destruct e as [e|]; [|reflexivity]. destruct W3 as [We _].
  cbn [fold_opt noise_step]. cbn [N.eqb Pos.eqb n_key n_sig n_ext].
  unfold sub_fields. rewrite pb_parse_sub_encode by (try apply rl_pos; apply fields_ext_wf; exact We).
  cbn [res_opt]. rewrite (ext_fold e We). reflexivity.
Qed.

(* ================================================================== bitswap.proto *)
Definition size_want (w : bs_wantlist) : nat := lsum (fun e => S (length (e_block e))) (w_entries w).
Definition size_bs (m : bs_msg) : nat :=
  (match bs_wantlist_of m with Some w => size_want w | None => O end +
   lsum (fun a => S (length a)) (bs_blocks m) +
   lsum (fun x => S (length (b_prefix x) + length (b_data x))) (bs_payload m) +
   lsum (fun x => S (length (bp_cid x))) (bs_presences m))%nat.

Lemma bs_entry_step_size m f m' : bs_entry_step m f = Some m' ->
  (length (e_block m') <= length (e_block m) + fcost f)%nat.
Proof.
  destruct f as [num v]. unfold bs_entry_step, fcost. cbn [snd].
  intros H. step_cases; try discriminate; injection H as <-; cbn [e_block wpayload]; lia.
Qed.
Lemma bs_block_step_size m f m' : bs_block_step m f = Some m' ->
  (length (b_prefix m') + length (b_data m') <= length (b_prefix m) + length (b_data m) + fcost f)%nat.
Proof.
  destruct f as [num v]. unfold bs_block_step, fcost. cbn [snd].
  intros H. step_cases; try discriminate; injection H as <-; cbn [b_prefix b_data wpayload]; lia.
Qed.
Lemma bs_presence_step_size m f m' : bs_presence_step m f = Some m' ->
  (length (bp_cid m') <= length (bp_cid m) + fcost f)%nat.
Proof.
  destruct f as [num v]. unfold bs_presence_step, fcost. cbn [snd].
  intros H. step_cases; try discriminate; injection H as <-; cbn [bp_cid wpayload]; lia.
Qed.

Lemma bs_wantlist_step_size ctx m f m' : bs_wantlist_step ctx m f = Some m' ->
  (size_want m' <= size_want m + fcost f)%nat.
Proof.
  destruct f as [num v]. unfold bs_wantlist_step, fcost, size_want. cbn [snd]. intros H.
  destruct (num =? 1).
  { destruct v as [|?|b|?|]; try discriminate.
    destruct (sub_fields ctx b) as [fs|] eqn:E; [|discriminate].
    destruct (fold_opt bs_entry_step fs bs_entry0) as [e|] eqn:F; [|discriminate]. injection H as <-.
    pose proof (fold_opt_size bs_entry_step (fun e => length (e_block e)) bs_entry_step_size _ _ _ F) as S.
    pose proof (sub_fields_size _ _ _ E). cbn [w_entries wpayload]. rewrite lsum_app, lsum_one. cbn in S. lia. }
  destruct (num =? 2); [destruct v; try discriminate; injection H as <-; cbn [w_entries]; lia|].
  injection H as <-. lia.
Qed.

Lemma bs_msg_step_size ctx m f m' : bs_msg_step ctx m f = Some m' ->
  (size_bs m' <= size_bs m + fcost f)%nat.
Proof.
  destruct f as [num v]. unfold bs_msg_step, fcost. cbn [snd]. intros H.
  destruct (num =? 1).
  { destruct v as [|?|b|?|]; try discriminate.
    destruct (sub_fields ctx b) as [fs|] eqn:E; [|discriminate].
    destruct (fold_opt (bs_wantlist_step (ctx - 1)) fs _) as [w|] eqn:F; [|discriminate]. injection H as <-.
    pose proof (fold_opt_size _ size_want (bs_wantlist_step_size (ctx - 1)) _ _ _ F) as S.
    pose proof (sub_fields_size _ _ _ E). unfold size_bs. cbn [bs_wantlist_of bs_blocks bs_payload bs_presences wpayload].
    destruct (bs_wantlist_of m); cbn in S; lia. }
  destruct (num =? 2).
  { destruct v; try discriminate; injection H as <-. unfold size_bs.
    cbn [bs_wantlist_of bs_blocks bs_payload bs_presences wpayload]. rewrite lsum_app, lsum_one. lia. }
  destruct (num =? 3).
  { destruct v as [|?|b|?|]; try discriminate.
    destruct (sub_fields ctx b) as [fs|] eqn:E; [|discriminate].
    destruct (fold_opt bs_block_step fs _) as [x|] eqn:F; [|discriminate]. injection H as <-.
    pose proof (fold_opt_size bs_block_step (fun x => (length (b_prefix x) + length (b_data x))%nat) bs_block_step_size _ _ _ F) as S.
    pose proof (sub_fields_size _ _ _ E). unfold size_bs.
    cbn [bs_wantlist_of bs_blocks bs_payload bs_presences wpayload]. rewrite lsum_app, lsum_one. cbn in S. lia. }
  destruct (num =? 4).
  { destruct v as [|?|b|?|]; try discriminate.
    destruct (sub_fields ctx b) as [fs|] eqn:E; [|discriminate].
    destruct (fold_opt bs_presence_step fs _) as [x|] eqn:F; [|discriminate]. injection H as <-.
    pose proof (fold_opt_size bs_presence_step (fun x => length (bp_cid x)) bs_presence_step_size _ _ _ F) as S.
    pose proof (sub_fields_size _ _ _ E). unfold size_bs.
    cbn [bs_wantlist_of bs_blocks bs_payload bs_presences wpayload]. rewrite lsum_app, lsum_one. cbn in S. lia. }
  destruct (num =? 5); [destruct v; try discriminate; injection H as <-; unfold size_bs; cbn [bs_wantlist_of bs_blocks bs_payload bs_presences]; lia|].
  injection H as <-. lia.
Qed.

Lemma dec_bs_msg_size b m : dec_bs_msg b = Some m -> (size_bs m <= length b)%nat.
Proof.
  unfold dec_bs_msg. destruct (top_fields b) as [fs|] eqn:E; [|discriminate]. intros H.
  pose proof (fold_opt_size _ size_bs (bs_msg_step_size RECURSION_LIMIT) _ _ _ H) as S.
  pose proof (top_fields_size _ _ E). cbn in S. lia.
Qed.

(* ---- bitswap round trip ---- *)
Lemma f_bool3_wf num b : wf_num num -> Forall wf_field (f_bool3 num b).
Proof.
  intros Hn. destruct b; [|constructor]. constructor; [split; [exact Hn|cbn [snd]; rewrite two64; lia]|constructor].
Qed.

Definition wf_entry (e : bs_entry) : Prop := wf_bytes (e_block e) /\ e_priority e < 2 ^ 32 /\ e_want e < 2 ^ 32.

Lemma fields_bs_entry_wf e : wf_entry e -> Forall wf_field (fields_bs_entry e).
Proof.
  intros (W1 & W2 & W3). unfold fields_bs_entry. rewrite !Forall_app. repeat split.
  - apply f_bytes3_wf; [wfn|exact W1].
  - apply f_int3_wf; [wfn|exact W2].
  - apply f_bool3_wf; wfn.
  - apply f_int3_wf; [wfn|exact W3].
  - apply f_bool3_wf; wfn.
Qed.

Lemma entry_fold e : wf_entry e -> fold_opt bs_entry_step (fields_bs_entry e) bs_entry0 = Some e.
Proof.
  intros (_ & W2 & W3). destruct e as [blk pr c wt d]. cbn [e_block e_priority e_want] in *.
  unfold fields_bs_entry. cbn [e_block e_priority e_cancel e_want e_dont_have]. rewrite fold_opt_app.
  assert (E1 : fold_opt bs_entry_step (f_bytes3 1 blk) bs_entry0 = Some (mkEntry blk 0 false 0 false)) by (destruct blk; reflexivity).
  rewrite E1. rewrite fold_opt_app.
  assert (E2 : fold_opt bs_entry_step (f_int3 2 pr) (mkEntry blk 0 false 0 false) = Some (mkEntry blk pr false 0 false)).
  { unfold f_int3. destruct (pr =? 0) eqn:E0; [apply N.eqb_eq in E0; subst; reflexivity|].
    cbn [fold_opt bs_entry_step]. cbn. destruct (i32_roundtrip pr W2) as [-> _]. reflexivity. }
  rewrite E2. rewrite fold_opt_app.
  assert (E3 : fold_opt bs_entry_step (f_bool3 3 c) (mkEntry blk pr false 0 false) = Some (mkEntry blk pr c 0 false)) by (destruct c; reflexivity).
  rewrite E3. rewrite fold_opt_app.
  assert (E4 : fold_opt bs_entry_step (f_int3 4 wt) (mkEntry blk pr c 0 false) = Some (mkEntry blk pr c wt false)).
  { unfold f_int3. destruct (wt =? 0) eqn:E0; [apply N.eqb_eq in E0; subst; reflexivity|].
    cbn [fold_opt bs_entry_step]. cbn. destruct (i32_roundtrip wt W3) as [-> _]. reflexivity. }
  rewrite E4. destruct d; reflexivity.
Qed.

Definition wf_want (w : bs_wantlist) : Prop :=
  Forall (fun e => wf_entry e /\ wf_bytes (encode_fields (fields_bs_entry e))) (w_entries w).

Lemma fold_entries l : forall m,
  fold_left (fun m e => mkWant (w_entries m ++ [e]) (w_full m)) l m = mkWant (w_entries m ++ l) (w_full m).
Proof.
  induction l as [|a l IH]; intros m; cbn [fold_left].
  - rewrite app_nil_r. destruct m; reflexivity.
  - rewrite IH. cbn [w_entries w_full]. rewrite <- app_assoc. reflexivity.
Qed.

Lemma fields_bs_wantlist_wf w : wf_want w -> Forall wf_field (fields_bs_wantlist w).
Proof.
  intros W. unfold fields_bs_wantlist. rewrite Forall_app. split.
  - apply Forall_map. eapply Forall_impl; [|exact W]. intros e [_ He]. split; [wfn|exact He].
  - apply f_bool3_wf; wfn.
Qed.

Lemma wantlist_fold ctx w : 1 <= ctx -> wf_want w ->
  fold_opt (bs_wantlist_step ctx) (fields_bs_wantlist w) bs_wantlist0 = Some w.
Proof.
  intros Hc W. destruct w as [es full]. unfold wf_want in W. cbn [w_entries] in W.
  unfold fields_bs_wantlist. cbn [w_entries w_full]. rewrite fold_opt_app.
  rewrite (fold_opt_map (bs_wantlist_step ctx) (fun e => (1, WLen (encode_fields (fields_bs_entry e))))
             (fun m e => mkWant (w_entries m ++ [e]) (w_full m))
             (fun e => wf_entry e /\ wf_bytes (encode_fields (fields_bs_entry e)))); [| |exact W].
  - rewrite fold_entries. cbn [w_entries w_full app]. destruct full; reflexivity.
  - intros m0 e [We _]. cbn [bs_wantlist_step]. cbn [N.eqb Pos.eqb]. unfold sub_fields.
    rewrite pb_parse_sub_encode by (try exact Hc; apply fields_bs_entry_wf; exact We).
    cbn [res_opt]. rewrite (entry_fold e We). reflexivity.
Qed.

Definition wf_block (x : bs_block) : Prop :=
  wf_bytes (b_prefix x) /\ wf_bytes (b_data x) /\ wf_bytes (encode_fields (fields_bs_block x)).
Definition wf_presence (x : bs_presence) : Prop :=
  wf_bytes (bp_cid x) /\ bp_type x < 2 ^ 32 /\ wf_bytes (encode_fields (fields_bs_presence x)).

Lemma block_fold x : fold_opt bs_block_step (fields_bs_block x) (mkBlock [] []) = Some x.
Proof.
  destruct x as [p d]. unfold fields_bs_block. cbn [b_prefix b_data]. rewrite fold_opt_app.
  assert (E1 : fold_opt bs_block_step (f_bytes3 1 p) (mkBlock [] []) = Some (mkBlock p [])) by (destruct p; reflexivity).
  rewrite E1. destruct d; reflexivity.
Qed.
Lemma presence_fold x : bp_type x < 2 ^ 32 ->
  fold_opt bs_presence_step (fields_bs_presence x) (mkPresence [] 0) = Some x.
Proof.
  intros Wt. destruct x as [c t]. cbn [bp_type] in Wt. unfold fields_bs_presence. cbn [bp_cid bp_type]. rewrite fold_opt_app.
  assert (E1 : fold_opt bs_presence_step (f_bytes3 1 c) (mkPresence [] 0) = Some (mkPresence c 0)) by (destruct c; reflexivity).
  rewrite E1. unfold f_int3. destruct (t =? 0) eqn:E0; [apply N.eqb_eq in E0; subst; reflexivity|].
  cbn [fold_opt bs_presence_step]. cbn. destruct (i32_roundtrip t Wt) as [-> _]. reflexivity.
Qed.

Definition wf_bs (m : bs_msg) : Prop :=
  match bs_wantlist_of m with Some w => wf_want w /\ wf_bytes (encode_fields (fields_bs_wantlist w)) | None => True end /\
  Forall wf_bytes (bs_blocks m) /\ Forall wf_block (bs_payload m) /\ Forall wf_presence (bs_presences m) /\
  bs_pending m < 2 ^ 32.

Lemma fields_bs_msg_wf m : wf_bs m -> Forall wf_field (fields_bs_msg m).
Proof.
  intros (W1 & W2 & W3 & W4 & W5). unfold fields_bs_msg. rewrite !Forall_app. repeat split.
  - destruct (bs_wantlist_of m); [|constructor]. constructor; [split; [wfn|apply W1]|constructor].
  - apply f_rep_bytes_wf; [wfn|exact W2].
  - apply Forall_map. eapply Forall_impl; [|exact W3]. intros x (_ & _ & Hx). split; [wfn|exact Hx].
  - apply Forall_map. eapply Forall_impl; [|exact W4]. intros x (_ & _ & Hx). split; [wfn|exact Hx].
  - apply f_int3_wf; [wfn|exact W5].
Qed.

Lemma fold_blocks l : forall m,
  fold_left (fun m b => mkBs (bs_wantlist_of m) (bs_blocks m ++ [b]) (bs_payload m) (bs_presences m) (bs_pending m)) l m =
  mkBs (bs_wantlist_of m) (bs_blocks m ++ l) (bs_payload m) (bs_presences m) (bs_pending m).
Proof.
  induction l as [|a l IH]; intros m; cbn [fold_left].
  - rewrite app_nil_r. destruct m; reflexivity.
  - rewrite IH. cbn [bs_wantlist_of bs_blocks bs_payload bs_presences bs_pending]. rewrite <- app_assoc. reflexivity.
Qed.
Lemma fold_payload l : forall m,
  fold_left (fun m b => mkBs (bs_wantlist_of m) (bs_blocks m) (bs_payload m ++ [b]) (bs_presences m) (bs_pending m)) l m =
  mkBs (bs_wantlist_of m) (bs_blocks m) (bs_payload m ++ l) (bs_presences m) (bs_pending m).
Proof.
  induction l as [|a l IH]; intros m; cbn [fold_left].
  - rewrite app_nil_r. destruct m; reflexivity.
  - rewrite IH. cbn [bs_wantlist_of bs_blocks bs_payload bs_presences bs_pending]. rewrite <- app_assoc. reflexivity.
Qed.
Lemma fold_presences l : forall m,
  fold_left (fun m b => mkBs (bs_wantlist_of m) (bs_blocks m) (bs_payload m) (bs_presences m ++ [b]) (bs_pending m)) l m =
  mkBs (bs_wantlist_of m) (bs_blocks m) (bs_payload m) (bs_presences m ++ l) (bs_pending m).
Proof.
  induction l as [|a l IH]; intros m; cbn [fold_left].
  - rewrite app_nil_r. destruct m; reflexivity.
  - rewrite IH. cbn [bs_wantlist_of bs_blocks bs_payload bs_presences bs_pending]. rewrite <- app_assoc. reflexivity.
Qed.

Lemma bs_msg_fold m : wf_bs m -> fold_opt (bs_msg_step RECURSION_LIMIT) (fields_bs_msg m) bs_msg0 = Some m.
Proof.
  intros (W1 & W2 & W3 & W4 & W5). destruct m as [w blocks payload pres pending].
  cbn [bs_wantlist_of bs_blocks bs_payload bs_presences bs_pending] in *.
  unfold fields_bs_msg. cbn [bs_wantlist_of bs_blocks bs_payload bs_presences bs_pending]. rewrite fold_opt_app.
  match goal with |- context [fold_opt _ ?seg bs_msg0] =>
    assert (E1 : fold_opt (bs_msg_step RECURSION_LIMIT) seg bs_msg0 = Some (mkBs w [] [] [] 0)) end.
  { destruct w as [w|]; [|reflexivity]. destruct W1 as [Ww _].
    cbn [fold_opt bs_msg_step]. cbn [N.eqb Pos.eqb bs_wantlist_of bs_blocks bs_payload bs_presences bs_pending bs_msg0].
    unfold sub_fields. rewrite pb_parse_sub_encode by (try apply rl_pos; apply fields_bs_wantlist_wf; exact Ww).
    cbn [res_opt]. assert (Hc : 1 <= RECURSION_LIMIT - 1) by (unfold RECURSION_LIMIT; lia).
    rewrite (wantlist_fold (RECURSION_LIMIT - 1) w Hc Ww). reflexivity. }
  rewrite E1. rewrite fold_opt_app. unfold f_rep_bytes.
  rewrite (fold_opt_map (bs_msg_step RECURSION_LIMIT) (fun b => (2, WLen b))
             (fun m b => mkBs (bs_wantlist_of m) (bs_blocks m ++ [b]) (bs_payload m) (bs_presences m) (bs_pending m))
             (fun _ => True)); [|intros; reflexivity|apply Forall_forall; auto].
  rewrite fold_blocks. cbn [bs_wantlist_of bs_blocks bs_payload bs_presences bs_pending app]. rewrite fold_opt_app.
  rewrite (fold_opt_map (bs_msg_step RECURSION_LIMIT) (fun x => (3, WLen (encode_fields (fields_bs_block x))))
             (fun m b => mkBs (bs_wantlist_of m) (bs_blocks m) (bs_payload m ++ [b]) (bs_presences m) (bs_pending m))
             wf_block); [| |exact W3].
  2:{ intros m0 x (Wp & Wd & _). cbn [bs_msg_step]. cbn [N.eqb Pos.eqb]. unfold sub_fields.
      rewrite pb_parse_sub_encode.
      - cbn [res_opt]. rewrite (block_fold x). reflexivity.
      - apply rl_pos.
      - unfold fields_bs_block. rewrite Forall_app. split; apply f_bytes3_wf; try wfn; assumption. }
  rewrite fold_payload. cbn [bs_wantlist_of bs_blocks bs_payload bs_presences bs_pending app]. rewrite fold_opt_app.
  rewrite (fold_opt_map (bs_msg_step RECURSION_LIMIT) (fun x => (4, WLen (encode_fields (fields_bs_presence x))))
             (fun m b => mkBs (bs_wantlist_of m) (bs_blocks m) (bs_payload m) (bs_presences m ++ [b]) (bs_pending m))
             wf_presence); [| |exact W4].
  2:{ intros m0 x (Wc & Wt & _). cbn [bs_msg_step]. cbn [N.eqb Pos.eqb]. unfold sub_fields.
      rewrite pb_parse_sub_encode.
      - cbn [res_opt]. rewrite (presence_fold x Wt). reflexivity.
      - apply rl_pos.
      - unfold fields_bs_presence. rewrite Forall_app. split; [apply f_bytes3_wf; [wfn|exact Wc]|apply f_int3_wf; [wfn|exact Wt]]. }
  rewrite fold_presences. cbn [bs_wantlist_of bs_blocks bs_payload bs_presences bs_pending app].
  unfold f_int3. destruct (pending =? 0) eqn:E0; [apply N.eqb_eq in E0; subst; reflexivity|].
  cbn [fold_opt bs_msg_step]. cbn. destruct (i32_roundtrip pending W5) as [-> _]. reflexivity.
Qed.

Lemma dec_enc_bs_msg m : wf_bs m -> dec_bs_msg (enc_bs_msg m) = Some m.
Proof.
  intros W. unfold dec_bs_msg, enc_bs_msg, top_fields, pb_parse.
  rewrite pb_parse_encode by (apply fields_bs_msg_wf; exact W). cbn [res_opt]. apply bs_msg_fold. exact W.
Qed.

Lemma recv_all_roundtrip m fs : Forall (fun f => blen f <= m /\ blen f < 2 ^ 64) fs ->
  rv_frames (recv_all (Some m) (frames_of fs)) = fs /\ rv_status (recv_all (Some m) (frames_of fs)) = SEnd.
Proof. intros W. unfold recv_all. apply (recv_frames_roundtrip m fs _ W). lia. Qed.

(* ================================================================== message-based multistream *)
(* decode_multistream_message: what is sliced out of the payload lies inside it, and the rest is
   strictly shorter (so the loops over a payload terminate) *)
Lemma webrtc_decode1_spec data r rest : webrtc_decode1 data = Some (r, rest) ->
  exists l tail, uvi_dec data = Some (l, tail) /\ l <= len tail /\
    r = decode_msg (firstn (N.to_nat l) tail) /\ rest = skipn (N.to_nat l) tail /\
    (length rest < length data)%nat /\ (length (firstn (N.to_nat l) tail) < length data)%nat.
Proof.
  unfold webrtc_decode1. destruct (uvi_dec data) as [[l tail]|] eqn:U; [|discriminate].
  destruct (len tail <? l) eqn:E; [discriminate|]. intros [= <- <-].
  exists l, tail. pose proof (uvi_dec_f_shorter _ _ _ _ _ _ U) as S.
  repeat split; try reflexivity; [lia| |].
  - pose proof (skipn_length_le (N.to_nat l) tail). lia.
  - rewrite firstn_length. lia.
Qed.

(* a declared length beyond what is left is refused, whatever its size (there is no offset
   arithmetic in the comparison, so lengths next to 2^64 are refused like any other) *)
Lemma webrtc_decode1_truncated data l tail :
  uvi_dec data = Some (l, tail) -> len tail < l -> webrtc_decode1 data = None.
Proof. intros U H. unfold webrtc_decode1. rewrite U. destruct (len tail <? l) eqn:E; [reflexivity|lia]. Qed.

Lemma webrtc_dialer_fuel f1 : forall f2 proto w rem,
  (length rem < f1)%nat -> (length rem < f2)%nat ->
  webrtc_dialer_register f1 proto w rem = webrtc_dialer_register f2 proto w rem.
Proof.
  induction f1 as [|f1 IH]; intros f2 proto w rem L1 L2; [lia|].
  destruct f2 as [|f2]; [lia|]. cbn [webrtc_dialer_register].
  destruct rem as [|x rem0]; [reflexivity|]. set (rem := x :: rem0) in *.
  destruct (webrtc_decode1 rem) as [[r rest]|] eqn:D; [|reflexivity].
  destruct (webrtc_decode1_spec _ _ _ D) as (_ & _ & _ & _ & _ & _ & S & _).
  destruct w; [reflexivity|]. destruct r as [m|e]; [|reflexivity].
  destruct m; try reflexivity. apply IH; lia.
Qed.

Lemma webrtc_encode_bound m h b : webrtc_encode m h = Some b -> len b <= MAX_FRAME.
Proof.
  unfold webrtc_encode. match goal with |- context [MAX_FRAME <? ?x] => destruct (MAX_FRAME <? x) eqn:E end; [discriminate|].
  intros [= <-]. apply N.ltb_ge in E. exact E.
Qed.

Lemma wl_finish_bound ls p h rest r : wl_finish ls p h rest = r -> wl_reply_len r <= MAX_FRAME.
Proof.
  unfold wl_finish. intros <-. destruct rest; [|cbn; lia].
  destruct (l_find ls p).
  - destruct (webrtc_encode (MProto p) h) eqn:E; [apply (webrtc_encode_bound _ _ _ E)|cbn; lia].
  - destruct (webrtc_encode MNa h) eqn:E; [apply (webrtc_encode_bound _ _ _ E)|cbn; lia].
Qed.

(* the reply of webrtc_listener_negotiate is an encoded message within MAX_FRAME_SIZE or the echo
   of the received payload *)
Lemma wl_negotiate_reply_bound names payload h :
  wl_reply_len (wl_negotiate names payload h) <= N.max MAX_FRAME (blen payload).
Proof.
  unfold wl_negotiate, webrtc_listener.
  destruct (webrtc_decode1 payload) as [[r rest]|]; [|cbn; lia].
  destruct r as [m|e]; [|cbn; lia].
  destruct m; try (cbn; lia).
  - destruct h; [cbn; lia|]. destruct rest as [|y rest']; [cbn [wl_reply_len]; unfold blen; lia|].
    destruct (webrtc_decode1 (y :: rest')) as [[r2 rest2]|]; [|cbn; lia].
    destruct r2 as [m2|e2]; [|cbn; lia]. destruct m2; try (cbn; lia).
    pose proof (wl_finish_bound _ _ _ _ _ eq_refl : wl_reply_len (wl_finish (tag_from 0 names) p true rest2) <= MAX_FRAME). lia.
  - destruct h; [|cbn; lia].
    pose proof (wl_finish_bound _ _ _ _ _ eq_refl : wl_reply_len (wl_finish (tag_from 0 names) p false rest) <= MAX_FRAME). lia.
Qed.

(* everything decode_multistream_message hands to Message::decode is a slice of the payload, so
   what it materialises is bounded by the payload as well *)
Lemma webrtc_decode1_alloc data m rest : webrtc_decode1 data = Some (DOk m, rest) ->
  match m with
  | MProtos ps => (lsum (fun p => S (length p)) ps <= length data)%nat
  | MProto p => (length p <= length data)%nat
  | _ => True
  end.
Proof.
  intros D. destruct (webrtc_decode1_spec _ _ _ D) as (l & tail & _ & _ & E & _ & _ & S).
  symmetry in E. pose proof (decode_msg_size _ _ E) as Z. destruct m; try exact I; lia.
Qed.

(* ================================================================== yamux SYN credit (known finding class 1) *)
Lemma yamux_syn_credit_refuted :
  exists credit, credit < 2 ^ 32 /\ u32_add_checked credit YAMUX_DEFAULT_CREDIT = None /\
    yamux_syn_credit_overflow 2 [0; 1; 0; 1; 0; 0; 0; 1; 255; 255; 255; 255] = true.
Proof. exists (2 ^ 32 - 1). repeat split; vm_compute; reflexivity. Qed.

Lemma yamux_syn_credit_partial credit :
  credit + YAMUX_DEFAULT_CREDIT < 2 ^ 32 -> u32_add_checked credit YAMUX_DEFAULT_CREDIT = Some (credit + YAMUX_DEFAULT_CREDIT).
Proof. intros H. unfold u32_add_checked. destruct (credit + YAMUX_DEFAULT_CREDIT <? 2 ^ 32) eqn:E; [reflexivity|lia]. Qed.

(* ================================================================== webrtc.proto and its framing *)
Lemma webrtc_extract_frame b body rest : webrtc_extract b = WfFrame body rest ->
  blen body <= WEBRTC_MAX_FRAME /\ exists pre, b = pre ++ body ++ rest /\ (1 <= length pre <= 10)%nat.
Proof.
  unfold webrtc_extract. destruct (take_varint 10 b) as [[pre r]|] eqn:T.
  2:{ destruct (blen b <? 10); discriminate. }
  destruct (minimal pre); [|discriminate].
  set (len := value pre mod 2 ^ 64). destruct (WEBRTC_MAX_FRAME <? len) eqn:E1; [discriminate|].
  destruct (blen r <? len) eqn:E2; [discriminate|]. intros [= <- <-].
  destruct (take_varint_split _ _ _ _ T) as (-> & L). split.
  - unfold blen in *. rewrite firstn_length. lia.
  - exists pre. rewrite firstn_skipn. split; [reflexivity|exact L].
Qed.

(* the length is compared with MAX_FRAME_SIZE before the decoder waits for (and buffers) the body *)
Lemma webrtc_extract_oversized pre rest : take_varint 10 (pre ++ rest) = Some (pre, rest) -> minimal pre = true ->
  WEBRTC_MAX_FRAME < value pre mod 2 ^ 64 -> webrtc_extract (pre ++ rest) = WfErr.
Proof.
  intros T M H. unfold webrtc_extract. rewrite T, M.
  destruct (WEBRTC_MAX_FRAME <? value pre mod 2 ^ 64) eqn:E; [reflexivity|lia].
Qed.

Lemma wr_step_size m f m' : wr_step m f = Some m' ->
  (olen (wr_message m') <= olen (wr_message m) + fcost f)%nat.
Proof.
  destruct f as [num v]. unfold wr_step, fcost. cbn [snd].
  intros H. step_cases; try discriminate; injection H as <-; cbn [wr_message olen wpayload]; lia.
Qed.

Lemma dec_wr_size b m : dec_wr b = Some m -> (olen (wr_message m) <= length b)%nat.
Proof.
  unfold dec_wr. destruct (top_fields b) as [fs|] eqn:E; [|discriminate]. intros H.
  pose proof (fold_opt_size _ (fun m => olen (wr_message m)) wr_step_size _ _ _ H) as S.
  pose proof (top_fields_size _ _ E). cbn in S. lia.
Qed.

Lemma dec_enc_wr m : match wr_flag m with Some f => f < 2 ^ 32 | None => True end -> wf_obytes (wr_message m) ->
  dec_wr (encode_fields (fields_wr m)) = Some m.
Proof.
  intros Hf Hm. unfold dec_wr, top_fields, pb_parse. rewrite pb_parse_encode.
  - cbn [res_opt]. destruct m as [[f|] [p|]]; cbn [fields_wr wr_flag wr_message f_opt_bytes app fold_opt wr_step] in *;
      cbn; try (destruct (i32_roundtrip f Hf) as [-> _]); reflexivity.
  - unfold fields_wr. rewrite Forall_app. split.
    + destruct (wr_flag m) as [f|]; [|constructor]. constructor; [split; [wfn|cbn [snd]; apply i32_roundtrip; exact Hf]|constructor].
    + apply f_opt_bytes_wf; [wfn|exact Hm].
Qed.

(* WebRtcMessage::encode followed by extract_framed_message + WebRtcMessage::decode *)
Lemma webrtc_roundtrip payload flag rest :
  wf_bytes payload -> match flag with Some f => f < 4 | None => True end ->
  let body := encode_fields (fields_wr (mkWr flag (if is_nil payload then None else Some payload))) in
  blen body <= WEBRTC_MAX_FRAME ->
  webrtc_extract (webrtc_encode_message payload flag ++ rest) = WfFrame body rest /\
  webrtc_message body = Some (if is_nil payload then None else Some payload, flag).
Proof.
  intros Wp Wf body Hb. split.
  - unfold webrtc_encode_message. fold body. rewrite <- app_assoc.
    unfold webrtc_extract. destruct (encode_spec (blen body)) as (W & V & M).
    assert (H64 : blen body < 2 ^ 64) by (unfold WEBRTC_MAX_FRAME, Consts.C19_WEBRTC_MAX_FRAME_SIZE in Hb; rewrite two64; lia).
    assert (L : (length (encode (blen body)) <= 10)%nat) by (apply (encode_length _ 9); pose proof pow128_10; lia).
    rewrite (take_varint_app 10 _ _ W L), M, V. rewrite N.mod_small by exact H64.
    destruct (WEBRTC_MAX_FRAME <? blen body) eqn:E1; [lia|].
    rewrite blen_app. destruct (blen body + blen rest <? blen body) eqn:E2; [lia|].
    unfold blen at 1 2. rewrite Nat2N.id.
    rewrite firstn_app, Nat.sub_diag, firstn_all. cbn [firstn]. rewrite app_nil_r.
    rewrite skipn_app, Nat.sub_diag, skipn_all. reflexivity.
  - unfold webrtc_message, body. rewrite dec_enc_wr.
    + cbn [wr_message wr_flag]. destruct flag as [f|]; [|reflexivity]. destruct (f <? 4) eqn:E; [reflexivity|lia].
    + cbn [wr_flag]. destruct flag as [f|]; [rewrite two32; lia|exact I].
    + cbn [wr_message]. destruct (is_nil payload); [exact I|exact Wp].
Qed.
