(* C19 — the substream codecs of C04 (Identity(n), UnsignedVarint, re-polling after an error),
   embedded; see E02.v for why the two top-level compositions are copied. *)
From Coq Require Import List NArith Bool.
From V.common Require Import Wire.
From V.gen Require Consts.
From V.C04 Require Import Model Glue.
Import ListNotations.
Open Scope N_scope.

Definition run_c04 (l : list N) : list N :=
  match decode_case l with
  | Some t =>
      let '(wt, s) := run_writer (t_codec t) (init_sys (t_wscript t)) (t_ops t) in
      1 :: wt ++ run_polls (N.to_nat (t_polls t)) (t_codec t) (init_r (t_codec t))
                           (sent s ++ t_raw t) (t_rscript t)
  | None => [0]
  end.

Definition ok_c04 (case trace : list N) : bool :=
  match decode_case case, trace with
  | Some t, 1 :: body =>
      match pall (let* w := p_wtrace (t_ops t) in
                  let* r := prep (N.to_nat (t_polls t)) p_robs in pret (w, r)) body with
      | Some (w, r) =>
          match wtrace_ok (t_codec t) (t_ops t) w zero_wobs [] [] false with
          | Some (acc, total, broken) => rtrace_ok t r acc total broken
          | None => false
          end
      | None => false
      end
  | None, [0] => true
  | _, _ => false
  end.

Lemma run_c04_in_sync : run_c04 = run_case.
Proof. reflexivity. Qed.
Lemma ok_c04_in_sync : ok_c04 = prop_ok.
Proof. reflexivity. Qed.
