(* C19 — the substream codecs of C04 (Identity(n), UnsignedVarint, re-polling after an error),
   embedded; see E02.v for why the two top-level compositions are copied. *)
From Coq Require Import List NArith Bool.
From V.common Require Import Wire.
From V.gen Require Consts.
From V.C04 Require Import Model Glue.
Import ListNotations.
Open Scope N_scope.

(* the other property's own composition, used as is (ocaml/build_model.sh aliases the requested
   names after monolithic extraction, so no copy is needed any more) *)
Definition run_c04 : list N -> list N := V.C04.Glue.run_case.
Definition ok_c04 : list N -> list N -> bool := V.C04.Glue.prop_ok.
Lemma run_c04_in_sync : run_c04 = V.C04.Glue.run_case.
Proof. reflexivity. Qed.
Lemma ok_c04_in_sync : ok_c04 = V.C04.Glue.prop_ok.
Proof. reflexivity. Qed.
