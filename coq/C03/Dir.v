(* C03 — a direction of the duplex related to the message level, with "views" of what the
   sending and the receiving task are doing (negotiating / in the payload phase / failed), and
   the effect of every carrier operation the tasks perform. *)
From Coq Require Import List NArith Bool Lia ZifyBool ZifyNat ZifyN.
From V.gen Require Import Consts.
From V.common Require Import Wire.
From V.C03 Require Import Model Msg Proofs Chan.
Import ListNotations.
Open Scope N_scope.

Arguments N.add : simpl never.
Arguments N.sub : simpl never.
Arguments N.eqb : simpl never.
Arguments N.ltb : simpl never.
Arguments N.leb : simpl never.
Arguments N.of_nat : simpl never.
Arguments N.min : simpl never.

Inductive sview := SvN (wb : bytes) | SvP (pw : bytes) (fin : bool) | SvF.
Inductive rview := RvN (st : rstate) | RvP (acc : bytes) | RvF | RvE (acc : bytes).

Definition SPart (sv : sview) (p : pipe) (w : list msg) (X : bytes) : Prop :=
  match sv with
  | SvN wb => p_closed p = false /\ WB wb w X
  | SvP pw fin => w = [] /\ p_closed p = fin /\ X = pw
  | SvF => w = [] /\ p_closed p = true /\ X = []
  end.

Definition RPart (rv : rview) (p : pipe) (c w : list msg) (X : bytes) : Prop :=
  match rv with
  | RvN st => exists pre, RdPre st (c ++ w) pre /\ pre ++ p_buf p = FR c ++ X
  | RvP acc => acc ++ p_buf p = FR c ++ X
  | RvF => True
  | RvE acc => p_buf p = [] /\ p_closed p = true /\ acc = FR c ++ X   (* read to EOF *)
  end.

Definition DirRel (sv : sview) (rv : rview) (p : pipe) (c w : list msg) : Prop :=
  exists X, SPart sv p w X /\ RPart rv p c w X.

(* ---- sender operations *)
Lemma dir_send : forall wb rv p c w m,
  DirRel (SvN wb) rv p c w -> DirRel (SvN (wb ++ fr m)) rv p c (w ++ [m]).
Proof.
  intros wb rv p c w m (X & [Hc Hw] & Hr). exists X. split.
  - split; [exact Hc|]. apply WB_send; [exact Hw|]. intros ->. cbn in Hw. tauto.
  - destruct rv as [st|acc| |acc2]; cbn in *; auto.
    destruct Hr as (pre & H1 & H2). exists pre. split; [|exact H2].
    rewrite app_assoc. apply RdPre_app. exact H1.
Qed.

Lemma dir_drain : forall fuel wb rv p c w wb' p' ok,
  DirRel (SvN wb) rv p c w -> wr_drain fuel wb p = (wb', p', ok) ->
  exists k, (k <= length w)%nat /\
    DirRel (SvN wb') rv p' (c ++ firstn k w) (skipn k w) /\
    (ok = true -> wb' = [] /\ k = length w).
Proof.
  intros fuel wb rv p c w wb' p' ok (X & [Hc Hw] & Hr) H.
  destruct (wr_drain_spec _ _ _ _ _ _ H) as (written & E & Hb & _ & Hcl & _ & Hok).
  destruct (drain_sim w wb X written wb' Hw E) as (k & X' & Hk & Hw' & He & Hn).
  exists k. split; [exact Hk|]. split.
  - exists X'. split; [split; [congruence | exact Hw']|].
    destruct rv as [st|acc| |acc2]; cbn in *; auto.
    + destruct Hr as (pre & H1 & H2). exists pre. split.
      * rewrite <- app_assoc, firstn_skipn. exact H1.
      * rewrite Hb, app_assoc, H2, FR_app, <- !app_assoc. f_equal. exact He.
    + rewrite Hb, app_assoc, Hr, FR_app, <- !app_assoc. f_equal. exact He.
    + destruct Hr as (_ & Hr & _). congruence.
  - intros ->. specialize (Hok eq_refl). subst wb'. destruct (Hn eq_refl) as [-> _].
    split; reflexivity.
Qed.

(* a negotiating sender with nothing buffered fails: its end is closed *)
Lemma dir_fail : forall rv p c, DirRel (SvN []) rv p c [] -> DirRel SvF rv (pipe_close p) c [].
Proof.
  intros rv p c (X & [Hc Hw] & Hr). cbn in Hw. destruct Hw as [_ ->].
  exists []. split; [cbn; auto|].
  destruct rv as [st|acc| |acc2]; cbn in *; auto.
  destruct Hr as (_ & Hr & _). congruence.
Qed.

(* ... or succeeds and starts writing application bytes *)
Lemma dir_to_payload : forall rv p c w, DirRel (SvN []) rv p c w ->
  w = [] /\ DirRel (SvP [] false) rv p c [].
Proof.
  intros rv p c w (X & [Hc Hw] & Hr).
  pose proof (WB_nil_inv _ _ _ Hw eq_refl) as ->. cbn in Hw. destruct Hw as [_ ->].
  split; [reflexivity|]. exists []. split; [cbn; auto | exact Hr].
Qed.

Lemma dir_pwrite : forall pw rv p c w data p' n, data <> [] ->
  DirRel (SvP pw false) rv p c w -> pipe_write p data = (p', Some n) ->
  DirRel (SvP (pw ++ firstn n data) false) rv p' c w.
Proof.
  intros pw rv p c w data p' n Hd (X & (Hw & Hc & ->) & Hr) H.
  destruct (pipe_write_spec _ _ _ _ Hd H) as (Hcl & _ & _ & Hb & _).
  exists (pw ++ firstn n data). split; [cbn; repeat split; congruence|].
  destruct rv as [st|acc| |acc2]; cbn in *; auto.
  - destruct Hr as (pre & H1 & H2). exists pre. split; [exact H1|].
    rewrite Hb, app_assoc, H2, <- app_assoc. reflexivity.
  - rewrite Hb, app_assoc, Hr, <- app_assoc. reflexivity.
  - destruct Hr as (_ & Hr & _). congruence.
Qed.

Lemma dir_pwrite_pending : forall sv rv p c w data p', data <> [] ->
  DirRel sv rv p c w -> pipe_write p data = (p', None) -> DirRel sv rv p' c w.
Proof.
  intros sv rv p c w data p' Hd (X & Hs & Hr) H.
  destruct (pipe_write_spec _ _ _ _ Hd H) as (Hcl & _ & Hb & _).
  exists X. split.
  - destruct sv; cbn in *; rewrite ?Hcl; exact Hs.
  - destruct rv; cbn in *; rewrite ?Hb, ?Hcl; exact Hr.
Qed.

Lemma dir_pclose : forall pw rv p c w,
  DirRel (SvP pw false) rv p c w -> DirRel (SvP pw true) rv (pipe_close p) c w.
Proof.
  intros pw rv p c w (X & (Hw & Hc & ->) & Hr). exists pw. split; [cbn; auto|].
  destruct rv; cbn in *; try exact Hr. destruct Hr as (A & B & C). auto.
Qed.

(* ---- reader operations *)
Lemma InFrame_nil_inv : forall body st, InFrame body st [] -> st = rd_init.
Proof.
  intros body st H. remember [] as pre eqn:Ep. destruct H as [|Hb|acc z Hp Hb Hz]; try reflexivity.
  - discriminate Ep.
  - exfalso. unfold enc_len in Ep. destruct (len body <? 128); discriminate.
Qed.

Lemma RdPre_init_inv : forall q pre, RdPre rd_init q pre -> pre = [].
Proof.
  intros q pre [[_ ->] | (m & rest & _ & H)]; [reflexivity|].
  inversion H; reflexivity.
Qed.

Lemma dir_recv : forall sv st p c w st' p' r,
  Forall okmsg (c ++ w) ->
  (forall pw fin, sv = SvP pw fin -> c <> []) ->
  DirRel sv (RvN st) p c w -> msg_poll st p = (st', p', r) ->
  match r with
  | MPending => DirRel sv (RvN st') p' c w
  | MMsg m => exists c', c = m :: c' /\ st' = rd_init /\ DirRel sv (RvN rd_init) p' c' w
  | MEof => c = [] /\ w = [] /\ sv = SvF /\ st' = rd_init /\ DirRel sv (RvN rd_init) p' c w
  | MFail _ => False
  end.
Proof.
  intros sv st p c w st' p' r Hok Hg (X & Hs & (pre & H1 & H2)) H.
  assert (HX : XOK c w X).
  { intros ->. destruct sv as [wb|pw fin|]; cbn in Hs.
    - destruct Hs as [_ Hw]. destruct w as [|m w']; cbn in Hw; [tauto|].
      destruct Hw as (y & Hy & Hf & _). exists y. split; assumption.
    - exfalso. exact (Hg pw fin eq_refl eq_refl).
    - destruct Hs as (-> & _ & ->). reflexivity. }
  assert (Hcl : p_closed p = true -> w = []).
  { intros E. destruct sv as [wb|pw fin|]; cbn in Hs; [|tauto|tauto].
    destruct Hs as [Hc _]. congruence. }
  destruct (recv_sim c w X st pre p st' p' r Hok H1 H2 HX Hcl H) as (Hc & Hr).
  assert (Hs' : SPart sv p' w X).
  { destruct sv; cbn in *; rewrite ?Hc; exact Hs. }
  destruct r as [| |m|code]; auto.
  - destruct Hr as (pre' & A & B). exists X. split; [exact Hs'|]. exists pre'. split; assumption.
  - destruct Hr as (-> & -> & Hclosed & Hb & ->).
    assert (sv = SvF).
    { destruct sv as [wb|pw fin|]; cbn in Hs; [|exfalso; exact (Hg pw fin eq_refl eq_refl)|reflexivity].
      destruct Hs as [Hc' _]. congruence. }
    subst sv. repeat split; auto. exists X. split; [exact Hs'|].
    cbn in Hs. destruct Hs as (_ & _ & ->).
    exists []. split; [left; split; reflexivity|]. cbn. exact Hb.
  - destruct Hr as (c' & -> & -> & Hb). exists c'. repeat split; auto.
    exists X. split; [exact Hs'|]. exists []. split; [left; split; reflexivity|]. exact Hb.
Qed.

(* the reader finished negotiating at a frame boundary: what follows is application data *)
Lemma dir_reader_payload : forall sv p c w, DirRel sv (RvN rd_init) p c w -> DirRel sv (RvP []) p c w.
Proof.
  intros sv p c w (X & Hs & (pre & H1 & H2)). exists X. split; [exact Hs|].
  rewrite (RdPre_init_inv _ _ H1) in H2. exact H2.
Qed.

Lemma dir_pread_eof : forall sv acc p c w, DirRel sv (RvP acc) p c w ->
  p_buf p = [] -> p_closed p = true -> DirRel sv (RvE acc) p c w.
Proof.
  intros sv acc p c w (X & Hs & Hr) Hb Hc. exists X. split; [exact Hs|]. cbn in *.
  rewrite Hb, app_nil_r in Hr. auto.
Qed.

Lemma dir_reader_gone : forall sv rv p c w, DirRel sv rv p c w -> DirRel sv RvF p c w.
Proof. intros sv rv p c w (X & Hs & _). exists X. split; [exact Hs | exact I]. Qed.

Lemma dir_pread : forall sv acc p c w k p' r, 1 <= k ->
  DirRel sv (RvP acc) p c w -> pipe_read p k = (p', r) ->
  match r with
  | RPending => DirRel sv (RvP acc) p' c w
  | REof => DirRel sv (RvE acc) p' c w
  | RData bs => DirRel sv (RvP (acc ++ bs)) p' c w
  end.
Proof.
  intros sv acc p c w k p' r Hk (X & Hs & Hr) H. cbn in Hr.
  destruct (pipe_read_spec _ _ _ _ Hk H) as (Hc & Hsp).
  assert (Hs' : SPart sv p' w X) by (destruct sv; cbn in *; rewrite ?Hc; exact Hs).
  destruct r as [| |bs].
  - exists X. split; [exact Hs'|]. cbn. rewrite Hsp. exact Hr.
  - destruct Hsp as (A & B & C). exists X. split; [exact Hs'|]. cbn.
    rewrite A, app_nil_r in Hr. split; [exact B|]. split; [congruence | exact Hr].
  - destruct Hsp as (A & _). exists X. split; [exact Hs'|]. cbn.
    rewrite <- app_assoc, <- A. exact Hr.
Qed.

(* operations of the OTHER side leave one's own view of a direction intact: these are the
   lemmas above read with the roles swapped; what is needed in addition is that changing the
   message-level lists by the peer's moves keeps the relation, which the lemmas already state
   in terms of the new lists. *)

(* ---- sizes *)
Lemma len_header : len MSG_HEADER = 19.
Proof. reflexivity. Qed.

Lemma fr_header_len : len (fr MHeader) = 20.
Proof. reflexivity. Qed.

Lemma wr_ready_small : forall wb p, len wb < MAX_FRAME -> wr_ready wb p = (wb, p, true).
Proof.
  intros wb p H. unfold wr_ready. destruct (MAX_FRAME <=? len wb) eqn:E; [lia|reflexivity].
Qed.

Lemma wr_send_ok : forall wb body, len body <= MAX_FRAME -> wr_send wb body = Some (wb ++ frame body).
Proof.
  intros wb body H. unfold wr_send. destruct (len body <=? MAX_FRAME) eqn:E; [reflexivity|lia].
Qed.
