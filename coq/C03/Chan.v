(* C03 — one direction of the byte carrier seen as a FIFO channel of messages.
   `DirRel` relates (writer's byte buffer, pipe, reader's frame state) to the message-level
   pair (channel c, sender's write buffer w) of Msg.v; the three lemmas say what appending a
   frame, draining the buffer under any write script, and one MessageIO::poll_next under any
   read script do to that relation. Built on C03_writer_exact, C03_frame_exact and the codec
   round trip. *)
From Coq Require Import List NArith Bool Lia ZifyBool ZifyNat ZifyN.
From V.gen Require Import Consts.
From V.common Require Import Wire.
From V.C03 Require Import Model Msg Proofs.
Import ListNotations.
Open Scope N_scope.

Arguments N.add : simpl never.
Arguments N.sub : simpl never.
Arguments N.eqb : simpl never.
Arguments N.ltb : simpl never.
Arguments N.leb : simpl never.
Arguments N.of_nat : simpl never.
Arguments N.modulo : simpl never.
Arguments N.div : simpl never.
Arguments N.min : simpl never.

Definition fr (m : msg) : bytes := frame (encode_msg m).
Definition FR (l : list msg) : bytes := flat_map fr l.

Definition okmsg (m : msg) : Prop := wf_msg m /\ len (encode_msg m) <= MAX_FRAME.

Lemma FR_app : forall a b, FR (a ++ b) = FR a ++ FR b.
Proof. intros. unfold FR. apply flat_map_app. Qed.

Lemma frame_nonempty : forall b, frame b <> [].
Proof. intros b. unfold frame, enc_len. destruct (len b <? 128); discriminate. Qed.

Lemma fr_nonempty : forall m, fr m <> [].
Proof. intros m. apply frame_nonempty. Qed.

(* ---- the sender's side: wb = the unwritten rest of the head message ++ the other frames *)
Definition WB (wb : bytes) (w : list msg) (xh : bytes) : Prop :=
  match w with
  | [] => wb = [] /\ xh = []
  | m :: w' => exists y, y <> [] /\ fr m = xh ++ y /\ wb = y ++ FR w'
  end.

Lemma WB_fresh : forall w, WB (FR w) w [].
Proof.
  intros [|m w]; cbn [WB]; [split; reflexivity|].
  exists (fr m). split; [apply fr_nonempty|]. split; reflexivity.
Qed.

Lemma WB_nil_inv : forall wb w xh, WB wb w xh -> wb = [] -> w = [].
Proof.
  intros wb [|m w] xh H E; [reflexivity|]. cbn in H. destruct H as (y & Hy & _ & Hw).
  subst wb. destruct y; [congruence|discriminate].
Qed.

Lemma WB_send : forall wb w xh m, WB wb w xh -> (w = [] -> xh = []) ->
  WB (wb ++ fr m) (w ++ [m]) xh.
Proof.
  intros wb [|m0 w] xh m H Hx; cbn [WB app] in *.
  - destruct H as [-> _]. rewrite (Hx eq_refl). exists (fr m). cbn.
    split; [apply fr_nonempty|]. split; [reflexivity|]. rewrite app_nil_r. reflexivity.
  - destruct H as (y & Hy & Hf & Hw). exists y. split; [exact Hy|]. split; [exact Hf|].
    rewrite Hw, FR_app, <- app_assoc. cbn. rewrite app_nil_r. reflexivity.
Qed.

(* draining: `written` left the buffer; k whole messages are now completely on the pipe *)
Lemma drain_sim : forall w wb xh written wb',
  WB wb w xh -> wb = written ++ wb' ->
  exists k xh', (k <= length w)%nat /\ WB wb' (skipn k w) xh' /\
    xh ++ written = FR (firstn k w) ++ xh' /\ (wb' = [] -> k = length w /\ xh' = []).
Proof.
  induction w as [|m w IH]; intros wb xh written wb' H E.
  - cbn in H. destruct H as [-> ->]. symmetry in E. apply app_eq_nil in E. destruct E as [-> ->].
    exists 0%nat, []. cbn. repeat split; auto.
  - cbn [WB] in H. destruct H as (y & Hy & Hf & Hw). rewrite Hw in E.
    destruct (app_eq_app _ _ _ _ E) as [l [[H1 H2] | [H1 H2]]].
    + (* y = written ++ l *)
      destruct l as [|b l].
      * rewrite app_nil_r in H1. subst y. cbn [app] in H2. subst wb'.
        destruct (IH (FR w) [] [] (FR w) (WB_fresh w) eq_refl) as (k & xh' & Hk & Hwb & He & Hn).
        exists (S k), xh'. cbn [length skipn firstn]. split; [lia|]. split; [exact Hwb|].
        split.
        -- cbn in He. change (FR (m :: firstn k w)) with (fr m ++ FR (firstn k w)).
           rewrite <- app_assoc, <- He, Hf, app_nil_r. reflexivity.
        -- intros Hnil. destruct (Hn Hnil) as [-> ->]. split; reflexivity.
      * exists 0%nat, (xh ++ written). cbn [skipn firstn WB]. split; [lia|]. split.
        -- exists (b :: l). split; [discriminate|]. split.
           ++ rewrite Hf, H1, app_assoc. reflexivity.
           ++ exact H2.
        -- split; [reflexivity|]. intros Hnil. subst wb'. discriminate.
    + (* written = y ++ l *)
      destruct (IH (FR w) [] l wb' (WB_fresh w) H2) as (k & xh' & Hk & Hwb & He & Hn).
      exists (S k), xh'. cbn [length skipn firstn]. split; [lia|]. split; [exact Hwb|].
      split.
      * cbn in He. change (FR (m :: firstn k w)) with (fr m ++ FR (firstn k w)).
        rewrite <- app_assoc, <- He, Hf, H1, <- app_assoc. reflexivity.
      * intros Hnil. destruct (Hn Hnil) as [-> ->]. split; reflexivity.
Qed.

(* ---- the reader's side *)
Definition RdPre (st : rstate) (q : list msg) (pre : bytes) : Prop :=
  (st = rd_init /\ pre = []) \/
  (exists m rest, q = m :: rest /\ InFrame (encode_msg m) st pre).

Lemma RdPre_app : forall st q pre x, RdPre st q pre -> RdPre st (q ++ x) pre.
Proof.
  intros st q pre x [H | (m & rest & -> & H)]; [left; exact H|].
  right. exists m, (rest ++ x). split; [reflexivity | exact H].
Qed.

(* what the sender's side guarantees about the bytes X that follow the whole frames FR c *)
Definition XOK (c w : list msg) (X : bytes) : Prop :=
  c = [] -> match w with
            | [] => X = []
            | m :: _ => exists y, y <> [] /\ fr m = X ++ y
            end.

Lemma app_len_le_prefix : forall (a b x y : bytes), a ++ x = b ++ y -> (length a <= length b)%nat ->
  exists z, b = a ++ z /\ x = z ++ y.
Proof.
  induction a as [|h a IH]; intros b x y H L.
  - exists b. split; [reflexivity | exact H].
  - destruct b as [|h' b]; [cbn in L; lia|].
    cbn in H. injection H as -> H. cbn in L.
    destruct (IH b x y H ltac:(lia)) as (z & -> & ->). exists z. split; reflexivity.
Qed.

Lemma rd_empty_pipe : forall p, p_buf p = [] ->
  rd_poll (rd_fuel p) rd_init p = (rd_init, p, if p_closed p then FNone else FPending).
Proof.
  intros p Hb. unfold rd_fuel. rewrite Hb. cbn [length rd_poll rd_init].
  unfold pipe_read. rewrite Hb. destruct (p_closed p); reflexivity.
Qed.

Lemma recv_sim : forall c w X st pre p st' p' r,
  Forall okmsg (c ++ w) ->
  RdPre st (c ++ w) pre -> pre ++ p_buf p = FR c ++ X -> XOK c w X ->
  (p_closed p = true -> w = []) ->
  msg_poll st p = (st', p', r) ->
  p_closed p' = p_closed p /\
  match r with
  | MPending => exists pre', RdPre st' (c ++ w) pre' /\ pre' ++ p_buf p' = FR c ++ X
  | MMsg m => exists c', c = m :: c' /\ st' = rd_init /\ p_buf p' = FR c' ++ X
  | MEof => c = [] /\ w = [] /\ p_closed p = true /\ p_buf p' = [] /\ st' = rd_init
  | MFail _ => False
  end.
Proof.
  intros c w X st pre p st' p' r Hok Hrd Heq HX Hcl H.
  unfold msg_poll in H.
  destruct (rd_poll (rd_fuel p) st p) as [[st1 p1] fr1] eqn:Er.
  injection H as <- <- <-.
  (* the empty case: nothing in flight at all *)
  destruct (c ++ w) as [|m q] eqn:Ecw.
  - apply app_eq_nil in Ecw. destruct Ecw as [-> ->].
    destruct Hrd as [[-> ->] | (m & rest & Hq & _)]; [|discriminate].
    specialize (HX eq_refl). cbn in HX. subst X. cbn in Heq.
    rewrite (rd_empty_pipe p Heq) in Er. injection Er as <- <- <-.
    split; [reflexivity|]. destruct (p_closed p) eqn:Ec.
    + repeat split; auto.
    + exists []. split; [left; split; reflexivity|]. cbn. exact Heq.
  - (* the head message m *)
    assert (Hm : okmsg m) by (inversion Hok; assumption).
    destruct Hm as [Hwf Hlen].
    assert (Hin : InFrame (encode_msg m) st pre).
    { destruct Hrd as [[-> ->] | (m' & rest & Hq & Hi)]; [constructor|].
      injection Hq as <- <-. exact Hi. }
    (* stream agreement *)
    assert (Hag : exists tail, agrees (encode_msg m) tail pre (p_buf p) /\
              (forall cons, p_buf p = cons ++ p_buf p1 -> pre ++ cons = frame (encode_msg m) ->
                 exists c', c = m :: c' /\ p_buf p1 = FR c' ++ X)).
    { destruct c as [|m0 c'].
      - cbn [app] in Ecw. subst w. specialize (HX eq_refl). cbn in HX.
        destruct HX as (y & Hy & Hf). exists []. split.
        + exists y. rewrite app_nil_r. cbn in Heq. rewrite app_assoc, Heq. symmetry. exact Hf.
        + intros cons Hc Hp. exfalso. cbn in Heq.
          assert (L : length (pre ++ p_buf p) = length X) by (rewrite Heq; reflexivity).
          rewrite Hc in L. rewrite !app_length in L.
          assert (L2 : length (pre ++ cons) = length (fr m)) by (rewrite Hp; reflexivity).
          rewrite Hf in L2. rewrite !app_length in L2.
          destruct y; [congruence|]. cbn [length] in L2. lia.
      - cbn [app] in Ecw. injection Ecw as -> _.
        exists (FR c' ++ X). split.
        + exists []. rewrite app_nil_r. rewrite Heq. cbn [FR flat_map]. rewrite <- app_assoc. reflexivity.
        + intros cons Hc Hp. exists c'. split; [reflexivity|].
          rewrite Hc in Heq. rewrite app_assoc, Hp in Heq. cbn [FR flat_map] in Heq.
          unfold fr in Heq. rewrite <- app_assoc in Heq. apply app_inv_head in Heq. exact Heq. }
    destruct Hag as (tail & Hag & Hfull).
    destruct (frame_exact_poll (encode_msg m) tail Hlen _ _ _ _ _ _ _ Hin Hag Er)
      as (cons & Hc1 & Hc2 & Hr).
    split; [exact Hc2|].
    destruct fr1 as [| |b|e].
    + (* pending *)
      exists (pre ++ cons). split.
      * right. exists m, q. split; [reflexivity | exact Hr].
      * rewrite <- app_assoc, <- Hc1. exact Heq.
    + (* clean EOF: impossible, a frame is due *)
      destruct Hr as (-> & -> & Hb & Hclosed). exfalso. cbn in Heq. rewrite Hb in Heq.
      destruct c as [|m0 c'].
      * cbn [app] in Ecw. rewrite (Hcl Hclosed) in Ecw. discriminate.
      * cbn [FR flat_map] in Heq. symmetry in Heq. apply app_eq_nil in Heq. destruct Heq as [Heq _].
        apply app_eq_nil in Heq. destruct Heq as [Heq _]. exact (fr_nonempty m0 Heq).
    + (* a whole frame *)
      destruct Hr as (-> & Hp & ->).
      rewrite (codec_roundtrip m Hwf).
      destruct (Hfull cons Hc1 Hp) as (c' & -> & Hb). exists c'. repeat split; auto.
    + (* EOF inside a frame: impossible *)
      exfalso. destruct Hr as (_ & Hclosed & Hb & _ & Hi).
      destruct (InFrame_prefix _ _ _ Hlen Hi) as (z & Hz & Hfz).
      rewrite Hb, app_nil_r in Hc1.
      destruct c as [|m0 c'].
      * cbn [app] in Ecw. rewrite (Hcl Hclosed) in Ecw. discriminate.
      * cbn [app] in Ecw. injection Ecw as -> _.
        rewrite Hc1 in Heq. cbn [FR flat_map] in Heq. unfold fr in Heq. rewrite Hfz in Heq.
        rewrite <- !app_assoc in Heq. apply app_inv_head in Heq.
        assert (L := f_equal (@length N) Heq). rewrite !app_length in L.
        destruct z; [congruence|cbn [length] in L; lia].
Qed.
