(* C03 — where the reference implementation (rust-libp2p's multistream-select 0.13) and litep2p
   legitimately differ, stated explicitly, with the proof that a legal conversation never reaches
   the difference (so the property is unaffected and the differential stream may predict the
   reference by litep2p's model):

   1. dialer_select.rs, State::AwaitProtocol: the reference accepts the header line any number of
      times (`Message::Header(v) if v == HeaderLine::from(version)`), litep2p only once
      (`&& !header_received`, otherwise InvalidMessage). Modelled as d_react_ref / mstep_d_ref.
      Against every legal listener the two dialers take exactly the same steps
      (ref_dialer_same_steps): a legal listener's answers contain no header line.
   2. protocol.rs, Protocol: the reference's names are `String`s (`String::from_utf8`, otherwise
      InvalidProtocol), litep2p's are byte strings. Modelled as decode_line_ref. The two decoders
      agree on every name line whose name is valid UTF-8 (ref_decode_same_on_text), in particular
      on every line cut from ASCII bytes (ascii_is_text) - the domain of the differential stream.
   3. negotiated.rs: a second header in State::Expecting is Failed for the reference,
      InvalidMessage for litep2p (an error either way); operations on a stream whose optimistic
      negotiation failed panic in the reference and return an error in litep2p (F-C03a).
   ls requests / answers, frame sizes, the varint reader, the writer and the `na` handling of the
   listener (last_sent_na) are the same code in both. *)
From Coq Require Import List NArith Bool Lia.
From V.common Require Import Wire.
From V.common Require Protobuf.
From V.C03 Require Import Model Msg Proofs MsgInv SimD Peer.
Import ListNotations.
Open Scope N_scope.

(* ---- 1. the header line *)
Definition d_react_ref (p : name) (m : msg) : dreact :=
  match m with
  | MHeader => DRHeader
  | MProto q => if name_eqb q p then DRConfirm else DRInvalid
  | MNa => DRNext
  | _ => DRInvalid
  end.

Lemma dreact_eq_dec : forall a b : dreact, {a = b} + {a <> b}.
Proof. decide equality. Qed.

Lemma d_react_ref_diff : forall p hr m, d_react p hr m <> d_react_ref p m -> hr = true /\ m = MHeader.
Proof.
  intros p hr m H. destruct m; cbn in H; try congruence. destruct hr; [split; reflexivity | congruence].
Qed.

(* the reference's dialer at message level: Msg.mstep_d with the reference's reaction *)
Definition mstep_d_ref (s : msys) : msys :=
  let d := sd s in
  match md_ph d with
  | MDAwait p hr =>
      match c_ld s with
      | m :: c =>
          let s' := mkS d (sl s) (c_dl s) (dl_closed s) c (ld_closed s) in
          match d_react_ref p m with
          | DRHeader => set_d s' (mkD (MDAwait p true) (md_rest d) (md_wbuf d))
          | DRConfirm => set_d s' (mkD (MDDone (Some p)) (md_rest d) (md_wbuf d))
          | DRNext =>
              match md_rest d with
              | [] => d_fail s'
              | p' :: r => set_d s' (mkD (MDSendProto p' hr) r (md_wbuf d))
              end
          | DRInvalid => d_fail s'
          end
      | [] => if ld_closed s then d_fail s else s
      end
  | _ => mstep_d s
  end.

(* against every legal listener (the invariant RD of Peer.v holds along every run of the dialer
   and the environment) the reference's dialer takes the step litep2p's takes *)
Theorem ref_dialer_same_steps : forall ds S m, RD ds S m -> mstep_d_ref m = mstep_d m.
Proof.
  intros ds S m (HJ & _). unfold mstep_d_ref, mstep_d.
  destruct (md_ph (sd m)) as [|p hr|p hr|p hr|r] eqn:Eph; try reflexivity.
  destruct (c_ld m) as [|x c] eqn:Ec; [reflexivity|].
  assert (E : d_react_ref p x = d_react p hr x).
  { destruct (dreact_eq_dec (d_react p hr x) (d_react_ref p x)) as [E | E]; [symmetry; exact E|].
    exfalso. destruct (d_react_ref_diff p hr x E) as [-> ->].
    unfold JD in HJ. rewrite Eph in HJ. destruct HJ as (pre & _ & _ & Hi & _).
    unfold inb in Hi. rewrite Ec in Hi. cbn in Hi. destruct (S p); discriminate. }
  rewrite E. reflexivity.
Qed.

(* a legal listener's answers contain no header line *)
Lemma legal_answers_no_header : forall S ps rs r, LegalL S ps rs r -> ~ In MHeader rs.
Proof.
  intros S ps rs r H. induction H; intros Hin.
  - destruct Hin.
  - destruct Hin as [E | Hin]; [discriminate | exact (IHLegalL Hin)].
  - destruct Hin as [E | []]. discriminate.
Qed.

(* ---- 2. names are text for the reference *)
Definition text_name (p : name) : bool := Protobuf.utf8_ok p.

(* the reference's decoder on a frame that is a name line (the other message kinds are decoded
   by the same code) *)
Definition decode_line_ref (b : bytes) : dres :=
  match decode_msg b with
  | DOk (MProto p) => if text_name p then DOk (MProto p) else DErr EInvProto
  | r => r
  end.

Theorem ref_decode_same_on_text : forall p, text_name p = true ->
  decode_line_ref (encode_msg (MProto p)) = decode_msg (encode_msg (MProto p)).
Proof.
  intros p Ht. unfold decode_line_ref.
  destruct (decode_msg (encode_msg (MProto p))) as [m|e] eqn:E; [|reflexivity].
  destruct m as [|q| | |]; try reflexivity.
  assert (q = p).
  { cbn [encode_msg] in E. unfold decode_msg in E.
    repeat match type of E with
           | (if ?c then _ else _) = _ => destruct c eqn:?; try discriminate
           end.
    - rewrite removelast_app_single in E. injection E as <-. reflexivity.
    - (* not a name line: the ls-response parser never yields a single name *)
      exfalso. clear -E. revert E. generalize (S (length (p ++ [NL]))). generalize (p ++ [NL]).
      generalize (@nil name) at 1. generalize 0 at 1.
      intros cnt acc rem fuel. revert cnt acc rem.
      induction fuel as [|f IH]; intros cnt acc rem H; cbn [parse_protos] in H; [discriminate|].
      repeat match type of H with
             | (if ?c then _ else _) = _ => destruct c; try discriminate
             | match ?c with _ => _ end = _ => destruct c as [[? ?]|]; try discriminate
             end.
      exact (IH _ _ _ H). }
  subst q. rewrite Ht. reflexivity.
Qed.

Lemma ascii_is_text : forall b, forallb (fun x => x <? 128) b = true -> text_name b = true.
Proof.
  unfold text_name. induction b as [|x b IH]; intros H; [reflexivity|].
  cbn [forallb] in H. apply andb_true_iff in H. destruct H as [Hx Hb].
  cbn [Protobuf.utf8_ok]. rewrite Hx. exact (IH Hb).
Qed.

(* every contiguous piece of ASCII bytes is ASCII: whatever name line a listener cuts out of an
   optimistic dialer's ASCII payload, the two decoders agree on it *)
Lemma ascii_piece : forall a b c : bytes,
  forallb (fun x => x <? 128) (a ++ b ++ c) = true -> forallb (fun x => x <? 128) b = true.
Proof.
  intros a b c H. rewrite !forallb_app in H. apply andb_true_iff in H. destruct H as [_ H].
  apply andb_true_iff in H. apply H.
Qed.
