(* C03 — proofs about the message-level negotiation system of Msg.v: agreement, termination
   under fair schedules and clean hand-over, for every schedule of micro-steps.
   Method: the two sides are deterministic processes over FIFO channels, so effective steps of
   different sides commute and do not disable each other (confluence); one reference run then
   determines the unique terminal state every schedule converges to. *)
From Coq Require Import List NArith Bool Lia.
From V.common Require Import Wire.
From V.C03 Require Import Model Msg MsgRef.
Import ListNotations.
(* `wfd`, `eff`, `final_ok`, `mrun_app` and the reference run `ref_run` come from MsgRef.v;
   all counters in this file are in nat *)
Open Scope nat_scope.

(* ------------------------------------------------------------------ enabledness *)
Definition en_d (s : msys) : bool :=
  match md_ph (sd s) with
  | MDDone _ => false
  | MDAwait _ _ => match c_ld s with [] => ld_closed s | _ :: _ => true end
  | _ => true
  end.
Definition en_l (s : msys) : bool :=
  match ml_ph (sl s) with
  | MLDone _ => false
  | MLRecvHeader | MLRecvMsg => match c_dl s with [] => dl_closed s | _ :: _ => true end
  | _ => true
  end.
Definition en (b : bool) (s : msys) : bool := if b then en_d s else en_l s.

Definition d_done (s : msys) : bool :=
  match md_ph (sd s) with MDDone _ => true | _ => false end.
Definition l_done (s : msys) : bool :=
  match ml_ph (sl s) with MLDone _ => true | _ => false end.

(* a closed flag is only ever set by a side that is finished *)
Definition Inv (s : msys) : Prop :=
  (dl_closed s = true -> d_done s = true) /\ (ld_closed s = true -> l_done s = true).

Lemma stutter_d : forall s, en_d s = false -> mstep_d s = s.
Proof.
  intros s. unfold en_d, mstep_d.
  destruct (md_ph (sd s)); try discriminate; auto.
  destruct (c_ld s); try discriminate. intros ->. reflexivity.
Qed.

Lemma stutter_l : forall ls s, en_l s = false -> mstep_l ls s = s.
Proof.
  intros ls s. unfold en_l, mstep_l.
  destruct (ml_ph (sl s)); try discriminate; auto;
    (destruct (c_dl s); try discriminate; intros ->; reflexivity).
Qed.

Ltac crush_cases :=
  repeat (match goal with
          | |- context [match ?x with _ => _ end] => destruct x eqn:?; cbn in *
          | H : context [match ?x with _ => _ end] |- _ => destruct x eqn:?; cbn in *
          end; try discriminate; try reflexivity; try congruence).

Lemma Inv_init : forall ds, Inv (minit ds).
Proof. intros ds. split; cbn; discriminate. Qed.

Lemma Inv_step_d : forall s, Inv s -> Inv (mstep_d s).
Proof.
  intros [[dph drest dw] [lph lw] cdl dlc cld ldc]. unfold Inv, d_done, l_done, mstep_d.
  cbn. intros [H1 H2]. crush_cases; split; cbn; auto; try discriminate.
Qed.

Lemma Inv_step_l : forall ls s, Inv s -> Inv (mstep_l ls s).
Proof.
  intros ls [[dph drest dw] [lph lw] cdl dlc cld ldc]. unfold Inv, d_done, l_done, mstep_l.
  cbn. intros [H1 H2]. crush_cases; split; cbn; auto; try discriminate.
Qed.

(* ------------------------------------------------------------------ confluence *)
Local Opaque d_react l_find starts_slash sup.

(* effective steps of the two sides commute (C1) and do not disable each other (C2) *)
Lemma confl : forall ls s, Inv s -> en_d s = true -> en_l s = true ->
  mstep_d (mstep_l ls s) = mstep_l ls (mstep_d s) /\
  en_d (mstep_l ls s) = true /\ en_l (mstep_d s) = true.
Proof.
  intros ls [[dph drest dw] [lph lw] cdl dlc cld ldc] [H1 H2] Hd Hl.
  unfold d_done, l_done in *; cbn in H1, H2. unfold en_d, en_l in *; cbn in Hd, Hl.
  destruct dph as [|p hr|p hr|p hr|r]; try discriminate Hd;
  destruct lph as [| | |m1 o|o|r1]; try discriminate Hl;
  (destruct dlc; [discriminate (H1 eq_refl)|]); (destruct ldc; [discriminate (H2 eq_refl)|]);
  clear H1 H2.
  all: lazymatch goal with
       | |- context [MDSendHeader] => destruct drest as [|p0 drest]
       | |- context [MDSendProto _ _] => destruct (starts_slash p) eqn:Es
       | |- context [MDFlush _ _] => destruct dw as [|m0 dw]
       | |- context [MDAwait _ _] =>
           destruct cld as [|m cld]; [discriminate Hd|];
           destruct (d_react p hr m) eqn:Er; [ | | destruct drest as [|p0 drest] | ]
       end.
  all: lazymatch goal with
       | |- context [MLRecvHeader] => destruct cdl as [|[|q| |qs|] cdl]; [discriminate Hl|..]
       | |- context [MLRecvMsg] =>
           destruct cdl as [|[|q| |qs|] cdl];
           [discriminate Hl| |destruct (l_find (sup ls) q) eqn:El|..]
       | |- context [MLFlush _] => destruct lw as [|m2 lw]; [destruct o|]
       | |- _ => idtac
       end.
  all: clear Hd Hl; cbn; rewrite ?Es, ?Er, ?El; cbn; rewrite ?Es, ?Er, ?El; cbn.
  all: repeat split; reflexivity.
Qed.

Lemma commute : forall ls s, Inv s -> en_d s = true -> en_l s = true ->
  mstep_d (mstep_l ls s) = mstep_l ls (mstep_d s).
Proof. intros ls s H1 H2 H3. apply (confl ls s H1 H2 H3). Qed.
Lemma persist_d : forall ls s, Inv s -> en_d s = true -> en_l s = true ->
  en_d (mstep_l ls s) = true.
Proof. intros ls s H1 H2 H3. apply (confl ls s H1 H2 H3). Qed.
Lemma persist_l : forall s, Inv s -> en_d s = true -> en_l s = true ->
  en_l (mstep_d s) = true.
Proof. intros s H1 H2 H3. apply (confl [] s H1 H2 H3). Qed.

(* ------------------------------------------------------------------ ticks *)
Lemma tick_stutter : forall ls b s, en b s = false -> mtick ls s b = s.
Proof.
  intros ls [|] s H; cbn in *; [apply stutter_d | apply stutter_l]; exact H.
Qed.

Lemma tick_effective : forall ls b s, mtick ls s b <> s -> en b s = true.
Proof.
  intros ls b s H. destruct (en b s) eqn:E; [reflexivity|].
  exfalso. apply H. apply tick_stutter. exact E.
Qed.

Lemma Inv_tick : forall ls b s, Inv s -> Inv (mtick ls s b).
Proof.
  intros ls [|] s H; cbn; [apply Inv_step_d | apply Inv_step_l]; exact H.
Qed.

Lemma Inv_run : forall ls sched s, Inv s -> Inv (mrun ls sched s).
Proof.
  intros ls sched. induction sched as [|b t IH]; intros s H; [exact H|].
  cbn. apply IH. apply Inv_tick. exact H.
Qed.

Lemma tick_confl : forall ls b b' s, Inv s -> b <> b' -> en b s = true -> en b' s = true ->
  mtick ls (mtick ls s b) b' = mtick ls (mtick ls s b') b /\ en b (mtick ls s b') = true.
Proof.
  intros ls [|] [|] s HI Hne Hb Hb'; try (exfalso; apply Hne; reflexivity); cbn in *.
  - destruct (confl ls s HI Hb Hb') as (H1 & H2 & H3). split; [symmetry; exact H1 | exact H2].
  - destruct (confl ls s HI Hb' Hb) as (H1 & H2 & H3). split; [exact H1 | exact H3].
Qed.

(* ------------------------------------------------------------------ effective runs *)
Inductive reach (ls : list name) : nat -> msys -> msys -> Prop :=
| reach0 : forall s, reach ls 0 s s
| reachS : forall b n s F,
    en b s = true -> reach ls n (mtick ls s b) F -> reach ls (S n) s F.

Definition terminal (F : msys) : Prop := forall b, en b F = false.

(* the diamond: an enabled side can be moved to the front of any run to a terminal state *)
Lemma reach_step : forall ls n s F, reach ls n s F ->
  forall b, Inv s -> terminal F -> en b s = true ->
  exists n', n = S n' /\ reach ls n' (mtick ls s b) F.
Proof.
  intros ls n s F Hr. induction Hr as [s | b0 n s F He0 Hr IH]; intros b HI HT He.
  - rewrite (HT b) in He. discriminate He.
  - destruct (bool_dec b0 b) as [Heq | Hne].
    + subst b0. exists n. split; [reflexivity | exact Hr].
    + destruct (tick_confl ls b0 b s HI Hne He0 He) as [Hc Hp].
      destruct (tick_confl ls b b0 s HI (not_eq_sym Hne) He He0) as [_ Hp'].
      destruct (IH b (Inv_tick ls b0 s HI) HT Hp') as (n' & Hn & Hr').
      exists n. split; [reflexivity|]. subst n.
      apply (reachS ls b0 n' (mtick ls s b) F Hp). rewrite <- Hc. exact Hr'.
Qed.

Lemma reach_run : forall ls F, terminal F -> forall sched n s, Inv s -> reach ls n s F ->
  exists m, m <= n /\ reach ls m (mrun ls sched s) F.
Proof.
  intros ls F HT sched. induction sched as [|b t IH]; intros n s HI Hr.
  - exists n. split; [lia | exact Hr].
  - cbn. destruct (en b s) eqn:E.
    + destruct (reach_step ls n s F Hr b HI HT E) as (n' & Hn & Hr').
      destruct (IH n' _ (Inv_tick ls b s HI) Hr') as (m & Hm & Hr'').
      exists m. split; [lia | exact Hr''].
    + rewrite (tick_stutter ls b s E). apply IH; assumption.
Qed.

Lemma reach_terminal_0 : forall ls n F F', terminal F -> reach ls n F F' -> n = 0 /\ F' = F.
Proof.
  intros ls n F F' HT Hr. destruct Hr as [s | b n s F' He Hr]; [split; reflexivity|].
  rewrite (HT b) in He. discriminate He.
Qed.

(* a side that is enabled stays enabled until it ticks; so a block that ticks it makes progress *)
Lemma block_progress : forall ls F, terminal F -> forall b blk n s,
  Inv s -> reach ls n s F -> en b s = true -> In b blk ->
  exists m, m < n /\ reach ls m (mrun ls blk s) F.
Proof.
  intros ls F HT b blk. induction blk as [|x t IH]; intros n s HI Hr He Hin; [destruct Hin|].
  cbn [mrun fold_left]. fold (mrun ls t (mtick ls s x)).
  destruct (bool_dec x b) as [Heq | Hne].
  - subst x. destruct (reach_step ls n s F Hr b HI HT He) as (n' & Hn & Hr').
    destruct (reach_run ls F HT t n' _ (Inv_tick ls b s HI) Hr') as (m & Hm & Hr'').
    exists m. split; [lia | exact Hr''].
  - assert (Hin' : In b t) by (destruct Hin as [Hx | Hx]; [exfalso; apply Hne; exact Hx | exact Hx]).
    destruct (en x s) eqn:Ex.
    + destruct (reach_step ls n s F Hr x HI HT Ex) as (n' & Hn & Hr').
      destruct (tick_confl ls b x s HI (not_eq_sym Hne) He Ex) as [_ Hp].
      destruct (IH n' _ (Inv_tick ls x s HI) Hr' Hp Hin') as (m & Hm & Hr'').
      exists m. split; [lia | exact Hr''].
    + rewrite (tick_stutter ls x s Ex). apply IH; assumption.
Qed.

Lemma fair_run : forall ls F, terminal F -> forall k sched n s,
  Inv s -> reach ls n s F -> fair k sched ->
  exists m, m <= n - k /\ reach ls m (mrun ls sched s) F.
Proof.
  intros ls F HT k. induction k as [|k IH]; intros sched n s HI Hr Hf.
  - destruct (reach_run ls F HT sched n s HI Hr) as (m & Hm & Hr'). exists m. split; [lia | exact Hr'].
  - cbn in Hf. destruct Hf as (blk & rest & Hs & Ht & Hfl & Hf). subst sched.
    rewrite mrun_app.
    assert (Hb : exists m, m <= n - 1 /\ reach ls m (mrun ls blk s) F).
    { destruct Hr as [s | b n s F He Hr].
      - destruct (reach_run ls s HT blk 0 s HI (reach0 ls s)) as (m & Hm & Hr').
        exists m. split; [lia | exact Hr'].
      - assert (Hin : In b blk) by (destruct b; assumption).
        destruct (block_progress ls F HT b blk (S n) s HI (reachS ls b n s F He Hr) He Hin)
          as (m & Hm & Hr').
        exists m. split; [lia | exact Hr']. }
    destruct Hb as (m & Hm & Hr').
    destruct (IH rest m _ (Inv_run ls blk s HI) Hr' Hf) as (m' & Hm' & Hr'').
    exists m'. split; [lia | exact Hr''].
Qed.

(* ------------------------------------------------------------------ what a step leaves alone *)
Ltac crush_vars :=
  repeat (first
    [ match goal with |- context [match ?x with _ => _ end] => is_var x; destruct x; cbn end
    | match goal with |- context [match d_react ?a ?b ?c with _ => _ end] =>
        destruct (d_react a b c); cbn end
    | match goal with |- context [match l_find ?a ?b with _ => _ end] =>
        destruct (l_find a b); cbn end
    | match goal with |- context [if starts_slash ?a then _ else _] =>
        destruct (starts_slash a); cbn end ]).

Ltac frame_tac :=
  repeat split; try reflexivity; try (intro; assumption); try (intro; reflexivity);
  try (exists []; symmetry; apply app_nil_r); try (eexists; reflexivity).

Lemma frame_l : forall ls s,
  sd (mstep_l ls s) = sd s /\ dl_closed (mstep_l ls s) = dl_closed s /\
  (ld_closed s = true -> ld_closed (mstep_l ls s) = true) /\
  exists suf, c_ld (mstep_l ls s) = c_ld s ++ suf.
Proof.
  intros ls [[dph drest dw] [lph lw] cdl dlc cld ldc].
  unfold mstep_l, set_l, l_fail; cbn. crush_vars; frame_tac.
Qed.

Lemma frame_d : forall s,
  sl (mstep_d s) = sl s /\ ld_closed (mstep_d s) = ld_closed s /\
  (dl_closed s = true -> dl_closed (mstep_d s) = true) /\
  exists suf, c_dl (mstep_d s) = c_dl s ++ suf.
Proof.
  intros [[dph drest dw] [lph lw] cdl dlc cld ldc].
  unfold mstep_d, set_d, d_fail; cbn. crush_vars; frame_tac.
Qed.

Lemma d_done_disabled : forall s, d_done s = true -> en_d s = false.
Proof. intros s. unfold d_done, en_d. destruct (md_ph (sd s)); try discriminate; reflexivity. Qed.
Lemma l_done_disabled : forall s, l_done s = true -> en_l s = false.
Proof. intros s. unfold l_done, en_l. destruct (ml_ph (sl s)); try discriminate; reflexivity. Qed.

(* once the dialer is done its state is frozen and its input channel only grows *)
Lemma reach_d_done : forall ls n s F, reach ls n s F -> d_done s = true ->
  sd F = sd s /\ exists suf, c_ld F = c_ld s ++ suf.
Proof.
  intros ls n s F Hr. induction Hr as [s | b n s F He Hr IH]; intros Hd.
  - split; [reflexivity|]. exists []. symmetry. apply app_nil_r.
  - destruct b; cbn in He, Hr, IH.
    + rewrite (d_done_disabled s Hd) in He. discriminate He.
    + destruct (frame_l ls s) as (Hsd & _ & _ & suf & Hc).
      assert (Hd' : d_done (mstep_l ls s) = true) by (unfold d_done; rewrite Hsd; exact Hd).
      destruct (IH Hd') as (H1 & suf' & H2). split.
      * rewrite H1. exact Hsd.
      * exists (suf ++ suf'). rewrite H2, Hc. symmetry. apply app_assoc.
Qed.

Lemma reach_l_done : forall ls n s F, reach ls n s F -> l_done s = true ->
  sl F = sl s /\ exists suf, c_dl F = c_dl s ++ suf.
Proof.
  intros ls n s F Hr. induction Hr as [s | b n s F He Hr IH]; intros Hd.
  - split; [reflexivity|]. exists []. symmetry. apply app_nil_r.
  - destruct b; cbn in He, Hr, IH.
    + destruct (frame_d s) as (Hsl & _ & _ & suf & Hc).
      assert (Hd' : l_done (mstep_d s) = true) by (unfold l_done; rewrite Hsl; exact Hd).
      destruct (IH Hd') as (H1 & suf' & H2). split.
      * rewrite H1. exact Hsl.
      * exists (suf ++ suf'). rewrite H2, Hc. symmetry. apply app_assoc.
    + rewrite (l_done_disabled s Hd) in He. discriminate He.
Qed.

(* closed flags are never reset *)
Lemma reach_closed : forall ls n s F, reach ls n s F ->
  (dl_closed s = true -> dl_closed F = true) /\ (ld_closed s = true -> ld_closed F = true).
Proof.
  intros ls n s F Hr. induction Hr as [s | b n s F He Hr IH]; [split; auto|].
  destruct IH as [IH1 IH2].
  destruct (frame_d s) as (_ & Hd1 & Hd2 & _). destruct (frame_l ls s) as (_ & Hl1 & Hl2 & _).
  destruct b; cbn in IH1, IH2; split; intros H.
  - apply IH1. apply Hd2. exact H.
  - apply IH2. rewrite Hd1. exact H.
  - apply IH1. rewrite Hl1. exact H.
  - apply IH2. apply Hl2. exact H.
Qed.

(* ------------------------------------------------------------------ every schedule converges
   to the final state of the reference run (MsgRef.ref_run) *)
Lemma eff_reach : forall ls sched s, eff ls sched s -> reach ls (length sched) s (mrun ls sched s).
Proof.
  intros ls sched. induction sched as [|b t IH]; intros s H; [apply reach0|].
  cbn in H. destruct H as [H1 H2]. cbn [length mrun fold_left].
  apply (reachS ls b); [apply (tick_effective ls); exact H1 | apply IH; exact H2].
Qed.

Lemma final_terminal : forall ds ls F, final_ok ds ls F -> terminal F.
Proof.
  intros ds ls F (H1 & H2 & _) [|]; cbn; [unfold en_d; rewrite H1 | unfold en_l; rewrite H2];
    reflexivity.
Qed.

Lemma ref_reach : forall ds ls, wfd ds ->
  exists n F, n <= fair_bound ds /\ reach ls n (minit ds) F /\ final_ok ds ls F.
Proof.
  intros ds ls Hw. destruct (ref_run ds ls Hw) as (sched & He & Hl & Hf).
  exists (length sched), (mrun ls sched (minit ds)).
  split; [exact Hl|]. split; [apply eff_reach; exact He | exact Hf].
Qed.

Lemma converge : forall ds ls sched, wfd ds ->
  exists m F, reach ls m (mrun ls sched (minit ds)) F /\ final_ok ds ls F.
Proof.
  intros ds ls sched Hw. destruct (ref_reach ds ls Hw) as (n & F & _ & Hr & Hf).
  destruct (reach_run ls F (final_terminal ds ls F Hf) sched n _ (Inv_init ds) Hr)
    as (m & _ & Hr').
  exists m, F. split; assumption.
Qed.

Lemma d_result_done : forall s r, d_result s = Some r -> d_done s = true /\ md_ph (sd s) = MDDone r.
Proof.
  intros s r. unfold d_result, d_done. destruct (md_ph (sd s)); try discriminate.
  intros H. injection H as H. subst. split; reflexivity.
Qed.
Lemma l_result_done : forall s r, l_result s = Some r -> l_done s = true /\ ml_ph (sl s) = MLDone r.
Proof.
  intros s r. unfold l_result, l_done. destruct (ml_ph (sl s)); try discriminate.
  intros H. injection H as H. subst. split; reflexivity.
Qed.

(* ------------------------------------------------------------------ the properties *)
Lemma agreement_dialer : forall ds ls sched r, wfd ds ->
  d_result (mrun ls sched (minit ds)) = Some r -> r = first_common ds ls.
Proof.
  intros ds ls sched r Hw Hres.
  destruct (converge ds ls sched Hw) as (m & F & Hr & Hf).
  destruct (d_result_done _ _ Hres) as [Hd Hph].
  destruct (reach_d_done ls m _ F Hr Hd) as [Hsd _].
  destruct Hf as (H1 & _). rewrite Hsd, Hph in H1. injection H1 as H1. exact H1.
Qed.

Lemma agreement_listener : forall ds ls sched r, wfd ds ->
  l_result (mrun ls sched (minit ds)) = Some r -> r = first_common ds ls.
Proof.
  intros ds ls sched r Hw Hres.
  destruct (converge ds ls sched Hw) as (m & F & Hr & Hf).
  destruct (l_result_done _ _ Hres) as [Hd Hph].
  destruct (reach_l_done ls m _ F Hr Hd) as [Hsl _].
  destruct Hf as (_ & H2 & _). rewrite Hsl, Hph in H2. injection H2 as H2. exact H2.
Qed.

Lemma termination : forall ds ls sched, wfd ds -> fair (fair_bound ds) sched ->
  d_result (mrun ls sched (minit ds)) = Some (first_common ds ls) /\
  l_result (mrun ls sched (minit ds)) = Some (first_common ds ls).
Proof.
  intros ds ls sched Hw Hfair.
  destruct (ref_reach ds ls Hw) as (n & F & Hn & Hr & Hf).
  pose proof (final_terminal ds ls F Hf) as HT.
  destruct (fair_run ls F HT (fair_bound ds) sched n _ (Inv_init ds) Hr Hfair) as (m & Hm & Hr').
  assert (m = 0) by lia. subst m.
  assert (HF : mrun ls sched (minit ds) = F).
  { remember 0 as z eqn:Hz. destruct Hr' as [s | b k s F' He Hr'']; [reflexivity | discriminate Hz]. }
  rewrite HF. destruct Hf as (H1 & H2 & _). unfold d_result, l_result. rewrite H1, H2.
  split; reflexivity.
Qed.

Lemma not_true_false : forall b, (b = true -> false = true) -> b = false.
Proof. intros [|] H; [symmetry; apply H|]; reflexivity. Qed.

Lemma handover_dialer : forall ds ls sched p, wfd ds ->
  let s := mrun ls sched (minit ds) in
  d_result s = Some (Some p) ->
  c_ld s = [] /\ md_wbuf (sd s) = [] /\ dl_closed s = false /\ ld_closed s = false.
Proof.
  intros ds ls sched p Hw s Hres.
  destruct (converge ds ls sched Hw) as (m & F & Hr & Hf). fold s in Hr.
  destruct (d_result_done _ _ Hres) as [Hd Hph].
  destruct (reach_d_done ls m s F Hr Hd) as [Hsd (suf & Hc)].
  destruct (reach_closed ls m s F Hr) as [Hc1 Hc2].
  destruct Hf as (H1 & _ & H3 & _ & _ & H6 & H7).
  rewrite Hsd in H1, H3. rewrite Hph in H1. injection H1 as H1.
  destruct (H7 p (eq_sym H1)) as [H8 H9]. rewrite H8 in Hc1. rewrite H9 in Hc2.
  rewrite H6 in Hc. symmetry in Hc. apply app_eq_nil in Hc. destruct Hc as [Hc _].
  repeat split; [exact Hc | exact H3 | apply not_true_false; exact Hc1 | apply not_true_false; exact Hc2].
Qed.

Lemma handover_listener : forall ds ls sched p, wfd ds ->
  let s := mrun ls sched (minit ds) in
  l_result s = Some (Some p) ->
  c_dl s = [] /\ ml_wbuf (sl s) = [] /\ dl_closed s = false /\ ld_closed s = false.
Proof.
  intros ds ls sched p Hw s Hres.
  destruct (converge ds ls sched Hw) as (m & F & Hr & Hf). fold s in Hr.
  destruct (l_result_done _ _ Hres) as [Hd Hph].
  destruct (reach_l_done ls m s F Hr Hd) as [Hsl (suf & Hc)].
  destruct (reach_closed ls m s F Hr) as [Hc1 Hc2].
  destruct Hf as (_ & H2 & _ & H4 & H5 & _ & H7).
  rewrite Hsl in H2, H4. rewrite Hph in H2. injection H2 as H2.
  destruct (H7 p (eq_sym H2)) as [H8 H9]. rewrite H8 in Hc1. rewrite H9 in Hc2.
  rewrite H5 in Hc. symmetry in Hc. apply app_eq_nil in Hc. destruct Hc as [Hc _].
  repeat split; [exact Hc | exact H4 | apply not_true_false; exact Hc1 | apply not_true_false; exact Hc2].
Qed.
