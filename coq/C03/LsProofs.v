(* C03 — round trip of the `ls` response (`Message::Protocols`) incl. the MAX_PROTOCOLS bound. *)
From Coq Require Import List PeanoNat NArith Bool Lia ZifyBool ZifyNat ZifyN.
From V.gen Require Import Consts.
From V.common Require Import Wire.
From V.C03 Require Import Model Proofs UviProofs.
Import ListNotations.
Open Scope N_scope.

Arguments N.add : simpl never.
Arguments N.sub : simpl never.
Arguments N.eqb : simpl never.
Arguments N.ltb : simpl never.
Arguments N.leb : simpl never.
Arguments N.of_nat : simpl never.
Arguments N.modulo : simpl never.
Arguments N.div : simpl never.
Arguments N.min : simpl never.
Arguments N.pow : simpl never.
Arguments N.mul : simpl never.

(* An entry of an ls response: a valid `Protocol` (leading '/') whose length prefix fits the
   varint. Entries MAY contain newlines: the parser only looks at the last byte of an entry. *)
Definition wf_entry (p : name) : Prop := starts_slash p = true /\ len p + 1 < 2 ^ 64.

(* ------------------------------------------------------------------ list helpers *)
Lemma has_nl_app : forall a b, has_nl (a ++ b) = has_nl a || has_nl b.
Proof. intros. unfold has_nl. apply existsb_app. Qed.

Lemma nth_app_exact : forall (p : bytes) x r d, nth (length p) (p ++ x :: r) d = x.
Proof. induction p as [|y p IH]; intros; [reflexivity|]. cbn [length app nth]. apply IH. Qed.

Lemma firstn_app_exact : forall (p r : bytes), firstn (length p) (p ++ r) = p.
Proof.
  intros. rewrite firstn_app, Nat.sub_diag, firstn_all. cbn [firstn]. apply app_nil_r.
Qed.

Lemma skipn_app_exact : forall (p r : bytes), skipn (length p) (p ++ r) = r.
Proof.
  intros. rewrite skipn_app, Nat.sub_diag, skipn_all. reflexivity.
Qed.

Lemma skipn_app_exact1 : forall (p : bytes) x r, skipn (S (length p)) (p ++ x :: r) = r.
Proof.
  intros. replace (p ++ x :: r) with ((p ++ [x]) ++ r) by (rewrite <- app_assoc; reflexivity).
  replace (S (length p)) with (length (p ++ [x])) by (rewrite app_length; cbn; lia).
  apply skipn_app_exact.
Qed.

(* ------------------------------------------------------------------ shape of the encoding *)
Lemma enc_entry_assoc : forall p r,
  enc_proto_entry p ++ r = uvi_enc (len p + 1) ++ (p ++ NL :: r).
Proof. intros. unfold enc_proto_entry. rewrite <- !app_assoc. reflexivity. Qed.

Lemma enc_entry_len3 : forall p, starts_slash p = true -> (3 <= length (enc_proto_entry p))%nat.
Proof.
  intros p H. unfold enc_proto_entry. rewrite !app_length. cbn [length].
  pose proof (uvi_enc_len (len p + 1)) as Hl. unfold len at 1 in Hl.
  set (k := length (uvi_enc (len p + 1))) in *. clearbody k.
  destruct p; [discriminate|]. cbn [length]. lia.
Qed.

Lemma entries_len : forall ps, Forall wf_entry ps ->
  (3 * length ps <= length (flat_map enc_proto_entry ps))%nat.
Proof.
  induction 1 as [|p ps Hp _ IH]; [cbn; lia|].
  cbn [flat_map length]. rewrite app_length.
  pose proof (enc_entry_len3 p (proj1 Hp)). lia.
Qed.

Lemma entries_has_nl : forall p ps, has_nl (flat_map enc_proto_entry (p :: ps)) = true.
Proof.
  intros. cbn [flat_map]. unfold enc_proto_entry. rewrite !has_nl_app.
  change (has_nl [NL]) with true. rewrite !orb_true_r. reflexivity.
Qed.

(* the encoding of a non-empty ls response is none of the fixed messages and not a proposal *)
Lemma ls_removelast : forall ps,
  removelast (encode_msg (MProtos ps)) = flat_map enc_proto_entry ps.
Proof. intros. cbn [encode_msg]. apply removelast_app_single. Qed.

Lemma ls_not_const : forall p ps c, has_nl (removelast c) = false ->
  bytes_eqb (encode_msg (MProtos (p :: ps))) c = false.
Proof.
  intros p ps c Hc. apply bytes_eqb_neq. intros E.
  rewrite <- E, ls_removelast, entries_has_nl in Hc. discriminate.
Qed.

Lemma decode_ls_to_parser : forall ps,
  decode_msg (encode_msg (MProtos ps)) =
  parse_protos (S (length (encode_msg (MProtos ps)))) (encode_msg (MProtos ps)) 0 [].
Proof.
  intros [|p ps]; [reflexivity|].
  unfold decode_msg.
  rewrite !ls_not_const by reflexivity.
  rewrite ls_removelast, entries_has_nl.
  rewrite andb_false_r. reflexivity.
Qed.

(* ------------------------------------------------------------------ the parser *)
(* one entry off the front *)
Lemma parse_protos_step : forall f p r count acc, wf_entry p ->
  parse_protos (S f) (enc_proto_entry p ++ r) count acc =
  if count =? C03_MAX_PROTOCOLS then DErr ETooMany
  else parse_protos f r (count + 1) (p :: acc).
Proof.
  intros f p r count acc (Hs & Hl).
  cbn [parse_protos].
  assert (E1 : bytes_eqb (enc_proto_entry p ++ r) [NL] = false).
  { apply bytes_eqb_neq. intros E. apply (f_equal (@length N)) in E.
    rewrite app_length in E. pose proof (enc_entry_len3 p Hs). cbn [length] in E. lia. }
  rewrite E1.
  destruct (count =? C03_MAX_PROTOCOLS) eqn:Ec; [reflexivity|].
  rewrite enc_entry_assoc, uvi_roundtrip by exact Hl.
  assert (Hlen : len (p ++ NL :: r) = len p + 1 + len r).
  { rewrite len_app. unfold len. cbn [length]. lia. }
  destruct ((len p + 1 =? 0) || (len (p ++ NL :: r) <? len p + 1)) eqn:E2; [lia|].
  replace (N.to_nat (len p + 1 - 1)) with (length p) by (unfold len; lia).
  replace (N.to_nat (len p + 1)) with (S (length p)) by (unfold len; lia).
  rewrite nth_app_exact, N.eqb_refl. cbn [negb].
  rewrite firstn_app_exact, Hs, skipn_app_exact1. reflexivity.
Qed.

Lemma parse_protos_enc : forall ps fuel count acc,
  Forall wf_entry ps -> (length ps < fuel)%nat -> count <= C03_MAX_PROTOCOLS ->
  parse_protos fuel (flat_map enc_proto_entry ps ++ [NL]) count acc =
  if count + N.of_nat (length ps) <=? C03_MAX_PROTOCOLS
  then DOk (MProtos (rev acc ++ ps)) else DErr ETooMany.
Proof.
  induction ps as [|p ps IH]; intros fuel count acc Hwf Hf Hc.
  - destruct fuel as [|f]; [cbn in Hf; lia|].
    cbn [flat_map app parse_protos length]. rewrite bytes_eqb_refl.
    destruct (count + N.of_nat 0 <=? C03_MAX_PROTOCOLS) eqn:E; [|lia].
    rewrite app_nil_r. reflexivity.
  - destruct fuel as [|f]; [cbn in Hf; lia|].
    inversion Hwf as [|? ? Hp Hps]; subst.
    cbn [flat_map]. rewrite <- app_assoc.
    rewrite parse_protos_step by exact Hp.
    cbn [length] in *.
    destruct (count =? C03_MAX_PROTOCOLS) eqn:Ec.
    + destruct (count + N.of_nat (S (length ps)) <=? C03_MAX_PROTOCOLS) eqn:E; [lia|reflexivity].
    + rewrite IH by (try assumption; lia).
      cbn [rev]. rewrite <- app_assoc. cbn [app].
      replace (count + 1 + N.of_nat (length ps)) with (count + N.of_nat (S (length ps))) by lia.
      reflexivity.
Qed.

Lemma ls_fuel : forall ps, Forall wf_entry ps ->
  (length ps < S (length (encode_msg (MProtos ps))))%nat.
Proof.
  intros ps H. cbn [encode_msg]. rewrite app_length. pose proof (entries_len ps H). lia.
Qed.

(* ------------------------------------------------------------------ main results *)
Lemma ls_decode : forall ps, Forall wf_entry ps ->
  decode_msg (encode_msg (MProtos ps)) =
  if N.of_nat (length ps) <=? C03_MAX_PROTOCOLS then DOk (MProtos ps) else DErr ETooMany.
Proof.
  intros ps H. rewrite decode_ls_to_parser.
  change (encode_msg (MProtos ps)) with (flat_map enc_proto_entry ps ++ [NL]) at 2.
  rewrite parse_protos_enc; [|exact H|apply ls_fuel; exact H|unfold C03_MAX_PROTOCOLS; lia].
  rewrite N.add_0_l. reflexivity.
Qed.

Lemma ls_roundtrip : forall ps, Forall wf_entry ps -> N.of_nat (length ps) <= C03_MAX_PROTOCOLS ->
  decode_msg (encode_msg (MProtos ps)) = DOk (MProtos ps).
Proof.
  intros ps H Hn. rewrite ls_decode by exact H.
  destruct (N.of_nat (length ps) <=? C03_MAX_PROTOCOLS) eqn:E; [reflexivity|lia].
Qed.

Lemma ls_too_many : forall ps, Forall wf_entry ps -> C03_MAX_PROTOCOLS < N.of_nat (length ps) ->
  decode_msg (encode_msg (MProtos ps)) = DErr ETooMany.
Proof.
  intros ps H Hn. rewrite ls_decode by exact H.
  destruct (N.of_nat (length ps) <=? C03_MAX_PROTOCOLS) eqn:E; [lia|reflexivity].
Qed.
