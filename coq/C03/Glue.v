(* C03 — wire format, model runner and the trace oracle prop_ok. Definitions only.

   case (mode 0, stream negotiation):
     0 lazy  pool  ds  ls  sched  dl_r dl_w ld_r ld_w  dpay lpay
       pool  = count-prefixed list of names; a name is a count-prefixed list of runs (count byte)
       ds/ls = count-prefixed lists of pool indices (dialer preference list / listener set)
       sched = who is polled (0 dialer / 1 listener), then alternation
       *_r/_w = read / write scripts of the two directions (0 = Pending, c = at most c bytes)
       dpay/lpay = application bytes written by dialer / listener right after negotiation
   trace (mode 0):
     1 status  dcode didx  lcode lidx  dend lend  d_got  l_got  d_wrote  l_wrote  dl_left ld_left
   case (mode 1, message-based listener):  1 hdr_received pool ls payload
   trace (mode 1):  1 tag ...   (0 idx reply | 1 reply | 2 reply | 3 code)
   case (mode 3, one future against scripted input): 3 side lazy pool names rscript input pay
                    (side 1 = dialer, 0 = listener); trace as mode 0
   case (mode 5, fallback -> main mapping): 5 pool cfg reports   (see Fallback.v)
   case (mode 6, negotiation under the transports' timeout wrapper, `negotiate_protocol`):
                    6 transport to_d to_l  0 pool ds ls sched dl_r dl_w ld_r ld_w dpay lpay
                    (transport 0 = the TCP copy, 1 = the WebSocket copy of the function; to_d/to_l =
                    timeouts in clock units; sched: 0 poll dialer, 1 poll listener, >= 2 one tick;
                    names must be ASCII); trace as mode 0 with canonical (first-occurrence) indices,
                    result code 9 = NegotiationError::Timeout
   case (mode 7, the Negotiated stream as an I/O object): 7 lazy pool names rscript wscript input ops
                    (op = 0 k read | 1 bytes write | 2 flush | 3 close); trace: see NegOps.v
   case (mode 8, a request between two real nodes whose request-response protocols have fallback
                    names): 8 transport pool cfgA cfgB k   (see Sub.v)
   case (mode 9, differential against the reference implementation, rust-libp2p's
                    multistream-select 0.13): 9 dkind lkind lazy pool ds ls sched dl_r dl_w ld_r ld_w dpay lpay
                    (kind of an end: 0 litep2p's select future, 1 the reference's select future,
                    2 / 3 litep2p's TCP / WebSocket negotiate_protocol; names must be valid UTF-8 — the
                    reference takes `&str` —, an optimistic dialer's payload ASCII); trace as mode 0
                    (first-occurrence indices for kinds 2 / 3). The model of BOTH ends is the model of
                    litep2p's futures: the reference is predicted to be byte-for-byte the same machine on
                    this domain.
   case (mode 4, a whole message-based session: the real WebRtcDialerState against the real
                    webrtc_listener_negotiate, every reply of the listener split into its frames
                    and regrouped into messages):  4 pool proto fallbacks ls gss
                    (gss = one grouping script per round, see WGroup.v: k > 0 = the next k frames in
                    one message, 0 = an empty message, exhausted = the rest in one message)
   trace (mode 4):  1 (0 msg | 1) then per round: the listener's result as in mode 1 (without the
                    leading 1), k = number of register_response calls, their k codes, and after a
                    Rejected verdict on a reply of a listener that has not accepted:
                    (1 0 | 1 1 msg | 1 2) for propose_next_fallback
   case (mode 2, message-based dialer):    2 pool proto fallbacks ops   (op = 0 payload | 1)
   trace (mode 2):  1 (0 msg | 1) then per op: (0 code) for register_response, (1 0|1 msg|2) for
                    propose_next_fallback *)
From Coq Require Import List NArith Bool.
From V.common Require Import Wire.
From V.common Require Protobuf.
From V.C03 Require Import Model Timed NegOps WGroup.
From V.C03 Require Fallback Sub.
Import ListNotations.
Open Scope N_scope.

Definition p_run : parser bytes :=
  let* c := pN in let* b := pN in
  if 20000 <? c then pfail else pret (repeat b (N.to_nat c)).
Definition p_name : parser name := let* rs := plist p_run in pret (concat rs).
Definition p_bytes : parser bytes := plist pN.

Fixpoint pick (pool : list name) (idx : list N) : option (list name) :=
  match idx with
  | [] => Some []
  | i :: t => match nth_error pool (N.to_nat i), pick pool t with
              | Some n, Some r => Some (n :: r)
              | _, _ => None
              end
  end.

Definition p_case0 : parser ncase :=
  let* lazy := pBool in
  let* pool := plist p_name in
  let* di := plist pN in
  let* li := plist pN in
  let* sched := plist pN in
  let* a := plist pN in let* b := plist pN in let* c := plist pN in let* d := plist pN in
  let* dpay := p_bytes in
  let* lpay := p_bytes in
  match pick pool di, pick pool li with
  | Some ds, Some ls => pret (mkCase ds ls lazy sched a b c d dpay lpay)
  | _, _ => pfail
  end.

Inductive wop := WReg (payload : bytes) | WNext.
Definition p_wop : parser wop :=
  let* t := pN in
  if t =? 0 then let* b := p_bytes in pret (WReg b) else pret WNext.

Inductive anycase :=
| Case0 (c : ncase)
| Case1 (hdr : bool) (ls : list name) (payload : bytes)
| Case2 (proto : name) (fallbacks : list name) (ops : list wop)
| Case3 (dialer_side : bool) (lazy : bool) (names : list name) (rs : list N) (input : bytes) (pay : bytes).

Definition decode_case (l : list N) : option anycase :=
  match l with
  | 0 :: t => match pall p_case0 t with Some c => Some (Case0 c) | None => None end
  | 1 :: t =>
      pall (let* h := pBool in let* pool := plist p_name in let* li := plist pN in
            let* pl := p_bytes in
            match pick pool li with Some ls => pret (Case1 h ls pl) | None => pfail end) t
  | 2 :: t =>
      pall (let* pool := plist p_name in let* pi := pN in let* fi := plist pN in
            let* ops := plist p_wop in
            match pick pool [pi], pick pool fi with
            | Some [p], Some fs => pret (Case2 p fs ops)
            | _, _ => pfail
            end) t
  | 3 :: t =>
      pall (let* side := pBool in let* lazy := pBool in let* pool := plist p_name in
            let* ni := plist pN in let* rs := plist pN in let* input := p_bytes in let* pay := p_bytes in
            match pick pool ni with Some ns => pret (Case3 side lazy ns rs input pay) | None => pfail end) t
  | _ => None
  end.

(* mode 3: one real future against a scripted peer: the inbound pipe holds `input` and is
   closed; the absent side is a finished task *)
Definition done_task : task := mkTask TDone [] (99, 0) [] 98.
Definition sys_alone (side lazy : bool) (ns : list name) (rs : list N) (input pay : bytes) : sys :=
  let inp := mkPipe input true rs [] [] in
  if side then mkSys (task_init (FDial (d_init ns lazy)) pay) done_task (pipe_init [] []) inp
  else mkSys done_task (task_init (FList (l_init ns)) pay) inp (pipe_init [] []).

(* ---- mode 0 *)
Definition run_fuel (l : list N) : nat := (2000 + 8 * length l)%nat.

Definition enc_bytes (b : bytes) : list N := len b :: b.

Definition trace0 (s : sys) (status : N) : list N :=
  [1; status;
   fst (t_res (s_d s)); snd (t_res (s_d s)); fst (t_res (s_l s)); snd (t_res (s_l s));
   t_end (s_d s); t_end (s_l s)] ++
  enc_bytes (t_got (s_d s)) ++ enc_bytes (t_got (s_l s)) ++
  enc_bytes (p_total (s_dl s)) ++ enc_bytes (p_total (s_ld s)) ++
  enc_bytes (p_buf (s_dl s)) ++ enc_bytes (p_buf (s_ld s)).

(* ---- mode 1 / 2 *)
Definition trace1 (r : wl_res) : list N :=
  match r with
  | WLAccepted i reply => [1; 0; i] ++ enc_bytes reply
  | WLRejected reply => [1; 1] ++ enc_bytes reply
  | WLPendingProtocol reply => [1; 2] ++ enc_bytes reply
  | WLErr c => [1; 3; c]
  end.

Definition wd_code (r : wd_res) : N :=
  match r with WDNotReady => 0 | WDSucceeded => 1 | WDRejected => 2 | WDErr c => 10 + c end.

Definition propose_msg (p : name) (with_header : bool) : option bytes :=
  if starts_slash p then webrtc_encode (MProto p) with_header else None.

Fixpoint run_wops (ops : list wop) (proto : name) (fbs : list name) (waiting : bool) : list N :=
  match ops with
  | [] => []
  | WReg pl :: t =>
      let '(w', r) := webrtc_dialer_register (S (length pl)) proto waiting pl in
      [0; wd_code r] ++ run_wops t proto fbs w'
  | WNext :: t =>
      match fbs with
      | [] => [1; 0] ++ run_wops t proto fbs waiting
      | f :: fbs' =>
          match propose_msg f false with
          | Some m => [1; 1] ++ enc_bytes m ++ run_wops t f fbs' waiting
          | None => [1; 2] ++ run_wops t f fbs' waiting
          end
      end
  end.

(* ---- mode 4: a whole message-based session under a grouping of every reply (WGroup.v).
   The listener's channel: `header_received` is false for the first payload only; once it has
   accepted (substream open) or failed (channel closed) nothing more is negotiated. *)
Fixpoint run4 (ls : list (N * name)) (fs : list name) (cur : name) (payload : bytes)
              (hdr waiting : bool) (gss : list (list N)) {struct fs} : list N :=
  let lr := webrtc_listener ls payload hdr in
  tl (trace1 lr) ++
  match lr with
  | WLErr _ => []
  | WLAccepted _ reply | WLRejected reply | WLPendingProtocol reply =>
      let msgs := group (hd [] gss) (split_frames (length reply) reply) in
      let '(w', rs) := wd_feed cur waiting msgs in
      (N.of_nat (length rs) :: map wd_code rs) ++
      match lr, last rs WDNotReady with
      | (WLRejected _ | WLPendingProtocol _), WDRejected =>
          match fs with
          | [] => [1; 0]
          | f :: fs' =>
              match propose_msg f false with
              | Some m => [1; 1] ++ enc_bytes m ++ run4 ls fs' f m true w' (tl gss)
              | None => [1; 2]
              end
          end
      | _, _ => []
      end
  end.

Definition p_case4 : parser (name * list name * list name * list (list N)) :=
  let* pool := plist p_name in let* pi := pN in let* fi := plist pN in let* li := plist pN in
  let* gss := plist (plist pN) in
  match pick pool [pi], pick pool fi, pick pool li with
  | Some [p], Some fs, Some ls => pret (p, fs, ls, gss)
  | _, _, _ => pfail
  end.

Definition run4_case (t : list N) : list N :=
  match pall p_case4 t with
  | Some (p, fs, ls, gss) =>
      match propose_msg p true with
      | Some m => [1; 0] ++ enc_bytes m ++ run4 (tag_from 0 ls) fs p m false false gss
      | None => [1; 1]
      end
  | None => [0]
  end.

(* ---- mode 6 *)
Definition ascii_name (n : name) : bool := forallb (fun b => b <? 128) n.

Definition decode6 (t : list N) : option ncase :=
  match pall p_case0 t with
  | Some c =>
      if negb (c_lazy c) && forallb ascii_name (c_ds c) && forallb ascii_name (c_ls c)
      then Some c else None
  | None => None
  end.

(* the transports report the negotiated NAME: indices in the trace are first occurrences *)
Fixpoint first_idx (p : name) (l : list name) (i : N) : option N :=
  match l with
  | [] => None
  | x :: t => if name_eqb p x then Some i else first_idx p t (i + 1)
  end.
Definition canon_idx (l : list name) (i : N) : N :=
  match nth_error l (N.to_nat i) with
  | Some p => match first_idx p l 0 with Some j => j | None => i end
  | None => i
  end.

Definition trace6 (c : ncase) (s : sys) (status : N) : list N :=
  let dres := t_res (s_d s) in
  let lres := t_res (s_l s) in
  [1; status;
   fst dres; (if fst dres =? 0 then canon_idx (c_ds c) (snd dres) else snd dres);
   fst lres; (if fst lres =? 0 then canon_idx (c_ls c) (snd lres) else snd lres);
   t_end (s_d s); t_end (s_l s)] ++
  enc_bytes (t_got (s_d s)) ++ enc_bytes (t_got (s_l s)) ++
  enc_bytes (p_total (s_dl s)) ++ enc_bytes (p_total (s_ld s)) ++
  enc_bytes (p_buf (s_dl s)) ++ enc_bytes (p_buf (s_ld s)).

Definition run6 (l t : list N) : list N :=
  match t with
  | _ :: td :: tl :: body =>
      match decode6 body with
      | Some c =>
          let '(s, status) := run_tsys td tl (run_fuel l) (c_sched c) false 0 (tinit c) in
          trace6 c (ts_sys s) status
      | None => [0]
      end
  | _ => [0]
  end.

(* ---- mode 7 *)
Definition p_nop : parser nop :=
  let* t := pN in
  if t =? 0 then let* k := pN in pret (OpRead k)
  else if t =? 1 then let* b := p_bytes in pret (OpWrite b)
  else if t =? 2 then pret OpFlush
  else if t =? 3 then pret OpClose
  else pfail.

Record case7 := mkC7 { c7_lazy : bool; c7_names : list name; c7_rs : list N; c7_ws : list N;
                       c7_input : bytes; c7_ops : list nop }.

Definition op_valid (op : nop) : bool :=
  match op with OpRead k => 1 <=? k | OpWrite [] => false | _ => true end.

Definition decode7 (t : list N) : option case7 :=
  match pall (let* lazy := pBool in let* pool := plist p_name in let* ni := plist pN in
              let* rs := plist pN in let* ws := plist pN in let* input := p_bytes in
              let* ops := plist p_nop in
              match pick pool ni with
              | Some ns => pret (mkC7 lazy ns rs ws input ops)
              | None => pfail
              end) t with
  | Some c => if forallb op_valid (c7_ops c) then Some c else None
  | None => None
  end.

Definition run7 (t : list N) : list N :=
  match decode7 t with
  | Some c => run_session (c7_lazy c) (c7_names c) (c7_rs c) (c7_ws c) (c7_input c) (c7_ops c)
  | None => [0]
  end.

(* ---- mode 9: the reference implementation at one end or at both *)
Definition text_name (n : name) : bool := Protobuf.utf8_ok n.
Definition ascii_bytes (b : bytes) : bool := forallb (fun x => x <? 128) b.

Definition decode9 (t : list N) : option (N * N * ncase) :=
  match t with
  | dk :: lk :: body =>
      match pall p_case0 body with
      | Some c =>
          if (dk <=? 3) && (lk <=? 3) && forallb text_name (c_ds c) && forallb text_name (c_ls c) &&
             (negb (c_lazy c) || ((dk <? 2) && ascii_bytes (c_dpay c)))
          then Some (dk, lk, c) else None
      | None => None
      end
  | _ => None
  end.

Definition trace9 (dk lk : N) (c : ncase) (s : sys) (status : N) : list N :=
  let dres := t_res (s_d s) in
  let lres := t_res (s_l s) in
  [1; status;
   fst dres; (if (fst dres =? 0) && (2 <=? dk) then canon_idx (c_ds c) (snd dres) else snd dres);
   fst lres; (if (fst lres =? 0) && (2 <=? lk) then canon_idx (c_ls c) (snd lres) else snd lres);
   t_end (s_d s); t_end (s_l s)] ++
  enc_bytes (t_got (s_d s)) ++ enc_bytes (t_got (s_l s)) ++
  enc_bytes (p_total (s_dl s)) ++ enc_bytes (p_total (s_ld s)) ++
  enc_bytes (p_buf (s_dl s)) ++ enc_bytes (p_buf (s_ld s)).

Definition run9 (l t : list N) : list N :=
  match decode9 t with
  | Some (dk, lk, c) =>
      let '(s, status) := run_sys (run_fuel l) (c_sched c) false 0 (sys_init c) in
      trace9 dk lk c s status
  | None => [0]
  end.

Definition run_case (l : list N) : list N :=
  match l with
  | 5 :: t => Fallback.run_fallback t
  | 9 :: t => run9 l t
  | 6 :: t => run6 l t
  | 7 :: t => run7 t
  | 8 :: t => Sub.run_sub t
  | 4 :: t => run4_case t
  | _ =>
  match decode_case l with
  | Some (Case0 c) =>
      let '(s, status) := run_sys (run_fuel l) (c_sched c) false 0 (sys_init c) in
      trace0 s status
  | Some (Case3 side lazy ns rs input pay) =>
      let '(s, status) := run_sys (run_fuel l) [] (negb side) 0 (sys_alone side lazy ns rs input pay) in
      trace0 s status
  | Some (Case1 h ls pl) => trace1 (webrtc_listener (tag_from 0 ls) pl h)
  | Some (Case2 p fs ops) =>
      match propose_msg p true with
      | Some m => [1; 0] ++ enc_bytes m ++ run_wops ops p fs false
      | None => [1; 1]
      end
  | None => [0]
  end
  end.

(* ------------------------------------------------------------------ the oracle *)
(* names for which the property text applies: valid protocol names that survive the codec and
   fit a frame *)
Definition wf_name (p : name) : bool :=
  starts_slash p && negb (has_nl p) && negb (name_eqb p HEADER_NAME) && (len p + 1 <=? MAX_FRAME).

Fixpoint find_idx (f : name -> bool) (l : list name) (i : N) : option (N * name) :=
  match l with
  | [] => None
  | x :: t => if f x then Some (i, x) else find_idx f t (i + 1)
  end.
Definition supported_b (ls : list name) (p : name) : bool := existsb (name_eqb p) ls.

Record obs0 := mkObs {
  o_status : N; o_dcode : N; o_didx : N; o_lcode : N; o_lidx : N; o_dend : N; o_lend : N;
  o_dgot : bytes; o_lgot : bytes; o_dwrote : bytes; o_lwrote : bytes; o_dl_left : bytes; o_ld_left : bytes }.
Definition p_obs0 : parser obs0 :=
  let* st := pN in let* a := pN in let* b := pN in let* c := pN in let* d := pN in
  let* e := pN in let* f := pN in
  let* g1 := p_bytes in let* g2 := p_bytes in let* w1 := p_bytes in let* w2 := p_bytes in
  let* l1 := p_bytes in let* l2 := p_bytes in
  pret (mkObs st a b c d e f g1 g2 w1 w2 l1 l2).

(* both ends hand over a transparent stream: each side received exactly the other's payload,
   reads ended with a clean EOF, nothing is left in the pipes *)
Definition transparent (c : ncase) (o : obs0) : bool :=
  bytes_eqb (o_dgot o) (c_lpay c) && bytes_eqb (o_lgot o) (c_dpay c) &&
  (o_dend o =? 0) && (o_lend o =? 0) &&
  match o_dl_left o, o_ld_left o with [], [] => true | _, _ => false end.

Definition nth_name (l : list name) (i : N) : option name := nth_error l (N.to_nat i).

Definition agree_on (c : ncase) (o : obs0) (i : N) (p : name) : bool :=
  (o_dcode o =? 0) && (o_didx o =? i) && (o_lcode o =? 0) &&
  match nth_name (c_ls c) (o_lidx o) with
  | Some q => name_eqb p q &&
              (* the listener reports its first matching entry *)
              match find_idx (name_eqb p) (c_ls c) 0 with Some (j, _) => j =? o_lidx o | None => false end
  | None => false
  end && transparent c o.

Definition is_last_idx (ds : list name) (i : N) : bool := N.of_nat (length ds) =? i + 1.

Definition ok0 (c : ncase) (o : obs0) : bool :=
  (o_status o =? 0) &&
  let all_wf := forallb wf_name (c_ds c) && forallb wf_name (c_ls c) in
  let exp := find_idx (supported_b (c_ls c)) (c_ds c) 0 in
  if all_wf then
    match exp with
    | Some (i, p) =>
        if c_lazy c && is_last_idx (c_ds c) i then
          (* optimistic dialer: settles at once; the listener's verdict and the streams agree *)
          agree_on c o i p
        else agree_on c o i p
    | None =>
        if c_lazy c then
          (* the optimistic dialer has settled on its last name; it must learn of the failure
             when it first reads. (The listener's verdict is NOT claimed here: the documented
             V1Lazy pitfall lets a payload that looks like a negotiation frame confuse it.) *)
          match c_ds c with
          | [] => negb (o_dcode o =? 0)
          | _ :: _ => negb (o_dcode o =? 0) || negb (o_dend o =? 0)
          end
        else negb (o_dcode o =? 0) && negb (o_lcode o =? 0)
    end
  else
    (* names outside the property's domain: only consistency is demanded *)
    if (o_dcode o =? 0) && (o_lcode o =? 0) && negb (c_lazy c) then
      match nth_name (c_ds c) (o_didx o), nth_name (c_ls c) (o_lidx o) with
      | Some p, Some q => name_eqb p q && transparent c o
      | _, _ => false
      end
    else true.

Fixpoint occurs (sub l : bytes) : bool :=
  bytes_eqb (firstn (length sub) l) sub || match l with [] => false | _ :: t => occurs sub t end.
Fixpoint ends_with (l suffix : bytes) : bool :=
  bytes_eqb l suffix || match l with [] => false | _ :: t => ends_with t suffix end.
Definition wpart (m : msg) : bytes := uvi_enc (len (encode_msg m)) ++ encode_msg m.
Definition opt_bytes_eqb (a : option bytes) (b : bytes) : bool :=
  match a with Some x => bytes_eqb x b | None => false end.

(* the payload is exactly a well-formed proposal of p for a listener in state `hdr` *)
Definition is_proposal (hdr : bool) (payload : bytes) (p : name) : bool :=
  wf_name p && opt_bytes_eqb (webrtc_encode (MProto p) (negb hdr)) payload.

(* message-based listener, judged on its output alone:
   - Accepted i reply: the payload is EXACTLY a well-formed proposal of ls[i] (so nothing may
     trail it), i is the first position of that name, reply is its confirmation;
   - Rejected / error / pending: no supported name was properly proposed;
   - Pending: the payload is the header alone, echoed. *)
Definition ok1 (hdr : bool) (ls : list name) (payload : bytes) (tr : list N) : bool :=
  let proposed_supported := existsb (is_proposal hdr payload) ls in
  match tr with
  | 0 :: i :: rest =>
      match nth_name ls i, pall p_bytes rest with
      | Some p, Some reply =>
          is_proposal hdr payload p &&
          match find_idx (name_eqb p) ls 0 with Some (j, _) => j =? i | None => false end &&
          opt_bytes_eqb (webrtc_encode (MProto p) (negb hdr)) reply
      | _, _ => false
      end
  | 1 :: rest =>
      negb proposed_supported &&
      match pall p_bytes rest with
      | Some reply => opt_bytes_eqb (webrtc_encode MNa (negb hdr)) reply
      | None => false
      end
  | 2 :: rest =>
      negb hdr && bytes_eqb payload (wpart MHeader) &&
      match pall p_bytes rest with Some reply => bytes_eqb reply payload | None => false end
  | [3; _] => negb proposed_supported && negb (negb hdr && bytes_eqb payload (wpart MHeader))
  | _ => false
  end.

(* names for which a header + proposal payload fits a frame *)
Definition wfw_b (p : name) : bool := wf_name p && (len p + 23 <=? MAX_FRAME).

(* message-based dialer: the first message is the header + proposal of the main name; a
   Succeeded / Rejected verdict is only given on a payload that contains the confirmation of
   the CURRENT name / an `na` (bytes trailing the verdict are discarded with a warning); fallbacks are proposed in order, one per request, without
   header, and `none left` is reported exactly when the list is exhausted.
   GROUND TRUTH for every grouping of a legal answer into messages: `acc` is the concatenation of
   the payloads registered since the last verdict / proposal while every call answered NotReady
   (`live`), `hs` = a verdict has been given before (so the header has been seen). As soon as
   acc ++ payload is exactly [header +] confirmation of the current (well-formed) name the call
   MUST answer Succeeded, on [header +] na it MUST answer Rejected, on the header alone (or on an
   empty message after it) it MUST answer NotReady - however the frames were spread over the calls.
   A propose_next_fallback in the middle of an answer (something registered, no verdict yet) is
   not a conversation with a legal listener: nothing is demanded from then on. *)
Definition ok2_expect (live hs : bool) (cur : name) (acc' : bytes) : option N :=
  if live && wfw_b cur then
    let h := if hs then [] else wpart MHeader in
    if bytes_eqb acc' (h ++ wpart (MProto cur)) then Some 1
    else if bytes_eqb acc' (h ++ wpart MNa) then Some 2
    else if negb hs && bytes_eqb acc' (wpart MHeader) then Some 0
    else if hs && bytes_eqb acc' [] then Some 0
    else None
  else None.

Definition is_nil (b : bytes) : bool := match b with [] => true | _ => false end.
Fixpoint ok2_ops (ops : list wop) (cur : name) (fbs : list name) (live hs : bool) (acc : bytes)
                 (tr : list N) : bool :=
  match ops with
  | [] => match tr with [] => true | _ => false end
  | WReg pl :: t =>
      match tr with
      | 0 :: code :: tr' =>
          (if code =? 1 then occurs (wpart (MProto cur)) pl
           else if code =? 2 then occurs (wpart MNa) pl else true) &&
          match ok2_expect live hs cur (acc ++ pl) with Some e => code =? e | None => true end &&
          (if code =? 0 then ok2_ops t cur fbs live hs (acc ++ pl) tr'
           else if code =? 2 then ok2_ops t cur fbs live true [] tr'
           else ok2_ops t cur fbs false hs [] tr')
      | _ => false
      end
  | WNext :: t =>
      match fbs, tr with
      | [], 1 :: 0 :: tr' => ok2_ops t cur [] (live && is_nil acc) hs [] tr'
      | f :: fbs', 1 :: 1 :: tr' =>
          match p_bytes tr' with
          | Some (m, tr'') => opt_bytes_eqb (propose_msg f false) m && ok2_ops t f fbs' (live && is_nil acc) hs [] tr''
          | None => false
          end
      | f :: fbs', 1 :: 2 :: tr' =>
          match propose_msg f false with None => ok2_ops t f fbs' false hs [] tr' | Some _ => false end
      | _, _ => false
      end
  end.

Definition ok2 (p : name) (fs : list name) (ops : list wop) (tr : list N) : bool :=
  match tr with
  | 0 :: tr' =>
      match p_bytes tr' with
      | Some (m, tr'') => opt_bytes_eqb (propose_msg p true) m && ok2_ops ops p fs true false [] tr''
      | None => false
      end
  | [1] => match propose_msg p true with None => true | Some _ => false end
  | _ => false
  end.

(* ---- mode 4: the whole session, judged from GROUND TRUTH (no model function of the dialer or
   the listener is used): for well-formed names and a grouping that does not put an empty message
   in front of the header, the trace must be exactly: in every round the listener accepts iff the
   proposed name is in its list (first position, reply = [header +] confirmation, else [header +]
   na), every register_response call but the last answers NotReady and the last one answers
   Succeeded on a confirmation / Rejected on na - for EVERY grouping of the reply's frames -, after
   a Rejected the next fallback is proposed without header, in order, `none left` at the end.
   Hence: listener Accepted(name) => the dialer ends with that very name; the lists intersect =>
   both settle on the dialer's most preferred supported name; NotReady is followed by progress. *)
Definition reply_frames (first : bool) (v : msg) : list bytes :=
  (if first then [wpart MHeader] else []) ++ [wpart v].
Definition verdict_codes (gs : list N) (fr : list bytes) (v : N) : list N :=
  let k := length (group gs fr) in N.of_nat k :: repeat 0 (k - 1) ++ [v].
Fixpoint spec4 (ls : list name) (fs : list name) (cur : name) (first : bool) (gss : list (list N))
               {struct fs} : list N :=
  match find_idx (name_eqb cur) ls 0 with
  | Some (i, _) =>
      let fr := reply_frames first (MProto cur) in
      [0; i] ++ enc_bytes (concat fr) ++ verdict_codes (hd [] gss) fr 1
  | None =>
      let fr := reply_frames first MNa in
      [1] ++ enc_bytes (concat fr) ++ verdict_codes (hd [] gss) fr 2 ++
      match fs with
      | [] => [1; 0]
      | f :: fs' => [1; 1] ++ enc_bytes (wpart (MProto f)) ++ spec4 ls fs' f false (tl gss)
      end
  end.
Definition clean4 (gss : list (list N)) : bool :=
  match gss with (k :: _) :: _ => negb (k =? 0) | _ => true end.
Definition spec4_trace (p : name) (fs ls : list name) (gss : list (list N)) : list N :=
  [0] ++ enc_bytes (wpart MHeader ++ wpart (MProto p)) ++ spec4 ls fs p true gss.
Definition ok4 (p : name) (fs ls : list name) (gss : list (list N)) (body : list N) : bool :=
  if forallb wfw_b (p :: fs) && clean4 gss then list_eqb N.eqb body (spec4_trace p fs ls gss)
  else true.

(* a lone future may only settle on a name whose confirmation / proposal frame is in its input *)
Definition ok3 (side lazy : bool) (ns : list name) (input : bytes) (o : obs0) : bool :=
  (o_status o =? 0) &&
  let code := if side then o_dcode o else o_lcode o in
  let idx := if side then o_didx o else o_lidx o in
  if (code =? 0) && negb (side && lazy) then
    match nth_name ns idx with
    | Some p => occurs (frame (p ++ [NL])) input && (side || occurs (frame MSG_HEADER) input)
    | None => false
    end
  else true.

(* ---- mode 6: negotiation under the timeout wrapper. Judged on the trace alone:
   - both tasks terminate;
   - a Timeout is only reported when the clock can have reached the deadline (at least `to`
     ticks in the schedule);
   - whoever reports success reports the dialer's first supported name (exact index), timeouts or
     not; when both succeed the streams are transparent;
   - with a common name, a failure of either side is only excused by a timeout of one of them
     (the inherent two-generals case: the listener may have accepted while the dialer's timer
     fires before it reads the confirmation), and the side that did succeed receives no byte at
     all (never negotiation bytes as application data), ending on a clean EOF;
   - without a common name both fail. *)

Definition ok6 (td tl : N) (c : ncase) (o : obs0) : bool :=
  (o_status o =? 0) &&
  let all_wf := forallb wf_name (c_ds c) && forallb wf_name (c_ls c) in
  let exp := find_idx (supported_b (c_ls c)) (c_ds c) 0 in
  let ticks := ticks_of (c_sched c) in
  let d_ok := o_dcode o =? 0 in
  let l_ok := o_lcode o =? 0 in
  (negb (o_dcode o =? C_TIMEOUT) || (td <=? ticks)) &&
  (negb (o_lcode o =? C_TIMEOUT) || (tl <=? ticks)) &&
  if all_wf then
    match exp with
    | Some (i, p) =>
        (negb d_ok || (o_didx o =? i)) &&
        (negb l_ok || match find_idx (name_eqb p) (c_ls c) 0 with
                      | Some (j, _) => j =? o_lidx o
                      | None => false
                      end) &&
        (if d_ok && l_ok then transparent c o
         else
           ((o_dcode o =? C_TIMEOUT) || (o_lcode o =? C_TIMEOUT)) &&
           (negb d_ok || (is_nil (o_dgot o) && (o_dend o =? 0))) &&
           (negb l_ok || (is_nil (o_lgot o) && (o_lend o =? 0))))
    | None => negb d_ok && negb l_ok
    end
  else
    if d_ok && l_ok then
      match nth_name (c_ds c) (o_didx o), nth_name (c_ls c) (o_lidx o) with
      | Some p, Some q => name_eqb p q && transparent c o
      | _, _ => false
      end
    else true.

(* ---- mode 7: the stream returned by the dialer for its single name p, against an input that
   either starts with the listener's header and confirmation of p (what follows is application
   data: `tail`) or does not. Judged on the trace alone:
   - no operation panics, every operation becomes Ready;
   - the bytes returned by the reads are, in order and unchanged, a prefix of `tail`, all of it
     once a read reported EOF; with the negotiation completed, what was read plus what is left in
     the pipe is exactly `tail` (no application byte consumed by the negotiation);
   - if the input does not start with header + confirmation no read ever returns data or EOF;
   - the wire carries the dialer's header and proposal followed by exactly the bytes the writes
     accepted, in order; they are complete as soon as a write / flush / close / read succeeded;
   - write, flush and close fail only after a failed read; after the first error every operation
     fails, the stream is in the failed state and its outbound direction closed. *)
Fixpoint strip_prefix (pre l : bytes) : option bytes :=
  match pre, l with
  | [], _ => Some l
  | x :: pre', y :: l' => if x =? y then strip_prefix pre' l' else None
  | _ :: _, [] => None
  end.
Definition is_prefix (a b : bytes) : bool :=
  match strip_prefix a b with Some _ => true | None => false end.

Definition p_ores : parser ores :=
  let* t := pN in
  if t =? 0 then pret OPending
  else if t =? 1 then let* b := p_bytes in pret (OData b)
  else if t =? 2 then let* n := pN in pret (ODone n)
  else if t =? 3 then let* c := pN in pret (OErr c)
  else pfail.

(* one observed operation: the op of the case, the number of Pendings, the result *)
Fixpoint p_obs_ops (ops : list nop) : parser (list (nop * N * ores)) :=
  match ops with
  | [] => pret []
  | op :: t =>
      let* tag := pN in let* np := pN in let* r := p_ores in
      if tag =? op_tag op then let* rest := p_obs_ops t in pret ((op, np, r) :: rest) else pfail
  end.

Record obs7 := mkO7 { o7_ops : list (nop * N * ores); o7_state : N; o7_closed : N;
                      o7_out : bytes; o7_left : bytes }.

Definition reads_of (l : list (nop * N * ores)) : bytes :=
  flat_map (fun x => match x with (OpRead _, _, OData bs) => bs | _ => [] end) l.
Definition writes_of (l : list (nop * N * ores)) : bytes :=
  flat_map (fun x => match x with (OpWrite d, _, ODone n) => firstn (N.to_nat n) d | _ => [] end) l.
Definition is_err (r : ores) : bool := match r with OErr _ => true | _ => false end.
Definition any_eof (l : list (nop * N * ores)) : bool :=
  existsb (fun x => match x with (OpRead _, _, OData []) => true | _ => false end) l.
Definition any_done (l : list (nop * N * ores)) : bool :=
  existsb (fun x => match snd x with OData _ | ODone _ => true | _ => false end) l.
Definition no_pending (l : list (nop * N * ores)) : bool :=
  forallb (fun x => match snd x with OPending => false | _ => true end) l.
(* after the first error only errors; the first error is the result of a read *)
Fixpoint err_shape (l : list (nop * N * ores)) : bool :=
  match l with
  | [] => true
  | (op, _, r) :: t =>
      if is_err r then
        match op with OpRead _ => true | _ => false end && forallb (fun x => is_err (snd x)) t
      else err_shape t
  end.
Definition any_err (l : list (nop * N * ores)) : bool := existsb (fun x => is_err (snd x)) l.

(* what the listener must have sent for the negotiation to succeed: header and confirmation —
   the code is lenient about the header (a confirmation alone is accepted as well, both by
   the V1 dialer and by the optimistic stream); what follows is application data *)
Definition strip_neg (p : name) (input : bytes) : option bytes :=
  match strip_prefix (frame MSG_HEADER ++ frame (p ++ [NL])) input with
  | Some t => Some t
  | None => strip_prefix (frame (p ++ [NL])) input
  end.

Definition ok7_stream (p : name) (input : bytes) (o : obs7) : bool :=
  let neg := frame MSG_HEADER ++ frame (p ++ [NL]) in
  let ops := o7_ops o in
  let R := reads_of ops in
  let W := writes_of ops in
  no_pending ops && err_shape ops &&
  (* outbound *)
  is_prefix (o7_out o) (neg ++ W) &&
  (negb (any_done ops) || bytes_eqb (o7_out o) (neg ++ W)) &&
  (* state *)
  (if any_err ops then (o7_state o =? 2) && (o7_closed o =? 1) else negb (o7_state o =? 2)) &&
  (* inbound *)
  match strip_neg p input with
  | Some tail =>
      negb (any_err ops) && is_prefix R tail &&
      (negb (any_eof ops) || bytes_eqb R tail) &&
      (negb (o7_state o =? 0) || bytes_eqb (R ++ o7_left o) tail)
  | None =>
      is_nil R && negb (any_eof ops) && negb (o7_state o =? 0)
  end.

Definition ok7 (c : case7) (tr : list N) : bool :=
  match tr with
  | code :: idx :: np :: rest =>
      match c7_names c with
      | [p] =>
          if wf_name p then
            let neg := frame MSG_HEADER ++ frame (p ++ [NL]) in
            if code =? 0 then
              match pall (let* ops := p_obs_ops (c7_ops c) in let* st := pN in let* cl := pN in
                          let* out := p_bytes in let* lft := p_bytes in
                          pret (mkO7 ops st cl out lft)) rest with
              | Some o =>
                  (idx =? 0) && ok7_stream p (c7_input c) o &&
                  (* the V1 dialer only returns after it has read the confirmation *)
                  (c7_lazy c || match strip_neg p (c7_input c) with Some _ => true | None => false end)
              | None => false
              end
            else
              (* the optimistic dialer settles at once; the V1 dialer fails only on an input that
                 is not [header +] confirmation *)
              negb (c7_lazy c) && match strip_neg p (c7_input c) with Some _ => false | None => true end
          else true
      | _ => true
      end
  | _ => false
  end.

(* ---- mode 9: the property as in mode 0, and in addition (V1, names in the domain) what each end
   put on the wire is exactly the LEGAL conversation for these two lists: the dialer's header and
   its proposals in order up to the first supported one, the listener's header, one `na` per
   rejected proposal and the confirmation, each followed by the payload once a name is agreed —
   whichever implementation runs that end. (Peer.v: this is the hypothesis under which litep2p's
   futures are proved correct against an arbitrary peer.) *)
Definition wire_of (ms : list msg) : bytes := flat_map (fun m => frame (encode_msg m)) ms.

(* the proposals a dialer makes against a listener supporting `ls`, and whether the last is accepted *)
Fixpoint dial_props (ls ds : list name) : list name * bool :=
  match ds with
  | [] => ([], false)
  | p :: t => if supported_b ls p then ([p], true)
              else let '(ps, a) := dial_props ls t in (p :: ps, a)
  end.
Fixpoint answers (ls ps : list name) : list msg :=
  match ps with
  | [] => []
  | p :: t => (if supported_b ls p then MProto p else MNa) :: answers ls t
  end.

Definition legal_dialer_wire (c : ncase) : bytes :=
  match c_ds c with
  | [] => []
  | _ :: _ =>
      let '(ps, acc) := dial_props (c_ls c) (c_ds c) in
      wire_of (MHeader :: map MProto ps) ++ (if acc then c_dpay c else [])
  end.
Definition legal_listener_wire (c : ncase) : bytes :=
  match c_ds c with
  | [] => []
  | _ :: _ =>
      let '(ps, acc) := dial_props (c_ls c) (c_ds c) in
      wire_of (MHeader :: answers (c_ls c) ps) ++ (if acc then c_lpay c else [])
  end.

Definition ok9 (c : ncase) (o : obs0) : bool :=
  ok0 c o &&
  (if negb (c_lazy c) && forallb wf_name (c_ds c) && forallb wf_name (c_ls c)
   then bytes_eqb (o_dwrote o) (legal_dialer_wire c) && bytes_eqb (o_lwrote o) (legal_listener_wire c)
   else true).

Definition prop_ok (case trace : list N) : bool :=
  match case with
  | 5 :: t => Fallback.ok_fallback t trace
  | 9 :: t =>
      match decode9 t, trace with
      | Some (_, _, c), 1 :: tb =>
          match pall p_obs0 tb with
          | Some o => ok9 c o
          | None => false
          end
      | None, [0] => true
      | _, _ => false
      end
  | 6 :: _ :: td :: tl :: body =>
      match decode6 body, trace with
      | Some c, 1 :: tb =>
          match pall p_obs0 tb with
          | Some o => ok6 td tl c o
          | None => false
          end
      | None, [0] => true
      | _, _ => false
      end
  | 6 :: _ => match trace with [0] => true | _ => false end
  | 8 :: t => Sub.ok_sub t trace
  | 4 :: t =>
      match pall p_case4 t, trace with
      | Some (p, fs, ls, gss), 1 :: tb => ok4 p fs ls gss tb
      | None, [0] => true
      | _, _ => false
      end
  | 7 :: t =>
      match decode7 t, trace with
      | Some c, 1 :: tb => ok7 c tb
      | None, [0] => true
      | _, _ => false
      end
  | _ =>
  match decode_case case, trace with
  | Some (Case0 c), 1 :: body =>
      match pall p_obs0 body with
      | Some o => ok0 c o
      | None => false
      end
  | Some (Case3 side lazy ns rs input pay), 1 :: body =>
      match pall p_obs0 body with
      | Some o => ok3 side lazy ns input o
      | None => false
      end
  | Some (Case1 h ls pl), 1 :: body => ok1 h ls pl body
  | Some (Case2 p fs ops), 1 :: body => ok2 p fs ops body
  | None, [0] => true
  | _, _ => false
  end
  end.

Definition known_class (case trace : list N) : N := 0.
