(* C03 — a substream opened with fallback names, end to end in the model:
   `open_substream` (src/transport/*/connection.rs) negotiates as dialer with the list
   `protocol :: fallback_names`; `accept_substream` negotiates as listener with the keys of
   `protocols_with_keep_alives()` = the main and fallback names of the listener's ProtocolSet
   (in hash-map order); both then hand the negotiated NAME to `report_substream_open`, which maps a
   fallback name back to its main protocol (Fallback.v). Composition of the negotiation theorems
   (under any timeouts, TimedProofs.v) with the mapping theorems. *)
From Coq Require Import List NArith Bool Lia.
From V.C03 Require Import Model Msg Proofs SimD SimL SimSys BytesThm Timed TimedProofs Fallback.
Import ListNotations.
Open Scope N_scope.

Lemma supported_In : forall ls n, supported ls n = true <-> In n ls.
Proof. intros ls n. exact (mem_In n ls). Qed.

Theorem substream_fallback_agreement : forall c to_d to_l es cfgD cfgL p fs,
  wf_case c -> c_ds c = p :: fs ->
  wf_cfg cfgD -> In (p, fs) cfgD ->
  (forall n, In n (c_ls c) <-> In n (offered cfgL)) ->
  forall i, t_res (s_d (ts_sys (trun to_d to_l es (tinit c)))) = (0, i) ->
  exists n,
    nth_error (p :: fs) (N.to_nat i) = Some n /\
    (* the dialer's most preferred name among main :: fallbacks that the listener offers *)
    first_common (p :: fs) (c_ls c) = Some n /\
    (forall k q, (k < N.to_nat i)%nat -> nth_error (p :: fs) k = Some q -> ~ In q (offered cfgL)) /\
    (* reported to the dialer's protocol under its main name, with the fallback that was used *)
    report cfgD n = Some (p, if i =? 0 then None else Some n) /\
    (* and on the listener to an installed protocol that declares the name *)
    exists m fb, report cfgL n = Some (m, fb) /\ In m (mains cfgL).
Proof.
  intros c to_d to_l es cfgD cfgL p fs Hc Hds HwD HinD Hls i Hres.
  destruct (timed_dialer_result c to_d to_l es Hc i Hres) as (n & Hfc & (pre & rest & Hsplit & Hi & Hun & Hsup)).
  rewrite Hds in Hfc, Hsplit. exists n.
  assert (Hnth : nth_error (p :: fs) (N.to_nat i) = Some n).
  { rewrite Hsplit, Hi, Nnat.Nat2N.id, nth_error_app2 by lia.
    replace (length pre - length pre)%nat with 0%nat by lia. reflexivity. }
  split; [exact Hnth|]. split; [exact Hfc|]. split; [|split].
  - intros k q Hk Hq Hoff. rewrite Hi, Nnat.Nat2N.id in Hk.
    rewrite Hsplit, nth_error_app1 in Hq by exact Hk.
    apply nth_error_In in Hq. rewrite Forall_forall in Hun. specialize (Hun q Hq).
    unfold unsup in Hun. apply Hls in Hoff. apply supported_In in Hoff. congruence.
  - destruct pre as [|x pre].
    + cbn in Hsplit. injection Hsplit as <- _. cbn in Hi. subst i. cbn.
      apply C03_main_reported_as_main; [exact HwD|]. apply In_mains. exists fs. exact HinD.
    + cbn in Hsplit. injection Hsplit as <- Hfs.
      assert (Hi0 : (i =? 0) = false) by (apply N.eqb_neq; cbn [length] in Hi; lia). rewrite Hi0.
      apply (C03_fallback_reported_to_main cfgD p fs n HwD HinD). rewrite Hfs.
      apply in_or_app. right. left. reflexivity.
  - apply C03_offered_always_supported. apply Hls. apply supported_In. exact Hsup.
Qed.

(* the listener's side of the same substream *)
Theorem substream_fallback_listener : forall c to_d to_l es cfgL,
  wf_case c -> (forall n, In n (c_ls c) <-> In n (offered cfgL)) ->
  forall j, t_res (s_l (ts_sys (trun to_d to_l es (tinit c)))) = (0, j) ->
  exists n, first_common (c_ds c) (c_ls c) = Some n /\ nth_error (c_ls c) (N.to_nat j) = Some n /\
    exists m fb, report cfgL n = Some (m, fb) /\ In m (mains cfgL) /\
      (wf_cfg cfgL -> report cfgL n = spec cfgL n).
Proof.
  intros c to_d to_l es cfgL Hc Hls j Hres.
  destruct (timed_listener_result c to_d to_l es Hc j Hres) as (n & Hfc & Hidx).
  exists n. split; [exact Hfc|].
  assert (Hnth : nth_error (c_ls c) (N.to_nat j) = Some n).
  { clear - Hidx. revert Hidx. generalize (c_ls c). intros l.
    assert (G : forall l k, lidx k l n = Some j -> k <= j /\ nth_error l (N.to_nat (j - k)) = Some n).
    { induction l0 as [|x l0 IH]; intros k H; [discriminate|].
      cbn [lidx] in H. destruct (starts_slash x && name_eqb n x) eqn:E.
      - injection H as <-. split; [lia|]. replace (k - k) with 0 by lia. cbn.
        apply andb_true_iff in E. destruct E as [_ E]. apply neqb_eq in E. subst. reflexivity.
      - destruct (IH _ H) as [A B]. split; [lia|].
        replace (N.to_nat (j - k)) with (S (N.to_nat (j - (k + 1)))) by lia. exact B. }
    intros H. destruct (G l 0 H) as [_ B]. replace (j - 0) with j in B by lia. exact B. }
  split; [exact Hnth|].
  assert (Hoff : In n (offered cfgL)) by (apply Hls; eapply nth_error_In; exact Hnth).
  destruct (C03_offered_always_supported cfgL n Hoff) as (m & fb & Hr & Hm).
  exists m, fb. split; [exact Hr|]. split; [exact Hm|].
  intros Hw. symmetry. apply spec_report. exact Hw.
Qed.
