(* C03 — the end-to-end fallback mode (Sub.v): the trace oracle accepts the model's trace on
   every input, and on a valid case it accepts nothing but the outcome the specification names. *)
From Coq Require Import List NArith Bool Lia.
From V.common Require Import Wire.
From V.C03 Require Import Model Fallback Sub.
Import ListNotations.
Open Scope N_scope.

Lemma res_entry_in_pool : forall pool es cfg, omap (fb_res_entry pool) es = Some cfg -> cfg_in_pool pool cfg.
Proof.
  intros pool es cfg Ec m fs Hin. destruct (omap_In _ _ _ _ Ec Hin) as [[mi fis] [_ He]].
  unfold fb_res_entry in He. cbn [fst snd] in He.
  destruct (fb_nth pool mi) as [m'|] eqn:Em; [|discriminate].
  destruct (omap (fb_nth pool) fis) as [fs'|] eqn:Ef; [|discriminate].
  inversion He. subst. split; [eapply fb_nth_In; exact Em|].
  intros f Hf. destruct (omap_In _ _ _ _ Ef Hf) as [fi [_ Hfi]]. eapply fb_nth_In. exact Hfi.
Qed.

Lemma sub_decode_facts : forall l c, sub_decode l = Some c ->
  cfg_in_pool (sc_pool c) (sc_a c) /\ cfg_in_pool (sc_pool c) (sc_b c) /\
  wf_cfgb (sc_b c) = true /\ sc_k c < N.of_nat (length (sc_a c)).
Proof.
  intros l c H. unfold sub_decode in H.
  match type of H with context [pall ?p ?x] => destruct (pall p x) as [[[[pool ea] eb] k]|] end; [|discriminate].
  destruct (forallb sub_name_ok pool); [|discriminate].
  destruct (omap (fb_res_entry pool) ea) as [ca|] eqn:Ea; [|discriminate].
  destruct (omap (fb_res_entry pool) eb) as [cb|] eqn:Eb; [|discriminate].
  match type of H with (if ?b then _ else _) = _ => destruct b eqn:Ec end; [|discriminate].
  injection H as <-. cbn [sc_pool sc_a sc_b sc_k].
  repeat (apply andb_true_iff in Ec; destruct Ec as [Ec ?]).
  split; [eapply res_entry_in_pool; eauto|]. split; [eapply res_entry_in_pool; eauto|].
  split; [assumption|]. apply N.ltb_lt. assumption.
Qed.

Lemma idx_name_opt : forall pool o, (forall n, o = Some n -> In n pool) ->
  idx_name pool (opt_idx pool o) = Some o.
Proof.
  intros pool [n|] H; [|reflexivity]. unfold idx_name, opt_idx.
  destruct (1 + canon pool n =? 0) eqn:E; [apply N.eqb_eq in E; lia|].
  replace (1 + canon pool n - 1) with (canon pool n) by lia.
  rewrite (nth_canon pool n (H n eq_refl)). reflexivity.
Qed.

Lemma find_before : forall cfgb names n,
  find (fun x => mem x (offered cfgb)) names = Some n -> before_unoffered cfgb names n = true.
Proof.
  intros cfgb. induction names as [|x t IH]; intros n H; [discriminate|].
  cbn [find] in H. cbn [before_unoffered]. destruct (mem x (offered cfgb)) eqn:E.
  - injection H as <-. rewrite neqb_refl. reflexivity.
  - destruct (name_eqb x n); [reflexivity|]. cbn. apply IH. exact H.
Qed.

Theorem sub_oracle_accepts_model : forall case : list N, ok_sub case (run_sub case) = true.
Proof.
  intros case. unfold ok_sub, run_sub.
  destruct (sub_decode case) as [c|] eqn:D; [|reflexivity].
  destruct (sub_decode_facts _ _ D) as (Ha & Hb & Hwf & Hk).
  destruct (nth_error (sc_a c) (N.to_nat (sc_k c))) as [[m fs]|] eqn:En.
  2:{ exfalso. apply nth_error_None in En. lia. }
  assert (Hin : In (m, fs) (sc_a c)) by (eapply nth_error_In; exact En).
  destruct (Ha _ _ Hin) as [Hmp Hfp].
  destruct (find (fun x => mem x (offered (sc_b c))) (m :: fs)) as [n|] eqn:Ef.
  - destruct (find_some _ _ Ef) as [Hn Hoff].
    assert (Hoff' : In n (offered (sc_b c))) by (apply mem_In; exact Hoff).
    destruct (offered_supported_l _ _ Hoff') as (bm & bfb & Hr & Hbm). rewrite Hr.
    assert (Hnp : In n (sc_pool c)) by (destruct Hn as [<- | Hn]; [exact Hmp | exact (Hfp _ Hn)]).
    assert (Hbmp : In bm (sc_pool c)) by (eapply mains_in_pool; eauto).
    change (0 =? 0) with true. cbv iota.
    rewrite idx_name_opt.
    2:{ intros x Hx. destruct (name_eqb n m); [discriminate|]. injection Hx as <-. exact Hnp. }
    change (1 + canon (sc_pool c) bm) with (opt_idx (sc_pool c) (Some bm)).
    rewrite idx_name_opt by (intros x Hx; injection Hx as <-; exact Hbmp).
    rewrite idx_name_opt.
    2:{ intros x Hx. subst bfb. destruct (report_shape_l _ _ _ _ Hr) as [_ [-> _]]. exact Hnp. }
    assert (Hsp : spec (sc_b c) n = Some (bm, bfb)).
    { rewrite <- Hr. apply spec_report. apply wf_cfgb_iff. exact Hwf. }
    destruct (name_eqb n m) eqn:Enm.
    + apply neqb_eq in Enm. subst n. rewrite Hsp, res_eqb_refl, Hoff. cbn [andb].
      cbn [before_unoffered]. rewrite neqb_refl. reflexivity.
    + rewrite Hsp, res_eqb_refl, Hoff, (find_before _ _ _ Ef). rewrite Enm. cbn [negb andb].
      rewrite !andb_true_r.
      apply mem_In. destruct Hn as [<- | Hn]; [rewrite neqb_refl in Enm; discriminate | exact Hn].
  - change (1 =? 0) with false. change (1 =? 1) with true. change (0 =? 0) with true. cbv iota.
    cbn [andb]. rewrite !andb_true_r. apply negb_true_iff.
    destruct (existsb (fun x => mem x (offered (sc_b c))) (m :: fs)) eqn:E; [|reflexivity].
    apply existsb_exists in E. destruct E as (x & Hx & Hm).
    pose proof (find_none _ _ Ef x Hx) as Hc. cbn in Hc. congruence.
Qed.
