(* C03 — message-based (WebRTC) multistream-select: a session driver. Definitions only.

   How transport/webrtc/connection.rs drives the two pure functions of Model.v over one data
   channel:
   - the dialer (`WebRtcDialerState::propose`) sends header + proposal of its main protocol in
     one payload;
   - the listener (`on_inbound_opening_channel_data`) runs `webrtc_listener_negotiate` on every
     payload with the channel's `header_received` flag (initially false); it writes the reply;
     `Accepted` opens the substream, an error closes the channel, anything else
     (`Rejected` / `PendingProtocol`) leaves the channel in `InboundOpening{header_received:true}`;
   - the dialer (`on_outbound_opening_channel_data`) feeds every payload to `register_response`;
     `Succeeded` opens the substream; `Rejected` pops the next fallback (`propose_next_fallback`,
     fallbacks are tried first to last), makes it the current protocol and sends its proposal
     without header, or fails when none is left; `NotReady` waits for another payload; an error
     fails the substream. *)
From Coq Require Import List NArith Bool.
From V.gen Require Import Consts.
From V.common Require Import Wire.
From V.C03 Require Import Model.
Import ListNotations.
Open Scope N_scope.

(* WebRtcDialerState::propose / propose_next_fallback: `Protocol::try_from` then the encoder *)
Definition propose_msg (p : name) (with_header : bool) : option bytes :=
  if starts_slash p then webrtc_encode (MProto p) with_header else None.

Record ws_result := mkWs {
  ws_dialer : option name;      (* Some q: outbound substream opened for q; None: failed *)
  ws_listener : option N;       (* Some i: inbound substream opened for the i-th supported name *)
  ws_proposed : list name }.    (* names whose proposal was put on the wire, in order *)

Definition ws_sent (q : name) (r : ws_result) : ws_result :=
  mkWs (ws_dialer r) (ws_listener r) (q :: ws_proposed r).

(* The dialer's current protocol is `cur`; its proposal still has to be sent (`first` = it is the
   initial header+proposal payload); `fs` are the fallbacks not tried yet; `hdr` is the listener
   channel's `header_received`; `waiting` is the dialer's "header seen" state.
   The listener and the dialer outcome are recorded independently; once the listener has accepted
   (its channel is Open) or failed (its channel is closed) no further negotiation payload is
   processed, so the session ends there whatever the dialer makes of the last reply. *)
Fixpoint ws_run (ls : list (N * name)) (fs : list name) (cur : name) (first hdr waiting : bool)
  : ws_result :=
  match propose_msg cur first with
  | None => mkWs None None []                       (* InvalidData: nothing is sent *)
  | Some payload =>
      ws_sent cur
        match webrtc_listener ls payload hdr with
        | WLErr _ => mkWs None None []              (* channel closed; the dialer never succeeds *)
        | WLAccepted i reply =>
            let '(_, r) := webrtc_dialer_register (S (length reply)) cur waiting reply in
            mkWs (match r with WDSucceeded => Some cur | _ => None end) (Some i) []
        | WLRejected reply | WLPendingProtocol reply =>
            let '(waiting', r) := webrtc_dialer_register (S (length reply)) cur waiting reply in
            match r with
            | WDSucceeded => mkWs (Some cur) None []
            | WDRejected =>
                match fs with
                | [] => mkWs None None []           (* all protocols rejected *)
                | f :: fs' => ws_run ls fs' f false true waiting'
                end
            | WDNotReady => mkWs None None []       (* waits; this listener sends nothing more *)
            | WDErr _ => mkWs None None []
            end
        end
  end.

(* dialer with main protocol `p` and fallbacks `fs` against a listener supporting `ls` *)
Definition webrtc_session (ls : list name) (p : name) (fs : list name) : ws_result :=
  ws_run (tag_from 0 ls) fs p true false false.

(* ------------------------------------------------------------------ specification side *)
Definition ws_supported (ls : list (N * name)) (q : name) : bool :=
  match l_find ls q with Some _ => true | None => false end.

(* the prefix of `l` up to and including the first element satisfying `f` (all of `l` if none) *)
Fixpoint take_until {A} (f : A -> bool) (l : list A) : list A :=
  match l with
  | [] => []
  | x :: t => if f x then [x] else x :: take_until f t
  end.
