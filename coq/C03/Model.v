(* C03 — multistream-select negotiation. Executable model, definitions only.

   Layer 1: the `Message` codec of protocol.rs (encode / decode incl. the ls-response parser).
   Layer 2: the `LengthDelimited` framing of length_delimited.rs: writer buffer and the
            byte-at-a-time pull reader, run against a scripted carrier (chunk limits and
            Pending injections).
   Layer 3: `DialerSelectFuture`, `ListenerSelectFuture`, `Negotiated` as poll functions over two
            scripted carriers, and the task "negotiate, write payload, close, read to EOF"
            that the correspondence harness runs on both ends under a scheduler script.
   Message-based (WebRTC) variant: `webrtc_listener_negotiate`, `WebRtcDialerState`.

   Bytes are numbers < 256 in N. *)
From Coq Require Import List NArith Bool.
From V.gen Require Import Consts.
From V.common Require Import Wire.
Import ListNotations.
Open Scope N_scope.

Definition bytes := list N.
Definition name := list N.

Definition NL : N := 10.
Definition SLASH : N := 47.
(* "/multistream/1.0.0" *)
Definition HEADER_NAME : bytes :=
  [47;109;117;108;116;105;115;116;114;101;97;109;47;49;46;48;46;48].
Definition MSG_HEADER : bytes := HEADER_NAME ++ [NL].
Definition MSG_NA : bytes := [110; 97; 10].
Definition MSG_LS : bytes := [108; 115; 10].
(* MAX_FRAME_SIZE = (1 << (MAX_LEN_BYTES * 8 - MAX_LEN_BYTES)) - 1 *)
Definition MAX_FRAME : N := 2 ^ (C03_MAX_LEN_BYTES * 8 - C03_MAX_LEN_BYTES) - 1.

Definition bytes_eqb : bytes -> bytes -> bool := list_eqb N.eqb.
Definition name_eqb : name -> name -> bool := bytes_eqb.
Definition len (b : bytes) : N := N.of_nat (length b).

(* ------------------------------------------------------------------ unsigned varint *)
Fixpoint uvi_enc_f (fuel : nat) (n : N) : bytes :=
  match fuel with
  | O => []
  | S f => if n <? 128 then [n] else (128 + n mod 128) :: uvi_enc_f f (n / 128)
  end.
Definition uvi_enc (n : N) : bytes := uvi_enc_f 10 n.

(* unsigned_varint::decode::u64 (usize on 64-bit): at most 10 bytes, minimal encodings only,
   value truncated to 64 bits. None = any decode error. *)
Fixpoint uvi_dec_f (buf : bytes) (i shift acc : N) : option (N * bytes) :=
  match buf with
  | [] => None
  | b :: t =>
      let acc' := acc + (b mod 128) * 2 ^ shift in
      if b <? 128 then
        if (b =? 0) && (0 <? i) then None else Some (acc' mod 2 ^ 64, t)
      else if i =? 9 then None
      else uvi_dec_f t (i + 1) (shift + 7) acc'
  end.
Definition uvi_dec (buf : bytes) : option (N * bytes) := uvi_dec_f buf 0 0 0.

(* ------------------------------------------------------------------ Message codec *)
Inductive msg :=
| MHeader | MProto (p : name) | MLs | MProtos (ps : list name) | MNa.

Definition enc_proto_entry (p : name) : bytes := uvi_enc (len p + 1) ++ p ++ [NL].
Definition encode_msg (m : msg) : bytes :=
  match m with
  | MHeader => MSG_HEADER
  | MProto p => p ++ [NL]
  | MLs => MSG_LS
  | MNa => MSG_NA
  | MProtos ps => flat_map enc_proto_entry ps ++ [NL]
  end.

Inductive derr := EIo | EInvMsg | EInvProto | ETooMany.
Inductive dres := DOk (m : msg) | DErr (e : derr).

Definition starts_slash (b : bytes) : bool :=
  match b with x :: _ => x =? SLASH | [] => false end.
Definition has_nl (b : bytes) : bool := existsb (N.eqb NL) b.

Fixpoint parse_protos (fuel : nat) (rem : bytes) (count : N) (acc : list name) : dres :=
  match fuel with
  | O => DErr EIo
  | S f =>
      if bytes_eqb rem [NL] then DOk (MProtos (rev acc))
      else if count =? C03_MAX_PROTOCOLS then DErr ETooMany
      else match uvi_dec rem with
           | None => DErr EIo
           | Some (l, tail) =>
               if (l =? 0) || (len tail <? l) then DErr EInvMsg
               else if negb (nth (N.to_nat (l - 1)) tail 0 =? NL) then DErr EInvMsg
               else let p := firstn (N.to_nat (l - 1)) tail in
                    if starts_slash p
                    then parse_protos f (skipn (N.to_nat l) tail) (count + 1) (p :: acc)
                    else DErr EInvProto
           end
  end.

Definition decode_msg (b : bytes) : dres :=
  if bytes_eqb b MSG_HEADER then DOk MHeader
  else if bytes_eqb b MSG_NA then DOk MNa
  else if bytes_eqb b MSG_LS then DOk MLs
  else if starts_slash b && (last b 0 =? NL) && negb (has_nl (removelast b))
       then DOk (MProto (removelast b))
       else parse_protos (S (length b)) b 0 [].

(* ------------------------------------------------------------------ decisions shared by the
   byte-level machines below and the message-level system of Msg.v *)
Inductive dreact := DRHeader | DRConfirm | DRNext | DRInvalid.
(* dialer in AwaitProtocol{protocol = p, header_received = hr} receives m *)
Definition d_react (p : name) (hr : bool) (m : msg) : dreact :=
  match m with
  | MHeader => if hr then DRInvalid else DRHeader
  | MProto q => if name_eqb q p then DRConfirm else DRInvalid
  | MNa => DRNext
  | _ => DRInvalid
  end.

(* listener's lookup: first supported entry (tagged with its position) equal to p *)
Fixpoint l_find {A} (ls : list (A * name)) (p : name) : option A :=
  match ls with
  | [] => None
  | (a, q) :: t => if name_eqb p q then Some a else l_find t p
  end.
(* listener_select_proto drops names that are not valid `Protocol`s *)
Definition l_filter {A} (ls : list (A * name)) : list (A * name) :=
  filter (fun x => starts_slash (snd x)) ls.

(* ------------------------------------------------------------------ framing *)
Definition enc_len (n : N) : bytes :=
  if n <? 128 then [n] else [128 + n mod 128; n / 128].
Definition frame (body : bytes) : bytes := enc_len (len body) ++ body.

(* unsigned_varint::decode::u16 on the 2-byte length buffer once a byte without MSB was read *)
Definition dec_len (buf : bytes) : option N :=
  match buf with
  | [b0] => Some b0
  | [b0; b1] => if b1 =? 0 then None else Some (b0 mod 128 + b1 * 128)
  | _ => None
  end.

(* One direction of the scripted duplex. The reader sees `p_buf`; every read that finds data
   consumes one entry c of the read script: c = 0 is an injected Pending, otherwise at most c
   bytes are delivered (an exhausted script delivers everything asked for). Writes likewise. *)
Record pipe := mkPipe {
  p_buf : bytes; p_closed : bool; p_rscript : list N; p_wscript : list N;
  p_total : bytes (* everything ever written, for the trace *) }.

Inductive rres := RPending | REof | RData (bs : bytes).

Definition nmin3 (a b c : N) : N := N.min a (N.min b c).

Definition pipe_read (p : pipe) (k : N) : pipe * rres :=
  match p_buf p with
  | [] => (p, if p_closed p then REof else RPending)
  | _ :: _ =>
      match p_rscript p with
      | [] =>
          let n := N.to_nat (N.min k (len (p_buf p))) in
          (mkPipe (skipn n (p_buf p)) (p_closed p) [] (p_wscript p) (p_total p),
           RData (firstn n (p_buf p)))
      | c :: s =>
          if c =? 0 then (mkPipe (p_buf p) (p_closed p) s (p_wscript p) (p_total p), RPending)
          else
            let n := N.to_nat (nmin3 k c (len (p_buf p))) in
            (mkPipe (skipn n (p_buf p)) (p_closed p) s (p_wscript p) (p_total p),
             RData (firstn n (p_buf p)))
      end
  end.

(* poll_write of a non-empty slice: None = Pending, Some n = n bytes accepted (n >= 1) *)
Definition pipe_write (p : pipe) (data : bytes) : pipe * option nat :=
  match p_wscript p with
  | [] => (mkPipe (p_buf p ++ data) (p_closed p) (p_rscript p) [] (p_total p ++ data),
           Some (length data))
  | c :: s =>
      if c =? 0 then (mkPipe (p_buf p) (p_closed p) (p_rscript p) s (p_total p), None)
      else
        let n := N.to_nat (N.min c (len data)) in
        (mkPipe (p_buf p ++ firstn n data) (p_closed p) (p_rscript p) s (p_total p ++ firstn n data),
         Some n)
  end.

Definition pipe_close (p : pipe) : pipe :=
  mkPipe (p_buf p) true (p_rscript p) (p_wscript p) (p_total p).

(* --- LengthDelimited reader: ReadLength{buf,pos} / ReadData{len,pos} *)
Inductive rstate := RLen (buf : bytes) | RBody (n : N) (acc : bytes).
Definition rd_init : rstate := RLen [].
(* read_buffer.is_empty(): the buffer is resized to the frame length on entering ReadData *)
Definition rd_buffer_empty (st : rstate) : bool :=
  match st with RLen _ => true | RBody _ _ => false end.

Inductive ioerr := IoInvalidData | IoUnexpectedEof | IoWriteZero.
Inductive fres := FPending | FNone | FFrame (b : bytes) | FErr (e : ioerr).

(* one call of <LengthDelimited as Stream>::poll_next *)
Fixpoint rd_poll (fuel : nat) (st : rstate) (p : pipe) : rstate * pipe * fres :=
  match fuel with
  | O => (st, p, FPending)
  | S f =>
      match st with
      | RLen buf =>
          let '(p1, r) := pipe_read p 1 in
          match r with
          | RPending => (st, p1, FPending)
          | REof => (st, p1, match buf with [] => FNone | _ => FErr IoUnexpectedEof end)
          | RData bs =>
              let buf' := buf ++ bs in
              if last bs 0 <? 128 then
                match dec_len buf' with
                | None => (RLen buf', p1, FErr IoInvalidData)
                | Some n =>
                    if 1 <=? n then rd_poll f (RBody n []) p1
                    else (RLen [], p1, FFrame [])
                end
              else if len buf' =? C03_MAX_LEN_BYTES then (RLen buf', p1, FErr IoInvalidData)
              else rd_poll f (RLen buf') p1
          end
      | RBody n acc =>
          let '(p1, r) := pipe_read p (n - len acc) in
          match r with
          | RPending => (st, p1, FPending)
          | REof => (st, p1, FErr IoUnexpectedEof)
          | RData bs =>
              let acc' := acc ++ bs in
              if len acc' =? n then (RLen [], p1, FFrame acc')
              else rd_poll f (RBody n acc') p1
          end
      end
  end.
Definition rd_fuel (p : pipe) : nat := S (S (length (p_buf p))).

(* --- LengthDelimited writer *)
(* poll_write_buffer: None = Pending, Some tt = buffer drained *)
Fixpoint wr_drain (fuel : nat) (wbuf : bytes) (p : pipe) : bytes * pipe * bool :=
  match fuel with
  | O => (wbuf, p, false)
  | S f =>
      match wbuf with
      | [] => ([], p, true)
      | _ :: _ =>
          let '(p1, r) := pipe_write p wbuf in
          match r with
          | None => (wbuf, p1, false)
          | Some n => wr_drain f (skipn n wbuf) p1
          end
      end
  end.
Definition wr_fuel (wbuf : bytes) : nat := S (length wbuf).

(* Sink::poll_ready: drains first when the buffer holds MAX_FRAME_SIZE bytes or more *)
Definition wr_ready (wbuf : bytes) (p : pipe) : bytes * pipe * bool :=
  if MAX_FRAME <=? len wbuf then wr_drain (wr_fuel wbuf) wbuf p else (wbuf, p, true).
(* Sink::start_send *)
Definition wr_send (wbuf : bytes) (body : bytes) : option bytes :=
  if len body <=? MAX_FRAME then Some (wbuf ++ frame body) else None.

(* --- error codes of the trace *)
Definition C_FAILED : N := 1.
Definition C_INVMSG : N := 2.
Definition C_INVPROTO : N := 3.
Definition C_TOOMANY : N := 4.
Definition C_IO_INVALID : N := 5.
Definition C_IO_EOF : N := 6.
Definition C_IO_OTHER : N := 7.
Definition code_of_io (e : ioerr) : N :=
  match e with IoInvalidData => C_IO_INVALID | IoUnexpectedEof => C_IO_EOF | IoWriteZero => C_IO_OTHER end.
Definition code_of_derr (e : derr) : N :=
  match e with EIo => C_IO_INVALID | EInvMsg => C_INVMSG | EInvProto => C_INVPROTO | ETooMany => C_TOOMANY end.

(* MessageIO::poll_next *)
Inductive mres := MPending | MEof | MMsg (m : msg) | MFail (code : N).
Definition msg_poll (st : rstate) (p : pipe) : rstate * pipe * mres :=
  let '(st1, p1, r) := rd_poll (rd_fuel p) st p in
  (st1, p1,
   match r with
   | FPending => MPending
   | FNone => MEof
   | FErr e => MFail (code_of_io e)
   | FFrame b => match decode_msg b with DOk m => MMsg m | DErr e => MFail (code_of_derr e) end
   end).

(* ------------------------------------------------------------------ DialerSelectFuture *)
Inductive dphase :=
| DSendHeader
| DSendProto (i : N) (p : name) (hr : bool)
| DFlush (i : N) (p : name) (hr : bool)
| DAwait (i : N) (p : name) (hr : bool).
Record dialer := mkDialer {
  d_ph : dphase; d_rest : list (N * name); d_lazy : bool; d_rd : rstate; d_wbuf : bytes }.

(* outcome of a negotiation future *)
Inductive nout :=
| NPending
| NErr (code : N)
| NDone (i : N)                                    (* Negotiated::completed *)
| NLazy (i : N) (p : name) (st : rstate) (wbuf : bytes). (* Negotiated::expecting(.., Some(V1)) *)

(* `pin` is read, `pout` is written *)
Fixpoint d_poll (fuel : nat) (d : dialer) (pin pout : pipe) : dialer * pipe * pipe * nout :=
  match fuel with
  | O => (d, pin, pout, NPending)
  | S f =>
      match d_ph d with
      | DSendHeader =>
          let '(w1, po1, ok) := wr_ready (d_wbuf d) pout in
          if negb ok then (mkDialer DSendHeader (d_rest d) (d_lazy d) (d_rd d) w1, pin, po1, NPending)
          else match wr_send w1 MSG_HEADER with
               | None => (d, pin, po1, NErr C_IO_INVALID)
               | Some w2 =>
                   match d_rest d with
                   | [] => (mkDialer DSendHeader [] (d_lazy d) (d_rd d) w2, pin, po1, NErr C_FAILED)
                   | (i, p) :: rest =>
                       d_poll f (mkDialer (DSendProto i p false) rest (d_lazy d) (d_rd d) w2) pin po1
                   end
               end
      | DSendProto i p hr =>
          let '(w1, po1, ok) := wr_ready (d_wbuf d) pout in
          if negb ok then (mkDialer (DSendProto i p hr) (d_rest d) (d_lazy d) (d_rd d) w1, pin, po1, NPending)
          else if negb (starts_slash p) then (d, pin, po1, NErr C_INVPROTO)
          else match wr_send w1 (encode_msg (MProto p)) with
               | None => (d, pin, po1, NErr C_IO_INVALID)
               | Some w2 =>
                   match d_rest d with
                   | [] =>
                       if d_lazy d then (d, pin, po1, NLazy i p (d_rd d) w2)
                       else d_poll f (mkDialer (DFlush i p hr) [] (d_lazy d) (d_rd d) w2) pin po1
                   | _ :: _ => d_poll f (mkDialer (DFlush i p hr) (d_rest d) (d_lazy d) (d_rd d) w2) pin po1
                   end
               end
      | DFlush i p hr =>
          let '(w1, po1, ok) := wr_drain (wr_fuel (d_wbuf d)) (d_wbuf d) pout in
          if ok then d_poll f (mkDialer (DAwait i p hr) (d_rest d) (d_lazy d) (d_rd d) w1) pin po1
          else (mkDialer (DFlush i p hr) (d_rest d) (d_lazy d) (d_rd d) w1, pin, po1, NPending)
      | DAwait i p hr =>
          let '(st1, pi1, r) := msg_poll (d_rd d) pin in
          let d1 := mkDialer (DAwait i p hr) (d_rest d) (d_lazy d) st1 (d_wbuf d) in
          match r with
          | MPending => (d1, pi1, pout, NPending)
          | MEof => (d1, pi1, pout, NErr C_FAILED)
          | MFail c => (d1, pi1, pout, NErr c)
          | MMsg m =>
              match d_react p hr m with
              | DRHeader => d_poll f (mkDialer (DAwait i p true) (d_rest d) (d_lazy d) st1 (d_wbuf d)) pi1 pout
              | DRConfirm => (d1, pi1, pout, NDone i)
              | DRNext =>
                  match d_rest d with
                  | [] => (d1, pi1, pout, NErr C_FAILED)
                  | (i', p') :: rest =>
                      d_poll f (mkDialer (DSendProto i' p' hr) rest (d_lazy d) st1 (d_wbuf d)) pi1 pout
                  end
              | DRInvalid => (d1, pi1, pout, NErr C_INVMSG)
              end
          end
      end
  end.
Definition d_fuel (d : dialer) (pin : pipe) : nat :=
  (10 + 4 * length (d_rest d) + length (p_buf pin))%nat.

Fixpoint tag_from {A} (i : N) (l : list A) : list (N * A) :=
  match l with [] => [] | x :: t => (i, x) :: tag_from (i + 1) t end.

Definition d_init (ds : list name) (lazy : bool) : dialer :=
  mkDialer DSendHeader (tag_from 0 ds) lazy rd_init [].

(* ------------------------------------------------------------------ ListenerSelectFuture *)
Inductive lphase :=
| LRecvHeader | LSendHeader | LRecvMsg
| LSendMsg (m : msg) (o : option N)
| LFlush (o : option N).
Record listener := mkListener {
  l_ph : lphase; l_protos : list (N * name); l_na : bool; l_rd : rstate; l_wbuf : bytes }.

Fixpoint l_poll (fuel : nat) (l : listener) (pin pout : pipe) : listener * pipe * pipe * nout :=
  match fuel with
  | O => (l, pin, pout, NPending)
  | S f =>
      match l_ph l with
      | LRecvHeader =>
          let '(st1, pi1, r) := msg_poll (l_rd l) pin in
          let l1 := mkListener LRecvHeader (l_protos l) (l_na l) st1 (l_wbuf l) in
          match r with
          | MPending => (l1, pi1, pout, NPending)
          | MEof => (l1, pi1, pout, NErr C_FAILED)
          | MFail c => (l1, pi1, pout, NErr c)
          | MMsg MHeader => l_poll f (mkListener LSendHeader (l_protos l) (l_na l) st1 (l_wbuf l)) pi1 pout
          | MMsg _ => (l1, pi1, pout, NErr C_INVMSG)
          end
      | LSendHeader =>
          let '(w1, po1, ok) := wr_ready (l_wbuf l) pout in
          if negb ok then (mkListener LSendHeader (l_protos l) (l_na l) (l_rd l) w1, pin, po1, NPending)
          else match wr_send w1 MSG_HEADER with
               | None => (l, pin, po1, NErr C_IO_INVALID)
               | Some w2 => l_poll f (mkListener (LFlush None) (l_protos l) (l_na l) (l_rd l) w2) pin po1
               end
      | LRecvMsg =>
          let '(st1, pi1, r) := msg_poll (l_rd l) pin in
          let l1 := mkListener LRecvMsg (l_protos l) (l_na l) st1 (l_wbuf l) in
          match r with
          | MPending => (l1, pi1, pout, NPending)
          | MEof => (l1, pi1, pout, NErr C_FAILED)
          | MFail c =>
              if l_na l && ((c =? C_INVMSG) || (c =? C_IO_EOF)) then (l1, pi1, pout, NErr C_FAILED)
              else (l1, pi1, pout, NErr c)
          | MMsg MLs =>
              l_poll f (mkListener (LSendMsg (MProtos (map snd (l_protos l))) None)
                                   (l_protos l) (l_na l) st1 (l_wbuf l)) pi1 pout
          | MMsg (MProto p) =>
              match l_find (l_protos l) p with
              | Some i => l_poll f (mkListener (LSendMsg (MProto p) (Some i)) (l_protos l) (l_na l) st1 (l_wbuf l)) pi1 pout
              | None => l_poll f (mkListener (LSendMsg MNa None) (l_protos l) (l_na l) st1 (l_wbuf l)) pi1 pout
              end
          | MMsg _ => (l1, pi1, pout, NErr C_INVMSG)
          end
      | LSendMsg m o =>
          let '(w1, po1, ok) := wr_ready (l_wbuf l) pout in
          if negb ok then (mkListener (LSendMsg m o) (l_protos l) (l_na l) (l_rd l) w1, pin, po1, NPending)
          else
            let na := match m with MNa => true | _ => false end in
            match wr_send w1 (encode_msg m) with
            | None => (mkListener (LSendMsg m o) (l_protos l) na (l_rd l) w1, pin, po1, NErr C_IO_INVALID)
            | Some w2 => l_poll f (mkListener (LFlush o) (l_protos l) na (l_rd l) w2) pin po1
            end
      | LFlush o =>
          let '(w1, po1, ok) := wr_drain (wr_fuel (l_wbuf l)) (l_wbuf l) pout in
          if ok then
            match o with
            | Some i => (mkListener (LFlush o) (l_protos l) (l_na l) (l_rd l) w1, pin, po1, NDone i)
            | None => l_poll f (mkListener LRecvMsg (l_protos l) (l_na l) (l_rd l) w1) pin po1
            end
          else (mkListener (LFlush o) (l_protos l) (l_na l) (l_rd l) w1, pin, po1, NPending)
      end
  end.
Definition l_fuel (pin : pipe) : nat := (10 + 4 * length (p_buf pin))%nat.

Definition l_init (ls : list name) : listener :=
  mkListener LRecvHeader (l_filter (tag_from 0 ls)) false rd_init [].

(* ------------------------------------------------------------------ Negotiated<R> *)
Inductive nego :=
| NCompleted
| NExpecting (st : rstate) (wbuf : bytes) (p : name) (hdr : bool)
| NInvalid.

Inductive pres := PPending | POk | PErr (code : N).

(* Negotiated::poll: flush pending negotiation data, then read the outstanding messages *)
Fixpoint neg_poll (fuel : nat) (g : nego) (pin pout : pipe) : nego * pipe * pipe * pres :=
  match fuel with
  | O => (g, pin, pout, PPending)
  | S f =>
      match g with
      | NCompleted => (g, pin, pout, POk)
      | NInvalid => (g, pin, pout, PErr C_FAILED)   (* the stream is gone: ErrorKind::Other *)
      | NExpecting st wbuf p hdr =>
          let '(w1, po1, ok) := wr_drain (wr_fuel wbuf) wbuf pout in
          if negb ok then (NExpecting st w1 p hdr, pin, po1, PPending)
          else
            let '(st1, pi1, r) := msg_poll st pin in
            match r with
            | MPending => (NExpecting st1 w1 p hdr, pi1, po1, PPending)
            | MEof => (NInvalid, pi1, po1, PErr C_IO_EOF)
            | MFail c => (NInvalid, pi1, po1, PErr c)
            | MMsg MHeader =>
                if hdr then neg_poll f (NExpecting st1 w1 p false) pi1 po1
                else (NInvalid, pi1, po1, PErr C_INVMSG)
            | MMsg (MProto q) =>
                if name_eqb q p then (NCompleted, pi1, po1, POk) else (NInvalid, pi1, po1, PErr C_FAILED)
            | MMsg _ => (NInvalid, pi1, po1, PErr C_FAILED)
            end
      end
  end.
Definition neg_fuel (pin : pipe) : nat := (4 + length (p_buf pin))%nat.

(* ------------------------------------------------------------------ the task run on each end:
   negotiate; on success write the payload, close, read until EOF *)
Inductive side_fut := FDial (d : dialer) | FList (l : listener).
Inductive tphase :=
| TNeg (fu : side_fut)
| TWrite (g : nego) (rem : bytes)
| TClose (g : nego)
| TRead (g : nego) (acc : bytes)
| TDone.
Record task := mkTask {
  t_ph : tphase;
  t_payload : bytes;
  t_res : N * N;         (* negotiation result: (0, index) or (code, 0); (99,0) while pending *)
  t_got : bytes;         (* application bytes received *)
  t_end : N }.           (* 0 = clean EOF, 98 = not reached, otherwise error code of the read/write *)

Definition READ_CHUNK : N := 64.
(* From<NegotiationError> for io::Error as seen by the reader of a `Negotiated`: Failed becomes
   ErrorKind::Other, every non-I/O protocol error becomes InvalidData *)
Definition io_code (c : N) : N :=
  if c =? C_FAILED then C_FAILED
  else if c =? C_IO_EOF then C_IO_EOF
  else if c =? 0 then 0
  else C_IO_INVALID.

(* progress flag: the poll performed a carrier operation or finished a phase *)
Fixpoint t_poll (fuel : nat) (t : task) (pin pout : pipe) : task * pipe * pipe :=
  match fuel with
  | O => (t, pin, pout)
  | S f =>
      match t_ph t with
      | TDone => (t, pin, pout)
      | TNeg fu =>
          let '(fu1, pi1, po1, r) :=
            match fu with
            | FDial d => let '(d1, a, b, r) := d_poll (d_fuel d pin) d pin pout in (FDial d1, a, b, r)
            | FList l => let '(l1, a, b, r) := l_poll (l_fuel pin) l pin pout in (FList l1, a, b, r)
            end in
          match r with
          | NPending => (mkTask (TNeg fu1) (t_payload t) (t_res t) (t_got t) (t_end t), pi1, po1)
          | NErr c => (mkTask TDone (t_payload t) (c, 0) (t_got t) (t_end t), pi1, pipe_close po1)
          | NDone i =>
              (* into_inner asserts empty buffers: a violation is reported as code 90 *)
              let clean := match fu1 with
                           | FDial d => rd_buffer_empty (d_rd d) && match d_wbuf d with [] => true | _ => false end
                           | FList l => rd_buffer_empty (l_rd l) && match l_wbuf l with [] => true | _ => false end
                           end in
              if clean
              then t_poll f (mkTask (TWrite NCompleted (t_payload t)) (t_payload t) (0, i) (t_got t) (t_end t)) pi1 po1
              else (mkTask TDone (t_payload t) (90, 0) (t_got t) (t_end t), pi1, pipe_close po1)
          | NLazy i p st w =>
              t_poll f (mkTask (TWrite (NExpecting st w p true) (t_payload t)) (t_payload t) (0, i) (t_got t) (t_end t)) pi1 po1
          end
      | TWrite g rem =>
          match rem with
          | [] => t_poll f (mkTask (TClose g) (t_payload t) (t_res t) (t_got t) (t_end t)) pin pout
          | _ :: _ =>
              match g with
              | NExpecting st wbuf p hdr =>
                  (* LengthDelimitedReader::poll_write: drain the negotiation data first *)
                  let '(w1, po1, ok) := wr_drain (wr_fuel wbuf) wbuf pout in
                  if negb ok then (mkTask (TWrite (NExpecting st w1 p hdr) rem) (t_payload t) (t_res t) (t_got t) (t_end t), pin, po1)
                  else
                    let '(po2, r) := pipe_write po1 rem in
                    match r with
                    | None => (mkTask (TWrite (NExpecting st w1 p hdr) rem) (t_payload t) (t_res t) (t_got t) (t_end t), pin, po2)
                    | Some n => t_poll f (mkTask (TWrite (NExpecting st w1 p hdr) (skipn n rem)) (t_payload t) (t_res t) (t_got t) (t_end t)) pin po2
                    end
              | _ =>
                  let '(po1, r) := pipe_write pout rem in
                  match r with
                  | None => (mkTask (TWrite g rem) (t_payload t) (t_res t) (t_got t) (t_end t), pin, po1)
                  | Some n => t_poll f (mkTask (TWrite g (skipn n rem)) (t_payload t) (t_res t) (t_got t) (t_end t)) pin po1
                  end
              end
          end
      | TClose g =>
          match g with
          | NExpecting st wbuf p hdr =>
              let '(w1, po1, ok) := wr_drain (wr_fuel wbuf) wbuf pout in
              if negb ok then (mkTask (TClose (NExpecting st w1 p hdr)) (t_payload t) (t_res t) (t_got t) (t_end t), pin, po1)
              else t_poll f (mkTask (TRead (NExpecting st w1 p hdr) []) (t_payload t) (t_res t) (t_got t) (t_end t)) pin (pipe_close po1)
          | _ => t_poll f (mkTask (TRead g []) (t_payload t) (t_res t) (t_got t) (t_end t)) pin (pipe_close pout)
          end
      | TRead g acc =>
          match g with
          | NCompleted =>
              let '(pi1, r) := pipe_read pin READ_CHUNK in
              match r with
              | RPending => (mkTask (TRead g acc) (t_payload t) (t_res t) (t_got t) (t_end t), pi1, pout)
              | REof => (mkTask TDone (t_payload t) (t_res t) acc 0, pi1, pout)
              | RData bs => t_poll f (mkTask (TRead g (acc ++ bs)) (t_payload t) (t_res t) (t_got t) (t_end t)) pi1 pout
              end
          | _ =>
              let '(g1, pi1, po1, r) := neg_poll (neg_fuel pin) g pin pout in
              match r with
              | PPending => (mkTask (TRead g1 acc) (t_payload t) (t_res t) (t_got t) (t_end t), pi1, po1)
              | POk => t_poll f (mkTask (TRead g1 acc) (t_payload t) (t_res t) (t_got t) (t_end t)) pi1 po1
              | PErr c => (mkTask TDone (t_payload t) (t_res t) acc (io_code c), pi1, po1)
              end
          end
      end
  end.
Definition t_fuel (t : task) (pin : pipe) : nat :=
  (12 + length (p_buf pin) + length (t_payload t))%nat.

Definition t_done (t : task) : bool := match t_ph t with TDone => true | _ => false end.

(* ------------------------------------------------------------------ the two-ended system *)
Record sys := mkSys { s_d : task; s_l : task; s_dl : pipe; s_ld : pipe }.

Definition poll_side (who : bool) (s : sys) : sys :=
  if who then
    let '(t1, pi1, po1) := t_poll (t_fuel (s_l s) (s_dl s)) (s_l s) (s_dl s) (s_ld s) in
    mkSys (s_d s) t1 pi1 po1
  else
    let '(t1, pi1, po1) := t_poll (t_fuel (s_d s) (s_ld s)) (s_d s) (s_ld s) (s_dl s) in
    mkSys t1 (s_l s) po1 pi1.

(* a cheap fingerprint of the carrier state used to detect a stuck system: script lengths,
   buffer lengths, totals, closed flags, done flags *)
Definition pipe_sig (p : pipe) : list N :=
  [len (p_buf p); b2n (p_closed p); len (p_rscript p); len (p_wscript p); len (p_total p)].
Definition sys_sig (s : sys) : list N :=
  pipe_sig (s_dl s) ++ pipe_sig (s_ld s) ++ [b2n (t_done (s_d s)); b2n (t_done (s_l s))].

(* scheduler: `sched` entries say who is polled (0 dialer, otherwise listener); afterwards
   strict alternation. The run stops when both tasks are done, or when `idle` consecutive
   polls left the fingerprint unchanged (stuck), or the fuel is out. *)
Fixpoint run_sys (fuel : nat) (sched : list N) (next : bool) (idle : N) (s : sys) : sys * N :=
  match fuel with
  | O => (s, 2)
  | S f =>
      if t_done (s_d s) && t_done (s_l s) then (s, 0)
      else if 4 <=? idle then (s, 1)
      else
        let '(who, sched') := match sched with
                              | [] => (next, [])
                              | x :: t => (negb (x =? 0), t)
                              end in
        let s1 := poll_side who s in
        let idle' := match sched with
                     | [] => if nlist_eqb (sys_sig s) (sys_sig s1) then idle + 1 else 0
                     | _ :: _ => 0
                     end in
        run_sys f sched' (negb who) idle' s1
  end.

Definition task_init (fu : side_fut) (payload : bytes) : task :=
  mkTask (TNeg fu) payload (99, 0) [] 98.
Definition pipe_init (rs ws : list N) : pipe := mkPipe [] false rs ws [].

Record ncase := mkCase {
  c_ds : list name; c_ls : list name; c_lazy : bool;
  c_sched : list N;
  c_dl_r : list N; c_dl_w : list N; c_ld_r : list N; c_ld_w : list N;
  c_dpay : bytes; c_lpay : bytes }.

Definition sys_init (c : ncase) : sys :=
  mkSys (task_init (FDial (d_init (c_ds c) (c_lazy c))) (c_dpay c))
        (task_init (FList (l_init (c_ls c))) (c_lpay c))
        (pipe_init (c_dl_r c) (c_dl_w c)) (pipe_init (c_ld_r c) (c_ld_w c)).

(* ------------------------------------------------------------------ message-based variant *)
(* webrtc_encode_multistream_message: None = exceeds MAX_FRAME_SIZE *)
Definition webrtc_encode (m : msg) (with_header : bool) : option bytes :=
  let body := encode_msg m in
  let out := (if with_header then uvi_enc (len MSG_HEADER) ++ MSG_HEADER else []) ++ uvi_enc (len body) ++ body in
  if MAX_FRAME <? len out then None else Some out.

(* decode_multistream_message: one varint-prefixed message off the front *)
Definition webrtc_decode1 (data : bytes) : option (dres * bytes) :=
  match uvi_dec data with
  | None => None
  | Some (l, tail) =>
      if len tail <? l then None
      else Some (decode_msg (firstn (N.to_nat l) tail), skipn (N.to_nat l) tail)
  end.

Inductive wl_res :=
| WLAccepted (i : N) (reply : bytes)
| WLRejected (reply : bytes)
| WLPendingProtocol (reply : bytes)
| WLErr (code : N).  (* 1 = ParseError(InvalidData), 2 = MultistreamSelectError(Failed), 3 = InvalidData (encode) *)

Definition wl_finish (ls : list (N * name)) (p : name) (hdr_here : bool) (rest : bytes) : wl_res :=
  match rest with
  | _ :: _ => WLErr 1
  | [] =>
      match l_find ls p with
      | Some i => match webrtc_encode (MProto p) hdr_here with Some b => WLAccepted i b | None => WLErr 3 end
      | None => match webrtc_encode MNa hdr_here with Some b => WLRejected b | None => WLErr 3 end
      end
  end.

Definition webrtc_listener (ls : list (N * name)) (payload : bytes) (header_received : bool) : wl_res :=
  match webrtc_decode1 payload with
  | None => WLErr 1
  | Some (DErr _, _) => WLErr 1
  | Some (DOk m, rest) =>
      match m with
      | MHeader =>
          if header_received then WLErr 2
          else match rest with
               | [] => WLPendingProtocol payload
               | _ :: _ =>
                   match webrtc_decode1 rest with
                   | None => WLErr 1
                   | Some (DErr _, _) => WLErr 1
                   | Some (DOk (MProto p), rest2) => wl_finish ls p true rest2
                   | Some (DOk _, _) => WLErr 1
                   end
               end
      | MProto p => if header_received then wl_finish ls p false rest else WLErr 2
      | _ => WLErr 2
      end
  end.

(* WebRtcDialerState::register_response; state: waiting_protocol = header already seen *)
Inductive wd_res := WDNotReady | WDSucceeded | WDRejected | WDErr (code : N).
(* codes: 1 ParseError, 2 MultistreamSelectError(Failed), 3 StateMismatch, 4 MultistreamSelectError(ProtocolError(InvalidMessage)) *)
Fixpoint webrtc_dialer_register (fuel : nat) (proto : name) (waiting_protocol : bool) (remaining : bytes)
  : bool * wd_res :=
  match fuel with
  | O => (waiting_protocol, WDErr 3)
  | S f =>
      match remaining with
      | [] => (waiting_protocol, if waiting_protocol then WDNotReady else WDErr 3)
      | _ :: _ =>
          match webrtc_decode1 remaining with
          | None => (waiting_protocol, WDErr 1)
          | Some (r, rest) =>
              if waiting_protocol then
                match r with
                | DOk MNa => (true, WDRejected)
                | DOk (MProto q) => (true, if name_eqb proto q then WDSucceeded else WDErr 2)
                | DOk MLs => (true, WDErr 4)
                | DOk MHeader => (true, WDErr 3)
                | _ => (true, WDErr 3)
                end
              else
                match r with
                | DOk MHeader => webrtc_dialer_register f proto true rest
                | DOk _ => (false, WDErr 2)
                | DErr _ => (false, WDErr 3)
                end
          end
      end
  end.
