From Coq Require Import ExtrOcamlBasic.
From V.C03 Require Import Glue.
Extraction Language OCaml.
Extraction "c03_model.ml" run_case prop_ok known_class.
