(* C03 — the optimistic dialer (V1Lazy), dialer side.

   Byte level: with a single name the dialer future settles at once — its first poll returns
   `Negotiated::expecting` with header and proposal buffered, without touching the carrier.

   Message level: what the optimistic dialer then does is, on the wire, what the V1 dialer
   does — it sends header and proposal, later reads the header and ONE answer and accepts iff
   the answer is the confirmation of its name — except that application data follows the
   proposal immediately. For the listener's frame parser that data is an arbitrary sequence of
   further frames (`junk`; an undecodable frame acts like any message the listener rejects).
   The system is therefore Msg.mstep_d / Msg.mstep_l started with the dialer's write buffer
   holding header, proposal and junk. For every junk, listener set and schedule: the dialer's
   verdict is "confirmed" iff the listener supports the name. The listener's verdict is NOT
   covered: `lazy_listener_agreement_refuted` exhibits the documented pitfall. *)
From Coq Require Import List Arith NArith Bool Lia ZifyBool ZifyNat ZifyN.
From V.common Require Import Wire.
From V.C03 Require Import Model Msg Proofs MsgRef MsgProofs Chan Dir SimD.
Import ListNotations.
Open Scope N_scope.

Arguments N.add : simpl never.
Arguments N.sub : simpl never.
Arguments N.eqb : simpl never.
Arguments N.ltb : simpl never.
Arguments N.leb : simpl never.
Arguments N.of_nat : simpl never.
Arguments N.min : simpl never.

(* ------------------------------------------------------------------ byte level: immediate Ok *)
Lemma lazy_immediate : forall d pin pout fuel, wfn d ->
  d_poll (S (S fuel)) (d_init [d] true) pin pout =
  (mkDialer (DSendProto 0 d false) [] true rd_init (fr MHeader), pin, pout,
   NLazy 0 d rd_init (fr MHeader ++ fr (MProto d))).
Proof.
  intros d pin pout fuel [(Hs & Hnl & Hne) Hfit].
  unfold d_init. cbn [tag_from d_poll d_ph d_wbuf d_rest d_lazy d_rd].
  rewrite wr_ready_small by (rewrite max_frame_val; unfold len; cbn; lia).
  cbn [negb]. rewrite wr_send_ok by (rewrite max_frame_val; unfold len; cbn; lia).
  cbn [app d_ph d_wbuf d_rest d_lazy d_rd].
  rewrite wr_ready_small by (rewrite max_frame_val; change (len (frame MSG_HEADER)) with 20; lia).
  cbn [negb]. rewrite Hs. cbn [negb].
  rewrite wr_send_ok
    by (cbn [encode_msg]; rewrite len_app; unfold len at 2; cbn; exact Hfit).
  reflexivity.
Qed.

(* ------------------------------------------------------------------ message level *)
Definition lazy_init (d : name) (junk : list msg) : msys :=
  mkS (mkD (MDFlush d false) [] ([MHeader; MProto d] ++ junk)) (mkL MLRecvHeader []) [] false [] false.

Section Lazy.
Variables (d : name) (ls : list name).
Hypothesis Hd : starts_slash d = true.

(* the listener's answer to the proposal *)
Definition answer : msg := if supported ls d then MProto d else MNa.

(* what the listener has emitted or is about to emit *)
Definition pend (ph : mlphase) : list msg :=
  match ph with MLSendHeader => [MHeader] | MLSendMsg x _ => [x] | _ => [] end.
(* what the dialer has consumed, by phase *)
Definition dcons (ph : mdphase) : list msg :=
  match ph with MDAwait _ true => [MHeader] | _ => [] end.

Definition total_l (m : msys) : list msg :=
  dcons (md_ph (sd m)) ++ c_ld m ++ ml_wbuf (sl m) ++ pend (ml_ph (sl m)).

Definition reading (ph : mlphase) : Prop := ph = MLRecvHeader \/ ph = MLRecvMsg.

Definition Stage (m : msys) : Prop :=
  (ml_ph (sl m) = MLRecvHeader /\ exists j, c_dl m ++ md_wbuf (sd m) = MHeader :: MProto d :: j /\ total_l m = []) \/
  ((ml_ph (sl m) = MLSendHeader \/ ml_ph (sl m) = MLFlush None \/ ml_ph (sl m) = MLRecvMsg) /\
   exists j, c_dl m ++ md_wbuf (sd m) = MProto d :: j /\ total_l m = [MHeader]) \/
  (exists t, total_l m = MHeader :: answer :: t).

Definition dph_lazy (ph : mdphase) : Prop :=
  ph = MDFlush d false \/ (exists hr, ph = MDAwait d hr).

Definition LInv (m : msys) : Prop :=
  md_rest (sd m) = [] /\
  (reading (ml_ph (sl m)) -> ml_wbuf (sl m) = []) /\
  (ld_closed m = true -> ml_ph (sl m) = MLDone None /\ ml_wbuf (sl m) = []) /\
  ((dph_lazy (md_ph (sd m)) /\ (forall hr, md_ph (sd m) = MDAwait d hr -> md_wbuf (sd m) = []) /\
    dl_closed m = false /\ Stage m) \/
   (md_ph (sd m) = MDDone (Some d) /\ answer = MProto d) \/
   (md_ph (sd m) = MDDone None /\ answer = MNa)).

Lemma LInv_init : forall junk, LInv (lazy_init d junk).
Proof.
  intros junk. unfold LInv, lazy_init. cbn. split; [reflexivity|]. split; [reflexivity|].
  split; [discriminate|].
  left. split; [left; reflexivity|]. split; [intros hr E; discriminate|]. split; [reflexivity|].
  left. split; [reflexivity|]. exists junk. split; reflexivity.
Qed.

Lemma answer_find : l_find (sup ls) d = if supported ls d then Some d else None.
Proof.
  destruct (supported ls d) eqn:E.
  - apply l_find_sup_some; assumption.
  - apply l_find_sup_none; assumption.
Qed.

Lemma answer_cases : answer = MProto d \/ answer = MNa.
Proof. unfold answer. destruct (supported ls d); auto. Qed.

Lemma react_confirm : forall hr, d_react d hr (MProto d) = DRConfirm.
Proof. intros hr. cbn. unfold name_eqb. rewrite bytes_eqb_refl. reflexivity. Qed.

Lemma LInv_step_d : forall m, LInv m -> LInv (mstep_d m).
Proof.
  intros [[dph drest dw] [lph lw] cdl dlc cld ldc] (Hrest & Hrd & Hldc & H).
  cbn in Hrest, Hrd, Hldc. subst drest.
  destruct H as [(Hph & Hwb & Hcl & Hst) | [H | H]].
  2:{ destruct H as [E A]. cbn in E. subst dph. unfold mstep_d; cbn.
      split; [reflexivity|]. split; [exact Hrd|]. split; [exact Hldc|].
      right; left. split; [reflexivity | exact A]. }
  2:{ destruct H as [E A]. cbn in E. subst dph. unfold mstep_d; cbn.
      split; [reflexivity|]. split; [exact Hrd|]. split; [exact Hldc|].
      right; right. split; [reflexivity | exact A]. }
  cbn in Hph, Hwb, Hcl. subst dlc. destruct Hph as [-> | [hr ->]].
  - (* flushing: move one item, or start awaiting *)
    unfold mstep_d; cbn. destruct dw as [|x dw]; cbn.
    + split; [reflexivity|]. split; [exact Hrd|]. split; [exact Hldc|]. left.
      split; [right; exists false; reflexivity|]. split; [reflexivity|]. split; [reflexivity|].
      exact Hst.
    + split; [reflexivity|]. split; [exact Hrd|]. split; [exact Hldc|]. left.
      split; [left; reflexivity|]. split; [intros hr E; discriminate|]. split; [reflexivity|].
      unfold Stage, total_l in *. cbn in *. rewrite <- app_assoc. cbn. exact Hst.
  - (* awaiting *)
    specialize (Hwb hr eq_refl). subst dw.
    unfold mstep_d; cbn. destruct cld as [|x cld]; cbn.
    + destruct ldc; cbn.
      * (* EOF cannot precede the answer *)
        exfalso. destruct (Hldc eq_refl) as [-> ->].
        unfold Stage, total_l in Hst. cbn in Hst.
        destruct Hst as [(E & _) | [([E | [E | E]] & _) | (t & E)]]; try discriminate.
        destruct hr; discriminate.
      * split; [reflexivity|]. split; [exact Hrd|]. split; [exact Hldc|]. left.
        split; [right; exists hr; reflexivity|]. split; [reflexivity|]. split; [reflexivity | exact Hst].
    + unfold Stage, total_l in Hst. cbn in Hst.
      destruct hr; cbn in Hst.
      * (* header already seen: x is the answer *)
        assert (Hx : x = answer).
        { destruct Hst as [(_ & j & _ & E) | [(_ & j & _ & E) | (t & E)]]; try discriminate.
          injection E as E _. exact E. }
        subst x. destruct answer_cases as [A | A]; rewrite A.
        -- rewrite react_confirm. cbn.
           split; [reflexivity|]. split; [exact Hrd|]. split; [exact Hldc|].
           right; left. split; [reflexivity | exact A].
        -- cbn. split; [reflexivity|]. split; [exact Hrd|]. split; [exact Hldc|].
           right; right. split; [reflexivity | exact A].
      * (* first message: the header *)
        assert (Hx : x = MHeader).
        { destruct Hst as [(_ & j & _ & E) | [(_ & j & _ & E) | (t & E)]]; try discriminate.
          - injection E as E _. exact E.
          - injection E as E _. exact E. }
        subst x. cbn.
        split; [reflexivity|]. split; [exact Hrd|]. split; [exact Hldc|]. left.
        split; [right; exists true; reflexivity|]. split; [reflexivity|]. split; [reflexivity|].
        unfold Stage, total_l. cbn. exact Hst.
Qed.

(* listener-local facts kept by every listener step *)
Lemma l_side_inv : forall m,
  (reading (ml_ph (sl m)) -> ml_wbuf (sl m) = []) ->
  (ld_closed m = true -> ml_ph (sl m) = MLDone None /\ ml_wbuf (sl m) = []) ->
  (reading (ml_ph (sl (mstep_l ls m))) -> ml_wbuf (sl (mstep_l ls m)) = []) /\
  (ld_closed (mstep_l ls m) = true ->
   ml_ph (sl (mstep_l ls m)) = MLDone None /\ ml_wbuf (sl (mstep_l ls m)) = []).
Proof.
  intros [[dph drest dw] [lph lw] cdl dlc cld ldc] H1 H2. cbn in H1, H2.
  unfold mstep_l, set_l, l_fail, reading in *. cbn.
  assert (T : forall (ph : mlphase) (w : list msg) (c : bool),
             (ph = lph /\ w = lw /\ c = ldc) \/ (ph = MLDone None /\ w = [] /\ c = true) \/
             (ph <> MLRecvHeader /\ ph <> MLRecvMsg /\ ph <> MLDone None /\ c = ldc /\ lph <> MLDone None) \/
             (ph = MLRecvMsg /\ w = [] /\ c = ldc /\ lph <> MLDone None) ->
             ((ph = MLRecvHeader \/ ph = MLRecvMsg) -> w = []) /\
             (c = true -> ph = MLDone None /\ w = [])).
  { intros ph w c [(-> & -> & ->) | [(-> & -> & ->) | [(N1 & N2 & N3 & -> & N4) | (-> & -> & -> & N4)]]].
    - split; assumption.
    - split; [reflexivity | intros _; split; reflexivity].
    - split; [intros [E|E]; contradiction|]. intros E. destruct (H2 E) as [E2 _]. contradiction.
    - split; [reflexivity|]. intros E. destruct (H2 E) as [E2 _]. contradiction. }
  destruct lph as [| | |x o|o|r]; cbn.
  - destruct cdl as [|x cdl]; cbn.
    + destruct dlc; cbn; apply T; auto.
    + destruct x; cbn; apply T; auto;
        right; right; left; repeat split; try discriminate.
  - apply T. right; right; left; repeat split; try discriminate.
  - destruct cdl as [|x cdl]; cbn.
    + destruct dlc; cbn; apply T; auto.
    + destruct x as [|q| |qs|]; cbn; try (apply T; auto; fail).
      * destruct (l_find (sup ls) q); cbn; apply T; right; right; left; repeat split; try discriminate.
      * apply T. right; right; left; repeat split; try discriminate.
  - apply T. right; right; left; repeat split; try discriminate.
  - destruct lw as [|x lw]; cbn.
    + destruct o; cbn; apply T.
      * right; right; left; repeat split; try discriminate.
      * right; right; right; repeat split; try discriminate.
    + apply T. right; right; left; repeat split; try discriminate.
  - apply T. left. repeat split.
Qed.

Lemma l_total_grows : forall m, (reading (ml_ph (sl m)) -> ml_wbuf (sl m) = []) ->
  exists t', c_ld (mstep_l ls m) ++ ml_wbuf (sl (mstep_l ls m)) ++ pend (ml_ph (sl (mstep_l ls m)))
             = (c_ld m ++ ml_wbuf (sl m) ++ pend (ml_ph (sl m))) ++ t'.
Proof.
  intros [[dph drest dw] [lph lw] cdl dlc cld ldc] H1. cbn in H1.
  unfold mstep_l, set_l, l_fail, reading in *. cbn.
  destruct lph as [| | |x o|o|r]; cbn.
  - rewrite (H1 (or_introl eq_refl)). destruct cdl as [|x cdl]; cbn.
    + destruct dlc; cbn; exists []; rewrite ?app_nil_r; reflexivity.
    + destruct x; cbn; try (exists []; rewrite ?app_nil_r; reflexivity).
      exists [MHeader]. rewrite ?app_nil_r. reflexivity.
  - exists []. rewrite ?app_nil_r, <- ?app_assoc. reflexivity.
  - rewrite (H1 (or_intror eq_refl)). destruct cdl as [|x cdl]; cbn.
    + destruct dlc; cbn; exists []; rewrite ?app_nil_r; reflexivity.
    + destruct x as [|q| |qs|]; cbn; try (exists []; rewrite ?app_nil_r; reflexivity).
      * destruct (l_find (sup ls) q); cbn.
        -- exists [MProto q]. rewrite ?app_nil_r. reflexivity.
        -- exists [MNa]. rewrite ?app_nil_r. reflexivity.
      * exists [MProtos (map snd (sup ls))]. rewrite ?app_nil_r. reflexivity.
  - exists []. rewrite ?app_nil_r, <- ?app_assoc. reflexivity.
  - destruct lw as [|x lw]; cbn.
    + destruct o; cbn; exists []; rewrite ?app_nil_r; reflexivity.
    + exists []. rewrite ?app_nil_r, <- ?app_assoc. reflexivity.
  - exists []. rewrite ?app_nil_r. reflexivity.
Qed.

Lemma LInv_step_l : forall m, LInv m -> LInv (mstep_l ls m).
Proof.
  intros m (Hrest & Hrd & Hldc & H).
  destruct (l_side_inv m Hrd Hldc) as [Hrd' Hldc'].
  destruct (frame_l ls m) as (Esd & Ecl & _).
  split; [rewrite Esd; exact Hrest|]. split; [exact Hrd'|]. split; [exact Hldc'|].
  destruct H as [(Hph & Hwb & Hcl & Hst) | [H | H]].
  2:{ right; left. rewrite Esd. exact H. }
  2:{ right; right. rewrite Esd. exact H. }
  left. rewrite Esd, Ecl. split; [exact Hph|]. split; [exact Hwb|]. split; [exact Hcl|].
  destruct Hst as [(Elph & j & Ec & Et) | [(Elph & j & Ec & Et) | (t & Et)]].
  3:{ (* the answer is out: whatever the listener does next only appends *)
      right; right. destruct (l_total_grows m Hrd) as (t' & G).
      exists (t ++ t'). unfold total_l in *. rewrite Esd, G.
      rewrite app_assoc, Et. reflexivity. }
  - (* nothing consumed yet *)
    clear Hrd' Hldc' Hrest Esd Ecl.
    destruct m as [[dph drest dw] [lph lw] cdl dlc cld ldc].
    cbn in Hph, Hwb, Hcl, Hrd, Hldc, Elph, Ec. subst dlc lph.
    unfold Stage, total_l in *. cbn in Et.
    apply app_eq_nil in Et. destruct Et as [E1 Et].
    apply app_eq_nil in Et. destruct Et as [E2 Et]. apply app_eq_nil in Et. destruct Et as [E3 _].
    subst cld lw.
    unfold mstep_l; cbn. destruct cdl as [|x cdl]; cbn.
    + left. split; [reflexivity|]. exists j. split; [exact Ec|]. rewrite E1. reflexivity.
    + cbn in Ec. injection Ec as -> Ec. cbn.
      right; left. split; [left; reflexivity|]. exists j. split; [exact Ec|].
      rewrite E1. reflexivity.
  - (* header consumed, proposal not yet *)
    clear Hrd' Hldc' Hrest Esd Ecl.
    destruct m as [[dph drest dw] [lph lw] cdl dlc cld ldc].
    cbn in Hph, Hwb, Hcl, Hrd, Hldc, Elph, Ec. subst dlc.
    unfold Stage, total_l in *. cbn in Et.
    destruct Elph as [-> | [-> | ->]]; unfold mstep_l; cbn.
    + right; left. split; [right; left; reflexivity|]. exists j. split; [exact Ec|].
      cbn in Et. rewrite app_nil_r. exact Et.
    + destruct lw as [|x lw]; cbn.
      * right; left. split; [right; right; reflexivity|]. exists j. split; assumption.
      * right; left. split; [right; left; reflexivity|]. exists j. split; [exact Ec|].
        cbn in Et. rewrite <- app_assoc. cbn. exact Et.
    + unfold reading in Hrd. rewrite (Hrd (or_intror eq_refl)) in *. cbn in Et.
      rewrite app_nil_r in Et.
      destruct cdl as [|x cdl]; cbn.
      * right; left. split; [right; right; reflexivity|]. exists j. split; [exact Ec|].
        cbn. rewrite app_nil_r. exact Et.
      * cbn in Ec. injection Ec as -> Ec.
        rewrite answer_find. right; right. exists [].
        unfold answer. destruct (supported ls d); cbn; rewrite app_assoc, Et; reflexivity.
Qed.

Lemma LInv_run : forall sched m, LInv m -> LInv (mrun ls sched m).
Proof.
  induction sched as [|b t IH]; intros m H; [exact H|].
  cbn. apply IH. destruct b; cbn; [apply LInv_step_d | apply LInv_step_l]; exact H.
Qed.

(* the dialer-side statement *)
Theorem lazy_dialer_verdict : forall junk sched,
  let m := mrun ls sched (lazy_init d junk) in
  (forall q, md_ph (sd m) = MDDone (Some q) -> q = d /\ supported ls d = true) /\
  (md_ph (sd m) = MDDone None -> supported ls d = false).
Proof.
  intros junk sched m.
  destruct (LInv_run sched _ (LInv_init junk)) as (_ & _ & _ & H). fold m in H.
  split.
  - intros q E. destruct H as [([E1 | (hr & E1)] & _) | [(E1 & A) | (E1 & A)]]; rewrite E in E1; try discriminate.
    injection E1 as ->. split; [reflexivity|]. unfold answer in A. destruct (supported ls d); [reflexivity | discriminate].
  - intros E. destruct H as [([E1 | (hr & E1)] & _) | [(E1 & A) | (E1 & A)]]; rewrite E in E1; try discriminate.
    unfold answer in A. destruct (supported ls d); [discriminate | reflexivity].
Qed.

End Lazy.

(* the listener side is NOT covered: the dialer settles on "/a", which the listener does not
   support; its application data looks like a proposal of "/b", which the listener accepts *)
Lemma lazy_listener_agreement_refuted :
  exists d ls junk sched,
    let m := mrun ls sched (lazy_init d junk) in
    md_ph (sd m) = MDDone None /\ ml_ph (sl m) = MLDone (Some [47; 98]) /\ d <> [47; 98].
Proof.
  exists [47; 97], [[47; 98]], [MProto [47; 98]],
    ([true; true; true; true] ++ repeat false 16 ++ repeat true 4).
  vm_compute. repeat split; try reflexivity. discriminate.
Qed.
