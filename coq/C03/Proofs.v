(* C03 — proofs about the codec and the framing layer of Model.v. *)
From Coq Require Import List NArith Bool Lia ZifyBool ZifyNat ZifyN.
From V.gen Require Import Consts.
From V.common Require Import Wire.
From V.C03 Require Import Model.
Import ListNotations.
Open Scope N_scope.

Arguments N.add : simpl never.
Arguments N.sub : simpl never.
Arguments N.eqb : simpl never.
Arguments N.ltb : simpl never.
Arguments N.leb : simpl never.
Arguments N.of_nat : simpl never.
Arguments N.modulo : simpl never.
Arguments N.div : simpl never.
Arguments N.min : simpl never.

(* ------------------------------------------------------------------ list_eqb *)
Lemma bytes_eqb_refl : forall a, bytes_eqb a a = true.
Proof.
  induction a as [|x a IH]; [reflexivity|].
  unfold bytes_eqb in *. cbn [list_eqb]. rewrite N.eqb_refl, IH. reflexivity.
Qed.

Lemma bytes_eqb_eq : forall a b, bytes_eqb a b = true -> a = b.
Proof.
  induction a as [|x a IH]; intros [|y b] H; try reflexivity; try discriminate.
  unfold bytes_eqb in *. cbn [list_eqb] in H.
  apply andb_true_iff in H. destruct H as [H1 H2].
  apply N.eqb_eq in H1. subst. f_equal. apply IH. exact H2.
Qed.

Lemma bytes_eqb_neq : forall a b, a <> b -> bytes_eqb a b = false.
Proof.
  intros a b H. destruct (bytes_eqb a b) eqn:E; [|reflexivity].
  exfalso. apply H. apply bytes_eqb_eq. exact E.
Qed.

(* ------------------------------------------------------------------ codec round trip *)
Definition wf_name (p : name) : Prop :=
  starts_slash p = true /\ has_nl p = false /\ p <> HEADER_NAME.

Definition wf_msg (m : msg) : Prop :=
  match m with
  | MProto p => wf_name p
  | MProtos _ => False     (* the ls response is not used by the negotiation; see Properties.v *)
  | _ => True
  end.

Lemma last_app_single : forall (p : bytes) x d, last (p ++ [x]) d = x.
Proof.
  induction p as [|y p IH]; intros; [reflexivity|].
  cbn [app]. destruct (p ++ [x]) eqn:E.
  - destruct p; discriminate.
  - rewrite <- E. cbn [last]. rewrite E. rewrite <- E. apply IH.
Qed.

Lemma removelast_app_single : forall (p : bytes) x, removelast (p ++ [x]) = p.
Proof.
  intros. rewrite removelast_app by discriminate. cbn. apply app_nil_r.
Qed.

Lemma starts_slash_app : forall p q, starts_slash p = true -> starts_slash (p ++ q) = true.
Proof. intros [|x p] q H; [discriminate|exact H]. Qed.

Lemma proto_not_const : forall p c x rest,
  starts_slash p = true -> x <> SLASH -> c = x :: rest -> bytes_eqb (p ++ [NL]) c = false.
Proof.
  intros p c x rest Hs Hx ->. apply bytes_eqb_neq. intros E.
  destruct p as [|y p]; [discriminate|]. cbn in Hs. apply N.eqb_eq in Hs. subst y.
  cbn in E. injection E as E1 _. apply Hx. symmetry. exact E1.
Qed.

Lemma codec_roundtrip : forall m, wf_msg m -> decode_msg (encode_msg m) = DOk m.
Proof.
  intros [|p| |ps|] Hwf; try reflexivity; [|destruct Hwf].
  destruct Hwf as (Hs & Hn & Hh).
  unfold decode_msg. cbn [encode_msg].
  assert (E1 : bytes_eqb (p ++ [NL]) MSG_HEADER = false).
  { apply bytes_eqb_neq. unfold MSG_HEADER. intros E. apply app_inj_tail in E. tauto. }
  rewrite E1.
  rewrite (proto_not_const p MSG_NA 110 [97; 10] Hs) by (try reflexivity; unfold SLASH; lia).
  rewrite (proto_not_const p MSG_LS 108 [115; 10] Hs) by (try reflexivity; unfold SLASH; lia).
  rewrite starts_slash_app by exact Hs.
  rewrite last_app_single, removelast_app_single, Hn, N.eqb_refl. reflexivity.
Qed.

(* what arrives decodes to what was sent, and to nothing else: distinct well-formed messages
   have distinct encodings *)
Lemma codec_injective : forall m1 m2, wf_msg m1 -> wf_msg m2 ->
  encode_msg m1 = encode_msg m2 -> m1 = m2.
Proof.
  intros m1 m2 H1 H2 E.
  assert (D : DOk m1 = DOk m2).
  { rewrite <- (codec_roundtrip m1 H1), <- (codec_roundtrip m2 H2), E. reflexivity. }
  injection D as D. exact D.
Qed.

(* ------------------------------------------------------------------ frame length prefix *)
Lemma max_frame_val : MAX_FRAME = 16383.
Proof. reflexivity. Qed.

Lemma len_app : forall a b : bytes, len (a ++ b) = len a + len b.
Proof. intros. unfold len. rewrite app_length. lia. Qed.

Lemma len_nil_inv : forall b : bytes, len b = 0 -> b = [].
Proof. intros [|x b] H; [reflexivity|]. unfold len in H. cbn [length] in H. lia. Qed.

(* ------------------------------------------------------------------ carrier reads *)
Lemma firstn_skipn_len : forall (l : bytes) n, (n <= length l)%nat -> length (firstn n l) = n.
Proof. intros. rewrite firstn_length. lia. Qed.

Lemma len_firstn : forall (l : bytes) m, len (firstn (N.to_nat m) l) = N.min m (len l).
Proof. intros. unfold len. rewrite firstn_length. lia. Qed.

Lemma pipe_read_spec : forall p k p' r, 1 <= k -> pipe_read p k = (p', r) ->
  p_closed p' = p_closed p /\
  match r with
  | RPending => p_buf p' = p_buf p
  | REof => p_buf p = [] /\ p_buf p' = [] /\ p_closed p = true
  | RData bs => p_buf p = bs ++ p_buf p' /\ 1 <= len bs /\ len bs <= k
  end.
Proof.
  intros p k p' r Hk H. unfold pipe_read in H.
  destruct (p_buf p) as [|x b] eqn:Eb.
  - destruct (p_closed p) eqn:Ec; injection H as <- <-; rewrite ?Eb; auto.
  - assert (Hl : 1 <= len (x :: b)) by (unfold len; cbn [length]; lia).
    destruct (p_rscript p) as [|c s].
    + injection H as <- <-. cbn [p_buf p_closed]. split; [reflexivity|].
      rewrite firstn_skipn. split; [reflexivity|].
      rewrite len_firstn. lia.
    + destruct (c =? 0) eqn:Ec0.
      * injection H as <- <-. cbn [p_buf p_closed]. auto.
      * injection H as <- <-. cbn [p_buf p_closed]. split; [reflexivity|].
        rewrite firstn_skipn. split; [reflexivity|].
        rewrite len_firstn. unfold nmin3. lia.
Qed.

(* ------------------------------------------------------------------ frame exactness *)
(* The reader has consumed exactly `pre`, a strict prefix of `frame body`. *)
Inductive InFrame (body : bytes) : rstate -> bytes -> Prop :=
| IF_start : InFrame body (RLen []) []
| IF_len1 : 128 <= len body -> InFrame body (RLen [128 + len body mod 128]) [128 + len body mod 128]
| IF_body : forall acc z, 1 <= len body -> body = acc ++ z -> z <> [] ->
    InFrame body (RBody (len body) acc) (enc_len (len body) ++ acc).

Lemma app_prefix_split : forall (a b x y : bytes), a ++ x = b ++ y -> (length a <= length b)%nat ->
  exists z, b = a ++ z.
Proof.
  induction a as [|h a IH]; intros b x y H L.
  - exists b. reflexivity.
  - destruct b as [|h' b]; [cbn in L; lia|].
    cbn in H. injection H as -> H. cbn in L.
    destruct (IH b x y H ltac:(lia)) as [z ->]. exists z. reflexivity.
Qed.

(* stream agreement: what was consumed plus what is available is a prefix of the byte stream
   `frame body ++ tail` *)
Definition agrees (body tail pre avail : bytes) : Prop :=
  exists fut, pre ++ avail ++ fut = frame body ++ tail.

Definition rd_outcome (body tail : bytes) (pre : bytes) (p : pipe) (st' : rstate) (p' : pipe) (r : fres) : Prop :=
  exists consumed,
    p_buf p = consumed ++ p_buf p' /\ p_closed p' = p_closed p /\
    match r with
    | FPending => InFrame body st' (pre ++ consumed)
    | FFrame b => b = body /\ pre ++ consumed = frame body /\ st' = rd_init
    | FErr e => e = IoUnexpectedEof /\ p_closed p = true /\ p_buf p' = [] /\ pre ++ consumed <> [] /\
                InFrame body st' (pre ++ consumed)
    | FNone => pre = [] /\ consumed = [] /\ p_buf p = [] /\ p_closed p = true
    end.

Lemma enc_len_small : forall n, n < 128 -> enc_len n = [n].
Proof. intros n H. unfold enc_len. destruct (n <? 128) eqn:E; [reflexivity|lia]. Qed.
Lemma enc_len_big : forall n, 128 <= n -> enc_len n = [128 + n mod 128; n / 128].
Proof. intros n H. unfold enc_len. destruct (n <? 128) eqn:E; [lia|reflexivity]. Qed.

Lemma single_of_len : forall bs : bytes, 1 <= len bs -> len bs <= 1 -> exists b, bs = [b].
Proof.
  intros [|b [|c bs]] H1 H2; unfold len in *; cbn [length] in *; try lia. exists b. reflexivity.
Qed.

Lemma outcome_lift : forall body tail pre c0 p p1 st' p' r,
  rd_outcome body tail (pre ++ c0) p1 st' p' r ->
  p_buf p = c0 ++ p_buf p1 -> p_closed p1 = p_closed p -> c0 <> [] ->
  rd_outcome body tail pre p st' p' r.
Proof.
  intros body tail pre c0 p p1 st' p' r (cons & Hc1 & Hc2 & Hr) Hb Hc Hne.
  exists (c0 ++ cons). rewrite Hb, Hc1, <- app_assoc. split; [reflexivity|].
  split; [congruence|].
  destruct r as [| |b|e].
  - rewrite app_assoc. exact Hr.
  - destruct Hr as (Hp & _). destruct pre; destruct c0; try discriminate. congruence.
  - rewrite app_assoc. exact Hr.
  - destruct Hr as (He & Hcl & Hb' & Hn & Hi). rewrite app_assoc. repeat split; auto. congruence.
Qed.

Lemma frame_exact_poll : forall body tail, len body <= MAX_FRAME ->
  forall fuel st p pre st' p' r,
  InFrame body st pre -> agrees body tail pre (p_buf p) ->
  rd_poll fuel st p = (st', p', r) ->
  rd_outcome body tail pre p st' p' r.
Proof.
  intros body tail Hmax. rewrite max_frame_val in Hmax.
  induction fuel as [|f IH]; intros st p pre st' p' r Hin Hag H.
  - cbn in H. injection H as <- <- <-. exists []. rewrite app_nil_r. auto.
  - cbn [rd_poll] in H. destruct Hin as [|Hbig|acc z Hpos Hbody Hz].
    + (* nothing consumed yet *)
      destruct (pipe_read p 1) as [p1 rr] eqn:Er.
      pose proof (pipe_read_spec p 1 p1 rr ltac:(lia) Er) as (Hc & Hs).
      destruct rr as [| |bs].
      * injection H as <- <- <-. exists []. cbn. rewrite Hs. repeat split; auto. constructor.
      * injection H as <- <- <-. destruct Hs as (Hb & Hb' & Hcl). exists []. cbn. rewrite Hb, Hb'. repeat split; auto.
      * destruct Hs as (Hb & Hl1 & Hl2).
        destruct (single_of_len bs Hl1 Hl2) as [b ->].
        destruct Hag as [fut Hag]. rewrite Hb in Hag. cbn [app] in Hag.
        cbn [app last] in H.
        destruct (N.lt_ge_cases (len body) 128) as [Hsm|Hbg].
        -- unfold frame in Hag. rewrite enc_len_small in Hag by exact Hsm. cbn [app] in Hag.
           injection Hag as -> Hag.
           destruct (len body <? 128) eqn:E; [|lia].
           cbn [dec_len] in H.
           destruct (1 <=? len body) eqn:E1.
           ++ assert (Hin' : InFrame body (RBody (len body) []) (enc_len (len body) ++ [])).
              { apply (IF_body body [] body); [lia|reflexivity|]. intros ->. unfold len in E1. cbn in E1. lia. }
              rewrite app_nil_r in Hin'. rewrite enc_len_small in Hin' by exact Hsm.
              assert (Hag' : agrees body tail [len body] (p_buf p1)).
              { exists fut. unfold frame. rewrite enc_len_small by exact Hsm. cbn [app]. f_equal. exact Hag. }
              specialize (IH _ _ _ _ _ _ Hin' Hag' H).
              apply (outcome_lift body tail [] [len body] p p1); auto. discriminate.
           ++ injection H as <- <- <-. exists [len body]. rewrite Hb. cbn [app].
              split; [reflexivity|]. split; [exact Hc|].
              assert (len body = 0) by lia. apply len_nil_inv in H as Hnil.
              split; [symmetry; exact Hnil|]. split; [|reflexivity].
              unfold frame. rewrite enc_len_small by exact Hsm. rewrite Hnil. reflexivity.
        -- unfold frame in Hag. rewrite enc_len_big in Hag by exact Hbg. cbn [app] in Hag.
           injection Hag as -> Hag.
           assert (Hm : len body mod 128 < 128) by (apply N.mod_lt; lia).
           destruct (128 + len body mod 128 <? 128) eqn:E; [lia|].
           change (len [128 + len body mod 128]) with 1 in H.
           change C03_MAX_LEN_BYTES with 2 in H.
           destruct (1 =? 2) eqn:E2; [lia|].
           assert (Hin' : InFrame body (RLen [128 + len body mod 128]) [128 + len body mod 128])
             by (constructor; exact Hbg).
           assert (Hag' : agrees body tail [128 + len body mod 128] (p_buf p1)).
           { exists fut. unfold frame. rewrite enc_len_big by exact Hbg. cbn [app]. f_equal. exact Hag. }
           specialize (IH _ _ _ _ _ _ Hin' Hag' H).
           apply (outcome_lift body tail [] [128 + len body mod 128] p p1); auto. discriminate.
    + (* first length byte consumed, a second one follows *)
      destruct (pipe_read p 1) as [p1 rr] eqn:Er.
      pose proof (pipe_read_spec p 1 p1 rr ltac:(lia) Er) as (Hc & Hs).
      destruct rr as [| |bs].
      * injection H as <- <- <-. exists []. rewrite app_nil_r. cbn. rewrite Hs. repeat split; auto.
        constructor. exact Hbig.
      * injection H as <- <- <-. destruct Hs as (Hb & Hb' & Hcl). exists []. cbn. rewrite Hb, Hb'.
        repeat split; auto. discriminate. constructor. exact Hbig.
      * destruct Hs as (Hb & Hl1 & Hl2).
        destruct (single_of_len bs Hl1 Hl2) as [b ->].
        destruct Hag as [fut Hag]. rewrite Hb in Hag. cbn [app] in Hag.
        unfold frame in Hag. rewrite enc_len_big in Hag by exact Hbig. cbn [app] in Hag.
        injection Hag as -> Hag.
        cbn [app last] in H.
        assert (Hd : len body / 128 < 128) by (apply N.div_lt_upper_bound; lia).
        assert (Hd1 : 1 <= len body / 128) by (apply N.div_le_lower_bound; lia).
        destruct (len body / 128 <? 128) eqn:E; [|lia].
        cbn [dec_len] in H.
        destruct (len body / 128 =? 0) eqn:E0; [lia|].
        assert (Hn : (128 + len body mod 128) mod 128 + len body / 128 * 128 = len body).
        { rewrite N.add_mod by lia. rewrite N.mod_same by lia. rewrite N.add_0_l.
          rewrite N.mod_mod by lia. rewrite N.mod_mod by lia.
          pose proof (N.div_mod (len body) 128 ltac:(lia)). lia. }
        rewrite Hn in H.
        destruct (1 <=? len body) eqn:E1; [|lia].
        assert (Hin' : InFrame body (RBody (len body) []) (enc_len (len body) ++ [])).
        { apply (IF_body body [] body); [lia|reflexivity|]. intros ->. unfold len in E1. cbn in E1. lia. }
        rewrite app_nil_r in Hin'. rewrite enc_len_big in Hin' by exact Hbig.
        assert (Hag' : agrees body tail [128 + len body mod 128; len body / 128] (p_buf p1)).
        { exists fut. unfold frame. rewrite enc_len_big by exact Hbig. cbn [app]. do 2 f_equal. exact Hag. }
        specialize (IH _ _ _ _ _ _ Hin' Hag' H).
        apply (outcome_lift body tail [128 + len body mod 128] [len body / 128] p p1); auto. discriminate.
    + (* inside the body *)
      assert (Hzl : 1 <= len z).
      { destruct z; [congruence|]. unfold len. cbn [length]. lia. }
      assert (Hla : len body = len acc + len z) by (rewrite Hbody; apply len_app).
      destruct (pipe_read p (len body - len acc)) as [p1 rr] eqn:Er.
      assert (Hk : 1 <= len body - len acc) by lia.
      pose proof (pipe_read_spec p _ p1 rr Hk Er) as (Hc & Hs).
      destruct rr as [| |bs].
      * injection H as <- <- <-. exists []. rewrite app_nil_r. cbn. rewrite Hs. repeat split; auto.
        apply (IF_body body acc z); assumption.
      * injection H as <- <- <-. destruct Hs as (Hb & Hb' & Hcl). exists []. cbn. rewrite Hb, Hb'.
        repeat split; auto.
        -- rewrite app_nil_r. unfold enc_len. destruct (len body <? 128); discriminate.
        -- rewrite app_nil_r. apply (IF_body body acc z); assumption.
      * destruct Hs as (Hb & Hl1 & Hl2).
        destruct Hag as [fut Hag]. rewrite Hb in Hag. unfold frame in Hag.
        rewrite <- !app_assoc in Hag. apply app_inv_head in Hag.
        rewrite Hbody in Hag. rewrite <- !app_assoc in Hag. apply app_inv_head in Hag.
        (* bs ++ rest ++ fut = z ++ tail, and bs is no longer than z *)
        assert (Hlen : (length bs <= length z)%nat) by (unfold len in *; lia).
        destruct (app_prefix_split bs z _ _ Hag Hlen) as [z' Hz'].
        destruct (len (acc ++ bs) =? len body) eqn:Efull.
        -- injection H as <- <- <-.
           assert (z' = []).
           { rewrite len_app in Efull. rewrite Hz' in Hla. rewrite len_app in Hla.
             apply len_nil_inv. lia. }
           subst z'. rewrite app_nil_r in Hz'. subst z.
           exists bs. split; [exact Hb|]. split; [exact Hc|].
           split; [symmetry; exact Hbody|]. split; [|reflexivity].
           unfold frame. rewrite <- app_assoc, <- Hbody. reflexivity.
        -- assert (Hin' : InFrame body (RBody (len body) (acc ++ bs)) (enc_len (len body) ++ acc ++ bs)).
           { apply (IF_body body (acc ++ bs) z'); [assumption| |].
             - rewrite Hbody, Hz', app_assoc. reflexivity.
             - intros ->. rewrite app_nil_r in Hz'. subst z. rewrite <- Hbody in Efull. lia. }
           assert (Hag' : agrees body tail (enc_len (len body) ++ acc ++ bs) (p_buf p1)).
           { exists fut. unfold frame. rewrite <- !app_assoc. f_equal.
             rewrite Hag. rewrite Hbody at 1. rewrite <- app_assoc. reflexivity. }
           specialize (IH _ _ _ _ _ _ Hin' Hag' H).
           apply (outcome_lift body tail (enc_len (len body) ++ acc) bs p p1); auto.
           ++ rewrite <- app_assoc. exact IH.
           ++ intros ->. unfold len in Hl1. cbn in Hl1. lia.
Qed.

(* ------------------------------------------------------------------ writer exactness *)
Lemma pipe_write_spec : forall p data p' r, data <> [] -> pipe_write p data = (p', r) ->
  p_closed p' = p_closed p /\ p_rscript p' = p_rscript p /\
  match r with
  | None => p_buf p' = p_buf p /\ p_total p' = p_total p
  | Some n => (1 <= n <= length data)%nat /\
              p_buf p' = p_buf p ++ firstn n data /\ p_total p' = p_total p ++ firstn n data
  end.
Proof.
  intros p data p' r Hd H. unfold pipe_write in H.
  assert (Hl : (1 <= length data)%nat) by (destruct data; [congruence|cbn; lia]).
  destruct (p_wscript p) as [|c s].
  - injection H as <- <-. cbn. rewrite firstn_all. repeat split; auto; lia.
  - destruct (c =? 0) eqn:E0.
    + injection H as <- <-. cbn. auto.
    + injection H as <- <-. cbn. repeat split; auto; unfold len; lia.
Qed.

(* poll_write_buffer under any write script: what reaches the carrier is a prefix of the buffer,
   in order, nothing lost or duplicated; `true` means the buffer is empty *)
Lemma wr_drain_spec : forall fuel wbuf p w' p' ok,
  wr_drain fuel wbuf p = (w', p', ok) ->
  exists written, wbuf = written ++ w' /\ p_buf p' = p_buf p ++ written /\
                  p_total p' = p_total p ++ written /\ p_closed p' = p_closed p /\
                  p_rscript p' = p_rscript p /\ (ok = true -> w' = []).
Proof.
  induction fuel as [|f IH]; intros wbuf p w' p' ok H.
  - cbn in H. injection H as <- <- <-. exists []. rewrite !app_nil_r. repeat split; auto. discriminate.
  - cbn [wr_drain] in H. destruct wbuf as [|x w].
    + injection H as <- <- <-. exists []. rewrite !app_nil_r. repeat split; auto.
    + destruct (pipe_write p (x :: w)) as [p1 r] eqn:Ew.
      pose proof (pipe_write_spec p (x :: w) p1 r ltac:(discriminate) Ew) as (Hc & Hr & Hs).
      destruct r as [n|].
      * destruct Hs as (Hn & Hb & Ht).
        destruct (IH _ _ _ _ _ H) as (wr & Hw & Hb' & Ht' & Hc' & Hr' & Hok).
        exists (firstn n (x :: w) ++ wr). rewrite <- app_assoc, <- Hw, firstn_skipn.
        rewrite Hb', Hb, Ht', Ht, <- !app_assoc. repeat split; auto; congruence.
      * injection H as <- <- <-. destruct Hs as (Hb & Ht). exists []. rewrite !app_nil_r.
        repeat split; auto. discriminate.
Qed.

(* the statement pinned in Properties.v (without the InFrame conjunct of the EOF case) *)
Lemma frame_exact_weak : forall body tail, len body <= MAX_FRAME ->
  forall fuel st p pre st' p' r,
  InFrame body st pre -> agrees body tail pre (p_buf p) ->
  rd_poll fuel st p = (st', p', r) ->
  exists consumed,
    p_buf p = consumed ++ p_buf p' /\ p_closed p' = p_closed p /\
    match r with
    | FPending => InFrame body st' (pre ++ consumed)
    | FFrame b => b = body /\ pre ++ consumed = frame body /\ st' = rd_init
    | FErr e => e = IoUnexpectedEof /\ p_closed p = true /\ p_buf p' = [] /\ pre ++ consumed <> []
    | FNone => pre = [] /\ consumed = [] /\ p_buf p = [] /\ p_closed p = true
    end.
Proof.
  intros body tail Hm fuel st p pre st' p' r Hi Ha H.
  destruct (frame_exact_poll body tail Hm fuel st p pre st' p' r Hi Ha H) as (cons & H1 & H2 & H3).
  exists cons. split; [exact H1|]. split; [exact H2|].
  destruct r; try exact H3. destruct H3 as (A & B & C & D & _). repeat split; assumption.
Qed.

(* a reader inside a frame has consumed a strict prefix of it *)
Lemma InFrame_prefix : forall body st pre, len body <= MAX_FRAME -> InFrame body st pre ->
  exists z, z <> [] /\ frame body = pre ++ z.
Proof.
  intros body st pre Hm Hi. destruct Hi as [|Hbig|acc z Hpos Hb Hz].
  - exists (frame body). split; [|reflexivity]. unfold frame, enc_len.
    destruct (len body <? 128); discriminate.
  - exists (len body / 128 :: body). split; [discriminate|].
    unfold frame. rewrite enc_len_big by exact Hbig. reflexivity.
  - exists z. split; [exact Hz|]. unfold frame. rewrite <- app_assoc. f_equal. exact Hb.
Qed.
