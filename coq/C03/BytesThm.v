(* C03 — agreement, reported indices, hand-over and transparency as theorems about the
   byte-level two-ended system of Model.v (the model that is diffed against the Rust code),
   for every scheduler, every chunking and every Pending injection. *)
From Coq Require Import List Arith NArith Bool Lia ZifyBool ZifyNat ZifyN.
From V.gen Require Import Consts.
From V.common Require Import Wire.
From V.C03 Require Import Model Msg Proofs MsgRef MsgProofs MsgInv Chan Dir SimD SimL SimSys.
Import ListNotations.
Open Scope N_scope.

Arguments N.add : simpl never.
Arguments N.sub : simpl never.
Arguments N.eqb : simpl never.
Arguments N.ltb : simpl never.
Arguments N.leb : simpl never.
Arguments N.of_nat : simpl never.
Arguments N.min : simpl never.

(* V1 cases whose dialer names are valid protocol names that fit a frame; the listener's set
   is arbitrary *)
Definition wf_case (c : ncase) : Prop := c_lazy c = false /\ Forall wfn (c_ds c).

Lemma sim_init : forall c, wf_case c -> Sim (c_ds c) (c_ls c) (sys_init c) (minit (c_ds c)).
Proof.
  intros c [Hl Hw]. split; [apply Reach_init|].
  exists (SvN []), (RvN rd_init), (SvN []), (RvN rd_init). unfold sys_init. cbn [s_d s_l s_dl s_ld].
  split; [|split; [|split]].
  - apply (DT_neg _ _ _ (d_init (c_ds c) (c_lazy c))); try reflexivity.
    split; [exact Hl|]. cbn. repeat split; reflexivity.
  - apply (LT_neg _ _ _ (l_init (c_ls c))); try reflexivity.
    split; [reflexivity|]. cbn. split; reflexivity.
  - exists []. split; [cbn; auto|]. exists []. split; [left; split; reflexivity | reflexivity].
  - exists []. split; [cbn; auto|]. exists []. split; [left; split; reflexivity | reflexivity].
Qed.

(* every reachable byte-level state is related to a reachable message-level state *)
Theorem bytes_project : forall c who, wf_case c ->
  exists sched, Sim (c_ds c) (c_ls c) (polls who (sys_init c)) (mrun (c_ls c) sched (minit (c_ds c))).
Proof.
  intros c who Hc. destruct Hc as [Hl Hw].
  exact (polls_sim (c_ds c) (c_ls c) Hw who _ _ (sim_init c (conj Hl Hw))).
Qed.

(* the payload a task has to send never changes *)
Lemma t_poll_payload : forall fuel t pin pout,
  t_payload (fst (fst (t_poll fuel t pin pout))) = t_payload t.
Proof.
  induction fuel as [|f IH]; intros t pin pout; [reflexivity|].
  cbn [t_poll].
  repeat match goal with
         | |- context [match ?x with _ => _ end] => destruct x eqn:?
         end; cbn [fst t_payload]; try reflexivity; try (rewrite IH; reflexivity).
Qed.

Lemma poll_side_payload : forall b s,
  t_payload (s_d (poll_side b s)) = t_payload (s_d s) /\
  t_payload (s_l (poll_side b s)) = t_payload (s_l s).
Proof.
  intros b s. unfold poll_side. destruct b.
  - pose proof (t_poll_payload (t_fuel (s_l s) (s_dl s)) (s_l s) (s_dl s) (s_ld s)) as H.
    destruct (t_poll (t_fuel (s_l s) (s_dl s)) (s_l s) (s_dl s) (s_ld s)) as [[t1 a] b]. cbn in *. auto.
  - pose proof (t_poll_payload (t_fuel (s_d s) (s_ld s)) (s_d s) (s_ld s) (s_dl s)) as H.
    destruct (t_poll (t_fuel (s_d s) (s_ld s)) (s_d s) (s_ld s) (s_dl s)) as [[t1 a] b]. cbn in *. auto.
Qed.

Lemma polls_payload : forall who s,
  t_payload (s_d (polls who s)) = t_payload (s_d s) /\
  t_payload (s_l (polls who s)) = t_payload (s_l s).
Proof.
  induction who as [|b who IH]; intros s; [split; reflexivity|].
  cbn [polls fold_left]. fold (polls who (poll_side b s)).
  destruct (IH (poll_side b s)) as [A B]. destruct (poll_side_payload b s) as [C D].
  split; congruence.
Qed.

(* ------------------------------------------------------------------ results *)
Definition unsup (ls : list name) (x : name) : Prop := supported ls x = false.

(* i is the position of the first name of ds that the listener supports, and that name is p *)
Definition first_at (ds ls : list name) (i : N) (p : name) : Prop :=
  exists pre rest, ds = pre ++ p :: rest /\ i = N.of_nat (length pre) /\
                   Forall (unsup ls) pre /\ supported ls p = true.

Lemma first_common_supported : forall ds ls p, first_common ds ls = Some p -> supported ls p = true.
Proof. intros ds ls p H. unfold first_common in H. apply find_some in H. tauto. Qed.

Section Results.
Variables (c : ncase) (who : list bool).
Hypothesis Hc : wf_case c.
Let ds := c_ds c.
Let ls := c_ls c.
Let s := polls who (sys_init c).

Lemma Hwf_ds : Forall wfn ds.
Proof. exact (proj2 Hc). Qed.

Theorem dialer_ok_result : forall i, t_res (s_d s) = (0, i) ->
  exists p, first_common ds ls = Some p /\ first_at ds ls i p.
Proof.
  intros i Hres. destruct (bytes_project c who Hc) as (sched & HR & svd & rvd & svl & rvl & HD & _).
  fold s in HD. fold ds in HR, HD. fold ls in HR, HD.
  destruct HD as [d Hph HDl Hcl Hr | sv rv i' p pre HV Hr Hds Hi Hph Hcl | code Hph Hr Hcd Hmd Hcl].
  - rewrite Hr in Hres. discriminate.
  - rewrite Hr in Hres. injection Hres as <-.
    pose proof (wfd_ds ds Hwf_ds) as Hw.
    destruct (handover_d ds ls _ p Hw HR Hph) as (_ & _ & _ & _ & Hfc).
    destruct (dialer_index ds ls _ p Hw HR Hph) as (pre' & Hds' & Hu).
    exists p. split; [exact Hfc|].
    assert (pre = pre').
    { rewrite Hds in Hds' at 1. apply app_inv_tail in Hds'. exact Hds'. }
    subst pre'. exists pre, (md_rest (sd (mrun ls sched (minit ds)))).
    repeat split; auto. exact (first_common_supported _ _ _ Hfc).
  - rewrite Hr in Hres. injection Hres as -> _. lia.
Qed.

Theorem dialer_fail_result : forall code i, t_res (s_d s) = (code, i) -> code <> 0 -> code <> 99 ->
  first_common ds ls = None.
Proof.
  intros code i Hres H0 H99. destruct (bytes_project c who Hc) as (sched & HR & svd & rvd & svl & rvl & HD & _).
  fold s in HD. fold ds in HR, HD. fold ls in HR, HD.
  destruct HD as [d Hph HDl Hcl Hr | sv rv i' p pre HV Hr Hds Hi Hph Hcl | code' Hph Hr Hcd Hmd Hcl].
  - rewrite Hr in Hres. injection Hres as <- _. congruence.
  - rewrite Hr in Hres. injection Hres as <- _. congruence.
  - destruct HR as [sch E]. rewrite E in Hmd.
    symmetry. exact (agreement_dialer ds ls sch None (wfd_ds ds Hwf_ds) (d_result_of_ph _ _ Hmd)).
Qed.

Theorem listener_ok_result : forall j, t_res (s_l s) = (0, j) ->
  exists p, first_common ds ls = Some p /\ lidx 0 ls p = Some j.
Proof.
  intros j Hres. destruct (bytes_project c who Hc) as (sched & HR & svd & rvd & svl & rvl & _ & HL & _).
  fold s in HL. fold ds in HR, HL. fold ls in HR, HL.
  destruct HL as [l Hph HLl Hcl Hr | sv rv j' n HV Hr Hidx Hph Hcl | code Hph Hr Hcd Hml Hcl].
  - rewrite Hr in Hres. discriminate.
  - rewrite Hr in Hres. injection Hres as <-.
    destruct (handover_l ds ls _ n (wfd_ds ds Hwf_ds) HR Hph) as (_ & _ & _ & _ & Hfc).
    exists n. split; assumption.
  - rewrite Hr in Hres. injection Hres as -> _. lia.
Qed.

Theorem listener_fail_result : forall code j, t_res (s_l s) = (code, j) -> code <> 0 -> code <> 99 ->
  first_common ds ls = None.
Proof.
  intros code j Hres H0 H99. destruct (bytes_project c who Hc) as (sched & HR & svd & rvd & svl & rvl & _ & HL & _).
  fold s in HL. fold ds in HR, HL. fold ls in HR, HL.
  destruct HL as [l Hph HLl Hcl Hr | sv rv j' n HV Hr Hidx Hph Hcl | code' Hph Hr Hcd Hml Hcl].
  - rewrite Hr in Hres. injection Hres as <- _. congruence.
  - rewrite Hr in Hres. injection Hres as <- _. congruence.
  - destruct HR as [sch E]. rewrite E in Hml.
    symmetry. exact (agreement_listener ds ls sch None (wfd_ds ds Hwf_ds) (l_result_of_ph _ _ Hml)).
Qed.

(* a task that has finished carries a final result *)
Theorem done_has_result : (t_done (s_d s) = true -> fst (t_res (s_d s)) <> 99) /\
                          (t_done (s_l s) = true -> fst (t_res (s_l s)) <> 99).
Proof.
  destruct (bytes_project c who Hc) as (sched & HR & svd & rvd & svl & rvl & HD & HL & _).
  fold s in HD, HL. split; intros Hdone.
  - destruct HD as [d Hph HDl Hcl Hr | sv rv i' p pre HV Hr Hds Hi Hph Hcl | code' Hph Hr Hcd Hmd Hcl].
    + unfold t_done in Hdone. rewrite Hph in Hdone. discriminate.
    + rewrite Hr. cbn. lia.
    + rewrite Hr. cbn. lia.
  - destruct HL as [l Hph HLl Hcl Hr | sv rv j' n HV Hr Hidx Hph Hcl | code' Hph Hr Hcd Hml Hcl].
    + unfold t_done in Hdone. rewrite Hph in Hdone. discriminate.
    + rewrite Hr. cbn. lia.
    + rewrite Hr. cbn. lia.
Qed.

(* transparency: when both tasks have finished after a successful negotiation, each has
   received exactly the other's application bytes, ended on a clean EOF, and nothing is left
   in either pipe *)
Theorem transparent : t_done (s_d s) = true -> t_done (s_l s) = true ->
  forall p, first_common ds ls = Some p ->
  t_got (s_l s) = c_dpay c /\ t_got (s_d s) = c_lpay c /\
  t_end (s_d s) = 0 /\ t_end (s_l s) = 0 /\ p_buf (s_dl s) = [] /\ p_buf (s_ld s) = [].
Proof.
  intros Hdd Hld p Hfc.
  destruct (bytes_project c who Hc) as (sched & HR & svd & rvd & svl & rvl & HD & HL & Hdl & Hlds).
  fold s in HD, HL, Hdl, Hlds. fold ds in HR, HD, HL, Hdl, Hlds. fold ls in HR, HD, HL, Hdl, Hlds.
  pose proof (wfd_ds ds Hwf_ds) as Hw.
  destruct (polls_payload who (sys_init c)) as [Pd Pl]. fold s in Pd, Pl. cbn in Pd, Pl.
  set (m := mrun ls sched (minit ds)) in *.
  (* the dialer's task *)
  destruct HD as [d Hph HDl Hcl Hr | sv rv i' q pre HV Hr Hds Hi Hph Hcl | code' Hph Hr Hcd Hmd Hcl].
  { unfold t_done in Hdd. rewrite Hph in Hdd. discriminate. }
  2:{ exfalso. destruct HR as [sch E]. rewrite E in Hmd.
      pose proof (agreement_dialer ds ls sch None Hw (d_result_of_ph _ _ Hmd)) as A. congruence. }
  destruct HL as [l Hph' HLl Hcl' Hr' | sv' rv' j' n HV' Hr' Hidx Hph' Hcl' | code' Hph' Hr' Hcd Hml Hcl'].
  { unfold t_done in Hld. rewrite Hph' in Hld. discriminate. }
  2:{ exfalso. destruct HR as [sch E]. rewrite E in Hml.
      pose proof (agreement_listener ds ls sch None Hw (l_result_of_ph _ _ Hml)) as A. congruence. }
  destruct (handover_d ds ls m q Hw HR Hph) as (Hcld & _).
  destruct (handover_l ds ls m n Hw HR Hph') as (Hcdl & _).
  destruct HV as [rem pw E1 E2 | E1 | acc E1 | E1 E2];
    try (unfold t_done in Hdd; rewrite E1 in Hdd; discriminate).
  destruct HV' as [rem pw E1' E2' | E1' | acc E1' | E1' E2'];
    try (unfold t_done in Hld; rewrite E1' in Hld; discriminate).
  destruct Hdl as (X & (_ & _ & ->) & (B1 & _ & B3)).
  destruct Hlds as (Y & (_ & _ & ->) & (C1 & _ & C3)).
  rewrite Hcdl in B3. rewrite Hcld in C3. cbn in B3, C3.
  rewrite Pd in B3. rewrite Pl in C3.
  repeat split; assumption.
Qed.

End Results.

(* ------------------------------------------------------------------ the scheduler of the
   harness (script, then alternation, stuck detection) is one particular poll sequence *)
Lemma run_sys_polls : forall fuel sched next idle s s' st,
  run_sys fuel sched next idle s = (s', st) ->
  exists who, s' = polls who s /\
    (st = 0 -> t_done (s_d s') = true /\ t_done (s_l s') = true).
Proof.
  induction fuel as [|f IH]; intros sched next idle s s' st H.
  - cbn in H. injection H as <- <-. exists []. split; [reflexivity|]. intros E. discriminate E.
  - cbn [run_sys] in H.
    destruct (t_done (s_d s) && t_done (s_l s)) eqn:Ed.
    + injection H as <- <-. exists []. split; [reflexivity|]. intros _.
      apply andb_true_iff in Ed. exact Ed.
    + destruct (4 <=? idle).
      * injection H as <- <-. exists []. split; [reflexivity|]. intros E. discriminate E.
      * destruct sched as [|x t].
        -- destruct (IH _ _ _ _ _ _ H) as (who & -> & Hst). exists (next :: who). split; [reflexivity | exact Hst].
        -- destruct (IH _ _ _ _ _ _ H) as (who & -> & Hst).
           exists (negb (x =? 0) :: who). split; [reflexivity | exact Hst].
Qed.

(* what a completed run of the harness scheduler shows, as one statement *)
Theorem run_sys_correct : forall c fuel s st, wf_case c ->
  run_sys fuel (c_sched c) false 0 (sys_init c) = (s, st) -> st = 0 ->
  match first_common (c_ds c) (c_ls c) with
  | Some p =>
      exists i j, t_res (s_d s) = (0, i) /\ t_res (s_l s) = (0, j) /\
        first_at (c_ds c) (c_ls c) i p /\ lidx 0 (c_ls c) p = Some j /\
        t_got (s_l s) = c_dpay c /\ t_got (s_d s) = c_lpay c /\
        t_end (s_d s) = 0 /\ t_end (s_l s) = 0 /\ p_buf (s_dl s) = [] /\ p_buf (s_ld s) = []
  | None =>
      fst (t_res (s_d s)) <> 0 /\ fst (t_res (s_l s)) <> 0
  end.
Proof.
  intros c fuel s st Hc H ->.
  destruct (run_sys_polls _ _ _ _ _ _ _ H) as (who & -> & Hd). destruct (Hd eq_refl) as [Hdd Hld].
  destruct (done_has_result c who Hc) as [R1 R2]. specialize (R1 Hdd). specialize (R2 Hld).
  destruct (t_res (s_d (polls who (sys_init c)))) as [dc di] eqn:Ed.
  destruct (t_res (s_l (polls who (sys_init c)))) as [lc li] eqn:El.
  cbn [fst] in R1, R2.
  destruct (first_common (c_ds c) (c_ls c)) as [p|] eqn:Efc.
  - destruct (N.eq_dec dc 0) as [-> | Hdc].
    2:{ pose proof (dialer_fail_result c who Hc dc di Ed Hdc R1) as A. congruence. }
    destruct (N.eq_dec lc 0) as [-> | Hlc].
    2:{ pose proof (listener_fail_result c who Hc lc li El Hlc R2) as A. congruence. }
    destruct (dialer_ok_result c who Hc di Ed) as (p1 & A1 & A2).
    destruct (listener_ok_result c who Hc li El) as (p2 & B1 & B2).
    assert (p1 = p) by congruence. assert (p2 = p) by congruence. subst p1 p2.
    destruct (transparent c who Hc Hdd Hld p Efc) as (T1 & T2 & T3 & T4 & T5 & T6).
    exists di, li. repeat split; assumption.
  - cbn [fst]. split.
    + intros ->. destruct (dialer_ok_result c who Hc di Ed) as (p1 & A1 & _). congruence.
    + intros ->. destruct (listener_ok_result c who Hc li El) as (p2 & B1 & _). congruence.
Qed.
