(* C03 — message-based (WebRTC) variant: how a listener's reply reaches the dialer. Definitions only.

   A data channel delivers MESSAGES. litep2p's own listener puts its whole reply (header echo +
   confirmation / na) into one message, but a peer may as well answer the header as soon as it
   has read it: the same legal frames then arrive one per message. `WebRtcDialerState` keeps its
   handshake state between the calls of `register_response`, so every grouping of the frames
   into messages must lead to the same verdict. Here: the split of a reply into its frames, the
   groupings (a script of frame counts, 0 = an empty message), and the delivery loop of
   `on_outbound_opening_channel_data` (every message goes to `register_response`; NotReady waits
   for the next one). *)
From Coq Require Import List NArith Bool.
From V.C03 Require Import Model.
Import ListNotations.
Open Scope N_scope.

(* one varint-length-prefixed frame off the front *)
Definition take_frame (b : bytes) : option (bytes * bytes) :=
  match uvi_dec b with
  | None => None
  | Some (l, tail) =>
      if len tail <? l then None
      else let k := (length b - length tail + N.to_nat l)%nat in Some (firstn k b, skipn k b)
  end.

(* all frames of a payload; what does not parse stays as one last piece *)
Fixpoint split_frames (fuel : nat) (b : bytes) : list bytes :=
  match b with
  | [] => []
  | _ :: _ =>
      match fuel with
      | O => [b]
      | S f => match take_frame b with
               | None => [b]
               | Some (fr, rest) => fr :: split_frames f rest
               end
      end
  end.

(* messages made of the frames: script entry k > 0 = the next k frames in one message, 0 = an
   empty message; script exhausted = all remaining frames in one message. Nothing is delivered
   once the frames are used up. *)
Fixpoint group (gs : list N) (frames : list bytes) {struct gs} : list bytes :=
  match frames with
  | [] => []
  | _ :: _ =>
      match gs with
      | [] => [concat frames]
      | k :: gs' =>
          if k =? 0 then [] :: group gs' frames
          else concat (firstn (N.to_nat k) frames) :: group gs' (skipn (N.to_nat k) frames)
      end
  end.

(* the messages are handed to register_response one by one until it gives a verdict or fails;
   result: the handshake state and the result of every call made *)
Fixpoint wd_feed (proto : name) (w : bool) (msgs : list bytes) : bool * list wd_res :=
  match msgs with
  | [] => (w, [])
  | m :: t =>
      let '(w', r) := webrtc_dialer_register (S (length m)) proto w m in
      match r with
      | WDNotReady => let '(w'', rs) := wd_feed proto w' t in (w'', r :: rs)
      | _ => (w', [r])
      end
  end.
