(* C03 — unsigned varint (unsigned_varint::encode::u64 / decode::u64) round trip. *)
From Coq Require Import List NArith Bool Lia ZifyBool ZifyNat ZifyN.
From V.gen Require Import Consts.
From V.common Require Import Wire.
From V.C03 Require Import Model Proofs.
Import ListNotations.
Open Scope N_scope.

Arguments N.add : simpl never.
Arguments N.sub : simpl never.
Arguments N.eqb : simpl never.
Arguments N.ltb : simpl never.
Arguments N.leb : simpl never.
Arguments N.of_nat : simpl never.
Arguments N.modulo : simpl never.
Arguments N.div : simpl never.
Arguments N.min : simpl never.
Arguments N.pow : simpl never.
Arguments N.mul : simpl never.

(* ------------------------------------------------------------------ encoder shape *)
Lemma uvi_enc_f_small : forall f n, n < 128 -> uvi_enc_f (S f) n = [n].
Proof.
  intros f n H. cbn [uvi_enc_f]. destruct (n <? 128) eqn:E; [reflexivity|lia].
Qed.

Lemma uvi_enc_f_big : forall f n, 128 <= n ->
  uvi_enc_f (S f) n = (128 + n mod 128) :: uvi_enc_f f (n / 128).
Proof.
  intros f n H. cbn [uvi_enc_f]. destruct (n <? 128) eqn:E; [lia|reflexivity].
Qed.

Lemma uvi_enc_small : forall n, n < 128 -> uvi_enc n = [n].
Proof. intros n H. unfold uvi_enc. apply uvi_enc_f_small. exact H. Qed.

Lemma uvi_enc_f_nonempty : forall f n, uvi_enc_f (S f) n <> [].
Proof. intros f n. cbn [uvi_enc_f]. destruct (n <? 128); discriminate. Qed.

Lemma uvi_enc_nonempty : forall n, uvi_enc n <> [].
Proof. intros n. unfold uvi_enc. apply uvi_enc_f_nonempty. Qed.

Lemma uvi_enc_f_len : forall f n, (length (uvi_enc_f f n) <= f)%nat.
Proof.
  induction f as [|f IH]; intros n; [cbn; lia|].
  cbn [uvi_enc_f]. destruct (n <? 128); cbn [length]; [lia|].
  specialize (IH (n / 128)). lia.
Qed.

Lemma uvi_enc_len : forall n, 1 <= len (uvi_enc n) <= 10.
Proof.
  intros n. pose proof (uvi_enc_f_len 10 n) as H. pose proof (uvi_enc_nonempty n) as H0.
  unfold uvi_enc in *. unfold len.
  destruct (uvi_enc_f 10 n) as [|x l]; [congruence|]. cbn [length] in *. lia.
Qed.

(* every byte of an encoding is a byte *)
Lemma uvi_enc_f_bytes : forall f n, Forall (fun b => b < 256) (uvi_enc_f f n).
Proof.
  induction f as [|f IH]; intros n; [constructor|].
  cbn [uvi_enc_f]. destruct (n <? 128) eqn:E.
  - constructor; [lia|constructor].
  - constructor; [|apply IH]. pose proof (N.mod_lt n 128 ltac:(lia)). lia.
Qed.

(* ------------------------------------------------------------------ round trip *)
Lemma pow128_succ : forall k, 128 ^ N.of_nat (S k) = 128 * 128 ^ N.of_nat k.
Proof.
  intros k. replace (N.of_nat (S k)) with (N.succ (N.of_nat k)) by lia.
  apply N.pow_succ_r'.
Qed.

Lemma uvi_dec_enc_f : forall f n t i shift acc,
  n < 128 ^ N.of_nat (S f) -> i + N.of_nat (S f) <= 10 -> shift = 7 * i ->
  (n <> 0 \/ i = 0) ->
  uvi_dec_f (uvi_enc_f (S f) n ++ t) i shift acc = Some ((acc + n * 2 ^ shift) mod 2 ^ 64, t).
Proof.
  induction f as [|f IH]; intros n t i shift acc Hn Hi Hs Hz.
  - assert (Hn' : n < 128) by (change (128 ^ N.of_nat 1) with 128 in Hn; exact Hn).
    rewrite uvi_enc_f_small by exact Hn'. cbn [app uvi_dec_f].
    destruct (n <? 128) eqn:E; [|lia].
    rewrite (N.mod_small n 128) by exact Hn'.
    destruct ((n =? 0) && (0 <? i)) eqn:E2; [lia|reflexivity].
  - destruct (N.lt_ge_cases n 128) as [Hsm|Hbg].
    + rewrite uvi_enc_f_small by exact Hsm. cbn [app uvi_dec_f].
      destruct (n <? 128) eqn:E; [|lia].
      rewrite (N.mod_small n 128) by exact Hsm.
      destruct ((n =? 0) && (0 <? i)) eqn:E2; [lia|reflexivity].
    + rewrite uvi_enc_f_big by exact Hbg.
      cbn [app uvi_dec_f].
      assert (Hm : n mod 128 < 128) by (apply N.mod_lt; lia).
      destruct (128 + n mod 128 <? 128) eqn:E1; [lia|].
      destruct (i =? 9) eqn:E9; [lia|].
      assert (Hb : (128 + n mod 128) mod 128 = n mod 128).
      { rewrite N.add_mod by lia. rewrite N.mod_same by lia. rewrite N.add_0_l.
        rewrite N.mod_mod by lia. apply N.mod_mod. lia. }
      rewrite Hb.
      assert (Hd : n / 128 < 128 ^ N.of_nat (S f)).
      { apply N.div_lt_upper_bound; [lia|]. rewrite <- pow128_succ. exact Hn. }
      assert (Hd1 : 1 <= n / 128) by (apply N.div_le_lower_bound; lia).
      rewrite (IH (n / 128) t (i + 1) (shift + 7) (acc + n mod 128 * 2 ^ shift)); try lia.
      f_equal. f_equal. f_equal.
      rewrite N.pow_add_r. change (2 ^ 7) with 128.
      pose proof (N.div_mod n 128 ltac:(lia)) as Hdm.
      set (q := n / 128) in *. set (r := n mod 128) in *. set (P := 2 ^ shift).
      clearbody q r P. subst n. lia.
Qed.

Lemma uvi_roundtrip : forall n t, n < 2 ^ 64 -> uvi_dec (uvi_enc n ++ t) = Some (n, t).
Proof.
  intros n t H. unfold uvi_dec, uvi_enc.
  rewrite (uvi_dec_enc_f 9 n t 0 0 0).
  - change (2 ^ 0) with 1. rewrite N.add_0_l, N.mul_1_r, N.mod_small by exact H. reflexivity.
  - eapply N.lt_trans; [exact H|]. reflexivity.
  - lia.
  - reflexivity.
  - right. reflexivity.
Qed.

(* a length prefix never vanishes: decoding an encoding with nothing after it leaves nothing *)
Lemma uvi_roundtrip_nil : forall n, n < 2 ^ 64 -> uvi_dec (uvi_enc n) = Some (n, []).
Proof. intros n H. rewrite <- (app_nil_r (uvi_enc n)). apply uvi_roundtrip. exact H. Qed.

(* lengths below 2^14 (in particular everything up to MAX_FRAME_SIZE) take at most two bytes *)
Lemma uvi_enc_len2 : forall n, n < 16384 -> len (uvi_enc n) <= 2.
Proof.
  intros n H. destruct (N.lt_ge_cases n 128) as [Hsm|Hbg].
  - rewrite uvi_enc_small by exact Hsm. unfold len. cbn [length]. lia.
  - unfold uvi_enc. rewrite uvi_enc_f_big by exact Hbg.
    rewrite uvi_enc_f_small by (apply N.div_lt_upper_bound; lia).
    unfold len. cbn [length]. lia.
Qed.
