(* C03 — message-based (WebRTC) variant: the grouping of a listener's reply into messages is
   irrelevant (WGroup.v), and the trace oracle of the session mode (Glue.ok4, written from ground
   truth) accepts exactly what the model of the session produces, for every grouping. *)
From Coq Require Import List PeanoNat NArith Bool Lia ZifyBool ZifyNat ZifyN.
From V.gen Require Import Consts.
From V.common Require Import Wire.
From V.C03 Require Import Model Proofs UviProofs LsProofs WebRtc WebRtcProofs WGroup.
From V.C03 Require Glue.
Import ListNotations.
Open Scope N_scope.

Arguments N.add : simpl never.
Arguments N.sub : simpl never.
Arguments N.eqb : simpl never.
Arguments N.ltb : simpl never.
Arguments N.leb : simpl never.
Arguments N.of_nat : simpl never.
Arguments N.modulo : simpl never.
Arguments N.div : simpl never.
Arguments N.min : simpl never.
Arguments N.pow : simpl never.
Arguments N.mul : simpl never.

(* ------------------------------------------------------------------ frames of a reply *)
Lemma take_frame_msg : forall m rest, len (encode_msg m) < 2 ^ 64 ->
  take_frame (msg_part m ++ rest) = Some (msg_part m, rest).
Proof.
  intros m rest Hl. unfold take_frame, msg_part. rewrite <- app_assoc.
  rewrite uvi_roundtrip by exact Hl.
  destruct (len (encode_msg m ++ rest) <? len (encode_msg m)) eqn:E.
  { rewrite len_app in E. lia. }
  cbv zeta.
  replace (length (uvi_enc (len (encode_msg m)) ++ encode_msg m ++ rest)
           - length (encode_msg m ++ rest) + N.to_nat (len (encode_msg m)))%nat
    with (length (uvi_enc (len (encode_msg m)) ++ encode_msg m))
    by (rewrite !app_length; unfold len; lia).
  rewrite app_assoc, firstn_app_exact, skipn_app_exact. reflexivity.
Qed.

Lemma split_frames_nil : forall f, split_frames f [] = [].
Proof. destruct f; reflexivity. Qed.

Lemma split_one : forall m rest f, len (encode_msg m) < 2 ^ 64 -> f <> O ->
  split_frames f (msg_part m ++ rest) = msg_part m :: split_frames (pred f) rest.
Proof.
  intros m rest f Hl Hf. destruct f as [|f]; [congruence|]. cbn [pred].
  pose proof (msg_part_nonempty m rest) as Hne.
  destruct (msg_part m ++ rest) as [|b t] eqn:E; [congruence|].
  cbn [split_frames]. rewrite <- E, take_frame_msg by exact Hl. reflexivity.
Qed.

Lemma msg_part_length_pos : forall m (rest : bytes), length (msg_part m ++ rest) <> O.
Proof.
  intros m rest. pose proof (msg_part_nonempty m rest) as Hne.
  destruct (msg_part m ++ rest); [congruence|discriminate].
Qed.

Lemma hdr_bound : len (encode_msg MHeader) < 2 ^ 64.
Proof. reflexivity. Qed.

(* a legal reply splits into exactly its frames *)
Lemma split_reply : forall (first : bool) v, len (encode_msg v) < 2 ^ 64 ->
  split_frames (length ((if first then hdr_part else []) ++ msg_part v))
               ((if first then hdr_part else []) ++ msg_part v) =
  (if first then [hdr_part] else []) ++ [msg_part v].
Proof.
  intros first v Hl. rewrite <- (app_nil_r (msg_part v)).
  destruct first; cbn [app].
  - unfold hdr_part at 2. rewrite split_one; [|exact hdr_bound|apply msg_part_length_pos].
    fold hdr_part. rewrite hdr_app_length. cbn [pred].
    rewrite split_one; [|exact Hl|].
    + rewrite split_frames_nil, ?app_nil_r. reflexivity.
    + pose proof (msg_part_length_pos v []). lia.
  - rewrite split_one; [|exact Hl|apply msg_part_length_pos].
    rewrite split_frames_nil, ?app_nil_r. reflexivity.
Qed.

(* ------------------------------------------------------------------ groupings *)
Lemma group_nil : forall gs, group gs [] = [].
Proof. destruct gs; reflexivity. Qed.

Lemma group_nonempty : forall gs a t, group gs (a :: t) <> [].
Proof.
  intros [|k gs] a t; cbn [group]; [discriminate|]. destruct (k =? 0); discriminate.
Qed.

Lemma repeat_shift : forall (m : bytes) (l : list bytes), l <> [] ->
  forall (vr : wd_res),
  WDNotReady :: repeat WDNotReady (length l - 1) ++ [vr] =
  repeat WDNotReady (length (m :: l) - 1) ++ [vr].
Proof.
  intros m l Hne vr. destruct l as [|b l]; [congruence|]. cbn [length].
  rewrite !Nat.sub_succ, !Nat.sub_0_r. reflexivity.
Qed.

Section Feed.
  Variable cur : name.
  Variable x : bytes.          (* the verdict frame *)
  Variable vr : wd_res.        (* what the dialer, header seen, makes of it *)
  Hypothesis Hx : forall f rest, webrtc_dialer_register (S f) cur true (x ++ rest) = (true, vr).
  Hypothesis Hvr : vr <> WDNotReady.

  Lemma feed_last : forall m, webrtc_dialer_register (S (length m)) cur true m = (true, vr) ->
    wd_feed cur true [m] = (true, [vr]).
  Proof.
    intros m H. cbn [wd_feed]. rewrite H. destruct vr; try congruence; reflexivity.
  Qed.

  (* header already seen: empty messages are skipped with NotReady, the verdict frame decides *)
  Lemma feed_verdict : forall gs,
    wd_feed cur true (group gs [x]) =
    (true, repeat WDNotReady (length (group gs [x]) - 1) ++ [vr]).
  Proof.
    induction gs as [|k gs IH].
    - cbn [group concat]. rewrite feed_last by apply Hx. reflexivity.
    - cbn [group]. destruct (k =? 0) eqn:E.
      + cbn [wd_feed length webrtc_dialer_register]. rewrite IH.
        rewrite (repeat_shift [] (group gs [x])) by apply group_nonempty. reflexivity.
      + destruct (N.to_nat k) as [|n] eqn:K; [lia|].
        cbn [firstn skipn]. rewrite firstn_nil, skipn_nil, group_nil. cbn [concat].
        rewrite feed_last by apply Hx. reflexivity.
  Qed.

  Lemma feed_hdr_verdict_one : wd_feed cur false [hdr_part ++ x ++ []] = (true, [vr]).
  Proof.
    cbn [wd_feed]. rewrite dialer_hdr, hdr_app_length, Hx.
    destruct vr; try congruence; reflexivity.
  Qed.

  (* nothing seen yet: the header echo alone leaves the dialer waiting (NotReady) and the state
     is kept for the next message *)
  Lemma feed_hdr_verdict : forall gs, hd 1 gs <> 0 ->
    wd_feed cur false (group gs [hdr_part; x]) =
    (true, repeat WDNotReady (length (group gs [hdr_part; x]) - 1) ++ [vr]).
  Proof.
    intros [|k gs] Hc.
    - cbn [group concat]. rewrite feed_hdr_verdict_one. reflexivity.
    - cbn [hd] in Hc. cbn [group]. destruct (k =? 0) eqn:E; [lia|].
      destruct (N.to_nat k) as [|[|n]] eqn:K; [lia| |].
      + cbn [firstn skipn concat wd_feed].
        rewrite dialer_hdr, hdr_app_length. cbn [webrtc_dialer_register].
        rewrite feed_verdict.
        rewrite (repeat_shift (hdr_part ++ []) (group gs [x])) by apply group_nonempty.
        reflexivity.
      + cbn [firstn skipn]. rewrite firstn_nil, skipn_nil, group_nil. cbn [concat].
        refine (eq_trans feed_hdr_verdict_one _). reflexivity.
  Qed.
End Feed.

(* the verdict frames of a legal listener: `na`, or the confirmation of some valid name *)
Inductive legal_verdict : msg -> Prop :=
| lv_na : legal_verdict MNa
| lv_proto : forall q, wf_name q -> len q + 1 < 2 ^ 64 -> legal_verdict (MProto q).

Definition verdict_of (cur : name) (v : msg) : wd_res :=
  match v with
  | MNa => WDRejected
  | MProto q => if name_eqb cur q then WDSucceeded else WDErr 2
  | _ => WDErr 3
  end.

Lemma verdict_reads : forall cur v, legal_verdict v ->
  (forall f rest, webrtc_dialer_register (S f) cur true (msg_part v ++ rest) = (true, verdict_of cur v)) /\
  verdict_of cur v <> WDNotReady.
Proof.
  intros cur v [|q Hq Hl]; cbn [verdict_of]; split.
  - intros. apply dialer_wait_na.
  - discriminate.
  - intros. apply dialer_wait_proto; assumption.
  - destruct (name_eqb cur q); discriminate.
Qed.

Lemma legal_verdict_bound : forall v, legal_verdict v -> len (encode_msg v) < 2 ^ 64.
Proof. intros v [|q Hq Hl]; [reflexivity|]. rewrite enc_proto_len. exact Hl. Qed.

Definition reply_frames (first : bool) (v : msg) : list bytes :=
  (if first then [hdr_part] else []) ++ [msg_part v].

(* the single-message reading of the whole reply *)
Lemma register_whole : forall cur (first : bool) v, legal_verdict v ->
  webrtc_dialer_register (S (length (concat (reply_frames first v)))) cur (negb first)
                         (concat (reply_frames first v)) = (true, verdict_of cur v).
Proof.
  intros cur first v Hv. destruct (verdict_reads cur v Hv) as (Hx & _).
  destruct first; cbn [reply_frames app concat negb].
  - rewrite dialer_hdr, hdr_app_length. apply Hx.
  - apply Hx.
Qed.

(* GROUPING IS IRRELEVANT. A legal reply ([header echo +] verdict frame) is delivered under ANY
   grouping of its frames into messages (any script: frames one per message, all in one, empty
   messages in between; the only exclusion is an empty message in front of the header echo):
   every call of register_response but the last answers NotReady, and the last one gives exactly
   the state and the verdict that the reply delivered as ONE message gives. *)
Theorem webrtc_grouping_irrelevant : forall cur (first : bool) v gs,
  legal_verdict v -> (first = true -> hd 1 gs <> 0) ->
  let msgs := group gs (reply_frames first v) in
  let whole := webrtc_dialer_register (S (length (concat (reply_frames first v)))) cur (negb first)
                                      (concat (reply_frames first v)) in
  wd_feed cur (negb first) msgs =
  (fst whole, repeat WDNotReady (length msgs - 1) ++ [snd whole]).
Proof.
  intros cur first v gs Hv Hc msgs whole. subst msgs whole.
  rewrite register_whole by exact Hv. cbn [fst snd].
  destruct (verdict_reads cur v Hv) as (Hx & Hnr).
  destruct first; cbn [reply_frames app negb].
  - apply feed_hdr_verdict; [exact Hx|exact Hnr|apply Hc; reflexivity].
  - apply feed_verdict; assumption.
Qed.

(* ------------------------------------------------------------------ the session under groupings *)
Lemma wfw_b_wfw : forall p, Glue.wfw_b p = true -> wfw p.
Proof.
  intros p H. unfold Glue.wfw_b, Glue.wf_name in H.
  rewrite !andb_true_iff in H. destruct H as ((((Ha & Hb) & Hc) & Hd) & He).
  split; [repeat split|].
  - exact Ha.
  - apply negb_true_iff in Hb. exact Hb.
  - intros ->. rewrite name_eqb_refl in Hc. discriminate.
  - unfold fits. apply N.leb_le in He. exact He.
Qed.

Lemma forall_wfw_b : forall l, forallb Glue.wfw_b l = true -> Forall wfw l.
Proof.
  induction l as [|a l IH]; cbn [forallb]; intros H; [constructor|].
  apply andb_true_iff in H. destruct H as (Ha & Hl).
  constructor; [apply wfw_b_wfw; exact Ha|apply IH; exact Hl].
Qed.

Lemma l_find_find_idx : forall cur ls k,
  l_find (tag_from k ls) cur = option_map fst (Glue.find_idx (name_eqb cur) ls k).
Proof.
  intros cur ls. induction ls as [|a ls IH]; intros k; [reflexivity|].
  cbn [tag_from l_find Glue.find_idx]. destruct (name_eqb cur a); [reflexivity|apply IH].
Qed.

Lemma codes_shape : forall n (vr : wd_res),
  N.of_nat (length (repeat WDNotReady n ++ [vr])) :: map Glue.wd_code (repeat WDNotReady n ++ [vr]) =
  N.of_nat (S n) :: repeat 0 n ++ [Glue.wd_code vr].
Proof.
  intros n vr. rewrite app_length, repeat_length, map_app. cbn [length map].
  replace (n + 1)%nat with (S n) by lia. f_equal. f_equal.
  induction n as [|n IH]; [reflexivity|]. cbn [repeat map]. rewrite IH. reflexivity.
Qed.

Lemma group_length_pos : forall gs a t, (length (group gs (a :: t)) - 1 + 1 = length (group gs (a :: t)))%nat.
Proof.
  intros gs a t. pose proof (group_nonempty gs a t) as H.
  destruct (group gs (a :: t)); [congruence|]. cbn [length]. lia.
Qed.

Lemma run4_unfold : forall ls fs cur payload hdr waiting gss,
  Glue.run4 ls fs cur payload hdr waiting gss =
  let lr := webrtc_listener ls payload hdr in
  tl (Glue.trace1 lr) ++
  match lr with
  | WLErr _ => []
  | WLAccepted _ reply | WLRejected reply | WLPendingProtocol reply =>
      let msgs := group (hd [] gss) (split_frames (length reply) reply) in
      let '(w', rs) := wd_feed cur waiting msgs in
      (N.of_nat (length rs) :: map Glue.wd_code rs) ++
      match lr, last rs WDNotReady with
      | (WLRejected _ | WLPendingProtocol _), WDRejected =>
          match fs with
          | [] => [1; 0]
          | f :: fs' =>
              match Glue.propose_msg f false with
              | Some m => [1; 1] ++ Glue.enc_bytes m ++ Glue.run4 ls fs' f m true w' (tl gss)
              | None => [1; 2]
              end
          end
      | _, _ => []
      end
  end.
Proof. intros ls [|f fs]; reflexivity. Qed.

Lemma clean_hd : forall gss, Glue.clean4 gss = true -> hd 1 (hd [] gss) <> 0.
Proof.
  intros [|[|k gs] gss]; cbn [Glue.clean4 hd]; intros H; try lia.
Qed.

Lemma map_code_repeat : forall n, map Glue.wd_code (repeat WDNotReady n) = repeat 0 n.
Proof. induction n as [|n IH]; [reflexivity|]. cbn [repeat map]. rewrite IH. reflexivity. Qed.

Ltac fin4 :=
  rewrite ?app_length, ?repeat_length, ?map_app, ?map_code_repeat;
  cbn [length map Glue.wd_code]; rewrite ?group_length_pos; rewrite <- ?app_assoc; reflexivity.

(* one round of the session model = one round of the ground-truth specification *)
Lemma run4_spec : forall ls fs cur (first : bool) gss, Forall wfw (cur :: fs) ->
  (first = true -> Glue.clean4 gss = true) ->
  Glue.run4 (tag_from 0 ls) fs cur ((if first then hdr_part else []) ++ msg_part (MProto cur))
            (negb first) (negb first) gss =
  Glue.spec4 ls fs cur first gss.
Proof.
  intros ls fs. induction fs as [|f fs IH]; intros cur first gss H Hc;
    inversion H as [|? ? Hw Hfs]; subst;
    pose proof Hw as (Hwf & Hf); pose proof (fits_bound cur Hf) as Hl;
    (assert (El : webrtc_listener (tag_from 0 ls) ((if first then hdr_part else []) ++ msg_part (MProto cur))
                    (negb first) = wl_finish (tag_from 0 ls) cur first [])
      by (destruct first; cbn [negb app]; rewrite <- (app_nil_r (msg_part (MProto cur)));
          [apply listener_hdr_proto|apply listener_proto]; assumption));
    rewrite wl_finish_nil in El by exact Hf;
    rewrite run4_unfold; cbv zeta; rewrite El; rewrite l_find_find_idx;
    cbn [Glue.spec4];
    destruct (Glue.find_idx (name_eqb cur) ls 0) as [[i q]|] eqn:Ef; cbn [option_map fst];
    cbn [Glue.trace1 tl app].
  1, 3:
    rewrite split_reply by (rewrite enc_proto_len; exact Hl);
    pose proof (webrtc_grouping_irrelevant cur first (MProto cur) (hd [] gss)
                  (lv_proto cur Hwf Hl)
                  (fun E => clean_hd gss (Hc E))) as G;
    cbv zeta in G; rewrite register_whole in G by (apply lv_proto; assumption);
    cbn [fst snd verdict_of] in G; rewrite name_eqb_refl in G;
    unfold reply_frames in G; rewrite G; clear G;
    unfold Glue.verdict_codes, Glue.reply_frames, Glue.wpart; fold (msg_part MHeader); fold hdr_part;
    fold (msg_part (MProto cur));
    destruct first; cbn [app concat]; rewrite ?app_nil_r; fin4.
  (* rejected *)
  all: rewrite split_reply by reflexivity;
    pose proof (webrtc_grouping_irrelevant cur first MNa (hd [] gss) lv_na
                  (fun E => clean_hd gss (Hc E))) as G;
    cbv zeta in G; rewrite register_whole in G by constructor;
    cbn [fst snd verdict_of] in G;
    unfold reply_frames in G; rewrite G; clear G;
    rewrite last_last;
    unfold Glue.verdict_codes, Glue.reply_frames, Glue.wpart; fold (msg_part MHeader); fold hdr_part;
    fold (msg_part MNa).
  - destruct first; cbn [app concat]; rewrite ?app_nil_r; fin4.
  - inversion Hfs as [|? ? Hwf' Hfs']; subst.
    assert (Ep : Glue.propose_msg f false = Some (msg_part (MProto f))).
    { unfold Glue.propose_msg. destruct Hwf' as ((Hs & _) & Hff). rewrite Hs.
      apply (webrtc_encode_proto f false Hff). }
    rewrite Ep.
    pose proof (IH f false (tl gss) Hfs (fun E => False_ind _ (Bool.diff_false_true E))) as IH'.
    cbn [negb app] in IH'. rewrite IH'.
    fold (msg_part (MProto f)).
    destruct first; cbn [app concat]; rewrite ?app_nil_r; fin4.
Qed.

(* THE TIE: on the domain where the trace oracle of the session mode demands the ground-truth
   trace (well-formed names, no empty message in front of the header echo), the model's trace IS
   that trace - for every listener list, every fallback list and EVERY grouping of every reply. *)
Theorem webrtc_grouped_session_spec : forall p fs ls gss,
  forallb Glue.wfw_b (p :: fs) = true -> Glue.clean4 gss = true ->
  Glue.propose_msg p true = Some (hdr_part ++ msg_part (MProto p)) /\
  [1; 0] ++ Glue.enc_bytes (hdr_part ++ msg_part (MProto p)) ++
    Glue.run4 (tag_from 0 ls) fs p (hdr_part ++ msg_part (MProto p)) false false gss =
  1 :: Glue.spec4_trace p fs ls gss.
Proof.
  intros p fs ls gss Hw Hc. apply forall_wfw_b in Hw.
  pose proof Hw as Hw'. inversion Hw' as [|? ? ((Hs & _) & Hf) _]; subst.
  split.
  - unfold Glue.propose_msg. rewrite Hs. apply (webrtc_encode_proto p true Hf).
  - pose proof (run4_spec ls fs p true gss Hw (fun _ => Hc)) as R. cbn [negb] in R.
    rewrite R. reflexivity.
Qed.

(* hence the oracle accepts the model's session trace *)
Theorem webrtc_session_oracle_accepts_model : forall p fs ls gss tb,
  forallb Glue.wfw_b (p :: fs) = true -> Glue.clean4 gss = true ->
  (match Glue.propose_msg p true with
   | Some m => [1; 0] ++ Glue.enc_bytes m ++ Glue.run4 (tag_from 0 ls) fs p m false false gss
   | None => [1; 1]
   end) = 1 :: tb ->
  Glue.ok4 p fs ls gss tb = true /\ tb = Glue.spec4_trace p fs ls gss.
Proof.
  intros p fs ls gss tb Hw Hc E.
  destruct (webrtc_grouped_session_spec p fs ls gss Hw Hc) as (Ep & Et).
  rewrite Ep, Et in E. inversion E; subst. split; [|reflexivity].
  unfold Glue.ok4. rewrite Hw, Hc. cbn [andb].
  generalize (Glue.spec4_trace p fs ls gss). induction l as [|a l IHl]; [reflexivity|].
  cbn [list_eqb]. rewrite N.eqb_refl. exact IHl.
Qed.
