(* C03 — a substream opened with fallback names between two real nodes (mode 8 of the harness:
   two Litep2p instances over loopback TCP / WebSocket, request-response protocols with fallback
   names on both, one request): `open_substream` proposes `main :: fallback_names` of the sending
   protocol, `accept_substream` offers the names of the listener's ProtocolSet, both ends report
   the negotiated name through `report_substream_open`; the request-response events carry the
   fallback that was used. Executable model and trace oracle, definitions only.

   case (after the tag 8):  transport pool cfgA cfgB k
     transport 0 = TCP, 1 = WebSocket (ignored by the model)
     pool, cfgA, cfgB as in Fallback.v (names ASCII, valid protocol names, at most 64 bytes;
     1-4 entries per node; both configurations well-formed: wf_cfgb)
     k = which protocol of node A sends the request
   trace:  1 outcome a_fb b_main b_fb
     outcome 0 = A received the response, 1 = A's request failed
     a_fb   = 0 | 1 + pool index of the fallback reported to A with the response
     b_main = 0 | 1 + pool index of the main name of the protocol of B that received the request
     b_fb   = 0 | 1 + pool index of the fallback reported to B with the request
   invalid case: trace 0 *)
From Coq Require Import List NArith Bool.
From V.common Require Import Wire.
From V.C03 Require Import Model Fallback.
Import ListNotations.
Open Scope N_scope.

Definition sub_name_ok (n : name) : bool :=
  ascii n && starts_slash n && negb (has_nl n) && negb (name_eqb n HEADER_NAME) && (len n <=? 64).

Record scase := mkSC { sc_pool : list name; sc_a : config; sc_b : config; sc_k : N }.

Definition cfg_size_ok (cfg : config) : bool :=
  (1 <=? N.of_nat (length cfg)) && (N.of_nat (length cfg) <=? 4).

Definition sub_decode (l : list N) : option scase :=
  match pall (let* _ := pN in
              let* pool := plist fb_p_name in
              let* ea := plist fb_p_entry in
              let* eb := plist fb_p_entry in
              let* k := pN in pret (pool, ea, eb, k)) l with
  | Some (pool, ea, eb, k) =>
      if forallb sub_name_ok pool then
        match omap (fb_res_entry pool) ea, omap (fb_res_entry pool) eb with
        | Some ca, Some cb =>
            if cfg_size_ok ca && cfg_size_ok cb && wf_cfgb ca && wf_cfgb cb && (k <? N.of_nat (length ca))
            then Some (mkSC pool ca cb k) else None
        | _, _ => None
        end
      else None
  | None => None
  end.

Definition opt_idx (pool : list name) (o : option name) : N :=
  match o with None => 0 | Some n => 1 + canon pool n end.

Definition run_sub (l : list N) : list N :=
  match sub_decode l with
  | None => [0]
  | Some c =>
      match nth_error (sc_a c) (N.to_nat (sc_k c)) with
      | None => [0]
      | Some (m, fs) =>
          match find (fun x => mem x (offered (sc_b c))) (m :: fs) with
          | None => [1; 1; 0; 0; 0]
          | Some n =>
              let afb := if name_eqb n m then None else Some n in
              match report (sc_b c) n with
              | Some (bm, bfb) => [1; 0; opt_idx (sc_pool c) afb; 1 + canon (sc_pool c) bm; opt_idx (sc_pool c) bfb]
              | None => [1; 2; 0; 0; 0]
              end
          end
      end
  end.

(* the oracle: judged on the trace with the specification of Fallback.v (`spec`, not the table) *)
Definition idx_name (pool : list name) (i : N) : option (option name) :=
  if i =? 0 then Some None
  else match fb_nth pool (i - 1) with Some n => Some (Some n) | None => None end.

Fixpoint before_unoffered (cfgb : config) (names : list name) (n : name) : bool :=
  match names with
  | [] => false
  | x :: t => if name_eqb x n then true else negb (mem x (offered cfgb)) && before_unoffered cfgb t n
  end.

Definition ok_sub (case trace : list N) : bool :=
  match sub_decode case, trace with
  | None, [0] => true
  | Some c, [1; outcome; afb; bmain; bfb] =>
      match nth_error (sc_a c) (N.to_nat (sc_k c)) with
      | None => false
      | Some (m, fs) =>
          if outcome =? 0 then
            match idx_name (sc_pool c) afb, idx_name (sc_pool c) bmain, idx_name (sc_pool c) bfb with
            | Some a, Some (Some bm), Some b =>
                (* the negotiated name: the fallback reported to A, else A's main name *)
                let n := match a with Some f => f | None => m end in
                (* a reported fallback is one of the declared fallbacks, never the main name *)
                match a with Some f => mem f fs && negb (name_eqb f m) | None => true end &&
                (* the most preferred name of main :: fallbacks that B offers *)
                mem n (offered (sc_b c)) && before_unoffered (sc_b c) (m :: fs) n &&
                (* B delivered it to the protocol that declares it, with the fallback *)
                res_eqb (Some (bm, b)) (spec (sc_b c) n)
            | _, _, _ => false
            end
          else
            (* a failure only when B offers none of A's names; nothing was delivered at B *)
            (outcome =? 1) && negb (existsb (fun x => mem x (offered (sc_b c))) (m :: fs)) &&
            (bmain =? 0) && (bfb =? 0) && (afb =? 0)
      end
  | _, _ => false
  end.
