(* C03 — the timeout wrapper around a negotiation, as the transports call it
   (src/transport/tcp/connection.rs and src/transport/websocket/connection.rs, `negotiate_protocol`:
   `tokio::time::timeout(substream_open_timeout, dialer_select_proto(..) | listener_select_proto(..))`).
   Executable model, definitions only.

   `tokio::time::timeout` polls the wrapped future FIRST and looks at its deadline only when that
   poll was Pending; the deadline is fixed when the wrapper is created, i.e. at the first poll of
   `negotiate_protocol` (an `async fn` runs nothing before its first poll). When the deadline has
   passed the wrapper yields `Elapsed` -> `NegotiationError::Timeout`, and the negotiation future,
   which owns the stream, is dropped: the outbound direction is closed, whatever part of a frame had
   been written stays on the wire, nothing more is read.

   The model layers this on top of the two-ended system of Model.v without touching it: a global
   clock, one deadline per side, and an `abort` that replaces the task of the timed-out side by a
   finished task with result (C_TIMEOUT, 0) and closes its outbound pipe. Events are polls of either
   side and ticks of the clock, in any order. *)
From Coq Require Import List NArith Bool.
From V.common Require Import Wire.
From V.C03 Require Import Model.
Import ListNotations.
Open Scope N_scope.

Definition C_TIMEOUT : N := 9.

Inductive tev := EPoll (who : bool) | ETick.

Record tsys := mkT {
  ts_sys : sys;
  ts_now : N;                (* the clock *)
  ts_ddl : option N;         (* deadline of the dialer's wrapper, None before its first poll *)
  ts_ldl : option N }.

Definition in_neg (t : task) : bool := match t_ph t with TNeg _ => true | _ => false end.

Definition timed_out (t : task) : task :=
  mkTask TDone (t_payload t) (C_TIMEOUT, 0) (t_got t) (t_end t).

(* who = true: the listener *)
Definition abort_side (who : bool) (s : sys) : sys :=
  if who then mkSys (s_d s) (timed_out (s_l s)) (s_dl s) (pipe_close (s_ld s))
  else mkSys (timed_out (s_d s)) (s_l s) (pipe_close (s_dl s)) (s_ld s).

Definition side_task (who : bool) (s : sys) : task := if who then s_l s else s_d s.

Definition tstep (to_d to_l : N) (s : tsys) (e : tev) : tsys :=
  match e with
  | ETick => mkT (ts_sys s) (ts_now s + 1) (ts_ddl s) (ts_ldl s)
  | EPoll who =>
      if in_neg (side_task who (ts_sys s)) then
        let dl := match (if who then ts_ldl s else ts_ddl s) with
                  | Some d => d
                  | None => ts_now s + (if who then to_l else to_d)
                  end in
        let s1 := poll_side who (ts_sys s) in
        let s2 := if in_neg (side_task who s1) && (dl <=? ts_now s) then abort_side who s1 else s1 in
        if who then mkT s2 (ts_now s) (ts_ddl s) (Some dl) else mkT s2 (ts_now s) (Some dl) (ts_ldl s)
      else mkT (poll_side who (ts_sys s)) (ts_now s) (ts_ddl s) (ts_ldl s)
  end.

Definition trun (to_d to_l : N) (es : list tev) (s : tsys) : tsys := fold_left (tstep to_d to_l) es s.

Definition tinit (c : ncase) : tsys := mkT (sys_init c) 0 None None.

(* the scheduler of the harness: script entries 0 = poll the dialer, 1 = poll the listener,
   anything else = one tick of the clock; afterwards strict alternation of polls (no more ticks).
   Stops as run_sys does. *)
Definition ev_of (x : N) : tev := if x =? 0 then EPoll false else if x =? 1 then EPoll true else ETick.

Fixpoint run_tsys (to_d to_l : N) (fuel : nat) (sched : list N) (next : bool) (idle : N) (s : tsys)
  : tsys * N :=
  match fuel with
  | O => (s, 2)
  | S f =>
      if t_done (s_d (ts_sys s)) && t_done (s_l (ts_sys s)) then (s, 0)
      else if 4 <=? idle then (s, 1)
      else
        match sched with
        | [] =>
            let s1 := tstep to_d to_l s (EPoll next) in
            let idle' := if nlist_eqb (sys_sig (ts_sys s)) (sys_sig (ts_sys s1)) then idle + 1 else 0 in
            run_tsys to_d to_l f [] (negb next) idle' s1
        | x :: t =>
            let s1 := tstep to_d to_l s (ev_of x) in
            let next' := match ev_of x with EPoll who => negb who | ETick => next end in
            run_tsys to_d to_l f t next' 0 s1
        end
  end.

(* number of clock ticks in a schedule script *)
Definition ticks_of (sched : list N) : N :=
  N.of_nat (length (filter (fun x => negb (x =? 0) && negb (x =? 1)) sched)).
