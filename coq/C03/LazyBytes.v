(* C03 — the optimistic (V1Lazy) dialer's `Negotiated` stream in `State::Expecting`, at byte level
   and for every fragmentation: one `Negotiated::poll` (the engine behind poll_read) from any
   point of the expectation, against an inbound stream `header frame ++ answer frame ++ tail`
   of which any part may be available, under any read / write script.

   - the buffered header and proposal are written out, in order, before anything is read;
   - the poll consumes bytes of the two expected frames only: it stays inside them (Pending), or
     has consumed EXACTLY the two frames and delivers the verdict — Completed iff the answer is
     the confirmation of the proposed name, Failed / InvalidMessage otherwise with the stream
     left in the failed state — or the carrier was closed before the answer was complete
     (UnexpectedEof);
   - `tail` (the listener's application data) is never touched: after completion it is exactly
     what the carrier still holds, and the read that completed the negotiation returns its
     first bytes unchanged. *)
From Coq Require Import List Arith NArith Bool Lia ZifyBool ZifyNat ZifyN.
From V.gen Require Import Consts.
From V.common Require Import Wire.
From V.C03 Require Import Model Proofs Chan NegOps.
Import ListNotations.
Open Scope N_scope.

Arguments N.add : simpl never.
Arguments N.sub : simpl never.
Arguments N.eqb : simpl never.
Arguments N.ltb : simpl never.
Arguments N.leb : simpl never.
Arguments N.of_nat : simpl never.
Arguments N.min : simpl never.

(* how far into `header frame ++ answer frame` the expectation has read: `pre` is what was
   consumed so far *)
Inductive ExpAt (m : msg) : bool -> rstate -> bytes -> Prop :=
| EA_hdr : forall st pre, InFrame MSG_HEADER st pre -> ExpAt m true st pre
| EA_msg : forall st pre2, InFrame (encode_msg m) st pre2 -> ExpAt m false st (fr MHeader ++ pre2).

(* the verdict of `Negotiated::poll` on the answer m when p was proposed *)
Definition verdict (p : name) (m : msg) : pres :=
  match m with
  | MHeader => PErr C_INVMSG
  | MProto q => if name_eqb q p then POk else PErr C_FAILED
  | _ => PErr C_FAILED
  end.
Definition after_verdict (r : pres) : nego := match r with POk => NCompleted | _ => NInvalid end.

Lemma decode_header : decode_msg MSG_HEADER = DOk MHeader.
Proof. reflexivity. Qed.

Lemma fr_header : fr MHeader = frame MSG_HEADER.
Proof. reflexivity. Qed.

Lemma header_len_ok : len MSG_HEADER <= MAX_FRAME.
Proof. rewrite max_frame_val. cbv. discriminate. Qed.

Theorem lazy_expect_exact : forall p m tail, okmsg m ->
  forall fuel st wbuf hdr pre pin pout g' pin' pout' r,
  ExpAt m hdr st pre ->
  (exists fut, pre ++ p_buf pin ++ fut = fr MHeader ++ fr m ++ tail) ->
  neg_poll fuel (NExpecting st wbuf p hdr) pin pout = (g', pin', pout', r) ->
  exists consumed written w',
    p_buf pin = consumed ++ p_buf pin' /\ wbuf = written ++ w' /\ p_buf pout' = p_buf pout ++ written /\
    match r with
    | PPending => exists st' hdr', g' = NExpecting st' w' p hdr' /\ ExpAt m hdr' st' (pre ++ consumed)
    | _ =>
        (w' = [] /\ pre ++ consumed = fr MHeader ++ fr m /\ r = verdict p m /\ g' = after_verdict r) \/
        (r = PErr C_IO_EOF /\ p_closed pin = true /\ p_buf pin' = [] /\ g' = NInvalid)
    end.
Proof.
  intros p m tail [Hwf Hlen].
  induction fuel as [|f IH]; intros st wbuf hdr pre pin pout g' pin' pout' r HE Hag H.
  - cbn in H. injection H as <- <- <- <-. exists [], [], wbuf. rewrite !app_nil_r.
    repeat split; auto. exists st, hdr. auto.
  - cbn [neg_poll] in H.
    destruct (wr_drain (wr_fuel wbuf) wbuf pout) as [[w1 po1] ok] eqn:Ew.
    destruct (wr_drain_spec _ _ _ _ _ _ Ew) as (written & Hw & Hb & _ & _ & _ & Hok).
    destruct ok; cbn [negb] in H.
    2:{ injection H as <- <- <- <-. exists [], written, w1. rewrite !app_nil_r.
        repeat split; auto. exists st, hdr. auto. }
    specialize (Hok eq_refl). subst w1. rewrite app_nil_r in Hw. subst written.
    unfold msg_poll in H.
    destruct (rd_poll (rd_fuel pin) st pin) as [[st1 pi1] fres] eqn:Er.
    destruct Hag as (fut & Hag).
    destruct HE as [st pre HI | st pre2 HI].
    + (* inside the header frame *)
      assert (Ha : agrees MSG_HEADER (fr m ++ tail) pre (p_buf pin)).
      { exists fut. exact Hag. }
      destruct (frame_exact_weak MSG_HEADER (fr m ++ tail) header_len_ok _ _ _ _ _ _ _ HI Ha Er)
        as (consumed & Hc & Hcl & Hres).
      destruct fres as [| |b|e].
      * injection H as <- <- <- <-. exists consumed, wbuf, []. rewrite app_nil_r.
        repeat split; auto. exists st1, true. split; [reflexivity | apply EA_hdr; exact Hres].
      * destruct Hres as (-> & -> & Hbuf & Hclosed). injection H as <- <- <- <-.
        exists [], wbuf, []. rewrite !app_nil_r. repeat split; auto.
        right. rewrite Hc in Hbuf. cbn in Hbuf. repeat split; auto.
      * destruct Hres as (-> & Hfull & ->). rewrite decode_header in H.
        assert (HE' : ExpAt m false rd_init (pre ++ consumed)).
        { rewrite Hfull, <- fr_header. rewrite <- (app_nil_r (fr MHeader)) at 1.
          apply EA_msg. apply IF_start. }
        assert (Hag' : exists fut', (pre ++ consumed) ++ p_buf pi1 ++ fut' = fr MHeader ++ fr m ++ tail).
        { exists fut. rewrite <- Hag, Hc, <- !app_assoc. reflexivity. }
        destruct (IH _ _ _ _ _ _ _ _ _ _ HE' Hag' H) as (c2 & wr2 & w2 & Hc2 & Hw2 & Hb2 & Hres2).
        destruct wr2; [|discriminate Hw2]. cbn in Hw2. subst w2.
        exists (consumed ++ c2), wbuf, []. rewrite app_nil_r.
        split; [rewrite Hc, Hc2, app_assoc; reflexivity|]. split; [reflexivity|].
        split; [rewrite Hb2, Hb, app_nil_r; reflexivity|].
        rewrite app_assoc. rewrite Hcl in Hres2. exact Hres2.
      * destruct Hres as (-> & Hclosed & Hbuf & _). injection H as <- <- <- <-.
        exists consumed, wbuf, []. rewrite app_nil_r. repeat split; auto.
    + (* inside the answer frame *)
      assert (Ha : agrees (encode_msg m) tail pre2 (p_buf pin)).
      { exists fut. rewrite <- !app_assoc in Hag. apply app_inv_head in Hag. exact Hag. }
      destruct (frame_exact_weak (encode_msg m) tail Hlen _ _ _ _ _ _ _ HI Ha Er)
        as (consumed & Hc & Hcl & Hres).
      destruct fres as [| |b|e].
      * injection H as <- <- <- <-. exists consumed, wbuf, []. rewrite app_nil_r.
        repeat split; auto. exists st1, false. split; [reflexivity|].
        rewrite <- app_assoc. apply EA_msg. exact Hres.
      * destruct Hres as (-> & -> & Hbuf & Hclosed). injection H as <- <- <- <-.
        exists [], wbuf, []. rewrite !app_nil_r. repeat split; auto.
        right. rewrite Hc in Hbuf. cbn in Hbuf. repeat split; auto.
      * destruct Hres as (-> & Hfull & ->). rewrite (codec_roundtrip m Hwf) in H.
        assert (Hpre : (fr MHeader ++ pre2) ++ consumed = fr MHeader ++ fr m).
        { rewrite <- app_assoc, Hfull. reflexivity. }
        assert (G : forall rr, (after_verdict rr, pi1, po1, rr) = (g', pin', pout', r) -> rr = verdict p m ->
                  exists consumed written w',
                    p_buf pin = consumed ++ p_buf pin' /\ wbuf = written ++ w' /\
                    p_buf pout' = p_buf pout ++ written /\
                    match r with
                    | PPending => exists st' hdr', g' = NExpecting st' w' p hdr' /\
                                    ExpAt m hdr' st' ((fr MHeader ++ pre2) ++ consumed)
                    | _ => (w' = [] /\ (fr MHeader ++ pre2) ++ consumed = fr MHeader ++ fr m /\
                            r = verdict p m /\ g' = after_verdict r) \/
                           (r = PErr C_IO_EOF /\ p_closed pin = true /\ p_buf pin' = [] /\ g' = NInvalid)
                    end).
        { intros rr E Hv. injection E as <- <- <- <-. exists consumed, wbuf, []. rewrite app_nil_r.
          split; [exact Hc|]. split; [reflexivity|]. split; [exact Hb|].
          assert (Hnp : rr <> PPending).
          { rewrite Hv. unfold verdict. destruct m as [|q| |ps|]; try discriminate.
            destruct (name_eqb q p); discriminate. }
          destruct rr as [| |c]; [contradiction | |]; left; repeat split; auto. }
        destruct m as [|q| |ps|].
        -- apply (G (PErr C_INVMSG)); [exact H | reflexivity].
        -- destruct (name_eqb q p) eqn:En; [apply (G POk) | apply (G (PErr C_FAILED))]; auto;
             cbn [verdict]; rewrite En; reflexivity.
        -- apply (G (PErr C_FAILED)); [exact H | reflexivity].
        -- apply (G (PErr C_FAILED)); [exact H | reflexivity].
        -- apply (G (PErr C_FAILED)); [exact H | reflexivity].
      * destruct Hres as (-> & Hclosed & Hbuf & _). injection H as <- <- <- <-.
        exists consumed, wbuf, []. rewrite app_nil_r. repeat split; auto.
Qed.

Lemma ExpAt_within : forall m hdr st pre, len (encode_msg m) <= MAX_FRAME -> ExpAt m hdr st pre ->
  exists z, pre ++ z = fr MHeader ++ fr m.
Proof.
  intros m hdr st pre Hlen H. destruct H as [st pre HI | st pre2 HI].
  - destruct (InFrame_prefix _ _ _ header_len_ok HI) as (z & _ & E).
    exists (z ++ fr m). rewrite app_assoc, <- E. reflexivity.
  - destruct (InFrame_prefix _ _ _ Hlen HI) as (z & _ & E).
    exists z. rewrite <- app_assoc. unfold fr at 3. rewrite E. reflexivity.
Qed.

(* reads never change the closed flag of the pipe they read *)
Lemma pipe_read_closed_flag : forall p k p1 r, pipe_read p k = (p1, r) -> p_closed p1 = p_closed p.
Proof.
  intros p k p1 r H. unfold pipe_read in H. destruct (p_buf p); [injection H as <- _; reflexivity|].
  destruct (p_rscript p) as [|c s]; [injection H as <- _; reflexivity|].
  destruct (c =? 0); injection H as <- _; reflexivity.
Qed.

Lemma rd_poll_closed_flag : forall fuel st p st1 p1 r,
  rd_poll fuel st p = (st1, p1, r) -> p_closed p1 = p_closed p.
Proof.
  induction fuel as [|f IH]; intros st p st1 p1 r H; [cbn in H; congruence|].
  cbn [rd_poll] in H. destruct st as [buf|n acc].
  - destruct (pipe_read p 1) as [pb rb] eqn:Ep. pose proof (pipe_read_closed_flag _ _ _ _ Ep) as Hq.
    destruct rb as [| |bs]; try congruence.
    destruct (last bs 0 <? 128).
    + destruct (dec_len (buf ++ bs)) as [n|]; [|congruence].
      destruct (1 <=? n); [rewrite <- Hq; exact (IH _ _ _ _ _ H) | congruence].
    + destruct (len (buf ++ bs) =? C03_MAX_LEN_BYTES); [congruence|].
      rewrite <- Hq. exact (IH _ _ _ _ _ H).
  - destruct (pipe_read p (n - len acc)) as [pb rb] eqn:Ep. pose proof (pipe_read_closed_flag _ _ _ _ Ep) as Hq.
    destruct rb as [| |bs]; try congruence.
    destruct (len (acc ++ bs) =? n); [congruence|]. rewrite <- Hq. exact (IH _ _ _ _ _ H).
Qed.

Lemma neg_poll_closed_flag : forall fuel g pin pout g1 pi1 po1 r1,
  neg_poll fuel g pin pout = (g1, pi1, po1, r1) -> p_closed pi1 = p_closed pin.
Proof.
  induction fuel as [|f IH]; intros g pin pout g1 pi1 po1 r1 H; [cbn in H; congruence|].
  cbn [neg_poll] in H. destruct g as [|st wb p h|]; try congruence.
  destruct (wr_drain (wr_fuel wb) wb pout) as [[w1 poa] ok]. destruct ok; cbn [negb] in H; [|congruence].
  unfold msg_poll in H. destruct (rd_poll (rd_fuel pin) st pin) as [[sa pa] ra] eqn:Er.
  pose proof (rd_poll_closed_flag _ _ _ _ _ _ Er) as Hp.
  destruct ra as [| |b|e]; try congruence.
  destruct (decode_msg b) as [mm|e]; [|congruence].
  destruct mm as [|q| |ps|]; try congruence.
  - destruct h; [|congruence]. rewrite <- Hp. exact (IH _ _ _ _ _ _ _ H).
  - destruct (name_eqb q p); congruence.
Qed.

(* poll_read on the expecting stream: the read that completes the negotiation returns the first
   bytes of `tail`, unchanged; a failed expectation is reported by that read and leaves the stream
   failed with its outbound direction closed; nothing outside the two frames is consumed before *)
Theorem lazy_read_exact : forall p m tail k, okmsg m -> 1 <= k ->
  forall st wbuf hdr pre pin pout g' pin' pout' r,
  ExpAt m hdr st pre ->
  (exists fut, pre ++ p_buf pin ++ fut = fr MHeader ++ fr m ++ tail) ->
  op_read 2 k (NExpecting st wbuf p hdr) pin pout = (g', pin', pout', r) ->
  exists consumed, p_buf pin = consumed ++ p_buf pin' /\
  match r with
  | OData bs =>
      verdict p m = POk /\ g' = NCompleted /\ pre ++ consumed = fr MHeader ++ fr m ++ bs /\
      p_buf pout' = p_buf pout ++ wbuf /\ (bs = [] -> p_buf pin' = [] /\ p_closed pin = true)
  | OErr c =>
      g' = NInvalid /\ p_closed pout' = true /\
      ((exists c0, verdict p m = PErr c0 /\ c = io_code c0 /\ pre ++ consumed = fr MHeader ++ fr m) \/
       (c = C_IO_EOF /\ p_closed pin = true /\ p_buf pin' = []))
  | OPending => exists z, pre ++ consumed ++ z = fr MHeader ++ fr m
  | ODone _ => False
  end.
Proof.
  intros p m tail k Hok Hk st wbuf hdr pre pin pout g' pin' pout' r HE Hag H.
  cbn [op_read] in H. unfold neg_poll_drop in H.
  destruct (neg_poll (neg_fuel pin) (NExpecting st wbuf p hdr) pin pout) as [[[g1 pi1] po1] r1] eqn:En.
  destruct (lazy_expect_exact p m tail Hok _ _ _ _ _ _ _ _ _ _ _ HE Hag En)
    as (consumed & written & w' & Hc & Hw & Hb & Hres).
  destruct r1 as [| |c].
  - (* still expecting *)
    injection H as <- <- <- <-. exists consumed. split; [exact Hc|].
    destruct Hres as (st' & hdr' & _ & HE').
    destruct (ExpAt_within _ _ _ _ (proj2 Hok) HE') as (z & Hz). exists z. rewrite app_assoc. exact Hz.
  - (* completed: the read goes on to the carrier *)
    destruct Hres as [(-> & Hfull & Hv & ->) | (Hx & _)]; [|discriminate Hx].
    cbn [after_verdict op_read] in H.
    destruct (pipe_read pi1 k) as [pi2 rr] eqn:Er.
    destruct (pipe_read_spec _ _ _ _ Hk Er) as (Hcl & Hsp).
    rewrite app_nil_r in Hw. subst written.
    destruct rr as [| |bs]; injection H as <- <- <- <-.
    + exists consumed. split; [rewrite Hc, Hsp; reflexivity|]. exists []. rewrite app_nil_r. exact Hfull.
    + destruct Hsp as (B1 & B2 & B3). exists consumed. split; [rewrite Hc, B1, B2; reflexivity|].
      split; [symmetry; exact Hv|]. split; [reflexivity|].
      split; [rewrite Hfull, app_nil_r; reflexivity|]. split; [exact Hb|]. intros _.
      split; [exact B2|].
      rewrite <- (neg_poll_closed_flag _ _ _ _ _ _ _ _ En). exact B3.
    + destruct Hsp as (B1 & _). exists (consumed ++ bs). split; [rewrite Hc, B1, app_assoc; reflexivity|].
      split; [symmetry; exact Hv|]. split; [reflexivity|].
      split; [rewrite app_assoc, Hfull, <- app_assoc; reflexivity|]. split; [exact Hb|].
      intros ->. destruct (pipe_read_spec _ _ _ _ Hk Er) as (_ & _ & B2 & _). unfold len in B2. cbn [length] in B2. lia.
  - (* failed *)
    injection H as <- <- <- <-. exists consumed. split; [exact Hc|].
    destruct Hres as [(-> & Hfull & Hv & ->) | (Hx & Hcl & Hbuf & ->)].
    + split; [reflexivity|]. split; [reflexivity|]. left. exists c. auto.
    + split; [reflexivity|]. split; [reflexivity|]. right. injection Hx as ->. auto.
Qed.

(* poll_write / poll_flush / poll_close on the expecting stream: the buffered header and proposal
   go out first, in order; application bytes are accepted only once that buffer is empty and are
   appended after it; the inbound direction and the expectation are not touched *)
Theorem lazy_write_exact : forall op st wbuf p hdr pin pout g' pin' pout' r,
  (match op with OpRead _ => False | OpWrite d => d <> [] | _ => True end) ->
  op_poll op (NExpecting st wbuf p hdr) pin pout = (g', pin', pout', r) ->
  exists written w' app,
    pin' = pin /\ g' = NExpecting st w' p hdr /\ wbuf = written ++ w' /\
    p_buf pout' = p_buf pout ++ written ++ app /\ (app <> [] -> w' = []) /\
    match r with
    | OPending => app = []
    | ODone n =>
        w' = [] /\
        match op with
        | OpWrite d => app = firstn (N.to_nat n) d /\ 1 <= n
        | OpClose => app = [] /\ p_closed pout' = true
        | _ => app = []
        end
    | _ => False
    end.
Proof.
  intros op st wbuf p hdr pin pout g' pin' pout' r Hop H.
  destruct op as [k|d| |]; [contradiction| | |]; cbn [op_poll neg_drain] in H;
    destruct (wr_drain (wr_fuel wbuf) wbuf pout) as [[w1 po1] ok] eqn:Ew;
    destruct (wr_drain_spec _ _ _ _ _ _ Ew) as (written & Hw & Hb & _ & Hcl & _ & Hok);
    destruct ok.
  - specialize (Hok eq_refl). subst w1. rewrite app_nil_r in Hw.
    destruct (pipe_write po1 d) as [po2 w] eqn:Ep.
    destruct (pipe_write_spec _ _ _ _ Hop Ep) as (Hc2 & _ & Hs).
    injection H as <- <- <- <-. destruct w as [n|].
    + destruct Hs as (Hn & Hb2 & _).
      exists written, [], (firstn n d). rewrite app_nil_r. repeat split; auto.
      * rewrite Hb2, Hb, app_assoc. reflexivity.
      * rewrite Nat2N.id. reflexivity.
      * lia.
    + destruct Hs as (Hb2 & _). exists written, [], []. rewrite !app_nil_r. repeat split; auto.
      congruence.
  - injection H as <- <- <- <-. exists written, w1, []. rewrite app_nil_r. repeat split; auto.
    all: try (intros E; contradiction).
  - specialize (Hok eq_refl). subst w1. rewrite app_nil_r in Hw. injection H as <- <- <- <-.
    exists written, [], []. rewrite !app_nil_r. repeat split; auto.
  - injection H as <- <- <- <-. exists written, w1, []. rewrite app_nil_r. repeat split; auto.
    all: try (intros E; contradiction).
  - specialize (Hok eq_refl). subst w1. rewrite app_nil_r in Hw. injection H as <- <- <- <-.
    exists written, [], []. rewrite !app_nil_r. repeat split; auto.
  - injection H as <- <- <- <-. exists written, w1, []. rewrite app_nil_r. repeat split; auto.
    all: try (intros E; contradiction).
Qed.

(* a failed stream stays failed: every operation reports the error, nothing is read or written *)
Theorem neg_failed_sticky : forall op pin pout,
  exists pout', op_poll op NInvalid pin pout = (NInvalid, pin, pout', OErr NEG_GONE) /\
                p_buf pout' = p_buf pout /\ p_total pout' = p_total pout.
Proof.
  intros op pin pout. destruct op as [k|d| |].
  - exists (pipe_close pout). split; [|split; reflexivity].
    cbn [op_poll op_read]. unfold neg_poll_drop, neg_fuel. cbn [Nat.add neg_poll]. reflexivity.
  - exists pout. split; [reflexivity | split; reflexivity].
  - exists pout. split; [reflexivity | split; reflexivity].
  - exists pout. split; [reflexivity | split; reflexivity].
Qed.

(* a completed stream is the carrier itself *)
Theorem neg_completed_transparent : forall pin pout k d,
  op_poll (OpRead k) NCompleted pin pout =
    (let '(pi1, r) := pipe_read pin k in
     (NCompleted, pi1, pout, match r with RPending => OPending | REof => OData [] | RData bs => OData bs end)) /\
  op_poll (OpWrite d) NCompleted pin pout =
    (let '(po1, w) := pipe_write pout d in
     (NCompleted, pin, po1, match w with None => OPending | Some n => ODone (N.of_nat n) end)) /\
  op_poll OpFlush NCompleted pin pout = (NCompleted, pin, pout, ODone 0) /\
  op_poll OpClose NCompleted pin pout = (NCompleted, pin, pipe_close pout, ODone 0).
Proof. intros. repeat split. Qed.
