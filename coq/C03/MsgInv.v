(* C03 — further facts about reachable states of the message-level system, needed by the
   byte-level simulation: which messages can be in flight, that a finished side is never read
   past its last negotiation message (so application bytes are never parsed as frames), and
   the effect of k consecutive buffer-to-channel moves. *)
From Coq Require Import List NArith Bool Lia.
From V.common Require Import Wire.
From V.C03 Require Import Model Msg Proofs MsgRef MsgProofs.
Import ListNotations.

Definition Reach (ds ls : list name) (m : msys) : Prop :=
  exists sched, m = mrun ls sched (minit ds).

Lemma Reach_init : forall ds ls, Reach ds ls (minit ds).
Proof. intros. exists []. reflexivity. Qed.

Lemma Reach_run : forall ds ls m sched, Reach ds ls m -> Reach ds ls (mrun ls sched m).
Proof.
  intros ds ls m sched [s0 ->]. exists (s0 ++ sched). rewrite mrun_app. reflexivity.
Qed.

Lemma Reach_Inv : forall ds ls m, Reach ds ls m -> Inv m.
Proof. intros ds ls m [s ->]. apply Inv_run. apply Inv_init. Qed.

Lemma Reach_converge : forall ds ls m, wfd ds -> Reach ds ls m ->
  exists n F, reach ls n m F /\ final_ok ds ls F.
Proof. intros ds ls m Hw [s ->]. apply converge. exact Hw. Qed.

Lemma mrun_repeat_S : forall ls b k m,
  mrun ls (repeat b (S k)) m = mrun ls (repeat b k) (mtick ls m b).
Proof. reflexivity. Qed.

Lemma mrun_repeat_add : forall ls b j k m,
  mrun ls (repeat b (j + k)) m = mrun ls (repeat b k) (mrun ls (repeat b j) m).
Proof. intros. rewrite repeat_app, mrun_app. reflexivity. Qed.

(* ------------------------------------------------------------------ messages in flight *)
Definition dmsg (ds : list name) (x : msg) : Prop :=
  x = MHeader \/ exists p, x = MProto p /\ In p ds.
Definition lmsg (ds : list name) (x : msg) : Prop :=
  x = MHeader \/ x = MNa \/ exists p, x = MProto p /\ In p ds.

Definition dph_ok (ds : list name) (ph : mdphase) : Prop :=
  match ph with
  | MDSendProto p _ | MDFlush p _ | MDAwait p _ => In p ds
  | _ => True
  end.
Definition lph_ok (ds : list name) (ph : mlphase) : Prop :=
  match ph with MLSendMsg x _ => lmsg ds x | _ => True end.

Definition NM (ds : list name) (m : msys) : Prop :=
  Forall (dmsg ds) (c_dl m) /\ Forall (dmsg ds) (md_wbuf (sd m)) /\
  Forall (lmsg ds) (c_ld m) /\ Forall (lmsg ds) (ml_wbuf (sl m)) /\
  incl (md_rest (sd m)) ds /\ dph_ok ds (md_ph (sd m)) /\ lph_ok ds (ml_ph (sl m)).

Lemma NM_init : forall ds, NM ds (minit ds).
Proof.
  intros ds. unfold NM, minit. cbn. repeat split; try constructor. apply incl_refl.
Qed.

Ltac nm_solve :=
  repeat match goal with
         | |- _ /\ _ => split
         | H : Forall _ (_ :: _) |- _ => inversion H; subst; clear H
         | |- Forall _ (_ ++ _) => apply Forall_app; split
         | |- Forall _ [_] => constructor; [|constructor]
         | |- Forall _ [] => constructor
         | H : incl (_ :: _) _ |- _ =>
             let H1 := fresh in let H2 := fresh in
             assert (H1 := H _ (or_introl eq_refl));
             assert (H2 := fun x Hx => H x (or_intror Hx)); clear H
         end; auto.

Lemma NM_step_d : forall ds m, NM ds m -> NM ds (mstep_d m).
Proof.
  intros ds [[dph drest dw] [lph lw] cdl dlc cld ldc] (H1 & H2 & H3 & H4 & H5 & H6 & H7).
  unfold NM, mstep_d, set_d, d_fail in *. cbn in *.
  destruct dph as [|p hr|p hr|p hr|r]; cbn.
  - destruct drest as [|p r]; cbn; nm_solve. left. reflexivity.
  - destruct (starts_slash p); cbn; nm_solve. right. exists p. split; [reflexivity|assumption].
  - destruct dw as [|x dw]; cbn; nm_solve.
  - destruct cld as [|x cld]; cbn.
    + destruct ldc; cbn; nm_solve.
    + destruct (d_react p hr x); cbn; try (nm_solve; fail).
      destruct drest as [|p' r]; cbn; nm_solve.
  - nm_solve.
Qed.

Lemma NM_step_l : forall ds ls m, NM ds m -> NM ds (mstep_l ls m).
Proof.
  intros ds ls [[dph drest dw] [lph lw] cdl dlc cld ldc] (H1 & H2 & H3 & H4 & H5 & H6 & H7).
  unfold NM, mstep_l, set_l, l_fail in *. cbn in *.
  destruct lph as [| | |x o|o|r]; cbn.
  - destruct cdl as [|x cdl]; cbn.
    + destruct dlc; cbn; nm_solve.
    + destruct x; cbn; nm_solve.
  - nm_solve. left. reflexivity.
  - destruct cdl as [|x cdl]; cbn.
    + destruct dlc; cbn; nm_solve.
    + inversion H1 as [|? ? Hx Hr]; subst.
      destruct x as [|q| |qs|]; cbn; try (nm_solve; fail).
      * destruct (l_find (sup ls) q); cbn; nm_solve.
        -- destruct Hx as [Hx | (p & Hp & Hin)]; [discriminate|]. injection Hp as ->.
           right. right. exists p. split; [reflexivity | assumption].
        -- right. left. reflexivity.
      * destruct Hx as [Hx | (p & Hp & _)]; discriminate.
  - nm_solve.
  - destruct lw as [|x lw]; cbn.
    + destruct o; cbn; nm_solve.
    + nm_solve.
  - nm_solve.
Qed.

Lemma NM_reach : forall ds ls m, Reach ds ls m -> NM ds m.
Proof.
  intros ds ls m [sched ->]. revert sched.
  assert (G : forall sched m0, NM ds m0 -> NM ds (mrun ls sched m0)).
  { induction sched as [|b t IH]; intros m0 H; [exact H|].
    cbn. apply IH. destruct b; cbn; [apply NM_step_d | apply NM_step_l]; exact H. }
  intros sched. apply G. apply NM_init.
Qed.

(* the listener never sees an `ls` request, so no ls response is ever sent *)
Lemma dmsg_not_ls : forall ds, ~ dmsg ds MLs.
Proof. intros ds [H | (p & H & _)]; discriminate. Qed.

(* ------------------------------------------------------------------ a finished side is not
   read past its last negotiation message *)
Lemma both_done_final : forall ds ls m, wfd ds -> Reach ds ls m ->
  d_done m = true -> l_done m = true -> final_ok ds ls m.
Proof.
  intros ds ls m Hw Hr Hd Hl.
  destruct (Reach_converge ds ls m Hw Hr) as (n & F & Hreach & Hf).
  assert (HT : terminal m).
  { intros [|]; cbn; [apply d_done_disabled | apply l_done_disabled]; assumption. }
  destruct (reach_terminal_0 ls n m F HT Hreach) as [_ ->]. exact Hf.
Qed.

Lemma d_result_of_ph : forall m r, md_ph (sd m) = MDDone r -> d_result m = Some r.
Proof. intros m r H. unfold d_result. rewrite H. reflexivity. Qed.
Lemma l_result_of_ph : forall m r, ml_ph (sl m) = MLDone r -> l_result m = Some r.
Proof. intros m r H. unfold l_result. rewrite H. reflexivity. Qed.

Lemma handover_d : forall ds ls m p, wfd ds -> Reach ds ls m -> md_ph (sd m) = MDDone (Some p) ->
  c_ld m = [] /\ md_wbuf (sd m) = [] /\ dl_closed m = false /\ ld_closed m = false /\
  first_common ds ls = Some p.
Proof.
  intros ds ls m p Hw [sched ->] Hph.
  pose proof (d_result_of_ph _ _ Hph) as Hres.
  pose proof (handover_dialer ds ls sched p Hw Hres) as (A & B & C & D).
  pose proof (agreement_dialer ds ls sched _ Hw Hres) as E.
  repeat split; auto.
Qed.

Lemma handover_l : forall ds ls m p, wfd ds -> Reach ds ls m -> ml_ph (sl m) = MLDone (Some p) ->
  c_dl m = [] /\ ml_wbuf (sl m) = [] /\ dl_closed m = false /\ ld_closed m = false /\
  first_common ds ls = Some p.
Proof.
  intros ds ls m p Hw [sched ->] Hph.
  pose proof (l_result_of_ph _ _ Hph) as Hres.
  pose proof (handover_listener ds ls sched p Hw Hres) as (A & B & C & D).
  pose proof (agreement_listener ds ls sched _ Hw Hres) as E.
  repeat split; auto.
Qed.

(* L1: the listener has finished successfully and the dialer still awaits an answer: the
   answer is on the channel (so the dialer's next read is a negotiation frame, not payload) *)
Lemma await_has_message : forall ds ls m q p hr, wfd ds -> Reach ds ls m ->
  ml_ph (sl m) = MLDone (Some q) -> md_ph (sd m) = MDAwait p hr -> c_ld m <> [].
Proof.
  intros ds ls m q p hr Hw Hr Hl Hd Hc.
  destruct (handover_l ds ls m q Hw Hr Hl) as (_ & _ & _ & Hcl & _).
  destruct (Reach_converge ds ls m Hw Hr) as (n & F & Hreach & Hf).
  assert (HT : terminal m).
  { intros [|]; cbn; [unfold en_d; rewrite Hd, Hc, Hcl | unfold en_l; rewrite Hl]; reflexivity. }
  destruct (reach_terminal_0 ls n m F HT Hreach) as [_ ->].
  destruct Hf as (H1 & _). rewrite Hd in H1. discriminate.
Qed.

(* L2: once the dialer has finished successfully the listener never reads again *)
Section DialerDone.
  Variables (ds ls : list name) (F : msys) (p0 : name).
  Hypothesis HF : final_ok ds ls F.
  Hypothesis Hfc : first_common ds ls = Some p0.

  Lemma HT : terminal F.
  Proof. exact (final_terminal ds ls F HF). Qed.
  Lemma HF1 : c_ld F = [].
  Proof. pose proof HF as G. destruct G as (_ & _ & _ & _ & _ & H & _). exact H. Qed.
  Lemma HF2 : ld_closed F = false.
  Proof.
    pose proof HF as G. destruct G as (_ & _ & _ & _ & _ & _ & H).
    destruct (H p0 Hfc) as [_ H2]. exact H2.
  Qed.

  Lemma dd_flush : forall n m o x w, Inv m -> reach ls n m F -> d_done m = true ->
    ml_ph (sl m) = MLFlush o -> ml_wbuf (sl m) = x :: w -> False.
  Proof.
    intros n m o x w HI Hr Hd Hph Hw.
    assert (He : en false m = true) by (cbn; unfold en_l; rewrite Hph; reflexivity).
    destruct (reach_step ls n m F Hr false HI HT He) as (n' & _ & Hr').
    cbn in Hr'.
    assert (Hc : c_ld (mstep_l ls m) = c_ld m ++ [x]).
    { unfold mstep_l. rewrite Hph, Hw. reflexivity. }
    assert (Hd' : d_done (mstep_l ls m) = true).
    { destruct (frame_l ls m) as (Hsd & _). unfold d_done. rewrite Hsd. exact Hd. }
    destruct (reach_d_done ls n' _ F Hr' Hd') as (_ & suf & Hs).
    rewrite HF1, Hc in Hs. symmetry in Hs. apply app_eq_nil in Hs. destruct Hs as [Hs _].
    apply app_eq_nil in Hs. destruct Hs as [_ Hs]. discriminate.
  Qed.

  Lemma dd_send : forall n m, Inv m -> reach ls n m F -> d_done m = true ->
    (ml_ph (sl m) = MLSendHeader \/ exists x o, ml_ph (sl m) = MLSendMsg x o) -> False.
  Proof.
    intros n m HI Hr Hd Hph.
    assert (He : en false m = true).
    { cbn. unfold en_l. destruct Hph as [-> | (x & o & ->)]; reflexivity. }
    destruct (reach_step ls n m F Hr false HI HT He) as (n' & _ & Hr').
    cbn in Hr'.
    assert (Hd' : d_done (mstep_l ls m) = true).
    { destruct (frame_l ls m) as (Hsd & _). unfold d_done. rewrite Hsd. exact Hd. }
    assert (G : exists o x w, ml_ph (sl (mstep_l ls m)) = MLFlush o /\ ml_wbuf (sl (mstep_l ls m)) = x :: w).
    { unfold mstep_l. destruct Hph as [-> | (x & o & ->)]; cbn.
      - exists None. destruct (ml_wbuf (sl m)); cbn; eauto.
      - exists o. destruct (ml_wbuf (sl m)); cbn; eauto. }
    destruct G as (o & x & w & G1 & G2).
    exact (dd_flush n' _ o x w (Inv_step_l ls m HI) Hr' Hd' G1 G2).
  Qed.

  Lemma dd_read : forall n m, Inv m -> reach ls n m F -> d_done m = true -> dl_closed m = false ->
    (ml_ph (sl m) = MLRecvHeader \/ ml_ph (sl m) = MLRecvMsg) -> False.
  Proof.
    intros n m HI Hr Hd Hcl Hph.
    destruct (c_dl m) as [|x c] eqn:Ec.
    - (* blocked for ever: m would be terminal, hence final, but its listener is not done *)
      assert (HTm : terminal m).
      { intros [|]; cbn; [apply d_done_disabled; exact Hd|].
        unfold en_l. destruct Hph as [-> | ->]; rewrite Ec, Hcl; reflexivity. }
      destruct (reach_terminal_0 ls n m F HTm Hr) as [_ ->].
      pose proof HF as G. destruct G as (_ & H2 & _). destruct Hph as [E | E]; rewrite E in H2; discriminate.
    - assert (He : en false m = true).
      { cbn. unfold en_l. destruct Hph as [-> | ->]; rewrite Ec; reflexivity. }
      destruct (reach_step ls n m F Hr false HI HT He) as (n' & _ & Hr').
      cbn in Hr'.
      assert (Hd' : d_done (mstep_l ls m) = true).
      { destruct (frame_l ls m) as (Hsd & _). unfold d_done. rewrite Hsd. exact Hd. }
      pose proof (Inv_step_l ls m HI) as HI'.
      (* either the listener failed (closing its direction) or it is about to send *)
      assert (G : ld_closed (mstep_l ls m) = true \/
                  ml_ph (sl (mstep_l ls m)) = MLSendHeader \/
                  exists y o, ml_ph (sl (mstep_l ls m)) = MLSendMsg y o).
      { unfold mstep_l. destruct Hph as [-> | ->]; rewrite Ec.
        - destruct x; cbn; auto.
        - destruct x as [|q| |qs|]; cbn; auto.
          + destruct (l_find (sup ls) q); cbn; eauto.
          + eauto. }
      destruct G as [G | G].
      + destruct (reach_closed ls n' _ F Hr') as [_ Hc2]. pose proof HF2 as Q. rewrite (Hc2 G) in Q. discriminate.
      + exact (dd_send n' _ HI' Hr' Hd' G).
  Qed.
End DialerDone.

Lemma done_dialer_no_read : forall ds ls m p, wfd ds -> Reach ds ls m ->
  md_ph (sd m) = MDDone (Some p) ->
  ml_ph (sl m) <> MLRecvHeader /\ ml_ph (sl m) <> MLRecvMsg.
Proof.
  intros ds ls m p Hw Hr Hph.
  destruct (handover_d ds ls m p Hw Hr Hph) as (_ & _ & Hcl & _ & Hfc).
  destruct (Reach_converge ds ls m Hw Hr) as (n & F & Hreach & Hf).
  assert (Hd : d_done m = true) by (unfold d_done; rewrite Hph; reflexivity).
  pose proof (Reach_Inv ds ls m Hr) as HI.
  split; intros E.
  - eapply dd_read; eauto.
  - eapply dd_read; eauto.
Qed.

(* moreover a finished dialer has nothing left to be read by the listener, and the listener
   has nothing buffered: it is flushed or done *)
Lemma done_dialer_listener : forall ds ls m p, wfd ds -> Reach ds ls m ->
  md_ph (sd m) = MDDone (Some p) ->
  (exists o, ml_ph (sl m) = MLFlush o /\ ml_wbuf (sl m) = []) \/ (exists r, ml_ph (sl m) = MLDone r).
Proof.
  intros ds ls m p Hw Hr Hph.
  destruct (done_dialer_no_read ds ls m p Hw Hr Hph) as [N1 N2].
  destruct (handover_d ds ls m p Hw Hr Hph) as (_ & _ & Hcl & _ & Hfc).
  destruct (Reach_converge ds ls m Hw Hr) as (n & F & Hreach & Hf).
  assert (Hd : d_done m = true) by (unfold d_done; rewrite Hph; reflexivity).
  pose proof (Reach_Inv ds ls m Hr) as HI.
  destruct (ml_ph (sl m)) as [| | |x o|o|r] eqn:E.
  - congruence.
  - exfalso. eapply dd_send; eauto.
  - congruence.
  - exfalso. eapply dd_send; eauto.
  - destruct (ml_wbuf (sl m)) as [|x w] eqn:Ew.
    + left. exists o. split; reflexivity.
    + exfalso. eapply dd_flush; eauto.
  - right. eauto.
Qed.

(* ------------------------------------------------------------------ k consecutive moves of
   buffered messages onto the channel *)
Lemma d_moves : forall ls k m p hr, md_ph (sd m) = MDFlush p hr -> (k <= length (md_wbuf (sd m)))%nat ->
  mrun ls (repeat true k) m =
  mkS (mkD (MDFlush p hr) (md_rest (sd m)) (skipn k (md_wbuf (sd m)))) (sl m)
      (c_dl m ++ firstn k (md_wbuf (sd m))) (dl_closed m) (c_ld m) (ld_closed m).
Proof.
  intros ls k. induction k as [|k IH]; intros m p hr Hph Hk.
  - cbn. rewrite app_nil_r. destruct m as [[dph drest dw] l a b c d]. cbn in *. subst dph. reflexivity.
  - rewrite mrun_repeat_S. cbn [mtick].
    destruct m as [[dph drest dw] l a b c d]. cbn in Hph, Hk. subst dph.
    destruct dw as [|x dw]; [cbn in Hk; lia|].
    unfold mstep_d at 1. cbn [sd md_ph md_wbuf md_rest sl c_dl dl_closed c_ld ld_closed].
    rewrite (IH _ p hr) by (cbn in *; auto; lia).
    cbn. rewrite <- app_assoc. reflexivity.
Qed.

Lemma l_moves : forall ls k m o, ml_ph (sl m) = MLFlush o -> (k <= length (ml_wbuf (sl m)))%nat ->
  mrun ls (repeat false k) m =
  mkS (sd m) (mkL (MLFlush o) (skipn k (ml_wbuf (sl m)))) (c_dl m) (dl_closed m)
      (c_ld m ++ firstn k (ml_wbuf (sl m))) (ld_closed m).
Proof.
  intros ls k. induction k as [|k IH]; intros m o Hph Hk.
  - cbn. rewrite app_nil_r. destruct m as [d [lph lw] a b c e]. cbn in *. subst lph. reflexivity.
  - rewrite mrun_repeat_S. cbn [mtick].
    destruct m as [d [lph lw] a b c e]. cbn in Hph, Hk. subst lph.
    destruct lw as [|x lw]; [cbn in Hk; lia|].
    unfold mstep_l at 1. cbn [sl ml_ph ml_wbuf sd c_dl dl_closed c_ld ld_closed].
    rewrite (IH _ o) by (cbn in *; auto; lia).
    cbn. rewrite <- app_assoc. reflexivity.
Qed.

(* ------------------------------------------------------------------ the index the dialer
   reports: everything before the agreed name in its list is unsupported *)
Lemma Reach_converge2 : forall ds ls m, wfd ds -> Reach ds ls m ->
  exists n F, reach ls n m F /\ final_ok ds ls F /\ rest_ok ds ls F.
Proof.
  intros ds ls m Hw [sched ->].
  destruct (ref_run2 ds ls Hw) as (s0 & He & _ & Hf & Hrest).
  pose proof (eff_reach ls s0 _ He) as Hr.
  destruct (reach_run ls _ (final_terminal ds ls _ Hf) sched _ _ (Inv_init ds) Hr) as (k & _ & Hr').
  eauto.
Qed.

Lemma dialer_index : forall ds ls m p, wfd ds -> Reach ds ls m ->
  md_ph (sd m) = MDDone (Some p) ->
  exists pre, ds = pre ++ p :: md_rest (sd m) /\ Forall (fun x => supported ls x = false) pre.
Proof.
  intros ds ls m p Hw Hr Hph.
  destruct (handover_d ds ls m p Hw Hr Hph) as (_ & _ & _ & _ & Hfc).
  destruct (Reach_converge2 ds ls m Hw Hr) as (n & F & Hreach & Hf & Hrest).
  assert (Hd : d_done m = true) by (unfold d_done; rewrite Hph; reflexivity).
  destruct (reach_d_done ls n m F Hreach Hd) as [Hsd _].
  destruct (Hrest p Hfc) as (pre & E & Hu). rewrite Hsd in E. eauto.
Qed.
